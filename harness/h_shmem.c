/* C19 differential harness (engine `shmem`): shared-memory topologies.
 *
 * usage: shmem gen <nepisodes> <sources-file> <workdir> <plan-out> <ops-out> <c-out> <stats-out>   (seed = VERIF_SEED)
 *        shmem replay <plan-file> <workdir> <ops-out> <c-out>
 *
 * One plan line = one episode:
 *   <id> <kind S|X> <topology-flags> <miscall 0|1> <seed> <nmods> <offpages> <variant> <source...>
 * Everything inside an episode derives from <seed> (modifications are the first <nmods> of the sequence that
 * seed generates, so an episode shrinks by lowering <nmods>).
 *
 * For every episode the harness writes protocol lines to <ops-out> (answered by `hwmodel shmem`) and what the real
 * code did / what the property demands to <c-out>, line by line (see lean/Driver/Shmem.lean for the grammar):
 *   (1) hwloc__topology_dup twice with recording allocators wrapped around the REAL static allocators of shmem.c
 *       (tma_get_length_malloc / tma_shmem_malloc, reached by #include "shmem.c"): size traces of both passes, the
 *       counted length, the bump offsets, hwloc_shmem_topology_get_length;
 *   (2) real get_length / write / adopt on a file under <workdir>, mapped inside a PROT_NONE reservation so that the
 *       page right after every mapping is a guard page; file bytes before the offset keep their pattern, bytes beyond
 *       the bump pointer stay zero, the file ends at offset+length;
 *   (3) canonical dump (dump.h), XML export, distances, memattrs, cpukinds, infos of original vs adopted;
 *   (4) mismatching address / length / offset / flags / ABI / header fields, occupied ranges;
 *   (5) public modifying calls on the adopted topology inside a SIGSEGV/SIGBUS catcher, checksum of the mapping;
 *   (6) destroy unmaps (range reusable), re-adoption.
 * No input class is excluded: memattr queries, validated hwloc_topology_allow calls and every modifying entry point that
 * receives the topology are executed on the adopted topology (former findings F14, F16, F30, F31 are fixed in /repo; their
 * replays are ordinary corpus cases).  NOT in the call set, on purpose: hwloc_obj_add_info / hwloc_modify_infos on OBJECT
 * infos and direct stores to objects (no topology argument, cannot be guarded; objects of an adopted topology are
 * documented as read-only), hwloc_distances_transform (edits the caller's copy only).
 */
#include "private/autogen/config.h"
#include "hwloc.h"
#include "hwloc/shmem.h"
#include "private/private.h"
#include "shmem.c"          /* static allocators + struct hwloc_shmem_header (shmem.o is left out of the link) */
#include "dump.h"
#include "rng.h"
#include <stddef.h>
#include <stdio.h>
#include <string.h>
#include <errno.h>
#include <fcntl.h>
#include <signal.h>
#include <setjmp.h>
#include <stdarg.h>
#include <sys/stat.h>

static FILE *fops, *fout;
static const char *workdir;
static const int inc_f14 = 1;   /* the querying API is used on every memory attribute, on the adopted topology too */
static unsigned long PS;
static unsigned long st_ep, st_loadfail, st_write_ok, st_write_err, st_adopt_ok, st_adopt_einval, st_adopt_ebusy, st_adopt_fail,
  st_mod_eperm, st_mod_einval, st_mod_ebusy, st_mod_ok, st_signal, st_trace_allocs, st_kind_S, st_kind_X, st_mods, st_dist, st_mattr,
  st_kinds, st_misc, st_restrict, st_infos, st_allow, st_readopt, st_twoseg, st_origfirst, st_objs, st_len_pages, st_f14, st_f16, st_stale_orig, st_dirty_region;

/* ---- small helpers ---- */
static const char *errname(int e) {
  switch (e) {
  case EINVAL: return "EINVAL"; case ENOENT: return "ENOENT"; case EXDEV: return "EXDEV";
  case EBUSY: return "EBUSY"; case EPERM: return "EPERM"; case ENOSYS: return "ENOSYS";
  default: return "fail";
  }
}
static void op(const char *fmt, ...) { va_list ap; va_start(ap, fmt); vfprintf(fops, fmt, ap); va_end(ap); fputc('\n', fops); fflush(fops); }
static void ans(const char *fmt, ...) { va_list ap; va_start(ap, fmt); vfprintf(fout, fmt, ap); va_end(ap); fputc('\n', fout); fflush(fout); }

static uint64_t fnv(const void *p, size_t n, uint64_t h) {
  const unsigned char *c = p;
  for (size_t i = 0; i < n; i++) { h ^= c[i]; h *= 0x100000001b3ULL; }
  return h;
}
#define FNV0 0xcbf29ce484222325ULL

static sigjmp_buf jb; static volatile sig_atomic_t in_guarded, got_sig;
static void onsig(int s) { if (in_guarded) { got_sig = s; siglongjmp(jb, 1); } signal(s, SIG_DFL); raise(s); }
static void install_catcher(void) {
  struct sigaction sa; memset(&sa, 0, sizeof sa); sa.sa_handler = onsig; sa.sa_flags = SA_NODEFER;
  sigaction(SIGSEGV, &sa, NULL); sigaction(SIGBUS, &sa, NULL);
}
/* run `stmt` (which sets `rc`), catching SIGSEGV/SIGBUS; sig = 0 when it returned */
#define GUARDED(sig, ...) do { got_sig = 0; in_guarded = 1; if (!sigsetjmp(jb, 1)) { __VA_ARGS__; } in_guarded = 0; (sig) = got_sig; } while (0)

/* ---- address reservation: one PROT_NONE region; sub-ranges are released for hwloc and re-reserved afterwards ---- */
static char *R; static size_t RLEN = 768UL << 20;
static void reserve_init(void) {
  void *hint = (void *) (0x200000000000UL + ((rng_next() % 4096) << 28));
  R = mmap(hint, RLEN, PROT_NONE, MAP_PRIVATE | MAP_ANONYMOUS | MAP_NORESERVE | MAP_FIXED_NOREPLACE, -1, 0);
  if (R == MAP_FAILED) R = mmap(NULL, RLEN, PROT_NONE, MAP_PRIVATE | MAP_ANONYMOUS | MAP_NORESERVE, -1, 0);
  if (R == MAP_FAILED) { perror("reserve"); exit(3); }
}
static void hole(void *a, size_t len) { munmap(a, len); }                 /* make [a, a+len) available to hwloc */
static void refill(void *a, size_t len) {                                 /* back to PROT_NONE (also drops anything mapped there) */
  if (mmap(a, len, PROT_NONE, MAP_PRIVATE | MAP_ANONYMOUS | MAP_NORESERVE | MAP_FIXED, -1, 0) == MAP_FAILED) { perror("refill"); exit(3); }
}
static int range_is_free(void *a, size_t len) {   /* can the exact range be mapped without replacing anything? */
  void *p = mmap(a, len, PROT_NONE, MAP_PRIVATE | MAP_ANONYMOUS | MAP_NORESERVE | MAP_FIXED_NOREPLACE, -1, 0);
  if (p == MAP_FAILED) return 0;
  if (p != a) { munmap(p, len); return 0; }
  return 1;    /* and it is now reserved again */
}

/* ---- recording allocators around the real ones ---- */
struct rec { struct hwloc_tma outer, inner; size_t *sizes; size_t n, cap; char *base; uint32_t offhash; size_t counted; };
static void *rec_malloc(struct hwloc_tma *tma, size_t len) {
  struct rec *r = (struct rec *) ((char *) tma - offsetof(struct rec, outer));
  if (r->n == r->cap) { r->cap = r->cap ? 2 * r->cap : 1024; r->sizes = realloc(r->sizes, r->cap * sizeof(size_t)); }
  r->sizes[r->n++] = len;
  void *p = r->inner.malloc(&r->inner, len);
  if (r->base) r->offhash = r->offhash * 31u + (uint32_t) ((char *) p - r->base);
  return p;
}

/* ---- canonical texts (aux) ---- */
struct sbuf { char *s; size_t n, cap; };
static void sb(struct sbuf *b, const char *fmt, ...) {
  va_list ap; va_start(ap, fmt);
  char tmp[4096]; int k = vsnprintf(tmp, sizeof tmp, fmt, ap); va_end(ap);
  if (k < 0) return; if ((size_t) k >= sizeof tmp) k = sizeof tmp - 1;
  if (b->n + k + 1 > b->cap) { b->cap = 2 * (b->cap + k + 64); b->s = realloc(b->s, b->cap); }
  memcpy(b->s + b->n, tmp, k); b->n += k; b->s[b->n] = 0;
}
static void sb_set(struct sbuf *b, hwloc_const_bitmap_t s) { char *x = NULL; if (!s) { sb(b, "-"); return; } hwloc_bitmap_list_asprintf(&x, s); sb(b, "%s", x); free(x); }
static void sb_obj(struct sbuf *b, hwloc_obj_t o) { if (!o) sb(b, "NULL"); else sb(b, "%d:%llu", (int) o->type, (unsigned long long) o->gp_index); }

static uint64_t aux_xml(hwloc_topology_t t) {
  char *buf = NULL; int len = 0;
  if (hwloc_topology_export_xmlbuffer(t, &buf, &len, 0) < 0) return 1;
  uint64_t h = fnv(buf, len, FNV0);
  hwloc_free_xmlbuffer(t, buf);
  return h;
}
static uint64_t aux_dist(hwloc_topology_t t) {
  struct sbuf b = {0};
  unsigned nr = 0;
  hwloc_distances_get(t, &nr, NULL, 0, 0);
  struct hwloc_distances_s **d = calloc(nr + 1, sizeof(*d));
  unsigned n2 = nr;
  hwloc_distances_get(t, &n2, d, 0, 0);
  sb(&b, "nr=%u;", n2);
  for (unsigned i = 0; i < n2 && i < nr; i++) {
    const char *name = hwloc_distances_get_name(t, d[i]);
    sb(&b, "[%s k=%lu n=%u:", name ? name : "(null)", d[i]->kind, d[i]->nbobjs);
    for (unsigned j = 0; j < d[i]->nbobjs; j++) { sb_obj(&b, d[i]->objs[j]); sb(&b, ","); }
    for (unsigned j = 0; j < d[i]->nbobjs * d[i]->nbobjs; j++) sb(&b, "%llu,", (unsigned long long) d[i]->values[j]);
    sb(&b, "]");
    hwloc_distances_release(t, d[i]);
  }
  free(d);
  uint64_t h = fnv(b.s ? b.s : "", b.n, FNV0); free(b.s); return h;
}
/* memory attributes: names/flags through the API; targets/initiators/values of every attribute from the private arrays
 * (no refresh); convenience attributes (and everything when F14 is included) also through the querying API */
static uint64_t aux_mattr(hwloc_topology_t t, int api_all) {
  struct sbuf b = {0};
  sb(&b, "nr=%u;", t->nr_memattrs);
  for (unsigned id = 0; id < t->nr_memattrs; id++) {
    const char *name = NULL; unsigned long fl = 0;
    hwloc_memattr_get_name(t, id, &name); hwloc_memattr_get_flags(t, id, &fl);
    hwloc_memattr_id_t back = (hwloc_memattr_id_t) -1; hwloc_memattr_get_by_name(t, name, &back);
    sb(&b, "{%u %s f=%lu back=%u:", id, name, fl, back);
    struct hwloc_internal_memattr_s *im = &t->memattrs[id];
    sb(&b, " nt=%u", im->nr_targets);
    for (unsigned j = 0; j < im->nr_targets; j++) {
      struct hwloc_internal_memattr_target_s *tg = &im->targets[j];
      sb(&b, " T%d:%llu:%u v=%llu ni=%u", (int) tg->type, (unsigned long long) tg->gp_index, tg->os_index,
         (unsigned long long) tg->noinitiator_value, tg->nr_initiators);
      for (unsigned k = 0; k < tg->nr_initiators; k++) {
        struct hwloc_internal_memattr_initiator_s *imi = &tg->initiators[k];
        if (imi->initiator.type == HWLOC_LOCATION_TYPE_CPUSET) { sb(&b, " Ic="); sb_set(&b, imi->initiator.location.cpuset); }
        else sb(&b, " Io=%d:%llu", (int) imi->initiator.location.object.type, (unsigned long long) imi->initiator.location.object.gp_index);
        sb(&b, "=%llu", (unsigned long long) imi->value);
      }
    }
    if (id == HWLOC_MEMATTR_ID_CAPACITY || id == HWLOC_MEMATTR_ID_LOCALITY || api_all) {
      unsigned nr = 64; hwloc_obj_t tg[64]; hwloc_uint64_t vals[64];
      int rc = hwloc_memattr_get_targets(t, id, NULL, 0, &nr, tg, (fl & HWLOC_MEMATTR_FLAG_NEED_INITIATOR) ? NULL : vals);
      sb(&b, " api rc=%d nr=%u", rc, nr);
      for (unsigned j = 0; j < nr && j < 64; j++) {
        sb(&b, " "); sb_obj(&b, tg[j]);
        if (!(fl & HWLOC_MEMATTR_FLAG_NEED_INITIATOR)) sb(&b, "=%llu", (unsigned long long) vals[j]);
        else {
          unsigned ni = 16; struct hwloc_location il[16]; hwloc_uint64_t iv[16];
          int r2 = hwloc_memattr_get_initiators(t, id, tg[j], 0, &ni, il, iv);
          sb(&b, " ini rc=%d n=%u", r2, ni);
          for (unsigned k = 0; k < ni && k < 16; k++) {
            if (il[k].type == HWLOC_LOCATION_TYPE_CPUSET) { sb(&b, " c="); sb_set(&b, il[k].location.cpuset); } else { sb(&b, " o="); sb_obj(&b, il[k].location.object); }
            sb(&b, "=%llu", (unsigned long long) iv[k]);
          }
        }
      }
    }
    sb(&b, "}");
  }
  if (getenv("VERIF_SHMEM_DEBUG")) fprintf(stderr, "MATTR %p: %s\n", (void *) t, b.s);
  uint64_t h = fnv(b.s ? b.s : "", b.n, FNV0); free(b.s); return h;
}
static uint64_t aux_kinds(hwloc_topology_t t) {
  struct sbuf b = {0};
  int nr = hwloc_cpukinds_get_nr(t, 0);
  sb(&b, "nr=%d;", nr);
  hwloc_bitmap_t s = hwloc_bitmap_alloc();
  for (int i = 0; i < nr; i++) {
    int eff = -99; struct hwloc_infos_s *ip = NULL;
    int rc = hwloc_cpukinds_get_info(t, i, s, &eff, &ip, 0);
    sb(&b, "[rc=%d ", rc); sb_set(&b, s); sb(&b, " e=%d", eff);
    if (ip) for (unsigned j = 0; j < ip->count; j++) sb(&b, " %s=%s", ip->array[j].name, ip->array[j].value);
    sb(&b, " by=%d]", hwloc_cpukinds_get_by_cpuset(t, s, 0));
  }
  hwloc_bitmap_free(s);
  uint64_t h = fnv(b.s ? b.s : "", b.n, FNV0); free(b.s); return h;
}
/* everything else of struct hwloc_topology the dump does not show: support arrays, is_thissystem, pid-independent state */
static uint64_t aux_misc(hwloc_topology_t t) {
  struct sbuf b = {0};
  const struct hwloc_topology_support *sp = hwloc_topology_get_support(t);
  sb(&b, "thissystem=%d ", hwloc_topology_is_thissystem(t));
  sb(&b, "disc=%llx ", (unsigned long long) fnv(sp->discovery, sizeof(*sp->discovery), FNV0));
  sb(&b, "misc=%llx ", (unsigned long long) fnv(sp->misc, sizeof(*sp->misc), FNV0));
  sb(&b, "nblevels=%u ", t->nb_levels);
  /* by-gp / by-type lookups through the API */
  for (int ty = 0; ty < HWLOC_OBJ_TYPE_MAX; ty++) sb(&b, "%d,", hwloc_get_nbobjs_by_type(t, (hwloc_obj_type_t) ty));
  uint64_t h = fnv(b.s, b.n, FNV0); free(b.s); return h;
}
static void put_tinfos(const char *tag, hwloc_topology_t t) {
  struct hwloc_infos_s *ip = hwloc_topology_get_infos(t);
  fprintf(fops, "tinfos %s %u", tag, ip->count);
  for (unsigned i = 0; i < ip->count; i++) { dump_hexstr(fops, ip->array[i].name); dump_hexstr(fops, ip->array[i].value); }
  fputc('\n', fops); fflush(fops);
}
/* dump + tinfos + aux lines for a topology; `expect` = what the C column demands for END/tinfos/aux lines */
static void put_dump(hwloc_topology_t t, const char *tag, int is_orig) {
  char path[1200]; snprintf(path, sizeof path, "%s/dump.tmp", workdir);
  FILE *f = fopen(path, "w+");
  unsigned lines = dump_topology(f, t, tag);
  rewind(f);
  char *line = NULL; size_t cap = 0; ssize_t k; unsigned i = 0;
  while ((k = getline(&line, &cap, f)) > 0) {
    fputs(line, fops); i++;
    if (i < lines) ans("."); else ans(is_orig ? "stored wf=ok" : "EQUIV ok wf=ok");
  }
  free(line); fclose(f); fflush(fops);
}
static void put_content(hwloc_topology_t t, const char *tag, int is_orig) {
  put_dump(t, tag, is_orig);
  put_tinfos(tag, t); ans(is_orig ? "." : "eq");
  op("aux %s xml %llx", tag, (unsigned long long) aux_xml(t)); ans(is_orig ? "." : "eq");
  op("aux %s dist %llx", tag, (unsigned long long) aux_dist(t)); ans(is_orig ? "." : "eq");
  { uint64_t hm = 0; int sig; GUARDED(sig, hm = aux_mattr(t, inc_f14));
    if (sig) { op("aux %s mattr SIGNAL%d", tag, sig); st_signal++; } else op("aux %s mattr %llx", tag, (unsigned long long) hm);
    ans(is_orig ? "." : "eq"); }
  op("aux %s kinds %llx", tag, (unsigned long long) aux_kinds(t)); ans(is_orig ? "." : "eq");
  op("aux %s misc %llx", tag, (unsigned long long) aux_misc(t)); ans(is_orig ? "." : "eq");
}

/* ---- building and modifying the original ---- */
static int app(char *s, int off, int cap, const char *fmt, ...) {
  va_list ap; va_start(ap, fmt); int n = vsnprintf(s + off, cap - off, fmt, ap); va_end(ap); return off + n;
}
static void gen_synthetic(char *s, int cap) {
  int off = 0; unsigned budget = 96;
#define CNT() ({ unsigned c = 1 + rng_below(rng_chance(70) ? 2 : 4); if (c > budget) c = 1; budget /= c; c; })
  int numa_mode = rng_below(4);
  if (rng_chance(20)) off = app(s, off, cap, "group:%u ", CNT());
  if (rng_chance(75)) { off = app(s, off, cap, "pack:%u ", CNT()); if (numa_mode >= 2 && rng_chance(60)) { off = app(s, off, cap, "[numa%s] ", rng_chance(40) ? "(memory=1GB)" : ""); if (numa_mode == 2) numa_mode = 0; } }
  if (numa_mode == 1) off = app(s, off, cap, "numa:%u%s ", CNT(), rng_chance(30) ? "(memory=256MB)" : "");
  if (rng_chance(40)) { off = app(s, off, cap, "l3:%u%s ", CNT(), rng_chance(30) ? "(size=8MB)" : ""); if (numa_mode >= 2) { off = app(s, off, cap, "[numa] "); numa_mode = 0; } }
  if (rng_chance(40)) off = app(s, off, cap, "l2:%u ", CNT());
  if (rng_chance(30)) off = app(s, off, cap, "l1:%u ", 1u);
  if (rng_chance(80)) off = app(s, off, cap, "core:%u ", CNT());
  off = app(s, off, cap, "pu:%u", CNT());
}

static hwloc_obj_t random_obj(hwloc_topology_t t) {
  int depth = hwloc_topology_get_depth(t);
  static const int sd[] = {HWLOC_TYPE_DEPTH_NUMANODE, HWLOC_TYPE_DEPTH_MISC, HWLOC_TYPE_DEPTH_PCI_DEVICE, HWLOC_TYPE_DEPTH_OS_DEVICE};
  int d = rng_chance(75) ? (int) rng_below(depth) : sd[rng_below(4)];
  unsigned n = hwloc_get_nbobjs_by_depth(t, d);
  if (!n) { d = 0; n = 1; }
  return hwloc_get_obj_by_depth(t, d, rng_below(n));
}

static void mod_restrict(hwloc_topology_t t) {
  hwloc_obj_t root = hwloc_get_root_obj(t);
  hwloc_bitmap_t s = hwloc_bitmap_dup(root->cpuset);
  int w = hwloc_bitmap_weight(s);
  if (w <= 1) { hwloc_bitmap_free(s); return; }
  if (rng_chance(50)) {  /* drop a whole object's cpuset */
    hwloc_obj_t o = random_obj(t);
    if (o->cpuset && !hwloc_bitmap_isequal(o->cpuset, root->cpuset) && !hwloc_bitmap_iszero(o->cpuset)) hwloc_bitmap_andnot(s, s, o->cpuset);
  } else {
    int idx; unsigned drop = 1 + rng_below(w / 2 ? w / 2 : 1);
    hwloc_bitmap_foreach_begin(idx, root->cpuset) if (drop && rng_chance(30)) { hwloc_bitmap_clr(s, idx); drop--; } hwloc_bitmap_foreach_end();
  }
  if (hwloc_bitmap_iszero(s)) { hwloc_bitmap_free(s); return; }
  static const unsigned long fl[] = {0, HWLOC_RESTRICT_FLAG_REMOVE_CPULESS, HWLOC_RESTRICT_FLAG_ADAPT_MISC, HWLOC_RESTRICT_FLAG_ADAPT_IO,
                                     HWLOC_RESTRICT_FLAG_REMOVE_CPULESS | HWLOC_RESTRICT_FLAG_ADAPT_MISC | HWLOC_RESTRICT_FLAG_ADAPT_IO};
  hwloc_topology_restrict(t, s, fl[rng_below(5)]);
  hwloc_bitmap_free(s); st_restrict++;
}
static void mod_dist(hwloc_topology_t t) {
  /* side finding (C13, not C19): on a topology loaded with NO_DISTANCES, user-added distances are not invalidated by restrict and
   * hwloc_distances_get() then returns pointers to freed objects; do not build such originals */
  if (hwloc_topology_get_flags(t) & HWLOC_TOPOLOGY_FLAG_NO_DISTANCES) return;
  static const hwloc_obj_type_t tys[] = {HWLOC_OBJ_NUMANODE, HWLOC_OBJ_PU, HWLOC_OBJ_CORE, HWLOC_OBJ_PACKAGE};
  hwloc_obj_type_t ty = tys[rng_below(4)];
  int n = hwloc_get_nbobjs_by_type(t, ty);
  if (n < 2) return;
  unsigned nb = 2 + rng_below(n - 1 < 7 ? n - 1 : 7);
  hwloc_obj_t objs[16]; hwloc_uint64_t vals[256];
  unsigned start = rng_below(n - nb + 1);
  for (unsigned i = 0; i < nb; i++) objs[i] = hwloc_get_obj_by_type(t, ty, start + i);
  for (unsigned i = 0; i < nb * nb; i++) vals[i] = 1 + rng_below(1000);
  char name[32]; snprintf(name, sizeof name, "Verif%u", rng_below(4));
  unsigned long kind = HWLOC_DISTANCES_KIND_FROM_USER | (rng_chance(50) ? HWLOC_DISTANCES_KIND_VALUE_LATENCY : HWLOC_DISTANCES_KIND_VALUE_BANDWIDTH);
  hwloc_distances_add_handle_t h = hwloc_distances_add_create(t, rng_chance(80) ? name : NULL, kind, 0);
  if (!h) return;
  if (hwloc_distances_add_values(t, h, nb, objs, vals, 0) < 0) return;
  hwloc_distances_add_commit(t, h, 0);
  st_dist++;
}
static void mod_mattr(hwloc_topology_t t) {
  if (hwloc_topology_get_flags(t) & HWLOC_TOPOLOGY_FLAG_NO_MEMATTRS) return;
  int nn = hwloc_get_nbobjs_by_type(t, HWLOC_OBJ_NUMANODE);
  if (!nn) return;
  hwloc_memattr_id_t id;
  unsigned which = rng_below(4);
  unsigned long fl = 0;
  if (which == 0) id = HWLOC_MEMATTR_ID_BANDWIDTH;
  else if (which == 1) id = HWLOC_MEMATTR_ID_LATENCY;
  else {
    char name[32]; snprintf(name, sizeof name, "VerifAttr%u", rng_below(3));
    fl = (rng_chance(50) ? HWLOC_MEMATTR_FLAG_HIGHER_FIRST : HWLOC_MEMATTR_FLAG_LOWER_FIRST) | (rng_chance(50) ? HWLOC_MEMATTR_FLAG_NEED_INITIATOR : 0);
    if (hwloc_memattr_get_by_name(t, name, &id) < 0 && hwloc_memattr_register(t, name, fl, &id) < 0) return;
  }
  hwloc_memattr_get_flags(t, id, &fl);
  unsigned nv = 1 + rng_below(4);
  for (unsigned i = 0; i < nv; i++) {
    hwloc_obj_t node = hwloc_get_obj_by_type(t, HWLOC_OBJ_NUMANODE, rng_below(nn));
    struct hwloc_location loc, *lp = NULL;
    if (fl & HWLOC_MEMATTR_FLAG_NEED_INITIATOR) {
      hwloc_obj_t o = random_obj(t);
      if (rng_chance(60) && o->cpuset && !hwloc_bitmap_iszero(o->cpuset)) { loc.type = HWLOC_LOCATION_TYPE_CPUSET; loc.location.cpuset = o->cpuset; }
      else { loc.type = HWLOC_LOCATION_TYPE_OBJECT; loc.location.object = o; }
      lp = &loc;
    }
    hwloc_memattr_set_value(t, id, node, lp, 0, 1 + rng_below(100000));
  }
  st_mattr++;
}
static void mod_kinds(hwloc_topology_t t) {
  if (hwloc_topology_get_flags(t) & HWLOC_TOPOLOGY_FLAG_NO_CPUKINDS) return;
  hwloc_obj_t o = random_obj(t);
  if (!o->cpuset || hwloc_bitmap_iszero(o->cpuset)) o = hwloc_get_root_obj(t);
  struct hwloc_info_s infos[2]; char v[16]; snprintf(v, sizeof v, "%u", rng_below(5));
  infos[0].name = (char *) "FrequencyMaxMHz"; infos[0].value = v; infos[1].name = (char *) "CoreType"; infos[1].value = (char *) "VerifCore";
  struct hwloc_infos_s is = { infos, 1 + rng_below(2), 0 };
  hwloc_cpukinds_register(t, o->cpuset, rng_chance(50) ? (int) rng_below(4) : -1, &is, 0);
  st_kinds++;
}
static void mod_misc(hwloc_topology_t t) {
  char name[32]; snprintf(name, sizeof name, "misc%u", rng_below(1000));
  hwloc_obj_t m = hwloc_topology_insert_misc_object(t, random_obj(t), rng_chance(85) ? name : NULL);
  if (m) { st_misc++; if (rng_chance(40)) hwloc_obj_add_info(m, "MiscKey", "MiscValue"); }
}
static void mod_infos(hwloc_topology_t t) {
  char k[24], v[24]; snprintf(k, sizeof k, "Key%u", rng_below(4)); snprintf(v, sizeof v, "Value %u", rng_below(100));
  if (rng_chance(50)) hwloc_obj_add_info(random_obj(t), k, v);
  else hwloc_modify_infos(hwloc_topology_get_infos(t), rng_chance(70) ? HWLOC_MODIFY_INFOS_OP_ADD : HWLOC_MODIFY_INFOS_OP_REPLACE, k, v);
  if (rng_chance(30)) hwloc_obj_set_subtype(t, random_obj(t), "VerifSubtype");
  st_infos++;
}
static void apply_mods(hwloc_topology_t t, unsigned nmods) {
  for (unsigned i = 0; i < nmods; i++) {
    switch (rng_below(8)) {
    case 0: mod_restrict(t); break;
    case 1: case 2: mod_dist(t); break;
    case 3: case 4: mod_mattr(t); break;
    case 5: mod_kinds(t); break;
    case 6: mod_misc(t); break;
    default: mod_infos(t); break;
    }
    st_mods++;
  }
}

static hwloc_topology_t load_orig(char kind, unsigned long flags, int miscall, const char *src) {
  hwloc_topology_t t;
  if (hwloc_topology_init(&t) < 0) return NULL;
  if (hwloc_topology_set_flags(t, flags) < 0) { hwloc_topology_destroy(t); return NULL; }
  if (miscall) hwloc_topology_set_type_filter(t, HWLOC_OBJ_MISC, HWLOC_TYPE_FILTER_KEEP_ALL);
  if (miscall == 2) hwloc_topology_set_io_types_filter(t, HWLOC_TYPE_FILTER_KEEP_ALL);
  int err = kind == 'S' ? hwloc_topology_set_synthetic(t, src) : hwloc_topology_set_xml(t, src);
  if (err < 0 || hwloc_topology_load(t) < 0) { hwloc_topology_destroy(t); return NULL; }
  return t;
}

/* ---- the shared file ---- */
static int fd = -1; static char fpath[1200];
static void file_open(void) {
  snprintf(fpath, sizeof fpath, "%s/shm.bin", workdir);
  fd = open(fpath, O_RDWR | O_CREAT | O_TRUNC, 0600);
  if (fd < 0) { perror("open shm file"); exit(3); }
}
static void file_fill(off_t upto) {  /* pattern in [0, upto) */
  char page[4096]; memset(page, 0xA5, sizeof page);
  for (off_t o = 0; o < upto; o += sizeof page) if (pwrite(fd, page, sizeof page, o) != sizeof page) exit(3);
  if (ftruncate(fd, upto) < 0) exit(3);
}
static int prefix_same(off_t upto) {
  char page[4096];
  for (off_t o = 0; o < upto; o += sizeof page) { if (pread(fd, page, sizeof page, o) != sizeof page) return 0; for (unsigned i = 0; i < sizeof page; i++) if ((unsigned char) page[i] != 0xA5) return 0; }
  return 1;
}
static int seg_fill;      /* what the segment held before the write: 0 (fresh) or the 0xC3 pattern of a dirty region */
static long long last_nonzero(off_t off, size_t len) {  /* index+1 (relative to off) of the last byte of the segment that differs from what it held before, 0 if none */
  char *m = mmap(NULL, len, PROT_READ, MAP_SHARED, fd, off);
  if (m == MAP_FAILED) return -1;
  long long i = (long long) len;
  while (i > 0 && m[i - 1] == (char) seg_fill) i--;
  munmap(m, len);
  return i;
}

struct seg { off_t off; char *addr; size_t len; int written; };

static void put_hdr_line(struct seg *s) {
  struct hwloc_shmem_header h; memset(&h, 0, sizeof h);
  ssize_t k = pread(fd, &h, sizeof h, s->off);
  if (k != sizeof h) { op("hdr %lld none", (long long) s->off); ans("hdr ok"); return; }
  op("hdr %lld %u %u %llx %llu", (long long) s->off, h.header_version, h.header_length, (unsigned long long) h.mmap_address, (unsigned long long) h.mmap_length);
  ans("hdr ok");
}

/* one write attempt; emits the `write` line */
static int do_write(hwloc_topology_t t, struct seg *s, char *addr, size_t len, unsigned long flags) {
  int rc = 0, sig, e;
  op("write %lu %lld %llx %llu", flags, (long long) s->off, (unsigned long long) (uintptr_t) addr, (unsigned long long) len);
  errno = 0;
  GUARDED(sig, rc = hwloc_shmem_topology_write(t, fd, s->off, addr, len, flags));
  e = errno;
  if (sig) { ans("SIGNAL %d", sig); st_signal++; return -1; }
  if (rc == 0) { ans("ok"); st_write_ok++; } else { ans("%s", errname(e)); st_write_err++; }
  return rc;
}

struct live { hwloc_topology_t t; struct seg *s; int id; };
static int next_handle;

static int do_adopt(struct live *lv, struct seg *s, off_t off, char *addr, size_t len, unsigned long flags) {
  int rc = 0, sig, e; hwloc_topology_t a = NULL;
  op("adopt %lu %lld %llx %llu", flags, (long long) off, (unsigned long long) (uintptr_t) addr, (unsigned long long) len);
  errno = 0;
  GUARDED(sig, rc = hwloc_shmem_topology_adopt(&a, fd, off, addr, len, flags));
  e = errno;
  if (sig) { ans("SIGNAL %d", sig); st_signal++; return -1; }
  if (rc == 0) { ans("ok"); st_adopt_ok++; if (lv) { lv->t = a; lv->s = s; lv->id = next_handle; } next_handle++; }
  else { ans("%s", errname(e)); if (e == EINVAL) st_adopt_einval++; else if (e == EBUSY) st_adopt_ebusy++; else st_adopt_fail++; }
  return rc;
}

static uint64_t map_sum(struct live *lv) { return fnv(lv->s->addr, lv->s->len, FNV0); }

/* a modifying call by name; result: errno class of the failure, "ok" when it succeeded */
static void do_mod(struct live *lv, const char *fn, hwloc_topology_t helper) {
  hwloc_topology_t a = lv->t;
  uint64_t before = map_sum(lv);
  int sig; long rc = 0; int e; int failed = 0;
  hwloc_obj_t root = hwloc_get_root_obj(a);
  hwloc_obj_t pu = hwloc_get_obj_by_type(a, HWLOC_OBJ_PU, 0);
  struct hwloc_distances_s *dist1 = NULL;
  if (!strcmp(fn, "hwloc_distances_release_remove")) {   /* needs a distances structure that belongs to this topology */
    unsigned nr = 1;
    if (hwloc_distances_get(a, &nr, &dist1, 0, 0) < 0 || !nr || !dist1) return;
  }
  op("mod %d %s", lv->id, fn);
  errno = 0;
  GUARDED(sig, {
    if (!strcmp(fn, "hwloc_topology_restrict")) { rc = hwloc_topology_restrict(a, pu ? pu->cpuset : root->cpuset, 0); failed = rc < 0; }
    else if (!strcmp(fn, "hwloc_topology_insert_misc_object")) { rc = (long) hwloc_topology_insert_misc_object(a, root, "m"); failed = !rc; }
    else if (!strcmp(fn, "hwloc_topology_alloc_group_object")) { rc = (long) hwloc_topology_alloc_group_object(a); failed = !rc; }
    else if (!strcmp(fn, "hwloc_topology_free_group_object")) { hwloc_obj_t g = hwloc_topology_alloc_group_object(helper); rc = hwloc_topology_free_group_object(a, g); failed = rc < 0; if (failed) hwloc_topology_free_group_object(helper, g); }
    else if (!strcmp(fn, "hwloc_topology_insert_group_object")) { hwloc_obj_t g = hwloc_topology_alloc_group_object(helper); if (g) { g->cpuset = hwloc_bitmap_dup(hwloc_get_root_obj(helper)->cpuset); } rc = (long) hwloc_topology_insert_group_object(a, g); failed = !rc; }
    else if (!strcmp(fn, "hwloc_distances_add_create")) { rc = (long) hwloc_distances_add_create(a, "x", HWLOC_DISTANCES_KIND_FROM_USER | HWLOC_DISTANCES_KIND_VALUE_LATENCY, 0); failed = !rc; }
    else if (!strcmp(fn, "hwloc_distances_remove")) { rc = hwloc_distances_remove(a); failed = rc < 0; }
    else if (!strcmp(fn, "hwloc_distances_remove_by_depth")) { rc = hwloc_distances_remove_by_depth(a, hwloc_get_type_depth(a, HWLOC_OBJ_PU)); failed = rc < 0; }
    else if (!strcmp(fn, "hwloc_topology_diff_apply")) { struct hwloc_topology_diff_too_complex_s d; memset(&d, 0, sizeof d); d.type = HWLOC_TOPOLOGY_DIFF_TOO_COMPLEX; rc = hwloc_topology_diff_apply(a, (hwloc_topology_diff_t) &d, 0); failed = rc < 0; }
    else if (!strcmp(fn, "hwloc_topology_load")) { rc = hwloc_topology_load(a); failed = rc < 0; }
    else if (!strcmp(fn, "hwloc_topology_set_flags")) { rc = hwloc_topology_set_flags(a, 0); failed = rc < 0; }
    else if (!strcmp(fn, "hwloc_topology_set_type_filter")) { rc = hwloc_topology_set_type_filter(a, HWLOC_OBJ_MISC, HWLOC_TYPE_FILTER_KEEP_ALL); failed = rc < 0; }
    else if (!strcmp(fn, "hwloc_topology_set_all_types_filter")) { rc = hwloc_topology_set_all_types_filter(a, HWLOC_TYPE_FILTER_KEEP_ALL); failed = rc < 0; }
    else if (!strcmp(fn, "hwloc_topology_set_synthetic")) { rc = hwloc_topology_set_synthetic(a, "pu:2"); failed = rc < 0; }
    else if (!strcmp(fn, "hwloc_topology_set_xml")) { rc = hwloc_topology_set_xml(a, "/nonexistent.xml"); failed = rc < 0; }
    else if (!strcmp(fn, "hwloc_topology_set_xmlbuffer")) { rc = hwloc_topology_set_xmlbuffer(a, "<topology/>", 12); failed = rc < 0; }
    else if (!strcmp(fn, "hwloc_topology_set_pid")) { rc = hwloc_topology_set_pid(a, 1); failed = rc < 0; }
    else if (!strcmp(fn, "hwloc_topology_set_components")) { rc = hwloc_topology_set_components(a, HWLOC_TOPOLOGY_COMPONENTS_FLAG_BLACKLIST, "xml"); failed = rc < 0; }
    else if (!strcmp(fn, "hwloc_memattr_register")) { hwloc_memattr_id_t id; rc = hwloc_memattr_register(a, "VerifAdopted", HWLOC_MEMATTR_FLAG_HIGHER_FIRST, &id); failed = rc < 0; }
    else if (!strcmp(fn, "hwloc_memattr_set_value")) { hwloc_obj_t n = hwloc_get_obj_by_type(a, HWLOC_OBJ_NUMANODE, 0); struct hwloc_location l; l.type = HWLOC_LOCATION_TYPE_CPUSET; l.location.cpuset = root->cpuset; rc = n ? hwloc_memattr_set_value(a, HWLOC_MEMATTR_ID_BANDWIDTH, n, &l, 0, 7) : -1; failed = rc < 0; }
    else if (!strcmp(fn, "hwloc_cpukinds_register")) { rc = hwloc_cpukinds_register(a, root->cpuset, 1, NULL, 0); failed = rc < 0; }
    else if (!strcmp(fn, "hwloc_topology_refresh")) { rc = hwloc_topology_refresh(a); failed = rc < 0; }
    else if (!strcmp(fn, "hwloc_obj_set_subtype")) { rc = hwloc_obj_set_subtype(a, root, "x"); failed = rc < 0; }
    else if (!strcmp(fn, "hwloc_distances_release_remove")) { rc = hwloc_distances_release_remove(a, dist1); failed = rc < 0; if (failed) hwloc_distances_release(a, dist1); }
    else { rc = -1; failed = 1; errno = ENOSYS; }
  });
  e = errno;
  if (sig) { ans("SIGNAL same"); st_signal++; return; }
  const char *same = map_sum(lv) == before ? "same" : "CHANGED";
  if (!failed) { ans("ok %s", same); st_mod_ok++; }
  else { ans("%s %s", errname(e), same); if (e == EPERM) st_mod_eperm++; else if (e == EINVAL) st_mod_einval++; else if (e == EBUSY) st_mod_ebusy++; }
}

static void set_hex(FILE *f, hwloc_const_bitmap_t s) { dump_set(f, s); }

static void do_allow(struct live *lv, unsigned long flags, hwloc_const_bitmap_t c, hwloc_const_bitmap_t n) {
  uint64_t before = map_sum(lv);
  int sig, rc = 0, e;
  fprintf(fops, "allow %d %lu", lv->id, flags); set_hex(fops, c); set_hex(fops, n); fputc('\n', fops); fflush(fops);
  errno = 0;
  GUARDED(sig, rc = hwloc_topology_allow(lv->t, c, n, flags));
  e = errno;
  st_allow++;
  if (sig) { ans("SIGNAL same"); st_signal++; return; }
  const char *same = map_sum(lv) == before ? "same" : "CHANGED";
  if (rc < 0) { ans("%s %s", errname(e), same); return; }
  fprintf(fout, "ok %s allowed=", same); dump_set(fout, hwloc_topology_get_allowed_cpuset(lv->t)); dump_set(fout, hwloc_topology_get_allowed_nodeset(lv->t)); fputc('\n', fout); fflush(fout);
}

static void do_destroy(struct live *lv) {
  op("destroy %d", lv->id);
  hwloc_topology_destroy(lv->t);
  lv->t = NULL;
  /* the range must be mappable again without replacing anything; the call re-reserves it */
  if (range_is_free(lv->s->addr, lv->s->len)) ans("unmapped"); else { ans("STILL-MAPPED"); refill(lv->s->addr, lv->s->len); }
}

static const char *GUARDED_FNS[] = {"hwloc_topology_restrict", "hwloc_topology_insert_misc_object", "hwloc_topology_alloc_group_object",
  "hwloc_topology_free_group_object", "hwloc_topology_insert_group_object", "hwloc_distances_add_create", "hwloc_distances_remove",
  "hwloc_distances_remove_by_depth", "hwloc_topology_diff_apply", "hwloc_memattr_register", "hwloc_memattr_set_value",
  "hwloc_cpukinds_register", "hwloc_topology_refresh", "hwloc_obj_set_subtype", "hwloc_distances_release_remove"};
#define NGUARDED 15
static const char *BUSY_FNS[] = {"hwloc_topology_load", "hwloc_topology_set_flags", "hwloc_topology_set_type_filter", "hwloc_topology_set_all_types_filter",
  "hwloc_topology_set_synthetic", "hwloc_topology_set_xml", "hwloc_topology_set_xmlbuffer", "hwloc_topology_set_pid", "hwloc_topology_set_components"};

/* the calls on a live adopted topology */
static int sweep_all;   /* variant bit 16: additionally call every guarded entry point once */
static void exercise_adopted(struct live *lv, hwloc_topology_t helper, unsigned long tflags, int phase) {
  unsigned ncalls = phase == 1 ? 6 + rng_below(10) : 1 + rng_below(4);
  for (unsigned i = 0; i < ncalls; i++) {
    unsigned k = phase == 1 ? rng_below(100) : 80;
    if (phase == 1 && k >= 78 && k < 88) k = 0;
    if (k < 55) do_mod(lv, GUARDED_FNS[rng_below(NGUARDED)], helper);
    else if (k < 70) do_mod(lv, BUSY_FNS[rng_below(9)], helper);
    else if (k < 78) {
      unsigned long v = 1 + rng_below(1000);
      op("userdata %d %lu", lv->id, v);
      hwloc_topology_set_userdata(lv->t, (void *) v);
      ans("ok same ud=%lu", (unsigned long) hwloc_topology_get_userdata(lv->t));
    } else if (k < 88) {
      char kk[16], vv[16]; snprintf(kk, sizeof kk, "AKey%u", rng_below(3)); snprintf(vv, sizeof vv, "v%u", rng_below(50));
      uint64_t before = map_sum(lv);
      fprintf(fops, "infosadd %d", lv->id); dump_hexstr(fops, kk); dump_hexstr(fops, vv); fputc('\n', fops); fflush(fops);
      int rc = hwloc_modify_infos(hwloc_topology_get_infos(lv->t), HWLOC_MODIFY_INFOS_OP_ADD, kk, vv);
      ans("%s %s n=%u", rc < 0 ? "fail" : "ok", map_sum(lv) == before ? "same" : "CHANGED", hwloc_topology_get_infos(lv->t)->count);
    } else {
      /* hwloc_topology_allow: calls refused by validation are always in the stream; calls that pass validation store into
       * the mapping on the current tree (F16) and are executed only with the switch */
      hwloc_obj_t rt = hwloc_get_root_obj(lv->t);
      int lastc = hwloc_bitmap_last(rt->complete_cpuset), lastn = hwloc_bitmap_last(rt->complete_nodeset);
      hwloc_bitmap_t far = hwloc_bitmap_alloc(); hwloc_bitmap_set(far, (lastc > lastn ? lastc : lastn) + 70);
      hwloc_bitmap_t some = hwloc_bitmap_alloc(); hwloc_bitmap_set(some, hwloc_bitmap_first(hwloc_get_root_obj(lv->t)->cpuset));
      unsigned v = rng_below(6);
      int incl = (tflags & HWLOC_TOPOLOGY_FLAG_INCLUDE_DISALLOWED) != 0;
      if (!incl) { if (v & 1) do_allow(lv, HWLOC_ALLOW_FLAG_ALL, NULL, NULL); else do_allow(lv, HWLOC_ALLOW_FLAG_CUSTOM, some, NULL); }
      else if (v == 0) do_allow(lv, 8, NULL, NULL);
      else if (v == 1) do_allow(lv, HWLOC_ALLOW_FLAG_ALL, some, NULL);
      else if (v == 2) do_allow(lv, HWLOC_ALLOW_FLAG_CUSTOM, far, NULL);
      else if (v == 3) do_allow(lv, HWLOC_ALLOW_FLAG_LOCAL_RESTRICTIONS, NULL, NULL);
      else if (v == 4) do_allow(lv, HWLOC_ALLOW_FLAG_ALL | HWLOC_ALLOW_FLAG_CUSTOM, NULL, NULL);
      else do_allow(lv, HWLOC_ALLOW_FLAG_CUSTOM, NULL, far);
      hwloc_bitmap_free(far); hwloc_bitmap_free(some);
    }
  }
  if (phase == 2) {
    /* the documented exception: hwloc_topology_allow calls that pass validation; the new sets go to the adopter's private copies.
     * Done after the second full comparison because the XML export shows the allowed sets. */
    if (tflags & HWLOC_TOPOLOGY_FLAG_INCLUDE_DISALLOWED) {
      hwloc_obj_t rt = hwloc_get_root_obj(lv->t);
      unsigned na = 1 + rng_below(3);
      for (unsigned i = 0; i < na; i++) {
        hwloc_bitmap_t c = hwloc_bitmap_alloc(), n = hwloc_bitmap_alloc(); int idx;
        hwloc_bitmap_foreach_begin(idx, rt->cpuset) if (rng_chance(50)) hwloc_bitmap_set(c, idx); hwloc_bitmap_foreach_end();
        hwloc_bitmap_foreach_begin(idx, rt->nodeset) if (rng_chance(60)) hwloc_bitmap_set(n, idx); hwloc_bitmap_foreach_end();
        if (rng_chance(30)) hwloc_bitmap_set(c, hwloc_bitmap_last(rt->complete_cpuset) + 3);    /* bits outside the topology are dropped */
        st_f16++;
        switch (rng_below(4)) {
        case 0: do_allow(lv, HWLOC_ALLOW_FLAG_ALL, NULL, NULL); break;
        case 1: do_allow(lv, HWLOC_ALLOW_FLAG_CUSTOM, c, NULL); break;          /* EINVAL when c misses the root cpuset */
        case 2: do_allow(lv, HWLOC_ALLOW_FLAG_CUSTOM, NULL, n); break;
        default: do_allow(lv, HWLOC_ALLOW_FLAG_CUSTOM, c, n); break;
        }
        hwloc_bitmap_free(c); hwloc_bitmap_free(n);
      }
    }
    char tag[24]; snprintf(tag, sizeof tag, "a%d", lv->id);
    put_tinfos(tag, lv->t); ans("eq");
    put_dump(lv->t, tag, 0);       /* same objects; allowed sets as the model predicts */
    return;
  }
  if (sweep_all) for (unsigned i = 0; i < NGUARDED; i++) do_mod(lv, GUARDED_FNS[i], helper);
  {
    /* a query of a non-convenience attribute on the adopted topology must not store (nor crash), whatever it returns */
    uint64_t before = map_sum(lv); int sig, rc = 0; unsigned nr = 0;
    op("maquery %d", lv->id); st_f14++;
    GUARDED(sig, rc = hwloc_memattr_get_targets(lv->t, HWLOC_MEMATTR_ID_BANDWIDTH, NULL, 0, &nr, NULL, NULL));
    (void) rc;
    if (sig) { ans("SIGNAL same"); st_signal++; } else ans("ok %s", map_sum(lv) == before ? "same" : "CHANGED");
  }
}

static void run_episode(const char *id, char kind, unsigned long tflags, int miscall, uint64_t seed, unsigned nmods,
                        unsigned offpages, unsigned variant, const char *src) {
  uint64_t saved[2] = {rng_s[0], rng_s[1]};
  rng_seed(seed);
  st_ep++;
  if (kind == 'S') st_kind_S++; else st_kind_X++;
  hwloc_topology_t t = load_orig(kind, tflags, miscall, src);
  if (!t) { st_loadfail++; op("EP %s load-failed", id); ans("ep"); rng_s[0] = saved[0]; rng_s[1] = saved[1]; return; }
  apply_mods(t, nmods);
  hwloc_topology_t helper = load_orig('S', 0, 0, "pu:2");
  op("EP %s", id); ans("ep");
  file_open();
  next_handle = 0;
  st_objs += hwloc_get_nbobjs_by_depth(t, hwloc_topology_get_depth(t) - 1);

  /* (2a) get_length as a user calls it: before anything refreshes the topology */
  size_t L0 = 0, Lbad = 12345; int rc;
  errno = 0; rc = hwloc_shmem_topology_get_length(t, &L0, 0);
  op("getlen 0"); ans("%s", rc < 0 ? errname(errno) : "ok");
  { unsigned long bf = 1UL << rng_below(40); errno = 0; rc = hwloc_shmem_topology_get_length(t, &Lbad, bf); op("getlen %lu", bf); ans("%s%s", rc < 0 ? errname(errno) : "ok", Lbad == 12345 ? "" : " LENGTH-WRITTEN"); }
  st_len_pages += L0 / PS;

  /* (3a) content of the original, once its lazily refreshed caches (distances objs, memattr targets/initiators after a
   * restrict) are up to date — write refreshes them too before duplicating, and the public query API refreshes on demand */
  {
    /* most of the time the reference content is read from a refreshed DUPLICATE, so that the original reaches
     * hwloc_shmem_topology_write() with whatever stale caches the modifications left (restrict then write, as a user would) */
    hwloc_topology_t c = NULL;
    if (rng_chance(65) && hwloc_topology_dup(&c, t) == 0) { hwloc_topology_refresh(c); put_content(c, "orig", 1); hwloc_topology_destroy(c); st_stale_orig++; }
    else { hwloc_topology_refresh(t); put_content(t, "orig", 1); }
  }

  /* segments: the first at <offpages>, optionally a second one behind it at another address */
  struct seg sg[2]; int nseg = (variant & 1) ? 2 : 1; if (nseg == 2) st_twoseg++;
  size_t slot = ((L0 + PS) + (1UL << 21)) & ~((1UL << 21) - 1);      /* distance between address slots, > L0 + guard page */
  if (3 * slot + (8UL << 20) > RLEN) { nseg = 1; if (2 * slot > RLEN) { fprintf(stderr, "topology too large for the reservation\n"); exit(3); } }
  sg[0].off = (off_t) offpages * PS; sg[0].addr = R + (1UL << 20); sg[0].len = L0; sg[0].written = 0;
  sg[1].off = sg[0].off + L0 + (off_t) ((variant >> 1) & 3) * PS; sg[1].addr = sg[0].addr + slot; sg[1].len = L0; sg[1].written = 0;
  file_fill(sg[0].off);

  for (int k = 0; k < nseg; k++) {
    struct seg *s = &sg[k];
    /* failing attempts first: flags, occupied range (the reservation itself occupies it; and a partial overlap) */
    if (rng_chance(50)) do_write(t, s, s->addr, s->len, 1UL << rng_below(30));
    if (rng_chance(50)) { op("occupy %llx %llu", (unsigned long long) (uintptr_t) s->addr, (unsigned long long) s->len); ans(".");
                          do_write(t, s, s->addr, s->len, 0);
                          op("release %llx %llu", (unsigned long long) (uintptr_t) s->addr, (unsigned long long) s->len); ans("."); }
    if (s->len > PS && rng_chance(40)) {
      char *last = s->addr + s->len - PS;
      hole(s->addr, s->len - PS);     /* only the last page stays occupied */
      op("occupy %llx %llu", (unsigned long long) (uintptr_t) last, (unsigned long long) PS); ans(".");
      do_write(t, s, s->addr, s->len, 0);
      op("release %llx %llu", (unsigned long long) (uintptr_t) last, (unsigned long long) PS); ans(".");
      refill(s->addr, s->len - PS);
    }
    /* the real write: range free, guard page (reservation) right behind it */
    op("prewrite %d", k); ans(".");
    hole(s->addr, s->len);
    /* recording passes are taken AFTER the write (write refreshes the old topology first); their lines come first because the model's
     * write needs the trace */
    int wsig, wrc = 0, werr;
    /* every other segment: the file region already holds non-zero bytes (an in-place update, a preallocated or pattern-filled file):
     * the stored topology may not depend on what the region held before */
    seg_fill = 0;
    if ((((unsigned long) s->off >> 12) ^ (unsigned) k) & 1) {
      char page[4096]; memset(page, 0xC3, sizeof page); seg_fill = 0xC3;
      for (size_t o = 0; o < s->len; o += sizeof page) if (pwrite(fd, page, sizeof page, (off_t) (s->off + o)) != (ssize_t) sizeof page) exit(3);
      st_dirty_region++;
    }
    errno = 0;
    GUARDED(wsig, wrc = hwloc_shmem_topology_write(t, fd, s->off, s->addr, s->len, 0));
    werr = errno;
    refill(s->addr, s->len);     /* write has unmapped its temporary mapping; re-reserve */

    /* (1) the two passes with recording allocators around the real static allocators */
    struct rec ra, rb; memset(&ra, 0, sizeof ra); memset(&rb, 0, sizeof rb);
    size_t counted = 0; hwloc_topology_t n1 = NULL, n2 = NULL;
    ra.outer.malloc = rec_malloc; ra.outer.dontfree = 0; ra.outer.data = NULL;
    ra.inner.malloc = tma_get_length_malloc; ra.inner.dontfree = 0; ra.inner.data = &counted;
    if (hwloc__topology_dup(&n1, t, &ra.outer) < 0) { fprintf(stderr, "dup (count pass) failed\n"); exit(3); }
    hwloc_topology_destroy(n1);
    size_t L1 = 0; hwloc_shmem_topology_get_length(t, &L1, 0);
    size_t alen = L1 + PS;
    char *arena = mmap(NULL, alen, PROT_READ | PROT_WRITE, MAP_PRIVATE | MAP_ANONYMOUS, -1, 0);
    mprotect(arena + L1, PS, PROT_NONE);
    rb.outer.malloc = rec_malloc; rb.outer.dontfree = 1; rb.outer.data = NULL; rb.base = arena;
    rb.inner.malloc = tma_shmem_malloc; rb.inner.dontfree = 1; rb.inner.data = arena + sizeof(struct hwloc_shmem_header);
    int bsig = 0;
    GUARDED(bsig, { if (hwloc__topology_dup(&n2, t, &rb.outer) < 0) { fprintf(stderr, "dup (bump pass) failed\n"); exit(3); } });
    hwloc_components_fini();     /* as hwloc_shmem_topology_write does for its duplicate */
    size_t bump_end = (char *) rb.inner.data - arena;
    int same = ra.n == rb.n && !memcmp(ra.sizes, rb.sizes, ra.n * sizeof(size_t));
    fprintf(fops, "trace %lu %zu", PS, rb.n);
    for (size_t i = 0; i < rb.n; i++) fprintf(fops, " %zu", rb.sizes[i]);
    fputc('\n', fops); fflush(fops);
    if (bsig) ans("SIGNAL %d in the bump pass (guard page hit)", bsig);
    else ans("len=%zu used=%zu cnt=%zu h=%x", L1, bump_end, counted, rb.offhash);
    st_trace_allocs += rb.n;
    op("samepass %d", same); ans("same");
    op("len0 %zu", L0); ans("suffices");
    munmap(arena, alen); free(ra.sizes); free(rb.sizes);

    op("write 0 %lld %llx %llu", (long long) s->off, (unsigned long long) (uintptr_t) s->addr, (unsigned long long) s->len);
    if (wsig) { ans("SIGNAL %d", wsig); st_signal++; }
    else if (wrc == 0) { ans("ok"); st_write_ok++; s->written = 1; } else { ans("%s", errname(werr)); st_write_err++; }
    if (!s->written) continue;
    /* (2b) the file: prefix pattern intact, nothing non-zero beyond the bump pointer, size = off + len */
    struct stat sb_; fstat(fd, &sb_);
    op("file %lld %d %lld %lld", (long long) s->off, prefix_same(sg[0].off), last_nonzero(s->off, s->len), (long long) sb_.st_size);
    ans("within prefix=same size=ok");
    put_hdr_line(s);
  }
  if (!sg[0].written) goto out;

  sweep_all = (variant >> 4) & 1;
  int orig_first = (variant >> 3) & 1;   /* destroy the original before looking at the adopted topology */
  if (orig_first) { st_origfirst++; hwloc_topology_destroy(t); t = NULL; }

  /* (4) failing adoptions */
  struct seg *s = &sg[0];
  hole(s->addr, s->len); if (nseg == 2 && sg[1].written) hole(sg[1].addr, sg[1].len);
  {
    unsigned nerr = 2 + rng_below(5);
    for (unsigned i = 0; i < nerr; i++) {
      switch (rng_below(9)) {
      case 0: do_adopt(NULL, s, s->off, s->addr, s->len, 1UL << rng_below(40)); break;
      case 1: do_adopt(NULL, s, s->off, s->addr + PS, s->len, 0); break;
      case 2: do_adopt(NULL, s, s->off, s->addr, s->len + PS, 0); break;
      case 3: if (s->len > PS) do_adopt(NULL, s, s->off, s->addr, s->len - PS, 0); break;
      case 4: if (nseg == 2 && sg[1].written) do_adopt(NULL, s, sg[1].off, s->addr, s->len, 0); break;     /* offset of the other segment */
      case 5: if (nseg == 2 && sg[1].written) do_adopt(NULL, s, s->off, sg[1].addr, sg[1].len, 0); break;  /* address of the other segment */
      case 6: do_adopt(NULL, s, s->off + PS, s->addr, s->len, 0); break;                                   /* inside the segment: not a header */
      case 7: { struct stat sb_; fstat(fd, &sb_); do_adopt(NULL, s, ((sb_.st_size + PS - 1) & ~(PS - 1)) + PS, s->addr, s->len, 0); break; }   /* beyond EOF: short read */
      default: if (sg[0].off >= (off_t) PS) do_adopt(NULL, s, 0, s->addr, s->len, 0); break;               /* the pattern prefix */
      }
    }
    /* occupied range */
    if (rng_chance(60)) {
      refill(s->addr, s->len);
      op("occupy %llx %llu", (unsigned long long) (uintptr_t) s->addr, (unsigned long long) s->len); ans(".");
      do_adopt(NULL, s, s->off, s->addr, s->len, 0);
      op("release %llx %llu", (unsigned long long) (uintptr_t) s->addr, (unsigned long long) s->len); ans(".");
      hole(s->addr, s->len);
    }
    /* corrupted header fields / ABI, restored afterwards */
    if (rng_chance(60)) {
      unsigned which = rng_below(3);
      uint32_t good, bad; off_t at = s->off + (which == 0 ? 0 : which == 1 ? 4 : (off_t) sizeof(struct hwloc_shmem_header) + (off_t) offsetof(struct hwloc_topology, topology_abi));
      if (pread(fd, &good, 4, at) != 4) exit(3);
      bad = good + 1 + rng_below(3);
      if (pwrite(fd, &bad, 4, at) != 4) exit(3);
      op("corrupt %lld %s %u", (long long) s->off, which == 0 ? "version" : which == 1 ? "hlen" : "abi", which == 2 ? 1u : bad); ans(".");
      do_adopt(NULL, s, s->off, s->addr, s->len, 0);
      if (pwrite(fd, &good, 4, at) != 4) exit(3);
      op("corrupt %lld %s %u", (long long) s->off, which == 0 ? "version" : which == 1 ? "hlen" : "abi", which == 2 ? 0u : good); ans(".");
    }
  }

  /* the good adoption(s) */
  struct live lv[2]; memset(lv, 0, sizeof lv);
  if (do_adopt(&lv[0], s, s->off, s->addr, s->len, 0) < 0) { refill(s->addr, s->len); goto out_seg1; }
  /* a second adoption of the same segment while the first is alive: range occupied */
  if (rng_chance(50)) do_adopt(NULL, s, s->off, s->addr, s->len, 0);
  {
    char tag[24]; snprintf(tag, sizeof tag, "a%d", lv[0].id);
    put_content(lv[0].t, tag, 0);
    exercise_adopted(&lv[0], helper, tflags, 1);
    put_content(lv[0].t, tag, 0);      /* nothing observable changed */
    exercise_adopted(&lv[0], helper, tflags, 2);   /* additions to the private infos copy, compared with the model's copy */
  }
  if (nseg == 2 && sg[1].written) {
    if (do_adopt(&lv[1], &sg[1], sg[1].off, sg[1].addr, sg[1].len, 0) == 0) {
      char tag[24]; snprintf(tag, sizeof tag, "a%d", lv[1].id);
      put_content(lv[1].t, tag, 0);
      do_destroy(&lv[1]);
    } else refill(sg[1].addr, sg[1].len);
  }
  /* (6) destroy unmaps; adopt again into the same range */
  do_destroy(&lv[0]);
  if (rng_chance(60)) {
    st_readopt++;
    hole(s->addr, s->len);
    if (do_adopt(&lv[0], s, s->off, s->addr, s->len, 0) == 0) {
      char tag[24]; snprintf(tag, sizeof tag, "a%d", lv[0].id);
      put_content(lv[0].t, tag, 0);
      do_destroy(&lv[0]);
    } else refill(s->addr, s->len);
  }
  goto out;
 out_seg1:
  if (nseg == 2 && sg[1].written) refill(sg[1].addr, sg[1].len);
 out:
  if (t) hwloc_topology_destroy(t);
  hwloc_topology_destroy(helper);
  close(fd); fd = -1; unlink(fpath);
  rng_s[0] = saved[0]; rng_s[1] = saved[1];
}

struct src { char kind; char path[1000]; };
static struct src *srcs; static unsigned nsrcs;

static int parse_plan_line(char *line, char *id, char *kind, unsigned long *tflags, int *miscall, unsigned long long *seed, unsigned *nmods,
                           unsigned *offpages, unsigned *variant, char **src) {
  int pos = 0;
  line[strcspn(line, "\n")] = 0;
  if (line[0] == '#' || !line[0]) return 0;
  if (sscanf(line, "%63s %c %lu %d %llu %u %u %u %n", id, kind, tflags, miscall, seed, nmods, offpages, variant, &pos) < 8) return 0;
  *src = line + pos;
  return 1;
}

int main(int argc, char **argv) {
  PS = (unsigned long) sysconf(_SC_PAGESIZE);
  unsetenv("HWLOC_DEBUG_CHECK");
  rng_seed(rng_seed_from_env());
  if (argc >= 6 && !strcmp(argv[1], "replay")) {
    FILE *in = fopen(argv[2], "r"); workdir = argv[3]; fops = fopen(argv[4], "w"); fout = fopen(argv[5], "w");
    if (!in || !fops || !fout) return 2;
    reserve_init(); install_catcher();
    char line[4096];
    while (fgets(line, sizeof line, in)) {
      char id[64], kind, *src; unsigned long tflags; int miscall; unsigned long long seed; unsigned nmods, offpages, variant;
      if (!parse_plan_line(line, id, &kind, &tflags, &miscall, &seed, &nmods, &offpages, &variant, &src)) continue;
      run_episode(id, kind, tflags, miscall, seed, nmods, offpages, variant, src);
    }
    fclose(in); fclose(fops); fclose(fout);
    return 0;
  }
  if (argc < 9 || strcmp(argv[1], "gen")) { fprintf(stderr, "usage: see the head of h_shmem.c\n"); return 2; }
  unsigned long n = strtoul(argv[2], NULL, 10);
  FILE *fs = fopen(argv[3], "r");
  if (fs) {
    char line[1100];
    while (fgets(line, sizeof line, fs)) {
      line[strcspn(line, "\n")] = 0;
      if (strlen(line) < 3 || line[0] != 'X') continue;
      srcs = realloc(srcs, (nsrcs + 1) * sizeof(*srcs));
      srcs[nsrcs].kind = 'X'; strncpy(srcs[nsrcs].path, line + 2, 999); srcs[nsrcs].path[999] = 0; nsrcs++;
    }
    fclose(fs);
  }
  workdir = argv[4];
  FILE *fplan = fopen(argv[5], "w"); fops = fopen(argv[6], "w"); fout = fopen(argv[7], "w");
  if (!fplan || !fops || !fout) return 2;
  reserve_init(); install_catcher();
  for (unsigned long i = 0; i < n; i++) {
    char id[32], arg[1200], kind;
    snprintf(id, sizeof id, "e%lu", i);
    if (nsrcs && rng_chance(30)) { kind = 'X'; strcpy(arg, srcs[rng_below(nsrcs)].path); }
    else { kind = 'S'; gen_synthetic(arg, sizeof arg); }
    unsigned long tflags = rng_chance(50) ? HWLOC_TOPOLOGY_FLAG_INCLUDE_DISALLOWED : 0;
    if (rng_chance(15)) tflags |= HWLOC_TOPOLOGY_FLAG_NO_DISTANCES;
    if (rng_chance(10)) tflags |= HWLOC_TOPOLOGY_FLAG_NO_MEMATTRS;
    if (rng_chance(10)) tflags |= HWLOC_TOPOLOGY_FLAG_NO_CPUKINDS;
    int miscall = rng_chance(60) ? (rng_chance(30) ? 2 : 1) : 0;
    unsigned long long seed = rng_next() >> 1;
    unsigned nmods = rng_chance(25) ? 0 : rng_below(9);
    static const unsigned offs[] = {0, 0, 1, 2, 3, 16, 17, 64};
    unsigned offpages = offs[rng_below(8)];
    unsigned variant = rng_below(16) | (rng_chance(25) ? 16 : 0);
    fprintf(fplan, "%s %c %lu %d %llu %u %u %u %s\n", id, kind, tflags, miscall, seed, nmods, offpages, variant, arg); fflush(fplan);
    run_episode(id, kind, tflags, miscall, seed, nmods, offpages, variant, arg);
  }
  fclose(fplan); fclose(fops); fclose(fout);
  FILE *fst = fopen(argv[8], "w");
  if (fst) {
#define ST(x) fprintf(fst, #x " %lu\n", st_##x)
    ST(ep); ST(loadfail); ST(write_ok); ST(write_err); ST(adopt_ok); ST(adopt_einval); ST(adopt_ebusy); ST(adopt_fail);
    ST(mod_eperm); ST(mod_einval); ST(mod_ebusy); ST(mod_ok); ST(signal); ST(trace_allocs); ST(kind_S); ST(kind_X); ST(mods);
    ST(dist); ST(mattr); ST(kinds); ST(misc); ST(restrict); ST(infos); ST(allow); ST(readopt); ST(twoseg); ST(origfirst);
    ST(objs); ST(len_pages); ST(f14); ST(f16);
    fclose(fst);
  }
  return 0;
}
