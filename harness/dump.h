/* Canonical topology dump through the PUBLIC API only (shared by the topology engines).
 *
 * Objects are numbered in DFS order (normal children, then memory, I/O, Misc children lists);
 * every pointer field is printed as the id of its target (-1 = NULL, -2 = points to no object
 * reachable from the root).  Sets are printed as one hexadecimal number ("-" = NULL set,
 * "I<hex>" = infinitely set above the printed bits).
 *
 * Block format (consumed by lean/Driver/Topo.lean):
 *   TOPO <tag> flags depth root nobjs allowed_cpuset allowed_nodeset filters(20, comma separated)
 *   O id type depth lidx osidx gp parent rank arity marity ioarity miscarity nextsib prevsib nextcousin prevcousin
 *     firstchild lastchild memfirst iofirst miscfirst symm cpuset ccpuset nodeset cnodeset totalmem a0..a5
 *     children(comma list or -) subtype(hex|-) name(hex|-) ninfos (namehex valuehex)*
 *   L depth type n id*
 *   TD d0,...,d19                 hwloc_get_type_depth() of every type
 *   END <tag>
 */
#ifndef VERIF_DUMP_H
#define VERIF_DUMP_H
#include <hwloc.h>
#include <stdio.h>
#include <stdlib.h>
#include <string.h>

struct dump_map { hwloc_obj_t *objs; unsigned n, cap; hwloc_obj_t *sorted; unsigned *sorted_id; };

static void dump_map_add(struct dump_map *m, hwloc_obj_t o) {
  if (m->n == m->cap) { m->cap = m->cap ? 2 * m->cap : 256; m->objs = realloc(m->objs, m->cap * sizeof(*m->objs)); }
  m->objs[m->n++] = o;
}
static void dump_collect(struct dump_map *m, hwloc_obj_t o, unsigned *budget) {
  hwloc_obj_t c;
  unsigned i;
  if (!*budget) return; /* cyclic / runaway structure: stop (the dump will show dangling ids) */
  (*budget)--;
  dump_map_add(m, o);
  for (i = 0; i < o->arity && o->children; i++) if (o->children[i]) dump_collect(m, o->children[i], budget);
  for (c = o->memory_first_child, i = 0; c && i < 100000; c = c->next_sibling, i++) dump_collect(m, c, budget);
  for (c = o->io_first_child, i = 0; c && i < 100000; c = c->next_sibling, i++) dump_collect(m, c, budget);
  for (c = o->misc_first_child, i = 0; c && i < 100000; c = c->next_sibling, i++) dump_collect(m, c, budget);
}
struct dump_pair { hwloc_obj_t o; unsigned id; };
static int dump_pair_cmp(const void *a, const void *b) {
  const struct dump_pair *x = a, *y = b;
  return x->o < y->o ? -1 : x->o > y->o ? 1 : 0;
}
static struct dump_pair *dump_sorted; static unsigned dump_nsorted;
static int dump_id(hwloc_obj_t o) {
  if (!o) return -1;
  unsigned lo = 0, hi = dump_nsorted;
  while (lo < hi) { unsigned mid = (lo + hi) / 2; if (dump_sorted[mid].o < o) lo = mid + 1; else hi = mid; }
  if (lo < dump_nsorted && dump_sorted[lo].o == o) return (int) dump_sorted[lo].id;
  return -2;
}

static void dump_set(FILE *f, hwloc_const_bitmap_t s) {
  if (!s) { fputs(" -", f); return; }
  int last;
  fputc(' ', f);
  if (hwloc_bitmap_weight(s) == -1) { fputc('I', f); last = hwloc_bitmap_last_unset(s); }
  else last = hwloc_bitmap_last(s);
  if (last < 0) { fputc('0', f); return; }
  int top = last / 64, started = 0;
  for (int i = top; i >= 0; i--) {
    unsigned long w = hwloc_bitmap_to_ith_ulong(s, i);
    if (started) fprintf(f, "%016lx", w); else { fprintf(f, "%lx", w); started = 1; }
  }
}
static void dump_hexstr(FILE *f, const char *s) {
  if (!s) { fputs(" -", f); return; }
  fputc(' ', f);
  if (!*s) { fputc('=', f); return; } /* empty but non-NULL */
  for (; *s; s++) fprintf(f, "%02x", (unsigned char) *s);
}

static void dump_obj(FILE *f, hwloc_obj_t o, unsigned id) {
  long long a[6] = {0, 0, 0, 0, 0, 0};
  if (o->attr) {
    switch (o->type) {
    case HWLOC_OBJ_NUMANODE: a[0] = (long long) o->attr->numanode.local_memory; a[1] = o->attr->numanode.page_types_len; break;
    case HWLOC_OBJ_L1CACHE: case HWLOC_OBJ_L2CACHE: case HWLOC_OBJ_L3CACHE: case HWLOC_OBJ_L4CACHE: case HWLOC_OBJ_L5CACHE:
    case HWLOC_OBJ_L1ICACHE: case HWLOC_OBJ_L2ICACHE: case HWLOC_OBJ_L3ICACHE: case HWLOC_OBJ_MEMCACHE:
      a[0] = (long long) o->attr->cache.size; a[1] = o->attr->cache.depth; a[2] = o->attr->cache.linesize;
      a[3] = o->attr->cache.associativity; a[4] = o->attr->cache.type; break;
    case HWLOC_OBJ_GROUP: a[0] = o->attr->group.depth; a[1] = o->attr->group.kind; a[2] = o->attr->group.subkind; a[3] = o->attr->group.dont_merge; break;
    case HWLOC_OBJ_PCI_DEVICE: a[0] = o->attr->pcidev.domain; a[1] = o->attr->pcidev.bus; a[2] = o->attr->pcidev.dev; a[3] = o->attr->pcidev.func; a[4] = o->attr->pcidev.class_id; a[5] = ((long long) o->attr->pcidev.vendor_id << 16) | o->attr->pcidev.device_id; break;
    case HWLOC_OBJ_BRIDGE: a[0] = o->attr->bridge.upstream_type; a[1] = o->attr->bridge.downstream_type; a[2] = o->attr->bridge.depth;
      a[3] = o->attr->bridge.downstream.pci.domain; a[4] = o->attr->bridge.downstream.pci.secondary_bus; a[5] = o->attr->bridge.downstream.pci.subordinate_bus; break;
    case HWLOC_OBJ_OS_DEVICE: a[0] = (long long) o->attr->osdev.types; break;
    default: break;
    }
  }
  fprintf(f, "O %u %d %d %u %d %llu %d %u %u %u %u %u %d %d %d %d %d %d %d %d %d %d", id, (int) o->type, o->depth, o->logical_index,
          (int) o->os_index, (unsigned long long) o->gp_index, dump_id(o->parent), o->sibling_rank, o->arity, o->memory_arity, o->io_arity,
          o->misc_arity, dump_id(o->next_sibling), dump_id(o->prev_sibling), dump_id(o->next_cousin), dump_id(o->prev_cousin),
          dump_id(o->first_child), dump_id(o->last_child), dump_id(o->memory_first_child), dump_id(o->io_first_child),
          dump_id(o->misc_first_child), o->symmetric_subtree);
  dump_set(f, o->cpuset); dump_set(f, o->complete_cpuset); dump_set(f, o->nodeset); dump_set(f, o->complete_nodeset);
  fprintf(f, " %llu", (unsigned long long) o->total_memory);
  for (int i = 0; i < 6; i++) fprintf(f, " %lld", a[i]);
  fputc(' ', f);
  if (!o->arity || !o->children) fputc('-', f);
  else for (unsigned i = 0; i < o->arity; i++) fprintf(f, "%s%d", i ? "," : "", dump_id(o->children[i]));
  dump_hexstr(f, o->subtype); dump_hexstr(f, o->name);
  fprintf(f, " %u", o->infos.count);
  for (unsigned i = 0; i < o->infos.count; i++) { dump_hexstr(f, o->infos.array[i].name); dump_hexstr(f, o->infos.array[i].value); }
  fputc('\n', f);
}

static void dump_level(FILE *f, hwloc_topology_t t, int depth) {
  unsigned n = hwloc_get_nbobjs_by_depth(t, depth);
  fprintf(f, "L %d %d %u", depth, (int) hwloc_get_depth_type(t, depth), n);
  for (unsigned i = 0; i < n; i++) fprintf(f, " %d", dump_id(hwloc_get_obj_by_depth(t, depth, i)));
  fputc('\n', f);
}

/* returns the number of lines written */
static unsigned dump_topology(FILE *f, hwloc_topology_t t, const char *tag) {
  struct dump_map m = {0};
  unsigned budget = 2000000, lines = 0;
  hwloc_obj_t root = hwloc_get_root_obj(t);
  dump_collect(&m, root, &budget);
  dump_sorted = malloc((m.n + 1) * sizeof(*dump_sorted));
  for (unsigned i = 0; i < m.n; i++) { dump_sorted[i].o = m.objs[i]; dump_sorted[i].id = i; }
  dump_nsorted = m.n;
  qsort(dump_sorted, m.n, sizeof(*dump_sorted), dump_pair_cmp);
  /* duplicates (an object reachable twice) keep the first id: the second occurrence shows up as a bad parent/rank */
  int depth = hwloc_topology_get_depth(t);
  fprintf(f, "TOPO %s %lu %d %d %u", tag, hwloc_topology_get_flags(t), depth, dump_id(root), m.n);
  dump_set(f, hwloc_topology_get_allowed_cpuset(t)); dump_set(f, hwloc_topology_get_allowed_nodeset(t));
  fputc(' ', f);
  for (int ty = 0; ty < HWLOC_OBJ_TYPE_MAX; ty++) {
    enum hwloc_type_filter_e fl = 0; hwloc_topology_get_type_filter(t, (hwloc_obj_type_t) ty, &fl);
    fprintf(f, "%s%d", ty ? "," : "", (int) fl);
  }
  fputc('\n', f); lines++;
  for (unsigned i = 0; i < m.n; i++) { dump_obj(f, m.objs[i], i); lines++; }
  for (int d = 0; d < depth; d++) { dump_level(f, t, d); lines++; }
  static const int sdepths[] = {HWLOC_TYPE_DEPTH_NUMANODE, HWLOC_TYPE_DEPTH_BRIDGE, HWLOC_TYPE_DEPTH_PCI_DEVICE,
                                HWLOC_TYPE_DEPTH_OS_DEVICE, HWLOC_TYPE_DEPTH_MISC, HWLOC_TYPE_DEPTH_MEMCACHE};
  for (unsigned i = 0; i < 6; i++) { dump_level(f, t, sdepths[i]); lines++; }
  fputs("TD ", f);
  for (int ty = 0; ty < HWLOC_OBJ_TYPE_MAX; ty++) fprintf(f, "%s%d", ty ? "," : "", hwloc_get_type_depth(t, (hwloc_obj_type_t) ty));
  fputc('\n', f); lines++;
  fprintf(f, "END %s\n", tag); lines++;
  free(dump_sorted); dump_sorted = NULL; dump_nsorted = 0; free(m.objs);
  return lines;
}
#endif
