/* C01 harness (engine `set-stage`): load topologies from many sources with the HWLOC_VERIF stage-dump hook of
 * hwloc_discover() enabled (environment variable HWLOC_VERIF_STAGE_DUMP): the library itself appends the whole object tree
 * right BEFORE "Fixup root sets" and right AFTER remove_unused_sets()/fixup_sets() to the dump file.  The Lean driver
 * (lean/Driver/SetStage.lean) runs the model of the set pipeline (lean/Hw/Topo/SetStage.lean) on every BEFORE block and
 * compares it with the AFTER block.
 *
 * usage: setstage gen <ncases> <sources-file> <plan-out> <dump-out>      (seed = VERIF_SEED)
 *        setstage replay <plan-file> <dump-out>
 * sources-file lines:  X <xml path> | F <fsroot dir> | C <cpuid dir>
 * plan line:  <caseid> <kind> <flags> <filters: 20 chars 0-3 or -> <arg...>
 *   kind S = synthetic string, X = set_xml(path), B = set_xmlbuffer(file contents), F/G = HWLOC_FSROOT (without/with pci),
 *        C = HWLOC_CPUID_PATH,
 *        A = "<subseed> <synthetic string>": the synthetic topology is loaded with INCLUDE_DISALLOWED, a random non-empty subset of
 *            its PUs and NUMA nodes is made the allowed sets (hwloc_topology_allow CUSTOM), it is exported to an XML buffer, and
 *            that buffer is the source of the case (so the stage sees real disallowed PUs / NUMA nodes); the preparatory load uses the
 *            default filters, so the buffer never holds memory-side caches, I/O or Misc objects (kept for old replays; the generator
 *            now emits kind R instead)
 *        R = "<subseed> <srckind> <srcarg>": a derived source with really disallowed PUs / NUMA nodes built from ANY source with EVERY
 *            type kept (harness/derive.h), so that the stage sees disallowed resources below memory-side caches (memory objects nested
 *            in memory objects), next to I/O and Misc objects, in v2 XML, ...
 *   flags may contain IS_THISSYSTEM|THISSYSTEM_ALLOWED_RESOURCES (2|4) on S/X/B/A/R cases: the allowed sets of the running process are
 *   then applied before the stage (they are part of the BEFORE dump, so the model sees them as its input)
 * dump file: "CASE <plan line>" written by the harness before each load, then the blocks written by the library, then
 *            "LOADED <caseid> <0|1>".
 */
#include <hwloc.h>
#include <stdio.h>
#include <stdlib.h>
#include <string.h>
#include "rng.h"
#include "derive.h"
#include <errno.h>
#include <unistd.h>
#include <stdarg.h>

static FILE *fplan;
static const char *dump_path;

static void dump_note(const char *fmt, ...) {
  FILE *f = fopen(dump_path, "a");
  if (!f) { perror("dump file"); exit(2); }
  va_list ap; va_start(ap, fmt); vfprintf(f, fmt, ap); va_end(ap);
  fclose(f);
}

static char *read_file(const char *path, size_t *len) {
  FILE *f = fopen(path, "rb"); if (!f) return NULL;
  fseek(f, 0, SEEK_END); long n = ftell(f); fseek(f, 0, SEEK_SET);
  char *b = malloc(n + 1); if (fread(b, 1, n, f) != (size_t) n) { fclose(f); free(b); return NULL; }
  b[n] = 0; fclose(f); *len = n; return b;
}

/* private xorshift for the per-case choices of kind A (so that a plan line replays alone) */
static uint64_t sub_s;
static unsigned sub_below(unsigned n) { sub_s ^= sub_s << 13; sub_s ^= sub_s >> 7; sub_s ^= sub_s << 17; return n ? (unsigned) ((sub_s >> 11) % n) : 0; }

/* kind A: returns a malloc'ed XML buffer (hwloc_free_xmlbuffer not needed: we copy) or NULL */
static char *make_allowed_xml(const char *arg, int *lenp) {
  char *end; unsigned long sub = strtoul(arg, &end, 10);
  while (*end == ' ') end++;
  sub_s = sub * 0x9E3779B97F4A7C15ULL + 12345; if (!sub_s) sub_s = 1;
  hwloc_topology_t t0; char *xml = NULL, *copy = NULL; int len = 0;
  unsetenv("HWLOC_VERIF_STAGE_DUMP");     /* the preparatory load is not a case */
  if (hwloc_topology_init(&t0) < 0) goto out0;
  if (hwloc_topology_set_synthetic(t0, end) < 0 || hwloc_topology_set_flags(t0, HWLOC_TOPOLOGY_FLAG_INCLUDE_DISALLOWED) < 0
      || hwloc_topology_load(t0) < 0) { hwloc_topology_destroy(t0); goto out0; }
  {
    hwloc_bitmap_t cs = hwloc_bitmap_dup(hwloc_topology_get_topology_cpuset(t0));
    hwloc_bitmap_t ns = hwloc_bitmap_dup(hwloc_topology_get_topology_nodeset(t0));
    unsigned pc = 10 + sub_below(50), pn = sub_below(3) ? 10 + sub_below(50) : 0;
    int i;
    hwloc_bitmap_t c2 = hwloc_bitmap_dup(cs), n2 = hwloc_bitmap_dup(ns);
    hwloc_bitmap_foreach_begin(i, cs) if (sub_below(100) < pc) hwloc_bitmap_clr(c2, i); hwloc_bitmap_foreach_end();
    hwloc_bitmap_foreach_begin(i, ns) if (sub_below(100) < pn) hwloc_bitmap_clr(n2, i); hwloc_bitmap_foreach_end();
    if (hwloc_bitmap_iszero(c2)) hwloc_bitmap_set(c2, hwloc_bitmap_first(cs));
    if (hwloc_bitmap_iszero(n2)) hwloc_bitmap_set(n2, hwloc_bitmap_first(ns));
    hwloc_topology_allow(t0, c2, n2, HWLOC_ALLOW_FLAG_CUSTOM);   /* may be refused; then the sets stay full */
    hwloc_bitmap_free(cs); hwloc_bitmap_free(ns); hwloc_bitmap_free(c2); hwloc_bitmap_free(n2);
  }
  if (hwloc_topology_export_xmlbuffer(t0, &xml, &len, 0) == 0 && xml) {
    copy = malloc(len + 1); memcpy(copy, xml, len); copy[len] = 0; *lenp = len;
    hwloc_free_xmlbuffer(t0, xml);
  }
  hwloc_topology_destroy(t0);
out0:
  setenv("HWLOC_VERIF_STAGE_DUMP", dump_path, 1);
  return copy;
}

/* the public result of hwloc_propagate_symmetric_subtree (run inside hwloc_discover between the `mem_after` and `final` hook dumps):
 * "Y <gp_index> <symmetric_subtree> <depth> <arity>" for every normal object, depth-first through the normal children (the objects the
 * function visits), then "ENDY <caseid>".  The driver answers from Hw.Topo.Restrict.Stage.symmetricStage on the tree of the `final` block. */
static void dump_sym_obj(FILE *f, hwloc_obj_t o) {
  fprintf(f, "Y %llu %d %d %u\n", (unsigned long long) o->gp_index, o->symmetric_subtree, o->depth, o->arity);
  for (hwloc_obj_t c = o->first_child; c; c = c->next_sibling) dump_sym_obj(f, c);
}
static void dump_sym(hwloc_topology_t t, const char *caseid) {
  FILE *f = fopen(dump_path, "a");
  if (!f) { perror("dump file"); exit(2); }
  dump_sym_obj(f, hwloc_get_root_obj(t));
  fprintf(f, "ENDY %s\n", caseid);
  fclose(f);
}

/* returns 0 when loaded, 1 when set/load failed cleanly */
static int run_case(const char *line, const char *caseid, char kind, unsigned long flags, const char *filters, const char *arg) {
  hwloc_topology_t t;
  int err;
  char *buf = NULL;
  unsetenv("HWLOC_FSROOT"); unsetenv("HWLOC_CPUID_PATH"); unsetenv("HWLOC_COMPONENTS"); unsetenv("HWLOC_DUMPED_HWDATA_DIR");
  dump_note("CASE %s\n", line);
  if (hwloc_topology_init(&t) < 0) goto failed0;
  for (int ty = 0; ty < HWLOC_OBJ_TYPE_MAX && filters[ty]; ty++)
    if (filters[ty] >= '0' && filters[ty] <= '3')
      hwloc_topology_set_type_filter(t, (hwloc_obj_type_t) ty, (enum hwloc_type_filter_e) (filters[ty] - '0')); /* may be refused */
  if (hwloc_topology_set_flags(t, flags) < 0) { hwloc_topology_destroy(t); goto failed0; }
  err = 0;
  switch (kind) {
  case 'S': err = hwloc_topology_set_synthetic(t, arg); break;
  case 'X': err = hwloc_topology_set_xml(t, arg); break;
  case 'B': { size_t len = 0; buf = read_file(arg, &len); if (!buf) err = -1; else err = hwloc_topology_set_xmlbuffer(t, buf, (int) len + 1); break; }
  case 'A': { int len = 0; buf = make_allowed_xml(arg, &len); if (!buf) err = -1; else err = hwloc_topology_set_xmlbuffer(t, buf, len + 1); break; }
  case 'R': { int len = 0; unsetenv("HWLOC_VERIF_STAGE_DUMP");      /* the preparatory load is not a case */
              buf = drv_make_xml(arg, &len); setenv("HWLOC_VERIF_STAGE_DUMP", dump_path, 1);
              if (!buf) err = -1; else err = hwloc_topology_set_xmlbuffer(t, buf, len + 1); break; }
  case 'F': setenv("HWLOC_FSROOT", arg, 1); setenv("HWLOC_COMPONENTS", "linux,stop", 1); setenv("HWLOC_DUMPED_HWDATA_DIR", "/var/run/hwloc", 1); break;
  case 'G': setenv("HWLOC_FSROOT", arg, 1); setenv("HWLOC_COMPONENTS", "linux,pci,stop", 1); setenv("HWLOC_DUMPED_HWDATA_DIR", "/var/run/hwloc", 1); break;
  case 'C': setenv("HWLOC_CPUID_PATH", arg, 1); setenv("HWLOC_COMPONENTS", "x86,stop", 1); break;
  default: err = -1;
  }
  if (err < 0) { hwloc_topology_destroy(t); free(buf); goto failed0; }
  err = hwloc_topology_load(t);
  free(buf);
  if (err < 0) { hwloc_topology_destroy(t); goto failed0; }
  dump_sym(t, caseid);
  dump_note("LOADED %s 1\n", caseid);
  hwloc_topology_destroy(t);
  return 0;
failed0:
  dump_note("LOADED %s 0\n", caseid);
  return 1;
}

/* ---- generators (same families as h_topoload.c, plus kind A) ---- */
/* struct src, srcs, nsrcs, pick_src: harness/derive.h */

static void gen_filters(char *f) { drv_gen_filters(f); }
static unsigned long gen_flags(void) {
  static const unsigned long bits[] = {1, 8, 64, 128, 256, 512};
  unsigned long fl = 0;
  if (rng_chance(50)) return rng_chance(60) ? 0 : 1;
  for (int i = 0; i < 6; i++) if (rng_chance(i ? 35 : 25)) fl |= bits[i];
  return fl;
}
/* IS_THISSYSTEM (2) alone, or with THISSYSTEM_ALLOWED_RESOURCES (4): only for sources that are not the Linux / x86 back ends */
static unsigned long gen_thissystem_flags(void) {
  if (!rng_chance(12)) return 0;
  return rng_chance(80) ? 6 : 2;
}

static int app(char *s, int off, int cap, const char *fmt, ...) {
  va_list ap; va_start(ap, fmt); int n = vsnprintf(s + off, cap - off, fmt, ap); va_end(ap); return off + n;
}
static void gen_synthetic(char *s, int cap) {
  int off = 0;
  unsigned budget = 128;  /* max PUs */
  unsigned prod = 1;
#define CNT() ({ unsigned c = 1 + rng_below(rng_chance(70) ? 2 : 4); if (c > budget) c = 1; budget /= c; prod *= c; c; })
  if (rng_chance(8)) {
    int n = 1 + rng_below(5);
    for (int i = 0; i < n; i++) off = app(s, off, cap, "%u ", CNT());
    s[off - 1] = 0; return;
  }
  int numa_mode = rng_below(4); /* 0: none explicit, 1: level, 2: attached, 3: attached at two places */
  if (rng_chance(25)) off = app(s, off, cap, "group:%u ", CNT());
  if (rng_chance(70)) { off = app(s, off, cap, "pack:%u ", CNT()); if ((numa_mode == 2 || numa_mode == 3) && rng_chance(50)) { off = app(s, off, cap, "[numa%s] ", drv_gen_numa_attrs(0)); if (numa_mode == 2) numa_mode = 0; } }
  if (rng_chance(20)) off = app(s, off, cap, "die:%u ", CNT());
  if (numa_mode == 1) { unsigned c_ = CNT(); off = app(s, off, cap, "numa:%u%s ", c_, drv_gen_numa_attrs(1)); }
  if (rng_chance(15)) off = app(s, off, cap, "group:%u ", CNT());
  if (rng_chance(40)) { off = app(s, off, cap, "l3:%u%s ", CNT(), rng_chance(30) ? "(size=8MB)" : ""); if (numa_mode >= 2) { off = app(s, off, cap, "[numa%s] ", rng_chance(50) ? drv_gen_numa_attrs(0) : ""); numa_mode = 0; } }
  if (rng_chance(40)) off = app(s, off, cap, "l2:%u ", CNT());
  if (rng_chance(30)) off = app(s, off, cap, "l1:%u ", 1u);
  if (rng_chance(80)) off = app(s, off, cap, "core:%u ", CNT());
  off = app(s, off, cap, "pu:%u", CNT());
  unsigned im = rng_below(100);
  if (im < 8) off = app(s, off, cap, "(indexes=core:pu)");
  else if (im < 12) off = app(s, off, cap, "(indexes=pack:core)");
  else if (im < 16) off = app(s, off, cap, "(indexes=numa:pu)");
  else if (im < 26 && prod <= 64) {
    unsigned k = rng_below(8);
    off = app(s, off, cap, "(indexes=");
    for (unsigned i = 0; i < prod; i++) {
      unsigned v = k < 4 ? prod - 1 - i : k < 7 ? (i * 2) % prod + (i * 2) / prod : 3 * i + 1;
      off = app(s, off, cap, "%s%u", i ? "," : "", v);
    }
    off = app(s, off, cap, ")");
  } else if (im < 32 && prod >= 4 && prod % 2 == 0) off = app(s, off, cap, "(indexes=%u*2:1*%u)", prod / 2, prod / 2);
}

int main(int argc, char **argv) {
  if (argc >= 4 && !strcmp(argv[1], "replay")) {
    FILE *in = fopen(argv[2], "r");
    dump_path = argv[3];
    if (!in) return 2;
    { FILE *f = fopen(dump_path, "w"); if (!f) return 2; fclose(f); }
    setenv("HWLOC_VERIF_STAGE_DUMP", dump_path, 1);
    char line[4096], copy[4096];
    while (fgets(line, sizeof line, in)) {
      char id[64], filters[64], kind; unsigned long flags; int pos = 0;
      line[strcspn(line, "\n")] = 0;
      if (line[0] == '#') continue;
      strcpy(copy, line);
      if (sscanf(line, "%63s %c %lu %63s %n", id, &kind, &flags, filters, &pos) < 4) continue;
      int r = run_case(copy, id, kind, flags, filters, line + pos);
      fprintf(stderr, "case %s: %s\n", id, r ? "load failed" : "loaded");
    }
    fclose(in);
    return 0;
  }
  if (argc < 6 || strcmp(argv[1], "gen")) { fprintf(stderr, "usage\n"); return 2; }
  unsigned long n = strtoul(argv[2], NULL, 10);
  FILE *fs = fopen(argv[3], "r");
  if (fs) {
    char line[1100];
    while (fgets(line, sizeof line, fs)) {
      line[strcspn(line, "\n")] = 0;
      if (strlen(line) < 3) continue;
      srcs = realloc(srcs, (nsrcs + 1) * sizeof(*srcs));
      srcs[nsrcs].kind = line[0]; strncpy(srcs[nsrcs].path, line + 2, 999); srcs[nsrcs].path[999] = 0; nsrcs++;
    }
    fclose(fs);
  }
  fplan = fopen(argv[4], "w");
  dump_path = argv[5];
  if (!fplan) return 2;
  { FILE *f = fopen(dump_path, "w"); if (!f) return 2; fclose(f); }
  setenv("HWLOC_VERIF_STAGE_DUMP", dump_path, 1);
  rng_seed(rng_seed_from_env());
  unsigned long loaded = 0, failed = 0;
  for (unsigned long i = 0; i < n; i++) {
    char filters[32], arg[1400], id[32], line[1600]; char kind;
    unsigned long flags = gen_flags();
    gen_filters(filters);
    unsigned w = rng_below(100);
    if (nsrcs && w < 38) {
      struct src *s = pick_src();
      kind = s->kind;
      if (kind == 'X' && rng_chance(50)) kind = 'B';
      if (kind == 'F' && rng_chance(30)) kind = 'G';
      strcpy(arg, s->path);
    } else if (w < 68) {
      /* derived source with disallowed resources: from a synthetic string (60 %) or from a bundled XML file / snapshot */
      kind = 'R';
      if (!nsrcs || rng_chance(60)) { char syn[1200]; gen_synthetic(syn, sizeof syn); snprintf(arg, sizeof arg, "%u S %s", rng_below(1000000), syn); }
      else { struct src *s = pick_src(); char k = s->kind; if (k == 'F' && rng_chance(30)) k = 'G'; snprintf(arg, sizeof arg, "%u %c %s", rng_below(1000000), k, s->path); }
    } else { kind = 'S'; gen_synthetic(arg, sizeof arg); }
    if (kind == 'S' || kind == 'X' || kind == 'B' || kind == 'R') flags |= gen_thissystem_flags();
    snprintf(id, sizeof id, "c%lu", i);
    snprintf(line, sizeof line, "%s %c %lu %s %s", id, kind, flags, filters, arg);
    fprintf(fplan, "%s\n", line); fflush(fplan);
    if (run_case(line, id, kind, flags, filters, arg)) failed++; else loaded++;
  }
  fprintf(fplan, "# loaded %lu failed %lu\n", loaded, failed);
  fprintf(fplan, "# derived made %lu with_memcache %lu two_level_memcache %lu dropped_pu %lu dropped_node %lu allow_refused %lu v2 %lu retyped_to_group %lu retyped_cpuless %lu misc_inserted %lu rmorder %lu\n",
          drv_made, drv_with_memcache, drv_two_level_memcache, drv_dropped_pu, drv_dropped_node, drv_allow_refused, drv_v2, drv_retyped, drv_retyped_cpuless, drv_misc, drv_rmorder);
  fclose(fplan);
  return 0;
}
