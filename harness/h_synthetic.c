/* C07 differential harness (engine `synthetic`): synthetic descriptions.
 * Includes hwloc/topology-synthetic.c itself to reach hwloc_backend_synthetic_init() and its level array.
 *
 * usage: synthetic <ncases> <ops-file> <out-file> <stats-file>      (generate; seed = VERIF_SEED)
 *        synthetic --replay <ops-file> <out-file>
 *        synthetic --desc <description> <F> <ops-file> <out-file>  (the ops of one description under one filter string)
 *
 * ops (one per line, each self-contained: the description travels as hex):
 *   init <junk> <hex>           direct call on a malloc'ed data block pre-filled with the byte of `junk`
 *   set <hex>                   hwloc_topology_set_synthetic()
 *   load <hex> <dump;...>       set+load through the public API, canonical dump (harness/dump.h) joined by ';'
 *   export <flags> <cap> <hex>  hwloc_topology_export_synthetic() into an exact-size heap buffer
 *   fix <flags> <hex>           export / reload / export
 * A description token is <hex> or <hex>@<F>: F = 20 characters, one per object type (hwloc_obj_type_t order), '-' = leave the
 * default type filter, '0'..'3' = hwloc_topology_set_type_filter(topology, type, digit) between init and load (a refused
 * request is ignored, as a caller that does not test the return value would).  Without '@' the historic setting is used:
 * I-caches and MemCache KEEP_ALL (LEGACY_F).  init/set ignore F.
 * Every call that can abort or corrupt memory is first tried in a forked child ("crash").
 * Required ASAN_OPTIONS (set by tools/eng_synthetic.py and by default below): allocations above 64 MB fail
 * (mirrored by Hw.Syn.allocLimit).
 */
#include "topology-synthetic.c"
#include "dump.h"
#include "rng.h"
#include <sys/wait.h>
#include <fcntl.h>
#include <stdarg.h>
#include <unistd.h>

const char *__asan_default_options(void) {
  return "log_path=stdout:allocator_may_return_null=1:max_allocation_size_mb=64";
}

static FILE *fops, *fout;
static unsigned long stats[64];
static const char *stat_names[64] = {"typed", "untyped", "deep", "mutated", "alphabet", "raw", "indexes", "boundary",
  "set_ok", "set_einval", "crash", "loaded", "export_ops", "fix_ops", "init_junk", "not_loadable", "tile_skipped", "attached",
  "flt_loads", "flt_default", "flt_level_dropped", "flt_att_on_dropped", "flt_att_on_icache", "flt_numa_dropped_above_or_below", "flt_keep_structure",
  "flt_group_none", "flt_memcache_none_with_msc", "flt_refused_request", "att_icache_desc", 0};
enum { S_TYPED, S_UNTYPED, S_DEEP, S_MUT, S_ALPHA, S_RAW, S_IDX, S_BOUND, S_SETOK, S_SETINV, S_CRASH, S_LOADED, S_EXPORT, S_FIX,
       S_JUNK, S_NOTLOAD, S_TILE, S_ATT,
       S_FLOAD, S_FDEF, S_FDROP, S_FATTDROP, S_FATTIC, S_FNUMADROP, S_FKS, S_FGRPNONE, S_FMCNONE, S_FREFUSED, S_ATTIC };

#define LEGACY_F "----------000--0----"
#define NTYPES 20
static int valid_f(const char *f) {
  if (strlen(f) != NTYPES) return 0;
  for (int i = 0; i < NTYPES; i++) if (!strchr("-0123", f[i])) return 0;
  return 1;
}
/* the caller-side part of the configuration: type filters set between init and load; returns the number of refused requests */
static int apply_filters(hwloc_topology_t t, const char *f) {
  int refused = 0;
  for (int i = 0; i < NTYPES && f[i]; i++)
    if (f[i] != '-' && hwloc_topology_set_type_filter(t, (hwloc_obj_type_t) i, (enum hwloc_type_filter_e) (f[i] - '0')) < 0) refused++;
  return refused;
}
static void put_hex(FILE *f, const char *s);
static void put_desc(FILE *f, const char *s, const char *flt) {
  put_hex(f, s);
  if (strcmp(flt, LEGACY_F)) fprintf(f, "@%s", flt);
}

static void put_hex(FILE *f, const char *s) {
  if (!*s) { fputc('-', f); return; }
  for (; *s; s++) fprintf(f, "%02x", (unsigned char) *s);
}
static char *unhex(const char *h) {
  size_t n = strlen(h);
  char *s = malloc(n / 2 + 2);
  size_t k = 0;
  if (strcmp(h, "-"))
    for (size_t i = 0; i + 1 < n; i += 2) { unsigned v; sscanf(h + i, "%2x", &v); s[k++] = (char) v; }
  s[k] = 0;
  return s;
}

static struct hwloc_synthetic_backend_data_s *alloc_data(unsigned junk) {
  struct hwloc_synthetic_backend_data_s *d = malloc(sizeof(*d));
  memset(d, (int) (junk & 0xff), sizeof(*d));
  return d;
}

/* run init in a child: 0 = accepted, 1 = rejected, 2 = crashed (signal, sanitizer report, failed assert) */
static int probe_init_raw(const char *s, unsigned junk);
/* (the verdict of the last junk-free probe is remembered: set / load decisions ask for the same string again) */
static int probe_init(const char *s, unsigned junk) {
  static char *last; static int last_r;
  if (!junk && last && !strcmp(last, s)) return last_r;
  int r = probe_init_raw(s, junk);
  if (!junk) { free(last); last = strdup(s); last_r = r; }
  return r;
}
static int probe_init_raw(const char *s, unsigned junk) {
  fflush(NULL);
  pid_t p = fork();
  if (p == 0) {
    int fd = open("/dev/null", O_WRONLY); if (fd >= 0) { dup2(fd, 2); }
    alarm(20);
    struct hwloc_synthetic_backend_data_s *d = alloc_data(junk);
    int r = hwloc_backend_synthetic_init(d, s);
    _exit(r < 0 ? 11 : 10);
  }
  int st = 0;
  waitpid(p, &st, 0);
  if (WIFEXITED(st) && WEXITSTATUS(st) == 10) return 0;
  if (WIFEXITED(st) && WEXITSTATUS(st) == 11) return 1;
  return 2;
}
/* same for set+load through the public API (load-time asserts) */
static int probe_load_raw(const char *s, const char *flt);
/* (a few verdicts are remembered: the exports of one topology under different flags are often the same string) */
static int probe_load(const char *s, const char *flt) {
  static struct { char *s; char f[24]; int r; } memo[16]; static unsigned nx;
  for (int i = 0; i < 16; i++) if (memo[i].s && !strcmp(memo[i].s, s) && !strcmp(memo[i].f, flt)) return memo[i].r;
  int r = probe_load_raw(s, flt);
  free(memo[nx].s); memo[nx].s = strdup(s); snprintf(memo[nx].f, sizeof memo[nx].f, "%s", flt); memo[nx].r = r;
  nx = (nx + 1) % 16;
  return r;
}
static int probe_load_raw(const char *s, const char *flt) {
  fflush(NULL);
  pid_t p = fork();
  if (p == 0) {
    int fd = open("/dev/null", O_WRONLY); if (fd >= 0) { dup2(fd, 2); }
    alarm(60);
    hwloc_topology_t t; hwloc_topology_init(&t);
    apply_filters(t, flt);
    if (hwloc_topology_set_synthetic(t, s) < 0) _exit(11);
    if (hwloc_topology_load(t) < 0) _exit(12);
    hwloc_topology_check(t);      /* aborts on an inconsistent topology: reported as "crash" */
    _exit(10);
  }
  int st = 0;
  waitpid(p, &st, 0);
  if (WIFEXITED(st) && WEXITSTATUS(st) >= 10 && WEXITSTATUS(st) <= 12) return WEXITSTATUS(st) - 10;
  return 3;
}

static int has_tile(const char *s) { return strstr(s, "Tile") || strstr(s, "Module"); }

static void show_idx(FILE *f, unsigned *arr, unsigned long n) {
  if (!arr) { fputs("-", f); return; }
  unsigned h = 7, mx = 0;
  for (unsigned long i = 0; i < n; i++) { h = h * 31u + arr[i] + 1u; if (arr[i] > mx) mx = arr[i]; }
  fprintf(f, "%lu/%u/%u", n, h, mx);
}
static int is_cache_t(hwloc_obj_type_t t) { return t >= HWLOC_OBJ_L1CACHE && t <= HWLOC_OBJ_L3ICACHE; }

static unsigned data_count(struct hwloc_synthetic_backend_data_s *d) {
  unsigned c = 0;
  while (d->level[c].arity) c++;
  return c + 1;
}
static void show_data(FILE *f, struct hwloc_synthetic_backend_data_s *d) {
  unsigned count = data_count(d);
  fprintf(f, "ok %u %lu ", count, d->numa_attached_nr);
  show_idx(f, d->numa_attached_indexes.array, d->numa_attached_nr);
  for (unsigned i = 0; i < count; i++) {
    struct hwloc_synthetic_level_data_s *l = &d->level[i];
    fprintf(f, " | %u %lu %d ", l->arity, l->totalwidth, (int) l->attr.type);
    if (l->attr.type == HWLOC_OBJ_GROUP || is_cache_t(l->attr.type)) fprintf(f, "%u ", l->attr.depth); else fputs("- ", f);
    if (is_cache_t(l->attr.type)) fprintf(f, "%d ", (int) l->attr.cachetype); else fputs("- ", f);
    fprintf(f, "%llu %llu ", (unsigned long long) l->attr.memorysize, (unsigned long long) l->attr.memorysidecachesize);
    show_idx(f, l->indexes.array, l->totalwidth);
    fputs(" [", f);
    int first = 1;
    for (struct hwloc_synthetic_attached_s *a = l->attached; a; a = a->next) {
      fprintf(f, "%s%llu/%llu", first ? "" : " ", (unsigned long long) a->attr.memorysize, (unsigned long long) a->attr.memorysidecachesize);
      first = 0;
    }
    fputs("]", f);
  }
}
/* mirrors Hw.Syn.loadable */
static int loadable(struct hwloc_synthetic_backend_data_s *d) {
  unsigned count = data_count(d);
  unsigned long sum = 0;
  if (d->numa_attached_nr > 4096) return 0;
  if (d->numa_attached_indexes.array)
    for (unsigned long k = 0; k < d->numa_attached_nr; k++) if (d->numa_attached_indexes.array[k] >= 65536) return 0;
  for (unsigned i = 0; i < count; i++) {
    struct hwloc_synthetic_level_data_s *l = &d->level[i];
    if (l->attr.type == HWLOC_OBJ_MEMCACHE || l->attr.type == HWLOC_OBJ_TYPE_NONE) return 0;
    /* harness/dump.h prints sizes as signed 64-bit numbers */
    if (l->attr.memorysize >> 62 || l->attr.memorysidecachesize >> 62) return 0;
    for (struct hwloc_synthetic_attached_s *a = l->attached; a; a = a->next)
      if (a->attr.memorysize >> 62 || a->attr.memorysidecachesize >> 62) return 0;
    if (l->arity >= 65536) return 0;
    if (l->totalwidth > 20000) return 0;
    sum += l->totalwidth;
    if (sum > 20000) return 0;
    if (l->indexes.array)
      for (unsigned long k = 0; k < l->totalwidth; k++) if (l->indexes.array[k] >= 65536) return 0;
  }
  if (d->level[count - 1].totalwidth > 4096) return 0;
  /* the total memory of the machine must fit the uint64 total_memory fields (and the signed numbers of harness/dump.h) */
  unsigned __int128 tot = 0;
  for (unsigned i = 0; i < count; i++) {
    struct hwloc_synthetic_level_data_s *l = &d->level[i];
    if (i && l->attr.type == HWLOC_OBJ_NUMANODE) tot += (unsigned __int128) l->totalwidth * l->attr.memorysize;
    for (struct hwloc_synthetic_attached_s *a = l->attached; a; a = a->next) tot += (unsigned __int128) l->totalwidth * a->attr.memorysize;
  }
  if (tot >> 62) return 0;
  return 1;
}

/* ---- executors: each prints exactly one line to fout ---- */

static void exec_init(unsigned junk, const char *s) {
  if (has_tile(s)) stats[S_TILE]++;
  int pr = probe_init(s, junk);
  if (pr == 2) { fputs("crash\n", fout); stats[S_CRASH]++; return; }
  struct hwloc_synthetic_backend_data_s *d = alloc_data(junk);
  errno = 0;
  int r = hwloc_backend_synthetic_init(d, s);
  if (r < 0) fprintf(fout, "%s\n", errno == EINVAL ? "EINVAL" : "fail");
  else { show_data(fout, d); fputc('\n', fout); hwloc_synthetic_free_levels(d); free(d->string); }
  free(d);
}

static void exec_set(const char *s) {
  if (probe_init(s, 0) == 2) { fputs("crash\n", fout); stats[S_CRASH]++; return; }
  hwloc_topology_t t; hwloc_topology_init(&t);
  errno = 0;
  int r = hwloc_topology_set_synthetic(t, s);
  if (r < 0) { fprintf(fout, "%s\n", errno == EINVAL ? "EINVAL" : "fail"); stats[S_SETINV]++; }
  else { fputs("ok\n", fout); stats[S_SETOK]++; }
  hwloc_topology_destroy(t);
}

static hwloc_topology_t load_topo(const char *s, const char *flt) {
  hwloc_topology_t t; hwloc_topology_init(&t);
  apply_filters(t, flt);
  if (hwloc_topology_set_synthetic(t, s) < 0 || hwloc_topology_load(t) < 0) { hwloc_topology_destroy(t); return NULL; }
  return t;
}

/* cached topology for consecutive ops on the same description */
static char *cur_s; static char cur_f[NTYPES + 1]; static hwloc_topology_t cur_t;
static hwloc_topology_t get_topo(const char *s, const char *flt) {
  if (cur_s && !strcmp(cur_s, s) && !strcmp(cur_f, flt)) return cur_t;
  if (cur_t) hwloc_topology_destroy(cur_t);
  free(cur_s); cur_s = strdup(s); snprintf(cur_f, sizeof cur_f, "%s", flt);
  cur_t = load_topo(s, flt);
  return cur_t;
}

static void exec_export(unsigned long flags, size_t cap, const char *s, const char *flt) {
  hwloc_topology_t t = get_topo(s, flt);
  if (!t) { fputs("load fail\n", fout); return; }
  char *buf = malloc(cap);        /* exact size, also for 0 (non-NULL, no accessible byte: any write is an ASan report) */
  if (cap) memset(buf, 0xAA, cap);
  errno = 0;
  int r = hwloc_topology_export_synthetic(t, buf, cap, flags);
  fprintf(fout, "ret %d buf ", r);
  if (!cap) fputc('-', fout);
  for (size_t i = 0; i < cap; i++) { if ((unsigned char) buf[i] == 0xAA) fputs("--", fout); else fprintf(fout, "%02x", (unsigned char) buf[i]); }
  fputc('\n', fout);
  free(buf);
}

/* the precondition of the round-trip clause: every object of a level carries the same memory children (sizes, by position) */
static int mem_symmetric(hwloc_topology_t t) {
  int d = hwloc_topology_get_depth(t);
  for (int i = 0; i < d; i++) {
    unsigned n = hwloc_get_nbobjs_by_depth(t, i);
    hwloc_obj_t o0 = hwloc_get_obj_by_depth(t, i, 0);
    for (unsigned k = 1; k < n; k++) {
      hwloc_obj_t o = hwloc_get_obj_by_depth(t, i, k);
      if (o->memory_arity != o0->memory_arity) return 0;
      for (hwloc_obj_t a = o0->memory_first_child, b = o->memory_first_child; a && b; a = a->next_sibling, b = b->next_sibling)
        for (hwloc_obj_t x = a, y = b; x && y; x = x->memory_first_child, y = y->memory_first_child) {
          if (x->type != y->type) return 0;
          if (x->type == HWLOC_OBJ_NUMANODE) { if (x->attr->numanode.local_memory != y->attr->numanode.local_memory) return 0; break; }
          if (x->attr->cache.size != y->attr->cache.size) return 0;
        }
    }
  }
  return 1;
}

static void exec_fix(unsigned long flags, const char *s, const char *flt) {
  hwloc_topology_t t = get_topo(s, flt);
  if (!t) { fputs("load fail\n", fout); return; }
  static char b1[1 << 20], b2[1 << 20];
  int r1 = hwloc_topology_export_synthetic(t, b1, sizeof b1, flags);
  if (r1 < 0) { fputs("fix export-fail\n", fout); return; }
  fputs("fix ", fout); put_hex(fout, b1);
  /* the exported string is re-imported with every type it can name kept (LEGACY_F), whatever filters built `t`: under the
   * filters of the first load a kept-for-structure level could be merged away again once the export flags dropped what made it
   * differ (tried: false alarms); the one filter-induced non-fixpoint that remains is the known finding F78 */
  int pr = probe_load(b1, LEGACY_F);
  if (pr == 1) { fputs(" load2=EINVAL\n", fout); return; }
  if (pr != 0) { fputs(pr == 3 ? " load2=crash\n" : " load2=loadfail\n", fout); return; }
  hwloc_topology_t t2 = load_topo(b1, LEGACY_F);
  if (!t2) { fputs(" load2=fail\n", fout); return; }
  int r2 = hwloc_topology_export_synthetic(t2, b2, sizeof b2, flags);
  if (r2 < 0) { fputs(" load2=ok export2-fail\n", fout); hwloc_topology_destroy(t2); return; }
  /* structure comparison on the C side (the model computes the same bit from its own topologies) */
  int rt = 1;
  int noattrs = !!(flags & HWLOC_TOPOLOGY_EXPORT_SYNTHETIC_FLAG_NO_ATTRS);
  int nomem = !!(flags & (HWLOC_TOPOLOGY_EXPORT_SYNTHETIC_FLAG_V1 | HWLOC_TOPOLOGY_EXPORT_SYNTHETIC_FLAG_IGNORE_MEMORY));
  int d1 = hwloc_topology_get_depth(t), d2 = hwloc_topology_get_depth(t2);
  /* normal levels */
  int i1 = 0, i2 = 0;
  while (i1 < d1 || i2 < d2) {
    hwloc_obj_t o1 = i1 < d1 ? hwloc_get_obj_by_depth(t, i1, 0) : NULL, o2 = i2 < d2 ? hwloc_get_obj_by_depth(t2, i2, 0) : NULL;
    if (!o1 || !o2) { rt = 0; break; }
    hwloc_obj_type_t ty1 = o1->type, ty2 = o2->type;
    if ((flags & (HWLOC_TOPOLOGY_EXPORT_SYNTHETIC_FLAG_V1 | HWLOC_TOPOLOGY_EXPORT_SYNTHETIC_FLAG_NO_EXTENDED_TYPES)) && ty1 == HWLOC_OBJ_DIE) ty1 = HWLOC_OBJ_GROUP;
    if (ty1 != ty2 || hwloc_get_nbobjs_by_depth(t, i1) != hwloc_get_nbobjs_by_depth(t2, i2)) { rt = 0; break; }
    if (!noattrs && is_cache_t(ty1) && o1->attr->cache.size != o2->attr->cache.size) { rt = 0; break; }
    if (!nomem && o1->memory_arity != o2->memory_arity) { rt = 0; break; }
    i1++; i2++;
  }
  if (rt && !noattrs) {
    int n = hwloc_get_nbobjs_by_type(t, HWLOC_OBJ_PU);
    for (int i = 0; i < n && rt; i++) if (hwloc_get_obj_by_type(t, HWLOC_OBJ_PU, i)->os_index != hwloc_get_obj_by_type(t2, HWLOC_OBJ_PU, i)->os_index) rt = 0;
    if (!nomem) {
      int m = hwloc_get_nbobjs_by_type(t, HWLOC_OBJ_NUMANODE);
      if (m != hwloc_get_nbobjs_by_type(t2, HWLOC_OBJ_NUMANODE)) rt = 0;
      for (int i = 0; i < m && rt; i++) {
        hwloc_obj_t a = hwloc_get_obj_by_type(t, HWLOC_OBJ_NUMANODE, i), b = hwloc_get_obj_by_type(t2, HWLOC_OBJ_NUMANODE, i);
        if (a->os_index != b->os_index || a->attr->numanode.local_memory != b->attr->numanode.local_memory) rt = 0;
      }
    }
  }
  /* memory attached asymmetrically (e.g. NUMA indexes that order the nodes of one parent differently from those of another):
     outside the round-trip clause of the property, the export keeps the sizes of the first object only */
  if (!rt && !nomem && !noattrs && !mem_symmetric(t)) fprintf(fout, " load2=ok same=%d rt=asym\n", !strcmp(b1, b2));
  else fprintf(fout, " load2=ok same=%d rt=%d\n", !strcmp(b1, b2), rt);
  hwloc_topology_destroy(t2);
}

/* emit + execute the ops for one description */
static int env_on(const char *n) { const char *e = getenv(n); return e && *e && strcmp(e, "0"); }

/* the NUMA nodes of the loaded topology through the public API, by os_index: os/local memory/summed memory-side cache sizes above
 * it/PUs of its cpuset.  Live on replay too (the dump of a `load` op is a recording). */
static int cmp_os(const void *a, const void *b) {
  unsigned x = (*(hwloc_obj_t const *) a)->os_index, y = (*(hwloc_obj_t const *) b)->os_index;
  return x < y ? -1 : x > y;
}
static void exec_numas(const char *s, const char *flt) {
  hwloc_topology_t t = get_topo(s, flt);
  if (!t) { fputs("numas fail\n", fout); return; }
  int n = hwloc_get_nbobjs_by_type(t, HWLOC_OBJ_NUMANODE);
  hwloc_obj_t *v = malloc((n + 1) * sizeof(*v));
  for (int i = 0; i < n; i++) v[i] = hwloc_get_obj_by_type(t, HWLOC_OBJ_NUMANODE, i);
  qsort(v, n, sizeof(*v), cmp_os);
  fprintf(fout, "numas %d", n);
  for (int i = 0; i < n; i++) {
    unsigned long long msc = 0;
    for (hwloc_obj_t p = v[i]->parent; p && p->type == HWLOC_OBJ_MEMCACHE; p = p->parent) msc += p->attr->cache.size;
    fprintf(fout, " %u/%llu/%llu/", v[i]->os_index, (unsigned long long) v[i]->attr->numanode.local_memory, msc);
    int first = 1; unsigned id;
    hwloc_bitmap_foreach_begin(id, v[i]->cpuset) { fprintf(fout, "%s%u", first ? "" : ",", id); first = 0; } hwloc_bitmap_foreach_end();
    if (first) fputc('-', fout);
  }
  fputc('\n', fout);
  free(v);
}

/* a type-filter configuration for the description whose parsed levels are in `d`: biased towards dropping (KEEP_NONE) the
 * type of a level that carries attached NUMA nodes, of a neighbour of the NUMA level, of any level; also KEEP_STRUCTURE,
 * KEEP_IMPORTANT, requests the library refuses, and the plain defaults */
static void gen_filters(struct hwloc_synthetic_backend_data_s *d, char *f) {
  unsigned count = data_count(d);
  memset(f, '-', NTYPES); f[NTYPES] = 0;
  if (rng_chance(22)) return;                                   /* library defaults: I-caches and MemCache KEEP_NONE */
  if (rng_chance(35)) memcpy(f, LEGACY_F, NTYPES);              /* on top of "everything visible" */
  static const int filterable[] = {HWLOC_OBJ_PACKAGE, HWLOC_OBJ_DIE, HWLOC_OBJ_CORE, HWLOC_OBJ_L1CACHE, HWLOC_OBJ_L2CACHE, HWLOC_OBJ_L3CACHE,
    HWLOC_OBJ_L4CACHE, HWLOC_OBJ_L5CACHE, HWLOC_OBJ_L1ICACHE, HWLOC_OBJ_L2ICACHE, HWLOC_OBJ_L3ICACHE, HWLOC_OBJ_GROUP, HWLOC_OBJ_MEMCACHE};
  /* the types of the levels of this description (root and PU excluded) */
  int lt[160], nlt = 0, att[160], natt = 0, numa_at = -1;
  for (unsigned i = 1; i + 1 < count; i++) {
    int ty = (int) d->level[i].attr.type;
    if (ty == HWLOC_OBJ_NUMANODE) { numa_at = (int) i; continue; }
    if (ty < 0 || ty >= NTYPES) continue;
    lt[nlt++] = ty;
    if (d->level[i].attached) att[natt++] = ty;
  }
  if (natt && rng_chance(70)) f[att[rng_below(natt)]] = rng_chance(80) ? '1' : '2';
  if (numa_at > 0 && rng_chance(50)) {
    int j = numa_at + (rng_chance(50) ? 1 : -1);
    if (j >= 1 && j + 1 < (int) count) { int ty = (int) d->level[j].attr.type; if (ty > 0 && ty < NTYPES && ty != HWLOC_OBJ_NUMANODE) f[ty] = '1'; }
  }
  int k = rng_below(4);
  for (int i = 0; i < k && nlt; i++) {
    int ty = lt[rng_below(nlt)];
    if (ty == HWLOC_OBJ_GROUP && !rng_chance(30)) continue;    /* without Groups most NUMA placements leave the modelled class */
    unsigned r = rng_below(100);
    f[ty] = r < 55 ? '1' : r < 75 ? '0' : r < 90 ? '2' : '3';
  }
  if (rng_chance(20)) f[filterable[rng_below(13)]] = "0123"[rng_below(4)];
  if (rng_chance(25)) f[HWLOC_OBJ_MEMCACHE] = "0013"[rng_below(4)];
  if (rng_chance(6)) {                                          /* requests hwloc_topology_set_type_filter() refuses */
    static const char *bad[] = {"41", "42", "e1", "e3", "01", "d0", "d3", "j2", "g2", "h2", "i2"};   /* <type in base 36><filter> */
    const char *b = bad[rng_below(11)];
    int ty = b[0] >= 'a' ? b[0] - 'a' + 10 : b[0] - '0';
    f[ty] = b[1];
  }
  if (rng_chance(5)) f[HWLOC_OBJ_MISC] = "013"[rng_below(3)];
}

/* coverage counters of a filtered load */
static void count_filters(struct hwloc_synthetic_backend_data_s *d, const char *flt) {
  unsigned count = data_count(d);
  hwloc_topology_t t; hwloc_topology_init(&t);
  if (apply_filters(t, flt)) stats[S_FREFUSED]++;
  enum hwloc_type_filter_e e[NTYPES];
  for (int i = 0; i < NTYPES; i++) hwloc_topology_get_type_filter(t, (hwloc_obj_type_t) i, &e[i]);
  hwloc_topology_destroy(t);
  int drop = 0, attdrop = 0, attic = 0, numadrop = 0, ks = 0, msc = 0;
  for (unsigned i = 1; i + 1 < count; i++) {
    int ty = (int) d->level[i].attr.type;
    if (ty < 0 || ty >= NTYPES) continue;
    for (struct hwloc_synthetic_attached_s *a = d->level[i].attached; a; a = a->next) if (a->attr.memorysidecachesize) msc = 1;
    if (ty == HWLOC_OBJ_NUMANODE && d->level[i].attr.memorysidecachesize) msc = 1;
    if (e[ty] == HWLOC_TYPE_FILTER_KEEP_STRUCTURE && ty != HWLOC_OBJ_GROUP) ks = 1;
    if (e[ty] != HWLOC_TYPE_FILTER_KEEP_NONE) continue;
    drop = 1;
    if (d->level[i].attached) { attdrop = 1; if (ty >= HWLOC_OBJ_L1ICACHE && ty <= HWLOC_OBJ_L3ICACHE) attic = 1; }
    if (d->level[i - 1].attr.type == HWLOC_OBJ_NUMANODE || d->level[i + 1].attr.type == HWLOC_OBJ_NUMANODE) numadrop = 1;
  }
  for (struct hwloc_synthetic_attached_s *a = d->level[0].attached; a; a = a->next) if (a->attr.memorysidecachesize) msc = 1;
  stats[S_FLOAD]++;
  if (!strcmp(flt, "--------------------")) stats[S_FDEF]++;
  stats[S_FDROP] += drop; stats[S_FATTDROP] += attdrop; stats[S_FATTIC] += attic; stats[S_FNUMADROP] += numadrop; stats[S_FKS] += ks;
  if (e[HWLOC_OBJ_GROUP] == HWLOC_TYPE_FILTER_KEEP_NONE) stats[S_FGRPNONE]++;
  if (msc && e[HWLOC_OBJ_MEMCACHE] == HWLOC_TYPE_FILTER_KEEP_NONE) stats[S_FMCNONE]++;
}

/* load + dump + exports of `s` under the filter configuration `flt`; `all` = the complete export programme */
static int emit_load_cfg(const char *s, const char *flt, int all) {
  int pr = probe_load(s, flt);
  if (pr != 0) {
    /* accepted but load fails/crashes: reported as an op whose C answer cannot match the model */
    fputs("load ", fops); put_desc(fops, s, flt); fputs(" TOPO\n", fops);
    fprintf(fout, "load %s\n", pr == 3 ? "crash" : "fail");
    return 0;
  }
  hwloc_topology_t t = get_topo(s, flt);
  if (!t) return 0;
  char *mem = NULL; size_t len = 0;
  FILE *m = open_memstream(&mem, &len);
  dump_topology(m, t, "c");
  fclose(m);
  for (size_t i = 0; i < len; i++) if (mem[i] == '\n') mem[i] = ';';
  fputs("load ", fops); put_desc(fops, s, flt); fputc(' ', fops); fwrite(mem, 1, len, fops); fputc('\n', fops);
  free(mem);
  fputs("load ok\n", fout);
  stats[S_LOADED]++;
  fputs("numas ", fops); put_desc(fops, s, flt); fputc('\n', fops);
  exec_numas(s, flt);
  /* exports */
  int need = hwloc_topology_export_synthetic(t, NULL, 0, 0);
  int full = all && need >= 0 && need <= 160 && rng_chance(35);
  for (unsigned long flags = 0; flags < 16; flags++) {
    if (!all && flags && !rng_chance(12)) continue;
    int nd = hwloc_topology_export_synthetic(t, NULL, 0, flags);
    if (nd < 0) nd = 40;
    if (full && (flags == 0 || rng_chance(15))) {
      for (int cap = 0; cap <= nd + 1; cap++) {
        fprintf(fops, "export %lu %d ", flags, cap); put_desc(fops, s, flt); fputc('\n', fops);
        exec_export(flags, cap, s, flt); stats[S_EXPORT]++;
      }
    } else {
      int caps[4] = {nd + 1, nd, (int) rng_below(nd + 2), rng_chance(50) ? 0 : 1};
      for (int k = 0; k < 4; k++) {
        if (k >= 1 && !rng_chance(40)) continue;
        fprintf(fops, "export %lu %d ", flags, caps[k]); put_desc(fops, s, flt); fputc('\n', fops);
        exec_export(flags, caps[k], s, flt); stats[S_EXPORT]++;
      }
    }
    if (flags == 0 || rng_chance(40)) {
      fprintf(fops, "fix %lu ", flags); put_desc(fops, s, flt); fputc('\n', fops);
      exec_fix(flags, s, flt); stats[S_FIX]++;
    }
  }
  if (all) {
    /* an invalid flag word */
    fprintf(fops, "export %lu %d ", 16ul + rng_below(3) * 16, 8); put_desc(fops, s, flt); fputc('\n', fops);
    exec_export(16, 8, s, flt);
  }
  return 1;
}

static void emit_load(const char *s) {
  /* decide on the C side whether the accepted description is small enough to load */
  struct hwloc_synthetic_backend_data_s *d = alloc_data(0);
  if (hwloc_backend_synthetic_init(d, s) < 0) { free(d); return; }
  int ok = loadable(d);
  char flt[2][NTYPES + 1]; int nf = 0;
  if (ok) {
    /* besides the historic "everything visible" configuration: one or two generated type-filter configurations */
    int interesting = 0;
    unsigned count = data_count(d);
    for (unsigned i = 1; i + 1 < count; i++) {
      hwloc_obj_type_t ty = d->level[i].attr.type;
      if (d->level[i].attached || (ty >= HWLOC_OBJ_L1ICACHE && ty <= HWLOC_OBJ_L3ICACHE)) interesting = 1;
      if (d->level[i].attached && ty >= HWLOC_OBJ_L1ICACHE && ty <= HWLOC_OBJ_L3ICACHE) { stats[S_ATTIC]++; }
    }
    nf = interesting ? 1 + rng_chance(40) : rng_chance(50);
    /* the filters act on levels, not on widths: wide topologies (dumps of megabytes) are mostly left to the historic configuration */
    unsigned long sumw = 0;
    for (unsigned i = 0; i < count; i++) sumw += d->level[i].totalwidth;
    if (sumw > 600 && !rng_chance(10)) nf = 0;
    for (int k = 0; k < nf; k++) { gen_filters(d, flt[k]); count_filters(d, flt[k]); }
  }
  hwloc_synthetic_free_levels(d); free(d->string); free(d);
  if (!ok) { stats[S_NOTLOAD]++; return; }
  if (!emit_load_cfg(s, LEGACY_F, 1)) return;
  for (int k = 0; k < nf; k++) emit_load_cfg(s, flt[k], 0);
}

static void run_string(const char *s) {
  unsigned junk = rng_chance(20) ? 0xbebebebeu : 0;
  if (junk) stats[S_JUNK]++;
  fprintf(fops, "init %u ", junk); put_hex(fops, s); fputc('\n', fops);
  exec_init(junk, s);
  fputs("set ", fops); put_hex(fops, s); fputc('\n', fops);
  exec_set(s);
  if (probe_init(s, 0) != 0) return;
  emit_load(s);
}

/* ---- generators ---- */
static char gbuf[1 << 16];
static int goff;
static void ap(const char *fmt, ...) {
  va_list a; va_start(a, fmt);
  goff += vsnprintf(gbuf + goff, sizeof(gbuf) - goff - 1, fmt, a);
  va_end(a);
  if (goff > (int) sizeof(gbuf) - 2000) goff = sizeof(gbuf) - 2000;
}
static const char *pick(const char **l, unsigned n) { return l[rng_below(n)]; }
static unsigned budget;
static unsigned cnt(void) {
  unsigned c = rng_chance(25) ? 1 : 1 + rng_below(rng_chance(75) ? 3 : 6);
  if (c > budget) c = 1;
  budget /= c;
  return c;
}
static void gen_mem(void) {
  static const char *suf[] = {"", "", "kB", "KiB", "MB", "MiB", "GB", "GiB", "TB", "tib", "gb", "Mb"};
  if (rng_chance(10)) ap("0x%x%s", rng_below(4096), pick(suf, 12));
  else ap("%u%s", rng_chance(10) ? 0 : 1 + rng_below(rng_chance(50) ? 64 : 100000), pick(suf, 12));
}
static void gen_perm(unsigned n, unsigned *p) {
  for (unsigned i = 0; i < n; i++) p[i] = i;
  unsigned mode = rng_below(4);
  if (mode == 0) for (unsigned i = n; i > 1; i--) { unsigned j = rng_below(i), t = p[i - 1]; p[i - 1] = p[j]; p[j] = t; }
  else if (mode == 1) for (unsigned i = 0; i < n; i++) p[i] = n - 1 - i;
  else if (mode == 2) { unsigned off = 1 + rng_below(5); for (unsigned i = 0; i < n; i++) p[i] = i * 2 + off; }
  else if (n > 1) { unsigned a = rng_below(n), b = rng_below(n), t = p[a]; p[a] = p[b]; p[b] = t; }
}
/* widths[i] = total width of generated level i (0 = root); types as written */
static unsigned long gw[160]; static const char *gt[160]; static int gn;
static void gen_indexes(unsigned long total, int mylevel) {
  unsigned mode = rng_below(10);
  ap("indexes=");
  if (mode < 4 && total <= 512) {
    unsigned p[512]; gen_perm(total, p);
    unsigned n = total;
    if (rng_chance(6)) n = total + 1; else if (rng_chance(6) && n > 1) n--;
    for (unsigned i = 0; i < n; i++) ap("%s%u", i ? "," : "", i < total ? p[i] : 99);
    if (rng_chance(4) && total > 1) { goff -= 1; ap("%u", p[0]); }   /* a duplicate */
  } else if (mode < 7) {
    /* x*y loops: a random factorisation of total, in random order */
    unsigned long rem = total, step = 1; unsigned st[16], nb[16], k = 0;
    while (rem > 1 && k < 8) {
      unsigned f = 2; while (rem % f) f++;
      if (rng_chance(40)) { unsigned g = f; while (rem % (g * f) == 0 && rng_chance(50)) g *= f; f = g; }
      st[k] = step; nb[k] = f; step *= f; rem /= f; k++;
    }
    if (k && rng_chance(30)) k--;         /* leave the innermost/outermost loop implicit or missing */
    for (unsigned i = k; i > 1; i--) { unsigned j = rng_below(i), a = st[i - 1], b = nb[i - 1]; st[i - 1] = st[j]; nb[i - 1] = nb[j]; st[j] = a; nb[j] = b; }
    if (!k) { st[0] = 1; nb[0] = total; k = 1; }
    if (rng_chance(8)) st[rng_below(k)] += 1;
    if (rng_chance(8)) nb[rng_below(k)] += 1;
    for (unsigned i = 0; i < k; i++) ap("%s%u*%u", i ? ":" : "", st[i], nb[i]);
    if (rng_chance(8)) ap(":");                                                        /* trailing ':' */
    if (rng_chance(6)) { ap(": "); for (unsigned i = 0; i < 1 + rng_below(4); i++) ap("%s%u*%u", i ? ":" : "", 1 + rng_below(3), 1 + rng_below(3)); }
  } else {
    /* type loops: names of generated levels (shallower ones are the legal ones) */
    int n = 1 + rng_below(3);
    for (int i = 0; i < n; i++) {
      int lim = rng_chance(40) ? gn : mylevel + 1;      /* 40%: may name a deeper level (rejected) */
      int l = lim > 1 ? 1 + (int) rng_below(lim - 1) : 0;
      const char *nm = (l < gn && gt[l]) ? gt[l] : "core";
      if (rng_chance(6)) nm = "l2";
      ap("%s%s", i ? ":" : "", nm);
    }
  }
}
static void gen_attrs(const char *kind, unsigned long total, int mylevel) {
  /* kind: "cache" "numa" "pu" "other" */
  int n = 0;
  if (!rng_chance(45)) return;
  ap("(");
  if (!strcmp(kind, "cache") && rng_chance(70)) { ap("size="); gen_mem(); n++; }
  if (!strcmp(kind, "numa") && rng_chance(70)) { ap("%smemory=", n ? " " : ""); gen_mem(); n++; }
  if (!strcmp(kind, "numa") && rng_chance(35)) { ap("%smemorysidecachesize=", n ? " " : ""); gen_mem(); n++; }
  if (rng_chance(8)) { ap("%s%s", n ? " " : "", rng_chance(50) ? "foo=bar" : "memory=3"); n++; }
  if ((!strcmp(kind, "pu") || !strcmp(kind, "numa")) ? rng_chance(60) : rng_chance(10)) { ap("%s", n ? " " : ""); gen_indexes(total, mylevel); n++; }
  ap(")");
}
static unsigned long gtotal;
static void gen_attached(void) {
  static const char *nn[] = {"numa", "NUMANode", "node", "NUMA", "nu"};
  int k = 1 + (rng_chance(25) ? 1 : 0);
  for (int i = 0; i < k; i++) {
    ap(" [%s", pick(nn, 5));
    if (rng_chance(50)) {
      ap("(");
      int n = 0;
      if (rng_chance(70)) { ap("memory="); gen_mem(); n++; }
      if (rng_chance(40)) { ap("%smemorysidecachesize=", n ? " " : ""); gen_mem(); n++; }
      ap(")");
    }
    ap("]");
  }
  stats[S_ATT]++;
}
static void lvl(const char *name, const char *kind) {
  unsigned c = cnt();
  gtotal *= c;
  gw[gn] = gtotal; gt[gn] = name;
  if (goff) ap(" ");
  ap("%s:%u", name, c);
  gen_attrs(kind, gtotal, gn);
  gn++;
}
static void gen_typed(void) {
  static const char *pk[] = {"pack", "Package", "socket", "pa", "Socket"}, *nu[] = {"numa", "NUMANode", "node", "no"},
    *l3[] = {"l3", "L3Cache", "l3u", "L3"}, *l2[] = {"l2", "L2Cache", "L2u", "l2d"}, *l1[] = {"l1", "L1dCache", "l1d", "L1"},
    *l1i[] = {"l1i", "L1iCache", "L1icache"}, *l2i[] = {"l2i", "L2iCache"}, *l3i[] = {"l3i", "L3iCache", "L3icache"}, *co[] = {"core", "Core", "co"}, *pu[] = {"pu", "PU", "Pu"},
    *gr[] = {"group", "Group", "gr", "Group2", "group0"}, *die[] = {"die", "Die", "di"};
  goff = 0; gbuf[0] = 0; gn = 1; gtotal = 1; gw[0] = 1; gt[0] = "machine";
  budget = rng_chance(85) ? 64 : rng_chance(70) ? 512 : 4096;
  int numa_mode = rng_below(5); /* 0 none, 1 level, 2-3 attached, 4 attached at root */
  int att_left = numa_mode == 2 ? 1 : numa_mode == 3 ? 2 : 0;
  if (rng_chance(8)) { ap("(%s)", rng_chance(50) ? "memory=4GB" : "foo"); }
  if (numa_mode == 4) { gen_attached(); }
#define ATTP(p) do { if (att_left && rng_chance(p)) { gen_attached(); att_left--; } } while (0)
#define ATT() ATTP(45)
  if (rng_chance(25)) { lvl(pick(gr, 5), "other"); ATT(); }
  if (rng_chance(65)) { lvl(pick(pk, 5), "other"); ATT(); }
  if (rng_chance(20)) { lvl(pick(die, 3), "other"); ATT(); }
  if (numa_mode == 1 && rng_chance(60)) { lvl(pick(nu, 4), "numa"); numa_mode = 0; }
  if (rng_chance(15)) { lvl(pick(gr, 5), "other"); ATT(); }
  if (rng_chance(40)) { lvl(pick(l3, 4), "cache"); ATT(); }
  /* instruction caches (KEEP_NONE by default) are levels like any other: they may carry attached NUMA nodes */
  if (rng_chance(8)) { lvl(pick(l3i, 3), "cache"); ATTP(65); }
  if (numa_mode == 1 && rng_chance(50)) { lvl(pick(nu, 4), "numa"); numa_mode = 0; }
  if (rng_chance(40)) { lvl(pick(l2, 4), "cache"); ATT(); }
  if (rng_chance(10)) { lvl(pick(l2i, 2), "cache"); ATTP(65); }
  if (rng_chance(30)) { lvl(pick(l1, 4), "cache"); ATT(); }
  if (rng_chance(22)) { lvl(pick(l1i, 3), "cache"); ATTP(65); }
  if (numa_mode == 1) { lvl(pick(nu, 4), "numa"); numa_mode = 0; }
  if (rng_chance(75)) { lvl(pick(co, 3), "other"); ATT(); }
  if (att_left && gn > 1) gen_attached();
  lvl(pick(pu, 3), "pu");
  if (rng_chance(5)) ap(" ");
  if (rng_chance(3)) ap(" [numa]");
  stats[S_TYPED]++;
}
static void gen_untyped(void) {
  goff = 0; gbuf[0] = 0;
  budget = rng_chance(80) ? 64 : 1024;
  int n = 1 + rng_below(rng_chance(70) ? 6 : 12);
  if (rng_chance(15)) ap("[numa] ");
  for (int i = 0; i < n; i++) {
    unsigned c = cnt();
    ap("%s%u", i ? " " : "", c);
    if (rng_chance(10)) ap("(size=%u)", 1 + rng_below(9999));
    if (rng_chance(5) && i + 1 < n) ap(" [node]");
  }
  stats[S_UNTYPED]++;
}
static void gen_deep(void) {
  goff = 0; gbuf[0] = 0;
  int n = 122 + rng_below(7);          /* number of levels in the string: 122..128 (limit: 126 accepted) */
  int typed = rng_chance(60);
  int numa = rng_below(3);             /* 0 none, 1 level, 2 attached */
  int two_at = rng_below(n);
  if (rng_chance(25)) { typed = 1; numa = 0; n = 126; }      /* the former F04 class: 126 typed levels, implicit NUMA level */
  for (int i = 0; i < n - 1; i++) {
    int c = (i == two_at) ? 2 : 1;
    if (typed) {
      if (numa == 1 && i == n / 2) ap("numa:%d ", c);
      else ap("%s:%d ", rng_chance(85) ? "Group" : "group3", c);
      if (numa == 2 && i == n / 3) ap("[numa] ");
    } else {
      ap("%d ", c);
      if (numa == 2 && i == n / 3) ap("[numa] ");
    }
  }
  ap(typed ? "PU:%d" : "%d", two_at == n - 1 ? 2 : 1 + rng_below(3));
  stats[S_DEEP]++;
}
static const char *boundary[] = {"0", "1", "2", "4294967295", "4294967296", "18446744073709551615", "18446744073709551616",
  "0x10", "010", "-1", "+2", " 3", "0x", "65536", "99999999999999999999999", "2147483648", "4097", "08"};
static void gen_mutated(void) {
  if (rng_chance(70)) gen_typed(); else gen_untyped();
  stats[S_MUT]++;
  int n = 1 + rng_below(3);
  for (int k = 0; k < n; k++) {
    int len = strlen(gbuf);
    if (!len) return;
    int m = rng_below(8);
    int pos = rng_below(len);
    if (m == 0) { memmove(gbuf + pos, gbuf + pos + 1, len - pos); }                                     /* drop a char */
    else if (m == 1 && len < 60000) { memmove(gbuf + pos + 1, gbuf + pos, len - pos + 1); }              /* dup a char */
    else if (m == 2) { static const char cs[] = " :()[]=,*0129xa-+\n"; gbuf[pos] = cs[rng_below(sizeof(cs) - 1)]; }
    else if (m == 3) {                                                                                    /* boundary number instead of a digit run */
      if (strstr(gbuf, "indexes=")) continue;
      int a = pos; while (a < len && !(gbuf[a] >= '0' && gbuf[a] <= '9')) a++;
      if (a >= len) continue;
      int b = a; while (b < len && gbuf[b] >= '0' && gbuf[b] <= '9') b++;
      const char *bn = boundary[rng_below(sizeof(boundary) / sizeof(*boundary))];
      char tail[70000]; strcpy(tail, gbuf + b);
      strcpy(gbuf + a, bn); strcat(gbuf, tail);
      stats[S_BOUND]++;
    }
    else if (m == 4) { char *sp = strchr(gbuf + pos, ' '); if (sp) memmove(gbuf + pos, sp + 1, strlen(sp)); }     /* drop up to the next token */
    else if (m == 5) { gbuf[pos] = 0; }                                                                   /* truncate */
    else if (m == 6 && len < 30000) { char *sp = strrchr(gbuf, ' '); if (sp) { char t[40000]; strcpy(t, sp); strcat(gbuf, t); } }   /* dup last token */
    else if (m == 7) {                                                                                    /* swap two tokens */
      char *a = strchr(gbuf, ' '); if (!a) continue;
      char t[70000]; *a = 0; snprintf(t, sizeof t, "%s %s", a + 1, gbuf); strcpy(gbuf, t);
    }
  }
}
static void gen_alphabet(void) {
  static const char *tk[] = {"pack", "core", "pu", "numa", "l2", "l1i", "group", "die", "machine", "misc", "memcache", "osdev", "L9", "l0",
    ":", ":", ":", " ", " ", "(", ")", "[", "]", "1", "2", "3", "0", "size=", "memory=", "indexes=", "memorysidecachesize=", ",", "*", "GB", "kiB",
    "cache", "L2d", "os[", "bridge", "pcidev", "\n", "x", "-", "co-processor", "hostbridge", "node", "socket", "Cache"};
  goff = 0; gbuf[0] = 0;
  int n = 1 + rng_below(14);
  for (int i = 0; i < n; i++) ap("%s", pick(tk, sizeof(tk) / sizeof(*tk)));
  stats[S_ALPHA]++;
}
static void gen_raw(void) {
  int n = rng_below(24);
  for (int i = 0; i < n; i++) gbuf[i] = (char) (1 + rng_below(255));
  gbuf[n] = 0;
  stats[S_RAW]++;
}
static void gen_index_focus(void) {
  goff = 0; gbuf[0] = 0; gn = 1; gtotal = 1; gw[0] = 1; gt[0] = "machine";
  budget = 4096;
  static const unsigned tot[] = {1, 2, 3, 4, 6, 8, 12, 16, 24, 36, 64, 128};
  if (rng_chance(50)) {
    unsigned a = 1 + rng_below(4), b = 1 + rng_below(4);
    ap("pack:%u core:%u pu:%u(", a, b, 1 + rng_below(3));
    gw[1] = a; gt[1] = "pack"; gw[2] = a * b; gt[2] = "core"; gn = 3; gt[3] = "pu";
    unsigned c = gbuf[goff - 2] - '0';
    gw[3] = a * b * c; gn = 4;
    gen_indexes(a * b * c, rng_chance(30) ? 1 : 3);
    ap(")");
  } else {
    unsigned t = tot[rng_below(12)];
    ap("pu:%u(", t);
    gw[1] = t; gt[1] = "pu"; gn = 2;
    gen_indexes(t, 1);
    ap(")");
  }
  if (rng_chance(20)) ap(" ");
  stats[S_IDX]++;
}

static void gen_wrap(void) {
  /* the number of objects does not fit an unsigned long (former F67: division by zero): rejected */
  goff = 0; gbuf[0] = 0;
  if (rng_chance(50)) ap("Group:65536 Package:65536 Die:65536 Core:65536(indexes=%s) PU:%u", rng_chance(50) ? "Core" : "Die:Core", 1 + rng_below(3));
  else ap("Package:2147483648 Die:%s Core:%u(indexes=Core) PU:1", rng_chance(50) ? "2147483648" : "4294967295", 2 + rng_below(7));
}
static void gen_nbs(void) {
  /* the product of the x*y counts would wrap (former F69: assert(nbs)); 2^32 objects (former assert(step)): indexes ignored */
  goff = 0; gbuf[0] = 0;
  if (rng_chance(70)) ap("PU:%u(indexes=1*65536:1*65536:1*65536:1*65536)", 1 + rng_below(8));
  else ap("Package:65536 PU:65536(indexes=%s)", rng_chance(50) ? "Machine" : "1*65536:65536*65536");
}
static void gen_string(void) {
  unsigned m = rng_below(100);
  if (rng_chance(1)) { gen_wrap(); return; }
  if (rng_chance(1)) { gen_nbs(); return; }
  if (m < 38) gen_typed();
  else if (m < 46) gen_untyped();
  else if (m < 52) gen_deep();
  else if (m < 72) gen_mutated();
  else if (m < 82) gen_alphabet();
  else if (m < 87) gen_raw();
  else gen_index_focus();
}

/* <hex> or <hex>@<F> */
static char *split_desc(char *tok, const char **flt) {
  char *at = strchr(tok, '@');
  *flt = LEGACY_F;
  if (at) { *at = 0; *flt = at + 1; if (!valid_f(*flt)) return NULL; }
  return unhex(tok);
}
static int replay_line(char *line) {
  char *tok[8]; int nt = 0; char *save = NULL;
  for (char *t = strtok_r(line, " \n", &save); t && nt < 5; t = strtok_r(NULL, " \n", &save)) tok[nt++] = t;
  if (!nt) return 0;
  const char *flt = LEGACY_F; char *s = NULL;
  if (!strcmp(tok[0], "init") && nt >= 3 && (s = split_desc(tok[2], &flt))) exec_init(strtoul(tok[1], NULL, 10), s);
  else if (!strcmp(tok[0], "set") && nt >= 2 && (s = split_desc(tok[1], &flt))) exec_set(s);
  else if (!strcmp(tok[0], "load") && nt >= 2 && (s = split_desc(tok[1], &flt))) {
    /* the dump in the op line came from the run that produced it; replay re-checks that the load still succeeds */
    int pr = probe_load(s, flt); fprintf(fout, "load %s\n", pr == 0 ? "ok" : pr == 3 ? "crash" : "fail"); }
  else if (!strcmp(tok[0], "numas") && nt >= 2 && (s = split_desc(tok[1], &flt))) {
    int pr = probe_load(s, flt);
    if (pr) fprintf(fout, "numas %s\n", pr == 1 ? "EINVAL" : pr == 3 ? "crash" : "fail"); else exec_numas(s, flt); }
  else if (!strcmp(tok[0], "tryload") && nt >= 2 && (s = split_desc(tok[1], &flt))) {
    int pr = probe_load(s, flt);
    fprintf(fout, "tryload %s\n", pr == 0 ? "ok" : pr == 1 ? "EINVAL" : pr == 3 ? "crash" : "fail"); }
  else if (!strcmp(tok[0], "export") && nt >= 4 && (s = split_desc(tok[3], &flt))) exec_export(strtoul(tok[1], NULL, 10), strtoul(tok[2], NULL, 10), s, flt);
  else if (!strcmp(tok[0], "fix") && nt >= 3 && (s = split_desc(tok[2], &flt))) exec_fix(strtoul(tok[1], NULL, 10), s, flt);
  else fputs("bad-op\n", fout);
  free(s);
  return 0;
}

int main(int argc, char **argv) {
  setenv("HWLOC_HIDE_ERRORS", "2", 1);
  unsetenv("HWLOC_SYNTHETIC_VERBOSE");
  /* hwloc_synthetic_parse_attrs prints every unknown attribute (raw input bytes) to stderr: silence fd 2;
     sanitizer reports go to stdout (log_path=stdout) */
  { int nfd = open("/dev/null", O_WRONLY); if (nfd >= 0) dup2(nfd, 2); }
  if (argc >= 4 && !strcmp(argv[1], "--replay")) {
    FILE *f = fopen(argv[2], "r"); fout = fopen(argv[3], "w");
    if (!f || !fout) return 2;
    char *line = NULL; size_t cap = 0;
    while (getline(&line, &cap, f) > 0) { if (line[0] == '#' || line[0] == '\n') continue; replay_line(line); fflush(fout); }
    fclose(fout); fclose(f); free(line);
    if (cur_t) hwloc_topology_destroy(cur_t);
    free(cur_s);
    return 0;
  }
  if (argc >= 6 && !strcmp(argv[1], "--desc")) {
    /* synthetic --desc <description> <F> <ops> <out>: the ops (with the live dump) of one description under one filter string */
    fops = fopen(argv[4], "w"); fout = fopen(argv[5], "w");
    if (!fops || !fout || !valid_f(argv[3])) return 2;
    rng_seed(rng_seed_from_env());
    fputs("init 0 ", fops); put_hex(fops, argv[2]); fputc('\n', fops); exec_init(0, argv[2]);
    if (probe_init(argv[2], 0) == 0) emit_load_cfg(argv[2], argv[3], 0);
    fclose(fops); fclose(fout);
    if (cur_t) hwloc_topology_destroy(cur_t);
    free(cur_s);
    return 0;
  }
  if (argc < 5) { fprintf(stderr, "usage: synthetic <ncases> <ops> <out> <stats>\n"); return 2; }
  unsigned n = strtoul(argv[1], NULL, 10);
  fops = fopen(argv[2], "w"); fout = fopen(argv[3], "w");
  if (!fops || !fout) return 2;
  rng_seed(rng_seed_from_env());
  /* fixed boundary cases first */
  static const char *fixed[] = {"", " ", "PU:1", "1", "2 2", "pack:2 core:2 pu:2", "(memory=1GB) [numa] pu:2", "pu:2 ", "pu:2\n",
    "pack:2(indexes=3,5) numa:2(memory=256GiB indexes=pack) l3u:1(size=20mib) l2:2 l1i:1(size=16kiB) l1dcache:2 core:1 pu:2(indexes=l2)",
    "pack:2 [numa(memory=1GiB)] [numa(memory=1MiB)] core:2 [numa(indexes=8,7,5,6,4,3,1,2)] pu:4",
    "node:4 core:4 pu:4(indexes=node:core)", "pu:6(indexes=1*3:2*2)", "pu:4(indexes=0,0,1,1)", "memcache:2 pu:2", "[NUMA]", "pu:0", "pu:4294967296",
    "pack:2 numa:2 core:1 pu:2(indexes=0,4,2,6,1,3,5,7)", "numa:2 core:2 pu:1", "numa:2 pu:1", "core:2 pack:1 pu:2", "L2:2 L2:1 pu:1",
    "PU:4(indexes=2*2: 1*2:3*4:5*6)", "Package:2(indexes=Core) Core:2 PU:2", "Package:2 PU:2(indexes=Package:PU)", "Package:2 PU:2(indexes=Core)",
    "Tile:2 PU:2", "Module:2 Tile:2 pu:1", "pu:1 [numa(memorysidecachesize=1)]", "pu:4(indexes=1*2:)", "pu:4(indexes=2*2:1*2: )"};
  for (unsigned i = 0; i < sizeof(fixed) / sizeof(*fixed) && i < n; i++) run_string(fixed[i]);
  for (unsigned i = 0; i < n; i++) { gen_string(); run_string(gbuf); fflush(fops); fflush(fout); }
  fclose(fops); fclose(fout);
  if (cur_t) hwloc_topology_destroy(cur_t);
  free(cur_s);
  FILE *fs = fopen(argv[4], "w");
  for (int i = 0; stat_names[i]; i++) fprintf(fs, "%s %lu\n", stat_names[i], stats[i]);
  fclose(fs);
  return 0;
}
