/* lstopo-no-graphics (all its sources in one translation unit) as a callable function */
#define main verif_lstopo_main
#define usage verif_lstopo_usage
#include "lstopo.c"
#include "lstopo-draw.c"
#include "lstopo-tikz.c"
#include "lstopo-fig.c"
#include "lstopo-svg.c"
#include "lstopo-ascii.c"
#include "lstopo-text.c"
#include "lstopo-xml.c"
#include "lstopo-shmem.c"
#include "common-ps.c"
