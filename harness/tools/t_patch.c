#define main verif_patch_main
#define usage verif_patch_usage
#include "hwloc-patch.c"
