#define main verif_distrib_main
#define usage verif_distrib_usage
#include "hwloc-distrib.c"
