/* hwloc-calc as a callable function (the real source, compiled from VERIF_REPO/utils/hwloc) */
#define main verif_calc_main
#define usage verif_calc_usage
#include "hwloc-calc.c"
