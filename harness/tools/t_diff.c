#define main verif_diff_main
#define usage verif_diff_usage
#include "hwloc-diff.c"
