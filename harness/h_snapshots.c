/* C18 harness (engine `snapshots`): loads of bundled Linux / x86 snapshots (possibly with paths hidden) under
 * component selections x type filters x flags, each CASE in a FORKED CHILD with a watchdog.
 *
 * usage: snapshots run <plan-file> <dump-out> <log-out> <stash-dir>
 * plan lines:
 *   HIDE <absolute path>          rename the path into <stash-dir> (no-op when it does not exist)
 *   UNHIDE                        put every hidden path back (reverse order)
 *   CASE <id> <comps> <flags> <filters(20 chars 0-3 or -)> <fsroot|-> <cpuid|-> <checks>
 *       comps: L = HWLOC_COMPONENTS=linux,stop   X = x86,stop   B = x86,linux,stop
 *       checks: any of  r (load twice: SameTopo)  d (also load with INCLUDE_DISALLOWED toggled: DisallowedView)
 *                       x (XML export + reload: XmlEquiv)
 * dump-out (for `hwmodel snapshots`): dump blocks (harness/dump.h) tagged <id>.a/.b/.c/.x, lines `REL <rel> <tag1> <tag2>`, `CLEAR`
 * log-out: one line per case:  RES <id> loaded|load-failed|CRASH status=<n>|HANG  [notes]   (+ `ERR <id> <stderr tail>` lines)
 */
#include "dump.h"
#include <errno.h>
#include <unistd.h>
#include <signal.h>
#include <sys/wait.h>
#include <sys/stat.h>
#include <fcntl.h>
#include <setjmp.h>

static FILE *fdump, *flog;
static const char *stash;
static char hidden[512][1100]; static unsigned nhidden;
static unsigned watchdog_s = 90;

static void put_enum(FILE *f) {
  fprintf(f, "ENUM %d %d %d %d %d %d %d %d %d %d %d %d %d %d %d %d %d %d %d %d %d\n",
          HWLOC_OBJ_MACHINE, HWLOC_OBJ_PACKAGE, HWLOC_OBJ_DIE, HWLOC_OBJ_CORE, HWLOC_OBJ_PU,
          HWLOC_OBJ_L1CACHE, HWLOC_OBJ_L2CACHE, HWLOC_OBJ_L3CACHE, HWLOC_OBJ_L4CACHE, HWLOC_OBJ_L5CACHE,
          HWLOC_OBJ_L1ICACHE, HWLOC_OBJ_L2ICACHE, HWLOC_OBJ_L3ICACHE, HWLOC_OBJ_GROUP, HWLOC_OBJ_NUMANODE,
          HWLOC_OBJ_MEMCACHE, HWLOC_OBJ_BRIDGE, HWLOC_OBJ_PCI_DEVICE, HWLOC_OBJ_OS_DEVICE, HWLOC_OBJ_MISC, HWLOC_OBJ_TYPE_MAX);
}

/* component selection of a case: the explicit list ending in `stop` by default; a letter in <checks> selects a form that relies on
 * DEFAULT enabling (C18-r7):  D = HWLOC_COMPONENTS unset,  o = first component named, the others by default ("linux" / "x86"),
 * n = blacklist form ("-x86") for a Linux snapshot, the other explicit order ("linux,x86,stop") for a pair.  x86-only dumps always use
 * "x86,stop" (anything enabled by default would read the real /sys of this machine). */
static const char *g_variant = "";
static void set_env(char comps, const char *fsroot, const char *cpuid) {
  unsetenv("HWLOC_FSROOT"); unsetenv("HWLOC_CPUID_PATH"); unsetenv("HWLOC_COMPONENTS"); unsetenv("HWLOC_DUMPED_HWDATA_DIR");
  if (strcmp(fsroot, "-")) { setenv("HWLOC_FSROOT", fsroot, 1); setenv("HWLOC_DUMPED_HWDATA_DIR", "/var/run/hwloc", 1); }
  if (strcmp(cpuid, "-")) setenv("HWLOC_CPUID_PATH", cpuid, 1);
  const char *sel = comps == 'L' ? "linux,stop" : comps == 'X' ? "x86,stop" : "x86,linux,stop";
  if (comps != 'X') {
    if (strchr(g_variant, 'D')) sel = NULL;
    else if (strchr(g_variant, 'o')) sel = comps == 'L' ? "linux" : "x86";
    else if (strchr(g_variant, 'n')) sel = comps == 'L' ? "-x86" : "linux,x86,stop";
  }
  if (sel) setenv("HWLOC_COMPONENTS", sel, 1);
}
/* check letter `i`: another load IN THE SAME PROCESS under another component selection between the two loads that must be identical
 * (state a load leaves behind in the process-wide component registry must not leak into the next one) */
static void interfering_load(char comps, unsigned long flags, const char *filters, const char *fsroot, const char *cpuid) {
  const char *saved = g_variant;
  g_variant = (comps == 'L' && !strpbrk(saved, "Don")) ? "D" : "";   /* explicit "...,stop" list, or the default one when the case uses it */
  if (comps == 'B' && !strpbrk(saved, "Don")) g_variant = "o";
  set_env(comps == 'B' && strpbrk(saved, "Don") ? 'L' : comps, fsroot, cpuid);
  hwloc_topology_t t = NULL;
  if (hwloc_topology_init(&t) == 0) {
    hwloc_topology_set_flags(t, flags & ~(unsigned long) HWLOC_TOPOLOGY_FLAG_INCLUDE_DISALLOWED);
    (void) filters;
    hwloc_topology_load(t);            /* result irrelevant */
    hwloc_topology_destroy(t);
  }
  g_variant = saved;
  set_env(comps, fsroot, cpuid);
}
static void clear_env(void) {
  unsetenv("HWLOC_FSROOT"); unsetenv("HWLOC_CPUID_PATH"); unsetenv("HWLOC_COMPONENTS"); unsetenv("HWLOC_DUMPED_HWDATA_DIR");
}
static int configure(hwloc_topology_t t, unsigned long flags, const char *filters) {
  for (int ty = 0; ty < HWLOC_OBJ_TYPE_MAX && filters[ty]; ty++)
    if (filters[ty] >= '0' && filters[ty] <= '3')
      hwloc_topology_set_type_filter(t, (hwloc_obj_type_t) ty, (enum hwloc_type_filter_e) (filters[ty] - '0')); /* may be refused */
  return hwloc_topology_set_flags(t, flags);
}
/* NULL when set/load failed cleanly */
static hwloc_topology_t load(unsigned long flags, const char *filters) {
  hwloc_topology_t t;
  if (hwloc_topology_init(&t) < 0) return NULL;
  if (configure(t, flags, filters) < 0 || hwloc_topology_load(t) < 0) { hwloc_topology_destroy(t); return NULL; }
  return t;
}

/* hwloc_topology_check() is hwloc's own debugging checker (NOT the oracle): a failed assertion inside it is recorded as a
 * note (the dump is still judged) instead of killing the child */
static sigjmp_buf check_jb; static volatile int in_check, check_aborted;
static void on_abort(int sig) { (void) sig; if (in_check) siglongjmp(check_jb, 1); signal(SIGABRT, SIG_DFL); raise(SIGABRT); }
static void checked_topology_check(hwloc_topology_t t, char *notes, size_t notescap, const char *which) {
  signal(SIGABRT, on_abort);
  if (sigsetjmp(check_jb, 1) == 0) { in_check = 1; hwloc_topology_check(t); in_check = 0; }
  else { in_check = 0; check_aborted = 1; snprintf(notes + strlen(notes), notescap - strlen(notes), " TOPOLOGY-CHECK-ASSERT:%s", which); }
  signal(SIGABRT, SIG_DFL);
}

/* child: returns the text for the RES line */
/* open file descriptors of the process: a load (failed or not) followed by destroy must leave none behind; one leaked per load
 * ends, in a process that loads repeatedly, with loads that differ from the first one ("two loads ... identical") */
static unsigned count_fds(void) { unsigned n = 0; for (int fd = 0; fd < 4096; fd++) if (fcntl(fd, F_GETFD) != -1) n++; return n; }
static const char *run_case_child2(FILE *out, const char *id, char comps, unsigned long flags, const char *filters,
                                   const char *fsroot, const char *cpuid, const char *checks, char *notes, size_t notescap);
static const char *run_case_child(FILE *out, const char *id, char comps, unsigned long flags, const char *filters,
                                  const char *fsroot, const char *cpuid, const char *checks, char *notes, size_t notescap) {
  unsigned before = count_fds();
  const char *r = run_case_child2(out, id, comps, flags, filters, fsroot, cpuid, checks, notes, notescap);
  unsigned after = count_fds();
  if (after != before && !check_aborted)
    snprintf(notes + strlen(notes), notescap - strlen(notes), " NONDETERMINISTIC:descriptor-leak:%u-open-before-the-loads-%u-after-destroy", before, after);
  return r;
}
static const char *run_case_child2(FILE *out, const char *id, char comps, unsigned long flags, const char *filters,
                                  const char *fsroot, const char *cpuid, const char *checks, char *notes, size_t notescap) {
  char tag[128], tag2[128];
  notes[0] = 0;
  g_variant = checks;
  set_env(comps, fsroot, cpuid);
  hwloc_topology_t a = load(flags, filters);
  if (!a) {
    if (strchr(checks, 'r')) { hwloc_topology_t b = load(flags, filters); if (b) { snprintf(notes, notescap, " NONDETERMINISTIC:second-load-succeeded"); hwloc_topology_destroy(b); } }
    return "load-failed";
  }
  snprintf(tag, sizeof tag, "%s.a", id);
  dump_topology(out, a, tag);
  checked_topology_check(a, notes, notescap, "a");
  if (strchr(checks, 'r')) {
    if (strchr(checks, 'i')) interfering_load(comps, flags, filters, fsroot, cpuid);
    hwloc_topology_t b = load(flags, filters);
    if (!b) snprintf(notes + strlen(notes), notescap - strlen(notes), " NONDETERMINISTIC:second-load-failed");
    else {
      snprintf(tag2, sizeof tag2, "%s.b", id); dump_topology(out, b, tag2); fprintf(out, "REL same %s %s\n", tag, tag2);
      /* the dump carries the object tree; CPU kinds, memory attributes, distances and infos are compared through the XML export of
       * the two loads, which must be byte-identical (C18-r8: a static left by the first load changed the CPU kinds of the second) */
      char *xa = NULL, *xb = NULL; int la = 0, lb = 0;
      if (hwloc_topology_export_xmlbuffer(a, &xa, &la, 0) == 0 && hwloc_topology_export_xmlbuffer(b, &xb, &lb, 0) == 0) {
        if (la != lb || memcmp(xa, xb, (size_t) la))
          snprintf(notes + strlen(notes), notescap - strlen(notes), " NONDETERMINISTIC:xml-export-of-second-load-differs(%d-vs-%d-bytes)", la, lb);
      }
      if (xa) hwloc_free_xmlbuffer(a, xa);
      if (xb) hwloc_free_xmlbuffer(b, xb);
      hwloc_topology_destroy(b);
    }
  }
  if (strchr(checks, 'd')) {
    hwloc_topology_t c = load(flags ^ HWLOC_TOPOLOGY_FLAG_INCLUDE_DISALLOWED, filters);
    if (!c) snprintf(notes + strlen(notes), notescap - strlen(notes), " other-disallowed-view-load-failed");
    else {
      snprintf(tag2, sizeof tag2, "%s.c", id); dump_topology(out, c, tag2); checked_topology_check(c, notes, notescap, "c");
      if (flags & HWLOC_TOPOLOGY_FLAG_INCLUDE_DISALLOWED) fprintf(out, "REL disallowed %s %s\n", tag2, tag);
      else fprintf(out, "REL disallowed %s %s\n", tag, tag2);
      hwloc_topology_destroy(c);
    }
  }
  if (strchr(checks, 'x')) {
    char *xml = NULL; int len = 0;
    if (hwloc_topology_export_xmlbuffer(a, &xml, &len, 0) < 0) snprintf(notes + strlen(notes), notescap - strlen(notes), " XML-EXPORT-FAILED");
    else {
      clear_env();
      hwloc_topology_t x;
      if (hwloc_topology_init(&x) < 0 || configure(x, flags, filters) < 0 || hwloc_topology_set_xmlbuffer(x, xml, len) < 0 || hwloc_topology_load(x) < 0)
        snprintf(notes + strlen(notes), notescap - strlen(notes), " XML-RELOAD-FAILED");
      else { snprintf(tag2, sizeof tag2, "%s.x", id); dump_topology(out, x, tag2); checked_topology_check(x, notes, notescap, "x"); fprintf(out, "REL xml %s %s\n", tag, tag2); hwloc_topology_destroy(x); }
      hwloc_free_xmlbuffer(a, xml);
      set_env(comps, fsroot, cpuid);
    }
  }
  hwloc_topology_destroy(a);
  return "loaded";
}

static void append_file(FILE *dst, const char *path) {
  FILE *f = fopen(path, "r"); if (!f) return;
  char buf[65536]; size_t n;
  while ((n = fread(buf, 1, sizeof buf, f)) > 0) fwrite(buf, 1, n, dst);
  fclose(f);
}
static void log_tail(const char *id, const char *path) {
  FILE *f = fopen(path, "r"); if (!f) return;
  fseek(f, 0, SEEK_END); long sz = ftell(f); long from = sz > 3000 ? sz - 3000 : 0; fseek(f, from, SEEK_SET);
  char buf[3100]; size_t n = fread(buf, 1, 3000, f); buf[n] = 0; fclose(f);
  for (char *p = buf; *p; p++) if (*p == '\n') *p = '|';
  if (n) fprintf(flog, "ERR %s %s\n", id, buf);
}

static void do_case(char *line) {
  char id[64], filters[64], fsroot[1100], cpuid[1100], checks[16], comps; unsigned long flags;
  if (sscanf(line, "CASE %63s %c %lu %63s %1099s %1099s %15s", id, &comps, &flags, filters, fsroot, cpuid, checks) != 7) { fprintf(flog, "RES ? bad-plan-line\n"); return; }
  char tmpd[1200], tmpe[1200], tmpr[1200];
  snprintf(tmpd, sizeof tmpd, "%s/case.dump", stash); snprintf(tmpe, sizeof tmpe, "%s/case.err", stash); snprintf(tmpr, sizeof tmpr, "%s/case.res", stash);
  unlink(tmpd); unlink(tmpe); unlink(tmpr);
  fflush(fdump); fflush(flog);
  pid_t pid = fork();
  if (pid == 0) {
    int efd = open(tmpe, O_WRONLY | O_CREAT | O_TRUNC, 0644); if (efd >= 0) { dup2(efd, 2); close(efd); }
    FILE *out = fopen(tmpd, "w"); FILE *res = fopen(tmpr, "w");
    if (!out || !res) _exit(3);
    alarm(watchdog_s);
    char notes[512];
    const char *r = run_case_child(out, id, comps, flags, filters, fsroot, cpuid, checks, notes, sizeof notes);
    fprintf(out, "CLEAR\n");
    fclose(out);
    fprintf(res, "%s%s\n", r, notes); fclose(res);
    if (check_aborted) _exit(0);   /* the aborted checker leaked its temporaries: no leak check */
    exit(0);        /* exit(), not _exit(): LeakSanitizer runs */
  }
  int st = 0; waitpid(pid, &st, 0);
  if (WIFEXITED(st) && WEXITSTATUS(st) == 0) {
    char r[600] = "child-wrote-no-result"; FILE *f = fopen(tmpr, "r"); if (f) { if (!fgets(r, sizeof r, f)) strcpy(r, "child-wrote-no-result"); fclose(f); r[strcspn(r, "\n")] = 0; }
    append_file(fdump, tmpd);
    fprintf(flog, "RES %s %s\n", id, r);
    if (strstr(r, "ASSERT")) log_tail(id, tmpe);
  } else if (WIFSIGNALED(st) && WTERMSIG(st) == SIGALRM) { fprintf(flog, "RES %s HANG\n", id); log_tail(id, tmpe); }
  else { fprintf(flog, "RES %s CRASH status=%d\n", id, st); log_tail(id, tmpe); }
  fflush(fdump); fflush(flog);
}

static void do_hide(const char *path) {
  struct stat sb;
  if (lstat(path, &sb) < 0 || nhidden >= 512) return;
  char dst[1200]; snprintf(dst, sizeof dst, "%s/h%u", stash, nhidden);
  if (rename(path, dst) == 0) { strncpy(hidden[nhidden], path, 1099); hidden[nhidden][1099] = 0; nhidden++; }
  else fprintf(flog, "NOTE cannot hide %s: %s\n", path, strerror(errno));
}
static void do_unhide(void) {
  while (nhidden) {
    nhidden--;
    char src[1200]; snprintf(src, sizeof src, "%s/h%u", stash, nhidden);
    if (rename(src, hidden[nhidden]) < 0) fprintf(flog, "NOTE cannot restore %s: %s\n", hidden[nhidden], strerror(errno));
  }
}

int main(int argc, char **argv) {
  if (argc < 6 || strcmp(argv[1], "run")) { fprintf(stderr, "usage: snapshots run <plan> <dump-out> <log-out> <stash-dir>\n"); return 2; }
  FILE *in = fopen(argv[2], "r"); fdump = fopen(argv[3], "w"); flog = fopen(argv[4], "w"); stash = argv[5];
  if (!in || !fdump || !flog) return 2;
  if (getenv("VERIF_WATCHDOG")) watchdog_s = (unsigned) atoi(getenv("VERIF_WATCHDOG"));
  mkdir(stash, 0755);
  put_enum(fdump);
  /* the whole plan is read before the first fork: a child's exit() would otherwise rewind the shared file offset */
  char **lines = NULL; size_t nlines = 0; char *line = NULL; size_t cap = 0;
  while (getline(&line, &cap, in) > 0) {
    line[strcspn(line, "\n")] = 0;
    lines = realloc(lines, (nlines + 1) * sizeof(*lines)); lines[nlines++] = strdup(line);
  }
  fclose(in); in = NULL;
  for (size_t i = 0; i < nlines; i++) {
    if (!strncmp(lines[i], "CASE ", 5)) do_case(lines[i]);
    else if (!strncmp(lines[i], "HIDE ", 5)) do_hide(lines[i] + 5);
    else if (!strcmp(lines[i], "UNHIDE")) do_unhide();
    free(lines[i]);
  }
  free(lines);
  do_unhide();
  free(line); fclose(fdump); fclose(flog);
  return 0;
}
