/* C12 harness (engine `dup`): hwloc_topology_dup yields an equivalent, fully independent topology.
 *
 * usage: dup gen <ncases> <sources-file> <ops-out> <c-out>        (seed = VERIF_SEED)
 *        dup replay <script-file> <ops-out> <c-out>
 * script lines (a subset of the protocol lines; ops-out is what the Lean driver reads, c-out what C expects it to answer):
 *   LOAD <kind> <flags> <filters> <arg>     start a case: load slot A
 *   OP <A|B> <op...>                        modifying call on one copy (object arguments are DFS ids of that copy)
 *   DUP                                     B = hwloc_topology_dup(A)  (+ a second, recording-allocator copy for the provenance walk)
 *   FIN <0|1>                               destroy A then B (0) or B then A (1), observing the survivor in between; then the twin runs
 * protocol-only lines:
 *   RET <ret> <errno>, dump blocks (harness/dump.h) tagged A/B, internal-state lines I? (see emit_internal), OBS <slot>,
 *   echo verdicts computed here in C:  XMLEQ ATTREQ RAWEQ PROV GPNEXT TOPOUD FRAME SURV TWIN   (<KEY> ok | <KEY> bad <what>)
 *   TRACE <pagesize> <header> <n> <sizes...>   allocation trace of the recording copy; Lean answers LEN <shmem length>
 */
#include "private/autogen/config.h"
#include "hwloc.h"
#include "hwloc/shmem.h"
#include "private/private.h"
#include "bitmap.c"            /* struct hwloc_bitmap_s (left out of the link by include_c) */
#include "dump.h"
#include "rng.h"
#include "dup_walk.h"
#include <errno.h>
#include <stdarg.h>
#include <unistd.h>
#include <hwloc/distances.h>
#include <hwloc/memattrs.h>
#include <hwloc/cpukinds.h>
#include <hwloc/export.h>

#define LEAN_MAX_OBJS 500      /* larger topologies: C-side checks only (no structured lines for the model) */

static FILE *fops, *fc;
static void emit(const char *cans, const char *fmt, ...) {
  va_list ap; va_start(ap, fmt); vfprintf(fops, fmt, ap); va_end(ap);
  fputc('\n', fops); fprintf(fc, "%s\n", cans);
}
/* echo verdict: the ops line carries what C found, the expected answer is always "<key> ok" */
static void verdict(const char *key, const char *bad) {
  char exp[128]; snprintf(exp, sizeof exp, "%s ok", key);
  if (bad) emit(exp, "%s bad %s", key, bad); else emit(exp, "%s ok", key);
  fflush(fops); fflush(fc);
}

static uint64_t fnv(uint64_t h, const char *s, size_t n) { for (size_t i = 0; i < n; i++) { h ^= (unsigned char) s[i]; h *= 1099511628211ULL; } return h; }
#define FNV0 1469598103934665603ULL

/* ---------------------------------------------------------------- slots */
struct slot { hwloc_topology_t t; hwloc_obj_t *objs; unsigned nobjs, cap; };
static void collect(struct slot *s, hwloc_obj_t o) {
  hwloc_obj_t c; unsigned i;
  if (s->nobjs == s->cap) { s->cap = s->cap ? 2 * s->cap : 256; s->objs = realloc(s->objs, s->cap * sizeof(*s->objs)); }
  s->objs[s->nobjs++] = o;
  for (i = 0; i < o->arity; i++) collect(s, o->children[i]);
  for (c = o->memory_first_child; c; c = c->next_sibling) collect(s, c);
  for (c = o->io_first_child; c; c = c->next_sibling) collect(s, c);
  for (c = o->misc_first_child; c; c = c->next_sibling) collect(s, c);
}
static void recollect(struct slot *s) { s->nobjs = 0; if (s->t) collect(s, hwloc_get_root_obj(s->t)); }
static void slot_destroy(struct slot *s) { if (s->t) hwloc_topology_destroy(s->t); s->t = NULL; s->nobjs = 0; }

static const char *errname(int e) {
  switch (e) { case 0: return "ok"; case EINVAL: return "EINVAL"; case ENOENT: return "ENOENT"; case EXDEV: return "EXDEV";
  case EBUSY: return "EBUSY"; case EPERM: return "EPERM"; case ENOSYS: return "ENOSYS"; case ENOMEM: return "ENOMEM"; case EEXIST: return "EEXIST"; default: return "other"; }
}
static hwloc_bitmap_t set_from_hex(const char *s) {
  if (!strcmp(s, "-")) return NULL;
  hwloc_bitmap_t b = hwloc_bitmap_alloc();
  int inf = 0;
  if (*s == 'I') { inf = 1; s++; }
  size_t n = strlen(s);
  for (size_t i = 0; i < n; i++) {
    char c = s[n - 1 - i]; unsigned v = (c >= '0' && c <= '9') ? c - '0' : (c >= 'a' && c <= 'f') ? c - 'a' + 10 : 0;
    for (int k = 0; k < 4; k++) if (v & (1u << k)) hwloc_bitmap_set(b, 4 * i + k);
  }
  if (inf) hwloc_bitmap_set_range(b, 4 * n, -1);
  return b;
}
static void hex_of_set(char *dst, size_t cap, hwloc_const_bitmap_t s) {
  if (!s) { snprintf(dst, cap, "-"); return; }
  int inf = hwloc_bitmap_weight(s) == -1;
  int last = inf ? hwloc_bitmap_last_unset(s) : hwloc_bitmap_last(s);
  size_t off = 0;
  if (inf) dst[off++] = 'I';
  if (last < 0) { dst[off++] = '0'; dst[off] = 0; return; }
  int started = 0;
  for (int i = last / 64; i >= 0 && off + 20 < cap; i--) {
    unsigned long w = hwloc_bitmap_to_ith_ulong(s, i);
    off += snprintf(dst + off, cap - off, started ? "%016lx" : "%lx", w); started = 1;
  }
}
static char *unhex(const char *h) {
  if (!strcmp(h, "-")) return NULL;
  if (!strcmp(h, "=")) return strdup("");
  size_t n = strlen(h) / 2; char *s = malloc(n + 1);
  for (size_t i = 0; i < n; i++) { unsigned v; sscanf(h + 2 * i, "%2x", &v); s[i] = (char) v; }
  s[n] = 0; return s;
}
static void hexs(char *dst, const char *s) { if (!*s) { strcpy(dst, "="); return; } for (; *s; s++) dst += sprintf(dst, "%02x", (unsigned char) *s); }

/* ---------------------------------------------------------------- observations */
/* public attribute text: distances, memattrs, cpukinds, support, topology infos, page types, userdata (public API only) */
static void attr_text(FILE *f, struct slot *s) {
  hwloc_topology_t t = s->t;
  const struct hwloc_topology_support *sup = hwloc_topology_get_support(t);
  fprintf(f, "thissystem %d\n", hwloc_topology_is_thissystem(t));
  fprintf(f, "support");
  for (size_t i = 0; i < sizeof(*sup->discovery); i++) fprintf(f, " %u", ((unsigned char *) sup->discovery)[i]);
  fprintf(f, " |"); for (size_t i = 0; i < sizeof(*sup->cpubind); i++) fprintf(f, " %u", ((unsigned char *) sup->cpubind)[i]);
  fprintf(f, " |"); for (size_t i = 0; i < sizeof(*sup->membind); i++) fprintf(f, " %u", ((unsigned char *) sup->membind)[i]);
  fprintf(f, " |"); for (size_t i = 0; i < sizeof(*sup->misc); i++) fprintf(f, " %u", ((unsigned char *) sup->misc)[i]);
  fprintf(f, "\n");
  struct hwloc_infos_s *ti = hwloc_topology_get_infos(t);
  fprintf(f, "tinfos %u", ti->count);
  for (unsigned i = 0; i < ti->count; i++) fprintf(f, " [%s=%s]", ti->array[i].name, ti->array[i].value);
  fprintf(f, "\n");
  for (unsigned i = 0; i < s->nobjs; i++) {
    hwloc_obj_t o = s->objs[i];
    if (o->userdata) fprintf(f, "ud %u %lx\n", i, (unsigned long) (uintptr_t) o->userdata);
    if (o->type == HWLOC_OBJ_NUMANODE && o->attr->numanode.page_types_len) {
      fprintf(f, "pt %u", i);
      for (unsigned k = 0; k < o->attr->numanode.page_types_len; k++)
        fprintf(f, " %llu:%llu", (unsigned long long) o->attr->numanode.page_types[k].size, (unsigned long long) o->attr->numanode.page_types[k].count);
      fprintf(f, "\n");
    }
  }
  /* distances */
  {
    struct hwloc_distances_s *d[256]; unsigned nr = 256;
    if (hwloc_distances_get(t, &nr, d, 0, 0) < 0) fprintf(f, "distances FAIL\n");
    else {
      if (nr > 256) nr = 256;
      fprintf(f, "distances %u\n", nr);
      for (unsigned i = 0; i < nr; i++) {
        const char *nm = hwloc_distances_get_name(t, d[i]);
        fprintf(f, "dist %s kind=%lu n=%u objs", nm ? nm : "(null)", d[i]->kind, d[i]->nbobjs);
        for (unsigned k = 0; k < d[i]->nbobjs; k++) { if (d[i]->objs[k]) fprintf(f, " %d:%llu", (int) d[i]->objs[k]->type, (unsigned long long) d[i]->objs[k]->gp_index); else fprintf(f, " null"); }
        fprintf(f, " values");
        for (unsigned k = 0; k < d[i]->nbobjs * d[i]->nbobjs; k++) fprintf(f, " %llu", (unsigned long long) d[i]->values[k]);
        fprintf(f, "\n");
        hwloc_distances_release(t, d[i]);
      }
    }
  }
  /* memattrs */
  for (unsigned id = 0; id < 64; id++) {
    const char *name; unsigned long fl = 0;
    if (hwloc_memattr_get_name(t, id, &name) < 0) break;
    hwloc_memattr_get_flags(t, id, &fl);
    hwloc_obj_t tg[128]; hwloc_uint64_t tv[128]; unsigned nt = 128;
    if (hwloc_memattr_get_targets(t, id, NULL, 0, &nt, tg, tv) < 0) { fprintf(f, "memattr %u %s flags=%lu targets FAIL\n", id, name, fl); continue; }
    fprintf(f, "memattr %u %s flags=%lu ntargets=%u\n", id, name, fl, nt);
    if (nt > 128) nt = 128;
    for (unsigned j = 0; j < nt; j++) {
      fprintf(f, " target node gp=%llu os=%u v=%llu", (unsigned long long) tg[j]->gp_index, tg[j]->os_index, (unsigned long long) tv[j]);
      if (fl & HWLOC_MEMATTR_FLAG_NEED_INITIATOR) {
        struct hwloc_location in[64]; hwloc_uint64_t iv[64]; unsigned ni = 64;
        if (hwloc_memattr_get_initiators(t, id, tg[j], 0, &ni, in, iv) < 0) fprintf(f, " initiators FAIL");
        else {
          if (ni > 64) ni = 64;
          for (unsigned k = 0; k < ni; k++) {
            if (in[k].type == HWLOC_LOCATION_TYPE_CPUSET) { char b[2100]; hex_of_set(b, sizeof b, in[k].location.cpuset); fprintf(f, " C:%s=%llu", b, (unsigned long long) iv[k]); }
            else fprintf(f, " O:%d:%llu=%llu", (int) in[k].location.object->type, (unsigned long long) in[k].location.object->gp_index, (unsigned long long) iv[k]);
          }
        }
      }
      fprintf(f, "\n");
    }
  }
  /* cpukinds */
  {
    int nr = hwloc_cpukinds_get_nr(t, 0);
    fprintf(f, "cpukinds %d\n", nr);
    hwloc_bitmap_t cs = hwloc_bitmap_alloc();
    for (int i = 0; i < nr; i++) {
      int eff = -2; struct hwloc_infos_s *in = NULL; char b[2100];
      if (hwloc_cpukinds_get_info(t, i, cs, &eff, &in, 0) < 0) { fprintf(f, " kind %d FAIL\n", i); continue; }
      hex_of_set(b, sizeof b, cs);
      fprintf(f, " kind %d %s eff=%d infos", i, b, eff);
      for (unsigned k = 0; in && k < in->count; k++) fprintf(f, " [%s=%s]", in->array[k].name, in->array[k].value);
      fprintf(f, "\n");
    }
    hwloc_bitmap_free(cs);
  }
}

struct obs { uint64_t hdump, hattr, hxml; };
static int obs_eq(struct obs a, struct obs b) { return a.hdump == b.hdump && a.hattr == b.hattr && a.hxml == b.hxml; }
static const char *obs_diff(struct obs a, struct obs b) { return a.hdump != b.hdump ? "dump" : a.hattr != b.hattr ? "attr-text" : a.hxml != b.hxml ? "xml" : NULL; }

/* dump text without the tag (so that A and B compare equal) */
static uint64_t hash_dump(struct slot *s) {
  char *buf = NULL; size_t len = 0; FILE *m = open_memstream(&buf, &len);
  dump_topology(m, s->t, "X"); fclose(m);
  uint64_t h = fnv(FNV0, buf, len); free(buf); return h;
}
static uint64_t hash_attr(struct slot *s) {
  char *buf = NULL; size_t len = 0; FILE *m = open_memstream(&buf, &len);
  attr_text(m, s); fclose(m);
  uint64_t h = fnv(FNV0, buf, len); free(buf); return h;
}
static uint64_t hash_xml(struct slot *s) {
  char *x = NULL; int xl = 0;
  if (hwloc_topology_export_xmlbuffer(s->t, &x, &xl, 0) < 0 || !x) return 1;
  uint64_t h = fnv(FNV0, x, xl); hwloc_free_xmlbuffer(s->t, x); return h;
}
/* full public observation (refreshes the internal caches of that topology) */
static struct obs observe_public(struct slot *s) {
  struct obs o; recollect(s);
  o.hdump = hash_dump(s); o.hattr = hash_attr(s); o.hxml = hash_xml(s); return o;
}

/* internal-state lines for the model (no public call that refreshes caches is made here) */
static void emit_internal(struct slot *s, const char *tag) {
  struct hwloc_topology *t = s->t;
  char b[2100];
  fprintf(fops, "IU %u", s->nobjs);
  for (unsigned i = 0; i < s->nobjs; i++) fprintf(fops, " %llu", (unsigned long long) (uintptr_t) s->objs[i]->userdata);
  emit(".", "");
  for (unsigned i = 0; i < s->nobjs; i++) {
    hwloc_obj_t o = s->objs[i];
    if (o->type == HWLOC_OBJ_NUMANODE && o->attr->numanode.page_types_len) {
      fprintf(fops, "IP %u %u", i, o->attr->numanode.page_types_len);
      for (unsigned k = 0; k < o->attr->numanode.page_types_len; k++)
        fprintf(fops, " %llu %llu", (unsigned long long) o->attr->numanode.page_types[k].size, (unsigned long long) o->attr->numanode.page_types[k].count);
      emit(".", "");
    }
  }
  fprintf(fops, "IS %lu %ld %d %llu", t->state, (long) t->pid, t->userdata_not_decoded, (unsigned long long) (uintptr_t) t->userdata);
  {
    const unsigned char *p[4] = {(void *) t->support.discovery, (void *) t->support.cpubind, (void *) t->support.membind, (void *) t->support.misc};
    size_t n[4] = {sizeof(*t->support.discovery), sizeof(*t->support.cpubind), sizeof(*t->support.membind), sizeof(*t->support.misc)};
    fputc(' ', fops);
    for (int k = 0; k < 4; k++) for (size_t i = 0; i < n[k]; i++) fprintf(fops, "%s%u", (k || i) ? "," : "", p[k][i]);
  }
  emit(".", "");
  {
    uint32_t a[5]; memcpy(a, t->grouping_accuracies, sizeof a);
    emit(".", "IG %d %d %u %u %u %u %u %u %u %u", t->grouping, t->grouping_verbose, t->grouping_nbaccuracies, a[0], a[1], a[2], a[3], a[4],
         t->grouping_next_subkind, t->next_dist_id);
  }
  fprintf(fops, "II %u", t->infos.count);
  for (unsigned i = 0; i < t->infos.count; i++) { dump_hexstr(fops, t->infos.array[i].name); dump_hexstr(fops, t->infos.array[i].value); }
  emit(".", "");
  for (struct hwloc_internal_distances_s *d = t->first_dist; d; d = d->next) {
    unsigned cached = 0;
    fprintf(fops, "ID %u", d->id); dump_hexstr(fops, d->name);
    fprintf(fops, " %lu %u %d %u ", d->kind, d->iflags, (int) d->unique_type, d->nbobjs);
    if (d->different_types) for (unsigned i = 0; i < d->nbobjs; i++) fprintf(fops, "%s%d", i ? "," : "", (int) d->different_types[i]); else fputc('-', fops);
    fputc(' ', fops);
    for (unsigned i = 0; i < d->nbobjs; i++) fprintf(fops, "%s%llu", i ? "," : "", (unsigned long long) d->indexes[i]);
    fputc(' ', fops);
    for (unsigned i = 0; i < d->nbobjs * d->nbobjs; i++) fprintf(fops, "%s%llu", i ? "," : "", (unsigned long long) d->values[i]);
    for (unsigned i = 0; i < d->nbobjs; i++) if (d->objs[i]) cached++;
    fprintf(fops, " %u", cached);
    emit(".", "");
  }
  for (unsigned id = 0; id < t->nr_memattrs; id++) {
    struct hwloc_internal_memattr_s *m = &t->memattrs[id];
    fprintf(fops, "IM %u", id); dump_hexstr(fops, m->name);
    emit(".", " %lu %u %u", m->flags, m->iflags, m->nr_targets);
    for (unsigned j = 0; j < m->nr_targets; j++) {
      struct hwloc_internal_memattr_target_s *tg = &m->targets[j];
      unsigned ni = (m->flags & HWLOC_MEMATTR_FLAG_NEED_INITIATOR) ? tg->nr_initiators : 0;
      fprintf(fops, "IT %u %u %d %llu %llu %d %u", id, j, (int) tg->type, (unsigned long long) tg->gp_index,
              (m->flags & HWLOC_MEMATTR_FLAG_NEED_INITIATOR) ? 0ULL : (unsigned long long) tg->noinitiator_value, tg->obj ? 1 : 0, ni);
      for (unsigned k = 0; k < ni; k++) {
        struct hwloc_internal_memattr_initiator_s *im = &tg->initiators[k];
        if (im->initiator.type == HWLOC_LOCATION_TYPE_CPUSET) { hex_of_set(b, sizeof b, im->initiator.location.cpuset); fprintf(fops, " C:%s:%llu", b, (unsigned long long) im->value); }
        else fprintf(fops, " O:%d:%llu:%d:%llu", (int) im->initiator.location.object.type, (unsigned long long) im->initiator.location.object.gp_index,
                     im->initiator.location.object.obj ? 1 : 0, (unsigned long long) im->value);
      }
      emit(".", "");
    }
  }
  for (unsigned i = 0; i < t->nr_cpukinds; i++) {
    struct hwloc_internal_cpukind_s *k = &t->cpukinds[i];
    hex_of_set(b, sizeof b, k->cpuset);
    fprintf(fops, "IK %u %s %d %d %llu %u", i, b, k->efficiency, k->forced_efficiency, (unsigned long long) k->ranking_value, k->infos.count);
    for (unsigned j = 0; j < k->infos.count; j++) { dump_hexstr(fops, k->infos.array[j].name); dump_hexstr(fops, k->infos.array[j].value); }
    emit(".", "");
  }
  (void) tag;
}

/* structured observation of one slot for the model: dump block + internal lines + OBS (the model's verdict line) */
static void emit_obs(struct slot *s, const char *tag) {
  char exp[32];
  recollect(s);
  if (s->nobjs > LEAN_MAX_OBJS) return;
  unsigned lines = dump_topology(fops, s->t, tag);
  for (unsigned i = 0; i < lines; i++) fprintf(fc, ".\n");
  emit_internal(s, tag);
  snprintf(exp, sizeof exp, "OBS %s ok", tag);
  emit(exp, "OBS %s", tag);
  fflush(fops); fflush(fc);
}

/* ---------------------------------------------------------------- loading and modifying calls */
static int load_slot(struct slot *s, char kind, unsigned long flags, const char *filters, const char *arg) {
  unsetenv("HWLOC_FSROOT"); unsetenv("HWLOC_CPUID_PATH"); unsetenv("HWLOC_COMPONENTS");
  slot_destroy(s);
  if (hwloc_topology_init(&s->t) < 0) { s->t = NULL; return -1; }
  for (int ty = 0; ty < HWLOC_OBJ_TYPE_MAX && filters[ty]; ty++)
    if (filters[ty] >= '0' && filters[ty] <= '3') hwloc_topology_set_type_filter(s->t, (hwloc_obj_type_t) ty, (enum hwloc_type_filter_e) (filters[ty] - '0'));
  if (hwloc_topology_set_flags(s->t, flags) < 0) goto fail;
  int err = 0;
  /* lower-case kind: load in "userdata not decoded" mode (environment variable read by hwloc_topology_load; the mode is topology
   * state that export consults later, so a duplicate must carry it) */
  if (kind == 's' || kind == 'x') setenv("HWLOC_XML_USERDATA_NOT_DECODED", "1", 1);
  switch (kind) {
  case 'S': case 's': err = hwloc_topology_set_synthetic(s->t, arg); break;
  case 'X': case 'x': err = hwloc_topology_set_xml(s->t, arg); break;
  default: err = -1;
  }
  if (err >= 0) err = hwloc_topology_load(s->t);
  unsetenv("HWLOC_XML_USERDATA_NOT_DECODED");
  if (err < 0) goto fail;
  recollect(s);
  /* opaque userdata on two thirds of the objects (must be copied verbatim) */
  for (unsigned i = 0; i < s->nobjs; i++) if (s->objs[i]->gp_index % 3) s->objs[i]->userdata = (void *) (uintptr_t) (0x10000 + s->objs[i]->gp_index);
  return 0;
fail:
  hwloc_topology_destroy(s->t); s->t = NULL; return -1;
}

/* execute one modifying call; tok[0] is the op name */
static void do_op(struct slot *s, char **tok, int nt, long *retp, int *errp) {
  hwloc_topology_t topo = s->t;
  const char *op = tok[0];
  long ret = -1; int err = 0;
  (void) nt;
  recollect(s);
  errno = 0;
#define OBJ(k) (s->objs[strtoul(tok[k], NULL, 10) % s->nobjs])
  if (!strcmp(op, "allow")) {
    hwloc_bitmap_t c = set_from_hex(tok[2]), n = set_from_hex(tok[3]);
    ret = hwloc_topology_allow(topo, c, n, strtoul(tok[1], NULL, 10)); err = errno;
    hwloc_bitmap_free(c); hwloc_bitmap_free(n);
  } else if (!strcmp(op, "addinfo")) {
    char *n = unhex(tok[2]), *v = unhex(tok[3]);
    ret = hwloc_obj_add_info(OBJ(1), n, v); err = errno; free(n); free(v);
  } else if (!strcmp(op, "modinfos")) {
    char *n = unhex(tok[3]), *v = unhex(tok[4]);
    ret = hwloc_modify_infos(&OBJ(1)->infos, strtoul(tok[2], NULL, 10), n, v); err = errno; free(n); free(v);
  } else if (!strcmp(op, "subtype")) {
    char *st = unhex(tok[2]);
    ret = hwloc_obj_set_subtype(topo, OBJ(1), st); err = errno; free(st);
  } else if (!strcmp(op, "tinfo")) {
    char *n = unhex(tok[2]), *v = unhex(tok[3]);
    ret = hwloc_modify_infos(hwloc_topology_get_infos(topo), strtoul(tok[1], NULL, 10), n, v); err = errno; free(n); free(v);
  } else if (!strcmp(op, "userdata")) {
    OBJ(1)->userdata = (void *) (uintptr_t) strtoull(tok[2], NULL, 10); ret = 0;
  } else if (!strcmp(op, "tuserdata")) {
    hwloc_topology_set_userdata(topo, (void *) (uintptr_t) strtoull(tok[1], NULL, 10)); ret = 0;
  } else if (!strcmp(op, "misc")) {
    char *st = unhex(tok[2]);
    hwloc_obj_t m = hwloc_topology_insert_misc_object(topo, OBJ(1), st); err = errno; free(st);
    ret = m ? 0 : -1;
  } else if (!strcmp(op, "restrict")) {
    hwloc_bitmap_t st = set_from_hex(tok[1]);
    ret = hwloc_topology_restrict(topo, st, strtoul(tok[2], NULL, 10)); err = errno; hwloc_bitmap_free(st);
  } else if (!strcmp(op, "group")) {
    hwloc_obj_t g = hwloc_topology_alloc_group_object(topo);
    if (g) {
      hwloc_bitmap_t c = set_from_hex(tok[1]), n = set_from_hex(tok[2]);
      if (c) g->cpuset = c;
      if (n) g->nodeset = n;
      g->attr->group.dont_merge = (unsigned char) atoi(tok[3]);
      hwloc_obj_t r = hwloc_topology_insert_group_object(topo, g); err = errno;
      ret = r ? (r == g ? 0 : 1) : -1;
    } else err = errno;
  } else if (!strcmp(op, "distadd")) {
    /* distadd <depth> <first lidx> <n> <kind> <flags> <seed> <name k> */
    int depth = atoi(tok[1]); unsigned first = atoi(tok[2]), n = atoi(tok[3]); unsigned long kind = strtoul(tok[4], NULL, 10), fl = strtoul(tok[5], NULL, 10);
    uint64_t sd = strtoull(tok[6], NULL, 10);
    char name[32]; snprintf(name, sizeof name, "verif%s", tok[7]);
    hwloc_obj_t os[64]; hwloc_uint64_t vals[64 * 64]; unsigned k = 0;
    for (unsigned i = 0; i < n && i < 64; i++) { hwloc_obj_t o = hwloc_get_obj_by_depth(topo, depth, first + i); if (o) os[k++] = o; }
    for (unsigned i = 0; i < k; i++) for (unsigned j = 0; j < k; j++) {
      unsigned bi = i / (1 + sd % 3), bj = j / (1 + sd % 3);
      vals[i * k + j] = i == j ? 10 : (bi == bj ? 12 : 20 + ((sd >> 8) % 2) * ((bi / 2 == bj / 2) ? 0 : 10));
    }
    hwloc_distances_add_handle_t h = hwloc_distances_add_create(topo, (sd & 16) ? NULL : name, kind, 0);
    if (h) {
      if (hwloc_distances_add_values(topo, h, k, os, vals, 0) < 0) { err = errno; ret = -1; }
      else { ret = hwloc_distances_add_commit(topo, h, fl); err = errno; }
    } else err = errno;
  } else if (!strcmp(op, "disthet")) {
    /* disthet <n> <seed>: heterogeneous-type matrix over the first objects of the DFS list that have a cpuset (different_types array) */
    unsigned n = atoi(tok[1]); uint64_t sd = strtoull(tok[2], NULL, 10);
    hwloc_obj_t os[16]; hwloc_uint64_t vals[256]; unsigned k = 0;
    for (unsigned i = 0; i < s->nobjs && k < n && k < 16; i++) { hwloc_obj_t o = s->objs[(i * 7 + sd) % s->nobjs]; int dupl = 0;
      for (unsigned j = 0; j < k; j++) if (os[j] == o) dupl = 1;
      if (!dupl && (o->type == HWLOC_OBJ_PU || o->type == HWLOC_OBJ_CORE || o->type == HWLOC_OBJ_PACKAGE || o->type == HWLOC_OBJ_NUMANODE)) os[k++] = o; }
    for (unsigned i = 0; i < k * k; i++) vals[i] = 1 + (i * 2654435761u + sd) % 97;
    hwloc_distances_add_handle_t h = hwloc_distances_add_create(topo, "verifhet", HWLOC_DISTANCES_KIND_FROM_USER | HWLOC_DISTANCES_KIND_VALUE_BANDWIDTH, 0);
    if (h) {
      if (hwloc_distances_add_values(topo, h, k, os, vals, 0) < 0) { err = errno; ret = -1; }
      else { ret = hwloc_distances_add_commit(topo, h, 0); err = errno; }
    } else err = errno;
  } else if (!strcmp(op, "distremove")) {
    ret = hwloc_distances_remove(topo); err = errno;
  } else if (!strcmp(op, "distremovedepth")) {
    ret = hwloc_distances_remove_by_depth(topo, atoi(tok[1])); err = errno;
  } else if (!strcmp(op, "memattr")) {
    /* memattr <flags> <node lidx> <value> <initiator: 0 cpuset of a random object / 1 object> <obj id> <name k> */
    hwloc_memattr_id_t id; unsigned long fl = strtoul(tok[1], NULL, 10);
    char name[32]; snprintf(name, sizeof name, "verif%s", tok[6]);
    ret = hwloc_memattr_register(topo, name, fl, &id); err = errno;
    if (ret < 0 && hwloc_memattr_get_by_name(topo, name, &id) == 0) { ret = 0; hwloc_memattr_get_flags(topo, id, &fl); }
    if (!ret) {
      hwloc_obj_t node = hwloc_get_obj_by_type(topo, HWLOC_OBJ_NUMANODE, atoi(tok[2]));
      hwloc_obj_t io = OBJ(5);
      if (node) { struct hwloc_location loc;
        if (atoi(tok[4]) && io->cpuset) { loc.type = HWLOC_LOCATION_TYPE_OBJECT; loc.location.object = io; }
        else { loc.type = HWLOC_LOCATION_TYPE_CPUSET; loc.location.cpuset = io->cpuset ? io->cpuset : hwloc_get_root_obj(topo)->cpuset; }
        ret = hwloc_memattr_set_value(topo, id, node, (fl & HWLOC_MEMATTR_FLAG_NEED_INITIATOR) ? &loc : NULL, 0, strtoull(tok[3], NULL, 10)); err = errno; }
    }
  } else if (!strcmp(op, "memset")) {
    /* memset <attr id> <node lidx> <value> <initiator kind> <obj id>: value of a predefined attribute (Bandwidth, Latency, ...) */
    hwloc_memattr_id_t id = atoi(tok[1]); unsigned long fl = 0;
    hwloc_obj_t node = hwloc_get_obj_by_type(topo, HWLOC_OBJ_NUMANODE, atoi(tok[2]));
    hwloc_obj_t io = OBJ(5);
    if (node && hwloc_memattr_get_flags(topo, id, &fl) == 0) { struct hwloc_location loc;
      if (atoi(tok[4]) && io->cpuset) { loc.type = HWLOC_LOCATION_TYPE_OBJECT; loc.location.object = io; }
      else { loc.type = HWLOC_LOCATION_TYPE_CPUSET; loc.location.cpuset = io->cpuset ? io->cpuset : hwloc_get_root_obj(topo)->cpuset; }
      ret = hwloc_memattr_set_value(topo, id, node, (fl & HWLOC_MEMATTR_FLAG_NEED_INITIATOR) ? &loc : NULL, 0, strtoull(tok[3], NULL, 10)); err = errno; }
    else err = errno;
  } else if (!strcmp(op, "cpukind")) {
    /* cpukind <set> <forced efficiency> <ninfos> */
    hwloc_bitmap_t st = set_from_hex(tok[1]);
    struct hwloc_info_s ia[2] = {{(char *) "CoreType", (char *) "verif"}, {(char *) "FrequencyMaxMHz", (char *) "4200"}};
    struct hwloc_infos_s in; in.array = ia; in.count = atoi(tok[3]) % 3; in.allocated = 2;
    ret = hwloc_cpukinds_register(topo, st, atoi(tok[2]), in.count ? &in : NULL, 0); err = errno; hwloc_bitmap_free(st);
  } else if (!strcmp(op, "refresh")) {
    ret = hwloc_topology_refresh(topo); err = errno;
  } else { ret = -99; }
#undef OBJ
  *retp = ret; *errp = ret < 0 ? err : 0;
}

/* ---------------------------------------------------------------- case execution */
enum mode { M_MAIN, M_TWIN_A, M_TWIN_B };
#define MAXLINES 64
struct steprec { int has; struct obs o; long ret; int err; };
struct world { struct slot s[2]; enum mode mode; int dupped, big; struct obs last[2]; struct steprec rec[MAXLINES]; };
static const char *slotname[2] = {"A", "B"};

static const char *raw_attr_diff(struct slot *a, struct slot *b) {
  if (a->nobjs != b->nobjs) return "object-count";
  for (unsigned i = 0; i < a->nobjs; i++) {
    hwloc_obj_t x = a->objs[i], y = b->objs[i];
    if (x->type != y->type) return "type";
    if (!x->attr != !y->attr) return "attr-nullness";
    if (!x->attr) continue;
    if (x->type == HWLOC_OBJ_NUMANODE) {
      if (x->attr->numanode.local_memory != y->attr->numanode.local_memory || x->attr->numanode.page_types_len != y->attr->numanode.page_types_len) return "numanode-attr";
      if (x->attr->numanode.page_types_len && memcmp(x->attr->numanode.page_types, y->attr->numanode.page_types,
          x->attr->numanode.page_types_len * sizeof(struct hwloc_memory_page_type_s))) return "page-types";
      if (!x->attr->numanode.page_types_len && y->attr->numanode.page_types && y->attr->numanode.page_types == x->attr->numanode.page_types && x->attr->numanode.page_types) return "empty-page-types-array-shared";
    } else if (memcmp(x->attr, y->attr, sizeof(*x->attr))) return "attr-union-bytes";
    if (x->userdata != y->userdata) return "userdata";
  }
  return NULL;
}

/* the provenance walk: a second copy through a recording allocator */
static void provenance(struct slot *a) {
  struct rec r = {0}; struct hwloc_tma tma; struct rangeset old = {0};
  struct wctx cc = {0}, ck = {0};
  hwloc_topology_t p = NULL;
  char msg[600];
  tma.malloc = rec_malloc; tma.data = &r; tma.dontfree = 0;
  if (hwloc__topology_dup(&p, a->t, &tma) < 0 || !p) { verdict("PROV", "recording-dup-failed"); free(r.b); return; }
  size_t *trace = malloc((r.n + 1) * sizeof(size_t)); unsigned ntrace = r.n;
  for (unsigned i = 0; i < r.n; i++) trace[i] = r.b[i].size;
  rec_sort(&r);
  cc.mode = W_COLLECT; cc.old = &old; walk_topology(&cc, a->t); rs_sort(&old);
  ck.mode = W_CHECK; ck.old = &old; ck.rec = &r; walk_topology(&ck, p);
  size_t usz = 0; unsigned un = rec_unreached(&r, &usz);
  if (ck.nviol) { snprintf(msg, sizeof msg, "%u-violations first=%s", ck.nviol, ck.first); verdict("PROV", msg); }
  else if (un) { snprintf(msg, sizeof msg, "%u-allocator-blocks-not-reachable-from-the-copy first-size=%zu", un, usz); verdict("PROV", msg); }
  else if (p->tma != &tma) verdict("PROV", "tma-field");
  else verdict("PROV", NULL);
  /* allocation trace (request order) and hwloc's own bump-allocator length for the same topology */
  {
    size_t len = 0;
    int e = hwloc_shmem_topology_get_length(a->t, &len, 0);
    char exp[64];
    if (e < 0) snprintf(exp, sizeof exp, "LEN fail"); else snprintf(exp, sizeof exp, "LEN %zu", len);
    fprintf(fops, "TRACE %ld %u %u", sysconf(_SC_PAGESIZE), 24u, ntrace);
    for (unsigned i = 0; i < ntrace; i++) fprintf(fops, " %zu", trace[i]);
    emit(exp, "");
  }
  hwloc_topology_destroy(p);
  free(r.b); free(old.r); free(trace);
}

/* hwloc_bitmap_tma_dup on representative bitmaps (finite, infinite, multi-word) through the recording allocator */
static void bitmap_dup_check(void) {
  const char *bad = NULL;
  for (int k = 0; k < 7 && !bad; k++) {
    struct rec r = {0}; struct hwloc_tma tma; tma.malloc = rec_malloc; tma.data = &r; tma.dontfree = 0;
    hwloc_bitmap_t b = hwloc_bitmap_alloc();
    switch (k) {
    case 0: break;
    case 1: hwloc_bitmap_fill(b); break;
    case 2: hwloc_bitmap_set_range(b, 3, -1); break;
    case 3: hwloc_bitmap_set(b, 0); hwloc_bitmap_set(b, 64); hwloc_bitmap_set(b, 700); break;
    case 4: hwloc_bitmap_set_range(b, 5, 70); break;
    case 5: hwloc_bitmap_set_range(b, 130, -1); hwloc_bitmap_set(b, 1); hwloc_bitmap_clr(b, 200); break;
    default: hwloc_bitmap_set_range(b, 0, 1023); hwloc_bitmap_clr_range(b, 64, 127); break;
    }
    hwloc_bitmap_t d = hwloc_bitmap_tma_dup(&tma, b);
    rec_sort(&r);
    if (!d) bad = "dup-failed";
    else if (!hwloc_bitmap_isequal(b, d) || hwloc_bitmap_weight(b) != hwloc_bitmap_weight(d)) bad = "copy-differs";
    else if (d->infinite != b->infinite || d->ulongs_count != b->ulongs_count || d->ulongs_allocated != b->ulongs_allocated) bad = "representation-differs";
    else if (d == b || d->ulongs == b->ulongs) bad = "storage-shared";
    else if (r.n != 2 || !rec_find(&r, d, sizeof(*d)) || !rec_find(&r, d->ulongs, d->ulongs_allocated * sizeof(unsigned long))) bad = "not-from-allocator";
    else { hwloc_bitmap_set(d, 77); hwloc_bitmap_clr(d, 5); if (hwloc_bitmap_isset(b, 77) != (k == 1 || k == 2) || hwloc_bitmap_isset(b, 5) != (k == 1 || k == 2 || k == 4 || k == 6)) bad = "write-to-copy-changed-original"; }
    hwloc_bitmap_free(d); hwloc_bitmap_free(b); free(r.b);
  }
  verdict("BMDUP", bad);
}

static void frame_check(struct world *w, int y, const char *key) {
  char k[32]; snprintf(k, sizeof k, "%s %s", key, slotname[y]);
  struct obs o = observe_public(&w->s[y]);
  verdict(k, obs_eq(o, w->last[y]) ? NULL : obs_diff(o, w->last[y]));
  w->last[y] = o;
}

static void do_dup(struct world *w) {
  struct slot *a = &w->s[0], *b = &w->s[1];
  if (w->dupped || !a->t) return;
  w->dupped = 1;
  if (w->mode == M_MAIN) emit(".", "DUP");
  int e = hwloc_topology_dup(&b->t, a->t);
  if (e < 0) { b->t = NULL; if (w->mode == M_MAIN) verdict("DUPRET", "hwloc_topology_dup-failed"); return; }
  if (w->mode == M_TWIN_A) { slot_destroy(b); observe_public(a); return; }
  if (w->mode == M_TWIN_B) { slot_destroy(a); observe_public(b); return; }
  /* structured state of the copy first, before any public call refreshes its caches; then the original (must be untouched) */
  emit_obs(b, "B"); emit_obs(a, "A");
  {
    struct hwloc_topology *tb = b->t; uint64_t maxgp = 0;
    for (unsigned i = 0; i < b->nobjs; i++) if (b->objs[i]->gp_index > maxgp) maxgp = b->objs[i]->gp_index;
    verdict("GPNEXT", (tb->next_gp_index > maxgp && tb->next_gp_index >= a->t->next_gp_index) ? NULL : "next_gp_index-not-above-existing-gp_index");
    verdict("RAWEQ", raw_attr_diff(a, b));
  }
  struct obs ob = observe_public(b);
  frame_check(w, 0, "FRAME");
  verdict("PUBEQ", obs_eq(ob, w->last[0]) ? NULL : obs_diff(ob, w->last[0]));
  if (!obs_eq(ob, w->last[0]) && getenv("VERIF_DUP_DEBUG")) {
    fprintf(stderr, "---- attribute text of A\n"); attr_text(stderr, a); fprintf(stderr, "---- attribute text of B\n"); attr_text(stderr, b);
  }
  w->last[1] = ob;
  provenance(a);
  bitmap_dup_check();
  frame_check(w, 0, "FRAME");
}

static void do_fin(struct world *w, int order) {
  if (w->mode == M_MAIN) emit(".", "FIN %d", order);
  if (w->s[0].t && w->s[1].t) {
    int first = order ? 1 : 0, surv = 1 - first;
    slot_destroy(&w->s[first]);
    if (w->mode == M_MAIN) { frame_check(w, surv, "SURV"); emit_obs(&w->s[surv], slotname[surv]); }
  }
  slot_destroy(&w->s[0]); slot_destroy(&w->s[1]);
}

/* returns 0 if the line was consumed */
static void exec_line(struct world *w, const char *line, int idx) {
  char buf[8192]; char *tok[64]; int nt = 0; char *save = NULL;
  snprintf(buf, sizeof buf, "%s", line);
  if (!strncmp(buf, "LOAD ", 5)) {
    char filters[64], kind; unsigned long flags; int pos = 0;
    if (sscanf(buf + 5, "%c %lu %63s %n", &kind, &flags, filters, &pos) < 3) return;
    if (w->mode == M_MAIN) emit(".", "%s", line);
    if (load_slot(&w->s[0], kind, flags, filters, buf + 5 + pos) < 0) { if (w->mode == M_MAIN) emit(".", "LOADFAIL"); return; }
    /* public observation first: it refreshes the lazily maintained internal caches (and lazily drops distances / memattr
     * targets whose objects disappeared), so that the internal lines below show a settled state */
    w->last[0] = observe_public(&w->s[0]);
    if (w->mode == M_MAIN) emit_obs(&w->s[0], "A");
    return;
  }
  for (char *t = strtok_r(buf, " \n", &save); t && nt < 64; t = strtok_r(NULL, " \n", &save)) tok[nt++] = t;
  if (!nt) return;
  if (!strcmp(tok[0], "DUP")) { do_dup(w); return; }
  if (!strcmp(tok[0], "FIN") && nt >= 2) { do_fin(w, atoi(tok[1])); return; }
  if (!strcmp(tok[0], "OP") && nt >= 3) {
    int x = !strcmp(tok[1], "B") ? 1 : 0, y = 1 - x;
    if (!w->s[x].t) return;
    if (w->dupped && ((w->mode == M_TWIN_A && x == 1) || (w->mode == M_TWIN_B && x == 0))) return;
    long ret; int err;
    if (w->mode == M_MAIN) { emit(".", "%s", line); fflush(fops); fflush(fc); }
    do_op(&w->s[x], tok + 2, nt - 2, &ret, &err);
    if (w->mode == M_MAIN) {
      emit(".", "RET %ld %s", ret, errname(err));
      w->last[x] = observe_public(&w->s[x]);
      emit_obs(&w->s[x], slotname[x]);
      if (w->s[y].t) { frame_check(w, y, "FRAME"); emit_obs(&w->s[y], slotname[y]); }
    }
    if (w->mode != M_MAIN) w->last[x] = observe_public(&w->s[x]);
    if (idx < MAXLINES && w->dupped) {
      w->rec[idx].has = 1; w->rec[idx].ret = ret; w->rec[idx].err = err;
      w->rec[idx].o = w->last[x];
    }
  }
}

static char *case_lines[MAXLINES]; static int ncase_lines;
static void case_reset(void) { for (int i = 0; i < ncase_lines; i++) free(case_lines[i]); ncase_lines = 0; }

/* the "alone" runs: same script, the other copy destroyed right after dup and never touched */
static void run_twins(struct world *mainw) {
  for (int m = 0; m < 2; m++) {
    struct world *w = calloc(1, sizeof(*w));
    char bad[200]; bad[0] = 0;
    w->mode = m ? M_TWIN_B : M_TWIN_A;
    for (int i = 0; i < ncase_lines; i++) if (strncmp(case_lines[i], "FIN", 3)) exec_line(w, case_lines[i], i);
    for (int i = 0; i < ncase_lines && i < MAXLINES && !bad[0]; i++) {
      int mine = !strncmp(case_lines[i], m ? "OP B " : "OP A ", 5);
      if (!mine || !mainw->rec[i].has) continue;
      if (!w->rec[i].has) snprintf(bad, sizeof bad, "step-%d-not-executed-alone", i);
      else if (w->rec[i].ret != mainw->rec[i].ret || w->rec[i].err != mainw->rec[i].err) snprintf(bad, sizeof bad, "step-%d-return-%ld-vs-alone-%ld", i, mainw->rec[i].ret, w->rec[i].ret);
      else if (!obs_eq(w->rec[i].o, mainw->rec[i].o)) snprintf(bad, sizeof bad, "step-%d-%s-differs-from-alone-run", i, obs_diff(w->rec[i].o, mainw->rec[i].o));
    }
    slot_destroy(&w->s[0]); slot_destroy(&w->s[1]);
    free(w->s[0].objs); free(w->s[1].objs); free(w);
    verdict(m ? "TWIN B" : "TWIN A", bad[0] ? bad : NULL);
  }
}

static struct world *mainw;
static void case_begin(void) {
  if (mainw) { slot_destroy(&mainw->s[0]); slot_destroy(&mainw->s[1]); free(mainw->s[0].objs); free(mainw->s[1].objs); free(mainw); }
  mainw = calloc(1, sizeof(*mainw)); mainw->mode = M_MAIN; case_reset();
}
static void case_line(const char *line) {
  if (ncase_lines >= MAXLINES) return;
  case_lines[ncase_lines] = strdup(line);
  exec_line(mainw, line, ncase_lines);
  ncase_lines++;
}
static void case_end(void) {
  int hadfin = ncase_lines && !strncmp(case_lines[ncase_lines - 1], "FIN", 3);
  if (!mainw) return;
  if (!hadfin) do_fin(mainw, 0);
  if (mainw->dupped) run_twins(mainw);
}

/* ---------------------------------------------------------------- generator */
static const char *names[] = {"Foo", "Bar", "Backend", "X", "Foo"};
static const char *values[] = {"1", "2", "a", "", "1"};

static void gen_set(char *dst, size_t cap, hwloc_const_bitmap_t universe) {
  hwloc_bitmap_t s = hwloc_bitmap_alloc();
  unsigned k = rng_below(10);
  int last = hwloc_bitmap_last(universe); if (last < 0) last = 0;
  if (k == 0) hwloc_bitmap_zero(s);
  else if (k == 1) hwloc_bitmap_fill(s);
  else if (k == 2) hwloc_bitmap_copy(s, universe);
  else if (k == 3) hwloc_bitmap_set_range(s, last + 1, last + 4);
  else if (k == 4) hwloc_bitmap_set(s, rng_below(last + 1));
  else if (k == 5) { hwloc_bitmap_copy(s, universe); hwloc_bitmap_clr(s, rng_below(last + 1)); }
  else if (k == 6) { unsigned a = rng_below(last + 1); hwloc_bitmap_set_range(s, a, -1); }
  else { unsigned a = rng_below(last + 1), b = a + rng_below(last + 2 - a); hwloc_bitmap_set_range(s, a, b); if (rng_chance(30)) hwloc_bitmap_set(s, rng_below(last + 3)); }
  hex_of_set(dst, cap, s); hwloc_bitmap_free(s);
}

static unsigned gen_counter;
static void gen_op(char *line, size_t cap, struct slot *s, const char *sn) {
  char a[2100], b[2100], h1[64], h2[64];
  hwloc_topology_t topo = s->t;
  recollect(s);
  unsigned r = rng_below(100);
  hwloc_obj_t root = hwloc_get_root_obj(topo);
  unsigned id = rng_below(s->nobjs);
  gen_counter++;
  if (r < 8) {
    static const unsigned long fl[] = {1, 1, 4, 4, 4, 4, 2, 0, 3, 8};
    unsigned long f = fl[rng_below(10)];
    if (f == 4 || rng_chance(15)) { if (rng_chance(80)) gen_set(a, sizeof a, root->complete_cpuset); else strcpy(a, "-"); if (rng_chance(60)) gen_set(b, sizeof b, root->complete_nodeset); else strcpy(b, "-"); }
    else { strcpy(a, "-"); strcpy(b, "-"); }
    snprintf(line, cap, "OP %s allow %lu %s %s", sn, f, a, b);
  } else if (r < 15) {
    hexs(h1, names[rng_below(5)]); hexs(h2, values[rng_below(5)]);
    snprintf(line, cap, "OP %s addinfo %u %s %s", sn, id, rng_chance(5) ? "-" : h1, rng_chance(5) ? "-" : h2);
  } else if (r < 25) {
    static const unsigned long opv[] = {1, 2, 4, 8, 4, 8, 16, 3};
    unsigned long o = opv[rng_below(8)];
    hexs(h1, names[rng_below(5)]); hexs(h2, values[rng_below(5)]);
    for (int k = 0; k < 4 && !s->objs[id]->infos.count; k++) id = rng_below(s->nobjs);
    snprintf(line, cap, "OP %s modinfos %u %lu %s %s", sn, id, o, rng_chance(15) ? "-" : h1, rng_chance(25) ? "-" : h2);
  } else if (r < 29) {
    hexs(h1, names[rng_below(5)]);
    snprintf(line, cap, "OP %s subtype %u %s", sn, id, rng_chance(20) ? "-" : h1);
  } else if (r < 34) {
    static const unsigned long opv[] = {1, 2, 4, 8};
    hexs(h1, names[rng_below(5)]); hexs(h2, values[rng_below(5)]);
    snprintf(line, cap, "OP %s tinfo %lu %s %s", sn, opv[rng_below(4)], h1, rng_chance(20) ? "-" : h2);
  } else if (r < 37) {
    snprintf(line, cap, "OP %s userdata %u %u", sn, id, rng_chance(20) ? 0 : 0x20000 + rng_below(1000));
  } else if (r < 39) {
    snprintf(line, cap, "OP %s tuserdata %u", sn, 0x30000 + rng_below(1000));
  } else if (r < 46) {
    hexs(h1, names[rng_below(5)]);
    snprintf(line, cap, "OP %s misc %u %s", sn, id, h1);
  } else if (r < 60) {
    int bynode = rng_chance(25);
    gen_set(a, sizeof a, bynode ? root->complete_nodeset : root->complete_cpuset);
    unsigned long fl = rng_below(32); if (bynode) fl |= 8; else fl &= ~8UL; if (rng_chance(3)) fl |= 64;
    snprintf(line, cap, "OP %s restrict %s %lu", sn, a, fl);
  } else if (r < 68) {
    hwloc_obj_t p = s->objs[id]; for (int k = 0; k < 8 && (!p->arity || !p->cpuset); k++) p = s->objs[rng_below(s->nobjs)];
    hwloc_bitmap_t c = hwloc_bitmap_alloc(), n = NULL;
    if (p->arity) {
      unsigned f = rng_below(p->arity), cnt = 1 + rng_below(p->arity - f);
      for (unsigned i = f; i < f + cnt; i++) hwloc_bitmap_or(c, c, p->children[i]->cpuset);
      unsigned k = rng_below(10);
      if (k == 0) { int l = hwloc_bitmap_last(root->cpuset); hwloc_bitmap_set(c, rng_below(l + 2)); }
      else if (k == 1) hwloc_bitmap_copy(c, p->cpuset);
      else if (k == 2) hwloc_bitmap_zero(c);
      else if (k == 4) { n = hwloc_bitmap_alloc(); hwloc_bitmap_copy(n, p->nodeset); hwloc_bitmap_zero(c); }
    }
    hex_of_set(a, sizeof a, hwloc_bitmap_iszero(c) && n ? NULL : c);
    hex_of_set(b, sizeof b, n);
    snprintf(line, cap, "OP %s group %s %s %d", sn, a, b, rng_chance(25));
    hwloc_bitmap_free(c); hwloc_bitmap_free(n);
  } else if (r < 78) {
    int depth = rng_chance(50) ? HWLOC_TYPE_DEPTH_NUMANODE : (int) rng_below(hwloc_topology_get_depth(topo));
    unsigned w = hwloc_get_nbobjs_by_depth(topo, depth);
    unsigned n = 2 + rng_below(7); unsigned first = w > n ? rng_below(w - n + 1) : 0;
    static const unsigned long kinds[] = {5, 6, 9, 10, 5, 3, 0, 34};
    static const unsigned long fls[] = {1, 0, 3, 0, 0, 4};
    snprintf(line, cap, "OP %s distadd %d %u %u %lu %lu %llu %u", sn, depth, first, n, kinds[rng_below(8)], fls[rng_below(6)], (unsigned long long) rng_below(1000), gen_counter % 5);
  } else if (r < 81) {
    snprintf(line, cap, "OP %s disthet %u %u", sn, 2 + rng_below(6), rng_below(1000));
  } else if (r < 83) {
    snprintf(line, cap, "OP %s distremove", sn);
  } else if (r < 85) {
    snprintf(line, cap, "OP %s distremovedepth %d", sn, rng_chance(50) ? HWLOC_TYPE_DEPTH_NUMANODE : (int) rng_below(hwloc_topology_get_depth(topo)));
  } else if (r < 90) {
    snprintf(line, cap, "OP %s memattr %u %u %u %u %u %u", sn, 1 + rng_below(6), rng_below(4), rng_below(100), rng_below(2), id, gen_counter % 4);
  } else if (r < 94) {
    snprintf(line, cap, "OP %s memset %u %u %u %u %u", sn, rng_below(8), rng_below(4), 1 + rng_below(100), rng_below(2), id);
  } else if (r < 99) {
    gen_set(a, sizeof a, root->complete_cpuset);
    snprintf(line, cap, "OP %s cpukind %s %d %u", sn, a, (int) rng_below(4) - 1, rng_below(3));
  } else snprintf(line, cap, "OP %s refresh", sn);
}

struct src { char kind; char path[1000]; };
static struct src *srcs; static unsigned nsrcs;

static void gen_synthetic(char *s, size_t cap) {
  static const char *shapes[] = {
    "pack:2 core:2 pu:2", "numa:2 core:2 pu:2", "pack:2 numa:2 l2:2 core:1 pu:2", "pack:2 [numa] l3:2 core:2 pu:1",
    "group:2 pack:2 [numa] core:2 pu:2", "pack:3 [numa] [numa] core:2 pu:1", "numa:4 pu:2", "pack:2 die:2 l3:1 core:2 pu:2",
    "pack:1 numa:2 core:3 pu:1", "2 2 2", "pack:2 [numa(memory=1GB)] l2:2 l1:1 core:1 pu:2", "pu:4", "pack:4 pu:1",
    "group:2 group:2 numa:1 core:2 pu:1", "pack:2 core:3 pu:2(indexes=core:pu)", "numa:3(memory=256MB) l3:1 core:2 pu:2",
    "pack:2 [numa(memory=4GB)] [numa(memory=512MB)] core:4 pu:1", "numa:8 core:1 pu:1", "pack:2 numa:2 core:8 pu:2" };
  snprintf(s, cap, "%s", shapes[rng_below(sizeof shapes / sizeof shapes[0])]);
}

int main(int argc, char **argv) {
  if (argc >= 5 && !strcmp(argv[1], "replay")) {
    FILE *in = fopen(argv[2], "r"); fops = fopen(argv[3], "w"); fc = fopen(argv[4], "w");
    if (!in || !fops || !fc) return 2;
    char line[8192]; int open_case = 0;
    while (fgets(line, sizeof line, in)) {
      line[strcspn(line, "\n")] = 0;
      if (!strncmp(line, "LOAD ", 5)) { if (open_case) case_end(); case_begin(); open_case = 1; case_line(line); }
      else if (open_case && (!strncmp(line, "OP ", 3) || !strcmp(line, "DUP") || !strncmp(line, "FIN ", 4))) case_line(line);
    }
    if (open_case) case_end();
    case_begin(); free(mainw); case_reset();
    fclose(in); fclose(fops); fclose(fc);
    return 0;
  }
  if (argc < 6 || strcmp(argv[1], "gen")) { fprintf(stderr, "usage\n"); return 2; }
  unsigned long ncases = strtoul(argv[2], NULL, 10);
  FILE *fs = fopen(argv[3], "r");
  if (fs) { char line[1100]; while (fgets(line, sizeof line, fs)) { line[strcspn(line, "\n")] = 0; if (strlen(line) < 3 || line[0] != 'X') continue;
      srcs = realloc(srcs, (nsrcs + 1) * sizeof(*srcs)); srcs[nsrcs].kind = 'X'; strncpy(srcs[nsrcs].path, line + 2, 999); srcs[nsrcs].path[999] = 0; nsrcs++; } fclose(fs); }
  fops = fopen(argv[4], "w"); fc = fopen(argv[5], "w");
  if (!fops || !fc) return 2;
  rng_seed(rng_seed_from_env());
  for (unsigned long c = 0; c < ncases; c++) {
    char arg[1200], filters[32], line[8192]; char kind = 'S';
    unsigned long flags = rng_chance(50) ? 1 : 0;
    if (rng_chance(30)) flags |= 128UL << rng_below(3);
    if (rng_chance(8)) flags |= 128 | 256 | 512;
    strcpy(filters, "--------------------");
    unsigned fm = rng_below(6);
    if (fm == 0) { for (int i = 0; i < 20; i++) filters[i] = '0'; filters[13] = '-'; }
    else if (fm == 1) { for (int i = 0; i < 20; i++) filters[i] = '2'; }
    else if (fm == 2) { for (int i = 16; i < 20; i++) filters[i] = '0'; }
    if (fm != 0 && rng_chance(60)) filters[19] = '1';          /* keep Misc objects so that insert_misc works */
    if (nsrcs && rng_chance(35)) { strcpy(arg, srcs[rng_below(nsrcs)].path); kind = 'X'; if (rng_chance(40)) flags |= 8; }
    else gen_synthetic(arg, sizeof arg);
    if (rng_chance(25)) kind = (char) (kind + 32);             /* s / x: userdata-not-decoded mode */
    snprintf(line, sizeof line, "LOAD %c %lu %s %s", kind, flags, filters, arg);
    case_begin(); case_line(line);
    if (!mainw->s[0].t) { case_end(); continue; }
    unsigned npre = rng_chance(25) ? 0 : rng_below(6);
    for (unsigned k = 0; k < npre; k++) { gen_op(line, sizeof line, &mainw->s[0], "A"); case_line(line); }
    case_line("DUP");
    if (mainw->s[1].t) {
      unsigned npost = 1 + rng_below(7);
      for (unsigned k = 0; k < npost; k++) { int x = rng_chance(50); gen_op(line, sizeof line, &mainw->s[x], slotname[x]); case_line(line); }
    }
    snprintf(line, sizeof line, "FIN %u", rng_below(2)); case_line(line);
    case_end();
  }
  case_begin(); free(mainw); case_reset();
  free(srcs);
  fclose(fops); fclose(fc);
  return 0;
}
