/* C17 harness, engine `readonly` (+ the sequential tie of the components IR for engine `conc`).
 *
 * usage: readonly <nops> <ops-file> <out-file> <stats-file>     generate mode, seed = VERIF_SEED
 *        readonly --replay <ops-file> <out-file>                 replay mode
 *
 * The deterministic sequential fact the schedule theorem rests on: consulting calls do not write when the lazy
 * caches are valid (and exactly the calls the model says write when they are not).  Every episode
 *   load <eseed>                 builds + loads a topology (synthetic description or bundled XML chosen from eseed)
 *   loadbind <eseed>             the same with a bundled XML, IS_THISSYSTEM and RESTRICT_TO_CPUBINDING and/or _MEMBINDING (F51, fixed)
 *   observe after-load S         S = validity flags read from the private structures (d=.. a=..)
 *   expect-valid                 (corpus) every validity flag of the writable topology is set -> valid | invalid S
 *   mods <eseed>                 a modification history (distances, memattr values, cpukinds, restrict, group, misc)
 *   observe after-mod S
 *   wcall <entry> <id> <ok> S    a consulting call on the WRITABLE, unrefreshed topology -> the flags afterwards
 *   refresh S                    hwloc_topology_refresh -> the flags afterwards
 *   observe after-refresh S
 *   arena refreshed|unrefreshed|partial <mask>
 *                                hwloc__topology_dup into a bump arena (dup clears every validity flag), then
 *                                hwloc_topology_refresh on the copy / nothing / validation of the attributes in mask
 *                                (and of the distances when bit 31 is set), then mprotect(PROT_READ)
 *   call <entry> <id> <ok> S     the entry point of consult.h on the read-only copy inside a SIGSEGV catcher
 *                                -> "ro" | "write dist <id>" | "write attr <i>" | "write other+<offset>"
 *   drop                         destroys both topologies
 *   cinit U / cfini U            hwloc_components_init / _fini directly, U = users=<n> reg=<0|1> before -> the same after
 * S is part of the op line (the model is stateless); in replay mode a line whose S differs from the actual state
 * answers "state-mismatch <actual>".
 *
 * Static environment caches are warmed up first (one XML export + import, one failing insert is not needed:
 * HWLOC_HIDE_ERRORS is read by hwloc_hide_errors() on the first load).
 */
#define _GNU_SOURCE
#include "private/autogen/config.h"
#include "hwloc.h"
#include "private/private.h"
#include "components.c"            /* hwloc_components_users, hwloc_disc_components (static) */
#include "rng.h"
#include "consult.h"
#include <signal.h>
#include <setjmp.h>
#include <sys/mman.h>
#include <ucontext.h>
#include <dirent.h>
#include <unistd.h>

static FILE *fops, *fout;
static int replaying;
static hwloc_topology_t T;          /* the writable original */
static hwloc_topology_t A;          /* the copy in the arena */
static char scratch[512];
static unsigned long st_ops, st_load, st_load_xml, st_load_synth, st_mods, st_calls, st_ro, st_wdist, st_wattr, st_wother,
  st_wcall, st_refresh, st_arena_ref, st_arena_unref, st_arena_partial, st_cinit, st_dists, st_attrs_user, st_dropped,
  st_restrict, st_mismatch, st_loadbind, st_loadflags;

/* ------------------------------------------------------------------ arena */
#define ARENA_SIZE (256UL << 20)
static char *arena; static size_t arena_used; static int arena_ro;
static struct hwloc_tma TMA;
static void *arena_malloc(struct hwloc_tma *tma, size_t n) {
  (void) tma;
  n = (n + 15) & ~(size_t)15;
  if (arena_used + n > ARENA_SIZE) { fprintf(stderr, "arena exhausted\n"); abort(); }
  void *p = arena + arena_used; arena_used += n; return p;
}
static void arena_protect(int ro) {
  size_t len = (arena_used + 4095) & ~(size_t)4095;
  if (len && mprotect(arena, len, ro ? PROT_READ : PROT_READ | PROT_WRITE)) { perror("mprotect"); abort(); }
  arena_ro = ro;
}
static void arena_drop(void) {
  if (A) { arena_protect(0); A = NULL; hwloc_components_fini(); /* the reference taken by hwloc__topology_init */ }
  arena_used = 0;
}

/* ------------------------------------------------------------------ fault catcher */
static sigjmp_buf jb; static volatile int armed; static void *volatile fault_addr; static volatile int fault_write;
static void on_segv(int sig, siginfo_t *si, void *uc_) {
  ucontext_t *uc = uc_;
  char *a = si->si_addr;
  if (armed && a >= arena && a < arena + ARENA_SIZE) {
    fault_addr = a;
#ifdef REG_ERR
    fault_write = !!(uc->uc_mcontext.gregs[REG_ERR] & 2);
#else
    fault_write = 1;
#endif
    armed = 0;
    siglongjmp(jb, 1);
  }
  signal(sig, SIG_DFL); raise(sig);
}

/* which model location does an arena address belong to */
static void classify(hwloc_topology_t t, char *a, char *out) {
  struct hwloc_internal_distances_s *d;
#define IN(p, n) ((p) && a >= (char *)(p) && a < (char *)(p) + (n))
  for (d = t->first_dist; d; d = d->next)
    if (IN(d, sizeof *d) || IN(d->objs, d->nbobjs * sizeof *d->objs) || IN(d->indexes, d->nbobjs * sizeof *d->indexes) ||
        IN(d->values, d->nbobjs * d->nbobjs * sizeof *d->values) || IN(d->different_types, d->nbobjs * sizeof *d->different_types)) {
      sprintf(out, "write dist %u", d->id); return;
    }
  for (unsigned i = 0; i < t->nr_memattrs; i++) {
    struct hwloc_internal_memattr_s *m = &t->memattrs[i];
    int hit = IN(m, sizeof *m) || IN(m->targets, m->nr_targets * sizeof *m->targets);
    for (unsigned j = 0; !hit && j < m->nr_targets; j++)
      hit = IN(m->targets[j].initiators, m->targets[j].nr_initiators * sizeof *m->targets[j].initiators);
    if (hit) { sprintf(out, "write attr %u", i); return; }
  }
  sprintf(out, "write other+%ld", (long)(a - (char *) t));
}

/* ------------------------------------------------------------------ state strings */
static hwloc_obj_t dist_obj(hwloc_topology_t t, struct hwloc_internal_distances_s *d, unsigned i) {
  if (HWLOC_DIST_TYPE_USE_OS_INDEX(d->unique_type))
    return d->unique_type == HWLOC_OBJ_PU ? hwloc_get_pu_obj_by_os_index(t, (unsigned) d->indexes[i])
                                          : hwloc_get_numanode_obj_by_os_index(t, (unsigned) d->indexes[i]);
  return hwloc_get_obj_by_type_and_gp_index(t, d->different_types ? d->different_types[i] : d->unique_type, d->indexes[i]);
}
static void state_str(hwloc_topology_t t, char *out) {
  struct hwloc_internal_distances_s *d; char *p = out;
  p += sprintf(p, "d=");
  if (!t->first_dist) p += sprintf(p, "-");
  for (d = t->first_dist; d; d = d->next) {
    unsigned alive = 0;
    for (unsigned i = 0; i < d->nbobjs; i++) if (dist_obj(t, d, i)) alive++;
    p += sprintf(p, "%s%u:%d%d", d == t->first_dist ? "" : ",", d->id, !!(d->iflags & HWLOC_INTERNAL_DIST_FLAG_OBJS_VALID), alive >= 2);
  }
  p += sprintf(p, " a=");
  if (!t->nr_memattrs) p += sprintf(p, "-");
  for (unsigned i = 0; i < t->nr_memattrs; i++) {
    struct hwloc_internal_memattr_s *m = &t->memattrs[i];
    p += sprintf(p, "%s%d%d%d", i ? "," : "", !!(m->iflags & HWLOC_IMATTR_FLAG_CONVENIENCE),
                 !!(m->flags & HWLOC_MEMATTR_FLAG_NEED_INITIATOR), !!(m->iflags & HWLOC_IMATTR_FLAG_CACHE_VALID));
  }
}

static int all_valid(hwloc_topology_t t) {
  struct hwloc_internal_distances_s *d;
  for (d = t->first_dist; d; d = d->next) if (!(d->iflags & HWLOC_INTERNAL_DIST_FLAG_OBJS_VALID)) return 0;
  for (unsigned i = 0; i < t->nr_memattrs; i++) if (!(t->memattrs[i].iflags & HWLOC_IMATTR_FLAG_CACHE_VALID)) return 0;
  return 1;
}

/* ------------------------------------------------------------------ building topologies */
static char xmlfiles[64][300]; static unsigned nxml;
static void scan_xml(void) {
  const char *dir = getenv("VERIF_XMLDIR"); DIR *D; struct dirent *e;
  if (!dir || !(D = opendir(dir))) return;
  while ((e = readdir(D)) && nxml < 64) {
    size_t n = strlen(e->d_name);
    if (n > 4 && !strcmp(e->d_name + n - 4, ".xml")) snprintf(xmlfiles[nxml++], 300, "%s/%s", dir, e->d_name);
  }
  closedir(D);
  qsort(xmlfiles, nxml, 300, (int (*)(const void *, const void *)) strcmp);
}
static const char *SYNTH[] = {
  "pack:2 numa:2 l2:2 core:2 pu:2", "numa:4 core:3 pu:2", "pack:3 l3:1 core:4 pu:1", "node:2 pack:2 core:2 pu:2",
  "pack:2 [numa] [numa] core:4 pu:2", "numa:2 pack:1 l3:2 l2:2 l1d:1 core:1 pu:2", "group:2 numa:2 core:2 pu:1",
  "pack:4 numa:1 core:2 pu:4", "numa:8 pu:2", "pack:2 numa:3 core:2 pu:1", "core:6 pu:2", "pack:2 die:2 numa:1 l3:1 core:3 pu:2",
};
static void drop_T(void) { if (T) { hwloc_topology_destroy(T); T = NULL; } }

static int do_load(uint64_t eseed, char *res, int bind) {
  uint64_t s0 = rng_s[0], s1 = rng_s[1];
  int rc;
  drop_T(); arena_drop();
  rng_seed(eseed ^ 0x1111);
  hwloc_topology_init(&T);
  hwloc_topology_set_all_types_filter(T, rng_chance(50) ? HWLOC_TYPE_FILTER_KEEP_ALL : HWLOC_TYPE_FILTER_KEEP_STRUCTURE);
  if (nxml && (bind || rng_chance(55))) {
    const char *f = xmlfiles[rng_below(nxml)];
    rc = hwloc_topology_set_xml(T, f);
    st_load_xml++;
  } else {
    rc = hwloc_topology_set_synthetic(T, SYNTH[rng_below(sizeof SYNTH / sizeof *SYNTH)]);
    st_load_synth++;
  }
  if (!rc) {
    unsigned long fl = 0;
    if (bind) {   /* F51 (fixed by 6c24a9e): the restrict-to-binding of load runs after load's first refresh */
      fl = HWLOC_TOPOLOGY_FLAG_IS_THISSYSTEM;
      switch (rng_below(3)) { case 0: fl |= HWLOC_TOPOLOGY_FLAG_RESTRICT_TO_CPUBINDING; break; case 1: fl |= HWLOC_TOPOLOGY_FLAG_RESTRICT_TO_MEMBINDING; break;
                              default: fl |= HWLOC_TOPOLOGY_FLAG_RESTRICT_TO_CPUBINDING | HWLOC_TOPOLOGY_FLAG_RESTRICT_TO_MEMBINDING; }
    } else if (rng_chance(20)) fl = HWLOC_TOPOLOGY_FLAG_INCLUDE_DISALLOWED;
    if (rng_chance(12)) {   /* every flag word: the NO_* flags in any combination (the user may still add things afterwards) */
      if (rng_chance(50)) fl |= HWLOC_TOPOLOGY_FLAG_NO_DISTANCES;
      if (rng_chance(50)) fl |= HWLOC_TOPOLOGY_FLAG_NO_MEMATTRS;
      if (rng_chance(50)) fl |= HWLOC_TOPOLOGY_FLAG_NO_CPUKINDS;
      st_loadflags++;
    }
    if (fl) hwloc_topology_set_flags(T, fl);
    rc = hwloc_topology_load(T);
  }
  rng_s[0] = s0; rng_s[1] = s1;
  if (rc) { drop_T(); strcpy(res, "load-failed"); return -1; }
  st_load++;
  strcpy(res, "ok");
  return 0;
}

static unsigned collect(hwloc_obj_type_t ty, hwloc_obj_t *objs, unsigned max) {
  unsigned n = 0; hwloc_obj_t o = NULL;
  while (n < max && (o = hwloc_get_next_obj_by_type(T, ty, o))) objs[n++] = o;
  return n;
}
static void mod_add_distances(void) {
  static const hwloc_obj_type_t tys[] = { HWLOC_OBJ_NUMANODE, HWLOC_OBJ_PU, HWLOC_OBJ_CORE, HWLOC_OBJ_PACKAGE };
  hwloc_obj_t objs[12]; hwloc_uint64_t vals[144]; char name[32];
  unsigned n = collect(tys[rng_below(4)], objs, 2 + rng_below(10));
  if (n < 2) return;
  for (unsigned i = 0; i < n * n; i++) vals[i] = 10 + rng_below(50);
  sprintf(name, "verif%u", rng_below(1000));
  hwloc_distances_add_handle_t h = hwloc_distances_add_create(T, rng_chance(60) ? name : NULL,
      HWLOC_DISTANCES_KIND_FROM_USER | (rng_chance(50) ? HWLOC_DISTANCES_KIND_VALUE_LATENCY : HWLOC_DISTANCES_KIND_VALUE_BANDWIDTH), 0);
  if (!h) return;
  if (hwloc_distances_add_values(T, h, n, objs, vals, 0)) return;
  if (!hwloc_distances_add_commit(T, h, 0)) st_dists++;
}
static void mod_memattr(void) {
  hwloc_obj_t nodes[8], pus[16]; hwloc_memattr_id_t id; char name[32];
  unsigned nn = collect(HWLOC_OBJ_NUMANODE, nodes, 8), np = collect(HWLOC_OBJ_PU, pus, 16);
  int needinit = rng_chance(50);
  if (!nn || !np) return;
  if (rng_chance(35)) {            /* a standard attribute */
    id = needinit ? HWLOC_MEMATTR_ID_BANDWIDTH : HWLOC_MEMATTR_ID_CAPACITY + 0;
    if (!needinit) return;
  } else {
    sprintf(name, "verifattr%u", rng_below(100000));
    if (hwloc_memattr_register(T, name, (rng_chance(50) ? HWLOC_MEMATTR_FLAG_HIGHER_FIRST : HWLOC_MEMATTR_FLAG_LOWER_FIRST) |
                               (needinit ? HWLOC_MEMATTR_FLAG_NEED_INITIATOR : 0), &id)) return;
    st_attrs_user++;
  }
  unsigned k = rng_below(nn + 1);
  for (unsigned i = 0; i < k; i++) {
    struct hwloc_location loc;
    if (rng_chance(50)) { loc.type = HWLOC_LOCATION_TYPE_CPUSET; loc.location.cpuset = pus[rng_below(np)]->cpuset; }
    else { loc.type = HWLOC_LOCATION_TYPE_OBJECT; loc.location.object = pus[rng_below(np)]; }
    hwloc_memattr_set_value(T, id, nodes[rng_below(nn)], needinit ? &loc : NULL, 0, 100 + rng_below(900));
  }
}
static void mod_cpukinds(void) {
  hwloc_bitmap_t s = hwloc_bitmap_alloc(); hwloc_obj_t pus[64]; struct hwloc_infos_s infos; struct hwloc_info_s one;
  unsigned np = collect(HWLOC_OBJ_PU, pus, 64);
  for (unsigned i = 0; i < np; i++) if (rng_chance(50)) hwloc_bitmap_or(s, s, pus[i]->cpuset);
  one.name = (char *) "verifkind"; one.value = (char *) "x"; infos.array = &one; infos.count = 1; infos.allocated = 1;
  hwloc_cpukinds_register(T, s, (int) rng_below(4) - 1, &infos, 0);
  hwloc_bitmap_free(s);
}
static void mod_restrict(void) {
  hwloc_bitmap_t s = hwloc_bitmap_dup(hwloc_topology_get_topology_cpuset(T));
  int w = hwloc_bitmap_weight(s), drop = w > 1 ? 1 + (int) rng_below((unsigned) w / 2 + 1) : 0, last;
  for (int i = 0; i < drop && (last = hwloc_bitmap_last(s)) >= 0 && hwloc_bitmap_weight(s) > 1; i++)
    hwloc_bitmap_clr(s, rng_chance(70) ? last : hwloc_bitmap_first(s));
  unsigned long fl = 0;
  if (rng_chance(40)) fl |= HWLOC_RESTRICT_FLAG_REMOVE_CPULESS;
  if (rng_chance(30)) fl |= HWLOC_RESTRICT_FLAG_ADAPT_MISC;
  if (!hwloc_topology_restrict(T, s, fl)) st_restrict++;
  hwloc_bitmap_free(s);
}
static void mod_group(void) {
  hwloc_obj_t cores[16]; unsigned n = collect(HWLOC_OBJ_CORE, cores, 16);
  if (n < 3) return;
  hwloc_obj_t g = hwloc_topology_alloc_group_object(T);
  if (!g) return;
  unsigned i = rng_below(n - 1);
  hwloc_obj_add_other_obj_sets(g, cores[i]); hwloc_obj_add_other_obj_sets(g, cores[i + 1]);
  hwloc_topology_insert_group_object(T, g);
}
static void mod_misc(void) {
  hwloc_obj_t pus[16]; unsigned n = collect(HWLOC_OBJ_PU, pus, 16);
  if (n) hwloc_topology_insert_misc_object(T, pus[rng_below(n)]->parent, "verifmisc");
}
static void do_mods(uint64_t eseed) {
  uint64_t s0 = rng_s[0], s1 = rng_s[1];
  rng_seed(eseed ^ 0x2222);
  unsigned n = 1 + rng_below(7);
  for (unsigned i = 0; i < n; i++) {
    switch (rng_below(10)) {
    case 0: case 1: case 2: mod_add_distances(); break;
    case 3: case 4: mod_memattr(); break;
    case 5: mod_cpukinds(); break;
    case 6: case 7: mod_restrict(); break;
    case 8: mod_group(); break;
    default: mod_misc(); break;
    }
  }
  st_mods += n;
  rng_s[0] = s0; rng_s[1] = s1;
}

/* ------------------------------------------------------------------ executing one op line */
static const struct consult_entry *find_entry(const char *name) {
  for (unsigned i = 0; i < NCONSULT; i++) if (!strcmp(CONSULT[i].name, name)) return &CONSULT[i];
  return NULL;
}
static int state_matches(hwloc_topology_t t, const char *line, char *res) {
  char cur[4096]; const char *p = strstr(line, " d=");
  state_str(t, cur);
  if (!p || strcmp(p + 1, cur)) { sprintf(res, "state-mismatch %s", cur); st_mismatch++; return 0; }
  return 1;
}
static void users_str(char *res) { sprintf(res, "users=%u reg=%d", hwloc_components_users, hwloc_disc_components != NULL); }

static void exec_line(const char *line) {
  char res[4200] = "bad-op", w1[64] = "", w2[64] = "", w3[64] = "";
  unsigned long long u = 0;
  st_ops++;
  if (sscanf(line, "load %llu", &u) == 1) {
    do_load(u, res, 0);
  } else if (sscanf(line, "loadbind %llu", &u) == 1) {
    do_load(u, res, 1); st_loadbind++;
  } else if (sscanf(line, "mods %llu", &u) == 1) {
    if (!T) strcpy(res, "no-topology"); else { do_mods(u); strcpy(res, "ok"); }
  } else if (!strcmp(line, "expect-valid")) {     /* corpus regression op: independent of the exact attribute list */
    if (!T) strcpy(res, "no-topology");
    else if (all_valid(T)) strcpy(res, "valid");
    else { strcpy(res, "invalid "); state_str(T, res + 8); }
  } else if (!strncmp(line, "observe ", 8)) {
    if (!T) strcpy(res, "no-topology"); else if (state_matches(T, line, res)) strcpy(res, "seen");

  } else if (!strncmp(line, "refresh ", 8)) {
    if (!T) strcpy(res, "no-topology");
    else if (state_matches(T, line, res)) {
      int rc = hwloc_topology_refresh(T);
      if (rc) strcpy(res, "refresh-failed"); else state_str(T, res);
      st_refresh++;
    }
  } else if (sscanf(line, "arena %63s %llu", w1, &u) >= 1) {
    if (!T) strcpy(res, "no-topology");
    else if (!all_valid(T)) { arena_drop(); strcpy(res, "no-arena: original not refreshed"); }  /* only when a replay dropped the refresh line */
    else {
      arena_drop();
      TMA.malloc = arena_malloc; TMA.dontfree = 1; TMA.data = NULL;
      if (hwloc__topology_dup(&A, T, &TMA)) { A = NULL; strcpy(res, "dup-failed"); }
      else {
        struct cctx cx = { 0, 1, 0, scratch };
        if (!strcmp(w1, "refreshed")) { hwloc_topology_refresh(A); st_arena_ref++; }
        else if (!strcmp(w1, "partial")) {
          for (unsigned i = 0; i < A->nr_memattrs && i < 31; i++)
            if (u & (1ULL << i)) { cx.id = i; c_memattr_get_targets(A, &cx); c_memattr_get_initiators(A, &cx); }
          if (u & (1ULL << 31)) c_distances_get(A, &cx);
          st_arena_partial++;
        } else st_arena_unref++;
        arena_protect(1);
        strcpy(res, "ok");
      }
    }
  } else if (sscanf(line, "%63s %63s %llu %63s", w1, w2, &u, w3) == 4 && (!strcmp(w1, "call") || !strcmp(w1, "wcall"))) {
    const struct consult_entry *e = find_entry(w2);
    int wr = !strcmp(w1, "wcall");
    hwloc_topology_t t = wr ? T : A;
    if (!e) strcpy(res, "bad-op");
    else if (!t) strcpy(res, wr ? "no-topology" : "no-arena");
    else if (state_matches(t, line, res)) {
      struct cctx cx = { (unsigned) u, atoi(w3), 0, scratch };
      if (wr) {
        e->fn(t, &cx); state_str(t, res); st_wcall++;
      } else {
        unsigned users0 = hwloc_components_users;
        st_calls++;
        if (sigsetjmp(jb, 1) == 0) {
          armed = 1; e->fn(t, &cx); armed = 0;
          strcpy(res, "ro"); st_ro++;
        } else {
          /* a write (or read) faulted on the read-only copy; nothing was modified */
          while (hwloc_components_users > users0) hwloc_components_fini();   /* an interrupted XML export */
          if (!fault_write) sprintf(res, "read-fault");
          else classify(t, fault_addr, res);
          if (!strncmp(res, "write dist", 10)) st_wdist++; else if (!strncmp(res, "write attr", 10)) st_wattr++; else st_wother++;
        }
      }
    }
  } else if (!strcmp(line, "drop")) {
    drop_T(); arena_drop(); strcpy(res, "ok");
  } else if (!strncmp(line, "cinit ", 6) || !strncmp(line, "cfini ", 6)) {
    char cur[64]; users_str(cur);
    if (strcmp(line + 6, cur)) { sprintf(res, "state-mismatch %s", cur); st_mismatch++; }
    else if (line[1] == 'i') { hwloc_components_init(); users_str(res); st_cinit++; }
    else if (hwloc_components_users <= (unsigned) ((T ? 1 : 0) + (A ? 1 : 0))) strcpy(res, "unbalanced");
    else { hwloc_components_fini(); users_str(res); }
  }
  fprintf(fops, "%s\n", line);
  fprintf(fout, "%s\n", res);
  fflush(fops); fflush(fout);
}

/* ------------------------------------------------------------------ generator */
static void emit_call(const char *verb, hwloc_topology_t t) {
  char line[4400], st[4096];
  const struct consult_entry *e = &CONSULT[rng_below(NCONSULT)];
  unsigned id = 0; int ok = 1;
  /* bias towards the entries with a lazy cache */
  if (rng_chance(45)) { do e = &CONSULT[rng_below(NCONSULT)]; while (e->kind == 0); }
  if (e->kind >= 1) ok = !rng_chance(12);
  if (e->kind == 2) id = rng_chance(8) ? t->nr_memattrs + rng_below(3) : rng_below(t->nr_memattrs ? t->nr_memattrs : 1);
  state_str(t, st);
  sprintf(line, "%s %s %u %d %s", verb, e->name, id, ok, st);
  exec_line(line);
}
static void emit_state(const char *prefix, hwloc_topology_t t) {
  char line[4400], st[4096];
  state_str(t, st); sprintf(line, "%s %s", prefix, st); exec_line(line);
}
static void emit_users(const char *verb) {
  char line[128], cur[64];
  users_str(cur); sprintf(line, "%s %s", verb, cur); exec_line(line);
}
static void every_entry(void) {
  /* every consulting entry point once (ok=1), memattr queries on every attribute */
  char line[4400], st[4096];
  for (unsigned i = 0; i < NCONSULT; i++) {
    unsigned nid = CONSULT[i].kind == 2 ? A->nr_memattrs : 1;
    for (unsigned id = 0; id < nid; id++) {
      state_str(A, st); sprintf(line, "call %s %u 1 %s", CONSULT[i].name, id, st); exec_line(line);
    }
  }
}

static void episode(uint64_t eseed) {
  char line[128];
  unsigned nc;
  int bind = nxml && rng_chance(10);
  sprintf(line, "%s %llu", bind ? "loadbind" : "load", (unsigned long long) eseed); exec_line(line);
  if (!T) return;
  emit_state("observe after-load", T);
  if (rng_chance(15)) {            /* straight after load: a refreshed-by-load topology */
    exec_line("arena unrefreshed");
    nc = 4 + rng_below(6); for (unsigned i = 0; i < nc; i++) emit_call("call", A);
  }
  sprintf(line, "mods %llu", (unsigned long long) eseed); exec_line(line);
  emit_state("observe after-mod", T);
  nc = rng_below(4);
  for (unsigned i = 0; i < nc; i++) emit_call("wcall", T);
  if (rng_chance(30)) { sprintf(line, "mods %llu", (unsigned long long) eseed + 77); exec_line(line); }
  emit_state("refresh", T);
  emit_state("observe after-refresh", T);
  /* positive: refreshed copy, every entry point */
  exec_line("arena refreshed");
  every_entry();
  nc = 6 + rng_below(10); for (unsigned i = 0; i < nc; i++) emit_call("call", A);
  /* negative control / partial validity */
  if (rng_chance(50)) exec_line("arena unrefreshed");
  else { sprintf(line, "arena partial %llu", (unsigned long long) (rng_next() & 0xffffffffULL)); exec_line(line); }
  if (rng_chance(35)) every_entry();
  nc = 8 + rng_below(12); for (unsigned i = 0; i < nc; i++) emit_call("call", A);
  if (rng_chance(40)) {
    unsigned k = 1 + rng_below(3);
    if (rng_chance(50)) exec_line("drop");       /* from an empty registry: the initialising / destroying paths */
    for (unsigned i = 0; i < k; i++) emit_users("cinit");
    for (unsigned i = 0; i < k; i++) emit_users("cfini");
  }
}

static void warm_up(void) {
  /* initialise every function-local static environment cache once (cold start = known finding F15) */
  hwloc_topology_t t, t2; char *buf; int len;
  hwloc_topology_init(&t); hwloc_topology_set_synthetic(t, "numa:2 core:2 pu:2"); hwloc_topology_load(t);
  if (!hwloc_topology_export_xmlbuffer(t, &buf, &len, 0)) {
    hwloc_topology_init(&t2); hwloc_topology_set_xmlbuffer(t2, buf, len); hwloc_topology_load(t2); hwloc_topology_destroy(t2);
    hwloc_free_xmlbuffer(t, buf);
  }
  hwloc_topology_export_xml(t, scratch, 0);
  hwloc_topology_destroy(t);
}

int main(int argc, char **argv) {
  struct sigaction sa;
  if (argc < 4) { fprintf(stderr, "usage: readonly <nops> <ops> <out> <stats> | --replay <ops> <out>\n"); return 2; }
  arena = mmap(NULL, ARENA_SIZE, PROT_READ | PROT_WRITE, MAP_PRIVATE | MAP_ANONYMOUS | MAP_NORESERVE, -1, 0);
  if (arena == MAP_FAILED) { perror("mmap"); return 2; }
  memset(&sa, 0, sizeof sa); sa.sa_sigaction = on_segv; sa.sa_flags = SA_SIGINFO | SA_NODEFER; sigemptyset(&sa.sa_mask);
  sigaction(SIGSEGV, &sa, NULL);
  scan_xml();
  replaying = !strcmp(argv[1], "--replay");
  snprintf(scratch, sizeof scratch, "%s.scratch.xml", argv[3]);
  warm_up();
  if (replaying) {
    FILE *in = fopen(argv[2], "r"); char line[8192], eff[600];
    if (!in) { perror(argv[2]); return 2; }
    strcpy(eff, "/dev/null");
    fops = fopen(eff, "w"); fout = fopen(argv[3], "w");
    while (fgets(line, sizeof line, in)) {
      line[strcspn(line, "\r\n")] = 0;
      if (!line[0] || line[0] == '#') continue;
      exec_line(line);
    }
    fclose(in);
  } else {
    unsigned long nops = strtoul(argv[1], NULL, 0);
    uint64_t seed = rng_seed_from_env();
    rng_seed(seed);
    fops = fopen(argv[2], "w"); fout = fopen(argv[3], "w");
    while (st_ops < nops) episode(rng_next() % 1000000007ULL);
  }
  drop_T(); arena_drop();
  { char r[64]; users_str(r); if (strcmp(r, "users=0 reg=0")) { fprintf(stderr, "registry not torn down at exit: %s\n", r); return 3; } }
  fclose(fops); fclose(fout); unlink(scratch);
  if (!replaying && argc > 4) {
    FILE *f = fopen(argv[4], "w");
#define S(n) fprintf(f, #n " %lu\n", st_##n)
    S(ops); S(load); S(load_xml); S(load_synth); S(mods); S(calls); S(ro); S(wdist); S(wattr); S(wother); S(wcall); S(refresh);
    S(arena_ref); S(arena_unref); S(arena_partial); S(cinit); S(dists); S(attrs_user); S(restrict); S(mismatch); S(loadbind); S(loadflags);
    fclose(f);
  }
  return 0;
}
