/* C17 harness, engine `readonly` (+ the sequential tie of the components IR for engine `conc`).
 *
 * usage: readonly <nops> <ops-file> <out-file> <stats-file>     generate mode, seed = VERIF_SEED
 *        readonly --replay <ops-file> <out-file>                 replay mode
 *
 * The deterministic sequential fact the schedule theorem rests on: consulting calls do not write when the lazy
 * caches are valid (and exactly the calls the model says write when they are not).  Every episode
 *   load <eseed>                 builds + loads a topology (synthetic description or bundled XML chosen from eseed)
 *   loadbind <eseed>             the same with a bundled XML, IS_THISSYSTEM and RESTRICT_TO_CPUBINDING and/or _MEMBINDING (F51, fixed)
 *   observe after-load S         S = validity flags read from the private structures (d=.. a=..)
 *   expect-valid                 (corpus) every validity flag of the writable topology is set -> valid | invalid S
 *   mods <eseed>                 a modification history (distances, memattr values, cpukinds, restrict, group, misc)
 *   observe after-mod S
 *   wcall <entry> <id> <ok> S    a consulting call on the WRITABLE, unrefreshed topology -> the flags afterwards
 *   refresh S                    hwloc_topology_refresh -> the flags afterwards
 *   observe after-refresh S
 *   arena refreshed|unrefreshed|partial <mask>
 *                                hwloc__topology_dup into a bump arena (dup clears every validity flag), then
 *                                hwloc_topology_refresh on the copy / nothing / validation of the attributes in mask
 *                                (and of the distances when bit 31 is set), then mprotect(PROT_READ)
 *   call <entry> <id> <ok> S     the entry point of consult.h on the read-only copy inside a SIGSEGV catcher
 *                                -> "ro" | "write dist <id>" | "write attr <i>" | "write other+<offset>"
 *   drop                         destroys both topologies
 *   cinit U / cfini U            hwloc_components_init / _fini directly, U = users=<n> reg=<0|1> before -> the same after
 *   reg <op> <variant> <a> <b> U  one public entry point that reaches the component registry, on the path named by op/variant,
 *                                over a pool of independent topologies (see "registry histories" below) -> <result> + U afterwards
 *   reglive <k> U                k = topologies (+ bare references) alive according to the harness -> consistent
 * S is part of the op line (the model is stateless); in replay mode a line whose S differs from the actual state
 * answers "state-mismatch <actual>".
 *
 * Static environment caches are warmed up first (one XML export + import, one failing insert is not needed:
 * HWLOC_HIDE_ERRORS is read by hwloc_hide_errors() on the first load).
 */
#define _GNU_SOURCE
#include "private/autogen/config.h"
#include "hwloc.h"
#include "private/private.h"
#include "components.c"            /* hwloc_components_users, hwloc_disc_components (static) */
#include "rng.h"
#include "consult.h"
#include <signal.h>
#include <setjmp.h>
#include <sys/mman.h>
#include <ucontext.h>
#include <dirent.h>
#include <unistd.h>
#include <fcntl.h>

static FILE *fops, *fout;
static int replaying;
static hwloc_topology_t T;          /* the writable original */
static hwloc_topology_t A;          /* the copy in the arena */
static char scratch[512];
static unsigned long st_ops, st_load, st_load_xml, st_load_synth, st_mods, st_calls, st_ro, st_wdist, st_wattr, st_wother,
  st_wcall, st_refresh, st_arena_ref, st_arena_unref, st_arena_partial, st_cinit, st_dists, st_attrs_user, st_dropped,
  st_restrict, st_mismatch, st_loadbind, st_loadflags;

/* ------------------------------------------------------------------ arena */
#define ARENA_SIZE (256UL << 20)
static char *arena; static size_t arena_used; static int arena_ro;
static struct hwloc_tma TMA;
static void *arena_malloc(struct hwloc_tma *tma, size_t n) {
  (void) tma;
  n = (n + 15) & ~(size_t)15;
  if (arena_used + n > ARENA_SIZE) { fprintf(stderr, "arena exhausted\n"); abort(); }
  void *p = arena + arena_used; arena_used += n; return p;
}
static void arena_protect(int ro) {
  size_t len = (arena_used + 4095) & ~(size_t)4095;
  if (len && mprotect(arena, len, ro ? PROT_READ : PROT_READ | PROT_WRITE)) { perror("mprotect"); abort(); }
  arena_ro = ro;
}
static void arena_drop(void) {
  if (A) { arena_protect(0); A = NULL; hwloc_components_fini(); /* the reference taken by hwloc__topology_init */ }
  arena_used = 0;
}

/* ------------------------------------------------------------------ fault catcher */
static sigjmp_buf jb; static volatile int armed; static void *volatile fault_addr; static volatile int fault_write;
static void on_segv(int sig, siginfo_t *si, void *uc_) {
  ucontext_t *uc = uc_;
  char *a = si->si_addr;
  if (armed && a >= arena && a < arena + ARENA_SIZE) {
    fault_addr = a;
#ifdef REG_ERR
    fault_write = !!(uc->uc_mcontext.gregs[REG_ERR] & 2);
#else
    fault_write = 1;
#endif
    armed = 0;
    siglongjmp(jb, 1);
  }
  signal(sig, SIG_DFL); raise(sig);
}

/* which model location does an arena address belong to */
static void classify(hwloc_topology_t t, char *a, char *out) {
  struct hwloc_internal_distances_s *d;
#define IN(p, n) ((p) && a >= (char *)(p) && a < (char *)(p) + (n))
  for (d = t->first_dist; d; d = d->next)
    if (IN(d, sizeof *d) || IN(d->objs, d->nbobjs * sizeof *d->objs) || IN(d->indexes, d->nbobjs * sizeof *d->indexes) ||
        IN(d->values, d->nbobjs * d->nbobjs * sizeof *d->values) || IN(d->different_types, d->nbobjs * sizeof *d->different_types)) {
      sprintf(out, "write dist %u", d->id); return;
    }
  for (unsigned i = 0; i < t->nr_memattrs; i++) {
    struct hwloc_internal_memattr_s *m = &t->memattrs[i];
    int hit = IN(m, sizeof *m) || IN(m->targets, m->nr_targets * sizeof *m->targets);
    for (unsigned j = 0; !hit && j < m->nr_targets; j++)
      hit = IN(m->targets[j].initiators, m->targets[j].nr_initiators * sizeof *m->targets[j].initiators);
    if (hit) { sprintf(out, "write attr %u", i); return; }
  }
  sprintf(out, "write other+%ld", (long)(a - (char *) t));
}

/* ------------------------------------------------------------------ state strings */
static hwloc_obj_t dist_obj(hwloc_topology_t t, struct hwloc_internal_distances_s *d, unsigned i) {
  if (HWLOC_DIST_TYPE_USE_OS_INDEX(d->unique_type))
    return d->unique_type == HWLOC_OBJ_PU ? hwloc_get_pu_obj_by_os_index(t, (unsigned) d->indexes[i])
                                          : hwloc_get_numanode_obj_by_os_index(t, (unsigned) d->indexes[i]);
  return hwloc_get_obj_by_type_and_gp_index(t, d->different_types ? d->different_types[i] : d->unique_type, d->indexes[i]);
}
static void state_str(hwloc_topology_t t, char *out) {
  struct hwloc_internal_distances_s *d; char *p = out;
  p += sprintf(p, "d=");
  if (!t->first_dist) p += sprintf(p, "-");
  for (d = t->first_dist; d; d = d->next) {
    unsigned alive = 0;
    for (unsigned i = 0; i < d->nbobjs; i++) if (dist_obj(t, d, i)) alive++;
    p += sprintf(p, "%s%u:%d%d", d == t->first_dist ? "" : ",", d->id, !!(d->iflags & HWLOC_INTERNAL_DIST_FLAG_OBJS_VALID), alive >= 2);
  }
  p += sprintf(p, " a=");
  if (!t->nr_memattrs) p += sprintf(p, "-");
  for (unsigned i = 0; i < t->nr_memattrs; i++) {
    struct hwloc_internal_memattr_s *m = &t->memattrs[i];
    p += sprintf(p, "%s%d%d%d", i ? "," : "", !!(m->iflags & HWLOC_IMATTR_FLAG_CONVENIENCE),
                 !!(m->flags & HWLOC_MEMATTR_FLAG_NEED_INITIATOR), !!(m->iflags & HWLOC_IMATTR_FLAG_CACHE_VALID));
  }
}

static int all_valid(hwloc_topology_t t) {
  struct hwloc_internal_distances_s *d;
  for (d = t->first_dist; d; d = d->next) if (!(d->iflags & HWLOC_INTERNAL_DIST_FLAG_OBJS_VALID)) return 0;
  for (unsigned i = 0; i < t->nr_memattrs; i++) if (!(t->memattrs[i].iflags & HWLOC_IMATTR_FLAG_CACHE_VALID)) return 0;
  return 1;
}

/* ------------------------------------------------------------------ building topologies */
static char xmlfiles[64][300]; static unsigned nxml;
static void scan_xml(void) {
  const char *dir = getenv("VERIF_XMLDIR"); DIR *D; struct dirent *e;
  if (!dir || !(D = opendir(dir))) return;
  while ((e = readdir(D)) && nxml < 64) {
    size_t n = strlen(e->d_name);
    if (n > 4 && !strcmp(e->d_name + n - 4, ".xml")) snprintf(xmlfiles[nxml++], 300, "%s/%s", dir, e->d_name);
  }
  closedir(D);
  qsort(xmlfiles, nxml, 300, (int (*)(const void *, const void *)) strcmp);
}
static const char *SYNTH[] = {
  "pack:2 numa:2 l2:2 core:2 pu:2", "numa:4 core:3 pu:2", "pack:3 l3:1 core:4 pu:1", "node:2 pack:2 core:2 pu:2",
  "pack:2 [numa] [numa] core:4 pu:2", "numa:2 pack:1 l3:2 l2:2 l1d:1 core:1 pu:2", "group:2 numa:2 core:2 pu:1",
  "pack:4 numa:1 core:2 pu:4", "numa:8 pu:2", "pack:2 numa:3 core:2 pu:1", "core:6 pu:2", "pack:2 die:2 numa:1 l3:1 core:3 pu:2",
};
static void drop_T(void) { if (T) { hwloc_topology_destroy(T); T = NULL; } }

static int do_load(uint64_t eseed, char *res, int bind) {
  uint64_t s0 = rng_s[0], s1 = rng_s[1];
  int rc;
  drop_T(); arena_drop();
  rng_seed(eseed ^ 0x1111);
  hwloc_topology_init(&T);
  hwloc_topology_set_all_types_filter(T, rng_chance(50) ? HWLOC_TYPE_FILTER_KEEP_ALL : HWLOC_TYPE_FILTER_KEEP_STRUCTURE);
  if (nxml && (bind || rng_chance(55))) {
    const char *f = xmlfiles[rng_below(nxml)];
    rc = hwloc_topology_set_xml(T, f);
    st_load_xml++;
  } else {
    rc = hwloc_topology_set_synthetic(T, SYNTH[rng_below(sizeof SYNTH / sizeof *SYNTH)]);
    st_load_synth++;
  }
  if (!rc) {
    unsigned long fl = 0;
    if (bind) {   /* F51 (fixed by 6c24a9e): the restrict-to-binding of load runs after load's first refresh */
      fl = HWLOC_TOPOLOGY_FLAG_IS_THISSYSTEM;
      switch (rng_below(3)) { case 0: fl |= HWLOC_TOPOLOGY_FLAG_RESTRICT_TO_CPUBINDING; break; case 1: fl |= HWLOC_TOPOLOGY_FLAG_RESTRICT_TO_MEMBINDING; break;
                              default: fl |= HWLOC_TOPOLOGY_FLAG_RESTRICT_TO_CPUBINDING | HWLOC_TOPOLOGY_FLAG_RESTRICT_TO_MEMBINDING; }
    } else if (rng_chance(20)) fl = HWLOC_TOPOLOGY_FLAG_INCLUDE_DISALLOWED;
    if (rng_chance(12)) {   /* every flag word: the NO_* flags in any combination (the user may still add things afterwards) */
      if (rng_chance(50)) fl |= HWLOC_TOPOLOGY_FLAG_NO_DISTANCES;
      if (rng_chance(50)) fl |= HWLOC_TOPOLOGY_FLAG_NO_MEMATTRS;
      if (rng_chance(50)) fl |= HWLOC_TOPOLOGY_FLAG_NO_CPUKINDS;
      st_loadflags++;
    }
    if (fl) hwloc_topology_set_flags(T, fl);
    rc = hwloc_topology_load(T);
  }
  rng_s[0] = s0; rng_s[1] = s1;
  if (rc) { drop_T(); strcpy(res, "load-failed"); return -1; }
  st_load++;
  strcpy(res, "ok");
  return 0;
}

static unsigned collect(hwloc_obj_type_t ty, hwloc_obj_t *objs, unsigned max) {
  unsigned n = 0; hwloc_obj_t o = NULL;
  while (n < max && (o = hwloc_get_next_obj_by_type(T, ty, o))) objs[n++] = o;
  return n;
}
static void mod_add_distances(void) {
  static const hwloc_obj_type_t tys[] = { HWLOC_OBJ_NUMANODE, HWLOC_OBJ_PU, HWLOC_OBJ_CORE, HWLOC_OBJ_PACKAGE };
  hwloc_obj_t objs[12]; hwloc_uint64_t vals[144]; char name[32];
  unsigned n = collect(tys[rng_below(4)], objs, 2 + rng_below(10));
  if (n < 2) return;
  for (unsigned i = 0; i < n * n; i++) vals[i] = 10 + rng_below(50);
  sprintf(name, "verif%u", rng_below(1000));
  hwloc_distances_add_handle_t h = hwloc_distances_add_create(T, rng_chance(60) ? name : NULL,
      HWLOC_DISTANCES_KIND_FROM_USER | (rng_chance(50) ? HWLOC_DISTANCES_KIND_VALUE_LATENCY : HWLOC_DISTANCES_KIND_VALUE_BANDWIDTH), 0);
  if (!h) return;
  if (hwloc_distances_add_values(T, h, n, objs, vals, 0)) return;
  if (!hwloc_distances_add_commit(T, h, 0)) st_dists++;
}
static void mod_memattr(void) {
  hwloc_obj_t nodes[8], pus[16]; hwloc_memattr_id_t id; char name[32];
  unsigned nn = collect(HWLOC_OBJ_NUMANODE, nodes, 8), np = collect(HWLOC_OBJ_PU, pus, 16);
  int needinit = rng_chance(50);
  if (!nn || !np) return;
  if (rng_chance(35)) {            /* a standard attribute */
    id = needinit ? HWLOC_MEMATTR_ID_BANDWIDTH : HWLOC_MEMATTR_ID_CAPACITY + 0;
    if (!needinit) return;
  } else {
    sprintf(name, "verifattr%u", rng_below(100000));
    if (hwloc_memattr_register(T, name, (rng_chance(50) ? HWLOC_MEMATTR_FLAG_HIGHER_FIRST : HWLOC_MEMATTR_FLAG_LOWER_FIRST) |
                               (needinit ? HWLOC_MEMATTR_FLAG_NEED_INITIATOR : 0), &id)) return;
    st_attrs_user++;
  }
  unsigned k = rng_below(nn + 1);
  for (unsigned i = 0; i < k; i++) {
    struct hwloc_location loc;
    if (rng_chance(50)) { loc.type = HWLOC_LOCATION_TYPE_CPUSET; loc.location.cpuset = pus[rng_below(np)]->cpuset; }
    else { loc.type = HWLOC_LOCATION_TYPE_OBJECT; loc.location.object = pus[rng_below(np)]; }
    hwloc_memattr_set_value(T, id, nodes[rng_below(nn)], needinit ? &loc : NULL, 0, 100 + rng_below(900));
  }
}
static void mod_cpukinds(void) {
  hwloc_bitmap_t s = hwloc_bitmap_alloc(); hwloc_obj_t pus[64]; struct hwloc_infos_s infos; struct hwloc_info_s one;
  unsigned np = collect(HWLOC_OBJ_PU, pus, 64);
  for (unsigned i = 0; i < np; i++) if (rng_chance(50)) hwloc_bitmap_or(s, s, pus[i]->cpuset);
  one.name = (char *) "verifkind"; one.value = (char *) "x"; infos.array = &one; infos.count = 1; infos.allocated = 1;
  hwloc_cpukinds_register(T, s, (int) rng_below(4) - 1, &infos, 0);
  hwloc_bitmap_free(s);
}
static void mod_restrict(void) {
  hwloc_bitmap_t s = hwloc_bitmap_dup(hwloc_topology_get_topology_cpuset(T));
  int w = hwloc_bitmap_weight(s), drop = w > 1 ? 1 + (int) rng_below((unsigned) w / 2 + 1) : 0, last;
  for (int i = 0; i < drop && (last = hwloc_bitmap_last(s)) >= 0 && hwloc_bitmap_weight(s) > 1; i++)
    hwloc_bitmap_clr(s, rng_chance(70) ? last : hwloc_bitmap_first(s));
  unsigned long fl = 0;
  if (rng_chance(40)) fl |= HWLOC_RESTRICT_FLAG_REMOVE_CPULESS;
  if (rng_chance(30)) fl |= HWLOC_RESTRICT_FLAG_ADAPT_MISC;
  if (!hwloc_topology_restrict(T, s, fl)) st_restrict++;
  hwloc_bitmap_free(s);
}
static void mod_group(void) {
  hwloc_obj_t cores[16]; unsigned n = collect(HWLOC_OBJ_CORE, cores, 16);
  if (n < 3) return;
  hwloc_obj_t g = hwloc_topology_alloc_group_object(T);
  if (!g) return;
  unsigned i = rng_below(n - 1);
  hwloc_obj_add_other_obj_sets(g, cores[i]); hwloc_obj_add_other_obj_sets(g, cores[i + 1]);
  hwloc_topology_insert_group_object(T, g);
}
static void mod_misc(void) {
  hwloc_obj_t pus[16]; unsigned n = collect(HWLOC_OBJ_PU, pus, 16);
  if (n) hwloc_topology_insert_misc_object(T, pus[rng_below(n)]->parent, "verifmisc");
}
static void do_mods(uint64_t eseed) {
  uint64_t s0 = rng_s[0], s1 = rng_s[1];
  rng_seed(eseed ^ 0x2222);
  unsigned n = 1 + rng_below(7);
  for (unsigned i = 0; i < n; i++) {
    switch (rng_below(10)) {
    case 0: case 1: case 2: mod_add_distances(); break;
    case 3: case 4: mod_memattr(); break;
    case 5: mod_cpukinds(); break;
    case 6: case 7: mod_restrict(); break;
    case 8: mod_group(); break;
    default: mod_misc(); break;
    }
  }
  st_mods += n;
  rng_s[0] = s0; rng_s[1] = s1;
}

/* ------------------------------------------------------------------ executing one op line */
static const struct consult_entry *find_entry(const char *name) {
  for (unsigned i = 0; i < NCONSULT; i++) if (!strcmp(CONSULT[i].name, name)) return &CONSULT[i];
  return NULL;
}
static int state_matches(hwloc_topology_t t, const char *line, char *res) {
  char cur[4096]; const char *p = strstr(line, " d=");
  state_str(t, cur);
  if (!p || strcmp(p + 1, cur)) { sprintf(res, "state-mismatch %s", cur); st_mismatch++; return 0; }
  return 1;
}
static void users_str(char *res) { sprintf(res, "users=%u reg=%d", hwloc_components_users, hwloc_disc_components != NULL); }

/* ------------------------------------------------------------------ registry histories (C17 (b): every public entry point
 * that reaches the component registry, on every path, interleaved with live topologies in every lifecycle state)
 *
 *   reg <op> <variant> <a> <b> users=<n> reg=<0|1>   ->   <result> users=<n'> reg=<b'>
 *   reglive <k> users=<n> reg=<0|1>                  ->   consistent          (k = topologies alive according to the harness)
 *
 * users / reg are read from components.c's statics (absolute: the pool below + T + A + outstanding cinit).  The op/variant
 * pair names the entry point AND the path through it, so that the result is deterministic and the stateless model can
 * answer both the result and the count afterwards.  A line whose precondition does not hold (replay of a shrunk file)
 * answers "no-slot".
 *
 * pool: NSLOT independent topologies (empty / inited / configured / loaded / failed (load failed: may only be destroyed) /
 * adopted from shared memory), NDIFF diff lists, NBUF XML buffers, one shmem segment (file + reserved address range) per slot. */
#define NSLOT 6
#define NDIFF 3
#define NBUF 4
#define SEGLEN (256UL << 20)
enum { S_EMPTY, S_INIT, S_CONF, S_LOADED, S_FAILED, S_ADOPTED };
static const char *SNAME[] = { "empty", "inited", "configured", "loaded", "failed", "adopted" };
static struct { hwloc_topology_t t; int st, willfail, reconf; } P[NSLOT];
static struct { hwloc_topology_diff_t d; int used, complex; } D[NDIFF];
static struct { char *buf; int len, kind; } X[NBUF];          /* kind 1 = topology XML, 2 = diff XML */
static struct { int written, fd; size_t len; char path[600]; } G[NSLOT];
static char *SHM; static char f_topo[600], f_diff[600], f_none[600], f_unwr[700];
static int topofile_ok, difffile_ok;
static unsigned long st_reg, st_reg_err, st_reg_toocomplex, st_reg_with_T, st_reg_with_A, st_reg_users0, st_reg_pool_inited,
  st_reg_pool_configured, st_reg_pool_loaded, st_reg_pool_adopted, st_reg_pool_failed, st_reglive, st_reg_noslot,
  st_reg_init, st_reg_destroy, st_reg_dup, st_reg_setsrc, st_reg_load, st_reg_export, st_reg_diffbuild, st_reg_diffexp,
  st_reg_diffload, st_reg_shmem, st_reg_adopt_ok, st_reg_load_reconf, st_reg_free_users0;

static unsigned cinit_out;     /* hwloc_components_init calls of `cinit` lines not yet undone by `cfini` */
static unsigned pool_live(void) { unsigned n = 0; for (int i = 0; i < NSLOT; i++) if (P[i].st != S_EMPTY) n++; return n; }
static unsigned live_refs(void) { return pool_live() + (T ? 1 : 0) + (A ? 1 : 0) + cinit_out; }
static int pool_has(int st) { for (int i = 0; i < NSLOT; i++) if (P[i].st == st) return 1; return 0; }
/* Shared-memory segments live at fixed addresses far away from everything the kernel, glibc or the sanitizer runtime map
 * on their own (non-hinted mappings go top-down from the stack, ASan's allocator sits at 0x6000'0000'0000): no reservation is
 * kept, so nothing has to be unmapped / re-reserved around the hwloc calls (a MAP_FIXED re-reservation could replace a mapping
 * the sanitizer created in the meantime).  The `busy` variants occupy the range for the duration of the call. */
static char *seg_addr(int g) { return SHM + (size_t) g * SEGLEN; }
static void *seg_block(int g, size_t len) {
  void *p = mmap(seg_addr(g), len, PROT_NONE, MAP_PRIVATE | MAP_ANONYMOUS | MAP_NORESERVE | MAP_FIXED_NOREPLACE, -1, 0);
  if (p == MAP_FAILED) { perror("seg_block"); abort(); }
  if (p != (void *) seg_addr(g)) { munmap(p, len); fprintf(stderr, "seg_block: range not free\n"); abort(); }
  return p;
}
static void reg_setup(const char *prefix) {
  for (unsigned long base = 0x210000000000UL; !SHM && base < 0x400000000000UL; base += 0x010000000000UL) {
    void *p = mmap((void *) base, NSLOT * SEGLEN, PROT_NONE, MAP_PRIVATE | MAP_ANONYMOUS | MAP_NORESERVE | MAP_FIXED_NOREPLACE, -1, 0);
    if (p == MAP_FAILED) continue;
    munmap(p, NSLOT * SEGLEN);
    if (p == (void *) base) SHM = p;
  }
  if (!SHM) { fprintf(stderr, "no free address range for the shmem segments\n"); exit(2); }
  snprintf(f_topo, sizeof f_topo, "%s.topo.xml", prefix); snprintf(f_diff, sizeof f_diff, "%s.diff.xml", prefix);
  snprintf(f_none, sizeof f_none, "%s.does-not-exist.xml", prefix); snprintf(f_unwr, sizeof f_unwr, "%s.no-such-dir/x.xml", prefix);
  for (int g = 0; g < NSLOT; g++) { snprintf(G[g].path, sizeof G[g].path, "%s.shm%d", prefix, g); G[g].fd = -1; }
}
static const char *errs(int rc) {
  if (rc >= 0) return "ok";
  switch (errno) { case EINVAL: return "EINVAL"; case EBUSY: return "EBUSY"; case ENOSYS: return "ENOSYS"; default: return "fail"; }
}
static const char *okfail(int rc) { return rc < 0 ? (errno == ENOSYS ? "ENOSYS" : "fail") : "ok"; }
static hwloc_topology_t any_live(void) {
  for (int i = 0; i < NSLOT; i++) if (P[i].st != S_EMPTY) return P[i].t;
  return T ? T : A;
}
static void free_xbuf(int b) {
  if (!X[b].kind) return;
  hwloc_free_xmlbuffer(any_live(), X[b].buf);   /* also with no topology alive (aborted before fix F76) */
  if (!hwloc_components_users) st_reg_free_users0++;
  X[b].buf = NULL; X[b].kind = 0;
}
/* hand-built diff lists: A = an OBJ_ATTR entry, C = a TOO_COMPLEX entry */
static hwloc_topology_diff_t hand_diff(const char *shape) {
  hwloc_topology_diff_t first = NULL, *tail = &first;
  for (unsigned i = 0; shape[i]; i++) {
    hwloc_topology_diff_t d = calloc(1, sizeof *d);
    if (shape[i] == 'C') { d->too_complex.type = HWLOC_TOPOLOGY_DIFF_TOO_COMPLEX; d->too_complex.obj_depth = 0; d->too_complex.obj_index = 0; }
    else {
      d->obj_attr.type = HWLOC_TOPOLOGY_DIFF_OBJ_ATTR; d->obj_attr.obj_depth = 0; d->obj_attr.obj_index = 0;
      switch (i % 3) {
      case 0: d->obj_attr.diff.uint64.type = HWLOC_TOPOLOGY_DIFF_OBJ_ATTR_SIZE; d->obj_attr.diff.uint64.index = 0;
              d->obj_attr.diff.uint64.oldvalue = 4096; d->obj_attr.diff.uint64.newvalue = 8192; break;
      case 1: d->obj_attr.diff.string.type = HWLOC_TOPOLOGY_DIFF_OBJ_ATTR_NAME; d->obj_attr.diff.string.name = NULL;
              d->obj_attr.diff.string.oldvalue = (char *) "old"; d->obj_attr.diff.string.newvalue = (char *) "new"; break;
      default: d->obj_attr.diff.string.type = HWLOC_TOPOLOGY_DIFF_OBJ_ATTR_INFO; d->obj_attr.diff.string.name = (char *) "verifinfo";
              d->obj_attr.diff.string.oldvalue = (char *) "a"; d->obj_attr.diff.string.newvalue = (char *) "b"; break;
      }
    }
    *tail = d; tail = &d->generic.next;
  }
  return first;
}
static void hand_free(hwloc_topology_diff_t d) { while (d) { hwloc_topology_diff_t n = d->generic.next; free(d); d = n; } }
/* variant -> the diff list to export (returns 0 when the variant's precondition fails); *hand: free with hand_free */
static int diff_for(const char *var, int d, hwloc_topology_diff_t *out, int *hand, int *complex) {
  *hand = 1; *complex = 0;
  if (!strcmp(var, "empty")) { *out = NULL; return 1; }
  if (!strcmp(var, "hand-attrs")) { *out = hand_diff("AAA"); return 1; }
  if (!strcmp(var, "hand-complex-first")) { *out = hand_diff("CAA"); *complex = 1; return 1; }
  if (!strcmp(var, "hand-complex-mid")) { *out = hand_diff("ACA"); *complex = 1; return 1; }
  if (!strcmp(var, "hand-complex-last")) { *out = hand_diff("AAC"); *complex = 1; return 1; }
  if (!strcmp(var, "hand-complex-only")) { *out = hand_diff("C"); *complex = 1; return 1; }
  if (!strcmp(var, "unwritable")) { *out = hand_diff("AA"); return 1; }
  if (d < 0 || d >= NDIFF || !D[d].used) return 0;
  if (!strcmp(var, "slot-ok") && !D[d].complex) { *hand = 0; *out = D[d].d; return 1; }
  if (!strcmp(var, "slot-complex") && D[d].complex) { *hand = 0; *out = D[d].d; *complex = 1; return 1; }
  return 0;
}
static const char BAD_TOPO_XML[] =
  "<?xml version=\"1.0\" encoding=\"UTF-8\"?>\n<!DOCTYPE topology SYSTEM \"hwloc2.dtd\">\n<topology version=\"2.0\">\n"
  "  <object type=\"Machine\" os_index=\"0\" cpuset=\"0x1\" complete_cpuset=\"0x1\" nodeset=\"0x1\" complete_nodeset=\"0x1\">\n"
  "    <object type=\"NoSuchType\" os_index=\"0\"/>\n  </object>\n</topology>\n";

static int slot_of(const char *s) { return (s[0] >= '0' && s[0] <= '9' && !s[1]) ? s[0] - '0' : -1; }
#define PS(i) ((i) >= 0 && (i) < NSLOT ? P[i].st : -1)
#define NEED(c) do { if (!(c)) return 0; } while (0)

/* executes one registry op; returns 0 when its precondition does not hold (nothing was called) */
static int reg_exec(const char *op, const char *var, const char *sa, const char *sb, char *res) {
  int a = slot_of(sa), b = slot_of(sb), rc;
  errno = 0;
  if (!strcmp(op, "init")) {
    NEED(PS(a) == S_EMPTY);
    rc = hwloc_topology_init(&P[a].t); strcpy(res, okfail(rc));
    if (!rc) { P[a].st = S_INIT; P[a].willfail = 0; P[a].reconf = 0; } st_reg_init++;
  } else if (!strcmp(op, "setsrc")) {
    NEED(PS(a) == S_INIT || PS(a) == S_CONF);
    hwloc_topology_t t = P[a].t; int ok = 0, wf = 0;
    if (!strcmp(var, "synth-ok")) { NEED(b >= 0); rc = hwloc_topology_set_synthetic(t, SYNTH[(unsigned) b % (sizeof SYNTH / sizeof *SYNTH)]); ok = 1; }
    else if (!strcmp(var, "synth-bad")) rc = hwloc_topology_set_synthetic(t, "pack:2 bogus:3 pu:1");
    else if (!strcmp(var, "xml-ok")) { NEED(topofile_ok); rc = hwloc_topology_set_xml(t, f_topo); ok = 1; }
    else if (!strcmp(var, "xml-nofile")) rc = hwloc_topology_set_xml(t, f_none);
    else if (!strcmp(var, "xmlbuf-ok")) { NEED(b >= 0 && b < NBUF && X[b].kind == 1); rc = hwloc_topology_set_xmlbuffer(t, X[b].buf, X[b].len); ok = 1; }
    else if (!strcmp(var, "xmlbuf-bad")) rc = hwloc_topology_set_xmlbuffer(t, "this is <<not xml", 18);
    else if (!strcmp(var, "xmlbuf-loadfail")) { rc = hwloc_topology_set_xmlbuffer(t, BAD_TOPO_XML, (int) sizeof BAD_TOPO_XML); ok = 1; wf = 1; }
    else return 0;
    strcpy(res, okfail(rc));
    /* a second successful set_synthetic / set_xml / set_xmlbuffer on the same topology replaces the first source; loading such a
     * reconfigured topology aborted until fix 5fda0cf (F75: the new backend kept phases = 0), it is exercised like any other load;
     * `reconf` only counts them */
    if (ok && !rc) { if (P[a].st == S_CONF) P[a].reconf = 1; P[a].st = S_CONF; P[a].willfail = wf; }
    if (!ok) st_reg_err++;
    st_reg_setsrc++;
  } else if (!strcmp(op, "setcomp")) {
    NEED(PS(a) == S_INIT || PS(a) == S_CONF);
    if (!strcmp(var, "ok")) rc = hwloc_topology_set_components(P[a].t, HWLOC_TOPOLOGY_COMPONENTS_FLAG_BLACKLIST, "no_os");
    else if (!strcmp(var, "unknown")) { rc = hwloc_topology_set_components(P[a].t, HWLOC_TOPOLOGY_COMPONENTS_FLAG_BLACKLIST, "verif-no-such-component"); st_reg_err++; }
    else if (!strcmp(var, "badflags")) { rc = hwloc_topology_set_components(P[a].t, 0, "no_os"); st_reg_err++; }
    else return 0;
    strcpy(res, okfail(rc)); st_reg_setsrc++;
  } else if (!strcmp(op, "load")) {
    NEED(a >= 0);
    if (!strcmp(var, "ok")) { NEED(PS(a) == S_CONF && !P[a].willfail); }
    else if (!strcmp(var, "native")) { NEED(PS(a) == S_INIT); }
    else if (!strcmp(var, "fail")) { NEED(PS(a) == S_CONF && P[a].willfail); st_reg_err++; }
    else if (!strcmp(var, "busy")) { NEED(PS(a) == S_LOADED || PS(a) == S_ADOPTED); st_reg_err++; }
    else return 0;
    rc = hwloc_topology_load(P[a].t); strcpy(res, !strcmp(var, "busy") ? errs(rc) : okfail(rc));
    if (P[a].st == S_INIT || P[a].st == S_CONF) P[a].st = rc ? S_FAILED : S_LOADED;
    st_reg_load++;
  } else if (!strcmp(op, "dup")) {
    hwloc_topology_t src = !strcmp(sa, "T") ? T : a >= 0 ? P[a].t : NULL;
    NEED(PS(b) == S_EMPTY && src);
    if (!strcmp(var, "ok")) { NEED(!strcmp(sa, "T") || PS(a) == S_LOADED || PS(a) == S_ADOPTED); }
    else if (!strcmp(var, "unloaded")) { NEED(PS(a) == S_INIT || PS(a) == S_CONF); st_reg_err++; }
    else return 0;
    rc = hwloc_topology_dup(&P[b].t, src); strcpy(res, errs(rc));
    if (!rc) { P[b].st = S_LOADED; P[b].willfail = 0; P[b].reconf = 0; } st_reg_dup++;
  } else if (!strcmp(op, "destroy")) {
    NEED(PS(a) > S_EMPTY && !strcmp(var, SNAME[P[a].st]));
    hwloc_topology_destroy(P[a].t);
    P[a].t = NULL; P[a].st = S_EMPTY; strcpy(res, "ok"); st_reg_destroy++;
  } else if (!strcmp(op, "export")) {
    NEED(PS(a) == S_LOADED || PS(a) == S_ADOPTED);
    if (!strcmp(var, "buf")) {
      NEED(b >= 0 && b < NBUF && !X[b].kind);
      rc = hwloc_topology_export_xmlbuffer(P[a].t, &X[b].buf, &X[b].len, 0); if (!rc) X[b].kind = 1;
    } else if (!strcmp(var, "file")) { rc = hwloc_topology_export_xml(P[a].t, f_topo, 0); if (!rc) topofile_ok = 1; }
    else if (!strcmp(var, "badflags")) { rc = hwloc_topology_export_xml(P[a].t, f_none, ~0UL); st_reg_err++; }
    else return 0;
    strcpy(res, okfail(rc)); st_reg_export++;
  } else if (!strcmp(op, "freebuf")) {
    NEED(b >= 0 && b < NBUF && X[b].kind && hwloc_components_users);
    free_xbuf(b); strcpy(res, "ok"); st_reg_export++;
  } else if (!strcmp(op, "diffbuild")) {
    hwloc_topology_t t2 = NULL;
    NEED(PS(a) == S_LOADED && b >= 0 && b < NDIFF && !D[b].used);
    if (!strcmp(var, "complex")) {
      if (hwloc_topology_init(&t2) || hwloc_topology_set_synthetic(t2, "pack:3 pu:5") || hwloc_topology_load(t2)) { strcpy(res, okfail(-1)); if (t2) hwloc_topology_destroy(t2); return 1; }
    } else if (!strcmp(var, "same") || !strcmp(var, "mem")) {
      if (hwloc_topology_dup(&t2, P[a].t)) { strcpy(res, okfail(-1)); return 1; }
      if (!strcmp(var, "mem")) {
        hwloc_obj_t n = hwloc_get_obj_by_type(t2, HWLOC_OBJ_NUMANODE, 0), o;
        if (n) { n->attr->numanode.local_memory += 4096; for (o = n; o; o = o->parent) o->total_memory += 4096; }
      }
    } else return 0;
    rc = hwloc_topology_diff_build(P[a].t, t2, 0, &D[b].d);
    hwloc_topology_destroy(t2);
    if (rc < 0) strcpy(res, okfail(rc));
    else { D[b].used = 1; D[b].complex = rc == 1; strcpy(res, rc == 1 ? "toocomplex" : "ok"); }
    st_reg_diffbuild++;
  } else if (!strcmp(op, "diffexpbuf") || !strcmp(op, "diffexpfile")) {
    hwloc_topology_diff_t d; int hand, cx;
    NEED(diff_for(var, a, &d, &hand, &cx));
    if (op[7] == 'b') {
      char *buf = NULL; int len = 0;
      NEED(strcmp(var, "unwritable"));
      if (!cx) { NEED(b >= 0 && b < NBUF && !X[b].kind); }
      rc = hwloc_topology_diff_export_xmlbuffer(d, "verifref", &buf, &len);
      if (!rc && !cx) { X[b].buf = buf; X[b].len = len; X[b].kind = 2; }
    } else {
      rc = hwloc_topology_diff_export_xml(d, strcmp(var, "empty") ? "verifref" : NULL, !strcmp(var, "unwritable") ? f_unwr : f_diff);
      if (!rc) difffile_ok = 1;
    }
    strcpy(res, errs(rc) );
    if (!strcmp(var, "unwritable")) { strcpy(res, okfail(rc)); st_reg_err++; }
    if (cx) { st_reg_toocomplex++; st_reg_err++; }
    if (hand) hand_free(d);
    st_reg_diffexp++;
  } else if (!strcmp(op, "diffloadbuf") || !strcmp(op, "diffloadfile")) {
    hwloc_topology_diff_t d = NULL; char *ref = NULL;
    if (op[8] == 'b') {
      if (!strcmp(var, "ok")) { NEED(b >= 0 && b < NBUF && X[b].kind == 2); rc = hwloc_topology_diff_load_xmlbuffer(X[b].buf, X[b].len, &d, &ref); }
      else if (!strcmp(var, "trunc")) { NEED(b >= 0 && b < NBUF && X[b].kind == 2); rc = hwloc_topology_diff_load_xmlbuffer(X[b].buf, X[b].len / 2, &d, NULL); }
      else if (!strcmp(var, "notdiff")) { NEED(b >= 0 && b < NBUF && X[b].kind == 1); rc = hwloc_topology_diff_load_xmlbuffer(X[b].buf, X[b].len, &d, &ref); }
      else if (!strcmp(var, "garbage")) rc = hwloc_topology_diff_load_xmlbuffer("this is <<not xml", 18, &d, &ref);
      else if (!strcmp(var, "empty")) rc = hwloc_topology_diff_load_xmlbuffer("", 0, &d, &ref);
      else return 0;
    } else {
      if (!strcmp(var, "ok")) { NEED(difffile_ok); rc = hwloc_topology_diff_load_xml(f_diff, &d, &ref); }
      else if (!strcmp(var, "nofile")) rc = hwloc_topology_diff_load_xml(f_none, &d, &ref);
      else if (!strcmp(var, "notdiff")) { NEED(topofile_ok); rc = hwloc_topology_diff_load_xml(f_topo, &d, NULL); }
      else return 0;
    }
    strcpy(res, okfail(rc));
    if (strcmp(var, "ok")) st_reg_err++;
    if (d) hwloc_topology_diff_destroy(d);
    free(ref); st_reg_diffload++;
  } else if (!strcmp(op, "diffdestroy")) {
    NEED(b >= 0 && b < NDIFF && D[b].used);
    hwloc_topology_diff_destroy(D[b].d); D[b].d = NULL; D[b].used = 0; strcpy(res, "ok");
  } else if (!strcmp(op, "getlen")) {
    size_t len = 0;
    NEED(PS(a) == S_LOADED);
    rc = hwloc_shmem_topology_get_length(P[a].t, &len, !strcmp(var, "flags") ? 1UL : 0UL);
    if (strcmp(var, "ok")) st_reg_err++;
    strcpy(res, errs(rc)); st_reg_shmem++;
  } else if (!strcmp(op, "shmwrite")) {
    size_t len = 0; int g = b;
    NEED(PS(a) == S_LOADED && PS(g) == S_EMPTY);
    if (G[g].fd < 0) G[g].fd = open(G[g].path, O_RDWR | O_CREAT | O_TRUNC, 0600);
    NEED(G[g].fd >= 0 && !hwloc_shmem_topology_get_length(P[a].t, &len, 0) && len <= SEGLEN);
    if (!strcmp(var, "ok")) {
      rc = hwloc_shmem_topology_write(P[a].t, G[g].fd, 0, seg_addr(g), len, 0);
      if (!rc) { G[g].written = 1; G[g].len = len; }
    } else {
      st_reg_err++;
      if (!strcmp(var, "flags")) rc = hwloc_shmem_topology_write(P[a].t, G[g].fd, 0, seg_addr(g), len, 1);
      else if (!strcmp(var, "badfd")) rc = hwloc_shmem_topology_write(P[a].t, -1, 0, seg_addr(g), len, 0);
      else if (!strcmp(var, "busy")) {
        void *blk = seg_block(g, len); int e;
        rc = hwloc_shmem_topology_write(P[a].t, G[g].fd, 0, seg_addr(g), len, 0); e = errno;
        munmap(blk, len); G[g].written = 0; errno = e;
      }
      else return 0;
    }
    strcpy(res, errs(rc)); st_reg_shmem++;
  } else if (!strcmp(op, "adopt")) {
    int g = b; hwloc_topology_t t = NULL;
    NEED(PS(g) == S_EMPTY && G[g].written);
    if (!strcmp(var, "ok")) {
      rc = hwloc_shmem_topology_adopt(&t, G[g].fd, 0, seg_addr(g), G[g].len, 0);
      if (!rc) { P[g].t = t; P[g].st = S_ADOPTED; P[g].willfail = P[g].reconf = 0; st_reg_adopt_ok++; }
    } else {
      st_reg_err++;
      if (!strcmp(var, "flags")) rc = hwloc_shmem_topology_adopt(&t, G[g].fd, 0, seg_addr(g), G[g].len, 1);
      else if (!strcmp(var, "badfd")) rc = hwloc_shmem_topology_adopt(&t, -1, 0, seg_addr(g), G[g].len, 0);
      else if (!strcmp(var, "badlen")) rc = hwloc_shmem_topology_adopt(&t, G[g].fd, 0, seg_addr(g), G[g].len + 4096, 0);
      else if (!strcmp(var, "busy")) {
        void *blk = seg_block(g, G[g].len); int e;
        rc = hwloc_shmem_topology_adopt(&t, G[g].fd, 0, seg_addr(g), G[g].len, 0); e = errno;
        munmap(blk, G[g].len); errno = e;
      }
      else return 0;
    }
    strcpy(res, errs(rc)); st_reg_shmem++;
  } else return 0;
  return 1;
}

static void reg_line(const char *line, char *res) {
  char op[32], var[32], sa[16], sb[16], cur[64]; unsigned n = 0; int r = 0;
  if (sscanf(line, "reg %31s %31s %15s %15s users=%u reg=%d", op, var, sa, sb, &n, &r) != 6) { strcpy(res, "bad-op"); return; }
  users_str(cur);
  if (strcmp(strstr(line, "users="), cur)) { sprintf(res, "state-mismatch %s", cur); st_mismatch++; return; }
  if (T) st_reg_with_T++;
  if (A) st_reg_with_A++;
  if (!hwloc_components_users) st_reg_users0++;
  if (pool_has(S_INIT)) st_reg_pool_inited++;
  if (pool_has(S_CONF)) st_reg_pool_configured++;
  if (pool_has(S_LOADED)) st_reg_pool_loaded++;
  if (pool_has(S_ADOPTED)) st_reg_pool_adopted++;
  if (pool_has(S_FAILED)) st_reg_pool_failed++;
  if (!reg_exec(op, var, sa, sb, res)) { strcpy(res, "no-slot"); st_reg_noslot++; return; }
  st_reg++;
  strcat(res, " "); users_str(res + strlen(res));
}
static void pool_cleanup(void) {
  for (int b = 0; b < NBUF; b++) free_xbuf(b);
  for (int d = 0; d < NDIFF; d++) if (D[d].used) { hwloc_topology_diff_destroy(D[d].d); D[d].used = 0; }
  for (int i = 0; i < NSLOT; i++) if (P[i].st != S_EMPTY) { hwloc_topology_destroy(P[i].t); P[i].st = S_EMPTY; }
  for (int g = 0; g < NSLOT; g++) { if (G[g].fd >= 0) close(G[g].fd); unlink(G[g].path); }
  unlink(f_topo); unlink(f_diff);
}

/* ------------------------------------------------------------------ writable static storage of the library (C17-r7)
 * mprotect(PROT_READ) on the arena sees stores into the TOPOLOGY only.  A consulting call that writes a static variable of the
 * library (a process-wide size hint, a scratch buffer, a counter) is a shared write as well: the link map of this very binary
 * (<exe>.map, written by tools/common.py) gives the .data/.bss contribution of every library object; those bytes are compared
 * around every read-only call.  A byte may change ONCE per process (lazy first-use initialisation of an environment cache: known
 * finding F15, the theorems assume a warmed-up process); a byte that changes again is reported as `static-write <object>+<offset>`
 * where the model answers `ro`. */
#include <link.h>
struct srange { uintptr_t a; size_t n, off; char obj[56]; };
static struct srange SR[512]; static unsigned nsr; static unsigned char *s_snap, *s_once; static size_t s_len;
static unsigned long st_static_ranges, st_static_bytes, st_static_first, st_static_checks;
static int phdr_cb(struct dl_phdr_info *i, size_t sz, void *d) { (void) sz; *(uintptr_t *) d = i->dlpi_addr; return 1; }
static void statics_setup(void) {
  char exe[1024], line[2048], sec[256] = ""; ssize_t k = readlink("/proc/self/exe", exe, sizeof exe - 8);
  if (k <= 0) return; exe[k] = 0; strcat(exe, ".map");
  FILE *f = fopen(exe, "r"); if (!f) return;
  uintptr_t base = 0; dl_iterate_phdr(phdr_cb, &base);
  while (fgets(line, sizeof line, f)) {
    char t1[512] = "", t2[512] = "", t3[512] = "", t4[1024] = "";
    int n = sscanf(line, " %511s %511s %511s %1023s", t1, t2, t3, t4);
    const char *name, *sa, *ss, *path;
    if (n == 1 && t1[0] == '.') { snprintf(sec, sizeof sec, "%s", t1); continue; }          /* long section name: rest on the next line */
    if (n == 4 && t1[0] == '.' && !strncmp(t2, "0x", 2) && !strncmp(t3, "0x", 2)) { name = t1; sa = t2; ss = t3; path = t4; }
    else if (n == 3 && !strncmp(t1, "0x", 2) && !strncmp(t2, "0x", 2) && sec[0]) { name = sec; sa = t1; ss = t2; path = t3; }
    else { sec[0] = 0; continue; }
    int writable = !strncmp(name, ".data", 5) || !strncmp(name, ".bss", 4);
    if (!strncmp(name, ".data.rel.ro", 12)) writable = 0;
    const char *lib = strstr(path, "/lib-"); size_t pl = strlen(path);
    unsigned long long a = strtoull(sa, NULL, 16), sz = strtoull(ss, NULL, 16);
    if (writable && lib && pl > 2 && !strcmp(path + pl - 2, ".o") && sz && a && nsr < 512) {
      const char *bn = strrchr(path, '/'); snprintf(SR[nsr].obj, sizeof SR[nsr].obj, "%s:%s", bn ? bn + 1 : path, name);
      SR[nsr].a = base + (uintptr_t) a; SR[nsr].n = (size_t) sz; SR[nsr].off = s_len; s_len += ((size_t) sz + 7) & ~(size_t) 7; nsr++;
    }
    sec[0] = 0;
  }
  fclose(f);
  s_snap = malloc(s_len + 1); s_once = calloc(s_len + 1, 1);
  st_static_ranges = nsr; st_static_bytes = s_len;
}
/* no ASan here: the ranges include the red zones between instrumented globals.  Word-wise: about 1.4 MB per process (most of it
 * sanitizer metadata in .data.rel.local, which also holds pointer-initialised statics and therefore stays in) */
__attribute__((no_sanitize_address, no_sanitize_undefined, noinline)) static void statics_take(void) {
  for (unsigned r = 0; r < nsr; r++) {
    const unsigned char *p = (const unsigned char *) SR[r].a; unsigned char *q = s_snap + SR[r].off; size_t i = 0, n = SR[r].n;
    if (!(((uintptr_t) p | (uintptr_t) q) & 7)) for (; i + 8 <= n; i += 8) *(uint64_t *) (q + i) = *(const volatile uint64_t *) (p + i);
    for (; i < n; i++) q[i] = ((const volatile unsigned char *) p)[i];
  }
}
/* returns 1 and describes the first byte that changed for at least the second time in this process */
__attribute__((no_sanitize_address, no_sanitize_undefined, noinline)) static int statics_changed(char *what) {
  int hit = 0;
  st_static_checks++;
  for (unsigned r = 0; r < nsr; r++) {
    const unsigned char *p = (const unsigned char *) SR[r].a; const unsigned char *q = s_snap + SR[r].off; size_t i = 0, n = SR[r].n;
    int aligned = !(((uintptr_t) p | (uintptr_t) q) & 7);
    while (i < n) {
      if (aligned && i + 8 <= n && *(const uint64_t *) (q + i) == *(const volatile uint64_t *) (p + i)) { i += 8; continue; }
      if (q[i] != ((const volatile unsigned char *) p)[i]) {
        if (!s_once[SR[r].off + i]) { s_once[SR[r].off + i] = 1; st_static_first++; }
        else if (!hit) { hit = 1; sprintf(what, "static-write %s+0x%zx", SR[r].obj, i & ~(size_t) 7); }
      }
      i++;
    }
  }
  return hit;
}

static int warmed;
static void warm_up(void);
static void exec_line(const char *line) {
  char res[4200] = "bad-op", w1[64] = "", w2[64] = "", w3[64] = "";
  unsigned long long u = 0;
  st_ops++;
  fprintf(fops, "%s\n", line); fflush(fops);      /* before running it: a crashing op is the last line of the op file */
  if (!warmed) {
    /* the XML back ends are chosen once per process (static caches in topology-xml.c): the choice is the first line of a process */
    if (!strcmp(line, "xmlexport 0")) setenv("HWLOC_LIBXML_EXPORT", "0", 1);
    warm_up(); warmed = 1;
  }
  if (!strncmp(line, "xmlexport ", 10)) {
    strcpy(res, "ok");
  } else if (sscanf(line, "load %llu", &u) == 1) {
    do_load(u, res, 0);
  } else if (sscanf(line, "loadbind %llu", &u) == 1) {
    do_load(u, res, 1); st_loadbind++;
  } else if (sscanf(line, "mods %llu", &u) == 1) {
    if (!T) strcpy(res, "no-topology"); else { do_mods(u); strcpy(res, "ok"); }
  } else if (!strcmp(line, "expect-valid")) {     /* corpus regression op: independent of the exact attribute list */
    if (!T) strcpy(res, "no-topology");
    else if (all_valid(T)) strcpy(res, "valid");
    else { strcpy(res, "invalid "); state_str(T, res + 8); }
  } else if (!strncmp(line, "observe ", 8)) {
    if (!T) strcpy(res, "no-topology"); else if (state_matches(T, line, res)) strcpy(res, "seen");

  } else if (!strncmp(line, "refresh ", 8)) {
    if (!T) strcpy(res, "no-topology");
    else if (state_matches(T, line, res)) {
      int rc = hwloc_topology_refresh(T);
      if (rc) strcpy(res, "refresh-failed"); else state_str(T, res);
      st_refresh++;
    }
  } else if (sscanf(line, "arena %63s %llu", w1, &u) >= 1) {
    if (!T) strcpy(res, "no-topology");
    else if (!all_valid(T)) { arena_drop(); strcpy(res, "no-arena: original not refreshed"); }  /* only when a replay dropped the refresh line */
    else {
      arena_drop();
      TMA.malloc = arena_malloc; TMA.dontfree = 1; TMA.data = NULL;
      if (hwloc__topology_dup(&A, T, &TMA)) { A = NULL; strcpy(res, "dup-failed"); }
      else {
        struct cctx cx = { 0, 1, 0, scratch };
        if (!strcmp(w1, "refreshed")) { hwloc_topology_refresh(A); st_arena_ref++; }
        else if (!strcmp(w1, "partial")) {
          for (unsigned i = 0; i < A->nr_memattrs && i < 31; i++)
            if (u & (1ULL << i)) { cx.id = i; c_memattr_get_targets(A, &cx); c_memattr_get_initiators(A, &cx); }
          if (u & (1ULL << 31)) c_distances_get(A, &cx);
          st_arena_partial++;
        } else st_arena_unref++;
        arena_protect(1);
        strcpy(res, "ok");
      }
    }
  } else if (sscanf(line, "%63s %63s %llu %63s", w1, w2, &u, w3) == 4 && (!strcmp(w1, "call") || !strcmp(w1, "wcall"))) {
    const struct consult_entry *e = find_entry(w2);
    int wr = !strcmp(w1, "wcall");
    hwloc_topology_t t = wr ? T : A;
    if (!e) strcpy(res, "bad-op");
    else if (!t) strcpy(res, wr ? "no-topology" : "no-arena");
    else if (state_matches(t, line, res)) {
      struct cctx cx = { (unsigned) u, atoi(w3), 0, scratch };
      if (wr) {
        e->fn(t, &cx); state_str(t, res); st_wcall++;
      } else {
        unsigned users0 = hwloc_components_users;
        st_calls++;
        statics_take();
        if (sigsetjmp(jb, 1) == 0) {
          armed = 1; e->fn(t, &cx); armed = 0;
          strcpy(res, "ro"); st_ro++;
          { char what[160]; if (statics_changed(what)) strcpy(res, what); }
        } else {
          /* a write (or read) faulted on the read-only copy; nothing was modified */
          while (hwloc_components_users > users0) hwloc_components_fini();   /* an interrupted XML export */
          if (!fault_write) sprintf(res, "read-fault");
          else classify(t, fault_addr, res);
          if (!strncmp(res, "write dist", 10)) st_wdist++; else if (!strncmp(res, "write attr", 10)) st_wattr++; else st_wother++;
        }
      }
    }
  } else if (!strncmp(line, "reg ", 4)) {
    reg_line(line, res);
  } else if (!strncmp(line, "reglive ", 8)) {
    unsigned k = 0; char cur[64]; const char *u = strstr(line, "users=");
    users_str(cur);
    if (sscanf(line, "reglive %u", &k) != 1 || !u) strcpy(res, "bad-op");
    else if (strcmp(u, cur) || k != live_refs()) { sprintf(res, "state-mismatch live=%u %s", live_refs(), cur); st_mismatch++; }
    else { strcpy(res, "consistent"); st_reglive++; }
  } else if (!strcmp(line, "drop")) {
    drop_T(); arena_drop(); strcpy(res, "ok");
  } else if (!strncmp(line, "cinit ", 6) || !strncmp(line, "cfini ", 6)) {
    char cur[64]; users_str(cur);
    if (strcmp(line + 6, cur)) { sprintf(res, "state-mismatch %s", cur); st_mismatch++; }
    else if (line[1] == 'i') { hwloc_components_init(); cinit_out++; users_str(res); st_cinit++; }
    else if (!cinit_out || hwloc_components_users <= (unsigned) ((T ? 1 : 0) + (A ? 1 : 0)) + pool_live()) strcpy(res, "unbalanced");
    else { hwloc_components_fini(); cinit_out--; users_str(res); }
  }
  fprintf(fout, "%s\n", res);
  fflush(fout);
}

/* ------------------------------------------------------------------ generator */
static void emit_call(const char *verb, hwloc_topology_t t) {
  char line[4400], st[4096];
  const struct consult_entry *e = &CONSULT[rng_below(NCONSULT)];
  unsigned id = 0; int ok = 1;
  /* bias towards the entries with a lazy cache */
  if (rng_chance(45)) { do e = &CONSULT[rng_below(NCONSULT)]; while (e->kind == 0); }
  if (e->kind >= 1) ok = !rng_chance(12);
  if (e->kind == 2) id = rng_chance(8) ? t->nr_memattrs + rng_below(3) : rng_below(t->nr_memattrs ? t->nr_memattrs : 1);
  state_str(t, st);
  sprintf(line, "%s %s %u %d %s", verb, e->name, id, ok, st);
  exec_line(line);
}
static void emit_state(const char *prefix, hwloc_topology_t t) {
  char line[4400], st[4096];
  state_str(t, st); sprintf(line, "%s %s", prefix, st); exec_line(line);
}
static void emit_users(const char *verb) {
  char line[128], cur[64];
  users_str(cur); sprintf(line, "%s %s", verb, cur); exec_line(line);
}
static void every_entry(void) {
  /* every consulting entry point once (ok=1), memattr queries on every attribute */
  char line[4400], st[4096];
  for (unsigned i = 0; i < NCONSULT; i++) {
    unsigned nid = CONSULT[i].kind == 2 ? A->nr_memattrs : 1;
    for (unsigned id = 0; id < nid; id++) {
      state_str(A, st); sprintf(line, "call %s %u 1 %s", CONSULT[i].name, id, st); exec_line(line);
    }
  }
}


/* ---- generator of registry histories: a random FEASIBLE op (every choice from the run's rng) */
static int pick_slot(int st1, int st2) {      /* a random pool slot in one of two states, -1 if none */
  int c[NSLOT], n = 0;
  for (int i = 0; i < NSLOT; i++) if (P[i].st == st1 || P[i].st == st2) c[n++] = i;
  return n ? c[rng_below((unsigned) n)] : -1;
}
static int pick_buf(int kind) { int c[NBUF], n = 0; for (int i = 0; i < NBUF; i++) if (X[i].kind == kind) c[n++] = i; return n ? c[rng_below((unsigned) n)] : -1; }
static int pick_diff(int used, int complex) {
  int c[NDIFF], n = 0;
  for (int i = 0; i < NDIFF; i++) if (D[i].used == used && (!used || complex < 0 || D[i].complex == complex)) c[n++] = i;
  return n ? c[rng_below((unsigned) n)] : -1;
}
#define PICK(arr) (arr)[rng_below(sizeof (arr) / sizeof *(arr))]
static int gen_reg_op(char *out) {
  static const char *complexv[] = { "hand-complex-first", "hand-complex-mid", "hand-complex-last", "hand-complex-only" };
  char sa[16] = "-", sb[16] = "-"; const char *op = "", *var = "-"; int a, b, g;
  unsigned w = rng_below(100);
  if (pool_live() >= 3 && rng_chance(10 * pool_live())) w = 40;     /* keep free slots: destroy more often when the pool is full */
#define SA(i) sprintf(sa, "%d", (i))
#define SB(i) sprintf(sb, "%d", (i))
  if (w < 9) { if ((a = pick_slot(S_EMPTY, S_EMPTY)) < 0) return 0; op = "init"; SA(a); }
  else if (w < 20) {
    static const char *v[] = { "synth-ok", "synth-ok", "synth-ok", "synth-bad", "xml-ok", "xml-nofile", "xmlbuf-ok", "xmlbuf-bad", "xmlbuf-loadfail" };
    if ((a = pick_slot(S_INIT, rng_chance(25) ? S_CONF : S_INIT)) < 0) return 0;
    op = "setsrc"; var = PICK(v); SA(a);
    if (!strcmp(var, "synth-ok")) SB((int) rng_below(10));
    if (!strcmp(var, "xml-ok") && !topofile_ok) return 0;
    if (!strcmp(var, "xmlbuf-ok")) { if ((b = pick_buf(1)) < 0) return 0; SB(b); }
  } else if (w < 22) {
    static const char *v[] = { "ok", "unknown", "badflags" };
    if ((a = pick_slot(S_INIT, S_CONF)) < 0) return 0;
    op = "setcomp"; var = PICK(v); SA(a);
  } else if (w < 32) {
    op = "load";
    if (rng_chance(15)) { if ((a = pick_slot(S_LOADED, S_ADOPTED)) < 0) return 0; var = "busy"; }
    else if (rng_chance(4)) { if ((a = pick_slot(S_INIT, S_INIT)) < 0) return 0; var = "native"; }
    else { if ((a = pick_slot(S_CONF, S_CONF)) < 0) return 0; var = P[a].willfail ? "fail" : "ok"; if (P[a].reconf) st_reg_load_reconf++; }
    SA(a);
  } else if (w < 37) {
    op = "dup"; if ((b = pick_slot(S_EMPTY, S_EMPTY)) < 0) return 0; SB(b);
    if (rng_chance(25)) { if ((a = pick_slot(S_INIT, S_CONF)) < 0) return 0; var = "unloaded"; SA(a); }
    else if (T && rng_chance(30)) { var = "ok"; strcpy(sa, "T"); }
    else { if ((a = pick_slot(S_LOADED, S_ADOPTED)) < 0) return 0; var = "ok"; SA(a); }
  } else if (w < 48) {
    int c[NSLOT], n = 0;
    for (int i = 0; i < NSLOT; i++) if (P[i].st != S_EMPTY) c[n++] = i;
    if (!n) return 0;
    a = c[rng_below((unsigned) n)]; op = "destroy"; var = SNAME[P[a].st]; SA(a);
  } else if (w < 54) {
    static const char *v[] = { "buf", "buf", "file", "badflags" };
    if ((a = pick_slot(S_LOADED, S_ADOPTED)) < 0) return 0;
    op = "export"; var = PICK(v); SA(a);
    if (!strcmp(var, "buf")) { if ((b = pick_buf(0)) < 0) return 0; SB(b); }
  } else if (w < 58) {
    int k = rng_chance(50) ? 1 : 2;
    if (!hwloc_components_users || (b = pick_buf(k)) < 0) return 0;
    op = "freebuf"; SB(b);
  } else if (w < 63) {
    static const char *v[] = { "same", "mem", "complex", "complex" };
    if ((a = pick_slot(S_LOADED, S_LOADED)) < 0 || (b = pick_diff(0, -1)) < 0) return 0;
    op = "diffbuild"; var = PICK(v); SA(a); SB(b);
  } else if (w < 80) {
    int file = rng_chance(35), needbuf = 0;
    op = file ? "diffexpfile" : "diffexpbuf";
    switch (rng_below(8)) {
    case 0: var = "empty"; needbuf = 1; break;
    case 1: var = "hand-attrs"; needbuf = 1; break;
    case 2: case 3: var = PICK(complexv); break;
    case 4: case 5: if ((a = pick_diff(1, 1)) < 0) { var = PICK(complexv); break; } var = "slot-complex"; SA(a); break;
    case 6: if ((a = pick_diff(1, 0)) < 0) return 0; var = "slot-ok"; SA(a); needbuf = 1; break;
    default: if (!file) return 0; var = "unwritable"; break;
    }
    if (needbuf && !file) { if ((b = pick_buf(0)) < 0) return 0; SB(b); }
  } else if (w < 87) {
    if (rng_chance(35)) {
      static const char *v[] = { "ok", "nofile", "notdiff" };
      op = "diffloadfile"; var = PICK(v);
      if ((!strcmp(var, "ok") && !difffile_ok) || (!strcmp(var, "notdiff") && !topofile_ok)) return 0;
    } else {
      static const char *v[] = { "ok", "ok", "trunc", "notdiff", "garbage", "empty" };
      op = "diffloadbuf"; var = PICK(v);
      if (!strcmp(var, "ok") || !strcmp(var, "trunc")) { if ((b = pick_buf(2)) < 0) return 0; SB(b); }
      if (!strcmp(var, "notdiff")) { if ((b = pick_buf(1)) < 0) return 0; SB(b); }
    }
  } else if (w < 90) { if ((b = pick_diff(1, -1)) < 0) return 0; op = "diffdestroy"; SB(b); }
  else if (w < 92) { if ((a = pick_slot(S_LOADED, S_LOADED)) < 0) return 0; op = "getlen"; var = rng_chance(50) ? "ok" : "flags"; SA(a); }
  else if (w < 96) {
    static const char *v[] = { "ok", "ok", "ok", "flags", "badfd", "busy" };
    if ((a = pick_slot(S_LOADED, S_LOADED)) < 0 || (g = pick_slot(S_EMPTY, S_EMPTY)) < 0) return 0;
    op = "shmwrite"; var = PICK(v); SA(a); SB(g);
  } else {
    static const char *v[] = { "ok", "ok", "ok", "flags", "badfd", "badlen", "busy" };
    int c[NSLOT], n = 0;
    for (int i = 0; i < NSLOT; i++) if (P[i].st == S_EMPTY && G[i].written) c[n++] = i;
    if (!n) return 0;
    op = "adopt"; var = PICK(v); SB(c[rng_below((unsigned) n)]);
  }
  sprintf(out, "reg %s %s %s %s ", op, var, sa, sb); users_str(out + strlen(out));
  return 1;
}
static void emit_reglive(void) {
  char line[128];
  sprintf(line, "reglive %u ", live_refs()); users_str(line + strlen(line)); exec_line(line);
}
static void reg_history(unsigned n) {
  char line[256];
  if (rng_chance(15))              /* tear the whole pool down: the following ops start from (possibly) an empty registry */
    for (int i = 0; i < NSLOT; i++) if (P[i].st != S_EMPTY) {
      sprintf(line, "reg destroy %s %d - ", SNAME[P[i].st], i); users_str(line + strlen(line)); exec_line(line);
    }
  for (unsigned i = 0, tries = 0; i < n && tries < 40 * n; tries++) {
    if (!gen_reg_op(line)) continue;
    exec_line(line); i++;
    if (rng_chance(12)) emit_reglive();
  }
  emit_reglive();
}

static void episode(uint64_t eseed) {
  char line[128];
  unsigned nc;
  int bind = nxml && rng_chance(10);
  sprintf(line, "%s %llu", bind ? "loadbind" : "load", (unsigned long long) eseed); exec_line(line);
  if (!T) return;
  emit_state("observe after-load", T);
  if (rng_chance(50)) reg_history(2 + rng_below(6));       /* T alive: loaded, unmodified */
  if (rng_chance(15)) {            /* straight after load: a refreshed-by-load topology */
    exec_line("arena unrefreshed");
    nc = 4 + rng_below(6); for (unsigned i = 0; i < nc; i++) emit_call("call", A);
  }
  sprintf(line, "mods %llu", (unsigned long long) eseed); exec_line(line);
  emit_state("observe after-mod", T);
  nc = rng_below(4);
  for (unsigned i = 0; i < nc; i++) emit_call("wcall", T);
  if (rng_chance(30)) { sprintf(line, "mods %llu", (unsigned long long) eseed + 77); exec_line(line); }
  if (rng_chance(35)) reg_history(2 + rng_below(5));       /* T alive: modified, unrefreshed */
  emit_state("refresh", T);
  emit_state("observe after-refresh", T);
  /* positive: refreshed copy, every entry point */
  exec_line("arena refreshed");
  every_entry();
  if (rng_chance(50)) reg_history(2 + rng_below(6));       /* T and its read-only copy A alive */
  nc = 6 + rng_below(10); for (unsigned i = 0; i < nc; i++) emit_call("call", A);
  /* negative control / partial validity */
  if (rng_chance(50)) exec_line("arena unrefreshed");
  else { sprintf(line, "arena partial %llu", (unsigned long long) (rng_next() & 0xffffffffULL)); exec_line(line); }
  if (rng_chance(35)) every_entry();
  nc = 8 + rng_below(12); for (unsigned i = 0; i < nc; i++) emit_call("call", A);
  if (rng_chance(40)) {
    unsigned k = 1 + rng_below(3);
    if (rng_chance(50)) exec_line("drop");       /* from an empty registry: the initialising / destroying paths */
    for (unsigned i = 0; i < k; i++) emit_users("cinit");
    if (rng_chance(50)) reg_history(1 + rng_below(5));     /* bare registry references outstanding */
    for (unsigned i = 0; i < k; i++) emit_users("cfini");
  }
  if (rng_chance(30)) exec_line("drop");
  reg_history(3 + rng_below(8));                           /* possibly nothing but the pool alive (users may be 0) */
}

static void warm_up(void) {
  /* initialise every function-local static environment cache once (cold start = known finding F15) */
  statics_setup();
  hwloc_topology_t t, t2; char *buf; int len;
  hwloc_topology_init(&t); hwloc_topology_set_synthetic(t, "numa:2 core:2 pu:2"); hwloc_topology_load(t);
  if (!hwloc_topology_export_xmlbuffer(t, &buf, &len, 0)) {
    hwloc_topology_init(&t2); hwloc_topology_set_xmlbuffer(t2, buf, len); hwloc_topology_load(t2); hwloc_topology_destroy(t2);
    hwloc_free_xmlbuffer(t, buf);
  }
  hwloc_topology_export_xml(t, scratch, 0);
  hwloc_topology_destroy(t);
}

int main(int argc, char **argv) {
  struct sigaction sa;
  if (argc < 4) { fprintf(stderr, "usage: readonly <nops> <ops> <out> <stats> | --replay <ops> <out>\n"); return 2; }
  arena = mmap(NULL, ARENA_SIZE, PROT_READ | PROT_WRITE, MAP_PRIVATE | MAP_ANONYMOUS | MAP_NORESERVE, -1, 0);
  if (arena == MAP_FAILED) { perror("mmap"); return 2; }
  memset(&sa, 0, sizeof sa); sa.sa_sigaction = on_segv; sa.sa_flags = SA_SIGINFO | SA_NODEFER; sigemptyset(&sa.sa_mask);
  sigaction(SIGSEGV, &sa, NULL);
  scan_xml();
  replaying = !strcmp(argv[1], "--replay");
  snprintf(scratch, sizeof scratch, "%s.scratch.xml", argv[3]);
  reg_setup(argv[3]);
  if (replaying) {
    FILE *in = fopen(argv[2], "r"); char line[8192], eff[600];
    if (!in) { perror(argv[2]); return 2; }
    strcpy(eff, "/dev/null");
    fops = fopen(eff, "w"); fout = fopen(argv[3], "w");
    while (fgets(line, sizeof line, in)) {
      line[strcspn(line, "\r\n")] = 0;
      if (!line[0] || line[0] == '#') continue;
      exec_line(line);
    }
    fclose(in);
  } else {
    unsigned long nops = strtoul(argv[1], NULL, 0);
    uint64_t seed = rng_seed_from_env();
    rng_seed(seed);
    fops = fopen(argv[2], "w"); fout = fopen(argv[3], "w");
    exec_line((seed >> 3) & 1 ? "xmlexport 0" : "xmlexport 1");     /* half of the processes export through the built-in back end */
    while (st_ops < nops) episode(rng_next() % 1000000007ULL);
  }
  if (!warmed) { warm_up(); warmed = 1; }
  pool_cleanup(); drop_T(); arena_drop();
  while (cinit_out) { hwloc_components_fini(); cinit_out--; }     /* a shrunk replay may have lost its cfini lines */
  { char r[64]; users_str(r); if (strcmp(r, "users=0 reg=0")) { fprintf(stderr, "registry not torn down at exit: %s\n", r); return 3; } }
  fclose(fops); fclose(fout); unlink(scratch);
  if (!replaying && argc > 4) {
    FILE *f = fopen(argv[4], "w");
#define S(n) fprintf(f, #n " %lu\n", st_##n)
    S(ops); S(load); S(load_xml); S(load_synth); S(mods); S(calls); S(ro); S(wdist); S(wattr); S(wother); S(wcall); S(refresh);
    S(arena_ref); S(arena_unref); S(arena_partial); S(cinit); S(dists); S(attrs_user); S(restrict); S(mismatch); S(loadbind); S(loadflags);
    S(reg); S(reg_err); S(reg_toocomplex); S(reg_with_T); S(reg_with_A); S(reg_users0); S(reg_pool_inited); S(reg_pool_configured);
    S(reg_pool_loaded); S(reg_pool_adopted); S(reg_pool_failed); S(reglive); S(reg_noslot); S(reg_init); S(reg_destroy); S(reg_dup);
    S(static_ranges); S(static_bytes); S(static_first); S(static_checks);
    S(reg_setsrc); S(reg_load); S(reg_export); S(reg_diffbuild); S(reg_diffexp); S(reg_diffload); S(reg_shmem); S(reg_adopt_ok); S(reg_load_reconf); S(reg_free_users0);
    fclose(f);
  }
  return 0;
}
