/* C12: recording allocator + exhaustive pointer walk of a struct hwloc_topology (provenance check).
 * Included by h_dup.c AFTER private/private.h and bitmap.c (for struct hwloc_bitmap_s).
 *
 * walk_topology() visits every pointer FIELD reachable from a topology:
 *   own(p,size)  the field owns the block starting at p (freed through this field by hwloc_topology_destroy)
 *   ref(p,size)  the field points into a block owned through another field (object pointers: parent, cousins, caches...)
 * mode W_COLLECT: record [p,p+size) of every owned block (used on the ORIGINAL topology)
 * mode W_CHECK:   every owned block must be exactly one block handed out by the recording allocator, owned once;
 *                 every ref must lie inside such a block; nothing may lie inside a range collected from the original;
 *                 afterwards every allocator block must have been reached (else: leak inside dup, or walker gap).
 * Exceptions by contract: obj->userdata (copied verbatim), NULL, function pointers, topology->tma.
 */
#ifndef VERIF_DUP_WALK_H
#define VERIF_DUP_WALK_H
#include <stdarg.h>

struct rec_block { char *p; size_t size; int owned; };
struct rec { struct rec_block *b; unsigned n, cap; int sorted; };

static void *rec_malloc(struct hwloc_tma *tma, size_t len) {
  struct rec *r = tma->data;
  void *p = malloc(len);
  if (!p) return NULL;
  if (r->n == r->cap) { r->cap = r->cap ? 2 * r->cap : 1024; r->b = realloc(r->b, r->cap * sizeof(*r->b)); }
  r->b[r->n].p = p; r->b[r->n].size = len; r->b[r->n].owned = 0; r->n++;
  r->sorted = 0;
  return p;
}
static int rec_cmp(const void *a, const void *b) {
  const struct rec_block *x = a, *y = b;
  return x->p < y->p ? -1 : x->p > y->p ? 1 : 0;
}
static void rec_sort(struct rec *r) { if (!r->sorted) { qsort(r->b, r->n, sizeof(*r->b), rec_cmp); r->sorted = 1; } }
/* block containing [p,p+size) or NULL (rec_sort first) */
static struct rec_block *rec_find(struct rec *r, const void *p, size_t size) {
  unsigned lo = 0, hi = r->n;
  const char *q = p;
  while (lo < hi) { unsigned mid = (lo + hi) / 2; if (r->b[mid].p <= q) lo = mid + 1; else hi = mid; }
  /* candidates: blocks with base <= q; zero-size blocks may share... (malloc(0) blocks are distinct in glibc) */
  while (lo > 0) {
    struct rec_block *b = &r->b[lo - 1];
    if (q >= b->p && q + size <= b->p + b->size) return b;
    if (b->size) break;          /* only skip over zero-sized neighbours */
    lo--;
  }
  return NULL;
}

struct range { const char *s, *e; };
struct rangeset { struct range *r; unsigned n, cap; };
static void rs_add(struct rangeset *s, const void *p, size_t size) {
  if (!size) return;
  if (s->n == s->cap) { s->cap = s->cap ? 2 * s->cap : 1024; s->r = realloc(s->r, s->cap * sizeof(*s->r)); }
  s->r[s->n].s = p; s->r[s->n].e = (const char *) p + size; s->n++;
}
static int rs_cmp(const void *a, const void *b) {
  const struct range *x = a, *y = b;
  return x->s < y->s ? -1 : x->s > y->s ? 1 : 0;
}
static void rs_sort(struct rangeset *s) { qsort(s->r, s->n, sizeof(*s->r), rs_cmp); }
/* does [p,p+size) (size>=1 assumed for the test) intersect a collected range? */
static int rs_hits(struct rangeset *s, const void *p, size_t size) {
  const char *q = p, *qe = q + (size ? size : 1);
  unsigned lo = 0, hi = s->n;
  while (lo < hi) { unsigned mid = (lo + hi) / 2; if (s->r[mid].s < qe) lo = mid + 1; else hi = mid; }
  /* ranges [0,lo) start before qe; ranges come from distinct live malloc blocks, so only the last one can reach q */
  for (unsigned k = lo; k > 0 && k + 4 > lo; k--) if (s->r[k - 1].e > q) return 1;
  return 0;
}

enum wmode { W_COLLECT, W_CHECK };
struct wctx {
  enum wmode mode;
  struct rangeset *old;     /* COLLECT: filled; CHECK: consulted */
  struct rec *rec;          /* CHECK only */
  unsigned nviol;
  unsigned long nown, nref;
  char first[400];
  /* path of the current owner */
  const char *okind; unsigned long long oid;
};

static void w_viol(struct wctx *c, const char *what, const char *field, long idx) {
  if (!c->nviol) {
    if (idx >= 0) snprintf(c->first, sizeof c->first, "%s:%s[%llu].%s[%ld]", what, c->okind, c->oid, field, idx);
    else snprintf(c->first, sizeof c->first, "%s:%s[%llu].%s", what, c->okind, c->oid, field);
    for (char *s = c->first; *s; s++) if (*s == ' ') *s = '_';
  }
  c->nviol++;
}
static void w_own(struct wctx *c, const void *p, size_t size, const char *field, long idx) {
  if (!p) return;
  c->nown++;
  if (c->mode == W_COLLECT) { rs_add(c->old, p, size); return; }
  struct rec_block *b = rec_find(c->rec, p, size);
  if (!b) w_viol(c, "not-from-allocator", field, idx);
  else if (b->p != (const char *) p) w_viol(c, "owned-pointer-inside-block", field, idx);
  else if (b->owned) w_viol(c, "block-owned-twice", field, idx);
  else b->owned = 1;
  if (rs_hits(c->old, p, size)) w_viol(c, "shared-with-original", field, idx);
}
static void w_ref(struct wctx *c, const void *p, size_t size, const char *field, long idx) {
  if (!p) return;
  c->nref++;
  if (c->mode == W_COLLECT) return;
  if (!rec_find(c->rec, p, size)) w_viol(c, "ref-not-into-allocator-block", field, idx);
  if (rs_hits(c->old, p, size)) w_viol(c, "ref-into-original", field, idx);
}
static void w_null(struct wctx *c, const void *p, const char *field) {
  if (c->mode == W_CHECK && p) w_viol(c, "expected-NULL", field, -1);
}

static void walk_bitmap(struct wctx *c, hwloc_const_bitmap_t b, const char *field, long idx) {
  char f2[64];
  if (!b) return;
  w_own(c, b, sizeof(struct hwloc_bitmap_s), field, idx);
  snprintf(f2, sizeof f2, "%s->ulongs", field);
  w_own(c, b->ulongs, b->ulongs_allocated * sizeof(unsigned long), f2, idx);
}
static void walk_infos(struct wctx *c, const struct hwloc_infos_s *in, const char *field) {
  char f2[64];
  if (!in->array) return;
  snprintf(f2, sizeof f2, "%s.array", field);
  w_own(c, in->array, in->allocated * sizeof(*in->array), f2, -1);
  for (unsigned i = 0; i < in->count; i++) {
    snprintf(f2, sizeof f2, "%s.name", field);
    if (in->array[i].name) w_own(c, in->array[i].name, strlen(in->array[i].name) + 1, f2, i);
    snprintf(f2, sizeof f2, "%s.value", field);
    if (in->array[i].value) w_own(c, in->array[i].value, strlen(in->array[i].value) + 1, f2, i);
  }
}
#define OBJSZ sizeof(struct hwloc_obj)
static void walk_obj(struct wctx *c, hwloc_obj_t o, unsigned *budget) {
  hwloc_obj_t ch;
  if (!*budget) return;
  (*budget)--;
  c->okind = "obj.gp"; c->oid = o->gp_index;
  w_own(c, o, OBJSZ, "<self>", -1);
  if (o->subtype) w_own(c, o->subtype, strlen(o->subtype) + 1, "subtype", -1);
  if (o->name) w_own(c, o->name, strlen(o->name) + 1, "name", -1);
  if (o->attr) {
    w_own(c, o->attr, sizeof(*o->attr), "attr", -1);
    if (o->type == HWLOC_OBJ_NUMANODE && o->attr->numanode.page_types)
      w_own(c, o->attr->numanode.page_types, o->attr->numanode.page_types_len * sizeof(struct hwloc_memory_page_type_s), "attr->numanode.page_types", -1);
  }
  walk_bitmap(c, o->cpuset, "cpuset", -1);
  walk_bitmap(c, o->complete_cpuset, "complete_cpuset", -1);
  walk_bitmap(c, o->nodeset, "nodeset", -1);
  walk_bitmap(c, o->complete_nodeset, "complete_nodeset", -1);
  walk_infos(c, &o->infos, "infos");
  if (o->children) {
    w_own(c, o->children, o->arity * sizeof(*o->children), "children", -1);
    for (unsigned i = 0; i < o->arity; i++) w_ref(c, o->children[i], OBJSZ, "children", i);
  }
  w_ref(c, o->parent, OBJSZ, "parent", -1);
  w_ref(c, o->next_cousin, OBJSZ, "next_cousin", -1);
  w_ref(c, o->prev_cousin, OBJSZ, "prev_cousin", -1);
  w_ref(c, o->next_sibling, OBJSZ, "next_sibling", -1);
  w_ref(c, o->prev_sibling, OBJSZ, "prev_sibling", -1);
  w_ref(c, o->first_child, OBJSZ, "first_child", -1);
  w_ref(c, o->last_child, OBJSZ, "last_child", -1);
  w_ref(c, o->memory_first_child, OBJSZ, "memory_first_child", -1);
  w_ref(c, o->io_first_child, OBJSZ, "io_first_child", -1);
  w_ref(c, o->misc_first_child, OBJSZ, "misc_first_child", -1);
  /* userdata: copied verbatim by contract, not walked */
  unsigned k;
  for (ch = o->first_child, k = 0; ch && k < 1000000; ch = ch->next_sibling, k++) walk_obj(c, ch, budget);
  for (ch = o->memory_first_child, k = 0; ch && k < 1000000; ch = ch->next_sibling, k++) walk_obj(c, ch, budget);
  for (ch = o->io_first_child, k = 0; ch && k < 1000000; ch = ch->next_sibling, k++) walk_obj(c, ch, budget);
  for (ch = o->misc_first_child, k = 0; ch && k < 1000000; ch = ch->next_sibling, k++) walk_obj(c, ch, budget);
}

static void walk_topology(struct wctx *c, struct hwloc_topology *t) {
  unsigned budget = 4000000;
  c->okind = "topology"; c->oid = 0;
  w_own(c, t, sizeof(*t), "<self>", -1);
  w_own(c, t->level_nbobjects, t->nb_levels_allocated * sizeof(*t->level_nbobjects), "level_nbobjects", -1);
  w_own(c, t->levels, t->nb_levels_allocated * sizeof(*t->levels), "levels", -1);
  for (unsigned l = 0; l < t->nb_levels; l++) {
    w_own(c, t->levels[l], t->level_nbobjects[l] * sizeof(hwloc_obj_t), "levels[]", l);
    for (unsigned i = 0; i < t->level_nbobjects[l]; i++) w_ref(c, t->levels[l][i], OBJSZ, "levels[][]", i);
  }
  for (unsigned l = 0; l < HWLOC_NR_SLEVELS; l++) {
    if (t->slevels[l].objs) {
      w_own(c, t->slevels[l].objs, t->slevels[l].nbobjs * sizeof(hwloc_obj_t), "slevels[].objs", l);
      for (unsigned i = 0; i < t->slevels[l].nbobjs; i++) w_ref(c, t->slevels[l].objs[i], OBJSZ, "slevels[].objs[]", i);
    }
    if (c->mode == W_CHECK) {   /* first/last are stale temporaries in a loaded topology, only meaningful in the copy */
      w_ref(c, t->slevels[l].first, OBJSZ, "slevels[].first", l);
      w_ref(c, t->slevels[l].last, OBJSZ, "slevels[].last", l);
    }
  }
  walk_bitmap(c, t->allowed_cpuset, "allowed_cpuset", -1);
  walk_bitmap(c, t->allowed_nodeset, "allowed_nodeset", -1);
  w_own(c, t->support.discovery, sizeof(*t->support.discovery), "support.discovery", -1);
  w_own(c, t->support.cpubind, sizeof(*t->support.cpubind), "support.cpubind", -1);
  w_own(c, t->support.membind, sizeof(*t->support.membind), "support.membind", -1);
  w_own(c, t->support.misc, sizeof(*t->support.misc), "support.misc", -1);
  walk_infos(c, &t->infos, "infos");
  w_null(c, t->userdata, "userdata");
  w_null(c, t->adopted_shmem_addr, "adopted_shmem_addr");
  w_null(c, t->backends, "backends");
  w_null(c, t->get_pci_busid_cpuset_backend, "get_pci_busid_cpuset_backend");
  w_null(c, t->machine_memory.page_types, "machine_memory.page_types");
  w_null(c, t->pci_forced_locality, "pci_forced_locality");
  w_null(c, t->blacklisted_components, "blacklisted_components");
  w_null(c, t->first_pci_locality, "first_pci_locality");
  w_null(c, t->last_pci_locality, "last_pci_locality");
  /* distances */
  {
    struct hwloc_internal_distances_s *d, *prev = NULL; unsigned k = 0;
    for (d = t->first_dist; d && k < 100000; prev = d, d = d->next, k++) {
      c->okind = "dist.id"; c->oid = d->id;
      w_own(c, d, sizeof(*d), "<self>", -1);
      if (d->name) w_own(c, d->name, strlen(d->name) + 1, "name", -1);
      w_own(c, d->different_types, d->nbobjs * sizeof(*d->different_types), "different_types", -1);
      w_own(c, d->indexes, d->nbobjs * sizeof(*d->indexes), "indexes", -1);
      w_own(c, d->values, (size_t) d->nbobjs * d->nbobjs * sizeof(*d->values), "values", -1);
      w_own(c, d->objs, d->nbobjs * sizeof(*d->objs), "objs", -1);
      if (c->mode == W_CHECK && d->objs)   /* cached object pointers: in a fresh copy all NULL; if set they must point into the copy */
        for (unsigned i = 0; i < d->nbobjs; i++) w_ref(c, d->objs[i], OBJSZ, "objs", i);
      if (c->mode == W_CHECK && d->prev != prev) w_viol(c, "bad-prev-link", "prev", -1);
      w_ref(c, d->prev, sizeof(*d), "prev", -1);
      w_ref(c, d->next, sizeof(*d), "next", -1);
    }
    c->okind = "topology"; c->oid = 0;
    if (c->mode == W_CHECK && t->last_dist != prev) w_viol(c, "bad-last_dist", "last_dist", -1);
    w_ref(c, t->first_dist, sizeof(*d), "first_dist", -1);
    w_ref(c, t->last_dist, sizeof(*d), "last_dist", -1);
  }
  /* memattrs */
  c->okind = "topology"; c->oid = 0;
  w_own(c, t->memattrs, t->nr_memattrs * sizeof(*t->memattrs), "memattrs", -1);
  for (unsigned id = 0; t->memattrs && id < t->nr_memattrs; id++) {
    struct hwloc_internal_memattr_s *m = &t->memattrs[id];
    c->okind = "memattr"; c->oid = id;
    if (m->iflags & HWLOC_IMATTR_FLAG_STATIC_NAME) {
      if (c->mode == W_CHECK) w_viol(c, "static-name-kept(points to a literal, never freed)", "name", -1);
    } else if (m->name) w_own(c, m->name, strlen(m->name) + 1, "name", -1);
    if (!m->targets) continue;
    w_own(c, m->targets, m->nr_targets * sizeof(*m->targets), "targets", -1);
    for (unsigned j = 0; j < m->nr_targets; j++) {
      struct hwloc_internal_memattr_target_s *tg = &m->targets[j];
      if (c->mode == W_CHECK) w_ref(c, tg->obj, OBJSZ, "targets[].obj", j);
      if (!tg->initiators) continue;
      w_own(c, tg->initiators, tg->nr_initiators * sizeof(*tg->initiators), "targets[].initiators", j);
      for (unsigned k = 0; k < tg->nr_initiators; k++) {
        struct hwloc_internal_memattr_initiator_s *im = &tg->initiators[k];
        if (im->initiator.type == HWLOC_LOCATION_TYPE_CPUSET) walk_bitmap(c, im->initiator.location.cpuset, "targets[].initiators[].cpuset", k);
        else if (im->initiator.type == HWLOC_LOCATION_TYPE_OBJECT && c->mode == W_CHECK) w_ref(c, im->initiator.location.object.obj, OBJSZ, "targets[].initiators[].obj", k);
      }
    }
  }
  /* cpukinds */
  c->okind = "topology"; c->oid = 0;
  if (t->cpukinds) w_own(c, t->cpukinds, t->nr_cpukinds_allocated * sizeof(*t->cpukinds), "cpukinds", -1);
  for (unsigned i = 0; t->cpukinds && i < t->nr_cpukinds; i++) {
    c->okind = "cpukind"; c->oid = i;
    walk_bitmap(c, t->cpukinds[i].cpuset, "cpuset", -1);
    walk_infos(c, &t->cpukinds[i].infos, "infos");
  }
  /* objects: ownership follows the tree, starting at the root */
  if (t->levels && t->levels[0] && t->levels[0][0]) walk_obj(c, t->levels[0][0], &budget);
}

/* after a CHECK walk: every allocator block must have been reached through an owning field */
static unsigned rec_unreached(struct rec *r, size_t *first_size) {
  unsigned n = 0;
  for (unsigned i = 0; i < r->n; i++) if (!r->b[i].owned) { if (!n && first_size) *first_size = r->b[i].size; n++; }
  return n;
}
#endif
