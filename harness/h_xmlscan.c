/* C06 harness (engine `xmlscan`): the static callbacks of hwloc/topology-xml-nolibxml.c run on byte
 * buffers (exact-size heap blocks, so that ASan sees 1-byte overruns) under a scripted consumer.
 *
 * usage: xmlscan <nops> <ops-out> <c-out> <stats-out>      (seed = VERIF_SEED, sources = VERIF_XML_SOURCES)
 *        xmlscan --replay <ops> <c-out>
 *
 * op lines (answers: see the driver lean/Driver/XmlScan.lean, the formats are identical):
 *   buf <hex|.>            new session: hwloc_nolibxml_backend_init(copy of the bytes, n)   (n = 0: must be refused)
 *   bufn <len>             hwloc_nolibxml_backend_init with xmlbuflen = <len> <= 0: must be refused
 *   init                   hwloc_nolibxml_look_init -> frame 0
 *   A <f> | F <f> | T <f> | C <f> | G <f> <len> | K <f>
 *                          next_attr / find_child / close_tag / close_child / get_content / close_content
 *   dist <nbobjs> <n children> { i|v <hexcontent> }...    whole-loader run of one <distances2> element
 * An op outside the consumer state machine (close_content without a preceding successful get_content, close_child on the root
 * state, ...) is answered `illegal` by both sides and not executed.  Every other op is executed: any sanitizer report is a violation.
 */
#include "topology-xml-nolibxml.c"
#include "rng.h"
#include <stdarg.h>
#include <sys/wait.h>
#include <fcntl.h>

static FILE *fops, *fout;
static unsigned long stats[32];
enum { S_BUF, S_INIT_OK, S_INIT_FAIL, S_ATTR_OK, S_ATTR_FAIL, S_ATTR_ESC, S_CHILD1, S_CHILD0, S_CHILD_FAIL,
       S_CLOSED_TAG, S_CLOSETAG_OK, S_CLOSETAG_FAIL, S_CONTENT1, S_CONTENT0, S_CONTENT_FAIL, S_CLOSECONTENT, S_CLOSECHILD,
       S_DOC_VALID, S_DOC_V2, S_DOC_MUT, S_DOC_TRUNC, S_DOC_RANDOM, S_DOC_FILE, S_DIST_OK, S_DIST_FAIL, S_NB };
static const char *stat_names[] = { "buffers", "init.ok", "init.fail", "attr.ok", "attr.fail", "attr.unescaped", "child.found",
       "child.none", "child.fail", "child.autoclosed", "closetag.ok", "closetag.fail", "content.1", "content.0", "content.fail",
       "closecontent", "closechild", "doc.valid", "doc.v2", "doc.mutant", "doc.truncated", "doc.random", "doc.file", "dist.ok", "dist.fail" };

/* ---------------- session ---------------- */
#define MAXF 4096
static struct hwloc_xml_backend_data_s bdata;
static struct hwloc__xml_import_state_s *frames[MAXF];
static int content_open[MAXF];
static unsigned nframes;
static char *base; static size_t blen;
static int have_session;

static void session_end(void) {
  if (have_session) { hwloc_nolibxml_backend_exit(&bdata); have_session = 0; }
  for (unsigned i = 0; i < nframes; i++) free(frames[i]);
  nframes = 0; base = NULL; blen = 0;
}

static uint64_t bufhash(void) {
  uint64_t h = 0xcbf29ce484222325ULL;
  for (size_t i = 0; i < blen; i++) { h ^= (unsigned char) base[i]; h *= 0x100000001b3ULL; }
  return h;
}
static void put_hex_str(const char *s) { /* NUL-terminated string inside the buffer (or a constant) */
  if (!*s) { fputc('.', fout); return; }
  for (; *s; s++) fprintf(fout, "%02x", (unsigned char) *s);
}
static void put_buf(void) {
  if (blen <= 48) { fprintf(fout, " B="); for (size_t i = 0; i < blen; i++) fprintf(fout, "%02x", (unsigned char) base[i]); }
  else fprintf(fout, " H=%016llx", (unsigned long long) bufhash());
}
static void put_off(const char *key, const char *p) {
  if (!p) fprintf(fout, " %s=-", key); else fprintf(fout, " %s=%ld", key, (long) (p - base));
}
#define NS(f) ((hwloc__nolibxml_import_state_data_t) (void *) frames[f]->data)

static int hexval(int c) { return c >= '0' && c <= '9' ? c - '0' : c >= 'a' && c <= 'f' ? c - 'a' + 10 : -1; }

static int do_dist(char *args);

/* executes one op line, prints exactly one answer line; returns the primary return value (for the generator) */
static long last_new; static long last_ret; static const char *last_tag;
static void exec_op(char *line) {
  char op[16]; unsigned f = 0; unsigned long len = 0; int pos = 0;
  last_ret = -2; last_new = -1; last_tag = NULL;
  if (sscanf(line, "%15s%n", op, &pos) < 1) { fprintf(fout, "bad-op\n"); return; }
  if (!strcmp(op, "buf") || !strcmp(op, "bufn")) {
    int p2 = 0; long neg = 0; size_t n;
    session_end();
    const char *hx = line + pos; while (*hx == ' ') hx++;
    if (!strcmp(op, "bufn")) { if (sscanf(hx, "%ld", &neg) < 1 || neg > 0) { fprintf(fout, "bad-op\n"); return; } n = 0; }
    else { n = strlen(hx) / 2; if (hx[0] == '.') n = 0; else if (!n || strlen(hx) % 2) { fprintf(fout, "bad-op\n"); return; } }
    (void) p2;
    char *src = malloc(n ? n : 1);
    for (size_t i = 0; i < n; i++) src[i] = (char) (hexval(hx[2 * i]) * 16 + hexval(hx[2 * i + 1]));
    memset(&bdata, 0, sizeof bdata); bdata.msgprefix = (char *) "h";
    int r = hwloc_nolibxml_backend_init(&bdata, NULL, src, n ? (int) n : (int) neg);
    free(src);
    if (r < 0) { fprintf(fout, "buf r=-1\n"); return; }
    have_session = 1;
    base = ((struct hwloc__nolibxml_backend_data_s *) bdata.data)->buffer; blen = n;
    stats[S_BUF]++;
    fprintf(fout, "buf r=0 n=%zu\n", n);
    return;
  }
  if (!strcmp(op, "dist")) { do_dist(line + pos); return; }
  if (!have_session) { fprintf(fout, "nosession\n"); return; }
  if (!strcmp(op, "init")) {
    if (nframes) { fprintf(fout, "illegal\n"); return; }
    frames[0] = calloc(1, sizeof(**frames)); frames[0]->global = &bdata;
    int r = hwloc_nolibxml_look_init(&bdata, frames[0]);
    last_ret = r;
    if (r < 0) { free(frames[0]); stats[S_INIT_FAIL]++; fprintf(fout, "init r=-1\n"); return; }
    nframes = 1; content_open[0] = 0; stats[S_INIT_OK]++;
    fprintf(fout, "init r=0 ver=%u.%u", bdata.version_major, bdata.version_minor);
    put_off("tb", NS(0)->tagbuffer); fprintf(fout, " name="); put_hex_str(NS(0)->tagname); fputc('\n', fout);
    return;
  }
  if (sscanf(line + pos, "%u %lu", &f, &len) < 1) { fprintf(fout, "bad-op\n"); return; }
  if (f >= nframes) { fprintf(fout, "badframe\n"); return; }
  if (!strcmp(op, "A")) {
    char *name = NULL, *value = NULL;
    int r = hwloc__nolibxml_import_next_attr(frames[f], &name, &value);
    last_ret = r;
    fprintf(fout, "A r=%d", r);
    if (r == 0) { fprintf(fout, " name="); put_hex_str(name); fprintf(fout, " value="); put_hex_str(value);
      stats[S_ATTR_OK]++; if (value[strcspn(value, "\n\r\t\"<>&")]) stats[S_ATTR_ESC]++; }
    else stats[S_ATTR_FAIL]++;
    put_off("ab", NS(f)->attrbuffer); put_buf(); fputc('\n', fout);
  } else if (!strcmp(op, "F")) {
    if (nframes >= MAXF) { fprintf(fout, "illegal\n"); return; }
    struct hwloc__xml_import_state_s *c = calloc(1, sizeof(*c)); char *tag = NULL;
    int r = hwloc__nolibxml_import_find_child(frames[f], c, &tag);
    last_ret = r;
    fprintf(fout, "F r=%d", r);
    if (r == 1) {
      hwloc__nolibxml_import_state_data_t nc = (void *) c->data;
      frames[nframes] = c; content_open[nframes] = 0; last_new = nframes; last_tag = tag;
      fprintf(fout, " tag="); put_hex_str(tag); fprintf(fout, " new=%u", nframes);
      put_off("tb", nc->tagbuffer); put_off("ab", nc->attrbuffer); fprintf(fout, " closed=%d", nc->closed);
      if (nc->closed) stats[S_CLOSED_TAG]++;
      nframes++; stats[S_CHILD1]++;
    } else { free(c); stats[r == 0 ? S_CHILD0 : S_CHILD_FAIL]++; }
    put_buf(); fputc('\n', fout);
  } else if (!strcmp(op, "T")) {
    int r = hwloc__nolibxml_import_close_tag(frames[f]);
    last_ret = r; content_open[f] = 0;
    stats[r == 0 ? S_CLOSETAG_OK : S_CLOSETAG_FAIL]++;
    fprintf(fout, "T r=%d", r); put_off("tb", NS(f)->tagbuffer); put_buf(); fputc('\n', fout);
  } else if (!strcmp(op, "C")) {
    if (!frames[f]->parent) { fprintf(fout, "illegal\n"); return; }
    hwloc__nolibxml_import_close_child(frames[f]);
    unsigned p; for (p = 0; p < nframes; p++) if (frames[p] == frames[f]->parent) break;
    content_open[p] = 0; stats[S_CLOSECHILD]++;
    fprintf(fout, "C parent=%u", p); put_off("tb", ((hwloc__nolibxml_import_state_data_t) (void *) frames[f]->parent->data)->tagbuffer); fputc('\n', fout);
  } else if (!strcmp(op, "G")) {
    const char *begin = NULL;
    int r = hwloc__nolibxml_import_get_content(frames[f], &begin, (size_t) len);
    last_ret = r;
    fprintf(fout, "G r=%d", r);
    if (r == 1) { content_open[f] = 1; fprintf(fout, " content="); put_hex_str(begin); put_off("at", begin); stats[S_CONTENT1]++; }
    else stats[r == 0 ? S_CONTENT0 : S_CONTENT_FAIL]++;
    put_off("tb", NS(f)->tagbuffer); put_buf(); fputc('\n', fout);
  } else if (!strcmp(op, "K")) {
    if (!NS(f)->closed && !content_open[f]) { fprintf(fout, "illegal\n"); return; }
    hwloc__nolibxml_import_close_content(frames[f]);
    content_open[f] = 0; stats[S_CLOSECONTENT]++;
    fprintf(fout, "K"); put_buf(); fputc('\n', fout);
  } else fprintf(fout, "bad-op\n");
}

static unsigned long nops, total_limit, doc_limit;
#define MORE() (nops < doc_limit && nops < total_limit)
static void emit(const char *fmt, ...) {
  static char line[1 << 20];
  nops++;
  va_list ap; va_start(ap, fmt); vsnprintf(line, sizeof line, fmt, ap); va_end(ap);
  fprintf(fops, "%s\n", line); fflush(fops);
  exec_op(line); fflush(fout);
}

/* ---------------- whole-loader distances probe (tie of the fillAll model) ---------------- */
/* dist <nbobjs> <k> then k groups "<i|v> <hexcontent>": builds a v3 document with 4 PUs and one <distances2 type="PU" indexing="os"
 * kind="5" name="x" nbobjs=..> with those children, loads it with the nolibxml back end through the public API;
 * answer: "dist r=<load>" + (if a PU distances structure exists) " n=<nbobjs> idx=<os indexes> val=<values>" */
static int do_dist(char *args) {
  static char doc[1 << 16]; char kind[8]; unsigned nb = 0, k = 0; int pos = 0, off = 0;
  if (sscanf(args, "%u %u%n", &nb, &k, &pos) < 2) { fprintf(fout, "bad-op\n"); return -1; }
  args += pos;
  off += snprintf(doc + off, sizeof doc - off, "<topology version=\"3.0\">\n<object type=\"Machine\" os_index=\"0\" cpuset=\"0xf\" complete_cpuset=\"0xf\" allowed_cpuset=\"0xf\" nodeset=\"0x1\" complete_nodeset=\"0x1\" allowed_nodeset=\"0x1\" gp_index=\"1\">\n"
                  "<object type=\"NUMANode\" os_index=\"0\" cpuset=\"0xf\" complete_cpuset=\"0xf\" nodeset=\"0x1\" complete_nodeset=\"0x1\" gp_index=\"9\" local_memory=\"1024\"/>\n");
  for (int i = 0; i < 4; i++)
    off += snprintf(doc + off, sizeof doc - off, "<object type=\"PU\" os_index=\"%d\" cpuset=\"0x%x\" complete_cpuset=\"0x%x\" nodeset=\"0x1\" complete_nodeset=\"0x1\" gp_index=\"%d\"/>\n", i, 1 << i, 1 << i, i + 2);
  off += snprintf(doc + off, sizeof doc - off, "</object>\n<distances2 type=\"PU\" nbobjs=\"%u\" kind=\"5\" name=\"x\" indexing=\"os\">\n", nb);
  for (unsigned c = 0; c < k; c++) {
    char hx[4096]; int p2 = 0;
    if (sscanf(args, "%7s %4095s%n", kind, hx, &p2) < 2) { fprintf(fout, "bad-op\n"); return -1; }
    args += p2;
    size_t n = hx[0] == '.' ? 0 : strlen(hx) / 2;
    off += snprintf(doc + off, sizeof doc - off, "<%s length=\"%zu\">", kind[0] == 'i' ? "indexes" : "u64values", n);
    for (size_t i = 0; i < n; i++) doc[off++] = (char) (hexval(hx[2 * i]) * 16 + hexval(hx[2 * i + 1]));
    off += snprintf(doc + off, sizeof doc - off, "</%s>\n", kind[0] == 'i' ? "indexes" : "u64values");
  }
  off += snprintf(doc + off, sizeof doc - off, "</distances2>\n</topology>\n");
  hwloc_topology_t t; hwloc_topology_init(&t);
  char *copy = malloc(off + 1); memcpy(copy, doc, off + 1);
  int r = hwloc_topology_set_xmlbuffer(t, copy, off + 1);
  if (!r) r = hwloc_topology_load(t);
  free(copy);
  fprintf(fout, "dist r=%d", r);
  if (!r) {
    struct hwloc_distances_s *d[4]; unsigned nr = 4;
    stats[S_DIST_OK]++;
    if (!hwloc_distances_get(t, &nr, d, 0, 0)) {
      for (unsigned x = 0; x < nr && x < 4; x++) {
        fprintf(fout, " n=%u idx=", d[x]->nbobjs);
        for (unsigned i = 0; i < d[x]->nbobjs; i++) fprintf(fout, "%s%u", i ? "," : "", d[x]->objs[i] ? d[x]->objs[i]->os_index : 99999u);
        fprintf(fout, " val=");
        for (unsigned i = 0; i < d[x]->nbobjs * d[x]->nbobjs; i++) fprintf(fout, "%s%llu", i ? "," : "", (unsigned long long) d[x]->values[i]);
        hwloc_distances_release(t, d[x]);
      }
    }
  } else stats[S_DIST_FAIL]++;
  fputc('\n', fout);
  hwloc_topology_destroy(t);
  return r;
}

/* ---------------- generators ---------------- */
struct doc { char *p; size_t n; int v2; };
static struct doc *docs; static unsigned ndocs;
static void add_doc(const char *p, size_t n, int v2) {
  docs = realloc(docs, (ndocs + 1) * sizeof *docs);
  docs[ndocs].p = malloc(n + 1); memcpy(docs[ndocs].p, p, n); docs[ndocs].p[n] = 0; docs[ndocs].n = n; docs[ndocs].v2 = v2; ndocs++;
}
static void ud_export(void *reserved, hwloc_topology_t t, hwloc_obj_t o) {
  if (o->type == HWLOC_OBJ_CORE && o->logical_index < 2) {
    hwloc_export_obj_userdata(reserved, t, o, "plain", "hello <x>", 5);
    hwloc_export_obj_userdata_base64(reserved, t, o, "b64", "\001\002\003\004", 4);
    hwloc_export_obj_userdata(reserved, t, o, NULL, "", 0);
  }
}
static void build_docs(void) {
  static const char *syn[] = { "pu:2", "core:2 pu:2", "pack:2 [numa] l2:2 pu:1", "numa:2 core:2 pu:1", "pack:1 die:2 l3:1 core:2 pu:2",
                               "group:2 pack:2 [numa(memory=1GB)] core:1 pu:2", "numa:2 pack:1 l2:2 l1i:1 l1d:1 core:1 pu:1" };
  for (unsigned i = 0; i < sizeof syn / sizeof *syn; i++) {
    hwloc_topology_t t; hwloc_topology_init(&t);
    hwloc_topology_set_synthetic(t, syn[i]);
    hwloc_topology_set_all_types_filter(t, HWLOC_TYPE_FILTER_KEEP_ALL);
    if (hwloc_topology_load(t) < 0) { hwloc_topology_destroy(t); continue; }
    hwloc_obj_t root = hwloc_get_root_obj(t);
    hwloc_obj_add_info(root, "Quote\"d & <tag>", "line1\nline2\ttab\r>");
    hwloc_obj_add_info(hwloc_get_obj_by_type(t, HWLOC_OBJ_PU, 0), "Plain", "value with  spaces");
    hwloc_obj_t m = hwloc_topology_insert_misc_object(t, root, "misc \"one\"");
    if (m) hwloc_obj_add_info(m, "a", "");
    if (i % 2) hwloc_topology_set_userdata_export_callback(t, ud_export);
    unsigned nbpu = hwloc_get_nbobjs_by_type(t, HWLOC_OBJ_PU);
    if (nbpu >= 2 && nbpu <= 4) {
      hwloc_obj_t objs[4]; hwloc_uint64_t vals[16];
      for (unsigned a = 0; a < nbpu; a++) { objs[a] = hwloc_get_obj_by_type(t, HWLOC_OBJ_PU, a); for (unsigned b = 0; b < nbpu; b++) vals[a * nbpu + b] = a == b ? 10 : 20 + a + b; }
      hwloc_distances_add_handle_t h = hwloc_distances_add_create(t, "my&dist", HWLOC_DISTANCES_KIND_FROM_USER | HWLOC_DISTANCES_KIND_VALUE_LATENCY, 0);
      if (h && !hwloc_distances_add_values(t, h, nbpu, objs, vals, 0)) hwloc_distances_add_commit(t, h, 0);
    }
    for (int v2 = 0; v2 < 2; v2++) {
      char *xb; int xl;
      if (!hwloc_topology_export_xmlbuffer(t, &xb, &xl, v2 ? HWLOC_TOPOLOGY_EXPORT_XML_FLAG_V2 : 0)) { add_doc(xb, strlen(xb), v2); hwloc_free_xmlbuffer(t, xb); }
    }
    hwloc_topology_destroy(t);
  }
  /* hand-written small documents (exhaustive truncation) */
  static const char *small[] = {
    "<?xml version=\"1.0\" encoding=\"UTF-8\"?>\n<!DOCTYPE topology SYSTEM \"hwloc2.dtd\">\n<topology version=\"3.0\">\n  <object type=\"Machine\" os_index=\"0\" cpuset=\"0x1\">\n    <info name=\"A&amp;B\" value=\"x&#10;y&quot;&lt;&gt;&#9;&#13;\"/>\n    <userdata name=\"u\" length=\"3\">abc</userdata>\n    <object type=\"PU\" os_index=\"0\"/>\n  </object>\n  <distances2 type=\"PU\" nbobjs=\"1\">\n    <indexes length=\"2\">0 </indexes>\n  </distances2>\n</topology>\n",
    "<topology>\n<object type=\"Machine\"><page_type size=\"4096\" count=\"1\"/><object/></object></topology>",
    "<root><a b=\"1\" c_d=\"&amp;&bad;\"  e=\"\"><b1/><c2 x=\"y\"></c2>text</a></root>",
    "<topology version=\"2.0\">\n<object type=\"Machine\"><userdata length=\"0\"></userdata><userdata></userdata><info name=\">\"value=\"",
    "<topology version=\" +2.-0\"><x y=\"&quot;\"/><!-- c --></topology>",
  };
  for (unsigned i = 0; i < sizeof small / sizeof *small; i++) add_doc(small[i], strlen(small[i]), 0);
  /* bundled files */
  const char *sf = getenv("VERIF_XML_SOURCES");
  FILE *f = sf ? fopen(sf, "r") : NULL;
  if (f) {
    char line[1100];
    while (fgets(line, sizeof line, f)) {
      line[strcspn(line, "\n")] = 0;
      if (line[0] != 'X' || strlen(line) < 3) continue;
      FILE *x = fopen(line + 2, "rb"); if (!x) continue;
      static char tmp[6000]; size_t n = fread(tmp, 1, sizeof tmp, x); fclose(x);
      if (n) add_doc(tmp, n, 2);
    }
    fclose(f);
  }
}

static const char *garbage[] = { "\"", "=", ">", "<", "/", "/>", "</", "&", "&amp;", "&#10;", "&lt", "&quot;", " ", "\n", "\t", "=\"", "\"\"", "<a", "a=\"", "<!DOCTYPE ", "<?xml ", "<topology version=\"", "2.0\"", "<topology>", "<root>", "", "x", "_", "1" };
static size_t mutate(char *b, size_t n, size_t cap) {
  unsigned k = 1 + rng_below(3);
  while (k--) {
    unsigned m = rng_below(8);
    if (n == 0) m = 0;
    if (m == 0) { /* insert garbage token */
      const char *g = garbage[rng_below(sizeof garbage / sizeof *garbage)]; size_t gl = strlen(g);
      if (!gl) { g = "\0"; gl = 1; }
      size_t at = rng_below(n + 1);
      if (n + gl < cap) { memmove(b + at + gl, b + at, n - at); memcpy(b + at, g, gl); n += gl; }
    } else if (m == 1) { size_t at = rng_below(n), l = 1 + rng_below(8); if (at + l > n) l = n - at; memmove(b + at, b + at + l, n - at - l); n -= l; }   /* delete */
    else if (m == 2) { b[rng_below(n)] = "\"=></& \n\0a_1;#"[rng_below(15)]; }                                   /* replace by a structural byte */
    else if (m == 3) { b[rng_below(n)] = (char) rng_below(256); }
    else if (m == 4) { n = rng_below(n + 1); }                                                                   /* truncate */
    else if (m == 5) { /* delete from a random '"' '>' '<' to the next one */
      size_t at = rng_below(n); while (at < n && !strchr("\"<>", b[at])) at++;
      size_t e = at + 1; while (e < n && !strchr("\"<>", b[e])) e++;
      if (at < n && e <= n) { memmove(b + at, b + e, n - e); n -= e - at; }
    } else if (m == 6) { /* change one letter of a tag name (first or later), mostly in closing tags */
      size_t at = rng_below(n), tries = n;
      while (tries-- && !(b[at] == '<' && at + 2 < n && (b[at + 1] == '/' || rng_chance(20)))) at = (at + 1) % n;
      if (b[at] == '<' && at + 3 < n) { size_t k = at + (b[at + 1] == '/' ? 2 : 1) + (rng_chance(60) ? 0 : rng_below(3)); if (k < n && b[k] != '>') b[k] = (char) ('a' + rng_below(26)); }
    } else { /* truncate right after an =" or a > (the F05e / F05f neighbourhoods) */
      size_t at = rng_below(n);
      while (at + 1 < n && !((b[at] == '=' && b[at + 1] == '\"') || b[at] == '>')) at++;
      if (at + 1 < n) n = b[at] == '>' ? at + 1 + rng_below(2) : at + 2 + rng_below(2);
    }
  }
  return n;
}

static unsigned ops_this_doc;
static int aborted;

static void consume(unsigned f, int depth);

static void attrs_phase(unsigned f) {
  for (int i = 0; i < 40 && MORE(); i++) {
    emit("A %u", f);
    if (last_ret != 0 && !rng_chance(8)) break;
  }
}

static void consume(unsigned f, int depth) {
  if (aborted || !MORE() || nframes >= MAXF - 2) return;
  attrs_phase(f);
  for (int i = 0; i < 30 && MORE() && !aborted; i++) {
    unsigned c = rng_below(100);
    if (c < 70) {
      emit("F %u", f);
      if (last_ret == 1) {
        unsigned ch = (unsigned) last_new;
        int special = last_tag && (!strcmp(last_tag, "userdata") || !strcmp(last_tag, "indexes") || !strcmp(last_tag, "u64values"));
        if (special || rng_chance(10)) {
          attrs_phase(ch);
          /* content of the real length, or a wrong one */
          char *tb = NS(ch)->tagbuffer; char *lt = strchr(tb, '<');
          unsigned long len = lt ? (unsigned long) (lt - tb) : rng_below(5);
          if (rng_chance(15)) len = rng_below(2) ? len + 1 : rng_below(4);
          emit("G %u %lu", ch, len);
          if (last_ret >= 0) { emit("K %u", ch); }
          else if (rng_chance(30)) { aborted = !rng_chance(30); }
          emit("T %u", ch);
        } else if (depth < 12) consume(ch, depth + 1);
        else { emit("T %u", ch); }
        if (last_ret < 0 && !rng_chance(25)) { aborted = 1; return; }
        emit("C %u", ch);
      } else if (last_ret == 0) break;
      else { if (!rng_chance(25)) { aborted = 1; return; } }
    } else if (c < 78) {
      emit("G %u %u", f, rng_below(6));
      if (last_ret >= 0) { emit("K %u", f); }
    } else if (c < 84) { emit("A %u", f); }
    else if (c < 88 && nframes > 1) { /* a random op on a random frame: the model allows any interleaving */
      unsigned g = rng_below(nframes);
      switch (rng_below(5)) {
      case 0: emit("A %u", g); break;
      case 1: emit("F %u", g); break;
      case 2: emit("T %u", g); break;
      case 3: if (frames[g]->parent) emit("C %u", g); else emit("A %u", g); break;
      default: emit("G %u %u", g, rng_below(4)); if (last_ret >= 0 || rng_chance(20)) emit("K %u", g); break;
      }
    } else break;
  }
  emit("T %u", f); 
}

static void emit_buf(const char *p, size_t n) {
  static char line[1 << 20]; int off = snprintf(line, sizeof line, "buf ");
  if (n * 2 + 64 > sizeof line) n = (sizeof line - 64) / 2;
  if (!n) line[off++] = '.';
  for (size_t i = 0; i < n; i++) off += sprintf(line + off, "%02x", (unsigned char) p[i]);
  line[off] = 0;
  nops++;
  fprintf(fops, "%s\n", line); fflush(fops); exec_op(line); fflush(fout);
}

static void run_doc(const char *p, size_t n) {
  emit_buf(p, n);
  
  if (!have_session) return;
  emit("init");
  if (last_ret < 0) return;
  aborted = 0;
  doc_limit = nops + 400;     /* at most 400 ops per document */
  consume(0, 0);
}

static void gen_dist(void) {
  /* tokens: decimal numbers separated by single spaces, sometimes garbage */
  char line[8192]; unsigned nb = rng_below(5); unsigned k = rng_below(5); int off;
  if (rng_chance(5)) nb = 65536 + rng_below(2);
  off = snprintf(line, sizeof line, "dist %u %u", nb, k);
  unsigned want_i = nb, want_v = nb * nb;
  for (unsigned c = 0; c < k; c++) {
    int isidx = c == 0 ? 1 : c == 1 ? 0 : (int) rng_below(2);
    if (rng_chance(10)) isidx = !isidx;
    unsigned cnt = isidx ? want_i : want_v;
    if (cnt > 30) cnt = 30;
    if (rng_chance(30)) cnt = rng_below(cnt + 3);
    if (k > 2 && rng_chance(40)) cnt = rng_below(cnt + 1);
    char content[1024]; int co = 0;
    for (unsigned i = 0; i < cnt; i++) {
      unsigned r = rng_below(100);
      if (r < 88) co += sprintf(content + co, "%u", isidx ? rng_below(4) : 1 + rng_below(99));
      else if (r < 91) co += sprintf(content + co, "x");
      else if (r < 94) co += sprintf(content + co, "%u", 7 + rng_below(3));
      else if (r < 96) co += sprintf(content + co, "%u,", rng_below(4));
      else if (r < 98) { /* empty token */ }
      else co += sprintf(content + co, "18446744073709551615");
      if (i + 1 < cnt || rng_chance(60)) co += sprintf(content + co, rng_chance(96) ? " " : "  ");
    }
    off += snprintf(line + off, sizeof line - off, " %c ", isidx ? 'i' : 'v');
    if (!co) line[off++] = '.';
    for (int i = 0; i < co; i++) off += sprintf(line + off, "%02x", (unsigned char) content[i]);
    line[off] = 0;
  }
  fprintf(fops, "%s\n", line); fflush(fops); exec_op(line); fflush(fout);
}

int main(int argc, char **argv) {
  setenv("HWLOC_LIBXML", "0", 1); setenv("HWLOC_HIDE_ERRORS", "2", 1); setenv("HWLOC_DONT_ADD_VERSION_INFO", "1", 1);
  if (argc >= 4 && !strcmp(argv[1], "--replay")) {
    FILE *in = fopen(argv[2], "r"); fout = fopen(argv[3], "w");
    if (!in || !fout) return 2;
    static char line[1 << 20];
    while (fgets(line, sizeof line, in)) {
      line[strcspn(line, "\n")] = 0;
      if (!line[0] || line[0] == '#') continue;
      exec_op(line); fflush(fout);
    }
    session_end(); fclose(in); fclose(fout);
    return 0;
  }
  if (argc < 5) { fprintf(stderr, "usage: xmlscan <nops> <ops> <out> <stats>\n"); return 2; }
  total_limit = strtoul(argv[1], NULL, 10);
  fops = fopen(argv[2], "w"); fout = fopen(argv[3], "w");
  if (!fops || !fout) return 2;
  rng_seed(rng_seed_from_env());
  build_docs();
  static char work[1 << 17];
  /* exhaustive truncation of one small document per process (rotating with the seed) */
  {
    unsigned first_small = 0; for (unsigned i = 0; i < ndocs; i++) if (docs[i].v2 == 0 && docs[i].n < 600) { first_small = i; break; }
    unsigned nsmall = 0; for (unsigned i = first_small; i < ndocs && docs[i].n < 600 && docs[i].v2 == 0; i++) nsmall++;
    struct doc *d = &docs[first_small + (nsmall ? (unsigned) (rng_seed_from_env() % nsmall) : 0)];
    for (size_t l = 1; l <= d->n + 1 && nops < total_limit / 2; l++) { stats[S_DOC_TRUNC]++; run_doc(d->p, l); }
  }
  while (nops < total_limit) {
    unsigned c = rng_below(100);
    if (c < 6) { gen_dist(); nops += 20; continue; }
    if (c == 6 && rng_chance(30)) { if (rng_chance(50)) run_doc("", 0); else emit("bufn %d", -(int) rng_below(3)); continue; }
    struct doc *d = &docs[rng_below(ndocs)];
    size_t n = d->n; if (n > sizeof work / 2) n = sizeof work / 2;
    memcpy(work, d->p, n);
    if (c < 22) { stats[d->v2 == 2 ? S_DOC_FILE : d->v2 ? S_DOC_V2 : S_DOC_VALID]++; run_doc(work, n + 1); }
    else if (c < 80) { n = mutate(work, n, sizeof work); stats[S_DOC_MUT]++; run_doc(work, n + rng_below(2)); }
    else if (c < 92) { n = rng_below(n + 1); stats[S_DOC_TRUNC]++; run_doc(work, n + rng_below(2)); }
    else { n = 1 + rng_below(120); for (size_t i = 0; i < n; i++) work[i] = rng_chance(70) ? "<>/=\"& \nabtopologyversion.210?!DOCTYPE_#;"[rng_below(42)] : (char) rng_below(256); stats[S_DOC_RANDOM]++; run_doc(work, n); }
  }
  session_end();
  FILE *fs = fopen(argv[4], "w");
  if (fs) { for (int i = 0; i < S_NB; i++) fprintf(fs, "%s %lu\n", stat_names[i], stats[i]); fclose(fs); }
  fclose(fops); fclose(fout);
  for (unsigned i = 0; i < ndocs; i++) free(docs[i].p);
  free(docs);
  return 0;
}
