/* C01 harness (engine `topo-load`): load topologies from many sources x filters x flags through the public
 * API, dump every successfully loaded one (harness/dump.h) for the Lean well-formedness oracle, and run
 * hwloc_topology_check() (must not abort; it is NOT the oracle).
 *
 * usage: topoload gen <ncases> <sources-file> <plan-out> <dump-out>      (seed = VERIF_SEED)
 *        topoload replay <plan-file> <dump-out>
 * sources-file lines:  X <xml path> | F <fsroot dir> | C <cpuid dir>
 * plan line:  <caseid> <kind> <flags> <filters: 20 chars 0-3 or -> <arg...>
 *   kind S = synthetic string, X = set_xml(path), B = set_xmlbuffer(file contents), F/G = HWLOC_FSROOT (without/with pci), C = HWLOC_CPUID_PATH,
 *        R = "<subseed> <srckind> <srcarg>": a derived source with really disallowed PUs / NUMA nodes (harness/derive.h): the source is
 *            loaded with every type kept, random subsets of its PUs / NUMA nodes are made the allowed sets, it is exported to an XML
 *            buffer and that buffer is loaded with the flags and filters of the case
 *        E = "<NAME=VALUE[,NAME=VALUE]> <srckind F|G|C> <srcarg>": the snapshot loaded with documented discovery-tuning environment
 *            variables set (HWLOC_KNL_*, HWLOC_KEEP_NVIDIA_GPU_NUMA_NODES, HWLOC_USE_NUMA_DISTANCES, HWLOC_GROUPING*, HWLOC_CPUKINDS_*, ...):
 *            whatever they select, the loaded topology must be well formed under the filters of the case (C01-r7)
 *   flags may contain IS_THISSYSTEM|THISSYSTEM_ALLOWED_RESOURCES (2|4) on S/X/B/R cases: the allowed sets of the running process
 *   (cgroup) are then applied to the foreign topology, so every PU / NUMA node the sandbox does not have is disallowed
 */
#include "dump.h"
#include "rng.h"
#include "derive.h"
#include <errno.h>
#include <unistd.h>
#include <stdarg.h>


static FILE *fplan, *fdump;

static void put_enum(void) {
  fprintf(fdump, "ENUM %d %d %d %d %d %d %d %d %d %d %d %d %d %d %d %d %d %d %d %d %d\n",
          HWLOC_OBJ_MACHINE, HWLOC_OBJ_PACKAGE, HWLOC_OBJ_DIE, HWLOC_OBJ_CORE, HWLOC_OBJ_PU,
          HWLOC_OBJ_L1CACHE, HWLOC_OBJ_L2CACHE, HWLOC_OBJ_L3CACHE, HWLOC_OBJ_L4CACHE, HWLOC_OBJ_L5CACHE,
          HWLOC_OBJ_L1ICACHE, HWLOC_OBJ_L2ICACHE, HWLOC_OBJ_L3ICACHE, HWLOC_OBJ_GROUP, HWLOC_OBJ_NUMANODE,
          HWLOC_OBJ_MEMCACHE, HWLOC_OBJ_BRIDGE, HWLOC_OBJ_PCI_DEVICE, HWLOC_OBJ_OS_DEVICE, HWLOC_OBJ_MISC, HWLOC_OBJ_TYPE_MAX);
}

static char *read_file(const char *path, size_t *len) {
  FILE *f = fopen(path, "rb"); if (!f) return NULL;
  fseek(f, 0, SEEK_END); long n = ftell(f); fseek(f, 0, SEEK_SET);
  char *b = malloc(n + 1); if (fread(b, 1, n, f) != (size_t) n) { fclose(f); free(b); return NULL; }
  b[n] = 0; fclose(f); *len = n; return b;
}

static char envnames[8][64]; static unsigned nenv;
static void clear_case_env(void) { for (unsigned i = 0; i < nenv; i++) unsetenv(envnames[i]); nenv = 0; }

/* discovery-tuning environment variables DOCUMENTED in doc/hwloc.doxy "Environment Variables" (the undocumented debugging knobs
 * HWLOC_DEBUG_SORT_CHILDREN, HWLOC_KNL_NUMA_QUIRK, HWLOC_KNL_HDH_FALLBACK are deliberately not used: the property quantifies over
 * sources, filters and flags, and a debugging knob may legitimately produce anything): name, values, a substring of the
 * snapshot names they are meant for (NULL = any), the object types they add / remove (targets of the type filters of the case) */
struct envvar { const char *name; const char *values[6]; const char *only; const char *types; };
static const struct envvar ENVVARS[] = {
  { "HWLOC_KNL_MSCACHE_L3", {"0", "1"}, "KNL", "\x0f\x07\x0d" },          /* MemCache(15) L3(7) Group(13) */
  { "HWLOC_KEEP_NVIDIA_GPU_NUMA_NODES", {"0", "1"}, "nvidia", "\x0d\x01" },
  { "HWLOC_DONT_MERGE_CLUSTER_GROUPS", {"1", "0"}, NULL, "\x0d\x06\x03" },
  { "HWLOC_USE_NUMA_DISTANCES", {"0", "1", "2", "3", "7"}, NULL, "\x0d\x01" },
  { "HWLOC_GROUPING", {"0", "1"}, NULL, "\x0d" },
  { "HWLOC_GROUPING_ACCURACY", {"try", "0.05", "0.5"}, NULL, "\x0d" },
  { "HWLOC_CPUKINDS_HOMOGENEOUS", {"1", "0"}, NULL, "\x03" },
  { "HWLOC_CPUKINDS_MAXFREQ", {"0", "1", "x"}, NULL, "\x03" },
  { "HWLOC_CPUKINDS_RANKING", {"none", "coretype", "frequency", "forced_efficiency", "no_forced_efficiency", "coretype+frequency"}, NULL, "\x03" },
  { "HWLOC_NO_HARDWIRED_TOPOLOGY", {"1"}, NULL, "\x01\x0d" },
  { "HWLOC_MEMTIERS_GUESS", {"none", "default", "all"}, NULL, "\x0f" },
  { "HWLOC_MEMTIERS", {"none", "0x1=HBM;0x2=DRAM"}, NULL, "\x0f" },
  { "HWLOC_ALLOW", {"all"}, NULL, "\x01" },
  { "HWLOC_X86_TOPOEXT_NUMANODES", {"1"}, NULL, "\x0d\x01\x02" },
  { "HWLOC_VIRTUAL_LINUX_OSDEV", {"1"}, NULL, "\x12\x10" },
};
#define NENVVARS (sizeof ENVVARS / sizeof *ENVVARS)
static unsigned long st_env_cases, st_env_targeted, st_env_dedicated;
/* builds "<NAME=VALUE[,...]>" for the source and a filter assignment that (60 %) names the types the variables touch */
static void gen_env_case(const struct src *src, char *spec, size_t cap, char *filters) {
  const char *b = strrchr(src->path, '/'); b = b ? b + 1 : src->path;
  unsigned nv = 1 + (rng_chance(30) ? 1 : 0), off = 0; const struct envvar *chosen[2] = {NULL, NULL};
  for (unsigned k = 0; k < nv; k++) {
    const struct envvar *v = NULL;
    /* dedicated variables first when the snapshot has some */
    unsigned nd = 0; for (unsigned i = 0; i < NENVVARS; i++) if (ENVVARS[i].only && strstr(b, ENVVARS[i].only)) nd++;
    if (nd && rng_chance(75)) { unsigned j = rng_below(nd); for (unsigned i = 0; i < NENVVARS; i++) if (ENVVARS[i].only && strstr(b, ENVVARS[i].only) && !j--) { v = &ENVVARS[i]; break; } st_env_dedicated++; }
    while (!v) { const struct envvar *c = &ENVVARS[rng_below(NENVVARS)]; if (!c->only || strstr(b, c->only) || rng_chance(10)) v = c; }
    if (k && chosen[0] == v) break;
    chosen[k] = v;
    unsigned nval = 0; while (nval < 6 && v->values[nval]) nval++;
    off += (unsigned) snprintf(spec + off, cap - off, "%s%s=%s", k ? "," : "", v->name, v->values[rng_below(nval)]);
  }
  if (rng_chance(60)) {
    memset(filters, '-', 20); filters[20] = 0;
    for (unsigned k = 0; k < 2; k++) if (chosen[k]) for (const char *ty = chosen[k]->types; *ty; ty++)
      if (rng_chance(55)) filters[(unsigned char) *ty] = "1120"[rng_below(4)];      /* KEEP_NONE twice as likely */
    if (rng_chance(30)) filters[rng_below(20)] = (char) ('0' + rng_below(4));
    st_env_targeted++;
  }
  st_env_cases++;
}

/* returns 0 when loaded and dumped, 1 when set/load failed cleanly */
static int run_case(const char *caseid, char kind, unsigned long flags, const char *filters, const char *arg) {
  hwloc_topology_t t;
  int err;
  char *buf = NULL;
  unsetenv("HWLOC_FSROOT"); unsetenv("HWLOC_CPUID_PATH"); unsetenv("HWLOC_COMPONENTS"); unsetenv("HWLOC_DUMPED_HWDATA_DIR");
  if (hwloc_topology_init(&t) < 0) return 1;
  for (int ty = 0; ty < HWLOC_OBJ_TYPE_MAX && filters[ty]; ty++)
    if (filters[ty] >= '0' && filters[ty] <= '3')
      hwloc_topology_set_type_filter(t, (hwloc_obj_type_t) ty, (enum hwloc_type_filter_e) (filters[ty] - '0')); /* may be refused */
  if (hwloc_topology_set_flags(t, flags) < 0) { hwloc_topology_destroy(t); return 1; }
  err = 0;
  switch (kind) {
  case 'S': err = hwloc_topology_set_synthetic(t, arg); break;
  case 'X': err = hwloc_topology_set_xml(t, arg); break;
  case 'B': { size_t len = 0; buf = read_file(arg, &len); if (!buf) err = -1; else err = hwloc_topology_set_xmlbuffer(t, buf, (int) len + 1); break; }
  case 'R': { int len = 0; buf = drv_make_xml(arg, &len); if (!buf) err = -1; else err = hwloc_topology_set_xmlbuffer(t, buf, len + 1); break; }
  case 'F': setenv("HWLOC_FSROOT", arg, 1); setenv("HWLOC_COMPONENTS", "linux,stop", 1); setenv("HWLOC_DUMPED_HWDATA_DIR", "/var/run/hwloc", 1); break;
  case 'G': setenv("HWLOC_FSROOT", arg, 1); setenv("HWLOC_COMPONENTS", "linux,pci,stop", 1); setenv("HWLOC_DUMPED_HWDATA_DIR", "/var/run/hwloc", 1); break;
  case 'C': setenv("HWLOC_CPUID_PATH", arg, 1); setenv("HWLOC_COMPONENTS", "x86,stop", 1); break;
  case 'E': {
    char spec[400], k2 = 0; int off = 0;
    if (sscanf(arg, "%399s %c %n", spec, &k2, &off) < 2 || !off) { err = -1; break; }
    nenv = 0;
    for (char *sv = NULL, *tk = strtok_r(spec, ",", &sv); tk && nenv < 8; tk = strtok_r(NULL, ",", &sv)) {
      char *eq = strchr(tk, '='); if (!eq || strncmp(tk, "HWLOC_", 6)) { err = -1; break; }
      *eq = 0; snprintf(envnames[nenv], sizeof envnames[nenv], "%s", tk); setenv(tk, eq + 1, 1); nenv++;
    }
    const char *a2 = arg + off;
    if (k2 == 'F') { setenv("HWLOC_FSROOT", a2, 1); setenv("HWLOC_COMPONENTS", "linux,stop", 1); setenv("HWLOC_DUMPED_HWDATA_DIR", "/var/run/hwloc", 1); }
    else if (k2 == 'G') { setenv("HWLOC_FSROOT", a2, 1); setenv("HWLOC_COMPONENTS", "linux,pci,stop", 1); setenv("HWLOC_DUMPED_HWDATA_DIR", "/var/run/hwloc", 1); }
    else if (k2 == 'C') { setenv("HWLOC_CPUID_PATH", a2, 1); setenv("HWLOC_COMPONENTS", "x86,stop", 1); }
    else err = -1;
    break;
  }
  default: err = -1;
  }
  if (err < 0) { hwloc_topology_destroy(t); free(buf); clear_case_env(); return 1; }
  err = hwloc_topology_load(t);
  free(buf);
  clear_case_env();
  if (err < 0) { hwloc_topology_destroy(t); return 1; }
  dump_topology(fdump, t, caseid);
  fflush(fdump);
  hwloc_topology_check(t);
  hwloc_topology_destroy(t);
  return 0;
}

/* ---- generators ---- */
/* struct src, srcs, nsrcs, pick_src: harness/derive.h */
static void gen_filters(char *f) { drv_gen_filters(f); }
static unsigned long gen_flags(void) {
  static const unsigned long bits[] = {1, 8, 64, 128, 256, 512};
  unsigned long fl = 0;
  if (rng_chance(40)) return rng_chance(60) ? 0 : 1;
  for (int i = 0; i < 6; i++) if (rng_chance(i ? 35 : 25)) fl |= bits[i];
  return fl;
}
/* IS_THISSYSTEM (2) alone, or with THISSYSTEM_ALLOWED_RESOURCES (4): only for sources that are not the Linux / x86 back ends */
static unsigned long gen_thissystem_flags(void) {
  if (!rng_chance(12)) return 0;
  return rng_chance(80) ? 6 : 2;
}

static int app(char *s, int off, int cap, const char *fmt, ...) {
  va_list ap; va_start(ap, fmt); int n = vsnprintf(s + off, cap - off, fmt, ap); va_end(ap); return off + n;
}
static void gen_synthetic(char *s, int cap) {
  int off = 0;
  unsigned budget = 256;  /* max PUs */
  unsigned prod = 1;
#define CNT() ({ unsigned c = 1 + rng_below(rng_chance(70) ? 2 : 4); if (c > budget) c = 1; budget /= c; prod *= c; c; })
  if (rng_chance(12)) {
    /* untyped levels */
    int n = 1 + rng_below(5);
    for (int i = 0; i < n; i++) off = app(s, off, cap, "%u ", CNT());
    s[off - 1] = 0; return;
  }
  int numa_mode = rng_below(4); /* 0: none explicit, 1: level, 2: attached, 3: attached at two places */
  if (rng_chance(25)) off = app(s, off, cap, "group:%u ", CNT());
  if (rng_chance(70)) { off = app(s, off, cap, "pack:%u ", CNT()); if ((numa_mode == 2 || numa_mode == 3) && rng_chance(50)) { off = app(s, off, cap, "[numa%s] ", drv_gen_numa_attrs(0)); if (numa_mode == 2) numa_mode = 0; } }
  if (rng_chance(20)) off = app(s, off, cap, "die:%u ", CNT());
  if (numa_mode == 1) { unsigned c_ = CNT(); off = app(s, off, cap, "numa:%u%s ", c_, drv_gen_numa_attrs(1)); }
  if (rng_chance(15)) off = app(s, off, cap, "group:%u ", CNT());
  if (rng_chance(40)) { off = app(s, off, cap, "l3:%u%s ", CNT(), rng_chance(30) ? "(size=8MB)" : ""); if (numa_mode >= 2) { off = app(s, off, cap, "[numa%s] ", rng_chance(50) ? drv_gen_numa_attrs(0) : ""); numa_mode = 0; } }
  if (rng_chance(40)) off = app(s, off, cap, "l2:%u ", CNT());
  if (rng_chance(20)) off = app(s, off, cap, "l1i:%u ", 1u);
  if (rng_chance(30)) off = app(s, off, cap, "l1:%u ", 1u);
  if (rng_chance(80)) off = app(s, off, cap, "core:%u ", CNT());
  off = app(s, off, cap, "pu:%u", CNT());
  unsigned im = rng_below(100);
  if (im < 8) off = app(s, off, cap, "(indexes=core:pu)");
  else if (im < 12) off = app(s, off, cap, "(indexes=pack:core)");
  else if (im < 16) off = app(s, off, cap, "(indexes=numa:pu)");
  else if (im < 26 && prod <= 64) {
    /* explicit list: reversed, strided, or (rarely) with a duplicate / missing entry */
    unsigned k = rng_below(10);
    off = app(s, off, cap, "(indexes=");
    for (unsigned i = 0; i < prod; i++) {
      unsigned v = k < 4 ? prod - 1 - i : k < 7 ? (i * 2) % prod + (i * 2) / prod : k == 7 ? i / 2 : k == 8 ? 3 * i + 1 : i;
      if (k == 9 && i == prod - 1 && prod > 1) break;
      off = app(s, off, cap, "%s%u", i ? "," : "", v);
    }
    off = app(s, off, cap, ")");
  } else if (im < 32 && prod >= 4 && prod % 2 == 0) off = app(s, off, cap, "(indexes=%u*2:1*%u)", prod / 2, prod / 2);
  else if (im < 35 && prod >= 4) off = app(s, off, cap, "(indexes=1*%u:2*2)", prod / 2);   /* overlapping strides */
}

int main(int argc, char **argv) {
  if (argc >= 4 && !strcmp(argv[1], "replay")) {
    FILE *in = fopen(argv[2], "r"); fdump = fopen(argv[3], "w");
    if (!in || !fdump) return 2;
    put_enum();
    char line[4096];
    while (fgets(line, sizeof line, in)) {
      char id[64], filters[64], kind; unsigned long flags; int pos = 0;
      line[strcspn(line, "\n")] = 0;
      if (sscanf(line, "%63s %c %lu %63s %n", id, &kind, &flags, filters, &pos) < 4) continue;
      int r = run_case(id, kind, flags, filters, line + pos);
      fprintf(stderr, "case %s: %s\n", id, r ? "load failed" : "loaded");
    }
    fclose(in); fclose(fdump);
    return 0;
  }
  if (argc < 6 || strcmp(argv[1], "gen")) { fprintf(stderr, "usage\n"); return 2; }
  unsigned long n = strtoul(argv[2], NULL, 10);
  FILE *fs = fopen(argv[3], "r");
  if (fs) {
    char line[1100];
    while (fgets(line, sizeof line, fs)) {
      line[strcspn(line, "\n")] = 0;
      if (strlen(line) < 3) continue;
      srcs = realloc(srcs, (nsrcs + 1) * sizeof(*srcs));
      srcs[nsrcs].kind = line[0]; strncpy(srcs[nsrcs].path, line + 2, 999); srcs[nsrcs].path[999] = 0; nsrcs++;
    }
    fclose(fs);
  }
  fplan = fopen(argv[4], "w"); fdump = fopen(argv[5], "w");
  if (!fplan || !fdump) return 2;
  rng_seed(rng_seed_from_env());
  put_enum();
  unsigned long loaded = 0, failed = 0;
  const char *only = getenv("VERIF_TOPOLOAD_KINDS"); /* e.g. "S" to restrict */
  for (unsigned long i = 0; i < n; i++) {
    char filters[32], arg[1200], id[32]; char kind;
    unsigned long flags = gen_flags();
    gen_filters(filters);
    unsigned w = rng_below(100);
    if (nsrcs && w < 38 && !(only && !strcmp(only, "S"))) {
      struct src *s = pick_src();
      kind = s->kind;
      if (kind == 'X' && rng_chance(50)) kind = 'B';
      if (kind == 'F' && rng_chance(30)) kind = 'G';
      strcpy(arg, s->path);
    } else if (nsrcs && w < 50 && !(only && !strcmp(only, "S"))) {
      /* a Linux / x86 snapshot under discovery-tuning environment variables */
      struct src *s = NULL;
      for (unsigned tries = 0; tries < 50 && !s; tries++) { struct src *c = rng_chance(35) ? pick_src() : &srcs[rng_below(nsrcs)]; if (c->kind == 'F' || c->kind == 'C') s = c; }
      if (!s) { kind = 'S'; gen_synthetic(arg, sizeof arg); }
      else {
        char spec[400]; gen_env_case(s, spec, sizeof spec, filters);
        char k2 = s->kind; if (k2 == 'F' && rng_chance(30)) k2 = 'G';
        kind = 'E'; snprintf(arg, sizeof arg, "%s %c %s", spec, k2, s->path);
      }
    } else if (w < 70 && !(only && !strcmp(only, "S"))) {
      /* derived source with disallowed resources: from a synthetic string (60 %) or from a bundled XML file / snapshot */
      kind = 'R';
      if (!nsrcs || rng_chance(60)) { char syn[1100]; gen_synthetic(syn, sizeof syn); snprintf(arg, sizeof arg, "%u S %s", rng_below(1000000), syn); }
      else { struct src *s = pick_src(); char k = s->kind; if (k == 'F' && rng_chance(30)) k = 'G'; snprintf(arg, sizeof arg, "%u %c %s", rng_below(1000000), k, s->path); }
    } else { kind = 'S'; gen_synthetic(arg, sizeof arg); }
    if (kind == 'S' || kind == 'X' || kind == 'B' || kind == 'R') flags |= gen_thissystem_flags();
    snprintf(id, sizeof id, "c%lu", i);
    fprintf(fplan, "%s %c %lu %s %s\n", id, kind, flags, filters, arg); fflush(fplan);
    if (run_case(id, kind, flags, filters, arg)) failed++; else loaded++;
  }
  fprintf(fplan, "# loaded %lu failed %lu\n", loaded, failed);
  fprintf(fplan, "# envcases %lu targeted_filters %lu dedicated_variable %lu\n", st_env_cases, st_env_targeted, st_env_dedicated);
  fprintf(fplan, "# derived made %lu with_memcache %lu two_level_memcache %lu dropped_pu %lu dropped_node %lu allow_refused %lu v2 %lu retyped_to_group %lu retyped_cpuless %lu misc_inserted %lu\n",
          drv_made, drv_with_memcache, drv_two_level_memcache, drv_dropped_pu, drv_dropped_node, drv_allow_refused, drv_v2, drv_retyped, drv_retyped_cpuless, drv_misc);
  fclose(fplan); fclose(fdump);
  return 0;
}
