/* C18 differential harness (engine `linuxparse`): the static parsers of hwloc/topology-linux.c
 *   hwloc__read_path_as_cpulist, hwloc__read_path_as_cpumask, hwloc__read_fd
 * on generated file contents.  topology-linux.c is #included (static functions); read() is wrapped so
 * that hwloc__read_fd can be driven with scripted return values (short reads, errors).
 *
 * usage: linuxparse <ncases> <ops-file> <out-file> <stats-file>      (generate; seed = VERIF_SEED)
 *        linuxparse --replay <ops-file> <out-file>
 * ops:   CL <hex|->   CM <hex|->   CLX   CMX   RF <size0> <r1,r2,..|->       (see lean/Driver/LinuxParse.lean)
 *        NI NU NQ NX MI HP CN MP AD AR: the numeric / meminfo / hugepages readers and the cgroup handling
 *        (hwloc_linux__get_allowed_resources and its parts) on files written under a scratch fsroot
 *        directory <out-file>.root, see lean/Driver/LinuxFs.lean
 *
 * A cpulist content with a run of >= 7 alphanumeric characters may hold a number >= 10^6: such cases run
 * in a forked child (the C code has signed overflow = UBSan abort for some of them, reported as `ub`).
 */
#include "private/autogen/config.h"
#include <unistd.h>
#include <sys/types.h>
static ssize_t verif_read(int fd, void *buf, size_t count);
#define read verif_read
#include "topology-linux.c"
#undef read
#include "rng.h"
#include <sys/wait.h>
#include <ctype.h>

/* ---- scripted read() ---- */
static int script_on, script_fd = -1;
static long script_vals[64]; static unsigned script_n, script_pos;
static unsigned long script_stream;        /* bytes delivered so far: byte i of the stream is 'A' + i % 23 */
static ssize_t verif_read(int fd, void *buf, size_t count) {
  if (!script_on || fd != script_fd) return read(fd, buf, count);
  long r = script_pos < script_n ? script_vals[script_pos++] : 0;
  if (r < 0) { errno = EIO; return -1; }
  if ((size_t) r > count) r = (long) count;
  for (long i = 0; i < r; i++) ((char *) buf)[i] = (char) ('A' + (script_stream + i) % 23);   /* ASan checks the store */
  script_stream += r;
  return r;
}

static FILE *fops, *fout;
static char scratch[1200];

static void put_set(FILE *f, hwloc_const_bitmap_t s) {
  int last;
  if (hwloc_bitmap_weight(s) == -1) { fputc('I', f); last = hwloc_bitmap_last_unset(s); }
  else last = hwloc_bitmap_last(s);
  if (last < 0) { fputc('0', f); return; }
  if (last >= (1 << 20)) { fputs("huge", f); return; }        /* far outside the differential domain (the model answers `big`) */
  int started = 0;
  for (int i = last / 64; i >= 0; i--) {
    unsigned long w = hwloc_bitmap_to_ith_ulong(s, i);
    if (started) fprintf(f, "%016lx", w); else { fprintf(f, "%lx", w); started = 1; }
  }
}

static int hexval(int c) { return c >= '0' && c <= '9' ? c - '0' : c >= 'a' && c <= 'f' ? c - 'a' + 10 : c >= 'A' && c <= 'F' ? c - 'A' + 10 : -1; }
static unsigned char *unhex(const char *h, size_t *len) {
  size_t n = strcmp(h, "-") ? strlen(h) / 2 : 0;
  unsigned char *b = malloc(n + 1);
  for (size_t i = 0; i < n; i++) b[i] = (unsigned char) (hexval(h[2 * i]) * 16 + hexval(h[2 * i + 1]));
  b[n] = 0; *len = n; return b;
}
static int write_scratch(const unsigned char *b, size_t n) {
  FILE *f = fopen(scratch, "wb"); if (!f) return -1;
  if (n && fwrite(b, 1, n, f) != n) { fclose(f); return -1; }
  fclose(f); return 0;
}
static int risky(const unsigned char *b, size_t n) {
  size_t run = 0;
  for (size_t i = 0; i < n; i++) { if (isalnum(b[i])) { if (++run >= 7) return 1; } else run = 0; }
  return 0;
}
/* a destination whose previous content must not matter */
static hwloc_bitmap_t mk_dst(unsigned salt) {
  hwloc_bitmap_t s = (salt & 1) ? hwloc_bitmap_alloc_full() : hwloc_bitmap_alloc();
  if (salt & 2) hwloc_bitmap_set_range(s, 3, 200 + (salt % 97));
  if (salt & 4) hwloc_bitmap_clr(s, 70);
  return s;
}

static void do_parse(FILE *f, int list, const char *path, unsigned salt) {
  hwloc_bitmap_t s = mk_dst(salt);
  int err = list ? hwloc__read_path_as_cpulist(path, s, -1) : hwloc__read_path_as_cpumask(path, s, -1);
  if (err < 0) fputs("fail", f);
  else { fputs("ok ", f); put_set(f, s); }
  hwloc_bitmap_free(s);
}


/* ---------------- scratch fsroot (ops NI .. AR) ---------------- */
static char rootdir[1300]; static int root_fd = -1;
static char *made[4096]; static unsigned nmade;           /* paths owned by the current op (files, hugepages entry directories), removed in reverse order */
static char *stale[8192]; static unsigned nstale;         /* parent directories kept across ops (mkdir/rmdir are slow on the build disk); always empty between ops */
static int fs_error;
static void fs_track(const char *p) { if (nmade < 4096) made[nmade++] = strdup(p); else fs_error = 1; }
static void fs_keep(const char *p) { if (nstale < 8192) stale[nstale++] = strdup(p); else fs_track(p); }
static void fs_cleanup(void) {
  while (nmade) { char *p = made[--nmade]; if (unlink(p) < 0) rmdir(p); free(p); }
  fs_error = 0;
}
/* kept directories are invisible to the code under test (it only opens regular files by full name) except where this is called */
static void fs_purge(void) { while (nstale) { char *p = stale[--nstale]; rmdir(p); free(p); } }
static int fs_exists(const char *rel) { char full[1500]; struct stat sb; snprintf(full, sizeof full, "%s/%s", rootdir, rel); return stat(full, &sb) == 0; }
/* create <root>/<path> (bytes, no NUL) and its parent directories; kind 0 = regular file with content, 1 = directory;
 * own: directories created here belong to the op (removed after it) instead of being kept */
static void fs_make2(const unsigned char *path, size_t pn, const unsigned char *c, size_t cn, int kind, int own) {
  char full[6000]; size_t fl = strlen(rootdir);
  size_t st[400], ln[400]; unsigned nc = 0;
  if (memchr(path, 0, pn) || pn > 4000) { fs_error = 1; return; }
  for (size_t i = 0; i < pn; ) {
    while (i < pn && path[i] == '/') i++;
    size_t j = i; while (j < pn && path[j] != '/') j++;
    if (j > i && !(j - i == 1 && path[i] == '.')) {
      if ((j - i == 2 && path[i] == '.' && path[i + 1] == '.') || j - i > 255 || nc >= 400) { fs_error = 1; return; }
      st[nc] = i; ln[nc] = j - i; nc++;
    }
    i = j;
  }
  if (!nc) { if (kind == 0) fs_error = 1; return; }
  memcpy(full, rootdir, fl);
  for (unsigned k = 0; k < nc; k++) {
    full[fl++] = '/'; memcpy(full + fl, path + st[k], ln[k]); fl += ln[k]; full[fl] = 0;
    struct stat sb;
    if (k + 1 < nc || kind == 1) {
      if (mkdir(full, 0755) == 0) { if (own) fs_track(full); else fs_keep(full); }
      else if (errno != EEXIST || stat(full, &sb) < 0 || !S_ISDIR(sb.st_mode)) { fs_error = 1; return; }
    } else {
      int fd = open(full, O_CREAT | O_EXCL | O_WRONLY, 0644);
      if (fd < 0 && errno == EEXIST && nstale && stat(full, &sb) == 0 && S_ISDIR(sb.st_mode)) {      /* a kept (empty) directory is in the way */
        fs_purge(); fs_make2(path, pn, c, cn, kind, own); return;
      }
      if (fd < 0) { if (errno != EEXIST || stat(full, &sb) < 0 || !S_ISREG(sb.st_mode)) fs_error = 1; return; }   /* first one wins */
      fs_track(full);
      if (cn && write(fd, c, cn) != (ssize_t) cn) fs_error = 1;
      close(fd);
    }
  }
}
static void fs_make(const unsigned char *path, size_t pn, const unsigned char *c, size_t cn, int kind) { fs_make2(path, pn, c, cn, kind, 0); }
/* <files> token: `-` or hexpath:hexcontent,... */
static void fs_materialise(char *tok) {
  if (!strcmp(tok, "-")) return;
  char *sv = NULL;
  for (char *it = strtok_r(tok, ",", &sv); it; it = strtok_r(NULL, ",", &sv)) {
    char *colon = strchr(it, ':'); if (!colon) { fs_error = 1; return; }
    *colon = 0;
    size_t pn, cn; unsigned char *pb = unhex(it, &pn), *cb = unhex(colon + 1, &cn);
    fs_make(pb, pn, cb, cn, 0);
    free(pb); free(cb);
  }
}
static void put_hex(FILE *f, const unsigned char *b, size_t n) { if (!n) fputc('-', f); else for (size_t i = 0; i < n; i++) fprintf(f, "%02x", b[i]); }
static void put_setfull(FILE *f, hwloc_const_bitmap_t s) { if (hwloc_bitmap_isfull(s)) fputs("full", f); else put_set(f, s); }
static int cmp_pt(const void *a, const void *b) {
  const struct hwloc_memory_page_type_s *x = a, *y = b;
  if (x->size != y->size) return x->size < y->size ? -1 : 1;
  return x->count < y->count ? -1 : x->count > y->count;
}

/* returns 1 when the op was one of the fsroot ops */
static int exec_fs_op(const char *op, char **save) {
  if (!strcmp(op, "NI") || !strcmp(op, "NU") || !strcmp(op, "NQ")) {
    char *h = strtok_r(NULL, " \n", save); size_t n; if (!h) { fputs("bad-op\n", fout); return 1; }
    unsigned char *b = unhex(h, &n);
    fs_make((const unsigned char *) "num", 3, b, n, 0); free(b);
    if (fs_error) fputs("harness-io-error\n", fout);
    else if (op[1] == 'I') { int v = 12345; if (hwloc_read_path_as_int("/num", &v, root_fd) < 0) fputs("fail\n", fout); else fprintf(fout, "ok %d\n", v); }
    else if (op[1] == 'U') { unsigned v = 12345; if (hwloc_read_path_as_uint("/num", &v, root_fd) < 0) fputs("fail\n", fout); else fprintf(fout, "ok %u\n", v); }
    else { uint64_t v = 12345; if (hwloc_read_path_as_uint64("/num", &v, root_fd) < 0) fputs("fail\n", fout); else fprintf(fout, "ok %llu\n", (unsigned long long) v); }
    fs_cleanup(); return 1;
  }
  if (!strcmp(op, "NX")) {
    int a = 1; unsigned b = 1; uint64_t c = 1;
    fprintf(fout, "%s %s %s\n", hwloc_read_path_as_int("/num", &a, root_fd) < 0 ? "fail" : "ok", hwloc_read_path_as_uint("/num", &b, root_fd) < 0 ? "fail" : "ok",
            hwloc_read_path_as_uint64("/num", &c, root_fd) < 0 ? "fail" : "ok");
    return 1;
  }
  if (!strcmp(op, "MI")) {
    char *h = strtok_r(NULL, " \n", save); if (!h) { fputs("bad-op\n", fout); return 1; }
    if (strcmp(h, "x")) { size_t n; unsigned char *b = unhex(h, &n); fs_make((const unsigned char *) "meminfo", 7, b, n, 0); free(b); }
    struct hwloc_linux_backend_data_s data; memset(&data, 0, sizeof data); data.root_fd = root_fd;
    const uint64_t sentinel = 0xdeadbeefcafef00dULL;     /* low bits set: never a `number << 10` */
    uint64_t mem = sentinel;
    if (fs_error) fputs("harness-io-error\n", fout);
    else { hwloc_parse_meminfo_info(&data, "/meminfo", &mem); if (mem == sentinel) fputs("keep\n", fout); else fprintf(fout, "ok %llu\n", (unsigned long long) mem); }
    fs_cleanup(); return 1;
  }
  if (!strcmp(op, "HP")) {
    char *d = strtok_r(NULL, " \n", save), *a = strtok_r(NULL, " \n", save), *r = strtok_r(NULL, " \n", save), *es = strtok_r(NULL, " \n", save);
    if (!d || !a || !r || !es) { fputs("bad-op\n", fout); return 1; }
    size_t dn; unsigned char *db = unhex(d, &dn);
    unsigned alloc0 = (unsigned) strtoul(a, NULL, 10); uint64_t rem = strtoull(r, NULL, 10);
    fs_make(db, dn, NULL, 0, 1);
    { /* the directory listing is what the op says: nothing kept may sit inside */
      char *dp = malloc(strlen(rootdir) + dn + 2); memcpy(dp, rootdir, strlen(rootdir)); dp[strlen(rootdir)] = '/'; memcpy(dp + strlen(rootdir) + 1, db, dn); dp[strlen(rootdir) + 1 + dn] = 0;
      DIR *dd = memchr(db, 0, dn) ? NULL : opendir(dp); int n = 0; struct dirent *de;
      if (dd) { while ((de = readdir(dd))) if (strcmp(de->d_name, ".") && strcmp(de->d_name, "..")) n++; closedir(dd); }
      free(dp);
      if (n) { fs_purge(); fs_make(db, dn, NULL, 0, 1); }
    }
    if (strcmp(es, "-")) {
      char *sv = NULL;
      for (char *it = strtok_r(es, ",", &sv); it; it = strtok_r(NULL, ",", &sv)) {
        char *colon = strchr(it, ':'); if (!colon) { fs_error = 1; break; }
        *colon = 0;
        size_t nn, cn = 0; unsigned char *nb = unhex(it, &nn), *cb = strcmp(colon + 1, "x") ? unhex(colon + 1, &cn) : NULL;
        unsigned char *pp = malloc(dn + nn + 32); size_t pl = 0;
        memcpy(pp, db, dn); pl = dn; pp[pl++] = '/'; memcpy(pp + pl, nb, nn); pl += nn;
        if (memchr(nb, '/', nn) || !nn) fs_error = 1;
        fs_make2(pp, pl, NULL, 0, 1, 1);
        if (cb) { memcpy(pp + pl, "/nr_hugepages", 13); fs_make2(pp, pl + 13, cb, cn, 0, 1); }
        free(pp); free(nb); free(cb);
      }
    }
    if (fs_error || !alloc0 || memchr(db, 0, dn)) fputs("harness-io-error\n", fout);
    else {
      struct hwloc_linux_backend_data_s data; memset(&data, 0, sizeof data); data.root_fd = root_fd;
      struct hwloc_numanode_attr_s mem; memset(&mem, 0, sizeof mem);
      mem.page_types = calloc(alloc0, sizeof(*mem.page_types)); mem.page_types_len = 1;
      char *dirpath = malloc(dn + 1); memcpy(dirpath, db, dn); dirpath[dn] = 0;
      hwloc_parse_hugepages_info(&data, dirpath, &mem, alloc0, &rem);
      if (mem.page_types_len > 1) qsort(mem.page_types + 1, mem.page_types_len - 1, sizeof(*mem.page_types), cmp_pt);
      fprintf(fout, "len=%u rem=%llu types=", mem.page_types_len, (unsigned long long) rem);
      for (unsigned i = 1; i < mem.page_types_len; i++) fprintf(fout, "%llu:%llu;", (unsigned long long) mem.page_types[i].size, (unsigned long long) mem.page_types[i].count);
      fputc('\n', fout);
      free(mem.page_types); free(dirpath);
    }
    free(db); fs_cleanup(); return 1;
  }
  if (!strcmp(op, "CN")) {
    char *fl = strtok_r(NULL, " \n", save); if (!fl) { fputs("bad-op\n", fout); return 1; }
    fs_materialise(fl);
    if (fs_error) fputs("harness-io-error\n", fout);
    else { char *n = hwloc_read_linux_cgroup_name(root_fd, 0); if (!n) fputs("none\n", fout); else { fputs("ok ", fout); put_hex(fout, (unsigned char *) n, strlen(n)); fputc('\n', fout); free(n); } }
    fs_cleanup(); return 1;
  }
  if (!strcmp(op, "MP") || !strcmp(op, "AR")) {
    char *bs = strtok_r(NULL, " \n", save), *fl = strtok_r(NULL, " \n", save); if (!bs || !fl) { fputs("bad-op\n", fout); return 1; }
    if (fs_exists("sys/fs/cgroup/cpuset.cpus.effective") || fs_exists("sys/fs/cgroup/cpuset/cpuset.cpus") || fs_exists("dev/cpuset/cpus")) fs_purge();   /* access() also accepts directories */
    fs_materialise(fl);
    if (fs_error || strtoul(bs, NULL, 10) != (unsigned long) hwloc_getpagesize() * 4) fputs("harness-io-error\n", fout);
    else if (op[0] == 'M') {
      enum hwloc_linux_cgroup_type_e t = (enum hwloc_linux_cgroup_type_e) 77; char *m = NULL;
      hwloc_find_linux_cgroup_mntpnt(&t, &m, rootdir, root_fd);
      if (!m) fputs("none\n", fout); else { fprintf(fout, "ok %d ", (int) t); put_hex(fout, (unsigned char *) m, strlen(m)); fputc('\n', fout); free(m); }
    } else {
      struct hwloc_topology *t = calloc(1, sizeof *t); char *name = (char *) 1;
      t->pid = 0; t->allowed_cpuset = hwloc_bitmap_alloc_full(); t->allowed_nodeset = hwloc_bitmap_alloc_full();
      hwloc_linux__get_allowed_resources(t, rootdir, root_fd, &name);
      fputs("name=", fout); if (name) put_hex(fout, (unsigned char *) name, strlen(name)); else fputs("none", fout);
      fputs(" cpus=", fout); put_setfull(fout, t->allowed_cpuset); fputs(" mems=", fout); put_setfull(fout, t->allowed_nodeset); fputc('\n', fout);
      free(name); hwloc_bitmap_free(t->allowed_cpuset); hwloc_bitmap_free(t->allowed_nodeset); free(t);
    }
    fs_cleanup(); return 1;
  }
  if (!strcmp(op, "AD")) {
    char *t = strtok_r(NULL, " \n", save), *m = strtok_r(NULL, " \n", save), *n = strtok_r(NULL, " \n", save), *a = strtok_r(NULL, " \n", save), *fl = strtok_r(NULL, " \n", save);
    if (!t || !m || !n || !a || !fl || (strcmp(a, "c") && strcmp(a, "m")) || strlen(t) != 1 || t[0] < '0' || t[0] > '2') { fputs("bad-op\n", fout); return 1; }
    size_t mn, nn; unsigned char *mb = unhex(m, &mn), *nb = unhex(n, &nn);
    fs_materialise(fl);
    if (fs_error || memchr(mb, 0, mn) || memchr(nb, 0, nn)) fputs("harness-io-error\n", fout);
    else {
      hwloc_bitmap_t s = mk_dst((unsigned) (mn * 7 + nn));
      hwloc_admin_disable_set_from_cgroup(root_fd, (enum hwloc_linux_cgroup_type_e) (t[0] - '0'), (char *) mb, (char *) nb, a[0] == 'c' ? "cpus" : "mems", s);
      put_setfull(fout, s); fputc('\n', fout); hwloc_bitmap_free(s);
    }
    free(mb); free(nb); fs_cleanup(); return 1;
  }
  return 0;
}

static unsigned long nops_done;
static void exec_line(char *line) {
  char *save = NULL, *op = strtok_r(line, " \n", &save);
  if (!op) return;
  nops_done++;
  if (!strcmp(op, "CLX") || !strcmp(op, "CMX")) {
    char missing[1300]; snprintf(missing, sizeof missing, "%s.missing", scratch);
    do_parse(fout, op[1] == 'L', missing, (unsigned) nops_done); fputc('\n', fout);
  } else if (!strcmp(op, "CL") || !strcmp(op, "CM")) {
    char *h = strtok_r(NULL, " \n", &save); size_t n; if (!h) { fputs("bad-op\n", fout); return; }
    unsigned char *b = unhex(h, &n);
    int list = op[1] == 'L';
    if (write_scratch(b, n) < 0) { fputs("harness-io-error\n", fout); free(b); return; }
    if (list && risky(b, n)) {
      int pfd[2], efd[2]; if (pipe(pfd) < 0 || pipe(efd) < 0) { fputs("harness-io-error\n", fout); free(b); return; }
      fflush(fout); fflush(fops);
      pid_t pid = fork();
      if (pid == 0) {
        close(pfd[0]); close(efd[0]); dup2(efd[1], 2);
        FILE *pf = fdopen(pfd[1], "w");
        alarm(120);
        do_parse(pf, 1, scratch, (unsigned) nops_done); fflush(pf);
        _exit(0);
      }
      close(pfd[1]); close(efd[1]);
      size_t rcap = 1 << 16, got = 0; char *res = malloc(rcap); ssize_t r;
      while ((r = read(pfd[0], res + got, rcap - 1 - got)) > 0) { got += r; if (got + 1 >= rcap) res = realloc(res, rcap *= 2); }
      res[got] = 0; close(pfd[0]);
      char errb[8192]; size_t egot = 0;
      while ((r = read(efd[0], errb + egot, sizeof errb - 1 - egot)) > 0) egot += r;
      errb[egot] = 0; { char drain[4096]; while (read(efd[0], drain, sizeof drain) > 0); } close(efd[0]);
      int st = 0; waitpid(pid, &st, 0);
      if (WIFEXITED(st) && WEXITSTATUS(st) == 0) fprintf(fout, "%s\n", res);
      else if (strstr(errb, "signed integer overflow")) fputs("ub\n", fout);
      else { fprintf(fout, "crash status=%d\n", st); fprintf(stderr, "child of op %lu died:\n%s\n", nops_done, errb); }
      free(res);
    } else { do_parse(fout, list, scratch, (unsigned) nops_done); fputc('\n', fout); }
    free(b);
  } else if (!strcmp(op, "RF")) {
    char *s0 = strtok_r(NULL, " \n", &save), *rs = strtok_r(NULL, " \n", &save);
    if (!s0 || !rs) { fputs("bad-op\n", fout); return; }
    size_t size = strtoul(s0, NULL, 10);
    script_n = 0; script_pos = 0; script_stream = 0;
    if (strcmp(rs, "-")) { char *sv = NULL; for (char *t = strtok_r(rs, ",", &sv); t && script_n < 64; t = strtok_r(NULL, ",", &sv)) script_vals[script_n++] = strtol(t, NULL, 10); }
    if (size == 0) { fputs("hang\n", fout); return; }     /* the C loop would never end: not executed */
    write_scratch((const unsigned char *) "", 0);
    int fd = open(scratch, O_RDONLY);
    char *buf = NULL;
    script_on = 1; script_fd = fd;
    int err = hwloc__read_fd(fd, &buf, &size);
    script_on = 0; close(fd);
    if (err < 0) fputs("err\n", fout);
    else {
      size_t tot = strlen(buf); int good = tot == script_stream;
      for (size_t i = 0; i < tot; i++) if (buf[i] != (char) ('A' + i % 23)) good = 0;
      fprintf(fout, "ok %zu %zu%s\n", size, tot, good ? "" : " CONTENT-MISMATCH");
      free(buf);
    }
  } else if (exec_fs_op(op, &save)) {
  } else fputs("bad-op\n", fout);
}

/* ---------------- generators ---------------- */
static unsigned char gb[70000]; static size_t gn;
static void g_putc(int c) { if (gn < sizeof gb - 1) gb[gn++] = (unsigned char) c; }
static void g_puts(const char *s) { while (*s) g_putc(*s++); }
static void g_printf(const char *fmt, unsigned long v) { char t[64]; snprintf(t, sizeof t, fmt, v); g_puts(t); }

static unsigned long boundary_idx(void) {
  static const unsigned long b[] = {0, 1, 2, 31, 32, 33, 63, 64, 65, 127, 128, 129, 255, 256, 511, 512, 513, 1023, 1024, 4095, 4096, 8191, 8192};
  static const unsigned long big[] = {16383, 16384, 65535, 65536, 99999, 131071, 131072, 999999};   /* costly in the list-based model: rarer */
  if (rng_chance(6)) return big[rng_below(sizeof big / sizeof *big)];
  return b[rng_below(sizeof b / sizeof *b)];
}
static const char *weird_num(void) {
  static const char *w[] = {"2147483647", "2147483648", "2147483646", "4294967295", "4294967296", "4294967297", "4294967294",
    "18446744073709551615", "18446744073709551616", "9223372036854775808", "0x7fffffff", "0x80000000", "0xffffffff", "0x100000000",
    "020000000000", "-1", "-2", "-5", "+3", "0x10", "010", "08", "0x", "0xg", " 7", "\t9", "-0x10", "--3", "+-3", "- 3",
    "-18446744073709551615", "-18446744073709551616", "-4294967296", "-4294967290", "16777215", "16777216", "16777217", "1000000", "0000000000012",
    "4294967296000", "6442450943", "6442450944", "0X1F", "1e3", "12abc"};
  return w[rng_below(sizeof w / sizeof *w)];
}
/* a well-formed kernel list: ascending disjoint items */
static void gen_valid_list(unsigned maxitems, unsigned long maxgap, unsigned long maxlen, int newline) {
  unsigned n = 1 + rng_below(maxitems); unsigned long cur = rng_chance(50) ? 0 : rng_below((unsigned) maxgap);
  for (unsigned i = 0; i < n; i++) {
    unsigned long len = rng_chance(40) ? 0 : rng_below((unsigned) maxlen);
    if (rng_chance(10)) { unsigned long t = boundary_idx(); if (t > cur) cur = t; }
    if (i) g_putc(',');
    if (len) { g_printf("%lu", cur); g_putc('-'); g_printf("%lu", cur + len); } else g_printf("%lu", cur);
    cur += len + 2 + rng_below((unsigned) maxgap);
  }
  if (newline) g_putc('\n');
}
static void gen_valid_mask(unsigned ngroups, int style) {
  /* style 0: %08x groups (kernel); 1: unpadded; 2: mixed */
  unsigned lead0 = rng_chance(30) ? rng_below(ngroups) : 0;
  for (unsigned i = 0; i < ngroups; i++) {
    unsigned long g = i < lead0 ? 0 : rng_chance(20) ? 0 : rng_chance(20) ? 0xffffffffUL : rng_chance(20) ? (1UL << rng_below(32)) : (rng_next() & 0xffffffffUL);
    if (i) g_putc(',');
    int st = style == 2 ? (int) rng_below(2) : style;
    g_printf(st == 0 ? "%08lx" : "%lx", g);
  }
  g_putc('\n');
}
static void mutate(unsigned times, const char *alphabet) {
  size_t al = strlen(alphabet);
  for (unsigned k = 0; k < times && gn < sizeof gb - 100; k++) {
    unsigned m = rng_below(7); size_t p = gn ? rng_below((unsigned) gn) : 0;
    switch (m) {
    case 0: if (gn) { memmove(gb + p, gb + p + 1, gn - p - 1); gn--; } break;                                   /* drop */
    case 1: if (gn) { memmove(gb + p + 1, gb + p, gn - p); gn++; } break;                                        /* dup */
    case 2: if (gn > 1 && p + 1 < gn) { unsigned char t = gb[p]; gb[p] = gb[p + 1]; gb[p + 1] = t; } break;      /* swap */
    case 3: memmove(gb + p + 1, gb + p, gn - p); gb[p] = (unsigned char) alphabet[rng_below((unsigned) al)]; gn++; break;   /* insert */
    case 4: if (gn) gb[p] = (unsigned char) alphabet[rng_below((unsigned) al)]; break;                          /* replace */
    case 5: { const char *w = weird_num(); size_t wl = strlen(w); memmove(gb + p + wl, gb + p, gn - p); memcpy(gb + p, w, wl); gn += wl; break; }
    case 6: if (gn) gn = p; break;                                                                               /* truncate */
    }
  }
}
static void emit(const char *op, const char *bucket, unsigned long *stats_slot) {
  fputs(op, fops); fputc(' ', fops);
  if (!gn) fputc('-', fops); else for (size_t i = 0; i < gn; i++) fprintf(fops, "%02x", gb[i]);
  fputc('\n', fops);
  (void) bucket; (*stats_slot)++;
}

enum { B_CL_VALID, B_CL_VALID_BIG, B_CL_LONGFILE, B_CL_BOUNDARY, B_CL_WEIRD, B_CL_MUT, B_CL_RAW, B_CL_EMPTY, B_CL_DESC, B_CL_MISSING,
       B_CM_VALID, B_CM_UNPADDED, B_CM_LONGFILE, B_CM_MUT, B_CM_OVERLONG, B_CM_RAW, B_CM_EMPTY, B_CM_MISSING,
       B_RF_SINGLE, B_RF_GROW, B_RF_SHORT, B_RF_ERR, B_N };
static const char *bnames[B_N] = {"cl.valid", "cl.valid-wide", "cl.longfile", "cl.boundary", "cl.weird-number", "cl.mutant", "cl.raw", "cl.empty", "cl.descending", "cl.missing",
       "cm.valid", "cm.unpadded", "cm.longfile", "cm.mutant", "cm.overlong-group", "cm.raw", "cm.empty", "cm.missing",
       "rf.single-read", "rf.grow", "rf.short-read", "rf.error"};
static unsigned long stats[B_N];


/* ---------------- generators for the fsroot ops ---------------- */
enum { B_NUM_VALID = 0, B_NUM_EDGE, B_NUM_MUT, B_NUM_MISSING, B_MI_VALID, B_MI_MUT, B_MI_LONG, B_HP, B_CN_CPUSET, B_CN_CGROUP, B_CN_LONGLINE, B_CN_MUT,
       B_MP_STD, B_MP_V1, B_MP_V2, B_MP_CPUSET, B_MP_NONE, B_MP_LONGLINE, B_MP_MUT, B_AD, B_AD_TRUNC, B_AR, B_AR_MUT, B2_N };
static const char *b2names[B2_N] = {"num.valid", "num.edge", "num.mutant", "num.missing", "meminfo.valid", "meminfo.mutant", "meminfo.beyond-buffer", "hugepages",
       "cgname.cpuset-file", "cgname.cgroup-file", "cgname.long-line", "cgname.mutant", "mntpnt.standard", "mntpnt.cgroup1", "mntpnt.cgroup2", "mntpnt.cpuset",
       "mntpnt.none", "mntpnt.long-line", "mntpnt.mutant", "admin.path", "admin.truncated-path", "allowed.composed", "allowed.mutant"};
static unsigned long stats2[B2_N];

struct gfile { unsigned char *p; size_t pn; unsigned char *c; size_t cn; };
static struct gfile gf[40]; static unsigned ngf;
static void gf_reset(void) { for (unsigned i = 0; i < ngf; i++) { free(gf[i].p); free(gf[i].c); } ngf = 0; }
static void gf_add(const char *path, size_t pn, const unsigned char *c, size_t cn) {
  if (ngf >= 40) return;
  gf[ngf].p = malloc(pn + 1); memcpy(gf[ngf].p, path, pn); gf[ngf].pn = pn;
  gf[ngf].c = malloc(cn + 1); if (cn) memcpy(gf[ngf].c, c, cn); gf[ngf].cn = cn; ngf++;
}
static void gf_adds(const char *path, const char *content) { gf_add(path, strlen(path), (const unsigned char *) content, strlen(content)); }
static void gf_add_gb(const char *path) { gf_add(path, strlen(path), gb, gn); }
static void fput_hex(const unsigned char *b, size_t n) { if (!n) fputc('-', fops); else for (size_t i = 0; i < n; i++) fprintf(fops, "%02x", b[i]); }
static void gf_emit(void) {
  if (!ngf) { fputc('-', fops); return; }
  for (unsigned i = 0; i < ngf; i++) { if (i) fputc(',', fops); fput_hex(gf[i].p, gf[i].pn); fputc(':', fops); fput_hex(gf[i].c, gf[i].cn); }
}
static void no_dotdot(void) { for (size_t i = 0; i + 1 < gn; i++) if (gb[i] == '.' && gb[i + 1] == '.') gb[i + 1] = 'x'; }
static const char mut_text[] = "0123456789 \t\n:,#\\/cpuset\0\0x-";
static void mutate_text(unsigned times) {      /* like mutate(), with an alphabet that may hold NUL bytes */
  for (unsigned k = 0; k < times && gn < sizeof gb - 100; k++) {
    unsigned m = rng_below(6); size_t p = gn ? rng_below((unsigned) gn) : 0; unsigned char ch = (unsigned char) mut_text[rng_below(sizeof mut_text - 1)];
    switch (m) {
    case 0: if (gn) { memmove(gb + p, gb + p + 1, gn - p - 1); gn--; } break;
    case 1: if (gn) { memmove(gb + p + 1, gb + p, gn - p); gn++; } break;
    case 2: if (gn > 1 && p + 1 < gn) { unsigned char t = gb[p]; gb[p] = gb[p + 1]; gb[p + 1] = t; } break;
    case 3: memmove(gb + p + 1, gb + p, gn - p); gb[p] = ch; gn++; break;
    case 4: if (gn) gb[p] = ch; break;
    case 5: if (gn) gn = p; break;
    }
  }
  no_dotdot();
}

/* --- numbers --- */
static void gen_num(void) {
  static const char *edge[] = {"0\n", "1\n", "-1\n", "+7\n", " 42\n", "\t-42\n", "2147483647\n", "2147483648\n", "-2147483648\n", "-2147483649", "4294967295\n", "4294967296\n",
    "9999999999\n", "99999999999\n", "12345678901234\n", "18446744073709551615\n", "18446744073709551616\n", "-18446744073709551615", "9223372036854775807\n", "9223372036854775808\n",
    "-9223372036854775808\n", "-9223372036854775809\n", "184467440737095516150\n", "999999999999999999999\n", "1234567890123456789012\n", "0x10\n", "010\n", "1e3\n", "12abc\n", "abc\n", "\n", " ",
    "--1\n", "+-1\n", "- 1\n", "00000000012\n", "000000000000000000000123\n", "4294967297\n", "-4294967295\n", "3000000000\n", "\v\f\r 5\n",
    "000000000000000000123\n", "0000000000000000000123\n", "00000000000000000123\n", "0000000123\n", "000000123\n", "-000000012\n", "-0000000012\n", "+000000000000000000012\n", "123456789012345678901\n", "12345678901234567890\n"};
  unsigned k = rng_below(100); const char *ops[] = {"NI", "NU", "NQ"}; const char *op = ops[rng_below(3)];
  if (k < 3) { fputs("NX\n", fops); stats2[B_NUM_MISSING]++; return; }
  if (k < 40) { unsigned long long v = rng_chance(50) ? rng_below(70000) : rng_chance(50) ? (rng_next() & 0xffffffffULL) : rng_next(); if (rng_chance(15)) g_putc('-');
    char t[32]; snprintf(t, sizeof t, "%llu", v >> rng_below(40)); g_puts(t); if (!rng_chance(8)) g_putc('\n'); emit(op, "", &stats2[B_NUM_VALID]); return; }
  if (k < 75) { g_puts(edge[rng_below(sizeof edge / sizeof *edge)]); emit(op, "", &stats2[B_NUM_EDGE]); return; }
  g_puts(edge[rng_below(sizeof edge / sizeof *edge)]);
  { unsigned t = 1 + rng_below(3); for (unsigned i = 0; i < t; i++) { unsigned m = rng_below(4); size_t p = gn ? rng_below((unsigned) gn) : 0; static const char al[] = "0123456789-+ \n\0x9";
      if (m == 0 && gn) { memmove(gb + p, gb + p + 1, gn - p - 1); gn--; } else if (m == 1) { memmove(gb + p + 1, gb + p, gn - p); gb[p] = (unsigned char) al[rng_below(sizeof al - 1)]; gn++; }
      else if (m == 2 && gn) gb[p] = (unsigned char) al[rng_below(sizeof al - 1)]; else if (gn) gn = p; } }
  emit(op, "", &stats2[B_NUM_MUT]);
}

/* --- meminfo --- */
static void gen_meminfo_text(int node) {
  static const char *keys[] = {"MemFree", "MemUsed", "Active", "Inactive", "HugePages_Total", "HugePages_Free", "SwapTotal", "Buffers", "Cached", "MemAvailable", "XMemTotal", "MemTotal2", "memtotal"};
  unsigned n = rng_below(9), at = rng_below(n + 1); int has = !rng_chance(12);
  for (unsigned i = 0; i <= n; i++) {
    char t[96];
    if (i == at && has) {
      unsigned long long v = rng_chance(60) ? rng_below(1u << 30) : rng_chance(50) ? rng_next() >> rng_below(30) : 18014398509481983ULL + rng_below(3);
      if (node) snprintf(t, sizeof t, "Node %d MemTotal: %*llu kB\n", node - 1, (int) rng_below(12), v); else snprintf(t, sizeof t, "MemTotal: %*llu kB\n", (int) rng_below(12), v);
      g_puts(t);
      if (rng_chance(10)) { snprintf(t, sizeof t, "MemTotal: %u kB\n", rng_below(1000)); g_puts(t); }        /* a second key: the first one wins */
    }
    if (i < n) { const char *k = keys[rng_below(sizeof keys / sizeof *keys)];
      if (node) snprintf(t, sizeof t, "Node %d %s: %8u kB\n", node - 1, k, rng_below(1u << 24)); else snprintf(t, sizeof t, "%s: %8u kB\n", k, rng_below(1u << 24)); g_puts(t); }
  }
}
static void gen_meminfo(void) {
  unsigned k = rng_below(100);
  if (k < 3) { fputs("MI x\n", fops); stats2[B_MI_VALID]++; return; }
  if (k < 45) { gen_meminfo_text(rng_chance(50) ? 1 + rng_below(20) : 0); emit("MI", "", &stats2[B_MI_VALID]); return; }
  if (k < 60) {    /* the key near / across / beyond the 4095-byte read */
    unsigned pad = 4095 - 30 + rng_below(40); while (gn + 20 < pad) g_puts("Filler:       1 kB\n"); while (gn < pad) g_putc('x');
    g_puts("MemTotal: 123456 kB\n"); emit("MI", "", &stats2[B_MI_LONG]); return; }
  if (k < 70) { static const char *w[] = {"MemTotal: ", "MemTotal:", "MemTotal:  \n", "MemTotal: -5 kB\n", "MemTotal: 18446744073709551615 kB\n", "MemTotal: 99999999999999999999999 kB\n", "MemTotal: 0x10 kB\n",
      "MemTotal:\t7 kB\n", "MemTotal: MemTotal: 9 kB\n", "MemTotalMemTotal: 11 kB\n", "MemTotal: \n12 kB\n", "MemTotal: +13 kB\n", "", "\n", "MemTotal: 18014398509481984 kB\n", "MemTotal: 36028797018963967 kB\n"};
    g_puts(w[rng_below(sizeof w / sizeof *w)]); emit("MI", "", &stats2[B_MI_MUT]); return; }
  gen_meminfo_text(rng_chance(50) ? 1 + rng_below(20) : 0);
  { unsigned t = 1 + rng_below(3); static const char al[] = "MemTotal: 0123456789\n\0k"; for (unsigned i = 0; i < t; i++) { unsigned m = rng_below(4); size_t p = gn ? rng_below((unsigned) gn) : 0;
      if (m == 0 && gn) { memmove(gb + p, gb + p + 1, gn - p - 1); gn--; } else if (m == 1) { memmove(gb + p + 1, gb + p, gn - p); gb[p] = (unsigned char) al[rng_below(sizeof al - 1)]; gn++; }
      else if (m == 2 && gn) gb[p] = (unsigned char) al[rng_below(sizeof al - 1)]; else if (gn) gn = p; } }
  emit("MI", "", &stats2[B_MI_MUT]);
}

/* --- hugepages --- */
static void gen_hugepages(void) {
  static const char *dirs[] = {"/hp", "/sys/kernel/mm/hugepages", "/sys/devices/system/node/node12/hugepages", "/sys/devices/system/node/node1234567/hugepages/",
    "/d/aaaaaaaaaaaaaaaaaaaaaaaaaaaaaaaaaaaaaaaaaaaaaaaaaaaaaaaaaaaaaaaaaaaaaaaaaaaaaaaaaaaaaaaaaaaaaaaaaaaaaa"};
  static const char *names[] = {"hugepages-2048kB", "hugepages-1048576kB", "hugepages-64kB", "hugepages-32768kB", "hugepages-0x10kB", "hugepages-", "hugepages-abc", "hugepages--5kB", "hugepage-2048kB",
    "other", "hugepages-18446744073709551615kB", "hugepages-18014398509481984kB", "hugepages-010kB", "hugepages- 7kB", "hugepages-16384kB", "hugepages-524288kB", "Hugepages-4kB", "hugepages-2048kBxxxxxxxxxxxxxxxxxxxxxxxxxxxxxxxxxxxxxxxxxxxxxxxxxxxxxxxxxxxxxxxx"};
  static const char *conts[] = {"0\n", "12\n", "512\n", "0x20\n", "", "abc", "-1\n", "99999999999999999999999\n", "1\n", "7", "010\n", " 3\n", "4096\n",
    "0000000000000000000000000000000000000000000000000000000000000000000012\n", "123456789012345678901234567890123456789012345678901234567890123456789\n"};
  const char *d = dirs[rng_below(sizeof dirs / sizeof *dirs)];
  char dbuf[200]; snprintf(dbuf, sizeof dbuf, "%s", d);
  if (rng_chance(30)) { size_t l = strlen(dbuf); unsigned extra = rng_below(80); if (dbuf[l - 1] != '/') dbuf[l++] = '/'; for (unsigned i = 0; i < extra && l < 190; i++) dbuf[l++] = 'q'; dbuf[l] = 0; if (dbuf[l - 1] == '/') dbuf[l - 1] = 0; }
  unsigned n = rng_below(7); int used[32] = {0};
  fputs("HP ", fops); fput_hex((unsigned char *) dbuf, strlen(dbuf));
  fprintf(fops, " %u %llu ", 1 + rng_below(4), (unsigned long long) (rng_chance(20) ? 0 : rng_chance(50) ? rng_next() : rng_next() >> 24));
  char *eb = NULL; size_t el = 0; FILE *ef = open_memstream(&eb, &el); FILE *keep = fops; int first = 1;
  fops = ef;
  for (unsigned i = 0; i < n; i++) {
    unsigned k = rng_below(sizeof names / sizeof *names); if (used[k]) continue; used[k] = 1;
    char nm[300]; snprintf(nm, sizeof nm, "%s", names[k]);
    if (rng_chance(10)) { size_t l = strlen(nm); unsigned extra = rng_below(100); for (unsigned j = 0; j < extra; j++) nm[l++] = 'y'; nm[l] = 0; }
    if (!first) fputc(',', fops); first = 0;
    fput_hex((unsigned char *) nm, strlen(nm)); fputc(':', fops);
    if (rng_chance(12)) fputc('x', fops); else { const char *c = conts[rng_below(sizeof conts / sizeof *conts)]; fput_hex((const unsigned char *) c, strlen(c)); }
  }
  fclose(ef); fops = keep;
  fputs(el ? eb : "-", fops); free(eb);
  fputc('\n', fops); stats2[B_HP]++;
}

/* --- cgroup name --- */
static void gen_cgroup_lines(int *longline) {
  static const char *ln[] = {"12:cpuset:/grp1\n", "0::/user.slice/session-1.scope\n", "11:memory:/x\n", "3:cpu,cpuacct:/\n", "4:cpuset,cpu:/co\n", "5:cpu,cpuset:/y\n", "1:name=systemd:/z\n",
    "cpuset:/q\n", ":cpuset:/w\n", "::\n", "0::", "7:cpuset:", "7:cpuset:\n", "no colon here\n", "\n", "2:cpuset:/a:b\n", "6:cpusets:/n\n", "8:cpuset/m\n", "9:blkio:/user.slice\n", "0::/\n", "10:cpuset:/\n",
    "13:cpuset:/docker/0123456789abcdef0123456789abcdef0123456789abcdef0123456789abcdef\n", "0::/kubepods.slice/kubepods-burstable.slice/pod1\n", "14:CPUSET:/up\n"};
  unsigned n = rng_below(7);
  for (unsigned i = 0; i < n; i++) {
    if (rng_chance(6)) {       /* a line longer than the 256-byte fgets buffer: its tail is seen as a line of its own */
      unsigned pad = 230 + rng_below(50); g_puts("9:memory:/"); for (unsigned j = 0; j < pad; j++) g_putc('m'); g_puts(rng_chance(50) ? ":cpuset:/late\n" : "::/late2\n"); *longline = 1;
    } else g_puts(ln[rng_below(sizeof ln / sizeof *ln)]);
  }
}
static void gen_cpuset_file(void) {
  static const char *cs[] = {"/\n", "/user.slice\n", "", "\n", "/a\nb\n", "/grp1", "/grp1\n", "/x/y\n"};
  if (rng_chance(12)) { unsigned l = 120 + rng_below(15); g_putc('/'); for (unsigned j = 0; j < l; j++) g_putc('n'); g_putc('\n'); }
  else g_puts(cs[rng_below(sizeof cs / sizeof *cs)]);
}
static void gen_cgname(void) {
  int longline = 0, mut = 0, hascs = 0;
  gf_reset();
  if (rng_chance(35)) { gn = 0; gen_cpuset_file(); if (rng_chance(15)) { mutate_text(1); mut = 1; } gf_add_gb("/proc/self/cpuset"); hascs = 1; }
  if (rng_chance(88)) { gn = 0; gen_cgroup_lines(&longline); if (rng_chance(25)) { mutate_text(1 + rng_below(3)); mut = 1; } gf_add_gb("/proc/self/cgroup"); }
  fputs("CN ", fops); gf_emit(); fputc('\n', fops);
  stats2[mut ? B_CN_MUT : longline ? B_CN_LONGLINE : hascs ? B_CN_CPUSET : B_CN_CGROUP]++;
}

/* --- mount points --- */
static const char *mdirs[] = {"/cg2", "/cgv1/cpuset", "/sys/fs/cgroup/unified", "/my cg", "/t\tab", "/n\nl", "/b\\s", "/cs", "/sys/fs/cgroup/cpu,cpuset", "/dev/cpuset", "/sys/fs/cgroup",
  "/Laaaaaaaaaaaaaaaaaaaaaaaaaaaaaaaaaaaaaaaaaaaaaaaaaaaaaaaaaaaaaaaaaaaaaaaaaaaaaaaaaaaaaaaaaaaaaaaaaaaaaaaaaaaaaaaaaaaaaaaaaaaaaaaaaaaaaaaaaaaaaaaa/bbbbbbbbbbbbbbbbbbbbbbbbbbbbbbbbbbbbbbbbbbbbbbbbbbbbbbbbbbbbbbbbbbbbbbbbbbbbbbbbbbbbbbbbbbbbbbbbbbbb"};
#define NMDIRS (sizeof mdirs / sizeof *mdirs)
static void pick_dir(char *out, size_t cap) {
  unsigned k = rng_below(NMDIRS);
  snprintf(out, cap, "%s", mdirs[k]);
  if (k == NMDIRS - 1) { size_t l = strlen(out); unsigned extra = rng_below(22); for (unsigned i = 0; i < extra; i++) out[l++] = 'c'; out[l] = 0; }   /* 225 .. 246 bytes: around the 256-byte path buffers */
}
static void g_escaped(const char *s) {      /* as the kernel prints a field of /proc/mounts */
  for (; *s; s++) { if (*s == ' ') g_puts("\\040"); else if (*s == '\t') g_puts("\\011"); else if (*s == '\n') g_puts("\\012"); else if (*s == '\\') g_puts(rng_chance(50) ? "\\134" : "\\\\"); else g_putc(*s); }
}
static void gf_add_trunc(const char *full, const char *content) {      /* the file the C will really open: the name cut at 255 bytes */
  size_t l = strlen(full); if (l > 255) l = 255;
  if (l && full[l - 1] != '/') gf_add(full, l, (const unsigned char *) content, strlen(content));
}
static const char *sep(void) { static const char *s[] = {" ", " ", " ", " ", "\t", "  ", " \t "}; return s[rng_below(7)]; }
/* one line of /proc/mounts; *kind gets the bucket of the strongest line */
static void gen_mount_line(int *kind) {
  static const char *noise[] = {"proc /proc proc rw,nosuid,nodev,noexec,relatime 0 0\n", "sysfs /sys sysfs rw 0 0\n", "tmpfs /sys/fs/cgroup tmpfs ro,nosuid,nodev,noexec,mode=755 0 0\n",
    "/dev/sda1 / ext4 rw,relatime 0 0\n", "cgroup /sys/fs/cgroup/memory cgroup rw,nosuid,nodev,noexec,relatime,memory 0 0\n", "# a comment cgroup /c cpuset rw 0 0\n", "\n", "   \n", " \t\n",
    "cgroup\n", "cgroup /onlydir\n", "a b\tc\n", "systemd-1 /proc/sys/fs/binfmt_misc autofs rw,ignore 0 0\n", "none /x cpusetx rw 0 0\n", "none /x xcpuset rw 0 0\n", "cgroup /y cgroup3 rw,cpuset 0 0\n",
    "cgroup /z Cgroup rw,cpuset 0 0\n", "cgroup /nl cgroup\n", "cgroup2 /nl2 cgroup2\n", "  # indented comment\n", "cgroup /e cgroup rw,cpuset\\040 0 0\n", "cgroup /e2 cg\\134roup rw,cpuset 0 0\n"};
  static const char *v1opts[] = {"rw,nosuid,nodev,noexec,relatime,cpuset", "rw,cpuset,cpu,cpuacct", "cpuset", "rw,cpuset,noprefix", "noprefix,cpuset", "rw,noprefix", "rw,cpusets", "rw,xcpuset", "", "rw,,cpuset", "cpuset,",
    "rw,cpuset,clone_children", "rw,cpu,cpuacct", "rw,cpuset\\040x", "rw\\054cpuset"};
  static const char *ctrls[] = {"cpuset cpu io memory hugetlb pids rdma misc\n", "cpu io memory\n", "cpuset\n", "cpu cpuset", "cpusets cpu\n", "xcpuset\n", "cpu\ncpuset\n", "", " cpuset\n", "cpu  cpuset \n", "cpuset\tcpu\n", "\n"};
  char d[400]; unsigned k = rng_below(100);
  if (k < 40) { g_puts(noise[rng_below(sizeof noise / sizeof *noise)]); return; }
  pick_dir(d, sizeof d);
  if (rng_chance(8)) g_puts(sep());
  if (k < 62) {             /* cgroup v1 */
    g_puts("cgroup"); g_puts(sep()); g_escaped(d); g_puts(sep()); g_puts("cgroup"); g_puts(sep()); g_puts(v1opts[rng_below(sizeof v1opts / sizeof *v1opts)]); if (rng_chance(85)) { g_puts(sep()); g_puts("0 0"); }
    if (*kind < 1) *kind = 1;
  } else if (k < 86) {      /* cgroup v2: needs <dir>/cgroup.controllers */
    g_puts("cgroup2"); g_puts(sep()); g_escaped(d); g_puts(sep()); g_puts("cgroup2"); g_puts(sep()); g_puts("rw,nosuid,nodev,noexec,relatime,nsdelegate"); if (rng_chance(85)) { g_puts(sep()); g_puts("0 0"); }
    if (rng_chance(85)) { char f[500]; snprintf(f, sizeof f, "%s/cgroup.controllers", d);
      if (rng_chance(8)) { char big[1200]; unsigned pad = 1000 + rng_below(40); memset(big, 'c', pad); big[pad] = 0; strcat(big, " cpuset cpu\n"); gf_add_trunc(f, big); }   /* `cpuset` around byte 1023 */
      else gf_add_trunc(f, ctrls[rng_below(sizeof ctrls / sizeof *ctrls)]); }
    if (*kind < 2) *kind = 2;
  } else {                  /* cpuset pseudo file system */
    g_puts(rng_chance(50) ? "none" : "cpuset"); g_puts(sep()); g_escaped(d); g_puts(sep()); g_puts("cpuset"); g_puts(sep()); g_puts("rw,relatime"); if (rng_chance(85)) { g_puts(sep()); g_puts("0 0"); }
    if (*kind < 3) *kind = 3;
  }
  if (rng_chance(10)) g_puts(sep());
  g_putc('\n');
}
/* builds the mounts content in gb and the cgroup.controllers files in gf; returns the bucket */
static int gen_mounts_content(void) {
  int kind = 0, bucket; unsigned n = rng_below(7);
  gn = 0;
  for (unsigned i = 0; i < n; i++) {
    if (rng_chance(3)) {    /* a line beyond the 4-page getmntent buffer: cut there, the rest is forgotten */
      unsigned pad = 16300 + rng_below(200); g_puts("cgroup /long cgroup rw,"); while (gn < pad) g_putc('o'); g_puts(",cpuset 0 0\n"); kind = 9;
    } else gen_mount_line(&kind);
  }
  if (gn && rng_chance(10)) gn--;        /* no final newline */
  bucket = kind == 9 ? B_MP_LONGLINE : kind == 1 ? B_MP_V1 : kind == 2 ? B_MP_V2 : kind == 3 ? B_MP_CPUSET : B_MP_NONE;
  if (rng_chance(18)) { mutate_text(1 + rng_below(3)); bucket = B_MP_MUT; }
  no_dotdot();
  return bucket;
}
static int gen_std_mounts(void) {
  int any = 0;
  if (rng_chance(5)) { gf_adds("/sys/fs/cgroup/cpuset.cpus.effective", "0-3\n"); any = 1; }
  if (rng_chance(5)) { gf_adds("/sys/fs/cgroup/cpuset/cpuset.cpus", "0-3\n"); any = 1; }
  if (rng_chance(5)) { gf_adds("/dev/cpuset/cpus", "0-3\n"); any = 1; }
  return any;
}
static void gen_mntpnt(void) {
  gf_reset();
  int std = gen_std_mounts(), bucket = B_MP_NONE;
  if (rng_chance(95)) { bucket = gen_mounts_content(); gf_add_gb("/proc/mounts"); }
  fprintf(fops, "MP %lu ", (unsigned long) hwloc_getpagesize() * 4); gf_emit(); fputc('\n', fops);
  stats2[std ? B_MP_STD : bucket]++;
}

/* --- cpuset files --- */
static const char *small_list(void) {
  static const char *l[] = {"0-3\n", "0,2-5\n", "1\n", "0-63\n", "64-127\n", "0-1,4-5,8-9\n", "", "\n", "3-2\n", "x\n", "0-3", "5,\n", "2-\n", "0-3\0garbage", " 4\n", "0-255\n", "7,9\n"};
  return l[rng_below(sizeof l / sizeof *l)];
}
static const char *cg_names[] = {"/grp1", "/user.slice/session-1.scope", "/", "", "/x/y", "/a b", "/docker/0123456789abcdef0123456789abcdef0123456789abcdef0123456789abcdef", "grp"};
static void add_cpuset_files(const char *mnt, const char *name) {
  static const char *suf[] = {"/cpuset.cpus.effective", "/cpuset.mems.effective", "/cpuset.cpus", "/cpuset.mems", "/cpus", "/mems"};
  for (unsigned i = 0; i < 6; i++) if (rng_chance(70)) { char f[1200]; snprintf(f, sizeof f, "%s%s%s", mnt, name, suf[i]); gf_add_trunc(f, small_list()); }
}
static void gen_admin(void) {
  char d[400]; pick_dir(d, sizeof d);
  const char *name = cg_names[rng_below(sizeof cg_names / sizeof *cg_names)];
  char nm[300]; snprintf(nm, sizeof nm, "%s", name);
  if (rng_chance(15)) { size_t l = strlen(nm); unsigned extra = rng_below(40); nm[l++] = '/'; for (unsigned i = 0; i < extra; i++) nm[l++] = 'g'; nm[l] = 0; if (nm[l - 1] == '/') nm[l - 1] = 0; }
  gf_reset(); add_cpuset_files(d, nm);
  if (rng_chance(10)) add_cpuset_files("/cg2", "/grp1");
  fprintf(fops, "AD %u ", rng_below(3)); fput_hex((unsigned char *) d, strlen(d)); fputc(' ', fops); fput_hex((unsigned char *) nm, strlen(nm));
  fprintf(fops, " %c ", rng_chance(50) ? 'c' : 'm'); gf_emit(); fputc('\n', fops);
  stats2[strlen(d) + strlen(nm) > 225 ? B_AD_TRUNC : B_AD]++;
}
/* a consistent container-like scenario: one matching mount line, one cgroup line, the cpuset files where the C will look */
static void gen_allowed_directed(void) {
  static const char *nms[] = {"/grp1", "/user.slice/session-1.scope", "/", "", "/x/y", "/kubepods.slice/pod1"};
  char d[400]; pick_dir(d, sizeof d);
  const char *name = nms[rng_below(sizeof nms / sizeof *nms)];
  unsigned t = rng_below(3); int kind = 0;
  gf_reset(); gn = 0;
  for (unsigned i = rng_below(3); i; i--) { g_puts("proc /proc proc rw,nosuid,nodev,noexec,relatime 0 0\n"); }
  if (t == 0) { g_puts("cgroup2 "); g_escaped(d); g_puts(" cgroup2 rw,nosuid,nodev,noexec,relatime,nsdelegate 0 0\n");
    if (rng_chance(90)) { char f[500]; snprintf(f, sizeof f, "%s/cgroup.controllers", d); gf_add_trunc(f, rng_chance(85) ? "cpuset cpu io memory hugetlb pids rdma misc\n" : "cpu io memory\n"); } }
  else if (t == 1) { g_puts("cgroup "); g_escaped(d); g_puts(rng_chance(85) ? " cgroup rw,nosuid,nodev,noexec,relatime,cpuset 0 0\n" : " cgroup rw,relatime,cpuset,noprefix 0 0\n"); }
  else { g_puts("none "); g_escaped(d); g_puts(" cpuset rw,relatime 0 0\n"); }
  if (rng_chance(30)) gen_mount_line(&kind);
  no_dotdot();
  gf_add_gb("/proc/mounts");
  gn = 0;
  if (rng_chance(20)) { g_puts(name); g_putc('\n'); gf_add_gb("/proc/self/cpuset"); }
  else { if (rng_chance(50)) g_puts("11:memory:/user.slice\n"); if (t == 0 || rng_chance(20)) { g_puts("0::"); g_puts(name); g_putc('\n'); } else { g_puts("5:cpuset:"); g_puts(name); g_putc('\n'); } g_puts("1:name=systemd:/z\n"); gf_add_gb("/proc/self/cgroup"); }
  add_cpuset_files(d, name);
  fprintf(fops, "AR %lu ", (unsigned long) hwloc_getpagesize() * 4); gf_emit(); fputc('\n', fops);
  stats2[B_AR]++;
}
static void gen_allowed(void) {
  int longline = 0, mut = 0;
  if (rng_chance(55)) { gen_allowed_directed(); return; }
  gf_reset();
  gen_std_mounts();
  if (rng_chance(95)) { if (gen_mounts_content() == B_MP_MUT) mut = 1; gf_add_gb("/proc/mounts"); }
  if (rng_chance(25)) { gn = 0; gen_cpuset_file(); gf_add_gb("/proc/self/cpuset"); }
  if (rng_chance(85)) { gn = 0; gen_cgroup_lines(&longline); if (rng_chance(10)) { mutate_text(1); mut = 1; } gf_add_gb("/proc/self/cgroup"); }
  /* cpuset files below every mount dir x a few cgroup names (whichever pair the C picks, there is a fair chance that files exist) */
  for (unsigned i = 0; i < 4; i++) {
    char d[400]; if (rng_chance(30)) snprintf(d, sizeof d, "%s", rng_chance(50) ? "/sys/fs/cgroup" : rng_chance(50) ? "/sys/fs/cgroup/cpuset" : "/dev/cpuset"); else pick_dir(d, sizeof d);
    static const char *nms[] = {"/grp1", "/user.slice/session-1.scope", "/", "", "/x", "/y", "/w", "/late", "/a:b", "/co"};
    add_cpuset_files(d, nms[rng_below(sizeof nms / sizeof *nms)]);
  }
  fprintf(fops, "AR %lu ", (unsigned long) hwloc_getpagesize() * 4); gf_emit(); fputc('\n', fops);
  stats2[mut ? B_AR_MUT : B_AR]++;
}

static int lp_stream;     /* 0 old, 1 fs, 2 mix */
static void gen_fs_case(void) {
  unsigned k = rng_below(100);
  gn = 0;
  if (k < 22) gen_num();
  else if (k < 34) gen_meminfo();
  else if (k < 42) gen_hugepages();
  else if (k < 57) gen_cgname();
  else if (k < 77) gen_mntpnt();
  else if (k < 87) gen_admin();
  else gen_allowed();
}

static void gen_case(void) {
  unsigned k = rng_below(100);
  gn = 0;
  /* two streams, selected by VERIF_LP_STREAM: `old` = the parser cases alone (the stream this harness produced before the
   * fsroot ops existed, bit for bit), `fs` = the fsroot ops alone, anything else = a mix */
  if (lp_stream == 1) { gen_fs_case(); return; }
  if (lp_stream == 2 && rng_chance(45)) { gen_fs_case(); return; }
  if (k < 14) { gen_valid_list(8, 6, 12, !rng_chance(15)); emit("CL", "", &stats[B_CL_VALID]); }
  else if (k < 20) { gen_valid_list(40, 300, 700, 1); emit("CL", "", &stats[B_CL_VALID_BIG]); }
  else if (k < 22 && rng_chance(20)) { gen_valid_list(700 + rng_below(300), 5, 9, 1); emit("CL", "", &stats[B_CL_LONGFILE]); }
  else if (k < 22) { gen_valid_list(64, 4, 3, 1); emit("CL", "", &stats[B_CL_VALID]); }      /* > 4096 bytes: read_fd grows */
  else if (k < 28) {
    unsigned n = 1 + rng_below(4); unsigned long cur = 0;
    for (unsigned i = 0; i < n; i++) { unsigned long a = boundary_idx(); if (a < cur) a = cur; unsigned long b = rng_chance(50) ? a : boundary_idx(); if (b < a) b = a;
      if (i) g_putc(','); g_printf("%lu", a); if (b != a || rng_chance(10)) { g_putc('-'); g_printf("%lu", b); } cur = b + 1 + rng_below(3); }
    if (rng_chance(80)) g_putc('\n');
    emit("CL", "", &stats[B_CL_BOUNDARY]);
  }
  else if (k < 36) {
    unsigned n = 1 + rng_below(3);
    for (unsigned i = 0; i < n; i++) { if (i) g_putc(','); if (rng_chance(60)) g_puts(weird_num()); else g_printf("%lu", (unsigned long) rng_below(200));
      if (rng_chance(40)) { g_putc('-'); if (rng_chance(60)) g_puts(weird_num()); else g_printf("%lu", (unsigned long) rng_below(300)); } }
    if (rng_chance(70)) g_putc('\n');
    emit("CL", "", &stats[B_CL_WEIRD]);
  }
  else if (k < 46) { gen_valid_list(6, 6, 12, 1); mutate(1 + rng_below(3), "0123456789,,--\n x+\t0"); emit("CL", "", &stats[B_CL_MUT]); }
  else if (k < 51) { unsigned n = rng_below(24); static const char al[] = "0123456789,-\n \t+xXabf\0\0,-"; for (unsigned i = 0; i < n; i++) g_putc(rng_chance(85) ? al[rng_below(sizeof al - 1)] : (int) rng_below(256)); emit("CL", "", &stats[B_CL_RAW]); }
  else if (k < 53) { if (rng_chance(50)) g_putc('\n'); else if (rng_chance(30)) g_puts(" \n"); emit("CL", "", &stats[B_CL_EMPTY]); }
  else if (k < 56) { unsigned n = 2 + rng_below(4); for (unsigned i = 0; i < n; i++) { if (i) g_putc(','); unsigned long a = rng_below(300), b = rng_below(300); g_printf("%lu", a); if (rng_chance(50)) { g_putc('-'); g_printf("%lu", b); } } g_putc('\n'); emit("CL", "", &stats[B_CL_DESC]); }
  else if (k < 57) { fputs("CLX\n", fops); stats[B_CL_MISSING]++; }
  else if (k < 68) { gen_valid_mask(1 + rng_below(rng_chance(70) ? 9 : 40), 0); emit("CM", "", &stats[B_CM_VALID]); }
  else if (k < 73) { gen_valid_mask(1 + rng_below(20), 1 + rng_below(2)); emit("CM", "", &stats[B_CM_UNPADDED]); }
  else if (k < 75 && rng_chance(50)) { gen_valid_mask(440 + rng_below(300), 0); emit("CM", "", &stats[B_CM_LONGFILE]); }
  else if (k < 75) { gen_valid_mask(9 + rng_below(60), 0); emit("CM", "", &stats[B_CM_VALID]); }          /* > 4096 bytes, > 8 maps several times over */
  else if (k < 83) { gen_valid_mask(1 + rng_below(12), rng_below(3)); mutate(1 + rng_below(3), "0123456789abcdefABCDEF,,,\n x+-X"); emit("CM", "", &stats[B_CM_MUT]); }
  else if (k < 86) { unsigned n = 1 + rng_below(5); for (unsigned i = 0; i < n; i++) { if (i) g_putc(','); unsigned d = 9 + rng_below(10); if (rng_chance(20)) g_puts(rng_chance(50) ? "0x" : "-"); for (unsigned j = 0; j < d; j++) g_putc("0123456789abcdef"[rng_below(16)]); } g_putc('\n'); emit("CM", "", &stats[B_CM_OVERLONG]); }
  else if (k < 90) { unsigned n = rng_below(30); static const char al[] = "0123456789abcdefABCDEF,,,\n \t+-xX\0g"; for (unsigned i = 0; i < n; i++) g_putc(rng_chance(85) ? al[rng_below(sizeof al - 1)] : (int) rng_below(256)); emit("CM", "", &stats[B_CM_RAW]); }
  else if (k < 91) { if (rng_chance(50)) g_putc('\n'); emit("CM", "", &stats[B_CM_EMPTY]); }
  else if (k < 92) { fputs("CMX\n", fops); stats[B_CM_MISSING]++; }
  else {
    /* read_fd: size0 and a script of return values around the requested counts */
    unsigned size0 = 1 + rng_below(rng_chance(70) ? 9 : 40);
    unsigned mode = rng_below(4);
    fprintf(fops, "RF %u ", size0);
    if (mode == 0) { fprintf(fops, "%u\n", rng_below(size0 + 1)); stats[B_RF_SINGLE]++; }
    else {
      unsigned long want = size0 + 1, fs = size0; unsigned n = 1 + rng_below(6); int first = 1;
      for (unsigned i = 0; i < n; i++) {
        long v = (long) want;
        if (i == n - 1 || mode == 2) { unsigned c = rng_below(10); if (c < 4) v = (long) rng_below((unsigned) want + 1); else if (c < 5) v = (long) want + 1 + rng_below(5); else if (c < 6 && mode == 3) v = -1; }
        if (mode == 3 && rng_chance(15)) v = -1;
        fprintf(fops, "%s%ld", i ? "," : "", v);
        if (first) { first = 0; want = fs; } else { fs *= 2; want = fs; }
      }
      fputc('\n', fops);
      stats[mode == 1 ? B_RF_GROW : mode == 2 ? B_RF_SHORT : B_RF_ERR]++;
    }
  }
}

static int root_setup(const char *out) {
  snprintf(rootdir, sizeof rootdir, "%s.root", out);
  if (mkdir(rootdir, 0755) < 0 && errno != EEXIST) return -1;
  root_fd = open(rootdir, O_RDONLY | O_DIRECTORY);
  return root_fd < 0 ? -1 : 0;
}
static void root_teardown(void) { fs_cleanup(); fs_purge(); if (root_fd >= 0) close(root_fd); rmdir(rootdir); }

int main(int argc, char **argv) {
  if (argc >= 4 && !strcmp(argv[1], "--replay")) {
    FILE *in = fopen(argv[2], "r"); fout = fopen(argv[3], "w"); fops = stderr;
    if (!in || !fout) return 2;
    snprintf(scratch, sizeof scratch, "%s.content", argv[3]);
    if (root_setup(argv[3]) < 0) return 2;
    char *line = NULL; size_t cap = 0;
    while (getline(&line, &cap, in) > 0) { if (line[0] == '#' || line[0] == '\n') continue; exec_line(line); fflush(fout); }
    free(line); fclose(in); fclose(fout); unlink(scratch); root_teardown();
    return 0;
  }
  if (argc < 5) { fprintf(stderr, "usage\n"); return 2; }
  unsigned long n = strtoul(argv[1], NULL, 10);
  fops = fopen(argv[2], "w+"); fout = fopen(argv[3], "w"); FILE *fst = fopen(argv[4], "w");
  if (!fops || !fout || !fst) return 2;
  snprintf(scratch, sizeof scratch, "%s.content", argv[3]);
  if (root_setup(argv[3]) < 0) return 2;
  rng_seed(rng_seed_from_env());
  { const char *st = getenv("VERIF_LP_STREAM"); lp_stream = !st ? 2 : !strcmp(st, "old") ? 0 : !strcmp(st, "fs") ? 1 : 2; }
  char *line = NULL; size_t cap = 0;
  for (unsigned long i = 0; i < n; i++) {
    long pos = ftell(fops);
    gen_case(); fflush(fops);
    fseek(fops, pos, SEEK_SET);
    if (getline(&line, &cap, fops) > 0) exec_line(line);
    fseek(fops, 0, SEEK_END);
    fflush(fout);
  }
  free(line);
  for (int b = 0; b < B_N; b++) fprintf(fst, "%s %lu\n", bnames[b], stats[b]);
  for (int b = 0; b < B2_N; b++) fprintf(fst, "%s %lu\n", b2names[b], stats2[b]);
  gf_reset(); root_teardown();
  fclose(fops); fclose(fout); fclose(fst); unlink(scratch);
  return 0;
}
