/* C18 differential harness (engine `linuxparse`): the static parsers of hwloc/topology-linux.c
 *   hwloc__read_path_as_cpulist, hwloc__read_path_as_cpumask, hwloc__read_fd
 * on generated file contents.  topology-linux.c is #included (static functions); read() is wrapped so
 * that hwloc__read_fd can be driven with scripted return values (short reads, errors).
 *
 * usage: linuxparse <ncases> <ops-file> <out-file> <stats-file>      (generate; seed = VERIF_SEED)
 *        linuxparse --replay <ops-file> <out-file>
 * ops:   CL <hex|->   CM <hex|->   CLX   CMX   RF <size0> <r1,r2,..|->       (see lean/Driver/LinuxParse.lean)
 *
 * A cpulist content with a run of >= 7 alphanumeric characters may hold a number >= 10^6: such cases run
 * in a forked child (the C code has signed overflow = UBSan abort for some of them, reported as `ub`).
 */
#include "private/autogen/config.h"
#include <unistd.h>
#include <sys/types.h>
static ssize_t verif_read(int fd, void *buf, size_t count);
#define read verif_read
#include "topology-linux.c"
#undef read
#include "rng.h"
#include <sys/wait.h>
#include <ctype.h>

/* ---- scripted read() ---- */
static int script_on, script_fd = -1;
static long script_vals[64]; static unsigned script_n, script_pos;
static unsigned long script_stream;        /* bytes delivered so far: byte i of the stream is 'A' + i % 23 */
static ssize_t verif_read(int fd, void *buf, size_t count) {
  if (!script_on || fd != script_fd) return read(fd, buf, count);
  long r = script_pos < script_n ? script_vals[script_pos++] : 0;
  if (r < 0) { errno = EIO; return -1; }
  if ((size_t) r > count) r = (long) count;
  for (long i = 0; i < r; i++) ((char *) buf)[i] = (char) ('A' + (script_stream + i) % 23);   /* ASan checks the store */
  script_stream += r;
  return r;
}

static FILE *fops, *fout;
static char scratch[1200];

static void put_set(FILE *f, hwloc_const_bitmap_t s) {
  int last;
  if (hwloc_bitmap_weight(s) == -1) { fputc('I', f); last = hwloc_bitmap_last_unset(s); }
  else last = hwloc_bitmap_last(s);
  if (last < 0) { fputc('0', f); return; }
  if (last >= (1 << 20)) { fputs("huge", f); return; }        /* far outside the differential domain (the model answers `big`) */
  int started = 0;
  for (int i = last / 64; i >= 0; i--) {
    unsigned long w = hwloc_bitmap_to_ith_ulong(s, i);
    if (started) fprintf(f, "%016lx", w); else { fprintf(f, "%lx", w); started = 1; }
  }
}

static int hexval(int c) { return c >= '0' && c <= '9' ? c - '0' : c >= 'a' && c <= 'f' ? c - 'a' + 10 : c >= 'A' && c <= 'F' ? c - 'A' + 10 : -1; }
static unsigned char *unhex(const char *h, size_t *len) {
  size_t n = strcmp(h, "-") ? strlen(h) / 2 : 0;
  unsigned char *b = malloc(n + 1);
  for (size_t i = 0; i < n; i++) b[i] = (unsigned char) (hexval(h[2 * i]) * 16 + hexval(h[2 * i + 1]));
  *len = n; return b;
}
static int write_scratch(const unsigned char *b, size_t n) {
  FILE *f = fopen(scratch, "wb"); if (!f) return -1;
  if (n && fwrite(b, 1, n, f) != n) { fclose(f); return -1; }
  fclose(f); return 0;
}
static int risky(const unsigned char *b, size_t n) {
  size_t run = 0;
  for (size_t i = 0; i < n; i++) { if (isalnum(b[i])) { if (++run >= 7) return 1; } else run = 0; }
  return 0;
}
/* a destination whose previous content must not matter */
static hwloc_bitmap_t mk_dst(unsigned salt) {
  hwloc_bitmap_t s = (salt & 1) ? hwloc_bitmap_alloc_full() : hwloc_bitmap_alloc();
  if (salt & 2) hwloc_bitmap_set_range(s, 3, 200 + (salt % 97));
  if (salt & 4) hwloc_bitmap_clr(s, 70);
  return s;
}

static void do_parse(FILE *f, int list, const char *path, unsigned salt) {
  hwloc_bitmap_t s = mk_dst(salt);
  int err = list ? hwloc__read_path_as_cpulist(path, s, -1) : hwloc__read_path_as_cpumask(path, s, -1);
  if (err < 0) fputs("fail", f);
  else { fputs("ok ", f); put_set(f, s); }
  hwloc_bitmap_free(s);
}

static unsigned long nops_done;
static void exec_line(char *line) {
  char *save = NULL, *op = strtok_r(line, " \n", &save);
  if (!op) return;
  nops_done++;
  if (!strcmp(op, "CLX") || !strcmp(op, "CMX")) {
    char missing[1300]; snprintf(missing, sizeof missing, "%s.missing", scratch);
    do_parse(fout, op[1] == 'L', missing, (unsigned) nops_done); fputc('\n', fout);
  } else if (!strcmp(op, "CL") || !strcmp(op, "CM")) {
    char *h = strtok_r(NULL, " \n", &save); size_t n; if (!h) { fputs("bad-op\n", fout); return; }
    unsigned char *b = unhex(h, &n);
    int list = op[1] == 'L';
    if (write_scratch(b, n) < 0) { fputs("harness-io-error\n", fout); free(b); return; }
    if (list && risky(b, n)) {
      int pfd[2], efd[2]; if (pipe(pfd) < 0 || pipe(efd) < 0) { fputs("harness-io-error\n", fout); free(b); return; }
      fflush(fout); fflush(fops);
      pid_t pid = fork();
      if (pid == 0) {
        close(pfd[0]); close(efd[0]); dup2(efd[1], 2);
        FILE *pf = fdopen(pfd[1], "w");
        alarm(120);
        do_parse(pf, 1, scratch, (unsigned) nops_done); fflush(pf);
        _exit(0);
      }
      close(pfd[1]); close(efd[1]);
      size_t rcap = 1 << 16, got = 0; char *res = malloc(rcap); ssize_t r;
      while ((r = read(pfd[0], res + got, rcap - 1 - got)) > 0) { got += r; if (got + 1 >= rcap) res = realloc(res, rcap *= 2); }
      res[got] = 0; close(pfd[0]);
      char errb[8192]; size_t egot = 0;
      while ((r = read(efd[0], errb + egot, sizeof errb - 1 - egot)) > 0) egot += r;
      errb[egot] = 0; { char drain[4096]; while (read(efd[0], drain, sizeof drain) > 0); } close(efd[0]);
      int st = 0; waitpid(pid, &st, 0);
      if (WIFEXITED(st) && WEXITSTATUS(st) == 0) fprintf(fout, "%s\n", res);
      else if (strstr(errb, "signed integer overflow")) fputs("ub\n", fout);
      else { fprintf(fout, "crash status=%d\n", st); fprintf(stderr, "child of op %lu died:\n%s\n", nops_done, errb); }
      free(res);
    } else { do_parse(fout, list, scratch, (unsigned) nops_done); fputc('\n', fout); }
    free(b);
  } else if (!strcmp(op, "RF")) {
    char *s0 = strtok_r(NULL, " \n", &save), *rs = strtok_r(NULL, " \n", &save);
    if (!s0 || !rs) { fputs("bad-op\n", fout); return; }
    size_t size = strtoul(s0, NULL, 10);
    script_n = 0; script_pos = 0; script_stream = 0;
    if (strcmp(rs, "-")) { char *sv = NULL; for (char *t = strtok_r(rs, ",", &sv); t && script_n < 64; t = strtok_r(NULL, ",", &sv)) script_vals[script_n++] = strtol(t, NULL, 10); }
    if (size == 0) { fputs("hang\n", fout); return; }     /* the C loop would never end: not executed */
    write_scratch((const unsigned char *) "", 0);
    int fd = open(scratch, O_RDONLY);
    char *buf = NULL;
    script_on = 1; script_fd = fd;
    int err = hwloc__read_fd(fd, &buf, &size);
    script_on = 0; close(fd);
    if (err < 0) fputs("err\n", fout);
    else {
      size_t tot = strlen(buf); int good = tot == script_stream;
      for (size_t i = 0; i < tot; i++) if (buf[i] != (char) ('A' + i % 23)) good = 0;
      fprintf(fout, "ok %zu %zu%s\n", size, tot, good ? "" : " CONTENT-MISMATCH");
      free(buf);
    }
  } else fputs("bad-op\n", fout);
}

/* ---------------- generators ---------------- */
static unsigned char gb[70000]; static size_t gn;
static void g_putc(int c) { if (gn < sizeof gb - 1) gb[gn++] = (unsigned char) c; }
static void g_puts(const char *s) { while (*s) g_putc(*s++); }
static void g_printf(const char *fmt, unsigned long v) { char t[64]; snprintf(t, sizeof t, fmt, v); g_puts(t); }

static unsigned long boundary_idx(void) {
  static const unsigned long b[] = {0, 1, 2, 31, 32, 33, 63, 64, 65, 127, 128, 129, 255, 256, 511, 512, 513, 1023, 1024, 4095, 4096, 8191, 8192};
  static const unsigned long big[] = {16383, 16384, 65535, 65536, 99999, 131071, 131072, 999999};   /* costly in the list-based model: rarer */
  if (rng_chance(6)) return big[rng_below(sizeof big / sizeof *big)];
  return b[rng_below(sizeof b / sizeof *b)];
}
static const char *weird_num(void) {
  static const char *w[] = {"2147483647", "2147483648", "2147483646", "4294967295", "4294967296", "4294967297", "4294967294",
    "18446744073709551615", "18446744073709551616", "9223372036854775808", "0x7fffffff", "0x80000000", "0xffffffff", "0x100000000",
    "020000000000", "-1", "-2", "-5", "+3", "0x10", "010", "08", "0x", "0xg", " 7", "\t9", "-0x10", "--3", "+-3", "- 3",
    "-18446744073709551615", "-18446744073709551616", "-4294967296", "-4294967290", "16777215", "16777216", "16777217", "1000000", "0000000000012",
    "4294967296000", "6442450943", "6442450944", "0X1F", "1e3", "12abc"};
  return w[rng_below(sizeof w / sizeof *w)];
}
/* a well-formed kernel list: ascending disjoint items */
static void gen_valid_list(unsigned maxitems, unsigned long maxgap, unsigned long maxlen, int newline) {
  unsigned n = 1 + rng_below(maxitems); unsigned long cur = rng_chance(50) ? 0 : rng_below((unsigned) maxgap);
  for (unsigned i = 0; i < n; i++) {
    unsigned long len = rng_chance(40) ? 0 : rng_below((unsigned) maxlen);
    if (rng_chance(10)) { unsigned long t = boundary_idx(); if (t > cur) cur = t; }
    if (i) g_putc(',');
    if (len) { g_printf("%lu", cur); g_putc('-'); g_printf("%lu", cur + len); } else g_printf("%lu", cur);
    cur += len + 2 + rng_below((unsigned) maxgap);
  }
  if (newline) g_putc('\n');
}
static void gen_valid_mask(unsigned ngroups, int style) {
  /* style 0: %08x groups (kernel); 1: unpadded; 2: mixed */
  unsigned lead0 = rng_chance(30) ? rng_below(ngroups) : 0;
  for (unsigned i = 0; i < ngroups; i++) {
    unsigned long g = i < lead0 ? 0 : rng_chance(20) ? 0 : rng_chance(20) ? 0xffffffffUL : rng_chance(20) ? (1UL << rng_below(32)) : (rng_next() & 0xffffffffUL);
    if (i) g_putc(',');
    int st = style == 2 ? (int) rng_below(2) : style;
    g_printf(st == 0 ? "%08lx" : "%lx", g);
  }
  g_putc('\n');
}
static void mutate(unsigned times, const char *alphabet) {
  size_t al = strlen(alphabet);
  for (unsigned k = 0; k < times && gn < sizeof gb - 100; k++) {
    unsigned m = rng_below(7); size_t p = gn ? rng_below((unsigned) gn) : 0;
    switch (m) {
    case 0: if (gn) { memmove(gb + p, gb + p + 1, gn - p - 1); gn--; } break;                                   /* drop */
    case 1: if (gn) { memmove(gb + p + 1, gb + p, gn - p); gn++; } break;                                        /* dup */
    case 2: if (gn > 1 && p + 1 < gn) { unsigned char t = gb[p]; gb[p] = gb[p + 1]; gb[p + 1] = t; } break;      /* swap */
    case 3: memmove(gb + p + 1, gb + p, gn - p); gb[p] = (unsigned char) alphabet[rng_below((unsigned) al)]; gn++; break;   /* insert */
    case 4: if (gn) gb[p] = (unsigned char) alphabet[rng_below((unsigned) al)]; break;                          /* replace */
    case 5: { const char *w = weird_num(); size_t wl = strlen(w); memmove(gb + p + wl, gb + p, gn - p); memcpy(gb + p, w, wl); gn += wl; break; }
    case 6: if (gn) gn = p; break;                                                                               /* truncate */
    }
  }
}
static void emit(const char *op, const char *bucket, unsigned long *stats_slot) {
  fputs(op, fops); fputc(' ', fops);
  if (!gn) fputc('-', fops); else for (size_t i = 0; i < gn; i++) fprintf(fops, "%02x", gb[i]);
  fputc('\n', fops);
  (void) bucket; (*stats_slot)++;
}

enum { B_CL_VALID, B_CL_VALID_BIG, B_CL_LONGFILE, B_CL_BOUNDARY, B_CL_WEIRD, B_CL_MUT, B_CL_RAW, B_CL_EMPTY, B_CL_DESC, B_CL_MISSING,
       B_CM_VALID, B_CM_UNPADDED, B_CM_LONGFILE, B_CM_MUT, B_CM_OVERLONG, B_CM_RAW, B_CM_EMPTY, B_CM_MISSING,
       B_RF_SINGLE, B_RF_GROW, B_RF_SHORT, B_RF_ERR, B_N };
static const char *bnames[B_N] = {"cl.valid", "cl.valid-wide", "cl.longfile", "cl.boundary", "cl.weird-number", "cl.mutant", "cl.raw", "cl.empty", "cl.descending", "cl.missing",
       "cm.valid", "cm.unpadded", "cm.longfile", "cm.mutant", "cm.overlong-group", "cm.raw", "cm.empty", "cm.missing",
       "rf.single-read", "rf.grow", "rf.short-read", "rf.error"};
static unsigned long stats[B_N];

static void gen_case(void) {
  unsigned k = rng_below(100);
  gn = 0;
  if (k < 14) { gen_valid_list(8, 6, 12, !rng_chance(15)); emit("CL", "", &stats[B_CL_VALID]); }
  else if (k < 20) { gen_valid_list(40, 300, 700, 1); emit("CL", "", &stats[B_CL_VALID_BIG]); }
  else if (k < 22 && rng_chance(20)) { gen_valid_list(700 + rng_below(300), 5, 9, 1); emit("CL", "", &stats[B_CL_LONGFILE]); }
  else if (k < 22) { gen_valid_list(64, 4, 3, 1); emit("CL", "", &stats[B_CL_VALID]); }      /* > 4096 bytes: read_fd grows */
  else if (k < 28) {
    unsigned n = 1 + rng_below(4); unsigned long cur = 0;
    for (unsigned i = 0; i < n; i++) { unsigned long a = boundary_idx(); if (a < cur) a = cur; unsigned long b = rng_chance(50) ? a : boundary_idx(); if (b < a) b = a;
      if (i) g_putc(','); g_printf("%lu", a); if (b != a || rng_chance(10)) { g_putc('-'); g_printf("%lu", b); } cur = b + 1 + rng_below(3); }
    if (rng_chance(80)) g_putc('\n');
    emit("CL", "", &stats[B_CL_BOUNDARY]);
  }
  else if (k < 36) {
    unsigned n = 1 + rng_below(3);
    for (unsigned i = 0; i < n; i++) { if (i) g_putc(','); if (rng_chance(60)) g_puts(weird_num()); else g_printf("%lu", (unsigned long) rng_below(200));
      if (rng_chance(40)) { g_putc('-'); if (rng_chance(60)) g_puts(weird_num()); else g_printf("%lu", (unsigned long) rng_below(300)); } }
    if (rng_chance(70)) g_putc('\n');
    emit("CL", "", &stats[B_CL_WEIRD]);
  }
  else if (k < 46) { gen_valid_list(6, 6, 12, 1); mutate(1 + rng_below(3), "0123456789,,--\n x+\t0"); emit("CL", "", &stats[B_CL_MUT]); }
  else if (k < 51) { unsigned n = rng_below(24); static const char al[] = "0123456789,-\n \t+xXabf\0\0,-"; for (unsigned i = 0; i < n; i++) g_putc(rng_chance(85) ? al[rng_below(sizeof al - 1)] : (int) rng_below(256)); emit("CL", "", &stats[B_CL_RAW]); }
  else if (k < 53) { if (rng_chance(50)) g_putc('\n'); else if (rng_chance(30)) g_puts(" \n"); emit("CL", "", &stats[B_CL_EMPTY]); }
  else if (k < 56) { unsigned n = 2 + rng_below(4); for (unsigned i = 0; i < n; i++) { if (i) g_putc(','); unsigned long a = rng_below(300), b = rng_below(300); g_printf("%lu", a); if (rng_chance(50)) { g_putc('-'); g_printf("%lu", b); } } g_putc('\n'); emit("CL", "", &stats[B_CL_DESC]); }
  else if (k < 57) { fputs("CLX\n", fops); stats[B_CL_MISSING]++; }
  else if (k < 68) { gen_valid_mask(1 + rng_below(rng_chance(70) ? 9 : 40), 0); emit("CM", "", &stats[B_CM_VALID]); }
  else if (k < 73) { gen_valid_mask(1 + rng_below(20), 1 + rng_below(2)); emit("CM", "", &stats[B_CM_UNPADDED]); }
  else if (k < 75 && rng_chance(50)) { gen_valid_mask(440 + rng_below(300), 0); emit("CM", "", &stats[B_CM_LONGFILE]); }
  else if (k < 75) { gen_valid_mask(9 + rng_below(60), 0); emit("CM", "", &stats[B_CM_VALID]); }          /* > 4096 bytes, > 8 maps several times over */
  else if (k < 83) { gen_valid_mask(1 + rng_below(12), rng_below(3)); mutate(1 + rng_below(3), "0123456789abcdefABCDEF,,,\n x+-X"); emit("CM", "", &stats[B_CM_MUT]); }
  else if (k < 86) { unsigned n = 1 + rng_below(5); for (unsigned i = 0; i < n; i++) { if (i) g_putc(','); unsigned d = 9 + rng_below(10); if (rng_chance(20)) g_puts(rng_chance(50) ? "0x" : "-"); for (unsigned j = 0; j < d; j++) g_putc("0123456789abcdef"[rng_below(16)]); } g_putc('\n'); emit("CM", "", &stats[B_CM_OVERLONG]); }
  else if (k < 90) { unsigned n = rng_below(30); static const char al[] = "0123456789abcdefABCDEF,,,\n \t+-xX\0g"; for (unsigned i = 0; i < n; i++) g_putc(rng_chance(85) ? al[rng_below(sizeof al - 1)] : (int) rng_below(256)); emit("CM", "", &stats[B_CM_RAW]); }
  else if (k < 91) { if (rng_chance(50)) g_putc('\n'); emit("CM", "", &stats[B_CM_EMPTY]); }
  else if (k < 92) { fputs("CMX\n", fops); stats[B_CM_MISSING]++; }
  else {
    /* read_fd: size0 and a script of return values around the requested counts */
    unsigned size0 = 1 + rng_below(rng_chance(70) ? 9 : 40);
    unsigned mode = rng_below(4);
    fprintf(fops, "RF %u ", size0);
    if (mode == 0) { fprintf(fops, "%u\n", rng_below(size0 + 1)); stats[B_RF_SINGLE]++; }
    else {
      unsigned long want = size0 + 1, fs = size0; unsigned n = 1 + rng_below(6); int first = 1;
      for (unsigned i = 0; i < n; i++) {
        long v = (long) want;
        if (i == n - 1 || mode == 2) { unsigned c = rng_below(10); if (c < 4) v = (long) rng_below((unsigned) want + 1); else if (c < 5) v = (long) want + 1 + rng_below(5); else if (c < 6 && mode == 3) v = -1; }
        if (mode == 3 && rng_chance(15)) v = -1;
        fprintf(fops, "%s%ld", i ? "," : "", v);
        if (first) { first = 0; want = fs; } else { fs *= 2; want = fs; }
      }
      fputc('\n', fops);
      stats[mode == 1 ? B_RF_GROW : mode == 2 ? B_RF_SHORT : B_RF_ERR]++;
    }
  }
}

int main(int argc, char **argv) {
  if (argc >= 4 && !strcmp(argv[1], "--replay")) {
    FILE *in = fopen(argv[2], "r"); fout = fopen(argv[3], "w"); fops = stderr;
    if (!in || !fout) return 2;
    snprintf(scratch, sizeof scratch, "%s.content", argv[3]);
    char *line = NULL; size_t cap = 0;
    while (getline(&line, &cap, in) > 0) { if (line[0] == '#' || line[0] == '\n') continue; exec_line(line); fflush(fout); }
    free(line); fclose(in); fclose(fout); unlink(scratch);
    return 0;
  }
  if (argc < 5) { fprintf(stderr, "usage\n"); return 2; }
  unsigned long n = strtoul(argv[1], NULL, 10);
  fops = fopen(argv[2], "w+"); fout = fopen(argv[3], "w"); FILE *fst = fopen(argv[4], "w");
  if (!fops || !fout || !fst) return 2;
  snprintf(scratch, sizeof scratch, "%s.content", argv[3]);
  rng_seed(rng_seed_from_env());
  char *line = NULL; size_t cap = 0;
  for (unsigned long i = 0; i < n; i++) {
    long pos = ftell(fops);
    gen_case(); fflush(fops);
    fseek(fops, pos, SEEK_SET);
    if (getline(&line, &cap, fops) > 0) exec_line(line);
    fseek(fops, 0, SEEK_END);
    fflush(fout);
  }
  free(line);
  for (int b = 0; b < B_N; b++) fprintf(fst, "%s %lu\n", bnames[b], stats[b]);
  fclose(fops); fclose(fout); fclose(fst); unlink(scratch);
  return 0;
}
