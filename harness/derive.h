/* Derived sources with disallowed resources (plan kind R), shared by the C01 harnesses h_topoload.c and h_setstage.c.
 *
 *   R <subseed> <srckind> <srcarg...>      srckind = S (synthetic string) | X (XML file) | F/G (Linux snapshot without/with pci) | C (x86 snapshot)
 *
 * The source is first loaded with INCLUDE_DISALLOWED and EVERY type filter at KEEP_ALL (so memory-side caches, Dies, instruction
 * caches, I/O and Misc objects all exist), random non-trivial subsets of its PUs and NUMA nodes are made the allowed sets
 * (hwloc_topology_allow CUSTOM), the topology is exported to an XML buffer (current or v2 format), and THAT buffer is the source
 * of the case: it is loaded with the flags and the type filters of the plan line.  So the core of hwloc_discover sees really
 * disallowed PUs / NUMA nodes under every filter assignment - in particular below memory-side caches (a NUMA node that is the
 * memory child of a MemCache, possibly of two nested MemCaches) when the MemCache filter of the case keeps them.
 * Every choice derives from <subseed> (private xorshift), so a plan line replays alone.
 *
 * How the allowed sets are chosen (all from <subseed>):
 *   - each PU is dropped with probability pc (0 in 1 of 4 cases, else 5..64 %), each NUMA node with probability pn (0 in 1 of 3, else 10..69 %);
 *   - in 1 of 4 cases the whole locality (cpuset) of one random NUMA node is dropped too, in 1 of 4 cases one random NUMA node;
 *   - if nothing was dropped one random PU is; a set that would become empty keeps its first element.
 * Further choices: Linux snapshots are loaded with HWLOC_KNL_MSCACHE_L3=0 half of the time (Knights Landing MCDRAM in cache mode becomes a
 * real memory-side cache); the export format is v2 in 1 of 3 cases; when the source has memory-side caches, in 1 of 3 cases about half of
 * the MemCache elements of the exported text get a second MemCache level around them (drv_double_memcaches).
 * The counters drv_* are written by the harness as the plan comment "# derived ..." and summed into the evidence (derived.*).
 */
#ifndef VERIF_DERIVE_H
#define VERIF_DERIVE_H
#include <hwloc.h>
#include <stdio.h>
#include <stdlib.h>
#include <string.h>
#include <stdint.h>

static uint64_t drv_s;
static unsigned drv_below(unsigned n) { drv_s ^= drv_s << 13; drv_s ^= drv_s >> 7; drv_s ^= drv_s << 17; return n ? (unsigned) ((drv_s >> 11) % n) : 0; }

/* counters of what the derived sources contained (read by the harness for its "# derived" plan comment) */
static unsigned long drv_made, drv_with_memcache, drv_dropped_pu, drv_dropped_node, drv_allow_refused, drv_v2, drv_two_level_memcache, drv_retyped, drv_retyped_cpuless, drv_misc, drv_rmorder;

static void drv_clear_env(void) {
  unsetenv("HWLOC_FSROOT"); unsetenv("HWLOC_CPUID_PATH"); unsetenv("HWLOC_COMPONENTS"); unsetenv("HWLOC_DUMPED_HWDATA_DIR");
  unsetenv("HWLOC_KNL_MSCACHE_L3");
}

/* A second level of memory-side caches (no bundled source has one; the Linux back end makes one per memory_side_cache/indexN):
 * every `<object type="MemCache" ...> ... </object>` element of the exported XML chosen by drv_below(2) is wrapped in a copy of its own
 * opening tag with a fresh gp_index / id, i.e. MemCache > MemCache > NUMANode.  Works on the text of both export back ends
 * (attribute values never contain '<' or '>': both escape them).  Returns a new malloc'ed buffer (the old one is freed). */
static char *drv_double_memcaches(char *xml, int *lenp, unsigned long *ndoubled) {
  static const char open_tag[] = "<object type=\"MemCache\"";
  size_t len = (size_t) *lenp, cap = 3 * len + 64, o = 0;
  char *out = malloc(cap);
  size_t *closes = NULL; unsigned nclose = 0;     /* input offsets right after the </object> of a doubled element */
  unsigned long fresh = 0;      /* above every gp_index of the buffer (small numbers: consumers may index tables by gp_index) */
  for (const char *p = xml; (p = strstr(p, " gp_index=\"")) != NULL; p += 11) { unsigned long g = strtoul(p + 11, NULL, 10); if (g >= fresh) fresh = g + 1; }
  fresh += 1 + drv_below(5);
  size_t i = 0;
  while (i < len) {
    for (unsigned k = 0; k < nclose; k++) if (closes[k] == i) { memcpy(out + o, "</object>", 9); o += 9; closes[k] = (size_t) -1; }
    if (xml[i] == '<' && !strncmp(xml + i, open_tag, sizeof open_tag - 1) && drv_below(2)) {
      const char *gt = strchr(xml + i, '>');
      if (gt && gt[-1] != '/') {
        /* find the matching </object> */
        size_t j = (size_t) (gt - xml) + 1; int depth = 1;
        while (j < len && depth > 0) {
          if (!strncmp(xml + j, "<object", 7)) { const char *g2 = strchr(xml + j, '>'); if (!g2) break; if (g2[-1] != '/') depth++; j = (size_t) (g2 - xml) + 1; }
          else if (!strncmp(xml + j, "</object>", 9)) { depth--; j += 9; }
          else j++;
        }
        if (depth == 0) {
          /* copy of the opening tag with a fresh gp_index / id */
          for (const char *p = xml + i; p <= gt; ) {
            if (!strncmp(p, " gp_index=\"", 11)) { o += (size_t) sprintf(out + o, " gp_index=\"%lu\"", fresh); p = strchr(p + 11, '"') + 1; }
            else if (!strncmp(p, " id=\"obj", 8)) { o += (size_t) sprintf(out + o, " id=\"obj%lu\"", fresh); p = strchr(p + 8, '"') + 1; }
            else out[o++] = *p++;
          }
          fresh++;
          closes = realloc(closes, (nclose + 1) * sizeof *closes); closes[nclose++] = j;
          (*ndoubled)++;
        }
      }
    }
    out[o++] = xml[i++];
  }
  for (unsigned k = 0; k < nclose; k++) if (closes[k] == i) { memcpy(out + o, "</object>", 9); o += 9; }
  out[o] = 0;
  free(closes); free(xml);
  *lenp = (int) o;
  return out;
}

/* Siblings of different types (no synthetic description and few bundled files have them): the normal object with gp_index `gp`
 * (a Package, Die or Core) becomes a Group in the exported text.  Returns a new malloc'ed buffer (the old one is freed) or the old one
 * when the object is not found under its type name (v2 exports write a Die as a Group already). */
static char *drv_retype_to_group(char *xml, int *lenp, unsigned long long gp, const char *tyname, int *done) {
  char key[64]; int kl = snprintf(key, sizeof key, " gp_index=\"%llu\"", gp);
  size_t len = (size_t) *lenp;
  for (const char *p = xml; (p = strstr(p, key)) != NULL; p += kl) {
    const char *lt = p; while (lt > xml && *lt != '<') lt--;
    char pat[64]; int pl = snprintf(pat, sizeof pat, "<object type=\"%s\"", tyname);
    if (strncmp(lt, pat, (size_t) pl)) continue;
    static const char rep[] = "<object type=\"Group\"";
    size_t rl = sizeof rep - 1, off = (size_t) (lt - xml);
    char *out = malloc(len + rl + 1);
    memcpy(out, xml, off); memcpy(out + off, rep, rl); memcpy(out + off + rl, lt + pl, len - off - (size_t) pl);
    *lenp = (int) (len + rl - (size_t) pl); out[*lenp] = 0;
    free(xml); *done = 1;
    return out;
  }
  return xml;
}

/* returns a malloc'ed, NUL-terminated XML buffer (length in *lenp) or NULL when the source cannot be loaded */
static char *drv_make_xml(const char *arg, int *lenp) {
  char *end; unsigned long sub = strtoul(arg, &end, 10);
  while (*end == ' ') end++;
  char srckind = *end; if (!srckind) return NULL;
  end++; while (*end == ' ') end++;
  const char *srcarg = end;
  drv_s = sub * 0x9E3779B97F4A7C15ULL + 777; if (!drv_s) drv_s = 1;
  hwloc_topology_t t0; char *xml = NULL, *copy = NULL; int len = 0, err = 0;
  unsigned long long retype_gp = 0; const char *retype_name = NULL; int want_retype = 0, retype_cpuless = 0;
  hwloc_obj_t rmorder_c = NULL, rmorder_n = NULL;
  drv_clear_env();
  if (hwloc_topology_init(&t0) < 0) return NULL;
  for (int ty = 0; ty < HWLOC_OBJ_TYPE_MAX; ty++)
    hwloc_topology_set_type_filter(t0, (hwloc_obj_type_t) ty, HWLOC_TYPE_FILTER_KEEP_ALL);   /* refused for Group: stays KEEP_STRUCTURE */
  if (hwloc_topology_set_flags(t0, HWLOC_TOPOLOGY_FLAG_INCLUDE_DISALLOWED) < 0) err = -1;
  if (!err) switch (srckind) {
  case 'S': err = hwloc_topology_set_synthetic(t0, srcarg); break;
  case 'X': err = hwloc_topology_set_xml(t0, srcarg); break;
  case 'F': setenv("HWLOC_FSROOT", srcarg, 1); setenv("HWLOC_COMPONENTS", "linux,stop", 1); setenv("HWLOC_DUMPED_HWDATA_DIR", "/var/run/hwloc", 1); break;
  case 'G': setenv("HWLOC_FSROOT", srcarg, 1); setenv("HWLOC_COMPONENTS", "linux,pci,stop", 1); setenv("HWLOC_DUMPED_HWDATA_DIR", "/var/run/hwloc", 1); break;
  case 'C': setenv("HWLOC_CPUID_PATH", srcarg, 1); setenv("HWLOC_COMPONENTS", "x86,stop", 1); break;
  default: err = -1;
  }
  /* Knights Landing MCDRAM in cache mode: a real memory-side cache instead of the backward-compatible L3 */
  if ((srckind == 'F' || srckind == 'G') && drv_below(2)) setenv("HWLOC_KNL_MSCACHE_L3", "0", 1);
  if (err < 0 || hwloc_topology_load(t0) < 0) { hwloc_topology_destroy(t0); drv_clear_env(); return NULL; }
  drv_clear_env();
  {
    hwloc_bitmap_t cs = hwloc_bitmap_dup(hwloc_topology_get_topology_cpuset(t0));
    hwloc_bitmap_t ns = hwloc_bitmap_dup(hwloc_topology_get_topology_nodeset(t0));
    hwloc_bitmap_t c2 = hwloc_bitmap_dup(cs), n2 = hwloc_bitmap_dup(ns);
    unsigned pc = drv_below(4) ? 5 + drv_below(60) : 0, pn = drv_below(3) ? 10 + drv_below(60) : 0;
    int nnodes = hwloc_get_nbobjs_by_type(t0, HWLOC_OBJ_NUMANODE), i;
    hwloc_bitmap_foreach_begin(i, cs) if (drv_below(100) < pc) hwloc_bitmap_clr(c2, i); hwloc_bitmap_foreach_end();
    hwloc_bitmap_foreach_begin(i, ns) if (drv_below(100) < pn) hwloc_bitmap_clr(n2, i); hwloc_bitmap_foreach_end();
    if (nnodes > 0 && !drv_below(4)) {     /* the whole locality of one NUMA node */
      hwloc_obj_t n = hwloc_get_obj_by_type(t0, HWLOC_OBJ_NUMANODE, drv_below((unsigned) nnodes));
      if (n && n->cpuset) hwloc_bitmap_andnot(c2, c2, n->cpuset);
    }
    if (nnodes > 0 && !drv_below(4)) {     /* one NUMA node */
      hwloc_obj_t n = hwloc_get_obj_by_type(t0, HWLOC_OBJ_NUMANODE, drv_below((unsigned) nnodes));
      if (n) hwloc_bitmap_clr(n2, n->os_index);
    }
    if (!drv_below(3)) {
      /* one Package / Die / Core (preferably one with memory children) will become a Group in the text; half of the time all its
       * PUs are disallowed while its NUMA nodes stay allowed: a CPU-less normal object kept for its memory, beside other types */
      static const hwloc_obj_type_t rt[3] = { HWLOC_OBJ_PACKAGE, HWLOC_OBJ_DIE, HWLOC_OBJ_CORE };
      hwloc_obj_type_t ty = rt[drv_below(3)];
      int nb = hwloc_get_nbobjs_by_type(t0, ty);
      if (nb > 1) {
        hwloc_obj_t x = hwloc_get_obj_by_type(t0, ty, drv_below((unsigned) nb));
        for (int tries = 0; tries < 6 && x && !x->memory_arity; tries++) x = hwloc_get_obj_by_type(t0, ty, drv_below((unsigned) nb));
        if (x && x->cpuset) {
          retype_gp = x->gp_index; retype_name = hwloc_obj_type_string(ty); want_retype = 1;
          if (drv_below(2) && !hwloc_bitmap_isequal(x->cpuset, cs)) {
            hwloc_bitmap_andnot(c2, c2, x->cpuset);
            for (hwloc_obj_t m = x->memory_first_child; m; m = m->next_sibling) hwloc_bitmap_or(n2, n2, m->nodeset);
            retype_cpuless = 1;
          }
        }
      }
    }
    {
      /* remove_empty order (A1): about one source in five gets a parent P one of whose normal children C (all its PUs disallowed) AND one of
       * whose NUMA nodes (disallowed) will both be unlinked by remove_empty, each with a Misc child: the Misc lists are appended to P's in the
       * order in which remove_empty visits the children.  Own random state, so that every other choice of an existing plan line is unchanged. */
      uint64_t s2 = sub * 0xD1B54A32D192ED03ULL + 4242; if (!s2) s2 = 1;
#define DRV2(n) (s2 ^= s2 << 13, s2 ^= s2 >> 7, s2 ^= s2 << 17, (unsigned) ((s2 >> 11) % (n)))
      if (nnodes > 0 && DRV2(5) == 0) {
        hwloc_obj_t n = hwloc_get_obj_by_type(t0, HWLOC_OBJ_NUMANODE, DRV2((unsigned) nnodes));
        hwloc_obj_t P = n ? n->parent : NULL;
        if (P && hwloc_obj_type_is_normal(P->type) && P->arity >= 2 && hwloc_bitmap_weight(ns) > 1) {
          hwloc_obj_t C = P->children[DRV2(P->arity)];
          if (C && C->cpuset && !hwloc_bitmap_isequal(C->cpuset, cs)) {
            hwloc_bitmap_andnot(c2, c2, C->cpuset);
            hwloc_bitmap_clr(n2, n->os_index);
            rmorder_c = C; rmorder_n = n;
            if (DRV2(2)) { hwloc_obj_t leaf = C; while (leaf->first_child) leaf = leaf->first_child; rmorder_c = leaf; }
          }
        }
      }
#undef DRV2
    }
    if (hwloc_bitmap_isequal(c2, cs) && hwloc_bitmap_isequal(n2, ns)) {
      int w = hwloc_bitmap_weight(cs);
      if (w > 1) { int k = (int) drv_below((unsigned) w), b = hwloc_bitmap_first(cs); while (k-- > 0) b = hwloc_bitmap_next(cs, b); hwloc_bitmap_clr(c2, b); }
    }
    if (hwloc_bitmap_iszero(c2) && !hwloc_bitmap_iszero(cs)) hwloc_bitmap_set(c2, hwloc_bitmap_first(cs));
    if (hwloc_bitmap_iszero(n2) && !hwloc_bitmap_iszero(ns)) hwloc_bitmap_set(n2, hwloc_bitmap_first(ns));
    if (hwloc_topology_allow(t0, c2, n2, HWLOC_ALLOW_FLAG_CUSTOM) < 0) drv_allow_refused++;   /* then the sets stay as loaded */
    else {
      if (!hwloc_bitmap_isequal(c2, cs)) drv_dropped_pu++;
      if (!hwloc_bitmap_isequal(n2, ns)) drv_dropped_node++;
    }
    hwloc_bitmap_free(cs); hwloc_bitmap_free(ns); hwloc_bitmap_free(c2); hwloc_bitmap_free(n2);
  }
  if (!drv_below(3)) {
    /* Misc objects on random objects of any kind, preferably on BOTH sides of a parent with a single normal child (level merging
     * hands the special children of the removed object over to the surviving one) and below memory objects */
    unsigned nm = 1 + drv_below(5), depth = (unsigned) hwloc_topology_get_depth(t0);
    for (unsigned k = 0; k < nm; k++) {
      unsigned d = drv_below(depth), w = hwloc_get_nbobjs_by_depth(t0, (int) d);
      hwloc_obj_t o = w ? hwloc_get_obj_by_depth(t0, (int) d, drv_below(w)) : NULL;
      for (int tries = 0; tries < 8 && o && o->arity != 1; tries++) { d = drv_below(depth); w = hwloc_get_nbobjs_by_depth(t0, (int) d); o = w ? hwloc_get_obj_by_depth(t0, (int) d, drv_below(w)) : NULL; }
      if (!o) continue;
      char nmbuf[32]; snprintf(nmbuf, sizeof nmbuf, "drv-misc-%u", k);
      if (hwloc_topology_insert_misc_object(t0, o, nmbuf)) drv_misc++;
      if (o->arity == 1 && drv_below(4)) { snprintf(nmbuf, sizeof nmbuf, "drv-misc-%u-child", k); if (hwloc_topology_insert_misc_object(t0, o->first_child, nmbuf)) drv_misc++; }
      if (o->memory_first_child && !drv_below(3)) { snprintf(nmbuf, sizeof nmbuf, "drv-misc-%u-mem", k); if (hwloc_topology_insert_misc_object(t0, o->memory_first_child, nmbuf)) drv_misc++; }
    }
  }
  if (rmorder_c && rmorder_n) {
    if (hwloc_topology_insert_misc_object(t0, rmorder_c, "drv-rmorder-c")) drv_misc++;
    if (hwloc_topology_insert_misc_object(t0, rmorder_n, "drv-rmorder-m")) drv_misc++;
    drv_rmorder++;
  }
  int has_msc = hwloc_get_nbobjs_by_type(t0, HWLOC_OBJ_MEMCACHE) > 0;
  if (has_msc) drv_with_memcache++;
  {
    unsigned long xflags = drv_below(3) ? 0 : HWLOC_TOPOLOGY_EXPORT_XML_FLAG_V2;
    if (xflags) drv_v2++;
    if (hwloc_topology_export_xmlbuffer(t0, &xml, &len, xflags) == 0 && xml) {
      copy = malloc((size_t) len + 1); memcpy(copy, xml, (size_t) len); copy[len] = 0; *lenp = len;
      hwloc_free_xmlbuffer(t0, xml);
      drv_made++;
    }
  }
  hwloc_topology_destroy(t0);
  if (copy && want_retype) {
    int done = 0;
    copy = drv_retype_to_group(copy, lenp, retype_gp, retype_name, &done);
    if (done) { drv_retyped++; if (retype_cpuless) drv_retyped_cpuless++; }
  }
  if (copy && has_msc && !drv_below(3)) {
    unsigned long nd = 0;
    copy = drv_double_memcaches(copy, lenp, &nd);
    if (nd) drv_two_level_memcache++;
  }
  return copy;
}
/* ---- generator pieces shared by the two harnesses (main stream: rng.h, seeded from VERIF_SEED) ---- */
#include "rng.h"

/* the sources file of the run (lines "X <xml path>" | "F <fsroot dir>" | "C <cpuid dir>") */
struct src { char kind; char path[1000]; };
static struct src *srcs; static unsigned nsrcs;
/* one source in five is drawn among those with a richer memory hierarchy (memory-side caches, DAX / CXL / HMAT / KNL memory) */
static int src_is_memrich(const struct src *s) {
  static const char *const pat[] = {"memorysidecache", "KNL", "dax", "hmat", "memtier", "cxl", "gpunuma", "meminitiators", "heteromem", "fakemem"};
  const char *b = strrchr(s->path, '/'); b = b ? b + 1 : s->path;
  for (unsigned i = 0; i < sizeof pat / sizeof *pat; i++) if (strstr(b, pat[i])) return 1;
  return 0;
}
static struct src *pick_src(void) {
  if (rng_chance(20)) {
    unsigned n = 0;
    for (unsigned i = 0; i < nsrcs; i++) n += (unsigned) src_is_memrich(&srcs[i]);
    if (n) { unsigned k = rng_below(n); for (unsigned i = 0; i < nsrcs; i++) if (src_is_memrich(&srcs[i]) && !k--) return &srcs[i]; }
  }
  return &srcs[rng_below(nsrcs)];
}


/* type-filter assignment, 20 chars: '-' = leave the default, '0'..'3' = KEEP_ALL / KEEP_NONE / KEEP_STRUCTURE / KEEP_IMPORTANT.
 * type numbers: 2 Die, 10-12 L1i-L3i, 13 Group, 15 MemCache, 16 Bridge, 17 PCI, 18 OSDev, 19 Misc */
static void drv_gen_filters(char *f) {
  static const int sp[] = {2, 10, 11, 12, 13, 15, 16, 17, 18, 19};
  for (int i = 0; i < 20; i++) f[i] = '-';
  f[20] = 0;
  unsigned mode = rng_below(100);
  if (mode < 18) ;                                                                     /* all defaults */
  else if (mode < 28) { for (int i = 0; i < 20; i++) f[i] = '0'; f[13] = '-'; }        /* keep all */
  else if (mode < 36) { for (int i = 0; i < 20; i++) f[i] = '2';                       /* keep structure */
                        if (rng_chance(60)) for (int i = 16; i < 20; i++) f[i] = '0'; }  /* ... with I/O and Misc kept: merged levels hand them over */
  else if (mode < 43) { for (int i = 0; i < 20; i++) f[i] = '1'; }                     /* keep none (where legal) */
  else if (mode < 70) {                     /* the types whose default is not KEEP_ALL (+ Die): each a random filter, half of the time */
    for (unsigned k = 0; k < sizeof sp / sizeof *sp; k++) if (rng_chance(50)) f[sp[k]] = (char) ('0' + rng_below(4));
  } else { int n = 1 + (int) rng_below(6); for (int k = 0; k < n; k++) f[rng_below(20)] = (char) ('0' + rng_below(4)); }
  /* memory-side caches are dropped by default: keep them in a further third of the cases */
  if (rng_chance(33)) f[15] = rng_chance(75) ? '0' : rng_chance(50) ? '2' : '3';
}

/* attributes of a synthetic NUMA level / attached NUMA node; `level` = a real level (indexes must then be a permutation-free pair) */
static const char *drv_gen_numa_attrs(int level) {
  static const char *const mem[] = {"", "memory=1GB", "memory=256MB"};
  static const char *const msc[] = {"", "memorysidecachesize=64MB", "memorysidecachesize=128MB"};
  static char buf[128];
  unsigned m = rng_chance(45) ? 1 + rng_below(2) : 0, c = rng_chance(40) ? 1 + rng_below(2) : 0;
  const char *idx = rng_chance(8) ? (level ? "indexes=1,1" : "indexes=1,0") : "";
  if (!m && !c && !*idx) return "";
  snprintf(buf, sizeof buf, "(%s%s%s%s%s)", mem[m], m && (c || *idx) ? " " : "", msc[c], c && *idx ? " " : "", idx);
  return buf;
}
#endif
