/* C10 differential harness (engine `bind`).
 *
 * usage: bind <nops> <ops-file> <out-file> <stats-file>     generate mode, seed = VERIF_SEED
 *        bind --replay <ops-file> <out-file>                 replay mode
 * env:   VERIF_XMLDIR  directory of the bundled XML files (tests/hwloc/xml of the tree under test)
 *        VERIF_BIND_LIVE=<n>  number of live round-trip subsets (generate mode; 0 = none)
 *
 * The executable INTERPOSES the libc entry points the Linux hooks end in: sched_setaffinity, sched_getaffinity,
 * pthread_{set,get}affinity_np and syscall() (set_mempolicy / get_mempolicy / mbind / migrate_pages / move_pages are
 * reached through syscall() in topology-linux.c).  Every interposed call is logged (call, masks) and then either
 * forwarded to libc (k=fwd) or answered from the op's kernel script (k=ok,EINVAL,ENOSYS,...; last entry repeats):
 * the kernel's answer is an INPUT of the case, never a prediction.
 *
 * Op lines (facts after '|' are measured by the harness and are inputs of the model; in replay mode they are
 * re-measured and a change is reported as `facts-changed`):
 *   native | hooks=<hex> nrcpus=<n> maxnodes=<n> aff=<hex> lastcpu=<n>
 *   topo <native|synth|xml|envsynth> <arg> <flagThis> <tpid> <envthis:-|0|1> | ccs= tcs= cns= tns= nodes=
 *       -> this=<0/1> hooks=<hex> sup=<hex>
 *   stub <presence hex> | unstub                          -> ok
 *   call <entry> <set> <flags> <policy> <len> <pid> h=<hook script> k=<kernel script> km=<hex> kp=<n> ks=<n>
 *       -> rc= e= set= pol= hl=[hook log] sl=[syscall log]
 *   live <subset hex> <flags>                             -> rc= get= raw= lastin=      (real kernel)
 *   loadcheck <topology flags> <components|->             -> after=                      (real kernel)
 */
#define _GNU_SOURCE
#include "private/autogen/config.h"
#include "hwloc.h"
#include "private/private.h"
#include "rng.h"
#include <sys/prctl.h>
#include <stdio.h>
#include <string.h>
#include <errno.h>
#include <stdarg.h>
#include <sched.h>
#include <pthread.h>
#include <dlfcn.h>
#include <unistd.h>
#include <sys/syscall.h>
#include <sys/mman.h>

/* ------------------------------------------------------------------ small helpers */

#define BADPID 0x7ffffff1
#define NHOOKS 23
static const char *hook_names[NHOOKS] = {
  "set_thisproc_cpubind", "get_thisproc_cpubind", "set_thisthread_cpubind", "get_thisthread_cpubind",
  "set_proc_cpubind", "get_proc_cpubind", "set_thread_cpubind", "get_thread_cpubind",
  "get_thisproc_last_cpu_location", "get_thisthread_last_cpu_location", "get_proc_last_cpu_location",
  "set_thisproc_membind", "get_thisproc_membind", "set_thisthread_membind", "get_thisthread_membind",
  "set_proc_membind", "get_proc_membind", "set_area_membind", "get_area_membind", "get_area_memlocation",
  "alloc", "alloc_membind", "free_membind" };

static FILE *fops, *fout;
static hwloc_topology_t T;
static struct hwloc_binding_hooks saved_hooks;
static int stubbed;
static int t_this, t_pid;          /* current topology: IS_THISSYSTEM state, topology->pid != 0 */
static hwloc_bitmap_t ccs, tcs, cns, tns;
static unsigned long st[64];
enum { S_OPS, S_TOPO, S_TOPO_THIS, S_TOPO_DUMMY, S_STUB, S_CALL_STUB, S_CALL_DUMMY, S_CALL_NATIVE, S_RC_OK, S_EINVAL,
       S_ENOSYS, S_OTHERERR, S_HOOKLOG0, S_HOOKLOG1, S_HOOKLOG2, S_SYSLOG0, S_SYSLOGN, S_SET_EMPTY, S_SET_INF,
       S_SET_OUT, S_SET_COVER, S_SET_VALID, S_SET_DISALLOWED, S_FLAG_UNKNOWN, S_POLICY_BAD, S_LIVE, S_LOADCHECK,
       S_LEN0, S_NULLPTR, S_FALLTHROUGH, S_DIRTY_OUT, S_LOADCHECK_HELPER, S_LIVE_PROCSTAT, S_N };
static const char *st_names[S_N] = { "ops", "topo", "topo_thissystem", "topo_dummy", "stub_tables", "call_stub", "call_dummy",
  "call_native", "rc_ok", "rc_einval", "rc_enosys", "rc_othererr", "hooklog_0", "hooklog_1", "hooklog_2plus", "syslog_0",
  "syslog_nonempty", "set_empty", "set_infinite", "set_out_of_range", "set_covers_topology", "set_valid", "set_disallowed_bits",
  "flags_unknown_bits", "policy_invalid", "live_roundtrips", "loadchecks", "len_zero", "null_pointer", "enosys_fallthrough", "dirty_output_bitmaps", "loadchecks_with_second_thread", "live_procstat_lastcpu" };

static const char *errname_of(int e) {
  switch (e) {
  case EINVAL: return "EINVAL"; case ENOSYS: return "ENOSYS"; case EXDEV: return "EXDEV";
  case EPERM: return "EPERM"; case ENOMEM: return "ENOMEM"; default: return "fail";
  }
}
static int errno_of(const char *s) {
  if (!strcmp(s, "EINVAL")) return EINVAL; if (!strcmp(s, "ENOSYS")) return ENOSYS; if (!strcmp(s, "EXDEV")) return EXDEV;
  if (!strcmp(s, "EPERM")) return EPERM; if (!strcmp(s, "ENOMEM")) return ENOMEM; return EIO;
}

/* finite bitmap -> hex (arbitrary length); "INF" when infinite */
static void hexfin(hwloc_const_bitmap_t b, char *out, size_t cap) {
  if (hwloc_bitmap_weight(b) < 0) { snprintf(out, cap, "INF"); return; }
  int n = hwloc_bitmap_nr_ulongs(b);
  if (n <= 0) { snprintf(out, cap, "0"); return; }
  size_t p = 0;
  for (int i = n - 1; i >= 0 && p + 20 < cap; i--)
    p += snprintf(out + p, cap - p, i == n - 1 ? "%lx" : "%016lx", hwloc_bitmap_to_ith_ulong(b, i));
}
/* argument set -> f<hex> | c<hex of complement> */
static void hexarg(hwloc_const_bitmap_t b, char *out, size_t cap) {
  if (hwloc_bitmap_weight(b) < 0) {
    hwloc_bitmap_t c = hwloc_bitmap_alloc(); hwloc_bitmap_not(c, b);
    out[0] = 'c'; hexfin(c, out + 1, cap - 1); hwloc_bitmap_free(c);
  } else { out[0] = 'f'; hexfin(b, out + 1, cap - 1); }
}
static hwloc_bitmap_t parsehex(const char *s) {
  hwloc_bitmap_t b = hwloc_bitmap_alloc();
  size_t n = strlen(s); unsigned w = 0;
  while (n > 0) {
    size_t k = n >= 16 ? 16 : n; char tmp[17];
    memcpy(tmp, s + n - k, k); tmp[k] = 0;
    unsigned long v = strtoul(tmp, NULL, 16);
    if (v) hwloc_bitmap_set_ith_ulong(b, w, v);
    w++; n -= k;
  }
  return b;
}
static hwloc_bitmap_t parsearg(const char *s) {
  hwloc_bitmap_t b = parsehex(s + 1);
  if (s[0] == 'c') hwloc_bitmap_not(b, b);
  return b;
}

/* ------------------------------------------------------------------ interposition */

static char slog[16384]; static size_t slog_len; static unsigned slog_n;
static char kscript[256]; static const char *kcur;      /* kernel script, comma separated; last repeats */
static hwloc_bitmap_t km;                                  /* mask returned by mocked sched_getaffinity / get_mempolicy */
static int kp, ks;                                         /* policy of mocked get_mempolicy, status of mocked move_pages */
static unsigned seen_ga_size, seen_gm_maxnode;

static void slog_add(const char *fmt, ...) {
  va_list ap; va_start(ap, fmt);
  if (slog_len + 600 < sizeof slog) {
    if (slog_n) slog[slog_len++] = ';';
    slog_len += vsnprintf(slog + slog_len, sizeof slog - slog_len, fmt, ap);
  }
  slog_n++;
  va_end(ap);
}
static void slog_reset(void) { slog_len = 0; slog_n = 0; slog[0] = 0; }

/* next kernel answer: -1 = forward to the real kernel, 0 = success, >0 = errno */
static int knext(void) {
  char tok[32]; size_t n = strcspn(kcur, ",");
  if (n >= sizeof tok) n = sizeof tok - 1;
  memcpy(tok, kcur, n); tok[n] = 0;
  if (kcur[n] == ',') kcur += n + 1;
  if (!strcmp(tok, "fwd")) return -1;
  if (!strcmp(tok, "ok")) return 0;
  return errno_of(tok);
}
static void kset(const char *s) { snprintf(kscript, sizeof kscript, "%s", s); kcur = kscript; }

static const char *tidname(long tid, char *buf) {
  if (tid == 0) return "0";
  if (tid == getpid()) return "self";
  if (tid == BADPID) return "bad";
  sprintf(buf, "%ld", tid); return buf;
}
static void hexbytes(const void *p, size_t nbytes, char *out, size_t cap) {
  /* little-endian byte array -> hex number */
  const unsigned char *c = p; size_t hi = nbytes, q = 0;
  while (hi > 0 && !c[hi - 1]) hi--;
  if (!hi) { snprintf(out, cap, "0"); return; }
  for (size_t i = hi; i-- > 0 && q + 3 < cap;) q += snprintf(out + q, cap - q, i == hi - 1 ? "%x" : "%02x", c[i]);
}
static void fill_from_bitmap(void *dst, size_t nbytes, hwloc_const_bitmap_t b) {
  memset(dst, 0, nbytes);
  for (size_t i = 0; i < nbytes / sizeof(unsigned long); i++) {
    unsigned long w = hwloc_bitmap_to_ith_ulong(b, i);
    memcpy((char *) dst + i * sizeof w, &w, sizeof w);
  }
}

typedef int (*sa_fn)(pid_t, size_t, const cpu_set_t *);
typedef int (*ga_fn)(pid_t, size_t, cpu_set_t *);
typedef long (*sc_fn)(long, ...);
static sa_fn real_sa; static ga_fn real_ga; static sc_fn real_sc;
static void resolve(void) {
  if (!real_sa) real_sa = (sa_fn) dlsym(RTLD_NEXT, "sched_setaffinity");
  if (!real_ga) real_ga = (ga_fn) dlsym(RTLD_NEXT, "sched_getaffinity");
  if (!real_sc) real_sc = (sc_fn) dlsym(RTLD_NEXT, "syscall");
}

int sched_setaffinity(pid_t pid, size_t sz, const cpu_set_t *mask) {
  char hx[2100], tb[32]; resolve();
  hexbytes(mask, sz, hx, sizeof hx);
  slog_add("SA(%s,%s)", tidname(pid, tb), hx);
  int k = knext();
  if (k < 0) return real_sa(pid, sz, mask);
  if (k) { errno = k; return -1; }
  return 0;
}
int sched_getaffinity(pid_t pid, size_t sz, cpu_set_t *mask) {
  char tb[32]; resolve();
  slog_add("GA(%s,%zu)", tidname(pid, tb), sz);
  seen_ga_size = sz;
  int k = knext();
  if (k < 0) return real_ga(pid, sz, mask);
  if (k) { errno = k; return -1; }
  fill_from_bitmap(mask, sz, km);
  return 0;
}
int pthread_setaffinity_np(pthread_t th, size_t sz, const cpu_set_t *mask) {
  char hx[2100]; hexbytes(mask, sz, hx, sizeof hx);
  slog_add("PSA(%s)", hx);
  int k = knext();
  if (k < 0) { resolve(); return real_sa(0, sz, mask) < 0 ? errno : 0; }
  return k;
}
int pthread_getaffinity_np(pthread_t th, size_t sz, cpu_set_t *mask) {
  slog_add("PGA(%zu)", sz);
  int k = knext();
  if (k < 0) { resolve(); return real_ga(0, sz, mask) < 0 ? errno : 0; }
  if (k) return k;
  fill_from_bitmap(mask, sz, km);
  return 0;
}

static void maskhex(const unsigned long *m, unsigned long maxnode, char *out, size_t cap) {
  if (!m) { snprintf(out, cap, "NULL"); return; }
  /* the kernel reads maxnode-1 bits; hwloc passes max_os_index+1 with max_os_index a multiple of 64 */
  hexbytes(m, (maxnode - 1 + 7) / 8, out, cap);
}

long syscall(long nr, ...) {
  va_list ap; long a[6]; char h1[600], h2[600];
  va_start(ap, nr); for (int i = 0; i < 6; i++) a[i] = va_arg(ap, long); va_end(ap);
  resolve();
  int k;
  switch (nr) {
  case __NR_set_mempolicy:
    maskhex((const unsigned long *) a[1], a[2], h1, sizeof h1);
    slog_add("SM(%d,%s,%lu)", (int) a[0], h1, (unsigned long) a[2]);
    k = knext(); if (k < 0) break;
    if (k) { errno = k; return -1; }
    return 0;
  case __NR_mbind:
    maskhex((const unsigned long *) a[3], a[4], h1, sizeof h1);
    slog_add("MB(%lu,%d,%s,%lu,%u)", (unsigned long) a[1], (int) a[2], h1, (unsigned long) a[4], (unsigned) a[5]);
    k = knext(); if (k < 0) break;
    if (k) { errno = k; return -1; }
    return 0;
  case __NR_get_mempolicy:
    slog_add("GM(%lu,%d,%lu)", (unsigned long) a[2], a[3] ? 1 : 0, (unsigned long) a[4]);
    seen_gm_maxnode = a[2];
    k = knext(); if (k < 0) break;
    if (k) { errno = k; return -1; }
    *(int *) a[0] = kp;
    fill_from_bitmap((void *) a[1], a[2] / 8, km);
    return 0;
  case __NR_migrate_pages:
    maskhex((const unsigned long *) a[2], a[1], h1, sizeof h1);
    maskhex((const unsigned long *) a[3], a[1], h2, sizeof h2);
    slog_add("MG(%lu,%s,%s)", (unsigned long) a[1], h1, h2);
    k = knext(); if (k < 0) break;
    if (k) { errno = k; return -1; }
    return 0;
  case __NR_move_pages:
    slog_add("MP(%lu,%s)", (unsigned long) a[1], a[3] ? "nodes" : "NULL");
    k = knext(); if (k < 0) break;
    if (k) { errno = k; return -1; }
    for (unsigned long i = 0; i < (unsigned long) a[1]; i++) ((int *) a[4])[i] = ks;
    return 0;
  default: break;
  }
  return real_sc(nr, a[0], a[1], a[2], a[3], a[4], a[5]);
}

/* ------------------------------------------------------------------ stub hooks */

static char hlog[8192]; static size_t hlog_len; static unsigned hlog_n;
static char hscript[512]; static const char *hcur;
static void hlog_reset(void) { hlog_len = 0; hlog_n = 0; hlog[0] = 0; }
static void hset(const char *s) { snprintf(hscript, sizeof hscript, "%s", s); hcur = hscript; }

struct hresp { int rc; int err; char set[200]; int pol; };
/* next hook answer "rc:err:sethex:pol" (last repeats) */
static struct hresp hnext(void) {
  struct hresp r = { 0, 0, "0", 0 };
  char tok[300], es[32] = "-"; size_t n = strcspn(hcur, ",");
  if (n >= sizeof tok) n = sizeof tok - 1;
  memcpy(tok, hcur, n); tok[n] = 0;
  if (hcur[n] == ',') hcur += n + 1;
  sscanf(tok, "%d:%31[^:]:%199[^:]:%d", &r.rc, es, r.set, &r.pol);
  r.err = strcmp(es, "-") ? errno_of(es) : 0;
  return r;
}
static int stub_common(int h, hwloc_const_bitmap_t inset, hwloc_bitmap_t outset, int policy, int *outpolicy, int flags,
                       long pid, size_t len) {
  char sx[2100] = "-";
  if (inset) hexfin(inset, sx, sizeof sx);
  if (hlog_len + 2300 < sizeof hlog) {
    if (hlog_n) hlog[hlog_len++] = ';';
    hlog_len += snprintf(hlog + hlog_len, sizeof hlog - hlog_len, "%s(%s,%d,%u,%s,%zu)", hook_names[h], sx, policy,
                         (unsigned) flags, pid == 0 ? "0" : pid == getpid() ? "self" : pid == BADPID ? "bad" : "?", len);
  }
  hlog_n++;
  struct hresp r = hnext();
  if (outset) { hwloc_bitmap_t b = parsehex(r.set); hwloc_bitmap_copy(outset, b); hwloc_bitmap_free(b); }
  if (outpolicy) *outpolicy = r.pol;
  if (r.err) errno = r.err;
  return r.rc;
}
#define TT hwloc_topology_t t
static int s_set_thisproc_cpubind(TT, hwloc_const_cpuset_t s, int f) { return stub_common(0, s, NULL, 0, NULL, f, 0, 0); }
static int s_get_thisproc_cpubind(TT, hwloc_cpuset_t s, int f) { return stub_common(1, NULL, s, 0, NULL, f, 0, 0); }
static int s_set_thisthread_cpubind(TT, hwloc_const_cpuset_t s, int f) { return stub_common(2, s, NULL, 0, NULL, f, 0, 0); }
static int s_get_thisthread_cpubind(TT, hwloc_cpuset_t s, int f) { return stub_common(3, NULL, s, 0, NULL, f, 0, 0); }
static int s_set_proc_cpubind(TT, hwloc_pid_t p, hwloc_const_cpuset_t s, int f) { return stub_common(4, s, NULL, 0, NULL, f, p, 0); }
static int s_get_proc_cpubind(TT, hwloc_pid_t p, hwloc_cpuset_t s, int f) { return stub_common(5, NULL, s, 0, NULL, f, p, 0); }
static int s_set_thread_cpubind(TT, hwloc_thread_t th, hwloc_const_cpuset_t s, int f) { return stub_common(6, s, NULL, 0, NULL, f, 0, 0); }
static int s_get_thread_cpubind(TT, hwloc_thread_t th, hwloc_cpuset_t s, int f) { return stub_common(7, NULL, s, 0, NULL, f, 0, 0); }
static int s_get_thisproc_last(TT, hwloc_cpuset_t s, int f) { return stub_common(8, NULL, s, 0, NULL, f, 0, 0); }
static int s_get_thisthread_last(TT, hwloc_cpuset_t s, int f) { return stub_common(9, NULL, s, 0, NULL, f, 0, 0); }
static int s_get_proc_last(TT, hwloc_pid_t p, hwloc_cpuset_t s, int f) { return stub_common(10, NULL, s, 0, NULL, f, p, 0); }
static int s_set_thisproc_membind(TT, hwloc_const_nodeset_t s, hwloc_membind_policy_t po, int f) { return stub_common(11, s, NULL, po, NULL, f, 0, 0); }
static int s_get_thisproc_membind(TT, hwloc_nodeset_t s, hwloc_membind_policy_t *po, int f) { return stub_common(12, NULL, s, 0, (int *) po, f, 0, 0); }
static int s_set_thisthread_membind(TT, hwloc_const_nodeset_t s, hwloc_membind_policy_t po, int f) { return stub_common(13, s, NULL, po, NULL, f, 0, 0); }
static int s_get_thisthread_membind(TT, hwloc_nodeset_t s, hwloc_membind_policy_t *po, int f) { return stub_common(14, NULL, s, 0, (int *) po, f, 0, 0); }
static int s_set_proc_membind(TT, hwloc_pid_t p, hwloc_const_nodeset_t s, hwloc_membind_policy_t po, int f) { return stub_common(15, s, NULL, po, NULL, f, p, 0); }
static int s_get_proc_membind(TT, hwloc_pid_t p, hwloc_nodeset_t s, hwloc_membind_policy_t *po, int f) { return stub_common(16, NULL, s, 0, (int *) po, f, p, 0); }
static int s_set_area_membind(TT, const void *a, size_t l, hwloc_const_nodeset_t s, hwloc_membind_policy_t po, int f) { return stub_common(17, s, NULL, po, NULL, f, 0, l); }
static int s_get_area_membind(TT, const void *a, size_t l, hwloc_nodeset_t s, hwloc_membind_policy_t *po, int f) { return stub_common(18, NULL, s, 0, (int *) po, f, 0, l); }
static int s_get_area_memlocation(TT, const void *a, size_t l, hwloc_nodeset_t s, int f) { return stub_common(19, NULL, s, 0, NULL, f, 0, l); }
static void *s_alloc(TT, size_t l) { return stub_common(20, NULL, NULL, 0, NULL, 0, 0, l) < 0 ? NULL : malloc(l ? l : 1); }
static void *s_alloc_membind(TT, size_t l, hwloc_const_nodeset_t s, hwloc_membind_policy_t po, int f) { return stub_common(21, s, NULL, po, NULL, f, 0, l) < 0 ? NULL : malloc(l ? l : 1); }
static int s_free_membind(TT, void *a, size_t l) { free(a); return stub_common(22, NULL, NULL, 0, NULL, 0, 0, l); }

static void **hook_slot(struct hwloc_binding_hooks *h, int i) {
  switch (i) {
  case 0: return (void **) &h->set_thisproc_cpubind; case 1: return (void **) &h->get_thisproc_cpubind;
  case 2: return (void **) &h->set_thisthread_cpubind; case 3: return (void **) &h->get_thisthread_cpubind;
  case 4: return (void **) &h->set_proc_cpubind; case 5: return (void **) &h->get_proc_cpubind;
  case 6: return (void **) &h->set_thread_cpubind; case 7: return (void **) &h->get_thread_cpubind;
  case 8: return (void **) &h->get_thisproc_last_cpu_location; case 9: return (void **) &h->get_thisthread_last_cpu_location;
  case 10: return (void **) &h->get_proc_last_cpu_location;
  case 11: return (void **) &h->set_thisproc_membind; case 12: return (void **) &h->get_thisproc_membind;
  case 13: return (void **) &h->set_thisthread_membind; case 14: return (void **) &h->get_thisthread_membind;
  case 15: return (void **) &h->set_proc_membind; case 16: return (void **) &h->get_proc_membind;
  case 17: return (void **) &h->set_area_membind; case 18: return (void **) &h->get_area_membind;
  case 19: return (void **) &h->get_area_memlocation;
  case 20: return (void **) &h->alloc; case 21: return (void **) &h->alloc_membind; default: return (void **) &h->free_membind;
  }
}
static void *stub_fns[NHOOKS] = {
  s_set_thisproc_cpubind, s_get_thisproc_cpubind, s_set_thisthread_cpubind, s_get_thisthread_cpubind, s_set_proc_cpubind,
  s_get_proc_cpubind, s_set_thread_cpubind, s_get_thread_cpubind, s_get_thisproc_last, s_get_thisthread_last, s_get_proc_last,
  s_set_thisproc_membind, s_get_thisproc_membind, s_set_thisthread_membind, s_get_thisthread_membind, s_set_proc_membind,
  s_get_proc_membind, s_set_area_membind, s_get_area_membind, s_get_area_memlocation, s_alloc, s_alloc_membind, s_free_membind };

static unsigned long hooks_mask(struct hwloc_binding_hooks *h) {
  unsigned long m = 0;
  for (int i = 0; i < NHOOKS; i++) if (*hook_slot(h, i)) m |= 1UL << i;
  return m;
}
static unsigned long support_mask(hwloc_topology_t t) {
  const struct hwloc_topology_support *s = hwloc_topology_get_support(t);
  const struct hwloc_topology_cpubind_support *c = s->cpubind; const struct hwloc_topology_membind_support *m = s->membind;
  unsigned char v[NHOOKS] = { c->set_thisproc_cpubind, c->get_thisproc_cpubind, c->set_thisthread_cpubind, c->get_thisthread_cpubind,
    c->set_proc_cpubind, c->get_proc_cpubind, c->set_thread_cpubind, c->get_thread_cpubind, c->get_thisproc_last_cpu_location,
    c->get_thisthread_last_cpu_location, c->get_proc_last_cpu_location, m->set_thisproc_membind, m->get_thisproc_membind,
    m->set_thisthread_membind, m->get_thisthread_membind, m->set_proc_membind, m->get_proc_membind, m->set_area_membind,
    m->get_area_membind, m->get_area_memlocation, 0, m->alloc_membind, 0 };
  unsigned long r = 0;
  for (int i = 0; i < NHOOKS; i++) if (v[i]) r |= 1UL << i;
  return r;
}

/* ------------------------------------------------------------------ native facts, topology loading */

static hwloc_bitmap_t orig_aff;       /* the binding the harness started with (restored at exit) */
static unsigned nrcpus, maxnodes;

static void raw_getaff(hwloc_bitmap_t out) {
  unsigned long buf[64]; resolve();
  hwloc_bitmap_zero(out);
  if (real_ga(0, sizeof buf, (cpu_set_t *) buf) == 0)
    for (unsigned i = 0; i < 64; i++) if (buf[i]) hwloc_bitmap_set_ith_ulong(out, i, buf[i]);
}
static void raw_setaff(hwloc_const_bitmap_t b) {
  unsigned long buf[64]; resolve();
  for (unsigned i = 0; i < 64; i++) buf[i] = hwloc_bitmap_to_ith_ulong(b, i);
  real_sa(0, sizeof buf, (cpu_set_t *) buf);
}

static void native_facts(char *out, size_t cap) {
  struct hwloc_binding_hooks h; struct hwloc_topology_support sup;
  struct hwloc_topology_discovery_support d; struct hwloc_topology_cpubind_support c; struct hwloc_topology_membind_support m;
  struct hwloc_topology_misc_support mi;
  memset(&h, 0, sizeof h); memset(&d, 0, sizeof d); memset(&c, 0, sizeof c); memset(&m, 0, sizeof m); memset(&mi, 0, sizeof mi);
  sup.discovery = &d; sup.cpubind = &c; sup.membind = &m; sup.misc = &mi;
  hwloc_set_native_binding_hooks(&h, &sup);
  char ax[300]; hexfin(orig_aff, ax, sizeof ax);
  snprintf(out, cap, "hooks=%lx nrcpus=%u maxnodes=%u aff=%s", hooks_mask(&h), nrcpus, maxnodes, ax);
}

/* prime the process-wide caches of topology-linux.c (kernel cpumask / nodemask sizes) against the REAL kernel */
static void prime(void) {
  hwloc_topology_t t; hwloc_bitmap_t b = hwloc_bitmap_alloc(); hwloc_membind_policy_t pol;
  kset("fwd");
  hwloc_topology_init(&t); hwloc_topology_load(t);
  hwloc_get_cpubind(t, b, HWLOC_CPUBIND_THREAD);
  nrcpus = seen_ga_size * 8;
  hwloc_get_membind(t, b, &pol, HWLOC_MEMBIND_BYNODESET);
  maxnodes = seen_gm_maxnode;
  hwloc_topology_destroy(t); hwloc_bitmap_free(b);
  slog_reset();
}

static void topo_facts(char *out, size_t cap) {
  char a[2100], b[2100], c[600], d[600]; size_t p;
  hwloc_obj_t root = hwloc_get_root_obj(T);
  hwloc_bitmap_copy(ccs, hwloc_topology_get_complete_cpuset(T)); hwloc_bitmap_copy(tcs, hwloc_topology_get_topology_cpuset(T));
  hwloc_bitmap_copy(cns, hwloc_topology_get_complete_nodeset(T)); hwloc_bitmap_copy(tns, hwloc_topology_get_topology_nodeset(T));
  (void) root;
  hexfin(ccs, a, sizeof a); hexfin(tcs, b, sizeof b); hexfin(cns, c, sizeof c); hexfin(tns, d, sizeof d);
  p = snprintf(out, cap, "ccs=%s tcs=%s cns=%s tns=%s nodes=", a, b, c, d);
  int depth = hwloc_get_type_depth(T, HWLOC_OBJ_NUMANODE); hwloc_obj_t o = NULL; int first = 1;
  while ((o = hwloc_get_next_obj_by_depth(T, depth, o)) != NULL && p + 2200 < cap) {
    hexfin(o->cpuset, a, sizeof a);
    p += snprintf(out + p, cap - p, "%s%u:%s", first ? "" : ",", o->os_index, a); first = 0;
  }
  if (first) snprintf(out + p, cap - p, "-");
}

/* returns 0 on success */
static int preloaded;
static int load_topo(const char *kind, const char *arg, int flag_this, int tpid, const char *envthis) {
  char desc[512]; int err = 0;
  if (T) { hwloc_topology_destroy(T); T = NULL; }
  stubbed = 0;
  unsetenv("HWLOC_SYNTHETIC"); unsetenv("HWLOC_THISSYSTEM");
  if (strcmp(envthis, "-")) setenv("HWLOC_THISSYSTEM", envthis, 1);
  snprintf(desc, sizeof desc, "%s", arg);
  for (char *c = desc; *c; c++) if (*c == '+') *c = ' ';
  kset("fwd");
  if (hwloc_topology_init(&T) < 0) return -1;
  if (flag_this) hwloc_topology_set_flags(T, HWLOC_TOPOLOGY_FLAG_IS_THISSYSTEM);
  if (tpid) hwloc_topology_set_pid(T, getpid());
  if (!strcmp(kind, "synth")) err = hwloc_topology_set_synthetic(T, desc);
  else if (!strcmp(kind, "xml")) {
    char path[1024]; const char *dir = getenv("VERIF_XMLDIR");
    snprintf(path, sizeof path, "%s/%s", dir ? dir : "/repo/tests/hwloc/xml", arg);
    err = hwloc_topology_set_xml(T, path);
  } else if (!strcmp(kind, "envsynth")) setenv("HWLOC_SYNTHETIC", desc, 1);
  else if (strcmp(kind, "native")) err = -1;
  if (err >= 0) err = hwloc_topology_load(T);
  unsetenv("HWLOC_SYNTHETIC"); unsetenv("HWLOC_THISSYSTEM");
  slog_reset();
  if (err < 0) { hwloc_topology_destroy(T); T = NULL; return -1; }
  saved_hooks = T->binding_hooks;
  t_this = hwloc_topology_is_thissystem(T); t_pid = tpid;
  return 0;
}

/* ------------------------------------------------------------------ executing ops */

static const char *entries[] = { "set_cpubind", "get_cpubind", "set_proc_cpubind", "get_proc_cpubind", "set_thread_cpubind",
  "get_thread_cpubind", "get_last_cpu_location", "get_proc_last_cpu_location", "set_membind", "get_membind", "set_proc_membind",
  "get_proc_membind", "set_area_membind", "get_area_membind", "get_area_memlocation", "alloc", "alloc_membind", "free" };
#define NENTRIES 18
static char area[4 * 4096] __attribute__((aligned(4096)));

static void count_rc(int rc, int e) {
  if (rc >= 0) st[S_RC_OK]++; else if (e == EINVAL) st[S_EINVAL]++; else if (e == ENOSYS) st[S_ENOSYS]++; else st[S_OTHERERR]++;
}

static void do_call(const char *entry, const char *sets, unsigned flags, int policy, size_t len, const char *pids,
                    const char *hs, const char *ks_, const char *kms, int kpv, int ksv) {
  int e; for (e = 0; e < NENTRIES; e++) if (!strcmp(entries[e], entry)) break;
  if (e == NENTRIES || !T) { fprintf(fout, "bad-op\n"); return; }
  hwloc_bitmap_t set = parsearg(sets), out = hwloc_bitmap_alloc();
  /* a getter defines its output: the bitmap handed in is dirty in 3 of 4 calls (reused by the caller), chosen from the op text */
  { unsigned h = 2166136261u; const char *q; for (q = entry; *q; q++) h = (h ^ (unsigned char) *q) * 16777619u;
    for (q = sets; *q; q++) h = (h ^ (unsigned char) *q) * 16777619u;
    h = (h ^ flags) * 16777619u; h ^= h >> 13;
    if (h & 3) { hwloc_bitmap_set(out, (h >> 2) % 40); hwloc_bitmap_set(out, (h >> 8) % 200); if (h & 0x10000) hwloc_bitmap_set_range(out, 300, -1); st[S_DIRTY_OUT]++; } }
  hwloc_pid_t pid = !strcmp(pids, "self") ? getpid() : !strcmp(pids, "bad") ? BADPID : 0;
  hwloc_membind_policy_t opol = (hwloc_membind_policy_t) 77;
  int rc = 0, isget = 0, haspol = 0, isptr = 0, lastcpu = 0; void *p = NULL;
  hwloc_bitmap_free(km); km = parsehex(kms); kp = kpv; ks = ksv;
  hset(hs); kset(ks_); hlog_reset(); slog_reset();
  errno = 0;
  switch (e) {
  case 0: rc = hwloc_set_cpubind(T, set, (int) flags); break;
  case 1: rc = hwloc_get_cpubind(T, out, (int) flags); isget = 1; break;
  case 2: rc = hwloc_set_proc_cpubind(T, pid, set, (int) flags); break;
  case 3: rc = hwloc_get_proc_cpubind(T, pid, out, (int) flags); isget = 1; break;
  case 4: rc = hwloc_set_thread_cpubind(T, pthread_self(), set, (int) flags); break;
  case 5: rc = hwloc_get_thread_cpubind(T, pthread_self(), out, (int) flags); isget = 1; break;
  case 6: rc = hwloc_get_last_cpu_location(T, out, (int) flags); isget = 1; lastcpu = 1; break;
  case 7: rc = hwloc_get_proc_last_cpu_location(T, pid, out, (int) flags); isget = 1; lastcpu = 1; break;
  case 8: rc = hwloc_set_membind(T, set, (hwloc_membind_policy_t) policy, (int) flags); break;
  case 9: rc = hwloc_get_membind(T, out, &opol, (int) flags); isget = 1; haspol = 1; break;
  case 10: rc = hwloc_set_proc_membind(T, pid, set, (hwloc_membind_policy_t) policy, (int) flags); break;
  case 11: rc = hwloc_get_proc_membind(T, pid, out, &opol, (int) flags); isget = 1; haspol = 1; break;
  case 12: rc = hwloc_set_area_membind(T, area, len, set, (hwloc_membind_policy_t) policy, (int) flags); break;
  case 13: rc = hwloc_get_area_membind(T, area, len, out, &opol, (int) flags); isget = 1; haspol = 1; break;
  case 14: rc = hwloc_get_area_memlocation(T, area, len, out, (int) flags); isget = 1; break;
  case 15: p = hwloc_alloc(T, len); isptr = 1; break;
  case 16: p = hwloc_alloc_membind(T, len, set, (hwloc_membind_policy_t) policy, (int) flags); isptr = 1; break;
  case 17: {
    void *q; size_t hl = hlog_len, sl = slog_len; unsigned hn = hlog_n, sn = slog_n;
    if (stubbed) q = malloc(len ? len : 1);
    else { kset("fwd"); q = hwloc_alloc(T, len); kset(ks_); }
    hlog_len = hl; hlog_n = hn; slog_len = sl; slog_n = sn; hlog[hl] = 0; slog[sl] = 0; hset(hs);
    errno = 0;
    rc = hwloc_free(T, q, len); break; }
  }
  int err = errno;
  if (isptr) rc = p ? 0 : -1;
  char ox[2100] = "-", ps[32] = "-";
  if (isget && rc == 0) {
    if (lastcpu && !stubbed && t_this) snprintf(ox, sizeof ox, hwloc_bitmap_weight(out) == 1 ? "single" : "notsingle");
    else hexfin(out, ox, sizeof ox);
  }
  if (haspol && rc == 0) snprintf(ps, sizeof ps, "%d", (int) opol);
  fprintf(fout, "rc=%d e=%s set=%s pol=%s hl=[%s] sl=[%s]\n", rc, rc < 0 ? errname_of(err) : "-", ox, ps, hlog, slog);
  /* release the pointer without logging */
  if (p) {
    if (stubbed) free(p);
    else { kset("fwd"); hwloc_free(T, p, len); }
  }
  count_rc(rc, err);
  if (isptr && !p) st[S_NULLPTR]++;
  st[hlog_n == 0 ? S_HOOKLOG0 : hlog_n == 1 ? S_HOOKLOG1 : S_HOOKLOG2]++;
  st[slog_n == 0 ? S_SYSLOG0 : S_SYSLOGN]++;
  if (hlog_n >= 2 && (e == 0 || e == 1 || e == 6 || e == 8 || e == 9)) st[S_FALLTHROUGH]++;
  st[stubbed ? S_CALL_STUB : t_this ? S_CALL_NATIVE : S_CALL_DUMMY]++;
  hwloc_bitmap_free(set); hwloc_bitmap_free(out);
  hlog_reset(); slog_reset(); kset("fwd");
}

static void do_live(const char *subset, unsigned flags) {
  hwloc_bitmap_t s = parsehex(subset), got = hwloc_bitmap_alloc(), raw = hwloc_bitmap_alloc(), last = hwloc_bitmap_alloc();
  char gx[300], rx[300];
  kset("fwd"); slog_reset();
  hwloc_bitmap_not(got, s); st[S_DIRTY_OUT]++; /* reused output bitmap: everything the binding is not */
  int rc = hwloc_set_cpubind(T, s, (int) flags);
  int rc2 = hwloc_get_cpubind(T, got, (int) flags);
  raw_getaff(raw);
  int rc3 = hwloc_get_last_cpu_location(T, last, HWLOC_CPUBIND_THREAD);
  int lastin = rc3 == 0 && !hwloc_bitmap_iszero(last) && hwloc_bitmap_isincluded(last, got);
  /* the same question through the /proc/<tid>/stat readers (flags 0 and PROCESS, and the by-pid entry point): this process has one
   * thread here, so the answer must lie inside the binding as well - whatever the command name of the task looks like (the stat line
   * carries it between parentheses: names with ")" and blanks are legal; C10-r8) */
  { static const char *const names[] = { "verif-bind", "job (1) main", "a) b) c", ") ", "(", "x y", "))) 3 S 1" };
    static unsigned turn; char old[32] = "";
    prctl(PR_GET_NAME, old, 0, 0, 0);
    prctl(PR_SET_NAME, names[turn++ % 7], 0, 0, 0);
    static const int fl[] = { 0, HWLOC_CPUBIND_PROCESS };
    for (unsigned k = 0; k < 3 && lastin; k++) {
      hwloc_bitmap_fill(last);
      int r = k < 2 ? hwloc_get_last_cpu_location(T, last, fl[k]) : hwloc_get_proc_last_cpu_location(T, getpid(), last, 0);
      if (r != 0 || hwloc_bitmap_iszero(last) || !hwloc_bitmap_isincluded(last, got)) lastin = 0;
    }
    prctl(PR_SET_NAME, old, 0, 0, 0);
    st[S_LIVE_PROCSTAT]++;
  }
  hexfin(got, gx, sizeof gx); hexfin(raw, rx, sizeof rx);
  fprintf(fout, "rc=%d get=%s raw=%s lastin=%d\n", rc, rc2 == 0 ? gx : "fail", rx, lastin);
  slog_reset(); st[S_LIVE]++;
  hwloc_bitmap_free(s); hwloc_bitmap_free(got); hwloc_bitmap_free(raw); hwloc_bitmap_free(last);
}

/* a second thread with another binding lives while the topology is loaded: "the caller's binding" is the calling THREAD's, not the
 * process-wide union (x86 discovery saves / restores it; RESTRICT_TO_CPUBINDING reads the process-wide one) */
struct lc_helper { hwloc_bitmap_t set, after; int ready, done; };
static void *lc_helper_main(void *arg) {
  struct lc_helper *h = arg;
  raw_setaff(h->set);
  __atomic_store_n(&h->ready, 1, __ATOMIC_SEQ_CST);
  while (!__atomic_load_n(&h->done, __ATOMIC_SEQ_CST)) usleep(100);
  raw_getaff(h->after);
  return NULL;
}

static void do_loadcheck(unsigned long tflags, const char *comps) {
  hwloc_topology_t t; hwloc_bitmap_t after = hwloc_bitmap_alloc(); char ax[300];
  struct lc_helper h = { hwloc_bitmap_alloc(), hwloc_bitmap_alloc(), 0, 0 }; pthread_t th; int helper = 0;
  kset("fwd"); slog_reset();
  raw_getaff(after); hwloc_bitmap_andnot(h.set, orig_aff, after);
  if (hwloc_bitmap_iszero(h.set)) hwloc_bitmap_copy(h.set, orig_aff);
  if (!hwloc_bitmap_isequal(h.set, after) && pthread_create(&th, NULL, lc_helper_main, &h) == 0) {
    helper = 1; st[S_LOADCHECK_HELPER]++;
    while (!__atomic_load_n(&h.ready, __ATOMIC_SEQ_CST)) usleep(100);
  }
  if (strcmp(comps, "-")) setenv("HWLOC_COMPONENTS", comps, 1);
  hwloc_topology_init(&t);
  hwloc_topology_set_flags(t, tflags);   /* a refused flag word leaves the default flags */
  int rc = hwloc_topology_load(t);
  hwloc_topology_destroy(t);
  unsetenv("HWLOC_COMPONENTS");
  raw_getaff(after); hexfin(after, ax, sizeof ax);
  (void) rc;   /* whether this component set can discover anything is not the property; the binding is */
  int hchanged = 0;
  if (helper) { __atomic_store_n(&h.done, 1, __ATOMIC_SEQ_CST); pthread_join(th, NULL); hchanged = !hwloc_bitmap_isequal(h.set, h.after); }
  fprintf(fout, "after=%s%s\n", ax, hchanged ? " other-thread-binding-changed" : "");
  slog_reset(); st[S_LOADCHECK]++;
  hwloc_bitmap_free(after); hwloc_bitmap_free(h.set); hwloc_bitmap_free(h.after);
}

/* one op line -> one out line; `eff` receives the effective op line (facts re-measured) when non-NULL */
static void exec_line(char *line, int replay) {
  char spec[4096], facts[8192] = ""; char *bar = strstr(line, " | ");
  snprintf(spec, sizeof spec, "%s", line);
  if (bar) { spec[bar - line] = 0; snprintf(facts, sizeof facts, "%s", bar + 3); }
  char *tok[16]; int n = 0; char tmp[4096]; snprintf(tmp, sizeof tmp, "%s", spec);
  for (char *p = strtok(tmp, " "); p && n < 16; p = strtok(NULL, " ")) tok[n++] = p;
  st[S_OPS]++;
  if (n == 1 && !strcmp(tok[0], "native")) {
    char now[1024]; native_facts(now, sizeof now);
    if (replay && strcmp(now, facts)) fprintf(fout, "facts-changed %s\n", now); else fprintf(fout, "ok\n");
  } else if (n == 6 && !strcmp(tok[0], "topo")) {
    if (preloaded) preloaded = 0;
    else if (load_topo(tok[1], tok[2], atoi(tok[3]), atoi(tok[4]), tok[5]) < 0) { fprintf(fout, "load-failed\n"); return; }
    char now[8192]; topo_facts(now, sizeof now);
    if (replay && strcmp(now, facts)) { fprintf(fout, "facts-changed %s\n", now); return; }
    fprintf(fout, "this=%d hooks=%lx sup=%lx\n", t_this, hooks_mask(&T->binding_hooks), support_mask(T));
    st[S_TOPO]++; st[t_this ? S_TOPO_THIS : S_TOPO_DUMMY]++;
  } else if (n == 2 && !strcmp(tok[0], "stub") && T) {
    unsigned long m = strtoul(tok[1], NULL, 16);
    for (int i = 0; i < NHOOKS; i++) *hook_slot(&T->binding_hooks, i) = (m >> i) & 1 ? stub_fns[i] : NULL;
    stubbed = 1; st[S_STUB]++; fprintf(fout, "ok\n");
  } else if (n == 1 && !strcmp(tok[0], "unstub") && T) {
    T->binding_hooks = saved_hooks; stubbed = 0; fprintf(fout, "ok\n");
  } else if (n == 12 && !strcmp(tok[0], "call") && !strncmp(tok[7], "h=", 2) && !strncmp(tok[8], "k=", 2) &&
             !strncmp(tok[9], "km=", 3) && !strncmp(tok[10], "kp=", 3) && !strncmp(tok[11], "ks=", 3)) {
    do_call(tok[1], tok[2], (unsigned) strtoul(tok[3], NULL, 10), atoi(tok[4]), strtoul(tok[5], NULL, 10), tok[6],
            tok[7] + 2, tok[8] + 2, tok[9] + 3, atoi(tok[10] + 3), atoi(tok[11] + 3));
  } else if (n == 3 && !strcmp(tok[0], "live") && T) {
    do_live(tok[1], (unsigned) strtoul(tok[2], NULL, 10));
  } else if (n == 3 && !strcmp(tok[0], "loadcheck")) {
    do_loadcheck(strtoul(tok[1], NULL, 10), tok[2]);
  } else fprintf(fout, "bad-op\n");
}

/* ------------------------------------------------------------------ generator */

static void emit(const char *fmt, ...) {
  char line[16384]; va_list ap; va_start(ap, fmt); vsnprintf(line, sizeof line, fmt, ap); va_end(ap);
  fprintf(fops, "%s\n", line);
  exec_line(line, 0);
}

static const char *synth_descs[] = { "pu:1", "pu:4", "node:2+pu:4", "node:4+core:2+pu:2", "pack:2+node:2+pu:3", "node:3+pu:1",
  "pack:2+[numa]+core:4+pu:2", "node:2+pack:2+l2:2+pu:2", "pu:70", "node:2+pu:40", "pack:3+[numa]+[numa]+pu:5", "node:8+pu:2",
  "node:2+pu:64", "group:2+node:2+pu:8" };
static const char *xml_names[] = { "16amd64-8n2c-cpusets.xml", "16em64t-4s2c2t-offlines.xml", "8amd64-4n2c.xml", "32em64t-2n8c2t-pci-normalio.xml",
  "96em64t-4n4d3ca2co-pci.xml", "64fake-4n2s2ca2c2t.xml", "16-2gr2gr2n2c+misc.xml", "power8gpudistances.xml", "fakeheterodistances.xml",
  "fakeheterocpunuma.xml", "8em64t-2mi2ma2c.xml", "fakecpukindshole.xml" };

static void random_subset(hwloc_bitmap_t out, hwloc_const_bitmap_t of, unsigned pct) {
  int i; hwloc_bitmap_zero(out);
  hwloc_bitmap_foreach_begin(i, of) if (rng_chance(pct)) hwloc_bitmap_set(out, i); hwloc_bitmap_foreach_end();
}
static int nth_bit(hwloc_const_bitmap_t b, unsigned k) {
  int i, c = 0; hwloc_bitmap_foreach_begin(i, b) if ((unsigned) c++ == k) return i; hwloc_bitmap_foreach_end();
  return -1;
}

/* argument set relative to (complete, topology) */
static void gen_set(hwloc_bitmap_t s, hwloc_const_bitmap_t comp, hwloc_const_bitmap_t topo) {
  hwloc_bitmap_t dis = hwloc_bitmap_alloc(); hwloc_bitmap_andnot(dis, comp, topo);
  int w = hwloc_bitmap_weight(topo), last = hwloc_bitmap_last(comp);
  unsigned c = rng_below(100);
  hwloc_bitmap_zero(s);
  if (c < 26) { random_subset(s, topo, 10 + rng_below(80)); if (hwloc_bitmap_iszero(s) && w > 0) hwloc_bitmap_set(s, nth_bit(topo, rng_below(w))); }
  else if (c < 36) { if (w > 0) hwloc_bitmap_set(s, nth_bit(topo, rng_below(w))); }
  else if (c < 46) hwloc_bitmap_copy(s, topo);
  else if (c < 52) hwloc_bitmap_copy(s, comp);
  else if (c < 58) { hwloc_bitmap_t x = hwloc_bitmap_alloc(); random_subset(x, dis, 50); hwloc_bitmap_or(s, topo, x); hwloc_bitmap_free(x); }
  else if (c < 66) { hwloc_bitmap_t x = hwloc_bitmap_alloc(); random_subset(s, topo, 50); random_subset(x, dis, 60); hwloc_bitmap_or(s, s, x); hwloc_bitmap_free(x); }
  else if (c < 74) { /* empty */ }
  else if (c < 82) { random_subset(s, topo, rng_chance(50) ? 100 : 50); hwloc_bitmap_set(s, last + 1 + rng_below(rng_chance(50) ? 1 : 70)); }
  else if (c < 86) hwloc_bitmap_fill(s);
  else if (c < 90) { random_subset(s, topo, 50); hwloc_bitmap_set_range(s, last + 1 + rng_below(3), -1); }
  else if (c < 93) { hwloc_bitmap_copy(s, comp); hwloc_bitmap_set_range(s, last + 1, -1); }
  else if (c < 96) { random_subset(s, comp, 50); hwloc_bitmap_not(s, s); }
  else { for (unsigned i = 0, k = 1 + rng_below(5); i < k; i++) hwloc_bitmap_set(s, rng_below(last + 8)); }
  /* stats */
  if (hwloc_bitmap_iszero(s)) st[S_SET_EMPTY]++;
  else if (hwloc_bitmap_weight(s) < 0) st[S_SET_INF]++;
  else if (!hwloc_bitmap_isincluded(s, comp)) st[S_SET_OUT]++;
  else if (hwloc_bitmap_isincluded(topo, s)) st[S_SET_COVER]++;
  else { st[S_SET_VALID]++; if (hwloc_bitmap_intersects(s, dis)) st[S_SET_DISALLOWED]++; }
  hwloc_bitmap_free(dis);
}

static unsigned gen_flags(int mem) {
  unsigned all = mem ? 63 : 15, f = 0;
  unsigned c = rng_below(100);
  if (c < 25) f = 0;
  else if (c < 40) f = 1;
  else if (c < 55) f = 2;
  else f = (unsigned) rng_next() & all;
  if (mem && rng_chance(50)) f ^= HWLOC_MEMBIND_BYNODESET;
  if (rng_chance(12)) {
    static const unsigned bad[] = { 16, 64, 128, 256, 0x80000000u, 0x40000000u, 0xffffffffu, 0xfffffff0u, 1u << 20, 0x10000 };
    unsigned b = bad[rng_below(10)];
    if (mem && b == 16) b = 64;
    f |= b; st[S_FLAG_UNKNOWN]++;
  }
  return f;
}
static int gen_policy(void) {
  if (rng_chance(12)) { static const int bad[] = { -1, 6, 7, 100, -2, 2147483647, -2147483647 - 1, 8 }; st[S_POLICY_BAD]++; return bad[rng_below(8)]; }
  static const int ok[] = { 0, 1, 2, 2, 3, 5, 4 };
  return ok[rng_below(7)];
}
static size_t gen_len(void) {
  static const size_t l[] = { 0, 1, 100, 4096, 4097, 8192, 12288 };
  size_t v = l[rng_below(7)]; if (!v) st[S_LEN0]++; return v;
}

static void gen_hook_script(char *out, size_t cap, int e) {
  /* answers of up to 3 hook invocations */
  size_t p = 0; unsigned n = 1 + rng_below(3);
  for (unsigned i = 0; i < n; i++) {
    int rc; const char *er = "-"; char sx[600] = "0"; int pol = 0;
    unsigned c = rng_below(100);
    if (c < 45) rc = 0;
    else if (c < 50) rc = 1 + rng_below(3);
    else { rc = -1; static const char *es[] = { "ENOSYS", "ENOSYS", "ENOSYS", "EINVAL", "EPERM", "EXDEV", "ENOMEM", "fail" }; er = es[rng_below(8)]; }
    if (rc > 0) { static const char *es2[] = { "ENOSYS", "ENOSYS", "EINVAL", "EPERM", "fail" }; er = es2[rng_below(5)]; } /* every non-zero rc sets errno */
    hwloc_bitmap_t s = hwloc_bitmap_alloc();
    int mem = e >= 8;
    random_subset(s, mem ? cns : ccs, 50);
    if (rng_chance(20)) hwloc_bitmap_set(s, rng_below(200));
    hexfin(s, sx, sizeof sx); hwloc_bitmap_free(s);
    static const int pols[] = { 0, 1, 2, 3, 4, 5, -1, 9 };
    pol = pols[rng_below(8)];
    p += snprintf(out + p, cap - p, "%s%d:%s:%s:%d", i ? "," : "", rc, er, sx, pol);
  }
}
static void gen_kernel_script(char *out, size_t cap) {
  static const char *ks1[] = { "ok", "ok", "ok", "ENOSYS", "EINVAL", "EPERM", "fail" };
  unsigned n = 1 + (rng_chance(35) ? 1 + rng_below(2) : 0); size_t p = 0;
  for (unsigned i = 0; i < n; i++) p += snprintf(out + p, cap - p, "%s%s", i ? "," : "", ks1[rng_below(7)]);
}

static void gen_call(void) {
  int e = rng_below(NENTRIES);
  if (rng_chance(30)) { static const int fav[] = { 0, 0, 8, 8, 16, 12, 2, 10 }; e = fav[rng_below(8)]; }
  int mem = e >= 8;
  unsigned flags = gen_flags(mem);
  hwloc_bitmap_t s = hwloc_bitmap_alloc(); char sx[2200], hs[1024], ksb[128], kmx[2200];
  int nodeset = mem && (flags & HWLOC_MEMBIND_BYNODESET);
  gen_set(s, nodeset ? cns : ccs, nodeset ? tns : tcs);
  hexarg(s, sx, sizeof sx);
  gen_hook_script(hs, sizeof hs, e);
  gen_kernel_script(ksb, sizeof ksb);
  hwloc_bitmap_t k = hwloc_bitmap_alloc();
  if (mem) { random_subset(k, cns, 60); if (rng_chance(15)) hwloc_bitmap_zero(k); if (rng_chance(10)) hwloc_bitmap_set(k, rng_below(64)); }
  else { random_subset(k, ccs, 60); if (rng_chance(15)) hwloc_bitmap_set(k, rng_below(130)); }
  hexfin(k, kmx, sizeof kmx);
  static const int kps[] = { 0, 1, 2, 3, 4, 5, 6, 7, -1 };
  static const int kss[] = { 0, 0, 1, 3, -2, -14, 63 };
  static const char *pids[] = { "0", "self", "bad" };
  emit("call %s %s %u %d %zu %s h=%s k=%s km=%s kp=%d ks=%d", entries[e], sx, flags, gen_policy(), gen_len(),
       pids[rng_below(10) < 4 ? 0 : rng_below(10) < 7 ? 1 : 2], hs, ksb, kmx, kps[rng_below(9)], kss[rng_below(7)]);
  hwloc_bitmap_free(s); hwloc_bitmap_free(k);
}

static int gen_topo(void) {
  char facts[8192]; const char *kind, *arg = "-"; int flag_this = rng_chance(40), tpid = rng_chance(25);
  const char *envthis = rng_chance(12) ? (rng_chance(50) ? "0" : "1") : "-";
  unsigned c = rng_below(100);
  if (c < 25) kind = "native";
  else if (c < 60) { kind = "synth"; arg = synth_descs[rng_below(sizeof synth_descs / sizeof *synth_descs)]; }
  else if (c < 92) { kind = "xml"; arg = xml_names[rng_below(rng_chance(40) ? 2 : sizeof xml_names / sizeof *xml_names)]; }
  else { kind = "envsynth"; arg = synth_descs[rng_below(sizeof synth_descs / sizeof *synth_descs)]; }
  if (load_topo(kind, arg, flag_this, tpid, envthis) < 0) return -1;
  topo_facts(facts, sizeof facts);
  preloaded = 1;
  emit("topo %s %s %d %d %s | %s", kind, arg, flag_this, tpid, envthis, facts);
  return T ? 0 : -1;
}

static void gen_live(unsigned nlive) {
  if (load_topo("native", "-", 0, 0, "-") < 0) return;
  char facts[8192]; topo_facts(facts, sizeof facts);
  preloaded = 1;
  emit("topo native - 0 0 - | %s", facts);
  if (!T) return;
  /* subsets of (the first 10 CPUs of) the allowed binding */
  hwloc_bitmap_t base = hwloc_bitmap_alloc(), s = hwloc_bitmap_alloc(); char sx[300];
  hwloc_bitmap_and(base, orig_aff, tcs);
  int w = hwloc_bitmap_weight(base); unsigned k = w > 10 ? 10 : (unsigned) w;
  unsigned total = (1u << k) - 1;
  for (unsigned i = 0; i < nlive && total; i++) {
    unsigned m = nlive >= total ? (i % total) + 1 : 1 + rng_below(total);
    hwloc_bitmap_zero(s);
    for (unsigned b = 0; b < k; b++) if (m >> b & 1) hwloc_bitmap_set(s, nth_bit(base, b));
    if (rng_chance(10) && hwloc_bitmap_isequal(ccs, tcs)) hwloc_bitmap_copy(s, base);
    hexfin(s, sx, sizeof sx);
    static const unsigned fl[] = { HWLOC_CPUBIND_THREAD, HWLOC_CPUBIND_THREAD, 0, HWLOC_CPUBIND_PROCESS, HWLOC_CPUBIND_THREAD | HWLOC_CPUBIND_STRICT };
    emit("live %s %u", sx, fl[rng_below(5)]);
    if (rng_chance(nlive > 200 ? 6 : 35)) {
      static const unsigned long tf[] = { 0, HWLOC_TOPOLOGY_FLAG_IS_THISSYSTEM, HWLOC_TOPOLOGY_FLAG_INCLUDE_DISALLOWED,
        HWLOC_TOPOLOGY_FLAG_RESTRICT_TO_CPUBINDING | HWLOC_TOPOLOGY_FLAG_IS_THISSYSTEM, HWLOC_TOPOLOGY_FLAG_DONT_CHANGE_BINDING, HWLOC_TOPOLOGY_FLAG_THISSYSTEM_ALLOWED_RESOURCES | HWLOC_TOPOLOGY_FLAG_IS_THISSYSTEM,
        HWLOC_TOPOLOGY_FLAG_NO_CPUKINDS | HWLOC_TOPOLOGY_FLAG_NO_DISTANCES, HWLOC_TOPOLOGY_FLAG_RESTRICT_TO_MEMBINDING | HWLOC_TOPOLOGY_FLAG_IS_THISSYSTEM,
        HWLOC_TOPOLOGY_FLAG_RESTRICT_TO_CPUBINDING | HWLOC_TOPOLOGY_FLAG_INCLUDE_DISALLOWED | HWLOC_TOPOLOGY_FLAG_IS_THISSYSTEM };
      static const char *comps[] = { "-", "-", "x86,stop", "linux,stop", "x86,linux,stop", "-x86" };
      emit("loadcheck %lu %s", tf[rng_below(9)], comps[rng_below(6)]);
    }
  }
  hwloc_bitmap_free(base); hwloc_bitmap_free(s);
  raw_setaff(orig_aff);
}

int main(int argc, char **argv) {
  setvbuf(stderr, NULL, _IONBF, 0);
  ccs = hwloc_bitmap_alloc(); tcs = hwloc_bitmap_alloc(); cns = hwloc_bitmap_alloc(); tns = hwloc_bitmap_alloc();
  km = hwloc_bitmap_alloc(); orig_aff = hwloc_bitmap_alloc();
  kset("fwd"); hset("0:-:0:0");
  raw_getaff(orig_aff);
  prime();
  if (argc == 4 && !strcmp(argv[1], "--replay")) {
    FILE *in = fopen(argv[2], "r"); fout = fopen(argv[3], "w");
    if (!in || !fout) return 2;
    static char line[20000];
    while (fgets(line, sizeof line, in)) {
      line[strcspn(line, "\n")] = 0;
      if (!line[0] || line[0] == '#') continue;
      exec_line(line, 1); fflush(fout);
    }
    raw_setaff(orig_aff);
    if (T) hwloc_topology_destroy(T);
    return 0;
  }
  if (argc != 5) { fprintf(stderr, "usage: bind <nops> <ops> <out> <stats> | --replay <ops> <out>\n"); return 2; }
  unsigned nops = atoi(argv[1]);
  fops = fopen(argv[2], "w"); fout = fopen(argv[3], "w");
  if (!fops || !fout) return 2;
  rng_seed(rng_seed_from_env());
  const char *lv = getenv("VERIF_BIND_LIVE"); unsigned nlive = lv ? atoi(lv) : 0;
  char nf[1024]; native_facts(nf, sizeof nf);
  emit("native | %s", nf);
  if (nlive) gen_live(nlive);
  while (st[S_OPS] < nops) {
    if (gen_topo() < 0) continue;
    unsigned ncalls = 20 + rng_below(60);
    for (unsigned i = 0; i < ncalls && st[S_OPS] < nops; i++) {
      unsigned c = rng_below(100);
      if (c < 8) {
        unsigned long m = rng_next() & ((1UL << NHOOKS) - 1);
        if (rng_chance(30)) m &= rng_next();
        if (rng_chance(15)) m = 0;
        if (rng_chance(30)) m = (1UL << NHOOKS) - 1;
        emit("stub %lx", m);
      } else if (c < 12 && stubbed) emit("unstub");
      else gen_call();
    }
  }
  raw_setaff(orig_aff);
  if (T) hwloc_topology_destroy(T);
  fclose(fops); fclose(fout);
  FILE *fs = fopen(argv[4], "w");
  if (fs) { for (int i = 0; i < S_N; i++) fprintf(fs, "%s %lu\n", st_names[i], st[i]); fclose(fs); }
  hwloc_bitmap_free(ccs); hwloc_bitmap_free(tcs); hwloc_bitmap_free(cns); hwloc_bitmap_free(tns); hwloc_bitmap_free(km); hwloc_bitmap_free(orig_aff);
  return 0;
}
