/* h_diff.c — engine `diff` (C16): generator + executor for hwloc_topology_diff_build/apply/export/load.
 *
 * usage: diff <ncases> <ops-file> <model-in> <c-out> <oracle-file> <stats-file>     (generate + execute)
 *        diff --replay <ops-file> <model-in> <c-out> <oracle-file>                  (execute an op file)
 *
 * ops-file : C-level commands (replayable, shrinkable): synth/dup/name/iadd/iset/irepl/irem/mem/misc/
 *            restrict/allow/pair/hand/xdiff (xdiff <ref> <mseed> <entry>*: a hand-built list through the XML exporter,
 *            importer and the mutated-document stream; `pair` sends every built list the same way).
 * model-in : the lines for `hwmodel diff` (topology descriptions observed from the real structures,
 *            build/apply requests carrying the real diff entries; `xexp <backend> <ref> <entry>*` = export, answered with the
 *            attribute lists scanned from the exported text [+ the exact text for nolibxml]; `xload <backend> <tokens>` = load
 *            of a token-level document); c-out: the real answers, line-aligned.
 * oracle   : property checks done on the C side alone: "O <opno> <name> <pass|fail> <class>".
 *            class = "-" or the known-finding class F13c (duplicate info names) when the input is outside the hypotheses.
 */
#include "private/autogen/config.h"
#include "hwloc.h"
#include "hwloc/diff.h"
#include "hwloc/cpukinds.h"
#include "hwloc/memattrs.h"
#include "hwloc/distances.h"
#include "private/private.h"
#include "rng.h"
#include <stdio.h>
#include <string.h>
#include <stdlib.h>
#include <stdarg.h>
#include <inttypes.h>

#define NSLOT 8
#define SCR_P 6
#define SCR_Q 7
static hwloc_topology_t slot[NSLOT];
static int dirty[NSLOT];
static FILE *fops, *fmin, *fcout, *forc;
static unsigned long opno;
/* edits since the last dup (for the return-value expectation) */
static int last_dup_dst = -1, last_dup_src = -1, n_rep, n_nonrep, n_unsure, n_f13a;
static unsigned long st_cases, st_ret0, st_ret0_empty, st_ret1, st_f13a, st_entries_S, st_entries_N, st_entries_I,
    st_entries_T, st_hand, st_hand_fail, st_hand_ok, st_dupnames, st_xml, st_orc_fail_known, st_orc, st_misc, st_restrict, st_allow, st_kind, st_mattr, st_dist, st_xmltopo, st_hetero, st_xml_file, st_xml_big, st_distcell;
static char g_tmpxml[1200];   /* scratch file of the XML-through-a-file round trips */

/* ---------------------------------------------------------------- string buffer */
typedef struct { char *p; size_t len, cap; } sb_t;
static void sb_add(sb_t *b, const char *fmt, ...) {
  va_list ap; char tmp[512]; int n;
  va_start(ap, fmt); n = vsnprintf(tmp, sizeof(tmp), fmt, ap); va_end(ap);
  char *src = tmp, *big = NULL;
  if (n >= (int)sizeof(tmp)) { big = malloc(n + 1); va_start(ap, fmt); vsnprintf(big, n + 1, fmt, ap); va_end(ap); src = big; }
  if (b->len + n + 1 > b->cap) { b->cap = (b->len + n + 1) * 2 + 64; b->p = realloc(b->p, b->cap); }
  memcpy(b->p + b->len, src, n + 1); b->len += n;
  free(big);
}
static void sb_hex(sb_t *b, const char *s, size_t n) {  /* n bytes as 2n hex digits, without a vsnprintf per byte */
  static const char H[] = "0123456789abcdef";
  if (b->len + 2 * n + 1 > b->cap) { b->cap = (b->len + 2 * n + 1) * 2 + 64; b->p = realloc(b->p, b->cap); }
  for (size_t i = 0; i < n; i++) { b->p[b->len++] = H[((unsigned char)s[i]) >> 4]; b->p[b->len++] = H[((unsigned char)s[i]) & 15]; }
  b->p[b->len] = 0;
}
static void sb_enc(sb_t *b, const char *s) {          /* hex-encode, "-" = NULL */
  if (!s) { sb_add(b, "-"); return; }
  sb_add(b, "s");
  sb_hex(b, s, strlen(s));
}
static char *dec(const char *t) {                      /* inverse of sb_enc; NULL for "-" */
  if (!strcmp(t, "-") || t[0] != 's') return NULL;
  size_t n = (strlen(t) - 1) / 2; char *r = malloc(n + 1);
  for (size_t i = 0; i < n; i++) { unsigned v; sscanf(t + 1 + 2 * i, "%2x", &v); r[i] = (char)v; }
  r[n] = 0; return r;
}

/* ---------------------------------------------------------------- observation of a real topology */
static hwloc_obj_t *dfs; static unsigned ndfs, capdfs;
static void dfs_walk(hwloc_obj_t o) {
  if (ndfs == capdfs) { capdfs = capdfs * 2 + 64; dfs = realloc(dfs, capdfs * sizeof(*dfs)); }
  dfs[ndfs++] = o;
  hwloc_obj_t c;
  for (c = o->first_child; c; c = c->next_sibling) dfs_walk(c);
  for (c = o->memory_first_child; c; c = c->next_sibling) dfs_walk(c);
  for (c = o->io_first_child; c; c = c->next_sibling) dfs_walk(c);
  for (c = o->misc_first_child; c; c = c->next_sibling) dfs_walk(c);
}
static void dfs_collect(hwloc_topology_t t) { ndfs = 0; dfs_walk(hwloc_get_root_obj(t)); }

static void sb_set(sb_t *b, hwloc_const_bitmap_t s) {
  if (!s) { sb_add(b, "N"); return; }
  char *str; hwloc_bitmap_list_asprintf(&str, s); sb_add(b, "%s", *str ? str : "E"); free(str);
}
static unsigned nkids(hwloc_obj_t c) { unsigned n = 0; for (; c; c = c->next_sibling) n++; return n; }
static uint64_t lmem_of(hwloc_obj_t o) { return o->type == HWLOC_OBJ_NUMANODE ? o->attr->numanode.local_memory : 0; }

static void sb_infos_desc(sb_t *b, struct hwloc_infos_s *infos) {
  sb_add(b, " %u", infos->count);
  for (unsigned i = 0; i < infos->count; i++) { sb_add(b, " "); sb_enc(b, infos->array[i].name); sb_add(b, " "); sb_enc(b, infos->array[i].value); }
}
static void desc_obj(sb_t *b, hwloc_obj_t o) {
  sb_add(b, " %d %u %d ", o->depth, o->logical_index, o->type == HWLOC_OBJ_NUMANODE);
  /* shape1: type, subtype, os_index, the four sets */
  sb_add(b, "t%d.", (int)o->type); sb_enc(b, o->subtype); sb_add(b, ".%u.", o->os_index);
  sb_set(b, o->cpuset); sb_add(b, "."); sb_set(b, o->complete_cpuset); sb_add(b, "."); sb_set(b, o->nodeset); sb_add(b, "."); sb_set(b, o->complete_nodeset);
  /* shape2: the memcmp'ed attribute bytes */
  size_t an = 0;
  switch (o->type) {
  case HWLOC_OBJ_L1CACHE: case HWLOC_OBJ_L2CACHE: case HWLOC_OBJ_L3CACHE: case HWLOC_OBJ_L4CACHE: case HWLOC_OBJ_L5CACHE:
  case HWLOC_OBJ_L1ICACHE: case HWLOC_OBJ_L2ICACHE: case HWLOC_OBJ_L3ICACHE: an = sizeof(o->attr->cache); break;
  case HWLOC_OBJ_GROUP: an = sizeof(o->attr->group); break;
  case HWLOC_OBJ_PCI_DEVICE: an = sizeof(o->attr->pcidev); break;
  case HWLOC_OBJ_BRIDGE: an = sizeof(o->attr->bridge); break;
  case HWLOC_OBJ_OS_DEVICE: an = sizeof(o->attr->osdev); break;
  default: break;
  }
  sb_add(b, " a");
  for (size_t i = 0; i < an; i++) sb_add(b, "%02x", ((unsigned char *)o->attr)[i]);
  sb_add(b, " "); sb_enc(b, o->name);
  sb_infos_desc(b, &o->infos);
  sb_add(b, " %" PRIu64 " %" PRIu64, lmem_of(o), (uint64_t)o->total_memory);
  sb_add(b, " %u %u %u %u", nkids(o->first_child), nkids(o->memory_first_child), nkids(o->io_first_child), nkids(o->misc_first_child));
  hwloc_obj_t c;
  for (c = o->first_child; c; c = c->next_sibling) desc_obj(b, c);
  for (c = o->memory_first_child; c; c = c->next_sibling) desc_obj(b, c);
  for (c = o->io_first_child; c; c = c->next_sibling) desc_obj(b, c);
  for (c = o->misc_first_child; c; c = c->next_sibling) desc_obj(b, c);
}

/* the fields the distances / memattrs / cpukinds loops of diff_build compare, as opaque tokens */
static void desc_dists(sb_t *b, hwloc_topology_t t) {
  struct hwloc_internal_distances_s *d; unsigned n = 0;
  hwloc_internal_distances_refresh(t);
  for (d = t->first_dist; d; d = d->next) n++;
  sb_add(b, " %u", n);
  for (d = t->first_dist; d; d = d->next) {
    sb_add(b, " d%d.%u.%lu", (int)d->unique_type, d->nbobjs, d->kind);
    for (unsigned i = 0; i < d->nbobjs * d->nbobjs; i++) sb_add(b, ".%" PRIu64, (uint64_t)d->values[i]);
    for (unsigned i = 0; i < d->nbobjs; i++) sb_add(b, ".o%u", d->objs[i]->logical_index);
    if (d->different_types) for (unsigned i = 0; i < d->nbobjs; i++) sb_add(b, ".t%d", (int)d->different_types[i]);
    sb_add(b, " %d", d->different_types ? 1 : 0);
  }
}
static void desc_mattrs(sb_t *b, hwloc_topology_t t) {
  hwloc_internal_memattrs_refresh(t);
  sb_add(b, " m%u", t->nr_memattrs);
  for (unsigned i = 0; i < t->nr_memattrs; i++) {
    struct hwloc_internal_memattr_s *m = &t->memattrs[i];
    sb_add(b, "/"); sb_enc(b, m->name); sb_add(b, ".%lu.%u", m->flags, m->nr_targets);
    if (i == HWLOC_MEMATTR_ID_CAPACITY || i == HWLOC_MEMATTR_ID_LOCALITY) continue;
    for (unsigned j = 0; j < m->nr_targets; j++) {
      struct hwloc_internal_memattr_target_s *g = &m->targets[j];
      sb_add(b, ",%d.%u", (int)g->type, g->obj->logical_index);
      if (m->flags & HWLOC_MEMATTR_FLAG_NEED_INITIATOR) {
        sb_add(b, ".i%u", g->nr_initiators);
        for (unsigned k = 0; k < g->nr_initiators; k++) {
          struct hwloc_internal_memattr_initiator_s *ii = &g->initiators[k];
          sb_add(b, ".%" PRIu64 ".%d", (uint64_t)ii->value, (int)ii->initiator.type);
          if (ii->initiator.type == HWLOC_LOCATION_TYPE_CPUSET) { sb_add(b, "."); sb_set(b, ii->initiator.location.cpuset); }
          else sb_add(b, ".%d.%u", (int)ii->initiator.location.object.type, ii->initiator.location.object.obj->logical_index);
        }
      } else sb_add(b, ".v%" PRIu64, (uint64_t)g->noinitiator_value);
    }
  }
}
static void desc_kinds(sb_t *b, hwloc_topology_t t) {
  sb_add(b, " k%u", t->nr_cpukinds);
  for (unsigned i = 0; i < t->nr_cpukinds; i++) {
    struct hwloc_internal_cpukind_s *k = &t->cpukinds[i];
    sb_add(b, "/"); sb_set(b, k->cpuset); sb_add(b, ".%d.%d.%" PRIu64 ".%u", k->efficiency, k->forced_efficiency, (uint64_t)k->ranking_value, k->infos.count);
    for (unsigned j = 0; j < k->infos.count; j++) { sb_add(b, "."); sb_enc(b, k->infos.array[j].name); sb_add(b, "="); sb_enc(b, k->infos.array[j].value); }
  }
}

static void out2(const char *min_line, const char *c_line) { fprintf(fmin, "%s\n", min_line); fprintf(fcout, "%s\n", c_line); }

static void emit_topo(int s) {
  hwloc_topology_t t = slot[s];
  sb_t b = {0};
  sb_add(&b, "topo %d %u a", s, t->nb_levels);
  sb_set(&b, t->allowed_cpuset); sb_add(&b, "/"); sb_set(&b, t->allowed_nodeset);
  desc_mattrs(&b, t); desc_kinds(&b, t); desc_dists(&b, t);
  sb_infos_desc(&b, &t->infos);
  desc_obj(&b, hwloc_get_root_obj(t));
  dfs_collect(t);
  char ans[32]; snprintf(ans, sizeof ans, "ok %u", ndfs);
  out2(b.p, ans); free(b.p);
  dirty[s] = 0;
}
static void need(int s) { if (dirty[s]) emit_topo(s); }

static void sb_infos_obs(sb_t *b, struct hwloc_infos_s *infos) {
  sb_add(b, "%u", infos->count);
  for (unsigned i = 0; i < infos->count; i++) { sb_add(b, ":"); sb_enc(b, infos->array[i].name); sb_add(b, "="); sb_enc(b, infos->array[i].value); }
}
static char *obs(hwloc_topology_t t) {
  sb_t b = {0};
  dfs_collect(t);
  for (unsigned i = 0; i < ndfs; i++) {
    hwloc_obj_t o = dfs[i];
    sb_add(&b, "%d:%u:", o->depth, o->logical_index); sb_enc(&b, o->name);
    sb_add(&b, ":%" PRIu64 ":%" PRIu64 ":", lmem_of(o), (uint64_t)o->total_memory);
    sb_infos_obs(&b, &o->infos); sb_add(&b, " ");
  }
  sb_add(&b, "T:"); sb_infos_obs(&b, &t->infos);
  return b.p;
}

/* ---------------------------------------------------------------- diff lists <-> text */
static void sb_entries(sb_t *b, hwloc_topology_diff_t d, unsigned *n, int *nullside, int *tc) {
  for (; d; d = d->generic.next) {
    if (n) (*n)++;
    sb_add(b, " ");
    if (d->generic.type == HWLOC_TOPOLOGY_DIFF_TOO_COMPLEX) { sb_add(b, "TC:%d:%u", d->too_complex.obj_depth, d->too_complex.obj_index); if (tc) *tc = 1; st_entries_T++; }
    else if (d->generic.type == HWLOC_TOPOLOGY_DIFF_OBJ_ATTR) {
      struct hwloc_topology_diff_obj_attr_s *a = &d->obj_attr;
      switch (a->diff.generic.type) {
      case HWLOC_TOPOLOGY_DIFF_OBJ_ATTR_SIZE:
        sb_add(b, "S:%d:%u:%" PRIu64 ":%" PRIu64, a->obj_depth, a->obj_index, (uint64_t)a->diff.uint64.oldvalue, (uint64_t)a->diff.uint64.newvalue); st_entries_S++; break;
      case HWLOC_TOPOLOGY_DIFF_OBJ_ATTR_NAME:
        sb_add(b, "N:%d:%u:", a->obj_depth, a->obj_index); sb_enc(b, a->diff.string.oldvalue); sb_add(b, ":"); sb_enc(b, a->diff.string.newvalue);
        if (nullside && (!a->diff.string.oldvalue || !a->diff.string.newvalue)) *nullside = 1;
        st_entries_N++; break;
      case HWLOC_TOPOLOGY_DIFF_OBJ_ATTR_INFO:
        sb_add(b, "I:%d:%u:", a->obj_depth, a->obj_index); sb_enc(b, a->diff.string.name); sb_add(b, ":"); sb_enc(b, a->diff.string.oldvalue); sb_add(b, ":"); sb_enc(b, a->diff.string.newvalue);
        if (nullside && (!a->diff.string.name || !a->diff.string.oldvalue || !a->diff.string.newvalue)) *nullside = 1;
        st_entries_I++; break;
      default: sb_add(b, "A:%d:%u", a->obj_depth, a->obj_index); break;
      }
    } else sb_add(b, "U");
  }
}
static char *entries_str(hwloc_topology_diff_t d, unsigned *n, int *nullside, int *tc) {
  sb_t b = {0}; sb_add(&b, ""); sb_entries(&b, d, n, nullside, tc); return b.p;
}
/* parse one entry token; returns NULL when malformed or when it would need a NULL string */
static hwloc_topology_diff_t parse_entry(const char *tok) {
  char *cp = strdup(tok), *f[8]; int nf = 0;
  for (char *p = cp; nf < 8; ) { f[nf++] = p; p = strchr(p, ':'); if (!p) break; *p++ = 0; }
  hwloc_topology_diff_t d = calloc(1, sizeof(*d));
  int ok = 1;
  if (!strcmp(f[0], "U") && nf == 1) d->generic.type = (hwloc_topology_diff_type_t)7;
  else if (!strcmp(f[0], "TC") && nf == 3) { d->too_complex.type = HWLOC_TOPOLOGY_DIFF_TOO_COMPLEX; d->too_complex.obj_depth = atoi(f[1]); d->too_complex.obj_index = strtoul(f[2], NULL, 10); }
  else if (nf >= 3) {
    d->obj_attr.type = HWLOC_TOPOLOGY_DIFF_OBJ_ATTR; d->obj_attr.obj_depth = atoi(f[1]); d->obj_attr.obj_index = strtoul(f[2], NULL, 10);
    if (!strcmp(f[0], "A") && nf == 3) d->obj_attr.diff.generic.type = (hwloc_topology_diff_obj_attr_type_t)9;
    else if (!strcmp(f[0], "S") && nf == 5) { d->obj_attr.diff.uint64.type = HWLOC_TOPOLOGY_DIFF_OBJ_ATTR_SIZE; d->obj_attr.diff.uint64.oldvalue = strtoull(f[3], NULL, 10); d->obj_attr.diff.uint64.newvalue = strtoull(f[4], NULL, 10); }
    else if (!strcmp(f[0], "N") && nf == 5) { d->obj_attr.diff.string.type = HWLOC_TOPOLOGY_DIFF_OBJ_ATTR_NAME; d->obj_attr.diff.string.oldvalue = dec(f[3]); d->obj_attr.diff.string.newvalue = dec(f[4]);
      if (!d->obj_attr.diff.string.oldvalue || !d->obj_attr.diff.string.newvalue) ok = 0; }
    else if (!strcmp(f[0], "I") && nf == 6) { d->obj_attr.diff.string.type = HWLOC_TOPOLOGY_DIFF_OBJ_ATTR_INFO; d->obj_attr.diff.string.name = dec(f[3]); d->obj_attr.diff.string.oldvalue = dec(f[4]); d->obj_attr.diff.string.newvalue = dec(f[5]);
      if (!d->obj_attr.diff.string.name || !d->obj_attr.diff.string.oldvalue || !d->obj_attr.diff.string.newvalue) ok = 0; }
    else ok = 0;
  } else ok = 0;
  free(cp);
  if (!ok) { hwloc_topology_diff_destroy(d); return NULL; }
  return d;
}
static int diffs_equal(hwloc_topology_diff_t a, hwloc_topology_diff_t b) {
  char *sa = entries_str(a, NULL, NULL, NULL), *sb = entries_str(b, NULL, NULL, NULL);
  int r = !strcmp(sa, sb); free(sa); free(sb); return r;
}

/* ---------------------------------------------------------------- oracle bookkeeping */
static int has_dup_info_names(hwloc_topology_t t) {
  dfs_collect(t);
  for (unsigned o = 0; o <= ndfs; o++) {
    struct hwloc_infos_s *in = o < ndfs ? &dfs[o]->infos : &t->infos;
    for (unsigned i = 0; i < in->count; i++) for (unsigned j = i + 1; j < in->count; j++)
      if (!strcmp(in->array[i].name, in->array[j].name)) return 1;
  }
  return 0;
}
static void oracle(const char *name, int pass, const char *cls) {
  fprintf(forc, "O %lu %s %s %s\n", opno, name, pass ? "pass" : "fail", cls);
  st_orc++;
  if (!pass && strcmp(cls, "-")) st_orc_fail_known++;
}


/* ---------------------------------------------------------------- diff XML at the token level (tie of Hw.Io.XmlDiff)
 * Every diff list that reaches xml_tie() is exported by the real code; a small scanner reads the attribute lists of the
 * elements back from the text (entities decoded) and prints them (`xexp` line: the model must predict them, and the exact
 * bytes when the nolibxml exporter wrote them); the text is loaded by the real importer (`xload` line: return value, refname
 * and entries, predicted by the importer model from the scanned tokens); then MUTATED token-level documents (missing
 * mandatory attribute, other type numbers, repeated attributes, bad numbers, unknown attribute / element names, reordered
 * attributes and elements, empty values) are rendered by the harness, loaded by the real importer and predicted again. */
#include <ctype.h>
static int g_be_exp = 1, g_be_imp = 1;     /* 1 = libxml2 (hwloc's default when built with it), 0 = nolibxml */
static unsigned long st_xexp, st_xexp_einval, st_xload, st_xload_mut, st_xload_rej, st_xload_dropped, st_xdiff;
typedef struct { char *n, *v; } xattr_t;
typedef struct { char *tag; xattr_t *a; unsigned na; } xel_t;
typedef struct { xel_t *e; unsigned n; } xdoc_t;      /* e[0] = the root element */

static uint64_t mrng_s;
static uint64_t mrng_next(void) { mrng_s ^= mrng_s << 13; mrng_s ^= mrng_s >> 7; mrng_s ^= mrng_s << 17; return mrng_s * 0x2545F4914F6CDD1DULL; }
static unsigned mrng_below(unsigned n) { return n ? (unsigned)((mrng_next() >> 11) % n) : 0; }

static void xel_ins(xel_t *e, unsigned pos, const char *n, const char *v) {
  e->a = realloc(e->a, (e->na + 1) * sizeof *e->a);
  if (pos > e->na) pos = e->na;
  memmove(e->a + pos + 1, e->a + pos, (e->na - pos) * sizeof *e->a);
  e->a[pos].n = strdup(n); e->a[pos].v = strdup(v); e->na++;
}
static void xel_del(xel_t *e, unsigned pos) {
  free(e->a[pos].n); free(e->a[pos].v);
  memmove(e->a + pos, e->a + pos + 1, (e->na - pos - 1) * sizeof *e->a); e->na--;
}
static void xel_free(xel_t *e) { for (unsigned i = 0; i < e->na; i++) { free(e->a[i].n); free(e->a[i].v); } free(e->a); free(e->tag); }
static void xdoc_free(xdoc_t *d) { for (unsigned i = 0; i < d->n; i++) xel_free(&d->e[i]); free(d->e); d->e = NULL; d->n = 0; }
static xel_t xel_copy(const xel_t *s) {
  xel_t e = { strdup(s->tag), NULL, 0 };
  for (unsigned i = 0; i < s->na; i++) xel_ins(&e, e.na, s->a[i].n, s->a[i].v);
  return e;
}
static void xdoc_ins(xdoc_t *d, unsigned pos, xel_t e) {
  d->e = realloc(d->e, (d->n + 1) * sizeof *d->e);
  if (pos > d->n) pos = d->n;
  memmove(d->e + pos + 1, d->e + pos, (d->n - pos) * sizeof *d->e);
  d->e[pos] = e; d->n++;
}
static xdoc_t xdoc_copy(const xdoc_t *s) { xdoc_t d = { NULL, 0 }; for (unsigned i = 0; i < s->n; i++) xdoc_ins(&d, d.n, xel_copy(&s->e[i])); return d; }

/* the scanner: elements and their attributes, in text order; 0 on success */
static int xscan(const char *txt, xdoc_t *doc) {
  const char *p = txt;
  doc->e = NULL; doc->n = 0;
  while ((p = strchr(p, '<'))) {
    p++;
    if (*p == '?' || *p == '!' || *p == '/') { p = strchr(p, '>'); if (!p) return -1; continue; }
    const char *s = p;
    while (*p && !isspace((unsigned char)*p) && *p != '/' && *p != '>') p++;
    xel_t e = { strndup(s, (size_t)(p - s)), NULL, 0 };
    for (;;) {
      while (isspace((unsigned char)*p)) p++;
      if (*p == '/' || *p == '>' || !*p) break;
      s = p; while (*p && *p != '=') p++;
      if (*p != '=') { xel_free(&e); return -1; }
      char *name = strndup(s, (size_t)(p - s)); p++;
      char q = *p;
      if (q != '"' && q != '\'') { free(name); xel_free(&e); return -1; }
      p++;
      char *val = malloc(strlen(p) + 1); size_t k = 0;
      while (*p && *p != q) {
        if (*p == '&') {
          if (!strncmp(p, "&lt;", 4)) { val[k++] = '<'; p += 4; }
          else if (!strncmp(p, "&gt;", 4)) { val[k++] = '>'; p += 4; }
          else if (!strncmp(p, "&amp;", 5)) { val[k++] = '&'; p += 5; }
          else if (!strncmp(p, "&quot;", 6)) { val[k++] = '"'; p += 6; }
          else if (!strncmp(p, "&apos;", 6)) { val[k++] = '\''; p += 6; }
          else if (p[1] == '#') {
            char *end; long v = (p[2] == 'x' || p[2] == 'X') ? strtol(p + 3, &end, 16) : strtol(p + 2, &end, 10);
            if (*end != ';' || v <= 0 || v > 127) { free(val); free(name); xel_free(&e); return -1; }
            val[k++] = (char)v; p = end + 1;
          } else { free(val); free(name); xel_free(&e); return -1; }
        } else val[k++] = *p++;
      }
      val[k] = 0;
      if (*p != q) { free(val); free(name); xel_free(&e); return -1; }
      p++;
      xel_ins(&e, e.na, name, val); free(name); free(val);
    }
    xdoc_ins(doc, doc->n, e);
  }
  return doc->n ? 0 : -1;
}
static void sb_xattrs(sb_t *b, const xel_t *e) {
  sb_add(b, " %u", e->na);
  for (unsigned i = 0; i < e->na; i++) { sb_add(b, " "); sb_enc(b, e->a[i].n); sb_add(b, " "); sb_enc(b, e->a[i].v); }
}
static void sb_xdoc(sb_t *b, const xdoc_t *d) {
  sb_add(b, "R"); sb_xattrs(b, &d->e[0]); sb_add(b, " E %u", d->n - 1);
  for (unsigned i = 1; i < d->n; i++) { sb_add(b, " "); sb_enc(b, d->e[i].tag); sb_xattrs(b, &d->e[i]); }
}
/* the harness's own writer for (mutated) token-level documents */
static void sb_xml_escaped(sb_t *b, const char *v) {
  for (; *v; v++) switch (*v) {
    case '<': sb_add(b, "&lt;"); break; case '>': sb_add(b, "&gt;"); break; case '&': sb_add(b, "&amp;"); break;
    case '"': sb_add(b, "&quot;"); break; case '\n': sb_add(b, "&#10;"); break; case '\r': sb_add(b, "&#13;"); break;
    case '\t': sb_add(b, "&#9;"); break;
    default: if (b->len + 2 > b->cap) { b->cap = (b->len + 2) * 2 + 64; b->p = realloc(b->p, b->cap); } b->p[b->len++] = *v; b->p[b->len] = 0; break;
  }
}
static void xrender(sb_t *b, const xdoc_t *d) {
  sb_add(b, "<?xml version=\"1.0\" encoding=\"UTF-8\"?>\n<!DOCTYPE topologydiff SYSTEM \"hwloc2-diff.dtd\">\n");
  for (unsigned i = 0; i < d->n; i++) {
    const xel_t *e = &d->e[i];
    sb_add(b, "%s<%s", i ? "  " : "", e->tag);
    for (unsigned j = 0; j < e->na; j++) { sb_add(b, " %s=\"", e->a[j].n); sb_xml_escaped(b, e->a[j].v); sb_add(b, "\""); }
    sb_add(b, (i == 0 && d->n > 1) ? ">\n" : "/>\n");
  }
  if (d->n > 1) sb_add(b, "</%s>\n", d->e[0].tag);
}
/* load `txt` with the real importer; the model is asked about the token-level document `doc` */
static void xload_emit(const char *txt, size_t len, const xdoc_t *doc, int mutated) {
  sb_t l = {0}, c = {0};
  sb_add(&l, "xload %d ", g_be_imp); sb_xdoc(&l, doc);
  hwloc_topology_diff_t d3 = NULL; char *ref2 = NULL;
  int lr = hwloc_topology_diff_load_xmlbuffer(txt, (int)len + 1, &d3, &ref2);
  unsigned n = 0; char *es = entries_str(d3, &n, NULL, NULL);
  sb_add(&c, "ret=%d ref=", lr); sb_enc(&c, ref2); sb_add(&c, " n=%u%s", n, es);
  out2(l.p, c.p); free(l.p); free(c.p); free(es);
  st_xload++; if (mutated) st_xload_mut++; if (lr < 0) st_xload_rej++; else if (n + 1 < doc->n) st_xload_dropped++;
  hwloc_topology_diff_destroy(d3); free(ref2);
}
static const char *BADNUM[] = { "", "-1", "0", "1", "2", "3", "7", "00", "+0", " 0", "0x", "0x1f", "0X10", "017", "08", "abc", "12abc", "1e3",
  "4294967295", "4294967296", "4294967297", "4294967298", "2147483647", "2147483648", "-2147483648", "-2147483649", "9223372036854775807",
  "9223372036854775808", "-9223372036854775809", "18446744073709551615", "18446744073709551616", "99999999999999999999999",
  "-18446744073709551615", "-18446744073709551616", " \t42", "-0", "- 5", "+-5", "+7", "\n2", "2 ", "0x", "0xg", "-0x10", "+017" };
#define NBADNUM (sizeof BADNUM / sizeof *BADNUM)
static const char *XNAMES[] = { "type", "obj_depth", "obj_index", "obj_attr_type", "obj_attr_index", "obj_attr_name", "obj_attr_oldvalue", "obj_attr_newvalue" };
static int xattr_find(const xel_t *e, const char *n) { for (unsigned i = 0; i < e->na; i++) if (!strcmp(e->a[i].n, n)) return (int)i; return -1; }
static void xset(xel_t *e, const char *n, const char *v) { int i = xattr_find(e, n); if (i < 0) xel_ins(e, mrng_below(e->na + 1), n, v); else { free(e->a[i].v); e->a[i].v = strdup(v); } }
static void xmutate(xdoc_t *d) {
  unsigned k = d->n > 1 ? 1 + mrng_below(d->n - 1) : 0;          /* a <diff> element when there is one */
  xel_t *e = &d->e[k];
  switch (mrng_below(14)) {
  case 0: if (e->na) xel_del(e, mrng_below(e->na)); break;                                   /* missing attribute */
  case 1: if (e->na) { unsigned i = mrng_below(e->na);                                       /* repeated attribute */
            xel_ins(e, mrng_below(e->na + 1), e->a[i].n, mrng_below(2) ? e->a[i].v : BADNUM[mrng_below(NBADNUM)]); } break;
  case 2: xset(e, "type", BADNUM[mrng_below(NBADNUM)]); break;
  case 3: xset(e, "obj_attr_type", BADNUM[mrng_below(NBADNUM)]); break;
  case 4: case 5: xset(e, XNAMES[(unsigned[]){1, 2, 6, 7}[mrng_below(4)]], BADNUM[mrng_below(NBADNUM)]); break;
  case 6: { static const char *nm[] = { "foo", "obj_attr_index", "refname", "obj_attr_name", "typ", "types", "obj_attr_old_value", "x_y" };
            xel_ins(e, mrng_below(e->na + 1), nm[mrng_below(8)], mrng_below(2) ? "v" : "0"); } break;
  case 7: if (k) { static const char *tg[] = { "diffx", "object", "dif", "topologydiff" }; free(e->tag); e->tag = strdup(tg[mrng_below(4)]); } break;
  case 8: if (e->na > 1) { unsigned i = mrng_below(e->na), j = mrng_below(e->na); xattr_t t = e->a[i]; e->a[i] = e->a[j]; e->a[j] = t; } break;
  case 9: if (e->na) { unsigned i = mrng_below(e->na); free(e->a[i].v); e->a[i].v = strdup(""); } break;     /* empty value */
  case 10: if (k) xdoc_ins(d, 1 + mrng_below(d->n), xel_copy(e)); break;                     /* repeated element */
  case 11: if (d->n > 2) { unsigned i = 1 + mrng_below(d->n - 1), j = 1 + mrng_below(d->n - 1); xel_t t = d->e[i]; d->e[i] = d->e[j]; d->e[j] = t; } break;
  case 12: if (k && d->n > 2) { xel_free(e); memmove(d->e + k, d->e + k + 1, (d->n - k - 1) * sizeof *d->e); d->n--; } break;
  default: { static const char *nm[] = { "refname", "refname", "version", "type" };          /* root attributes */
             xel_ins(&d->e[0], mrng_below(d->e[0].na + 1), nm[mrng_below(4)], mrng_below(3) ? "other ref" : ""); } break;
  }
}
static void xml_tie(hwloc_topology_diff_t d, const char *ref, uint64_t mseed) {
  char *buf = NULL; int len = 0;
  char *es = entries_str(d, NULL, NULL, NULL);
  sb_t l = {0}, c = {0};
  sb_add(&l, "xexp %d ", g_be_exp); sb_enc(&l, ref); sb_add(&l, "%s", es); free(es);
  int xr = hwloc_topology_diff_export_xmlbuffer(d, ref, &buf, &len);
  st_xexp++;
  xdoc_t doc = { NULL, 0 };
  if (xr < 0 || !buf) { st_xexp_einval++; sb_add(&c, "ret=%d", xr); out2(l.p, c.p); free(l.p); free(c.p); return; }
  if (xscan(buf, &doc) < 0 || (size_t)len != strlen(buf) + 1) { sb_add(&c, "ret=0 unscannable"); out2(l.p, c.p); free(l.p); free(c.p); xdoc_free(&doc); hwloc_free_xmlbuffer(NULL, buf); return; }
  sb_add(&c, "ret=0 "); sb_xdoc(&c, &doc);
  if (!g_be_exp) { sb_add(&c, " bytes=s"); sb_hex(&c, buf, strlen(buf)); }
  out2(l.p, c.p); free(l.p); free(c.p);
  xload_emit(buf, (size_t)len - 1, &doc, 0);
  hwloc_free_xmlbuffer(NULL, buf);
  mrng_s = mseed * 0x9E3779B97F4A7C15ULL + 0x1234567ULL; if (!mrng_s) mrng_s = 1;
  for (int m = 0; m < 4; m++) {
    xdoc_t md = xdoc_copy(&doc);
    unsigned nm = 1 + mrng_below(2);
    for (unsigned i = 0; i < nm; i++) xmutate(&md);
    sb_t t = {0}; xrender(&t, &md);
    xload_emit(t.p, t.len, &md, 1);
    free(t.p); xdoc_free(&md);
  }
  xdoc_free(&doc);
}
static uint64_t str_hash(const char *s) { uint64_t h = 1469598103934665603ULL; for (; *s; s++) { h ^= (unsigned char)*s; h *= 1099511628211ULL; } return h; }
/* `xdiff <ref> <mseed> <entry>*`: a hand-built list (any strings, any 64-bit values, any depth / index) through xml_tie */
static void do_xdiff(const char *reftok, const char *seedtok, char **toks, int ntok) {
  hwloc_topology_diff_t first = NULL, last = NULL;
  for (int i = 0; i < ntok; i++) {
    hwloc_topology_diff_t d = parse_entry(toks[i]);
    if (!d || (d->generic.type != HWLOC_TOPOLOGY_DIFF_OBJ_ATTR && d->generic.type != HWLOC_TOPOLOGY_DIFF_TOO_COMPLEX)
        || (d->generic.type == HWLOC_TOPOLOGY_DIFF_OBJ_ATTR && d->obj_attr.diff.generic.type > HWLOC_TOPOLOGY_DIFF_OBJ_ATTR_INFO)) {
      hwloc_topology_diff_destroy(d); hwloc_topology_diff_destroy(first); return;      /* not exportable by the C code */
    }
    if (first) last->generic.next = d; else first = d;
    last = d;
  }
  char *ref = dec(reftok);
  st_xdiff++;
  xml_tie(first, ref, strtoull(seedtok, NULL, 10));
  free(ref);
  hwloc_topology_diff_destroy(first);
}

/* ---------------------------------------------------------------- executor */
static hwloc_obj_t obj_at(hwloc_topology_t t, int oi) { dfs_collect(t); return (oi >= 0 && (unsigned)oi < ndfs) ? dfs[oi] : NULL; }
static struct hwloc_infos_s *infos_at(hwloc_topology_t t, int oi) { if (oi == -1) return &t->infos; hwloc_obj_t o = obj_at(t, oi); return o ? &o->infos : NULL; }
static void edited(int s) { dirty[s] = 1; }

static void do_pair(int a, int b) {
  hwloc_topology_t A = slot[a], B = slot[b];
  if (!A || !B) return;
  need(a); need(b);
  st_cases++;
  hwloc_topology_diff_t d = NULL;
  int ret = hwloc_topology_diff_build(A, B, 0, &d);
  unsigned n = 0; int nullside = 0, tc = 0;
  char *es = entries_str(d, &n, &nullside, &tc);
  sb_t l = {0}, c = {0};
  sb_add(&l, "build %d %d", a, b); sb_add(&c, "ret=%d n=%u%s", ret, n, es);
  out2(l.p, c.p); free(l.p); free(c.p);
  if (ret == 1) st_ret1++; else if (ret == 0) { st_ret0++; if (!d) st_ret0_empty++; }
  /* return value against what the generator knows about the edits since `dup b a` */
  oracle("ret1_has_tc", (ret == 1) == (tc != 0), "-");
  for (struct hwloc_internal_distances_s *x = A->first_dist; x; x = x->next) if (x->different_types) { st_hetero++; break; }
  if (last_dup_dst == b && last_dup_src == a && !n_unsure) {
    int total = n_rep + n_nonrep + n_f13a;
    if (total == 0) oracle("noedit_empty", ret == 0 && d == NULL, "-");
    else if (n_nonrep == 0 && n_f13a == 0) oracle("rep_only_ret0", ret == 0, "-");
    if (total == 1 && n_rep == 1) oracle("one_rep_one_entry", ret == 0 && n == 1, "-");
    if (total == 1 && n_nonrep == 1) oracle("one_nonrep_ret1", ret == 1, "-");
    if (total == 1 && n_f13a == 1) oracle("name_unset_ret1", ret == 1, "-");
  }
  oracle("no_null_string_in_diff", !nullside, "-");       /* a NULL string can be neither applied nor exported */
  if (nullside) st_f13a++;
  /* every built list (also the ones with a TOO_COMPLEX entry: EINVAL) through the XML exporter / importer models */
  if (!nullside) { const char *xrefs[4] = { "ref name", NULL, "a<b>&\"c'", "" }; xml_tie(d, xrefs[str_hash(es) % 4], str_hash(es)); }
  if (ret == 0 && !nullside) {
    const char *cls = (has_dup_info_names(A) || has_dup_info_names(B)) ? "F13c" : "-";
    if (strcmp(cls, "-")) st_dupnames++;
    char *oa = obs(A), *ob = obs(B);
    /* apply to a dup of A */
    if (slot[SCR_P]) hwloc_topology_destroy(slot[SCR_P]);
    hwloc_topology_dup(&slot[SCR_P], A); dirty[SCR_P] = 1;
    sb_t l1 = {0}; sb_add(&l1, "dup %d %d", SCR_P, a); out2(l1.p, "ok"); free(l1.p);
    int r = hwloc_topology_diff_apply(slot[SCR_P], d, 0);
    char *op = obs(slot[SCR_P]);
    sb_t l2 = {0}, c2 = {0}; sb_add(&l2, "apply %d 0%s", SCR_P, es); sb_add(&c2, "ret=%d %s", r, op); out2(l2.p, c2.p); free(l2.p); free(c2.p);
    oracle("apply_build_ret0", r == 0, cls);
    oracle("apply_build_obs_eq_B", !strcmp(op, ob), cls);
    /* build(patched, B) must be empty */
    hwloc_topology_diff_t d2 = NULL;
    int r2 = hwloc_topology_diff_build(slot[SCR_P], B, 0, &d2);
    unsigned n2 = 0; char *es2 = entries_str(d2, &n2, NULL, NULL);
    sb_t l3 = {0}, c3 = {0}; sb_add(&l3, "build %d %d", SCR_P, b); sb_add(&c3, "ret=%d n=%u%s", r2, n2, es2); out2(l3.p, c3.p); free(l3.p); free(c3.p);
    oracle("rebuild_empty", r2 == 0 && d2 == NULL, cls);
    hwloc_topology_diff_destroy(d2); free(es2);
    /* reverse */
    int r3 = hwloc_topology_diff_apply(slot[SCR_P], d, HWLOC_TOPOLOGY_DIFF_APPLY_REVERSE);
    char *or_ = obs(slot[SCR_P]);
    sb_t l4 = {0}, c4 = {0}; sb_add(&l4, "apply %d 1%s", SCR_P, es); sb_add(&c4, "ret=%d %s", r3, or_); out2(l4.p, c4.p); free(l4.p); free(c4.p);
    if (r == 0) { oracle("reverse_ret0", r3 == 0, cls); oracle("reverse_obs_eq_A", !strcmp(or_, oa), cls); }
    free(op); free(or_); free(oa); free(ob);
    /* XML export / load of the diff (C side only) */
    if (d) {
      char *buf = NULL; int len = 0; const char *refs[3] = { "ref name", NULL, "a<b>&\"c'" }; const char *ref = refs[opno % 3];
      int xr = hwloc_topology_diff_export_xmlbuffer(d, ref, &buf, &len);
      int okx = 0;
      if (xr == 0 && buf) {
        hwloc_topology_diff_t d3 = NULL; char *ref2 = NULL;
        int lr = hwloc_topology_diff_load_xmlbuffer(buf, len, &d3, &ref2);
        okx = lr == 0 && diffs_equal(d, d3) && ((!ref && !ref2) || (ref && ref2 && !strcmp(ref, ref2)));
        hwloc_topology_diff_destroy(d3); free(ref2);
        hwloc_free_xmlbuffer(A, buf);
      }
      st_xml++;
      oracle("xml_roundtrip", okx, "-");
      /* the same through a file */
      if (opno % 3 == 1 && g_tmpxml[0]) {
        int okf = 0;
        if (hwloc_topology_diff_export_xml(d, ref, g_tmpxml) == 0) {
          hwloc_topology_diff_t d3 = NULL; char *ref2 = NULL;
          int lr = hwloc_topology_diff_load_xml(g_tmpxml, &d3, &ref2);
          okf = lr == 0 && diffs_equal(d, d3) && ((!ref && !ref2) || (ref && ref2 && !strcmp(ref, ref2)));
          hwloc_topology_diff_destroy(d3); free(ref2);
        }
        remove(g_tmpxml);
        st_xml_file++;
        oracle("xml_roundtrip_file", okf, "-");
      }
      /* a long diff (the exporters size their buffers from a first guess and grow them): the entries of `d` repeated with long
       * string values until the document is well beyond 16 kB, again through both entry points */
      if (opno % 5 == 2) {
        hwloc_topology_diff_t first = NULL, last = NULL; unsigned nbig = 40 + (unsigned) (opno % 7) * 40;
        char *longv = malloc(400); memset(longv, 'v', 399); longv[399] = 0;
        for (unsigned k = 0; k < nbig; k++) {
          hwloc_topology_diff_t e = calloc(1, sizeof *e);
          e->obj_attr.type = HWLOC_TOPOLOGY_DIFF_OBJ_ATTR; e->obj_attr.obj_depth = (int) (k % 3); e->obj_attr.obj_index = k;
          e->obj_attr.diff.string.type = (k & 1) ? HWLOC_TOPOLOGY_DIFF_OBJ_ATTR_INFO : HWLOC_TOPOLOGY_DIFF_OBJ_ATTR_NAME;
          char nm[32]; snprintf(nm, sizeof nm, "Key%u", k);
          e->obj_attr.diff.string.name = (k & 1) ? strdup(nm) : NULL;
          e->obj_attr.diff.string.oldvalue = strdup(longv + (k * 7) % 300);
          e->obj_attr.diff.string.newvalue = strdup(longv + (k * 13) % 350);
          if (first) last->generic.next = e; else first = e;
          last = e;
        }
        free(longv);
        int okb = 0; char *bbuf = NULL; int blen = 0;
        if (hwloc_topology_diff_export_xmlbuffer(first, ref, &bbuf, &blen) == 0 && bbuf) {
          hwloc_topology_diff_t d3 = NULL; char *ref2 = NULL;
          int lr = hwloc_topology_diff_load_xmlbuffer(bbuf, blen, &d3, &ref2);
          okb = lr == 0 && blen > 16384 && (size_t) blen == strlen(bbuf) + 1 && diffs_equal(first, d3) && ((!ref && !ref2) || (ref && ref2 && !strcmp(ref, ref2)));
          hwloc_topology_diff_destroy(d3); free(ref2);
          hwloc_free_xmlbuffer(A, bbuf);
        }
        if (okb && g_tmpxml[0] && hwloc_topology_diff_export_xml(first, ref, g_tmpxml) == 0) {
          hwloc_topology_diff_t d3 = NULL; char *ref2 = NULL;
          int lr = hwloc_topology_diff_load_xml(g_tmpxml, &d3, &ref2);
          okb = lr == 0 && diffs_equal(first, d3);
          hwloc_topology_diff_destroy(d3); free(ref2); remove(g_tmpxml);
        }
        hwloc_topology_diff_destroy(first);
        st_xml_big++;
        oracle("xml_roundtrip_long_diff", okb, "-");
      }
    }
  }
  free(es);
  hwloc_topology_diff_destroy(d);
}

static void do_hand(int s, int rev, const char *expect, char **toks, int ntok) {
  hwloc_topology_t S = slot[s];
  if (!S) return;
  hwloc_topology_diff_t first = NULL, last = NULL;
  sb_t es = {0}; sb_add(&es, "");
  for (int i = 0; i < ntok; i++) {
    hwloc_topology_diff_t d = parse_entry(toks[i]);
    if (!d) { hwloc_topology_diff_destroy(first); free(es.p); return; }    /* would need a NULL string: not executable */
    if (first) last->generic.next = d; else first = d;
    last = d; sb_add(&es, " %s", toks[i]);
  }
  need(s);
  st_hand++;
  if (slot[SCR_Q]) hwloc_topology_destroy(slot[SCR_Q]);
  hwloc_topology_dup(&slot[SCR_Q], S); dirty[SCR_Q] = 1;
  sb_t l1 = {0}; sb_add(&l1, "dup %d %d", SCR_Q, s); out2(l1.p, "ok"); free(l1.p);
  char *before = obs(slot[SCR_Q]);
  sb_t l0 = {0}; sb_add(&l0, "obs %d", SCR_Q); out2(l0.p, before); free(l0.p);
  int r = hwloc_topology_diff_apply(slot[SCR_Q], first, rev ? HWLOC_TOPOLOGY_DIFF_APPLY_REVERSE : 0);
  char *after = obs(slot[SCR_Q]);
  sb_t l2 = {0}, c2 = {0}; sb_add(&l2, "apply %d %d%s", SCR_Q, rev, es.p); sb_add(&c2, "ret=%d %s", r, after); out2(l2.p, c2.p); free(l2.p); free(c2.p);
  if (r < 0) st_hand_fail++; else st_hand_ok++;
  /* rollback must restore the topology for every list; with duplicate info names the first-match rule can
     undo the wrong pair (F13c, format limitation) */
  const char *cls = has_dup_info_names(S) ? "F13c" : "-";
  if (r < 0) oracle("rollback_obs_unchanged", !strcmp(before, after), cls);
  if (strcmp(expect, "?")) oracle("hand_ret_expected", r == atoi(expect), "-");
  free(before); free(after); free(es.p);
  hwloc_topology_diff_destroy(first);
}

static void exec_line(char *line) {
  char *toks[256]; int nt = 0;
  char *cmd_end = strchr(line, '\n'); if (cmd_end) *cmd_end = 0;
  /* first line of an ops file: which XML back ends this process uses (hwloc reads the variables once per process) */
  if (!strncmp(line, "xmlbackend ", 11)) {
    setenv("HWLOC_LIBXML_EXPORT", line[11] == '0' ? "0" : "1", 1);
    setenv("HWLOC_LIBXML_IMPORT", strlen(line) > 13 && line[13] == '0' ? "0" : "1", 1);
    g_be_exp = line[11] == '0' ? 0 : 1; g_be_imp = strlen(line) > 13 && line[13] == '0' ? 0 : 1;
    return;
  }
  char *copy = strdup(line);
  /* synth keeps the rest of the line as one argument */
  if (!strncmp(copy, "synth ", 6)) {
    int s = atoi(copy + 6); char *desc = strchr(copy + 6, ' ');
    if (desc && s >= 0 && s < SCR_P) {
      if (slot[s]) hwloc_topology_destroy(slot[s]);
      slot[s] = NULL;
      last_dup_dst = last_dup_src = -1;      /* a freshly loaded slot is no longer "a dup of A plus the counted edits" */
      hwloc_topology_t t; hwloc_topology_init(&t);
      hwloc_topology_set_flags(t, HWLOC_TOPOLOGY_FLAG_INCLUDE_DISALLOWED);
      hwloc_topology_set_all_types_filter(t, HWLOC_TYPE_FILTER_KEEP_ALL);
      int lr;
      if (!strncmp(desc + 1, "noio:", 5)) {      /* same source, I/O objects filtered out: pairs that differ only in I/O children */
        hwloc_topology_set_io_types_filter(t, HWLOC_TYPE_FILTER_KEEP_NONE);
        desc += 5;
      }
      if (!strncmp(desc + 1, "xml:", 4)) {
        char path[1024]; const char *repo = getenv("VERIF_REPO");
        snprintf(path, sizeof path, "%s/tests/hwloc/xml/%s", repo ? repo : "/repo", desc + 5);
        lr = hwloc_topology_set_xml(t, path);
      } else lr = hwloc_topology_set_synthetic(t, desc + 1);
      if (lr < 0 || hwloc_topology_load(t) < 0) hwloc_topology_destroy(t);
      else { slot[s] = t; edited(s); }
    }
    free(copy); return;
  }
  for (char *p = strtok(copy, " "); p && nt < 256; p = strtok(NULL, " ")) toks[nt++] = p;
  if (!nt) { free(copy); return; }
  const char *c = toks[0];
  int s = nt > 1 ? atoi(toks[1]) : -1;
  hwloc_topology_t t = (s >= 0 && s < SCR_P) ? slot[s] : NULL;
  if (!strcmp(c, "dup") && nt == 3) {
    int src = atoi(toks[2]);
    if (s >= 0 && s < SCR_P && src >= 0 && src < SCR_P && slot[src] && s != src) {
      if (slot[s]) hwloc_topology_destroy(slot[s]);
      hwloc_topology_dup(&slot[s], slot[src]); edited(s);
      last_dup_dst = s; last_dup_src = src; n_rep = n_nonrep = n_unsure = n_f13a = 0;
    }
  } else if (!strcmp(c, "pair") && nt == 3) {
    int b = atoi(toks[2]);
    if (s >= 0 && s < SCR_P && b >= 0 && b < SCR_P) do_pair(s, b);
  } else if (!strcmp(c, "xdiff") && nt >= 3) {
    do_xdiff(toks[1], toks[2], toks + 3, nt - 3);
  } else if (!strcmp(c, "hand") && nt >= 4) {
    if (t) do_hand(s, atoi(toks[2]), toks[3], toks + 4, nt - 4);
  } else if (!t) {
    /* every other command edits an existing slot */
  } else if (!strcmp(c, "name") && nt == 4) {
    hwloc_obj_t o = obj_at(t, atoi(toks[2]));
    if (o) {
      char *nw = dec(toks[3]);
      if (!o->name && !nw) ;
      else if (!o->name || !nw) n_f13a++;
      else if (strcmp(o->name, nw)) n_rep++;
      free(o->name); o->name = nw; edited(s);
    }
  } else if (!strcmp(c, "iadd") && nt == 5) {
    struct hwloc_infos_s *in = infos_at(t, atoi(toks[2])); char *n = dec(toks[3]), *v = dec(toks[4]);
    if (in && n && v) { if (hwloc_modify_infos(in, HWLOC_MODIFY_INFOS_OP_ADD, n, v) > 0) n_nonrep++; edited(s); }
    free(n); free(v);
  } else if (!strcmp(c, "iset") && nt == 5) {
    struct hwloc_infos_s *in = infos_at(t, atoi(toks[2])); unsigned idx = strtoul(toks[3], NULL, 10); char *v = dec(toks[4]);
    if (in && v && idx < in->count) {
      if (strcmp(in->array[idx].value, v)) n_rep++;
      free(in->array[idx].value); in->array[idx].value = v; v = NULL; edited(s);
    }
    free(v);
  } else if (!strcmp(c, "irepl") && nt == 5) {
    struct hwloc_infos_s *in = infos_at(t, atoi(toks[2])); char *n = dec(toks[3]), *v = dec(toks[4]);
    if (in && n && v) { hwloc_modify_infos(in, HWLOC_MODIFY_INFOS_OP_REPLACE, n, v); n_unsure++; edited(s); }
    free(n); free(v);
  } else if (!strcmp(c, "irem") && nt == 4) {
    struct hwloc_infos_s *in = infos_at(t, atoi(toks[2])); char *n = dec(toks[3]);
    if (in && n) { if (hwloc_modify_infos(in, HWLOC_MODIFY_INFOS_OP_REMOVE, n, NULL) > 0) n_nonrep++; edited(s); }
    free(n);
  } else if (!strcmp(c, "mem") && nt == 4) {
    hwloc_obj_t o = obj_at(t, atoi(toks[2])); uint64_t v = strtoull(toks[3], NULL, 10);
    if (o && o->type == HWLOC_OBJ_NUMANODE) {
      uint64_t delta = v - o->attr->numanode.local_memory;
      if (delta) n_rep++;
      o->attr->numanode.local_memory = v;
      for (hwloc_obj_t p = o; p; p = p->parent) p->total_memory += delta;
      edited(s);
    }
  } else if (!strcmp(c, "misc") && nt == 4) {
    hwloc_obj_t o = obj_at(t, atoi(toks[2])); char *n = dec(toks[3]);
    if (o && n) { if (hwloc_topology_insert_misc_object(t, o, n)) { n_nonrep++; st_misc++; } edited(s); }
    free(n);
  } else if (!strcmp(c, "restrict") && nt == 3) {
    unsigned pu = strtoul(toks[2], NULL, 10);
    hwloc_bitmap_t set = hwloc_bitmap_dup(hwloc_topology_get_topology_cpuset(t));
    if (hwloc_bitmap_isset(set, pu) && hwloc_bitmap_weight(set) > 1) {
      hwloc_bitmap_clr(set, pu);
      if (hwloc_topology_restrict(t, set, 0) == 0) { n_nonrep++; st_restrict++; } else n_unsure++;
      edited(s);
    }
    hwloc_bitmap_free(set);
  } else if (!strcmp(c, "kind") && nt == 4) {
    unsigned pu = strtoul(toks[2], NULL, 10);
    hwloc_bitmap_t set = hwloc_bitmap_alloc(); hwloc_bitmap_set(set, pu);
    if (hwloc_bitmap_isincluded(set, hwloc_topology_get_topology_cpuset(t))) {
      /* registering may merge into / equal an existing kind: it only counts as an edit when what diff_build
         compares about cpukinds actually changed */
      sb_t k0 = {0}, k1 = {0}; desc_kinds(&k0, t);
      int rr = hwloc_cpukinds_register(t, set, atoi(toks[3]), NULL, 0);
      desc_kinds(&k1, t);
      if (rr != 0) n_unsure++;
      else if (strcmp(k0.p, k1.p)) { n_nonrep++; st_kind++; }
      free(k0.p); free(k1.p);
      edited(s);
    }
    hwloc_bitmap_free(set);
  } else if (!strcmp(c, "mattr") && nt == 4) {
    hwloc_obj_t o = obj_at(t, atoi(toks[2]));
    if (o && o->type == HWLOC_OBJ_NUMANODE) {
      hwloc_memattr_id_t id;
      if (hwloc_memattr_get_by_name(t, "verifattr", &id) < 0) hwloc_memattr_register(t, "verifattr", HWLOC_MEMATTR_FLAG_HIGHER_FIRST, &id);
      hwloc_memattr_set_value(t, id, o, NULL, 0, strtoull(toks[3], NULL, 10));
      n_unsure++; st_mattr++; edited(s);
    }
  } else if (!strcmp(c, "dist") && nt == 3) {
    unsigned nn = hwloc_get_nbobjs_by_type(t, HWLOC_OBJ_NUMANODE);
    if (nn >= 2 && nn <= 8) {
      hwloc_obj_t objs[8]; hwloc_uint64_t vals[64]; uint64_t v = strtoull(toks[2], NULL, 10);
      for (unsigned i = 0; i < nn; i++) objs[i] = hwloc_get_obj_by_type(t, HWLOC_OBJ_NUMANODE, i);
      for (unsigned i = 0; i < nn * nn; i++) vals[i] = (i % (nn + 1)) ? v + i : 10;
      hwloc_distances_add_handle_t h = hwloc_distances_add_create(t, "verifdist", HWLOC_DISTANCES_KIND_FROM_USER | HWLOC_DISTANCES_KIND_VALUE_LATENCY, 0);
      if (h && hwloc_distances_add_values(t, h, nn, objs, vals, 0) == 0 && hwloc_distances_add_commit(t, h, 0) == 0) { n_nonrep++; st_dist++; } else n_unsure++;
      edited(s);
    }
  } else if (!strcmp(c, "distcell") && nt == 4) {
    /* the matrix of `dist <v>` with ONE cell bumped, replacing whatever distances the slot had: against a slot that holds `dist <v>`
     * the two structures have the same shape and differ in a single value, in any row */
    unsigned nn = hwloc_get_nbobjs_by_type(t, HWLOC_OBJ_NUMANODE);
    if (nn >= 2 && nn <= 8) {
      hwloc_obj_t objs[8]; hwloc_uint64_t vals[64]; uint64_t v = strtoull(toks[2], NULL, 10); unsigned cell = (unsigned) strtoul(toks[3], NULL, 10) % (nn * nn);
      hwloc_distances_remove(t);
      for (unsigned i = 0; i < nn; i++) objs[i] = hwloc_get_obj_by_type(t, HWLOC_OBJ_NUMANODE, i);
      for (unsigned i = 0; i < nn * nn; i++) vals[i] = (i % (nn + 1)) ? v + i : 10;
      vals[cell] += 1000;
      hwloc_distances_add_handle_t h = hwloc_distances_add_create(t, "verifdist", HWLOC_DISTANCES_KIND_FROM_USER | HWLOC_DISTANCES_KIND_VALUE_LATENCY, 0);
      if (h && hwloc_distances_add_values(t, h, nn, objs, vals, 0) == 0 && hwloc_distances_add_commit(t, h, 0) == 0) { n_nonrep++; st_dist++; st_distcell++; } else n_unsure++;
      edited(s);
    }
  } else if (!strcmp(c, "allow") && nt == 3) {
    unsigned pu = strtoul(toks[2], NULL, 10);
    hwloc_bitmap_t set = hwloc_bitmap_dup(hwloc_topology_get_allowed_cpuset(t));
    if (hwloc_bitmap_isset(set, pu) && hwloc_bitmap_weight(set) > 1) {
      hwloc_bitmap_clr(set, pu);
      if (hwloc_topology_allow(t, set, NULL, HWLOC_ALLOW_FLAG_CUSTOM) == 0) { n_nonrep++; st_allow++; } else n_unsure++;
      edited(s);
    }
    hwloc_bitmap_free(set);
  }
  free(copy);
}

/* ---------------------------------------------------------------- generator */
static void emit(const char *fmt, ...) {
  static char line[1 << 18];
  va_list ap; va_start(ap, fmt); vsnprintf(line, sizeof line, fmt, ap); va_end(ap);
  fprintf(fops, "%s\n", line);
  fflush(fops);                 /* the op that crashes the library must be in the file */
  opno++;
  exec_line(line);
}
static const char *SYNTH[] = {
  "numa:2(memory=1048576) core:2 pu:2",
  "pack:2 [numa(memory=4096)] core:2 pu:2",
  "node:3(memory=65536) pu:2",
  "pack:2 l2:1 [numa(memory=123)] pu:2",
  "core:2 pu:2",
  "[numa(memory=18446744073709551615)] pack:2 [numa(memory=7)] pu:1",
  "group:2 numa:2(memory=9223372036854775808) pu:1",
  "pu:3",
  "xml:24em64t-2n6c2t-pci.xml",
  "xml:fakeheterodistances.xml",
  "xml:8intel64-4n2t-memattrs.xml",
  "xml:fakecpukinds.xml",
  "xml:16-2gr2gr2n2c+misc.xml",
  "xml:memorysidecaches.xml",
  "xml:16amd64-4distances.xml",
};
static const char *STRS[] = { "a", "b", "c", "X", "Yy", "two words", "a<b>&\"c'", "0", "b " };
static const char *INAMES[] = { "K0", "K1", "K2", "Key 3", "K<4>" };
static char encbuf[4][256];
static const char *E(const char *s) { static int k; sb_t b = {0}; sb_enc(&b, s); k = (k + 1) % 4; snprintf(encbuf[k], 256, "%s", b.p); free(b.p); return encbuf[k]; }
static const char *E2(const char *s) { static char big[4][900]; static int k; sb_t b = {0}; sb_enc(&b, s); k = (k + 1) % 4; snprintf(big[k], 900, "%s", b.p); free(b.p); return big[k]; }
static const char *rstr(void) { return STRS[rng_below(sizeof STRS / sizeof *STRS)]; }
static uint64_t rmem(void) {
  switch (rng_below(6)) { case 0: return 0; case 1: return UINT64_MAX; case 2: return 1ULL << 63; case 3: return rng_next(); default: return rng_below(100000); }
}
static int infos_has(struct hwloc_infos_s *in, const char *n) { for (unsigned i = 0; i < in->count; i++) if (!strcmp(in->array[i].name, n)) return 1; return 0; }

/* one random edit on slot s.  kind: 0 representable, 1 non-representable, 2 name set<->unset (non-representable) */
static int case_restricted;   /* no cpukind registration after a restrict in the same case: that sequence hits a
                                 use-after-free in cpukinds.c (hwloc_internal_cpukinds_restrict leaves a stale slot), which is
                                 C15's business, not a diff defect */
static void gen_edit(int s, int kind, int allow_dupnames) {
  hwloc_topology_t t = slot[s]; if (!t) return;
  dfs_collect(t); unsigned n = ndfs; int oi = (int)rng_below(n);
  hwloc_obj_t o = dfs[oi];
  if (kind == 0) {
    switch (rng_below(4)) {
    case 0: /* rename an object that has a name */
      for (unsigned k = 0; k < n; k++) { hwloc_obj_t x = dfs[(oi + k) % n]; if (x->name) { emit("name %d %u %s", s, (oi + k) % n, E(rstr())); return; } }
      return;
    case 1: { /* change an info value (object or topology) */
      int w = rng_chance(25) ? -1 : oi;
      for (unsigned k = 0; k <= n; k++) {
        struct hwloc_infos_s *in = w == -1 ? &t->infos : &dfs[w]->infos;
        if (in->count) {
          unsigned idx = rng_below(in->count);
          if (rng_chance(50) || allow_dupnames) emit("iset %d %d %u %s", s, w, idx, E(rstr()));
          else { char nb[256]; snprintf(nb, sizeof nb, "%s", E(in->array[idx].name)); emit("irepl %d %d %s %s", s, w, nb, E(rstr())); }
          return;
        }
        w = (int)((oi + k) % n);
      }
      return; }
    default: /* change local memory of a NUMA node */
      for (unsigned k = 0; k < n; k++) { hwloc_obj_t x = dfs[(oi + k) % n]; if (x->type == HWLOC_OBJ_NUMANODE) { emit("mem %d %u %" PRIu64, s, (oi + k) % n, rmem()); return; } }
      return;
    }
  } else if (kind == 1) {
    switch (rng_below(9)) {
    case 6: if (case_restricted) return; emit("kind %d %u %d", s, rng_below(hwloc_get_nbobjs_by_type(t, HWLOC_OBJ_PU)), (int)rng_below(3)); return;
    case 7:
      for (unsigned k = 0; k < n; k++) { hwloc_obj_t x = dfs[(oi + k) % n]; if (x->type == HWLOC_OBJ_NUMANODE) { emit("mattr %d %u %u", s, (oi + k) % n, rng_below(4)); return; } }
      return;
    case 8: if (rng_chance(45)) emit("distcell %d %u %u", s, rng_below(3), rng_below(64)); else emit("dist %d %u", s, rng_below(3)); return;
    case 0: case 1: { /* add an info pair */
      int w = rng_chance(25) ? -1 : oi; struct hwloc_infos_s *in = w == -1 ? &t->infos : &o->infos;
      const char *nm = INAMES[rng_below(sizeof INAMES / sizeof *INAMES)];
      if (!allow_dupnames && infos_has(in, nm)) return;
      char nb[256]; snprintf(nb, sizeof nb, "%s", E(nm));
      emit("iadd %d %d %s %s", s, w, nb, E(rstr())); return; }
    case 2: { /* remove an info pair */
      int w = rng_chance(25) ? -1 : oi; struct hwloc_infos_s *in = w == -1 ? &t->infos : &o->infos;
      if (in->count) emit("irem %d %d %s", s, w, E(in->array[rng_below(in->count)].name));
      return; }
    case 3: emit("misc %d %d %s", s, oi, E(rstr())); return;
    case 4: case_restricted = 1; emit("restrict %d %u", s, rng_below(hwloc_get_nbobjs_by_type(t, HWLOC_OBJ_PU))); return;
    default: emit("allow %d %u", s, rng_below(hwloc_get_nbobjs_by_type(t, HWLOC_OBJ_PU))); return;
    }
  } else {
    if (o->name && rng_chance(50)) emit("name %d %d -", s, oi);
    else if (!o->name) emit("name %d %d %s", s, oi, E(rstr()));
  }
}

/* a valid entry for one attribute slot of the current topology (old = current value);
   `chain` extends it with a second entry on the same slot */
static int gen_valid_entry(hwloc_topology_t t, sb_t *b, int rev, int chain, unsigned start) {
  dfs_collect(t);
  for (unsigned k = 0; k <= ndfs; k++) {
    unsigned w = (start + k) % (ndfs + 1);
    hwloc_obj_t o = w < ndfs ? dfs[w] : NULL;
    struct hwloc_infos_s *in = o ? &o->infos : &t->infos;
    int depth = o ? o->depth : (int)t->nb_levels; unsigned idx = o ? o->logical_index : (rng_chance(30) ? rng_below(5) : 0);
    unsigned pick = rng_below(3);
    char e1[600], e2[600], e3[600];
    if (pick == 0 && o && o->name) {
      snprintf(e1, sizeof e1, "%s", E(o->name)); snprintf(e2, sizeof e2, "%s", E(rstr())); snprintf(e3, sizeof e3, "%s", E(rstr()));
      sb_add(b, " N:%d:%u:%s:%s", depth, idx, rev ? e2 : e1, rev ? e1 : e2);
      if (chain) sb_add(b, " N:%d:%u:%s:%s", depth, idx, rev ? e3 : e2, rev ? e2 : e3);
      return 1;
    }
    if (pick == 1 && in->count) {
      unsigned i = rng_below(in->count); char nm[300]; snprintf(nm, sizeof nm, "%s", E(in->array[i].name));
      snprintf(e1, sizeof e1, "%s", E(in->array[i].value)); snprintf(e2, sizeof e2, "%s", E(rstr())); snprintf(e3, sizeof e3, "%s", E(rstr()));
      sb_add(b, " I:%d:%u:%s:%s:%s", depth, idx, nm, rev ? e2 : e1, rev ? e1 : e2);
      if (chain) sb_add(b, " I:%d:%u:%s:%s:%s", depth, idx, nm, rev ? e3 : e2, rev ? e2 : e3);
      return 1;
    }
    if (pick == 2 && o && o->type == HWLOC_OBJ_NUMANODE) {
      uint64_t v0 = o->attr->numanode.local_memory, v1 = rmem(), v2 = rmem();
      sb_add(b, " S:%d:%u:%" PRIu64 ":%" PRIu64, depth, idx, rev ? v1 : v0, rev ? v0 : v1);
      if (chain) sb_add(b, " S:%d:%u:%" PRIu64 ":%" PRIu64, depth, idx, rev ? v2 : v1, rev ? v1 : v2);
      return 1;
    }
  }
  return 0;
}
static void gen_failing_entry(hwloc_topology_t t, sb_t *b) {
  dfs_collect(t);
  hwloc_obj_t o = dfs[rng_below(ndfs)];
  switch (rng_below(13)) {
  case 0: sb_add(b, " U"); break;
  case 1: sb_add(b, " TC:%d:%u", o->depth, o->logical_index); break;
  case 2: sb_add(b, " A:%d:%u", o->depth, o->logical_index); break;
  case 3: sb_add(b, " S:%d:%u:%" PRIu64 ":5", o->depth, o->logical_index, lmem_of(o) + 1); break;            /* wrong old value or not a NUMA node */
  case 4: sb_add(b, " N:%d:%u:%s:%s", o->depth, o->logical_index, E("no such name"), E("x")); break;
  case 5: sb_add(b, " I:%d:%u:%s:%s:%s", o->depth, o->logical_index, E("nokey"), E("a"), E("b")); break;
  case 6: sb_add(b, " I:%d:%u:%s:%s:%s", o->depth, o->logical_index, E(o->infos.count ? o->infos.array[0].name : "K0"), E("not the old value"), E("b")); break;
  case 7: sb_add(b, " S:%d:%u:0:1", (int)t->nb_levels, 0); break;                                            /* topology-level key with SIZE */
  case 8: sb_add(b, " N:%d:%u:%s:%s", (int)t->nb_levels, 0, E("a"), E("b")); break;
  case 9: sb_add(b, " I:%d:%u:%s:%s:%s", (int)t->nb_levels + 1 + (int)rng_below(3), 0, E("K0"), E("a"), E("b")); break;   /* bad depth */
  case 10: sb_add(b, " N:%d:%u:%s:%s", o->depth, hwloc_get_nbobjs_by_depth(t, o->depth) + rng_below(3), E("a"), E("b")); break; /* bad index */
  case 11:                                                                                                   /* a valid topology-info change, but addressed below nb_levels */
    if (t->infos.count) {
      unsigned i = rng_below(t->infos.count); char nm[600], ov[600];
      snprintf(nm, sizeof nm, "%s", E(t->infos.array[i].name)); snprintf(ov, sizeof ov, "%s", E(t->infos.array[i].value));
      sb_add(b, " I:%d:%u:%s:%s:%s", (int)t->nb_levels + 1 + (int)rng_below(2), 0, nm, ov, ov);
      break;
    }
    /* FALLTHRU */
  default: sb_add(b, " I:%d:%u:%s:%s:%s", -(int)rng_below(12), rng_below(4), E("K0"), E("a"), E("b")); break;                  /* special depths */
  }
}
static void gen_hand(int s) {
  hwloc_topology_t t = slot[s]; if (!t) return;
  int rev = rng_chance(40);
  sb_t b = {0}; sb_add(&b, "");
  unsigned pat = rng_below(10);
  char expect[16] = "?";
  dfs_collect(t); unsigned start = rng_below(ndfs + 1), stride = 1 + rng_below(3);
  if (pat < 3) {            /* valid entries on distinct objects */
    unsigned k = 1 + rng_below(4), done = 0;
    for (unsigned i = 0; i < k && i * stride <= ndfs; i++) done += gen_valid_entry(t, &b, rev, 0, start + i * stride);
    (void)done;
    /* two valid entries may still hit the same slot when the search wraps: no expectation */
  } else if (pat < 7) {     /* valid prefix, failing entry, optional tail */
    unsigned k = rng_below(4), done = 0;
    for (unsigned i = 0; i < k && i * stride <= ndfs; i++) done += gen_valid_entry(t, &b, rev, 0, start + i * stride);
    gen_failing_entry(t, &b);
    if (rng_chance(40)) gen_valid_entry(t, &b, rev, 0, start + 7);
  } else if (pat < 9) {     /* two entries on the same slot (a->b, b->c), then maybe a failing one */
    if (rng_chance(50)) gen_valid_entry(t, &b, rev, 0, start + 1);
    gen_valid_entry(t, &b, rev, 1, start);
    if (rng_chance(70)) gen_failing_entry(t, &b);
  } else {                  /* unrelated entries */
    unsigned k = 1 + rng_below(3);
    for (unsigned i = 0; i < k; i++) if (rng_chance(50)) gen_failing_entry(t, &b); else gen_valid_entry(t, &b, !rev, 0, start + i);
  }
  if (b.len) emit("hand %d %d %s%s", s, rev, expect, b.p);
  free(b.p);
}

static const char *XSTRS[] = { "", "a", "b", "two words", "a<b>&\"c'", "line\nbreak", "tab\there", "cr\rx", "&amp;", "&#10;", "  lead", "trail  ",
  "x=\"y\"", "'", ">>", ";&", "]]>", "<!-- c -->", "0", "-1", "K<4>", "\n", " ", "&", "\"", "/>", "a&b<c>d\"e'f\tg\nh\ri" };
static const char *xstr(void) {
  static char buf[4][400]; static int k; k = (k + 1) % 4;
  unsigned r = rng_below(100);
  if (r < 70) return XSTRS[rng_below(sizeof XSTRS / sizeof *XSTRS)];
  unsigned n = r < 95 ? rng_below(12) : 200 + rng_below(190);
  for (unsigned i = 0; i < n; i++) { unsigned c = rng_below(98); buf[k][i] = c < 95 ? (char)(32 + c) : c == 95 ? '\t' : c == 96 ? '\n' : '\r'; }
  buf[k][n] = 0; return buf[k];
}
static void gen_xdiff(void) {
  sb_t b = {0}; sb_add(&b, "");
  unsigned n = rng_chance(8) ? 0 : 1 + rng_below(rng_chance(10) ? 30 : 5);
  static const int DEPTHS[] = { 0, 1, 2, 3, -1, -2, -3, -4, -5, -6, 2147483647, -2147483647 - 1, 12, 100 };
  static const unsigned IDX[] = { 0, 1, 2, 7, 4294967295u, 2147483648u, 2147483647u, 65536, 10, 99 };
  for (unsigned i = 0; i < n; i++) {
    int depth = rng_chance(80) ? DEPTHS[rng_below(sizeof DEPTHS / sizeof *DEPTHS)] : (int)(uint32_t)rng_next();
    unsigned idx = rng_chance(80) ? IDX[rng_below(sizeof IDX / sizeof *IDX)] : (unsigned)rng_next();
    char e1[900], e2[900], e3[900];
    switch (rng_below(rng_chance(12) ? 4 : 3)) {
    case 0: sb_add(&b, " S:%d:%u:%" PRIu64 ":%" PRIu64, depth, idx, rmem(), rmem()); break;
    case 1: snprintf(e1, sizeof e1, "%s", E2(xstr())); snprintf(e2, sizeof e2, "%s", E2(xstr())); sb_add(&b, " N:%d:%u:%s:%s", depth, idx, e1, e2); break;
    case 2: snprintf(e1, sizeof e1, "%s", E2(xstr())); snprintf(e2, sizeof e2, "%s", E2(xstr())); snprintf(e3, sizeof e3, "%s", E2(xstr()));
            sb_add(&b, " I:%d:%u:%s:%s:%s", depth, idx, e1, e2, e3); break;
    default: sb_add(&b, " TC:%d:%u", depth, idx); break;
    }
  }
  char rf[900]; snprintf(rf, sizeof rf, "%s", rng_chance(25) ? "-" : E2(xstr()));
  emit("xdiff %s %" PRIu64 "%s", rf, rng_next() >> 1, b.p);
  free(b.p);
}

static void gen_case(void) {
  int allow_dup = rng_chance(10);
  if (rng_chance(30)) { gen_xdiff(); if (rng_chance(50)) return; }
  case_restricted = 0;
  if (rng_chance(2)) {          /* the same XML with and without its I/O objects */
    emit("synth 0 xml:24em64t-2n6c2t-pci.xml");
    emit("synth 1 noio:xml:24em64t-2n6c2t-pci.xml");
    if (slot[0] && slot[1]) { st_xmltopo++; emit("pair 0 1"); emit("pair 1 0"); }
    return;
  }
  { unsigned k = rng_below(sizeof SYNTH / sizeof *SYNTH);
    if (k >= 8 && rng_chance(60)) k = rng_below(8);          /* XML topologies are larger: fewer of them */
    if (k >= 8) st_xmltopo++;
    emit("synth 0 %s", SYNTH[k]); }
  if (!slot[0]) return;
  unsigned pre = rng_below(8);
  for (unsigned i = 0; i < pre; i++) {
    /* decorate A: names, infos, memory, sometimes misc objects */
    hwloc_topology_t t = slot[0]; dfs_collect(t); int oi = (int)rng_below(ndfs);
    switch (rng_below(5)) {
    case 0: case 1: emit("name 0 %d %s", oi, E(rstr())); break;
    case 2: case 3: gen_edit(0, 1, allow_dup); break;
    default: gen_edit(0, 0, allow_dup); break;
    }
  }
  if (allow_dup) {       /* several pairs with the same name on one infos array (outside InfoNamesDistinct) */
    dfs_collect(slot[0]); int w = rng_chance(20) ? -1 : (int)rng_below(ndfs); unsigned k = 2 + rng_below(2);
    const char *vals[] = { "a", "b", "c" };
    for (unsigned i = 0; i < k; i++) emit("iadd 0 %d %s %s", w, "s58", E(vals[rng_below(3)]));
  }
  emit("dup 1 0");
  if (allow_dup) {
    struct hwloc_infos_s *in = NULL; int w = -1;
    dfs_collect(slot[1]);
    for (unsigned i = 0; i < ndfs; i++) if (infos_has(&dfs[i]->infos, "X")) { in = &dfs[i]->infos; w = (int)i; }
    if (!in && infos_has(&slot[1]->infos, "X")) in = &slot[1]->infos;
    const char *vals[] = { "a", "b", "c" };
    if (in) for (unsigned i = 0; i < in->count; i++) if (!strcmp(in->array[i].name, "X") && rng_chance(70)) emit("iset 1 %d %u %s", w, i, E(vals[rng_below(3)]));
  }
  unsigned mode = rng_below(100);
  unsigned nrep = mode < 8 ? 0 : 1 + rng_below(5);
  for (unsigned i = 0; i < nrep; i++) gen_edit(1, 0, allow_dup);
  if (mode >= 70 && mode < 90) gen_edit(1, 1, allow_dup);
  if (mode >= 90 && mode < 95) gen_edit(1, 2, allow_dup);
  if (mode >= 95) { gen_edit(1, 1, allow_dup); gen_edit(1, 0, allow_dup); gen_edit(1, 1, allow_dup); }
  if (rng_chance(10)) gen_edit(0, 0, allow_dup);       /* an edit on A after the dup */
  emit("pair 0 1");
  if (rng_chance(15)) emit("pair 1 0");
  unsigned nh = rng_chance(60) ? 1 + rng_below(3) : 0;
  for (unsigned i = 0; i < nh; i++) gen_hand(rng_chance(50) ? 0 : 1);
}

int main(int argc, char **argv) {
  putenv((char *)"HWLOC_XML_VERBOSE=0");
  if (argc >= 6 && !strcmp(argv[1], "--replay")) {
    FILE *in = fopen(argv[2], "r"); fmin = fopen(argv[3], "w"); fcout = fopen(argv[4], "w"); forc = fopen(argv[5], "w");
    if (!in || !fmin || !fcout || !forc) return 2;
    static char line[1 << 18];
    snprintf(g_tmpxml, sizeof g_tmpxml, "%s.diff.xml", argv[5]);
    while (fgets(line, sizeof line, in)) { if (!strncmp(line, "xmlbackend ", 11)) { exec_line(line); continue; } opno++; if (line[0] != '#') exec_line(line); }
    fclose(in);
  } else if (argc >= 7) {
    unsigned long ncases = strtoul(argv[1], NULL, 10);
    fops = fopen(argv[2], "w"); fmin = fopen(argv[3], "w"); fcout = fopen(argv[4], "w"); forc = fopen(argv[5], "w");
    if (!fops || !fmin || !fcout || !forc) return 2;
    rng_seed(rng_seed_from_env());
    snprintf(g_tmpxml, sizeof g_tmpxml, "%s.diff.xml", argv[5]);
    { unsigned be = (unsigned) (rng_seed_from_env() % 4); char l[32]; snprintf(l, sizeof l, "xmlbackend %u %u", be & 1, (be >> 1) & 1);
      fprintf(fops, "%s\n", l); exec_line(l); }
    for (unsigned long i = 0; i < ncases; i++) gen_case();
    fclose(fops);
    FILE *fs = fopen(argv[6], "w");
    if (fs) {
      fprintf(fs, "pairs %lu\nret0 %lu\nret0_empty %lu\nret1 %lu\nf13a_null_side %lu\nentries_size %lu\nentries_name %lu\nentries_info %lu\nentries_toocomplex %lu\n"
              "hand_lists %lu\nhand_failed %lu\nhand_ok %lu\npairs_with_dup_info_names %lu\nxml_roundtrips %lu\noracle_checks %lu\noracle_fail_known_class %lu\nmisc_inserted %lu\nrestricted %lu\nallow_changed %lu\ncpukind_added %lu\nmemattr_set %lu\ndistances_added %lu\nxml_topologies %lu\npairs_with_hetero_distances %lu\nxml_roundtrips_file %lu\nxml_roundtrips_long_diff %lu\ndistances_one_cell_changed %lu\nxml_model_exports %lu\nxml_model_exports_einval %lu\nxml_model_loads %lu\nxml_model_loads_mutated %lu\nxml_model_loads_rejected %lu\nxml_model_loads_entry_dropped %lu\nxml_model_hand_lists %lu\n",
              st_cases, st_ret0, st_ret0_empty, st_ret1, st_f13a, st_entries_S, st_entries_N, st_entries_I, st_entries_T, st_hand, st_hand_fail, st_hand_ok,
              st_dupnames, st_xml, st_orc, st_orc_fail_known, st_misc, st_restrict, st_allow, st_kind, st_mattr, st_dist, st_xmltopo, st_hetero, st_xml_file, st_xml_big, st_distcell, st_xexp, st_xexp_einval, st_xload, st_xload_mut, st_xload_rej, st_xload_dropped, st_xdiff);
      fclose(fs);
    }
  } else { fprintf(stderr, "usage: diff <ncases> <ops> <model-in> <c-out> <oracle> <stats> | --replay <ops> <model-in> <c-out> <oracle>\n"); return 2; }
  for (int i = 0; i < NSLOT; i++) if (slot[i]) hwloc_topology_destroy(slot[i]);
  free(dfs);
  fclose(fmin); fclose(fcout); fclose(forc);
  return 0;
}
