/* C09 harness (engine `helpers`): traversal / locality helpers of helper.h, inlines.h, traversal.c against the Lean model.
 *
 * usage: helpers <nops> <ops-out> <c-out> <stats-out> <model-in-out>        (generate; seed = VERIF_SEED)
 *        helpers --replay <ops-in> <c-out> <model-in-out>
 *
 * ops file      : `LOAD ...` lines (how to build a topology) and query lines (see handle_query()).
 * model-in file : the same lines, each LOAD line followed by the canonical dump block of the topology (harness/dump.h);
 *                 this is what the Lean driver reads.
 * c-out         : one answer line per model-in line ("." for LOAD and dump lines, "T ok" for the END line — the driver
 *                 answers "T ok" only when its WF and Tree oracles accept the dump).
 *
 * LOAD S <restrict-flags> <restrict-set hex|-> <nmisc> <synthetic description>
 * LOAD X <restrict-flags> <restrict-set hex|-> <nmisc> <xml path>          (I/O kept)
 *
 * Objects are identified by their DFS id exactly as in dump.h (normal, memory, I/O, Misc children order).
 * Queries outside the documented preconditions (NULL cpuset dereference: cpuset iterators on I/O or Misc levels,
 * hwloc_distrib on roots without cpuset) are never generated.  No input class is excluded any more: common ancestors of
 * any mix of normal/memory/I-O/Misc objects (F10, fixed) and closest objects of memory sources (F32, fixed) are ordinary cases.
 */
#include "dump.h"
#include "rng.h"
#include <errno.h>
#include <limits.h>
#include <stdarg.h>

static FILE *fops, *fc, *fmin;
static hwloc_topology_t topo;
static hwloc_obj_t *OBJ; static unsigned NOBJ;
static struct dump_pair *SORTED;
static unsigned long nops_done;

/* ------------------------------------------------------------------ statistics */
#define MAXSTAT 96
static struct { char name[40]; unsigned long n; } stats[MAXSTAT]; static unsigned nstats;
static void stat_hit(const char *name) {
  for (unsigned i = 0; i < nstats; i++) if (!strcmp(stats[i].name, name)) { stats[i].n++; return; }
  if (nstats < MAXSTAT) { snprintf(stats[nstats].name, sizeof stats[nstats].name, "%s", name); stats[nstats++].n = 1; }
}

/* ------------------------------------------------------------------ ids */
static int idof(hwloc_obj_t o) {
  if (!o) return -1;
  unsigned lo = 0, hi = NOBJ;
  while (lo < hi) { unsigned mid = (lo + hi) / 2; if (SORTED[mid].o < o) lo = mid + 1; else hi = mid; }
  if (lo < NOBJ && SORTED[lo].o == o) return (int) SORTED[lo].id;
  return -2;
}
static void build_ids(void) {
  struct dump_map m = {0};
  unsigned budget = 2000000;
  dump_collect(&m, hwloc_get_root_obj(topo), &budget);
  free(OBJ); free(SORTED);
  OBJ = m.objs; NOBJ = m.n;
  SORTED = malloc((NOBJ + 1) * sizeof(*SORTED));
  for (unsigned i = 0; i < NOBJ; i++) { SORTED[i].o = OBJ[i]; SORTED[i].id = i; }
  qsort(SORTED, NOBJ, sizeof(*SORTED), dump_pair_cmp);
}

/* ------------------------------------------------------------------ sets */
static hwloc_bitmap_t parse_set(const char *s) {
  size_t len = strlen(s);
  hwloc_bitmap_t b = hwloc_bitmap_alloc();
  for (size_t k = 0; k < len; k++) {
    char c = s[len - 1 - k]; int v;
    if (c >= '0' && c <= '9') v = c - '0'; else if (c >= 'a' && c <= 'f') v = c - 'a' + 10; else { hwloc_bitmap_free(b); return NULL; }
    for (int bit = 0; bit < 4; bit++) if (v & (1 << bit)) hwloc_bitmap_set(b, (unsigned) (4 * k + bit));
  }
  return b;
}
static void sput_set(char *out, size_t cap, hwloc_const_bitmap_t s) {
  if (!s) { snprintf(out, cap, "-"); return; }
  if (hwloc_bitmap_weight(s) == -1) { snprintf(out, cap, "INF"); return; }
  int last = hwloc_bitmap_last(s);
  if (last < 0) { snprintf(out, cap, "0"); return; }
  size_t off = 0; int started = 0;
  for (int i = last / 64; i >= 0; i--) {
    unsigned long w = hwloc_bitmap_to_ith_ulong(s, i);
    off += snprintf(out + off, cap - off, started ? "%016lx" : "%lx", w); started = 1;
  }
}
static void shex(char *out, size_t cap, const char *s) {
  if (!s) { snprintf(out, cap, "-"); return; }
  if (!*s) { snprintf(out, cap, "="); return; }
  size_t off = 0;
  for (; *s && off + 3 < cap; s++) off += snprintf(out + off, cap - off, "%02x", (unsigned char) *s);
}
static char *unhex(const char *s, int *isnull) { /* "-" NULL, "=" empty */
  *isnull = 0;
  if (!strcmp(s, "-")) { *isnull = 1; return NULL; }
  if (!strcmp(s, "=")) return strdup("");
  size_t n = strlen(s) / 2; char *r = malloc(n + 1);
  for (size_t i = 0; i < n; i++) { unsigned v; sscanf(s + 2 * i, "%2x", &v); r[i] = (char) v; }
  r[n] = 0; return r;
}

/* ------------------------------------------------------------------ topology construction */
static void unload(void) { if (topo) { hwloc_topology_destroy(topo); topo = NULL; } NOBJ = 0; }

/* returns 0 when a topology is loaded (and within the size bound) */
static int load_topology(char kind, unsigned long rflags, const char *rset, unsigned nmisc, const char *arg) {
  unload();
  if (hwloc_topology_init(&topo) < 0) { topo = NULL; return -1; }
  int err;
  /* memory-side caches are filtered out by default, but the synthetic backend creates them regardless of the filter (and
   * hwloc_topology_check() then aborts): keep them, so that "numa(memorysidecachesize=..)" gives a well-formed topology */
  hwloc_topology_set_type_filter(topo, HWLOC_OBJ_MEMCACHE, HWLOC_TYPE_FILTER_KEEP_ALL);
  if (kind == 'S') err = hwloc_topology_set_synthetic(topo, arg);
  else { hwloc_topology_set_io_types_filter(topo, HWLOC_TYPE_FILTER_KEEP_ALL); err = hwloc_topology_set_xml(topo, arg); }
  if (err < 0 || hwloc_topology_load(topo) < 0) { hwloc_topology_destroy(topo); topo = NULL; return -1; }
  if (strcmp(rset, "-")) {
    hwloc_bitmap_t s = parse_set(rset);
    if (!s) { unload(); return -1; }
    err = hwloc_topology_restrict(topo, s, rflags);
    hwloc_bitmap_free(s);
    if (err < 0) { unload(); return -1; }
  }
  /* nmisc >= 100 encodes group insertions: nmisc / 100 dont_merge Groups, each with the cpuset of one normal non-root object
   * (this puts the levels below one of them one step deeper than their cousins: a type at several depths) */
  unsigned ngrp = nmisc / 100; nmisc %= 100;
  for (unsigned g = 0; g < ngrp; g++) {
    build_ids();
    unsigned cnt = 0, want;
    for (unsigned i = 1; i < NOBJ; i++) if (OBJ[i]->depth > 0 && OBJ[i]->type != HWLOC_OBJ_PU && OBJ[i]->type != HWLOC_OBJ_GROUP) cnt++;
    if (!cnt) break;
    want = (g * 5 + 2) % cnt;
    hwloc_obj_t target = NULL;
    for (unsigned i = 1, k = 0; i < NOBJ; i++) if (OBJ[i]->depth > 0 && OBJ[i]->type != HWLOC_OBJ_PU && OBJ[i]->type != HWLOC_OBJ_GROUP) { if (k++ == want) { target = OBJ[i]; break; } }
    hwloc_obj_t grp = hwloc_topology_alloc_group_object(topo);
    if (!grp || !target) break;
    grp->cpuset = hwloc_bitmap_dup(target->cpuset);
    grp->attr->group.dont_merge = 1;
    hwloc_topology_insert_group_object(topo, grp);
  }
  if (nmisc) {
    build_ids();
    /* parents chosen deterministically from the ids before insertion */
    unsigned n0 = NOBJ;
    hwloc_obj_t *parents = malloc(nmisc * sizeof(*parents));
    for (unsigned i = 0; i < nmisc; i++) parents[i] = OBJ[(i * 7 + 3) % n0];
    for (unsigned i = 0; i < nmisc; i++) { char name[32]; snprintf(name, sizeof name, "Misc%u", i); hwloc_topology_insert_misc_object(topo, parents[i], name); }
    free(parents);
  }
  build_ids();
  if (NOBJ > 420) { unload(); return -1; }
  return 0;
}

/* ------------------------------------------------------------------ query execution */
static int has_cpuset(hwloc_obj_t o) { return o->cpuset != NULL; }
/* levels on which the cpuset iterators are defined: normal levels, NUMA, MemCache; or any depth without objects */
static int depth_safe(int depth) {
  int td = hwloc_topology_get_depth(topo);
  if (depth >= 0 && depth < td) return 1;
  if (depth == HWLOC_TYPE_DEPTH_NUMANODE || depth == HWLOC_TYPE_DEPTH_MEMCACHE) return 1;
  return hwloc_get_nbobjs_by_depth(topo, depth) == 0;
}
static int type_safe(int type) {
  int depth = hwloc_get_type_depth(topo, (hwloc_obj_type_t) type);
  if (depth == HWLOC_TYPE_DEPTH_UNKNOWN || depth == HWLOC_TYPE_DEPTH_MULTIPLE) return 1;
  return depth_safe(depth);
}
#define MAXTOK 80
static char ans[1 << 16];
static size_t ansoff;
static void aprintf(const char *fmt, ...) {
  va_list ap; va_start(ap, fmt);
  if (ansoff < sizeof ans) ansoff += vsnprintf(ans + ansoff, sizeof ans - ansoff, fmt, ap);
  va_end(ap);
}
static hwloc_obj_t objarg(const char *s, int *bad) {
  char *e; long v = strtol(s, &e, 10);
  if (*e || v < 0 || (unsigned long) v >= NOBJ) { *bad = 1; return NULL; }
  return OBJ[v];
}
static hwloc_obj_t ptrarg(const char *s, int *bad) { if (!strcmp(s, "-1")) return NULL; return objarg(s, bad); }

/* executes one query line (already tokenised); writes the answer into ans[] */
static void handle_query(int nt, char **t) {
  int bad = 0;
  hwloc_bitmap_t S = NULL;
  char buf[4096];
  ansoff = 0; ans[0] = 0;
  const char *op = t[0];
#define NEED(n) if (nt != (n)) { aprintf("bad-op"); return; }
#define SETARG(i) S = parse_set(t[i]); if (!S) { aprintf("bad-op"); return; }
#define CHECK() if (bad) { aprintf("bad-op"); hwloc_bitmap_free(S); return; }
#define UNSAFE() { aprintf("unsafe"); hwloc_bitmap_free(S); return; }
  if (!topo) { aprintf("no-topology"); return; }
  if (!strcmp(op, "COV")) { NEED(2); SETARG(1); aprintf("%d", idof(hwloc_get_obj_covering_cpuset(topo, S))); }
  else if (!strcmp(op, "CHC")) { NEED(3); SETARG(1); hwloc_obj_t p = objarg(t[2], &bad); CHECK(); aprintf("%d", idof(hwloc_get_child_covering_cpuset(topo, S, p))); }
  else if (!strcmp(op, "FLG")) { NEED(2); SETARG(1); aprintf("%d", idof(hwloc_get_first_largest_obj_inside_cpuset(topo, S))); }
  else if (!strcmp(op, "LRG")) {
    NEED(3); SETARG(1); int max = atoi(t[2]);
    int cap = max > 0 ? max : 1;
    hwloc_obj_t *objs = malloc(cap * sizeof(*objs));
    int r = hwloc_get_largest_objs_inside_cpuset(topo, S, objs, max);
    aprintf("%d", r);
    for (int i = 0; i < r; i++) aprintf(" %d", idof(objs[i]));
    free(objs);
  }
  else if (!strcmp(op, "NXI") || !strcmp(op, "NXC")) {
    NEED(4); SETARG(1); int depth = atoi(t[2]); hwloc_obj_t prev = ptrarg(t[3], &bad); CHECK();
    if (!depth_safe(depth)) UNSAFE();
    aprintf("%d", idof(op[2] == 'I' ? hwloc_get_next_obj_inside_cpuset_by_depth(topo, S, depth, prev)
                                    : hwloc_get_next_obj_covering_cpuset_by_depth(topo, S, depth, prev)));
  }
  else if (!strcmp(op, "NXT") || !strcmp(op, "NCT")) {
    NEED(4); SETARG(1); int type = atoi(t[2]); hwloc_obj_t prev = ptrarg(t[3], &bad); CHECK();
    if (!type_safe(type)) UNSAFE();
    aprintf("%d", idof(op[1] == 'X' ? hwloc_get_next_obj_inside_cpuset_by_type(topo, S, (hwloc_obj_type_t) type, prev)
                                    : hwloc_get_next_obj_covering_cpuset_by_type(topo, S, (hwloc_obj_type_t) type, prev)));
  }
  else if (!strcmp(op, "OIN")) { NEED(4); SETARG(1); int depth = atoi(t[2]); if (!depth_safe(depth)) UNSAFE();
    aprintf("%d", idof(hwloc_get_obj_inside_cpuset_by_depth(topo, S, depth, (unsigned) strtoul(t[3], NULL, 10)))); }
  else if (!strcmp(op, "OIT")) { NEED(4); SETARG(1); int type = atoi(t[2]); if (!type_safe(type)) UNSAFE();
    aprintf("%d", idof(hwloc_get_obj_inside_cpuset_by_type(topo, S, (hwloc_obj_type_t) type, (unsigned) strtoul(t[3], NULL, 10)))); }
  else if (!strcmp(op, "NBI")) { NEED(3); SETARG(1); int depth = atoi(t[2]); if (!depth_safe(depth)) UNSAFE();
    aprintf("%u", hwloc_get_nbobjs_inside_cpuset_by_depth(topo, S, depth)); }
  else if (!strcmp(op, "NBT")) { NEED(3); SETARG(1); int type = atoi(t[2]); if (!type_safe(type)) UNSAFE();
    aprintf("%d", hwloc_get_nbobjs_inside_cpuset_by_type(topo, S, (hwloc_obj_type_t) type)); }
  else if (!strcmp(op, "IDX")) { NEED(3); SETARG(1); hwloc_obj_t o = objarg(t[2], &bad); CHECK(); if (!has_cpuset(o)) UNSAFE();
    aprintf("%d", hwloc_get_obj_index_inside_cpuset(topo, S, o)); }
  else if (!strcmp(op, "ABD")) { NEED(3); hwloc_obj_t o = objarg(t[2], &bad); CHECK(); aprintf("%d", idof(hwloc_get_ancestor_obj_by_depth(topo, atoi(t[1]), o))); }
  else if (!strcmp(op, "ABT")) { NEED(3); hwloc_obj_t o = objarg(t[2], &bad); CHECK(); aprintf("%d", idof(hwloc_get_ancestor_obj_by_type(topo, (hwloc_obj_type_t) atoi(t[1]), o))); }
  else if (!strcmp(op, "CA")) {
    NEED(3); hwloc_obj_t a = objarg(t[1], &bad), b = objarg(t[2], &bad); CHECK();
    aprintf("%d", idof(hwloc_get_common_ancestor_obj(topo, a, b)));
  }
  else if (!strcmp(op, "SUB")) { NEED(3); hwloc_obj_t a = objarg(t[1], &bad), b = objarg(t[2], &bad); CHECK(); aprintf("%d", hwloc_obj_is_in_subtree(topo, a, b) ? 1 : 0); }
  else if (!strcmp(op, "CLO")) {
    NEED(3); hwloc_obj_t o = objarg(t[1], &bad); CHECK(); unsigned max = (unsigned) strtoul(t[2], NULL, 10);
    hwloc_obj_t *objs = malloc((max + 1) * sizeof(*objs));
    unsigned r = hwloc_get_closest_objs(topo, o, objs, max);
    aprintf("%u", r);
    for (unsigned i = 0; i < r; i++) aprintf(" %d", idof(objs[i]));
    free(objs);
  }
  else if (!strcmp(op, "C2N")) { NEED(2); SETARG(1); hwloc_bitmap_t n = hwloc_bitmap_alloc(); hwloc_bitmap_fill(n); hwloc_cpuset_to_nodeset(topo, S, n); sput_set(buf, sizeof buf, n); aprintf("%s", buf); hwloc_bitmap_free(n); }
  else if (!strcmp(op, "N2C")) { NEED(2); SETARG(1); hwloc_bitmap_t c = hwloc_bitmap_alloc(); hwloc_bitmap_fill(c); hwloc_cpuset_from_nodeset(topo, c, S); sput_set(buf, sizeof buf, c); aprintf("%s", buf); hwloc_bitmap_free(c); }
  else if (!strcmp(op, "LOC")) {
    NEED(6); hwloc_obj_t o = objarg(t[1], &bad); CHECK();
    int n1, n2; char *st = unhex(t[3], &n1), *pre = unhex(t[4], &n2);
    errno = 0;
    hwloc_obj_t r = hwloc_get_obj_with_same_locality(topo, o, (hwloc_obj_type_t) atoi(t[2]), st, pre, strtoul(t[5], NULL, 10));
    if (r) aprintf("%d", idof(r)); else aprintf("%s", errno == EINVAL ? "EINVAL" : errno == ENOENT ? "ENOENT" : "fail");
    free(st); free(pre);
  }
  else if (!strcmp(op, "SPC")) { NEED(3); SETARG(1); hwloc_bitmap_singlify_per_core(topo, S, (unsigned) strtoul(t[2], NULL, 10)); sput_set(buf, sizeof buf, S); aprintf("%s", buf); }
  else if (!strcmp(op, "CTD")) { NEED(3); aprintf("%d", hwloc_get_cache_type_depth(topo, (unsigned) atoi(t[1]), (hwloc_obj_cache_type_t) atoi(t[2]))); }
  else if (!strcmp(op, "CCV")) { NEED(2); SETARG(1); aprintf("%d", idof(hwloc_get_cache_covering_cpuset(topo, S))); }
  else if (!strcmp(op, "SCC")) { NEED(2); hwloc_obj_t o = objarg(t[1], &bad); CHECK(); aprintf("%d", idof(hwloc_get_shared_cache_covering_obj(topo, o))); }
  else if (!strcmp(op, "TYD")) { NEED(2); aprintf("%d", hwloc_get_type_depth(topo, (hwloc_obj_type_t) atoi(t[1]))); }
  else if (!strcmp(op, "TDA")) { NEED(3);   /* TDA <type> <group depth attribute>: hwloc_get_type_depth_with_attr */
    union hwloc_obj_attr_u a; memset(&a, 0, sizeof a); a.group.depth = (unsigned) strtoul(t[2], NULL, 10);
    aprintf("%d", hwloc_get_type_depth_with_attr(topo, (hwloc_obj_type_t) atoi(t[1]), &a, sizeof a)); }
  else if (!strcmp(op, "DT")) { NEED(2); aprintf("%d", (int) hwloc_get_depth_type(topo, atoi(t[1]))); }
  else if (!strcmp(op, "NOT")) { NEED(2); aprintf("%d", hwloc_get_nbobjs_by_type(topo, (hwloc_obj_type_t) atoi(t[1]))); }
  else if (!strcmp(op, "OBT")) { NEED(3); aprintf("%d", idof(hwloc_get_obj_by_type(topo, (hwloc_obj_type_t) atoi(t[1]), (unsigned) strtoul(t[2], NULL, 10)))); }
  else if (!strcmp(op, "OBD")) { NEED(3); aprintf("%d", idof(hwloc_get_obj_by_depth(topo, atoi(t[1]), (unsigned) strtoul(t[2], NULL, 10)))); }
  else if (!strcmp(op, "NBD")) { NEED(3); hwloc_obj_t p = ptrarg(t[2], &bad); CHECK(); aprintf("%d", idof(hwloc_get_next_obj_by_depth(topo, atoi(t[1]), p))); }
  else if (!strcmp(op, "NBY")) { NEED(3); hwloc_obj_t p = ptrarg(t[2], &bad); CHECK(); aprintf("%d", idof(hwloc_get_next_obj_by_type(topo, (hwloc_obj_type_t) atoi(t[1]), p))); }
  else if (!strcmp(op, "PUO")) { NEED(2); aprintf("%d", idof(hwloc_get_pu_obj_by_os_index(topo, (unsigned) atoi(t[1])))); }
  else if (!strcmp(op, "NNO")) { NEED(2); aprintf("%d", idof(hwloc_get_numanode_obj_by_os_index(topo, (unsigned) atoi(t[1])))); }
  else if (!strcmp(op, "DIS")) {
    if (nt < 5) { aprintf("bad-op"); return; }
    unsigned n = (unsigned) strtoul(t[1], NULL, 10); int until = atoi(t[2]); unsigned long flags = strtoul(t[3], NULL, 10);
    unsigned nr = (unsigned) strtoul(t[4], NULL, 10);
    if ((unsigned) nt != 5 + nr) { aprintf("bad-op"); return; }
    hwloc_obj_t *roots = malloc((nr + 1) * sizeof(*roots));
    for (unsigned i = 0; i < nr; i++) { roots[i] = objarg(t[5 + i], &bad); if (!bad && !has_cpuset(roots[i])) { free(roots); UNSAFE(); } }
    if (bad) { free(roots); aprintf("bad-op"); return; }
    hwloc_bitmap_t *sets = calloc(n + 2, sizeof(*sets));
    int r = hwloc_distrib(topo, roots, nr, sets, n, until, flags);
    aprintf("%d", r);
    if (r == 0) {
      unsigned filled = 0;
      while (filled < n && sets[filled]) filled++;
      for (unsigned i = 0; i < filled; i++) { sput_set(buf, sizeof buf, sets[i]); aprintf(" %s", buf); }
      for (unsigned i = filled; i < n + 2; i++) if (sets[i]) aprintf(" STRAY@%u", i);
    }
    for (unsigned i = 0; i < n + 2; i++) if (sets[i]) hwloc_bitmap_free(sets[i]);
    free(sets); free(roots);
  }
  else aprintf("bad-op");
  hwloc_bitmap_free(S);
}

/* ------------------------------------------------------------------ line plumbing */
static void out_c(const char *s) { fputs(s, fc); fputc('\n', fc); fflush(fc); }

static void do_load_line(const char *line) {
  /* LOAD kind rflags rset nmisc arg... */
  char kind, rset[1024]; unsigned long rflags; unsigned nmisc; int pos = 0;
  if (sscanf(line, "LOAD %c %lu %1023s %u %n", &kind, &rflags, rset, &nmisc, &pos) < 4 || !pos) { fprintf(fmin, "%s\n", line); out_c("bad-load"); return; }
  fprintf(fmin, "%s\n", line); fflush(fmin);
  if (load_topology(kind, rflags, rset, nmisc, line + pos) < 0) { out_c("LOADFAIL"); return; }
  out_c(".");
  unsigned lines = dump_topology(fmin, topo, "t");
  fflush(fmin);
  for (unsigned i = 0; i + 1 < lines; i++) out_c(".");
  out_c("T ok");
  hwloc_topology_check(topo);
}

static void do_query_line(const char *line) {
  char copy[1 << 15]; char *t[MAXTOK]; int nt = 0;
  fprintf(fmin, "%s\n", line); fflush(fmin);
  snprintf(copy, sizeof copy, "%s", line);
  for (char *p = strtok(copy, " "); p && nt < MAXTOK; p = strtok(NULL, " ")) t[nt++] = p;
  if (!nt) { out_c("bad-op"); return; }
  handle_query(nt, t);
  out_c(ans);
  nops_done++;
}

static void q(const char *fmt, ...) {
  char line[1 << 15];
  va_list ap; va_start(ap, fmt); vsnprintf(line, sizeof line, fmt, ap); va_end(ap);
  fprintf(fops, "%s\n", line); fflush(fops);
  char name[8]; sscanf(line, "%7s", name); stat_hit(name);
  do_query_line(line);
}

/* ------------------------------------------------------------------ generators */
static int app(char *s, int off, int cap, const char *fmt, ...) {
  va_list ap; va_start(ap, fmt); int n = vsnprintf(s + off, cap - off, fmt, ap); va_end(ap); return off + n;
}
static void gen_synthetic(char *s, int cap, unsigned maxpu) {
  int off = 0;
  unsigned budget = maxpu;
#define CNT() ({ unsigned c = 1 + rng_below(rng_chance(60) ? 2 : 4); if (c > budget) c = 1; budget /= c; c; })
  static const char *fixed[] = {"pack:2 [numa] core:2 [numa] pu:2", "pack:2 [numa] l3:2 [numa] core:2 pu:2",
    "group:2 pack:2 [numa] [numa] core:2 pu:1", "numa:2 pack:1 l2:2 l1:1 core:1 pu:2", "pack:3 numa:1 core:2 pu:2",
    "pack:2 [numa(memory=1GB)] die:2 l3:1 l2:2 l1i:1 l1:1 core:1 pu:2", "core:4 pu:1", "pu:5", "numa:3 core:1 pu:3",
    "pack:2 [numa(memorysidecachesize=1GB)] core:2 pu:2", "numa:2(memorysidecachesize=256MB) core:2 pu:1", "group:2 group:2 [numa] core:2 pu:1"};
  if (rng_chance(22)) { snprintf(s, cap, "%s", fixed[rng_below(sizeof fixed / sizeof *fixed)]); return; }
  if (rng_chance(8)) { int n = 1 + rng_below(4); for (int i = 0; i < n; i++) off = app(s, off, cap, "%u ", CNT()); s[off - 1] = 0; return; }
  int numa_mode = rng_below(4);
  if (rng_chance(25)) off = app(s, off, cap, "group:%u ", CNT());
  if (rng_chance(70)) { off = app(s, off, cap, "pack:%u ", CNT()); if (numa_mode >= 2 && rng_chance(50)) { off = app(s, off, cap, "[numa] "); if (numa_mode == 2) numa_mode = 0; } }
  if (rng_chance(20)) off = app(s, off, cap, "die:%u ", CNT());
  if (numa_mode == 1) off = app(s, off, cap, "numa:%u ", CNT());
  if (rng_chance(15)) off = app(s, off, cap, "group:%u ", CNT());
  if (rng_chance(40)) { off = app(s, off, cap, "l3:%u ", CNT()); if (numa_mode >= 2) { off = app(s, off, cap, "[numa] "); numa_mode = 0; } }
  if (rng_chance(40)) off = app(s, off, cap, "l2:%u ", CNT());
  if (rng_chance(20)) off = app(s, off, cap, "l1i:%u ", 1u);
  if (rng_chance(30)) off = app(s, off, cap, "l1:%u ", 1u);
  if (rng_chance(80)) off = app(s, off, cap, "core:%u ", CNT());
  off = app(s, off, cap, "pu:%u", CNT());
  if (rng_chance(10)) off = app(s, off, cap, "(indexes=core:pu)");
}

/* restrict set: computed on a scratch load of the same synthetic string */
static void gen_restrict_set(const char *syn, unsigned long rflags, char *out, size_t cap) {
  hwloc_topology_t t;
  snprintf(out, cap, "-");
  if (hwloc_topology_init(&t) < 0) return;
  if (hwloc_topology_set_synthetic(t, syn) < 0 || hwloc_topology_load(t) < 0) { hwloc_topology_destroy(t); return; }
  hwloc_bitmap_t s = hwloc_bitmap_alloc();
  if (rflags & HWLOC_RESTRICT_FLAG_BYNODESET) {
    hwloc_const_bitmap_t all = hwloc_topology_get_topology_nodeset(t);
    int i; hwloc_bitmap_foreach_begin(i, all) if (rng_chance(60)) hwloc_bitmap_set(s, i); hwloc_bitmap_foreach_end();
    if (hwloc_bitmap_iszero(s)) hwloc_bitmap_set(s, hwloc_bitmap_first(all));
  } else {
    hwloc_const_bitmap_t all = hwloc_topology_get_topology_cpuset(t);
    unsigned mode = rng_below(3);
    if (mode == 0) { int i; hwloc_bitmap_foreach_begin(i, all) if (rng_chance(65)) hwloc_bitmap_set(s, i); hwloc_bitmap_foreach_end(); }
    else if (mode == 1) { /* drop whole objects */
      hwloc_bitmap_copy(s, all);
      for (int k = 0; k < 2; k++) {
        int d = rng_below(hwloc_topology_get_depth(t));
        hwloc_obj_t o = hwloc_get_obj_by_depth(t, d, rng_below(hwloc_get_nbobjs_by_depth(t, d)));
        if (o && !hwloc_bitmap_isequal(o->cpuset, all)) hwloc_bitmap_andnot(s, s, o->cpuset);
      }
    } else { /* keep a prefix / suffix range */
      int n = hwloc_bitmap_weight(all); int a = rng_below(n), b = rng_below(n); if (a > b) { int x = a; a = b; b = x; }
      int i, k = 0; hwloc_bitmap_foreach_begin(i, all) { if (k >= a && k <= b) hwloc_bitmap_set(s, i); k++; } hwloc_bitmap_foreach_end();
    }
    if (hwloc_bitmap_iszero(s)) hwloc_bitmap_set(s, hwloc_bitmap_first(all));
  }
  sput_set(out, cap, s);
  hwloc_bitmap_free(s);
  hwloc_topology_destroy(t);
}

/* pool of query sets (hex strings) */
#define MAXSETS 40
static char sets[MAXSETS][600]; static unsigned nsets;
static void add_set(hwloc_const_bitmap_t s) { if (nsets < MAXSETS && hwloc_bitmap_weight(s) >= 0) sput_set(sets[nsets++], sizeof sets[0], s); }

static hwloc_obj_t rand_obj(void) { return OBJ[rng_below(NOBJ)]; }
static hwloc_obj_t rand_set_obj(void) { for (int k = 0; k < 50; k++) { hwloc_obj_t o = rand_obj(); if (o->cpuset) return o; } return OBJ[0]; }
static hwloc_obj_t rand_normal_obj(void) { for (int k = 0; k < 50; k++) { hwloc_obj_t o = rand_obj(); if (o->depth >= 0) return o; } return OBJ[0]; }

static void random_subset(hwloc_bitmap_t dst, hwloc_const_bitmap_t src, unsigned pct) {
  int i; hwloc_bitmap_zero(dst);
  hwloc_bitmap_foreach_begin(i, src) if (rng_chance(pct)) hwloc_bitmap_set(dst, i); hwloc_bitmap_foreach_end();
}

static void build_set_pool(void) {
  hwloc_obj_t root = hwloc_get_root_obj(topo);
  hwloc_bitmap_t b = hwloc_bitmap_alloc(), c = hwloc_bitmap_alloc();
  nsets = 0;
  add_set(root->cpuset);
  hwloc_bitmap_zero(b); add_set(b);
  add_set(root->complete_cpuset);
  /* superset of the root / not included in the root */
  hwloc_bitmap_copy(b, root->complete_cpuset); hwloc_bitmap_set(b, hwloc_bitmap_last(root->complete_cpuset) + 1 + rng_below(70)); add_set(b);
  random_subset(b, root->cpuset, 50); hwloc_bitmap_set(b, hwloc_bitmap_last(root->complete_cpuset) + 1); add_set(b);
  hwloc_bitmap_only(b, hwloc_bitmap_last(root->complete_cpuset) + 3); add_set(b);
  /* cpusets of objects, unions of siblings, straddling sets */
  for (int k = 0; k < 10; k++) { hwloc_obj_t o = rand_set_obj(); add_set(o->cpuset); }
  for (int k = 0; k < 8; k++) {
    hwloc_obj_t o = rand_normal_obj();
    if (o->next_sibling && o->depth >= 0) {
      hwloc_bitmap_or(b, o->cpuset, o->next_sibling->cpuset); if (rng_chance(50)) add_set(b);
      random_subset(b, o->cpuset, 60); random_subset(c, o->next_sibling->cpuset, 60); hwloc_bitmap_or(b, b, c); add_set(b);
      if (o->next_cousin) { hwloc_bitmap_or(b, o->cpuset, o->next_cousin->cpuset); add_set(b); }
    }
  }
  for (int k = 0; k < 6; k++) { random_subset(b, root->cpuset, 20 + rng_below(70)); add_set(b); }
  for (int k = 0; k < 3; k++) { int n = hwloc_get_nbobjs_by_type(topo, HWLOC_OBJ_PU); hwloc_obj_t pu = hwloc_get_obj_by_type(topo, HWLOC_OBJ_PU, rng_below(n)); if (pu) add_set(pu->cpuset); }
  /* disallowed / removed PUs: complete minus topology */
  hwloc_bitmap_andnot(b, root->complete_cpuset, root->cpuset); if (!hwloc_bitmap_iszero(b)) { add_set(b); hwloc_bitmap_or(b, b, OBJ[NOBJ > 1 ? 1 : 0]->cpuset ? OBJ[NOBJ > 1 ? 1 : 0]->cpuset : root->cpuset); add_set(b); }
  hwloc_bitmap_free(b); hwloc_bitmap_free(c);
}

static int pick_depth(void) {
  int td = hwloc_topology_get_depth(topo);
  unsigned r = rng_below(100);
  if (r < 60) return rng_below(td);
  if (r < 78) return HWLOC_TYPE_DEPTH_NUMANODE;
  if (r < 84) return HWLOC_TYPE_DEPTH_MEMCACHE;
  if (r < 90) return td + rng_below(3);
  static const int odd[] = {-1, -2, -9, -10, 1000, -4, -5, -6, -7};
  return odd[rng_below(9)];
}
static int pick_type(void) {
  unsigned r = rng_below(100);
  if (r < 80) return rng_below(HWLOC_OBJ_TYPE_MAX);
  if (r < 90) return rng_chance(50) ? HWLOC_OBJ_PU : HWLOC_OBJ_CORE;
  static const int odd[] = {-1, 20, 21, 100, -5};
  return odd[rng_below(5)];
}

static void strvariant(char *out, size_t cap, const char *s) {
  /* NULL, the string itself, case-flipped, a prefix, prefix+junk, empty */
  unsigned r = rng_below(100);
  char tmp[256];
  if (!s || r < 25) { if (r < 20 || !s) { snprintf(out, cap, r % 5 == 0 ? "7a7a" : "-"); return; } }
  snprintf(tmp, sizeof tmp, "%s", s);
  size_t n = strlen(tmp);
  if (r < 45) {}
  else if (r < 65) { for (size_t i = 0; i < n; i++) tmp[i] = (tmp[i] >= 'a' && tmp[i] <= 'z') ? tmp[i] - 32 : (tmp[i] >= 'A' && tmp[i] <= 'Z') ? tmp[i] + 32 : tmp[i]; }
  else if (r < 80) { tmp[n ? rng_below(n) : 0] = 0; }
  else if (r < 90) { if (n + 2 < sizeof tmp) { tmp[n] = 'x'; tmp[n + 1] = 0; } }
  else if (r < 95) { tmp[0] = 0; }
  else { if (n) tmp[n - 1] ^= 1; }
  shex(out, cap, tmp);
}

/* generate and run the queries for the loaded topology; `budget` = approximate number of queries */
static void gen_queries(unsigned budget) {
  int td = hwloc_topology_get_depth(topo);
  unsigned npu = hwloc_get_nbobjs_by_type(topo, HWLOC_OBJ_PU);
  unsigned long sec_start = nops_done, sec_budget = budget;
  char b1[600], b2[600];
  build_set_pool();
#define SECTION(pct) { sec_start = nops_done; sec_budget = (unsigned long) budget * (pct) / 100; }
#define LEFT() (nops_done - sec_start < sec_budget)
  /* type / depth lookups: cheap, always */
  for (int ty = -1; ty <= HWLOC_OBJ_TYPE_MAX; ty++) { q("TYD %d", ty); if (rng_chance(30)) q("NOT %d", ty); if (rng_chance(30)) q("OBT %d %u", ty, rng_below(3)); if (rng_chance(20)) q("NBY %d %d", ty, rng_chance(50) ? -1 : idof(rand_obj())); }
  /* the lookup by type AND attribute: every Group depth attribute present in the topology (after a restrict they need not be 0..n-1 any
   * more: restrict does not renumber them), a few absent ones, the "no attribute" value; the other types ignore the attribute (C09-r8) */
  { unsigned seen[8], ns = 0;
    for (int dp = 0; dp < td; dp++) { hwloc_obj_t o = hwloc_get_obj_by_depth(topo, dp, 0); if (o && o->type == HWLOC_OBJ_GROUP && ns < 8) seen[ns++] = o->attr->group.depth; }
    for (unsigned i = 0; i < ns; i++) q("TDA %d %u", (int) HWLOC_OBJ_GROUP, seen[i]);
    for (unsigned g = 0; g < 5; g++) if (rng_chance(ns ? 60 : 10)) q("TDA %d %u", (int) HWLOC_OBJ_GROUP, g);
    q("TDA %d 4294967295", (int) HWLOC_OBJ_GROUP);
    if (rng_chance(30)) q("TDA %d %u", (int) rng_below(HWLOC_OBJ_TYPE_MAX), rng_below(3));
    if (ns >= 2) stat_hit("tda-multi-group-levels"); }
  for (int dp = -10; dp <= td + 1; dp++) { q("DT %d", dp); if (rng_chance(40)) q("OBD %d %u", dp, rng_below(4)); if (rng_chance(40)) q("NBD %d %d", dp, rng_chance(40) ? -1 : idof(rand_obj())); }
  for (unsigned lv = 0; lv <= 6; lv++) for (int ct = -1; ct <= 3; ct++) if (rng_chance(35)) q("CTD %u %d", lv, ct);
  for (int k = 0; k < 4; k++) { q("PUO %u", rng_below(npu + 3)); q("NNO %u", rng_below(6)); }
  /* per query set */
  SECTION(40);
  unsigned order[MAXSETS];
  for (unsigned i = 0; i < nsets; i++) order[i] = i;
  for (unsigned i = nsets; i > 1; i--) { unsigned j = rng_below(i); unsigned x = order[i - 1]; order[i - 1] = order[j]; order[j] = x; }
  for (unsigned si = 0; si < nsets && LEFT(); si++) {
    const char *S = sets[order[si]];
    q("COV %s", S); q("FLG %s", S); q("CCV %s", S); q("C2N %s", S);
    q("LRG %s %u", S, NOBJ + 2);
    static const int maxes[] = {1, 2, 3, 0, -1, 5};
    q("LRG %s %d", S, maxes[rng_below(6)]);
    q("SPC %s %u", S, rng_below(3)); if (rng_chance(30)) q("SPC %s %u", S, rng_below(6));
    for (int k = 0; k < 2; k++) q("CHC %s %d", S, idof(rand_obj()));
    for (int k = 0; k < 3; k++) q("IDX %s %d", S, idof(rand_set_obj()));
    for (int k = 0; k < 3 && LEFT(); k++) {
      int dp = pick_depth();
      if (!depth_safe(dp)) continue;
      q("NBI %s %d", S, dp);
      unsigned cnt = hwloc_get_nbobjs_by_depth(topo, dp);
      for (unsigned ix = 0; ix <= cnt && ix < 6; ix++) q("OIN %s %d %u", S, dp, ix);
      /* follow the two iterators to the end */
      for (int which = 0; which < 2; which++) {
        int prev = -1;
        for (unsigned step = 0; step < cnt + 2; step++) {
          q("%s %s %d %d", which ? "NXC" : "NXI", S, dp, prev);
          prev = atoi(ans);
          if (prev < 0) break;
        }
      }
      q("NXI %s %d %d", S, dp, idof(rand_obj())); q("NXC %s %d %d", S, dp, idof(rand_obj()));
    }
    for (int k = 0; k < 2; k++) {
      int ty = pick_type();
      if (!type_safe(ty)) continue;
      q("NBT %s %d", S, ty); q("OIT %s %d %u", S, ty, rng_below(3));
      q("NXT %s %d %d", S, ty, -1); q("NCT %s %d %d", S, ty, -1);
      q("NXT %s %d %d", S, ty, idof(rand_obj())); q("NCT %s %d %d", S, ty, idof(rand_obj()));
    }
  }
  /* nodesets */
  {
    hwloc_obj_t root = hwloc_get_root_obj(topo);
    hwloc_bitmap_t b = hwloc_bitmap_alloc();
    sput_set(b1, sizeof b1, root->nodeset); q("N2C %s", b1);
    sput_set(b1, sizeof b1, root->complete_nodeset); q("N2C %s", b1);
    q("N2C 0");
    for (int k = 0; k < 6; k++) { random_subset(b, root->complete_nodeset, 50); if (rng_chance(30)) hwloc_bitmap_set(b, hwloc_bitmap_last(root->complete_nodeset) + 1 + rng_below(3)); sput_set(b1, sizeof b1, b); q("N2C %s", b1); }
    hwloc_bitmap_free(b);
  }
  /* unary, per object */
  SECTION(20);
  for (unsigned i = 0; i < NOBJ && LEFT(); i++) {
    hwloc_obj_t o = NOBJ <= 64 ? OBJ[i] : rand_obj();
    int id = idof(o);
    if (NOBJ > 64 && i >= 64) break;
    q("ABD %d %d", o->depth, id); q("ABD %d %d", pick_depth(), id); q("ABD %d %d", (int) rng_below(td + 1), id);
    q("ABT %d %d", pick_type(), id); q("ABT %d %d", (int) HWLOC_OBJ_MACHINE, id); if (o->parent) q("ABT %d %d", (int) o->parent->type, id);
    q("SCC %d", id);
    {
      static const unsigned mx[] = {0, 1, 2, 3, 7, 1000};
      q("CLO %d %u", id, mx[rng_below(6)]); if (rng_chance(50)) q("CLO %d %u", id, NOBJ);
    }
    for (int k = 0; k < 3; k++) {
      hwloc_obj_t other = rng_chance(60) ? rand_obj() : o;
      int ty = rng_chance(60) ? (int) other->type : pick_type();
      strvariant(b1, sizeof b1, other->subtype); strvariant(b2, sizeof b2, other->name);
      if (rng_chance(55)) snprintf(b1, sizeof b1, "-");
      if (rng_chance(55)) snprintf(b2, sizeof b2, "-");
      q("LOC %d %d %s %s %u", id, ty, b1, b2, rng_chance(6) ? 1 + rng_below(3) : 0);
    }
  }
  /* closest objects of memory sources (NUMA nodes, memory-side caches) */
  for (int md = 0; md < 2; md++) {
    int dp = md ? HWLOC_TYPE_DEPTH_MEMCACHE : HWLOC_TYPE_DEPTH_NUMANODE;
    unsigned cnt = hwloc_get_nbobjs_by_depth(topo, dp);
    for (unsigned i = 0; i < cnt && i < 8; i++) { int id = idof(hwloc_get_obj_by_depth(topo, dp, i)); q("CLO %d %u", id, NOBJ); q("CLO %d %u", id, 1 + rng_below(3)); stat_hit("CLO-memory-src"); }
  }
  /* pairs */
  SECTION(15);
  {
    unsigned npairs = NOBJ <= 64 ? NOBJ * NOBJ : 700;
    for (unsigned k = 0; k < npairs && LEFT(); k++) {
      hwloc_obj_t a, b;
      if (NOBJ <= 64) { a = OBJ[k / NOBJ]; b = OBJ[k % NOBJ]; if (NOBJ > 24 && !rng_chance(35)) continue; }
      else { a = rng_chance(50) ? rand_normal_obj() : rand_obj(); b = rng_chance(50) ? rand_normal_obj() : rand_obj(); }
      q("CA %d %d", idof(a), idof(b));
      stat_hit(a->depth >= 0 && b->depth >= 0 ? "CA-normal-normal" : (a->depth < 0 && b->depth < 0) ? "CA-special-special" : "CA-mixed");
      if (rng_chance(40)) q("SUB %d %d", idof(a), idof(b));
    }
  }
  /* distrib */
  SECTION(25);
  {
    hwloc_obj_t root = hwloc_get_root_obj(topo);
    unsigned maxn = 2 * npu + 1;
    for (unsigned variant = 0; variant < 6 && LEFT(); variant++) {
      char roots[2048]; int off = 0; unsigned nr = 0;
      if (variant == 0) { nr = 1; off = app(roots, off, sizeof roots, " %d", idof(root)); }
      else if (variant == 1) { for (unsigned i = 0; i < root->arity && nr < 60; i++, nr++) off = app(roots, off, sizeof roots, " %d", idof(root->children[i])); }
      else if (variant == 2) { hwloc_obj_t o = rand_normal_obj(); for (unsigned i = 0; i < o->arity && nr < 60; i++, nr++) off = app(roots, off, sizeof roots, " %d", idof(o->children[i])); }
      else if (variant == 3) { int dp = rng_below(td); unsigned cnt = hwloc_get_nbobjs_by_depth(topo, dp); for (unsigned i = 0; i < cnt && nr < 60; i++) if (rng_chance(70)) { off = app(roots, off, sizeof roots, " %d", idof(hwloc_get_obj_by_depth(topo, dp, i))); nr++; } }
      else if (variant == 4) { unsigned cnt = hwloc_get_nbobjs_by_depth(topo, HWLOC_TYPE_DEPTH_NUMANODE); for (unsigned i = 0; i < cnt && nr < 60; i++, nr++) off = app(roots, off, sizeof roots, " %d", idof(hwloc_get_obj_by_depth(topo, HWLOC_TYPE_DEPTH_NUMANODE, i))); }
      else { nr = 1 + rng_below(3); for (unsigned i = 0; i < nr; i++) off = app(roots, off, sizeof roots, " %d", idof(rand_set_obj())); }
      if (!nr) { roots[0] = 0; }
      for (unsigned n = 1; n <= maxn && LEFT(); n++) {
        if (maxn > 24 && n > 9 && !rng_chance(25)) continue;
        for (int until = 0; until <= td + 1; until++) {
          if (td > 4 && !rng_chance(60) && until != td + 1) continue;
          int u = until == td + 1 ? INT_MAX : until;
          q("DIS %u %d %u %u%s", n, u, rng_below(2), nr, roots);
          if (rng_chance(25)) q("DIS %u %d %u %u%s", n, u, 1u, nr, roots);
        }
      }
      q("DIS 0 %d 0 %u%s", INT_MAX, nr, roots);
      q("DIS 3 %d %u %u%s", INT_MAX, 2 + rng_below(3), nr, roots);
      q("DIS 2 -1 0 %u%s", nr, roots);
    }
  }
}

static void put_enum(void) {
  char line[256];
  snprintf(line, sizeof line, "ENUM %d %d %d %d %d %d %d %d %d %d %d %d %d %d %d %d %d %d %d %d %d",
          HWLOC_OBJ_MACHINE, HWLOC_OBJ_PACKAGE, HWLOC_OBJ_DIE, HWLOC_OBJ_CORE, HWLOC_OBJ_PU,
          HWLOC_OBJ_L1CACHE, HWLOC_OBJ_L2CACHE, HWLOC_OBJ_L3CACHE, HWLOC_OBJ_L4CACHE, HWLOC_OBJ_L5CACHE,
          HWLOC_OBJ_L1ICACHE, HWLOC_OBJ_L2ICACHE, HWLOC_OBJ_L3ICACHE, HWLOC_OBJ_GROUP, HWLOC_OBJ_NUMANODE,
          HWLOC_OBJ_MEMCACHE, HWLOC_OBJ_BRIDGE, HWLOC_OBJ_PCI_DEVICE, HWLOC_OBJ_OS_DEVICE, HWLOC_OBJ_MISC, HWLOC_OBJ_TYPE_MAX);
  fprintf(fmin, "%s\n", line); out_c("ENUM ok");
}

int main(int argc, char **argv) {
  setenv("HWLOC_HIDE_ERRORS", "2", 1);
  if (argc >= 5 && !strcmp(argv[1], "--replay")) {
    FILE *in = fopen(argv[2], "r"); fc = fopen(argv[3], "w"); fmin = fopen(argv[4], "w");
    if (!in || !fc || !fmin) return 2;
    put_enum();
    static char line[1 << 15];
    while (fgets(line, sizeof line, in)) {
      line[strcspn(line, "\n")] = 0;
      if (!line[0] || line[0] == '#') continue;
      if (!strncmp(line, "LOAD ", 5)) do_load_line(line); else do_query_line(line);
    }
    unload(); free(OBJ); free(SORTED); fclose(in); fclose(fc); fclose(fmin);
    return 0;
  }
  if (argc < 6) { fprintf(stderr, "usage: helpers <nops> <ops> <c.out> <stats> <model-in>  |  --replay <ops> <c.out> <model-in>\n"); return 2; }
  unsigned long n = strtoul(argv[1], NULL, 10);
  fops = fopen(argv[2], "w"); fc = fopen(argv[3], "w"); fmin = fopen(argv[5], "w");
  if (!fops || !fc || !fmin) return 2;
  rng_seed(rng_seed_from_env());
  put_enum();
  /* bundled XML files with I/O (optional list in VERIF_HELPERS_XML, one path per line) */
  char **xmls = NULL; unsigned nxml = 0;
  if (getenv("VERIF_HELPERS_XML")) {
    FILE *fx = fopen(getenv("VERIF_HELPERS_XML"), "r");
    char p[1100];
    while (fx && fgets(p, sizeof p, fx)) { p[strcspn(p, "\n")] = 0; if (p[0]) { xmls = realloc(xmls, (nxml + 1) * sizeof(*xmls)); xmls[nxml++] = strdup(p); } }
    if (fx) fclose(fx);
  }
  unsigned ntopo = 0, guard = 0;
  while (nops_done < n && guard++ < 4000) {
    char line[4096], syn[1200], rset[1024];
    unsigned long rflags = 0; unsigned nmisc = 0;
    snprintf(rset, sizeof rset, "-");
    if (nxml && rng_chance(22)) {
      snprintf(line, sizeof line, "LOAD X 0 - %u %s", rng_chance(30) ? 1 + rng_below(3) : 0, xmls[rng_below(nxml)]);
      stat_hit("topo-xml");
    } else {
      gen_synthetic(syn, sizeof syn, rng_chance(70) ? 16 : 64);
      if (rng_chance(7)) {
        /* several Group levels, then a restrict to the first child of the root: the top Group level is merged away and the remaining
         * Group levels keep their depth attributes 1, 2, ... */
        static const char *const gsyn[] = {"group:2 group:2 group:2 core:2 pu:2", "group:2 group:3 group:2 pu:2", "group:2 group:2 group:2 group:2 pu:1", "group:3 group:2 pack:1 group:2 pu:2"};
        snprintf(syn, sizeof syn, "%s", gsyn[rng_below(4)]);
        hwloc_topology_t t0;
        if (hwloc_topology_init(&t0) == 0) {
          if (hwloc_topology_set_synthetic(t0, syn) == 0 && hwloc_topology_load(t0) == 0) {
            hwloc_obj_t c = hwloc_get_obj_by_depth(t0, 1, rng_below(hwloc_get_nbobjs_by_depth(t0, 1)));
            sput_set(rset, sizeof rset, c->cpuset);
          }
          hwloc_topology_destroy(t0);
        }
        rflags = 0;
        stat_hit("topo-multi-group-levels-restricted");
      } else
      if (rng_chance(50)) {
        static const unsigned long fl[] = {0, 0, 1, 8, 8 | 16, 1 | 2, 4, 0};
        rflags = fl[rng_below(8)];
        gen_restrict_set(syn, rflags, rset, sizeof rset);
        stat_hit(rflags & 8 ? "topo-restrict-bynodeset" : rflags & 1 ? "topo-restrict-remove-cpuless" : "topo-restrict-keep-cpuless");
      } else stat_hit("topo-synthetic");
      if (rng_chance(30)) nmisc = 1 + rng_below(4);
      if (rng_chance(18)) { nmisc += 100 * (1 + rng_below(2)); stat_hit("topo-inserted-group"); }
      snprintf(line, sizeof line, "LOAD S %lu %s %u %s", rflags, rset, nmisc, syn);
    }
    /* try the load first: failed loads are not recorded */
    {
      char kind, rs[1024]; unsigned long rf; unsigned nm; int pos = 0;
      sscanf(line, "LOAD %c %lu %1023s %u %n", &kind, &rf, rs, &nm, &pos);
      if (load_topology(kind, rf, rs, nm, line + pos) < 0) { stat_hit("topo-load-failed"); continue; }
    }
    fprintf(fops, "%s\n", line); fflush(fops);
    do_load_line(line);
    if (!topo) continue;
    ntopo++;
    unsigned budget = (unsigned) (n / 6 + 200);
    gen_queries(budget);
  }
  unload();
  for (unsigned i = 0; i < nxml; i++) free(xmls[i]);
  free(xmls); free(OBJ); free(SORTED); OBJ = NULL; SORTED = NULL;
  FILE *fs = fopen(argv[4], "w");
  if (fs) { for (unsigned i = 0; i < nstats; i++) fprintf(fs, "%s %lu\n", stats[i].name, stats[i].n); fprintf(fs, "topologies %u\n", ntopo); fclose(fs); }
  fclose(fops); fclose(fc); fclose(fmin);
  return 0;
}
