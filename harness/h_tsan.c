/* C17 support harness (built with -fsanitize=thread; evidence only, never an obligation).
 *
 * usage: tsan <mode> <threads> <iterations> <scratch-prefix>
 *   readers              one topology per iteration (synthetic / bundled XML + modifications + hwloc_topology_refresh), static
 *                        caches warmed up, then <threads> threads each run every consulting entry of consult.h (rotated start)
 *                        and their per-entry digests are compared with the single-threaded digests taken before
 *   readers-cold         the same without the warm-up of the static environment caches (known finding F15: TSan reports expected)
 *   readers-unrefreshed  the same without hwloc_topology_refresh after the modifications (the hypothesis is necessary:
 *                        TSan reports / digest differences expected)
 *   independent          <threads> threads each run init / load / modify / export / dup / destroy histories on their OWN topologies
 * prints "RESULT mode=.. threads=.. calls=.. digest_mismatches=.." ; TSan reports go to stderr (merged by the runner).
 */
#define _GNU_SOURCE
#include "private/autogen/config.h"
#include "hwloc.h"
#include "rng.h"
#include "consult.h"
#include <pthread.h>
#include <dirent.h>
#include <unistd.h>

static char xmlfiles[64][300]; static unsigned nxml;
static void scan_xml(void) {
  const char *dir = getenv("VERIF_XMLDIR"); DIR *D; struct dirent *e;
  if (!dir || !(D = opendir(dir))) return;
  while ((e = readdir(D)) && nxml < 64) {
    size_t n = strlen(e->d_name);
    if (n > 4 && !strcmp(e->d_name + n - 4, ".xml")) snprintf(xmlfiles[nxml++], 300, "%s/%s", dir, e->d_name);
  }
  closedir(D);
  qsort(xmlfiles, nxml, 300, (int (*)(const void *, const void *)) strcmp);
}
static const char *SYNTH[] = { "pack:2 numa:2 l2:2 core:2 pu:2", "numa:4 core:3 pu:2", "pack:2 [numa] [numa] core:4 pu:2",
                               "group:2 numa:2 core:2 pu:1", "numa:8 pu:2", "pack:2 die:2 numa:1 l3:1 core:3 pu:2" };

/* thread-private xorshift (rng.h's state is global) */
struct prng { uint64_t s; };
static uint64_t pnext(struct prng *p) { p->s ^= p->s << 13; p->s ^= p->s >> 7; p->s ^= p->s << 17; return p->s; }
static unsigned pbelow(struct prng *p, unsigned n) { return n ? (unsigned)(pnext(p) % n) : 0; }

static hwloc_topology_t build(struct prng *p, int want_xml) {
  hwloc_topology_t t;
  hwloc_topology_init(&t);
  hwloc_topology_set_all_types_filter(t, HWLOC_TYPE_FILTER_KEEP_ALL);
  if (want_xml && nxml) hwloc_topology_set_xml(t, xmlfiles[pbelow(p, nxml)]);
  else hwloc_topology_set_synthetic(t, SYNTH[pbelow(p, sizeof SYNTH / sizeof *SYNTH)]);
  if (hwloc_topology_load(t)) { hwloc_topology_destroy(t); return NULL; }
  return t;
}
static void modify(hwloc_topology_t t, struct prng *p) {
  hwloc_obj_t objs[8], o = NULL; unsigned n = 0; hwloc_uint64_t vals[64]; hwloc_memattr_id_t id; char name[40];
  while (n < 8 && (o = hwloc_get_next_obj_by_type(t, HWLOC_OBJ_NUMANODE, o))) objs[n++] = o;
  if (n >= 2) {
    for (unsigned i = 0; i < n * n; i++) vals[i] = 10 + pbelow(p, 40);
    hwloc_distances_add_handle_t h = hwloc_distances_add_create(t, "veriftsan", HWLOC_DISTANCES_KIND_FROM_USER | HWLOC_DISTANCES_KIND_VALUE_LATENCY, 0);
    if (h && !hwloc_distances_add_values(t, h, n, objs, vals, 0)) hwloc_distances_add_commit(t, h, 0);
  }
  sprintf(name, "tsanattr%u", pbelow(p, 1000000));
  if (n && !hwloc_memattr_register(t, name, HWLOC_MEMATTR_FLAG_HIGHER_FIRST, &id))
    for (unsigned i = 0; i < n; i++) hwloc_memattr_set_value(t, id, objs[i], NULL, 0, 100 + i);
  if (n) {
    struct hwloc_location loc; loc.type = HWLOC_LOCATION_TYPE_CPUSET; loc.location.cpuset = objs[0]->cpuset;
    hwloc_memattr_set_value(t, HWLOC_MEMATTR_ID_BANDWIDTH, objs[n - 1], &loc, 0, 777);
  }
  {
    hwloc_bitmap_t s = hwloc_bitmap_dup(hwloc_topology_get_topology_cpuset(t));
    int last = hwloc_bitmap_last(s);
    if (hwloc_bitmap_weight(s) > 2) { hwloc_bitmap_clr(s, last); hwloc_topology_restrict(t, s, pbelow(p, 2) ? HWLOC_RESTRICT_FLAG_REMOVE_CPULESS : 0); }
    hwloc_bitmap_free(s);
  }
  {
    hwloc_bitmap_t s = hwloc_bitmap_alloc(); o = hwloc_get_obj_by_type(t, HWLOC_OBJ_PU, 0);
    if (o) { hwloc_bitmap_copy(s, o->cpuset); hwloc_cpukinds_register(t, s, 1, NULL, 0); }
    hwloc_bitmap_free(s);
  }
}

/* ---------------------------------------------------------------- readers */
#define MAXATTR 12
static hwloc_topology_t SHARED;
static uint64_t REF[NCONSULT][MAXATTR];
static unsigned NATTR;
static unsigned long mismatches, calls;
static pthread_mutex_t mm = PTHREAD_MUTEX_INITIALIZER;
static pthread_barrier_t bar;
static const char *scratch_prefix;

static unsigned entry_index(const char *name) {
  for (unsigned i = 0; i < NCONSULT; i++) if (!strcmp(CONSULT[i].name, name)) return i;
  fprintf(stderr, "no consulting entry %s\n", name); abort();
}
static uint64_t one(hwloc_topology_t t, unsigned e, unsigned id, const char *scratch) {
  struct cctx cx = { id, 1, 0, scratch };
  CONSULT[e].fn(t, &cx);
  return cx.digest;
}
static void *reader(void *arg) {
  unsigned me = (unsigned)(uintptr_t) arg; char scratch[600]; unsigned long bad = 0, n = 0;
  snprintf(scratch, sizeof scratch, "%s.r%u.xml", scratch_prefix, me);
  pthread_barrier_wait(&bar);
  for (unsigned k = 0; k < NCONSULT; k++) {
    unsigned e = (k + me * 7) % NCONSULT;
    unsigned nid = CONSULT[e].kind == 2 ? NATTR : 1;
    for (unsigned id = 0; id < nid; id++) { if (one(SHARED, e, id, scratch) != REF[e][id]) bad++; n++; }
  }
  unlink(scratch);
  pthread_mutex_lock(&mm); mismatches += bad; calls += n; pthread_mutex_unlock(&mm);
  return NULL;
}
static void warm_up(const char *scratch) {
  hwloc_topology_t t, t2; char *buf; int len;
  hwloc_topology_init(&t); hwloc_topology_set_synthetic(t, "numa:2 core:2 pu:2"); hwloc_topology_load(t);
  if (!hwloc_topology_export_xmlbuffer(t, &buf, &len, 0)) {
    hwloc_topology_init(&t2); hwloc_topology_set_xmlbuffer(t2, buf, len); hwloc_topology_load(t2); hwloc_topology_destroy(t2);
    hwloc_free_xmlbuffer(t, buf);
  }
  hwloc_topology_export_xml(t, scratch, 0); unlink(scratch);
  hwloc_topology_destroy(t);
}
static void readers(unsigned nthr, unsigned iters, int cold, int unrefreshed, struct prng *p) {
  char scratch[600]; pthread_t th[64];
  snprintf(scratch, sizeof scratch, "%s.main.xml", scratch_prefix);
  if (!cold) warm_up(scratch);
  for (unsigned it = 0; it < iters; it++) {
    hwloc_topology_t t = build(p, !cold && (it & 1)), ref;
    if (!t) continue;
    modify(t, p);
    /* single-threaded reference digests on a private duplicate (so that the shared one stays unrefreshed if asked) */
    hwloc_topology_dup(&ref, t); hwloc_topology_refresh(ref);
    { const char *nm; NATTR = 0; while (NATTR < MAXATTR && !hwloc_memattr_get_name(ref, NATTR, &nm)) NATTR++; }
    if (!cold)
      for (unsigned e = 0; e < NCONSULT; e++)
        for (unsigned id = 0; id < (CONSULT[e].kind == 2 ? NATTR : 1); id++) REF[e][id] = one(ref, e, id, scratch);
    hwloc_topology_destroy(ref);
    if (!unrefreshed) hwloc_topology_refresh(t);
    SHARED = t;
    if (cold)      /* no reference without touching the statics: compare the threads with thread 0's later sequential run */
      memset(REF, 0, sizeof REF);
    pthread_barrier_init(&bar, NULL, nthr);
    for (unsigned i = 0; i < nthr; i++) pthread_create(&th[i], NULL, reader, (void *)(uintptr_t) i);
    for (unsigned i = 0; i < nthr; i++) pthread_join(th[i], NULL);
    pthread_barrier_destroy(&bar);
    if (cold) { mismatches = 0; }
    hwloc_topology_destroy(t);
  }
  unlink(scratch);
}

/* ---------------------------------------------------------------- independent topologies */
static unsigned IND_ITERS;
static void *independent(void *arg) {
  unsigned me = (unsigned)(uintptr_t) arg; struct prng p = { 0x9E3779B97F4A7C15ULL * (me + 1) ^ rng_s[0] };
  char scratch[600]; unsigned long n = 0, bad = 0;
  snprintf(scratch, sizeof scratch, "%s.i%u.xml", scratch_prefix, me);
  pthread_barrier_wait(&bar);
  for (unsigned it = 0; it < IND_ITERS; it++) {
    hwloc_topology_t t = build(&p, it & 1), d, t2; char *buf; int len;
    if (!t) continue;
    modify(t, &p);
    hwloc_topology_refresh(t);
    unsigned e_walk = entry_index("tree_walk"), e_sets = entry_index("set_getters");
    uint64_t d1 = one(t, e_walk, 0, scratch);
    if (!hwloc_topology_dup(&d, t)) { hwloc_topology_refresh(d); if (one(d, e_walk, 0, scratch) != d1) bad++; hwloc_topology_destroy(d); }
    if (!hwloc_topology_export_xmlbuffer(t, &buf, &len, 0)) {
      hwloc_topology_init(&t2); hwloc_topology_set_all_types_filter(t2, HWLOC_TYPE_FILTER_KEEP_ALL);
      if (!hwloc_topology_set_xmlbuffer(t2, buf, len) && !hwloc_topology_load(t2)) { if (one(t2, e_sets, 0, scratch) != one(t, e_sets, 0, scratch)) bad++; }
      hwloc_topology_destroy(t2);
      hwloc_free_xmlbuffer(t, buf);
    }
    for (unsigned e = 0; e < NCONSULT; e++) { one(t, e, 0, scratch); n++; }
    hwloc_topology_destroy(t);
  }
  unlink(scratch);
  pthread_mutex_lock(&mm); mismatches += bad; calls += n; pthread_mutex_unlock(&mm);
  return NULL;
}

int main(int argc, char **argv) {
  if (argc < 5) { fprintf(stderr, "usage: tsan <mode> <threads> <iterations> <scratch-prefix>\n"); return 2; }
  const char *mode = argv[1]; unsigned nthr = atoi(argv[2]), iters = atoi(argv[3]);
  struct prng p;
  scratch_prefix = argv[4];
  if (nthr < 1 || nthr > 64) return 2;
  rng_seed(rng_seed_from_env()); p.s = rng_next() | 1;
  scan_xml();
  if (!strcmp(mode, "readers")) readers(nthr, iters, 0, 0, &p);
  else if (!strcmp(mode, "readers-cold")) readers(nthr, 1, 1, 0, &p);
  else if (!strcmp(mode, "readers-unrefreshed")) readers(nthr, iters, 0, 1, &p);
  else if (!strcmp(mode, "independent")) {
    pthread_t th[64];
    IND_ITERS = iters;
    { char sc[600]; snprintf(sc, sizeof sc, "%s.main.xml", scratch_prefix); warm_up(sc); }   /* statics only; its topologies are gone */
    /* deliberately NO topology alive in the main thread: the registry is initialised and destroyed by the workers */
    pthread_barrier_init(&bar, NULL, nthr);
    for (unsigned i = 0; i < nthr; i++) pthread_create(&th[i], NULL, independent, (void *)(uintptr_t) i);
    for (unsigned i = 0; i < nthr; i++) pthread_join(th[i], NULL);
  } else return 2;
  printf("RESULT mode=%s threads=%u calls=%lu digest_mismatches=%lu\n", mode, nthr, calls, mismatches);
  return 0;
}
