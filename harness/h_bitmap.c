/* C03 differential harness (engine `bitmap`).
 * Includes hwloc/bitmap.c itself so that the private struct is visible; linked against the
 * remaining objects of the sanitizer build of /repo (without bitmap.o).
 *
 * usage: bitmap <nops> <ops-file> <out-file> <stats-file>     (generate mode, seed = VERIF_SEED)
 *        bitmap --replay <ops-file> <out-file>                (replay mode)
 * Every op line is written to <ops-file>; the C result line to <out-file>.
 */
#include "bitmap.c"
#include "rng.h"
#include <string.h>

#define NH 8
static hwloc_bitmap_t H[NH];
static FILE *fops, *fout;

static void show_repr(hwloc_bitmap_t b) {
  fprintf(fout, "R %u %d", b->ulongs_count, b->infinite ? 1 : 0);
  for (unsigned i = 0; i < b->ulongs_count; i++) fprintf(fout, " %lx", b->ulongs[i]);
  fputc('\n', fout);
}
static void show_int(long v) { fprintf(fout, "V %ld\n", v); }
static int sgn(int v) { return v < 0 ? -1 : v > 0 ? 1 : 0; }

/* ---- op execution (shared by generate and replay) ---- */
static int exec_line(char *line) {
  char op[32]; char *tok[80]; int nt = 0;
  char *save = NULL;
  for (char *t = strtok_r(line, " \n", &save); t && nt < 80; t = strtok_r(NULL, " \n", &save)) tok[nt++] = t;
  if (!nt) return 0;
  strncpy(op, tok[0], 31); op[31] = 0;
#define HN(k) (H[atoi(tok[k])])
#define U(k) ((unsigned) strtoul(tok[k], NULL, 10))
#define I(k) ((int) strtol(tok[k], NULL, 10))
#define W(k) (strtoul(tok[k], NULL, 16))
  if (!strcmp(op, "alloc")) { int h = atoi(tok[1]); hwloc_bitmap_free(H[h]); H[h] = hwloc_bitmap_alloc(); show_repr(H[h]); }
  else if (!strcmp(op, "allocfull")) { int h = atoi(tok[1]); hwloc_bitmap_free(H[h]); H[h] = hwloc_bitmap_alloc_full(); show_repr(H[h]); }
  else if (!strcmp(op, "dup")) { int h = atoi(tok[1]); hwloc_bitmap_t n = hwloc_bitmap_dup(HN(2)); hwloc_bitmap_free(H[h]); H[h] = n; show_repr(n); }
  else if (!strcmp(op, "copy")) { hwloc_bitmap_copy(HN(1), HN(2)); show_repr(HN(1)); }
  else if (!strcmp(op, "zero")) { hwloc_bitmap_zero(HN(1)); show_repr(HN(1)); }
  else if (!strcmp(op, "fill")) { hwloc_bitmap_fill(HN(1)); show_repr(HN(1)); }
  else if (!strcmp(op, "only")) { hwloc_bitmap_only(HN(1), U(2)); show_repr(HN(1)); }
  else if (!strcmp(op, "allbut")) { hwloc_bitmap_allbut(HN(1), U(2)); show_repr(HN(1)); }
  else if (!strcmp(op, "fromulong")) { hwloc_bitmap_from_ulong(HN(1), W(2)); show_repr(HN(1)); }
  else if (!strcmp(op, "fromith")) { hwloc_bitmap_from_ith_ulong(HN(1), U(2), W(3)); show_repr(HN(1)); }
  else if (!strcmp(op, "fromulongs")) {
    unsigned long ms[80]; unsigned n = nt - 2;
    for (unsigned i = 0; i < n; i++) ms[i] = W(2 + i);
    hwloc_bitmap_from_ulongs(HN(1), n, ms); show_repr(HN(1));
  }
  else if (!strcmp(op, "set")) { hwloc_bitmap_set(HN(1), U(2)); show_repr(HN(1)); }
  else if (!strcmp(op, "clr")) { hwloc_bitmap_clr(HN(1), U(2)); show_repr(HN(1)); }
  else if (!strcmp(op, "setith")) { hwloc_bitmap_set_ith_ulong(HN(1), U(2), W(3)); show_repr(HN(1)); }
  else if (!strcmp(op, "setrange")) { hwloc_bitmap_set_range(HN(1), U(2), I(3)); show_repr(HN(1)); }
  else if (!strcmp(op, "clrrange")) { hwloc_bitmap_clr_range(HN(1), U(2), I(3)); show_repr(HN(1)); }
  else if (!strcmp(op, "or")) { hwloc_bitmap_or(HN(1), HN(2), HN(3)); show_repr(HN(1)); }
  else if (!strcmp(op, "and")) { hwloc_bitmap_and(HN(1), HN(2), HN(3)); show_repr(HN(1)); }
  else if (!strcmp(op, "andnot")) { hwloc_bitmap_andnot(HN(1), HN(2), HN(3)); show_repr(HN(1)); }
  else if (!strcmp(op, "xor")) { hwloc_bitmap_xor(HN(1), HN(2), HN(3)); show_repr(HN(1)); }
  else if (!strcmp(op, "not")) { hwloc_bitmap_not(HN(1), HN(2)); show_repr(HN(1)); }
  else if (!strcmp(op, "singlify")) { hwloc_bitmap_singlify(HN(1)); show_repr(HN(1)); }
  else if (!strcmp(op, "isset")) show_int(hwloc_bitmap_isset(HN(1), U(2)));
  else if (!strcmp(op, "iszero")) show_int(hwloc_bitmap_iszero(HN(1)));
  else if (!strcmp(op, "isfull")) show_int(hwloc_bitmap_isfull(HN(1)));
  else if (!strcmp(op, "isequal")) show_int(hwloc_bitmap_isequal(HN(1), HN(2)));
  else if (!strcmp(op, "intersects")) show_int(hwloc_bitmap_intersects(HN(1), HN(2)));
  else if (!strcmp(op, "isincluded")) show_int(hwloc_bitmap_isincluded(HN(1), HN(2)));
  else if (!strcmp(op, "first")) show_int(hwloc_bitmap_first(HN(1)));
  else if (!strcmp(op, "firstunset")) show_int(hwloc_bitmap_first_unset(HN(1)));
  else if (!strcmp(op, "last")) show_int(hwloc_bitmap_last(HN(1)));
  else if (!strcmp(op, "lastunset")) show_int(hwloc_bitmap_last_unset(HN(1)));
  else if (!strcmp(op, "next")) show_int(hwloc_bitmap_next(HN(1), I(2)));
  else if (!strcmp(op, "nextunset")) show_int(hwloc_bitmap_next_unset(HN(1), I(2)));
  else if (!strcmp(op, "weight")) show_int(hwloc_bitmap_weight(HN(1)));
  else if (!strcmp(op, "nrulongs")) show_int(hwloc_bitmap_nr_ulongs(HN(1)));
  else if (!strcmp(op, "compare")) show_int(hwloc_bitmap_compare(HN(1), HN(2)));
  else if (!strcmp(op, "comparefirst")) show_int(sgn(hwloc_bitmap_compare_first(HN(1), HN(2))));
  else if (!strcmp(op, "compareincl")) show_int(hwloc_bitmap_compare_inclusion(HN(1), HN(2)));
  else if (!strcmp(op, "toulong")) fprintf(fout, "V %lx\n", hwloc_bitmap_to_ulong(HN(1)));
  else if (!strcmp(op, "toith")) fprintf(fout, "V %lx\n", hwloc_bitmap_to_ith_ulong(HN(1), U(2)));
  else if (!strcmp(op, "toulongs")) {
    unsigned long ms[80]; unsigned n = U(2);
    hwloc_bitmap_to_ulongs(HN(1), n, ms);
    fprintf(fout, "V");
    for (unsigned i = 0; i < n; i++) fprintf(fout, " %lx", ms[i]);
    fputc('\n', fout);
  }
  else { fprintf(fout, "bad-op\n"); return -1; }
  return 0;
}

/* ---- generator ---- */
static const unsigned bounds[] = {0,1,2,31,32,33,63,64,65,127,128,129,191,192,255,256,511,512,513,575,576,1023,1024,1025};
static unsigned gen_index(void) {
  unsigned r = rng_below(100);
  if (r < 55) { unsigned b = bounds[rng_below(sizeof(bounds)/sizeof(bounds[0]))]; int d = (int)rng_below(5) - 2; return (int)b + d < 0 ? b : b + d; }
  if (r < 85) return rng_below(320);
  if (r < 97) return rng_below(1400);
  return rng_below(70000);
}
static unsigned long gen_word(void) {
  switch (rng_below(8)) {
  case 0: return 0UL;
  case 1: return ~0UL;
  case 2: return 1UL << rng_below(64);
  case 3: return ~(1UL << rng_below(64));
  case 4: return (~0UL) << rng_below(64);
  case 5: return (~0UL) >> rng_below(64);
  case 6: return rng_next() & rng_next();
  default: return rng_next();
  }
}

struct stat_entry { char name[64]; unsigned long n; };
static struct stat_entry stats[512]; static int nstats;
static void bump(const char *name) {
  for (int i = 0; i < nstats; i++) if (!strcmp(stats[i].name, name)) { stats[i].n++; return; }
  if (nstats < 512) { strncpy(stats[nstats].name, name, 63); stats[nstats].n = 1; nstats++; }
}

static void emit(const char *fmt, ...) {
  char line[2048]; va_list ap; va_start(ap, fmt); vsnprintf(line, sizeof line, fmt, ap); va_end(ap);
  fprintf(fops, "%s\n", line); fflush(fops);
  exec_line(line);
}

static const char *cmpcls(unsigned a, unsigned b) { return a < b ? "lt" : a == b ? "eq" : "gt"; }

static void gen_one(void) {
  unsigned h = rng_below(NH), a = rng_below(NH), b = rng_below(NH);
  unsigned r = rng_below(1000);
  char bucket[64];
  if (r < 20) { emit("alloc %u", h); bump("alloc"); }
  else if (r < 35) { emit("allocfull %u", h); bump("allocfull"); }
  else if (r < 55) { emit("dup %u %u", h, a); bump("dup"); }
  else if (r < 80) { emit("copy %u %u", h, a); bump(h == a ? "copy.alias" : "copy"); }
  else if (r < 90) { emit("zero %u", h); bump("zero"); }
  else if (r < 100) { emit("fill %u", h); bump("fill"); }
  else if (r < 115) { emit("only %u %u", h, gen_index()); bump("only"); }
  else if (r < 130) { emit("allbut %u %u", h, gen_index()); bump("allbut"); }
  else if (r < 140) { emit("fromulong %u %lx", h, gen_word()); bump("fromulong"); }
  else if (r < 155) { emit("fromith %u %u %lx", h, rng_below(12), gen_word()); bump("fromith"); }
  else if (r < 170) {
    char line[2048]; int n = 1 + rng_below(10); int off = snprintf(line, sizeof line, "fromulongs %u", h);
    for (int i = 0; i < n; i++) off += snprintf(line + off, sizeof line - off, " %lx", gen_word());
    emit("%s", line); bump("fromulongs");
  }
  else if (r < 230) { emit("set %u %u", h, gen_index()); bump(H[h]->infinite ? "set.inf" : "set.fin"); }
  else if (r < 280) { emit("clr %u %u", h, gen_index()); bump(H[h]->infinite ? "clr.inf" : "clr.fin"); }
  else if (r < 295) { emit("setith %u %u %lx", h, rng_below(12), gen_word()); bump("setith"); }
  else if (r < 385) {
    unsigned bg = gen_index(); int en;
    unsigned k = rng_below(10);
    const char *cls;
    if (k == 0) { en = -1; cls = "endinf"; }
    else if (k == 1) { en = (int) bg - 1 - (int) rng_below(3); if (en < 0) en = 0; cls = "empty"; }
    else if (k < 5) { en = bg + rng_below(64 - bg % 64); cls = "sameword"; }
    else if (k < 7) { en = bg + 64 - bg % 64 + rng_below(64); cls = "adjword"; }
    else { en = bg + rng_below(700); cls = "far"; }
    int isset = rng_chance(50);
    snprintf(bucket, sizeof bucket, "%s.%s.%s", isset ? "setrange" : "clrrange", cls, H[h]->infinite ? "inf" : "fin");
    emit("%s %u %u %d", isset ? "setrange" : "clrrange", h, bg, en); bump(bucket);
  }
  else if (r < 565) {
    static const char *ops[] = {"or", "and", "andnot", "xor"};
    const char *op = ops[rng_below(4)];
    /* force aliasing in ~35% of the cases */
    unsigned k = rng_below(100);
    if (k < 12) h = a; else if (k < 24) h = b; else if (k < 30) { h = a; b = a; } else if (k < 35) b = a;
    const char *al = (h == a && h == b) ? "r=a=b" : h == a ? "r=a" : h == b ? "r=b" : a == b ? "a=b" : "none";
    snprintf(bucket, sizeof bucket, "%s.%s.%s.%s%s", op, al, cmpcls(H[a]->ulongs_count, H[b]->ulongs_count),
             H[a]->infinite ? "I" : "F", H[b]->infinite ? "I" : "F");
    emit("%s %u %u %u", op, h, a, b); bump(bucket);
  }
  else if (r < 590) { if (rng_chance(30)) h = a; emit("not %u %u", h, a); bump(h == a ? "not.alias" : "not"); }
  else if (r < 610) { emit("singlify %u", h); bump(H[h]->infinite ? "singlify.inf" : "singlify.fin"); }
  else if (r < 640) { emit("isset %u %u", h, gen_index()); bump("isset"); }
  else if (r < 655) { emit("iszero %u", h); bump("iszero"); }
  else if (r < 670) { emit("isfull %u", h); bump("isfull"); }
  else if (r < 700) { emit("isequal %u %u", a, b); bump("isequal"); }
  else if (r < 730) { emit("intersects %u %u", a, b); bump("intersects"); }
  else if (r < 760) { emit("isincluded %u %u", a, b); bump("isincluded"); }
  else if (r < 780) { emit("first %u", h); bump("first"); }
  else if (r < 795) { emit("firstunset %u", h); bump("firstunset"); }
  else if (r < 815) { emit("last %u", h); bump("last"); }
  else if (r < 830) { emit("lastunset %u", h); bump("lastunset"); }
  else if (r < 865) { int p = rng_chance(15) ? -1 : (int) gen_index(); emit("next %u %d", h, p); bump(H[h]->infinite ? "next.inf" : "next.fin"); }
  else if (r < 890) { int p = rng_chance(15) ? -1 : (int) gen_index(); emit("nextunset %u %d", h, p); bump("nextunset"); }
  else if (r < 905) { emit("weight %u", h); bump("weight"); }
  else if (r < 915) { emit("nrulongs %u", h); bump("nrulongs"); }
  else if (r < 940) { snprintf(bucket, sizeof bucket, "compare.%s", cmpcls(H[a]->ulongs_count, H[b]->ulongs_count)); emit("compare %u %u", a, b); bump(bucket); }
  else if (r < 965) { snprintf(bucket, sizeof bucket, "comparefirst.%s.%s%s", cmpcls(H[a]->ulongs_count, H[b]->ulongs_count), H[a]->infinite ? "I" : "F", H[b]->infinite ? "I" : "F"); emit("comparefirst %u %u", a, b); bump(bucket); }
  else if (r < 985) { emit("compareincl %u %u", a, b); bump("compareincl"); }
  else if (r < 990) { emit("toulong %u", h); bump("toulong"); }
  else if (r < 995) { emit("toith %u %u", h, rng_below(14)); bump("toith"); }
  else { emit("toulongs %u %u", h, 1 + rng_below(12)); bump("toulongs"); }
}

int main(int argc, char **argv) {
  for (int i = 0; i < NH; i++) H[i] = hwloc_bitmap_alloc();
  if (argc >= 4 && !strcmp(argv[1], "--replay")) {
    FILE *in = fopen(argv[2], "r"); fout = fopen(argv[3], "w");
    if (!in || !fout) return 2;
    char line[4096];
    while (fgets(line, sizeof line, in)) exec_line(line);
    fclose(in); fclose(fout);
    return 0;
  }
  if (argc < 5) { fprintf(stderr, "usage\n"); return 2; }
  unsigned long nops = strtoul(argv[1], NULL, 10);
  fops = fopen(argv[2], "w"); fout = fopen(argv[3], "w");
  if (!fops || !fout) return 2;
  rng_seed(rng_seed_from_env());
  for (unsigned long i = 0; i < nops; i++) {
    /* periodically shrink the pool back to small bitmaps so that sizes stay mixed */
    if (i % 400 == 399) { unsigned h = rng_below(NH); emit("alloc %u", h); }
    gen_one();
  }
  fclose(fops); fclose(fout);
  FILE *fs = fopen(argv[4], "w");
  if (fs) { for (int i = 0; i < nstats; i++) fprintf(fs, "%s %lu\n", stats[i].name, stats[i].n); fclose(fs); }
  for (int i = 0; i < NH; i++) hwloc_bitmap_free(H[i]);
  return 0;
}
