/* C15 differential harness (engine `cpukinds`).
 *
 * usage: cpukinds <nops> <ops-file> <out-file> <stats-file>      generate mode, seed = VERIF_SEED
 *        cpukinds --replay <ops-file> <out-file> [<eff-ops-file>] replay mode
 * Every executed op line goes to <ops-file> (<eff-ops-file> in replay mode), the C observation to <out-file>.
 *
 * Everything the verdict depends on is obtained through the public API (hwloc_cpukinds_get_nr /
 * get_info / get_by_cpuset, hwloc_cpukinds_register, hwloc_topology_restrict / dup / refresh,
 * XML buffer export + import).  After " ;; " each observation also carries three private fields
 * read from struct hwloc_topology (forced_efficiency is printed inline as f=): nr_cpukinds_allocated
 * and whether a non-NULL infos.array is left in the unused slots [nr, allocated) — needed to recognise the stale-slot
 * defect class (see below) and to check the array bound.
 *
 * Disallowed PUs (widened coverage): `initd` loads the topology with HWLOC_TOPOLOGY_FLAG_INCLUDE_DISALLOWED and
 * `allow <cs|NULL> <flags>` calls hwloc_topology_allow(T, cs, NULL, flags) (4 = CUSTOM with a random subset, 1 = ALL,
 * others invalid), so that the allowed cpuset is a strict subset of the root cpuset while kinds are registered,
 * restricted, duplicated and exported/imported (the importing topology gets the same flag).  Every observation
 * carries allowed=<hex> dis=<flag>.  The kinds must never depend on the allowed cpuset; restrict is refused iff its
 * set misses the ALLOWED cpuset (lean/Hw/Attr/CpuKindsAllowed.lean).  About half of the generated episodes are of that kind.
 *
 * Stale-slot defect class (hwloc_internal_cpukinds_restrict memmoves the array without clearing the
 * vacated slot; a later register that creates a kind there starts from the stale infos): such a
 * register is NOT executed (written as `regskip`) unless VERIF_C15_INCLUDE_STALE_SLOT_DEFECT=1.
 *
 * Ranking strategies (A7): HWLOC_CPUKINDS_RANKING is read by getenv() in every hwloc_internal_cpukinds_rank call, so the op
 * `env <value>` (dflt = unset) really sets / unsets the variable for the later calls of the same process.  With
 * VERIF_C15_ENVMIX=1 the value changes between and inside episodes, and ranking-focused episodes (profile 4,
 * gen_rank_episode) build 2-5 kinds from a scenario of forced efficiencies (all known and distinct / ties / partially
 * unknown / unknown) and CoreType / FrequencyMaxMHz / FrequencyBaseMHz pairs (absent / distinct / equal across kinds /
 * absent in one kind / non-numeric or zero in one kind / beyond 2^20) and re-rank them under EVERY value (gen_sweep).
 *
 * env: VERIF_C15_STRATEGY=<value of HWLOC_CPUKINDS_RANKING at start>  (default: variable unset)
 *      VERIF_C15_ENVMIX=1     see above
 *      VERIF_C15_PROFILE=<n>  force a generator profile
 *      VERIF_C15_IREG=1       side stream: about a third of the registrations go through the INTERNAL entry point
 *                             hwloc_internal_cpukinds_register (op `ireg`, flags 0 / OVERWRITE / invalid, no ranking
 *                             afterwards), as the discovery backends do.  Finding class kept out of the generated
 *                             stream unless VERIF_C15_INCLUDE_SPLIT_FORCED=1 (flags then become OVERWRITE): a flags-0
 *                             registration that SPLITS a kind whose forced efficiency is known and different — the C code
 *                             gives the split-off kind the new value instead of keeping the first one (see
 *                             Props/C15.lean C15_finding_split_drops_forced); a fix of that must not raise an alarm here
 */
#include "private/autogen/config.h"
#include "hwloc.h"
#include "private/private.h"
#include "rng.h"
#include <stdio.h>
#include <string.h>
#include <errno.h>

static hwloc_topology_t T;
static unsigned NPU = 12;
static FILE *fops, *fout;
static int include_stale;
static unsigned long st_ops, st_reg, st_regskip, st_reg_einval, st_restrict_ok, st_restrict_einval,
  st_restrict_removed, st_dup, st_xml, st_refresh, st_by_idx, st_by_exdev, st_by_enoent, st_by_einval,
  st_ranked, st_unranked, st_nr[6], st_split, st_merge, st_newtail, st_outside_root, st_stale_seen,
  st_info_einval, st_info_enoent, st_episodes, st_ireg, st_ireg_class_avoided,
  /* disallowed-PU coverage */
  st_dis_episodes, st_allow_ok, st_allow_einval, st_allow_strict, st_reg_over_disallowed, st_restrict_ok_strict,
  st_restrict_keeps_disallowed_kind_pu, st_restrict_einval_misses_allowed, st_restrict_removed_strict,
  st_dup_strict, st_xml_strict, st_obs_strict_with_kinds, st_by_disallowed_idx;
static int DIS;   /* current topology was loaded with INCLUDE_DISALLOWED */
/* ranking-strategy coverage (A7): values of HWLOC_CPUKINDS_RANKING switched between the calls of one process */
static const char *envvals[] = { "dflt", "default", "no_forced_efficiency", "forced_efficiency", "coretype+frequency",
                                 "coretype+frequency_strict", "coretype", "frequency", "frequency_max", "frequency_base",
                                 "none", "bogus_value" };
#define NENV 12
static unsigned long st_env, st_env_switch, st_rank_episodes, st_sweep[NENV][2] /* [value][ranked?] after a sweep re-rank, nr >= 2 */,
  st_rk_forced_distinct, st_rk_forced_ties, st_rk_forced_partial, st_rk_forced_none, st_rk_override, st_rk_restrict;
static unsigned long st_rawset, st_rawswap, st_rawrank, st_raw_negative_forced;
static int last_ranked = -1;   /* last observation: -1 fewer than two kinds, 0 all efficiencies -1, 1 ranked */

/* allowed cpuset strictly inside the root cpuset? */
static int strict_allowed(void) {
  return !hwloc_bitmap_isequal(hwloc_topology_get_allowed_cpuset(T), hwloc_get_root_obj(T)->cpuset);
}
static int include_split_forced;

static const char *errname(void) {
  switch (errno) {
  case EINVAL: return "EINVAL"; case ENOENT: return "ENOENT"; case EXDEV: return "EXDEV";
  case EBUSY: return "EBUSY"; case EPERM: return "EPERM"; case ENOSYS: return "ENOSYS";
  default: return "fail";
  }
}

static void hexset(hwloc_const_bitmap_t b, char *out) {
  if (hwloc_bitmap_weight(b) < 0 || hwloc_bitmap_last(b) >= 128) { strcpy(out, "INF"); return; }
  unsigned long w0 = hwloc_bitmap_to_ith_ulong(b, 0), w1 = hwloc_bitmap_to_ith_ulong(b, 1);
  if (w1) sprintf(out, "%lx%016lx", w1, w0); else sprintf(out, "%lx", w0);
}

/* hex (<= 32 digits) -> bitmap; "NULL" -> NULL */
static hwloc_bitmap_t parseset(const char *s) {
  if (!strcmp(s, "NULL")) return NULL;
  size_t n = strlen(s);
  unsigned long w0, w1 = 0;
  if (n > 16) {
    char hi[40]; size_t nh = n - 16;
    memcpy(hi, s, nh); hi[nh] = 0;
    w1 = strtoul(hi, NULL, 16);
    w0 = strtoul(s + nh, NULL, 16);
  } else w0 = strtoul(s, NULL, 16);
  hwloc_bitmap_t b = hwloc_bitmap_alloc();
  hwloc_bitmap_from_ulong(b, w0);
  if (w1) hwloc_bitmap_set_ith_ulong(b, 1, w1);
  return b;
}

static void show_infos(struct hwloc_infos_s *ip) {
  fprintf(fout, " i=%u", ip->count);
  for (unsigned j = 0; j < ip->count; j++) fprintf(fout, " %s=%s", ip->array[j].name, ip->array[j].value);
}

static void show_obs(void) {
  char hs[80];
  int nr = hwloc_cpukinds_get_nr(T, 0);
  hexset(hwloc_get_root_obj(T)->cpuset, hs);
  fprintf(fout, "nr=%d root=%s", nr, hs);
  hexset(hwloc_topology_get_allowed_cpuset(T), hs);
  fprintf(fout, " allowed=%s dis=%d", hs, (hwloc_topology_get_flags(T) & HWLOC_TOPOLOGY_FLAG_INCLUDE_DISALLOWED) ? 1 : 0);
  if (nr && strict_allowed()) st_obs_strict_with_kinds++;
  hwloc_bitmap_t b = hwloc_bitmap_alloc();
  int ranked = 0;
  for (int i = 0; i < nr; i++) {
    int eff = -99; struct hwloc_infos_s *ip = NULL;
    if (hwloc_cpukinds_get_info(T, i, b, &eff, &ip, 0) < 0) { fprintf(fout, " | get_info-failed"); continue; }
    hexset(b, hs);
    fprintf(fout, " | %s e=%d f=%d", hs, eff, T->cpukinds[i].forced_efficiency);
    show_infos(ip);
    if (eff != -1) ranked = 1;
  }
  hwloc_bitmap_free(b);
  /* private part */
  fprintf(fout, " ;; alloc=%u stale=", T->nr_cpukinds_allocated);
  unsigned last = 0;
  for (unsigned s = T->nr_cpukinds; s < T->nr_cpukinds_allocated; s++) if (T->cpukinds[s].infos.array) last = s + 1;
  for (unsigned s = T->nr_cpukinds; s < last; s++)
    fprintf(fout, "%s%d", s == T->nr_cpukinds ? "" : ",", T->cpukinds[s].infos.array ? 1 : 0);
  if (last) st_stale_seen++;
  fputc('\n', fout);
  if (nr >= 2) { if (ranked) st_ranked++; else st_unranked++; }
  last_ranked = nr >= 2 ? ranked : -1;
  st_nr[nr > 5 ? 5 : nr]++;
}

/* how many kinds would hwloc_internal_cpukinds_register append, and does one of them land in a slot
 * whose infos.array was left non-NULL?  (replica of the loop's case analysis, used only for the
 * exclusion switch; cross-checked against the model's own `staleHit` on every reg/regskip line) */
static int would_hit_stale(hwloc_const_bitmap_t cs) {
  unsigned k = 0, nr = T->nr_cpukinds;
  hwloc_bitmap_t cur = hwloc_bitmap_dup(cs), tmp = hwloc_bitmap_alloc();
  for (unsigned i = 0; i < nr; i++) {
    if (hwloc_bitmap_iszero(cur)) break;
    int res = hwloc_bitmap_compare_inclusion(cur, T->cpukinds[i].cpuset);
    if (res == HWLOC_BITMAP_INTERSECTS || res == HWLOC_BITMAP_INCLUDED) {
      hwloc_bitmap_and(tmp, cur, T->cpukinds[i].cpuset);
      hwloc_bitmap_andnot(cur, cur, tmp);
      k++; st_split++;
    } else if (res == HWLOC_BITMAP_CONTAINS || res == HWLOC_BITMAP_EQUAL) {
      hwloc_bitmap_andnot(cur, cur, T->cpukinds[i].cpuset);
      st_merge++;
    }
  }
  if (!hwloc_bitmap_iszero(cur)) { k++; st_newtail++; }
  hwloc_bitmap_free(cur); hwloc_bitmap_free(tmp);
  int hit = 0;
  for (unsigned s = nr; s < nr + k && s < T->nr_cpukinds_allocated; s++)
    if (T->cpukinds[s].infos.array) hit = 1;
  return hit;
}

/* would a flags-0 internal registration split a kind whose forced efficiency is known and differs from `forced`? */
static int would_split_known_forced(hwloc_const_bitmap_t cs, int forced) {
  unsigned nr = T->nr_cpukinds; int r = 0;
  hwloc_bitmap_t cur = hwloc_bitmap_dup(cs), tmp = hwloc_bitmap_alloc();
  for (unsigned i = 0; i < nr && !hwloc_bitmap_iszero(cur); i++) {
    int res = hwloc_bitmap_compare_inclusion(cur, T->cpukinds[i].cpuset);
    if (res == HWLOC_BITMAP_INTERSECTS || res == HWLOC_BITMAP_INCLUDED) {
      if (T->cpukinds[i].forced_efficiency != HWLOC_CPUKIND_EFFICIENCY_UNKNOWN && T->cpukinds[i].forced_efficiency != forced) r = 1;
      hwloc_bitmap_and(tmp, cur, T->cpukinds[i].cpuset);
      hwloc_bitmap_andnot(cur, cur, tmp);
    } else if (res == HWLOC_BITMAP_CONTAINS || res == HWLOC_BITMAP_EQUAL)
      hwloc_bitmap_andnot(cur, cur, T->cpukinds[i].cpuset);
  }
  hwloc_bitmap_free(cur); hwloc_bitmap_free(tmp);
  return r;
}

static void new_topology(unsigned npu, int dis) {
  char desc[32];
  if (T) hwloc_topology_destroy(T);
  NPU = npu;
  DIS = dis;
  hwloc_topology_init(&T);
  if (dis) hwloc_topology_set_flags(T, HWLOC_TOPOLOGY_FLAG_INCLUDE_DISALLOWED);
  snprintf(desc, sizeof desc, "pu:%u", npu);
  hwloc_topology_set_synthetic(T, desc);
  hwloc_topology_set_all_types_filter(T, HWLOC_TYPE_FILTER_KEEP_ALL);
  if (hwloc_topology_load(T) < 0) { fprintf(stderr, "load failed\n"); exit(3); }
}

static unsigned long xml_export_flags;   /* 0 or HWLOC_TOPOLOGY_EXPORT_XML_FLAG_V2 (op xmlv2) */
static int do_xml(void) {
  char *buf = NULL; int len = 0;
  hwloc_topology_t n;
  if (hwloc_topology_export_xmlbuffer(T, &buf, &len, xml_export_flags) < 0) return -1;
  hwloc_topology_init(&n);
  /* the importing topology is loaded with the same flags (INCLUDE_DISALLOWED keeps the disallowed PUs and the
   * exported allowed_cpuset) */
  hwloc_topology_set_flags(n, hwloc_topology_get_flags(T));
  hwloc_topology_set_all_types_filter(n, HWLOC_TYPE_FILTER_KEEP_ALL);
  if (hwloc_topology_set_xmlbuffer(n, buf, len) < 0) { hwloc_topology_destroy(n); hwloc_free_xmlbuffer(T, buf); return -1; }
  if (hwloc_topology_load(n) < 0) { hwloc_topology_destroy(n); hwloc_free_xmlbuffer(T, buf); return -1; }
  hwloc_free_xmlbuffer(T, buf);
  hwloc_topology_destroy(T);
  T = n;
  return 0;
}

/* ---- op execution (shared by generate and replay).  May rewrite "reg" into "regskip" in place;
 * the effective line is written to fops. ---- */
static void exec_line(const char *orig) {
  char line[2048], eff[2048];
  char *tok[64]; int nt = 0; char *save = NULL;
  strncpy(line, orig, sizeof line - 1); line[sizeof line - 1] = 0;
  line[strcspn(line, "\n")] = 0;
  strcpy(eff, line);
  for (char *t = strtok_r(line, " ", &save); t && nt < 64; t = strtok_r(NULL, " ", &save)) tok[nt++] = t;
  if (!nt) return;
  const char *op = tok[0];
  st_ops++;
  if (!strcmp(op, "env")) {
    /* HWLOC_CPUKINDS_RANKING is read by getenv() inside every hwloc_internal_cpukinds_rank call: the line sets the
     * variable for all later calls of this process (`dflt` = unset), in generate and in replay mode.  The first line of
     * every stream repeats the value main() took from VERIF_C15_STRATEGY. */
    if (nt != 2) { fprintf(fops, "%s\n", eff); fprintf(fout, "bad-op\n"); return; }
    if (strcmp(tok[1], "dflt")) setenv("HWLOC_CPUKINDS_RANKING", tok[1], 1); else unsetenv("HWLOC_CPUKINDS_RANKING");
    st_env++;
    fprintf(fops, "%s\n", eff); fprintf(fout, "ok\n"); return;
  }
  if (!strcmp(op, "init") || !strcmp(op, "initd")) {
    if (nt < 2) { fprintf(fops, "%s\n", eff); fprintf(fout, "bad-op\n"); return; }
    unsigned long r = strtoul(tok[1], NULL, 16); unsigned n = 0;
    while (r) { n++; r >>= 1; }
    new_topology(n, !strcmp(op, "initd"));
    st_episodes++;
    if (DIS) st_dis_episodes++;
    fprintf(fops, "%s\n", eff); show_obs(); return;
  }
  if (!T) new_topology(12, 0);
  if (!strcmp(op, "allow")) {
    /* hwloc_topology_allow(T, cpuset, NULL, flags) */
    if (nt < 3) { fprintf(fops, "%s\n", eff); fprintf(fout, "bad-op\n"); return; }
    fprintf(fops, "%s\n", eff);
    fflush(fops);
    hwloc_bitmap_t cs = parseset(tok[1]);
    unsigned long flags = strtoul(tok[2], NULL, 10);
    errno = 0;
    int rc = hwloc_topology_allow(T, cs, NULL, flags);
    if (rc < 0) st_allow_einval++; else { st_allow_ok++; if (strict_allowed()) st_allow_strict++; }
    fprintf(fout, "rc=%s ", rc < 0 ? errname() : "ok");
    show_obs();
    hwloc_bitmap_free(cs);
    return;
  }
  if (!strcmp(op, "ireg") || !strcmp(op, "iregskip")) {
    /* hwloc_internal_cpukinds_register(topology, cpuset (ownership passes to hwloc), forced, infos, flags); no ranking */
    if (nt < 4 || !strcmp(tok[1], "NULL")) { fprintf(fops, "%s\n", eff); fprintf(fout, "bad-op\n"); return; }
    hwloc_bitmap_t cs = parseset(tok[1]);
    int forced = atoi(tok[2]);
    unsigned long flags = strtoul(tok[3], NULL, 10);
    struct hwloc_info_s arr[16]; unsigned n = 0;
    for (int i = 4; i < nt && n < 16; i++) {
      char *eq = strchr(tok[i], '=');
      if (!eq) continue;
      *eq = 0; arr[n].name = tok[i]; arr[n].value = eq + 1; n++;
    }
    struct hwloc_infos_s infos = { arr, n, n };
    int hit = 0;
    if (!hwloc_bitmap_iszero(cs) && !(flags & ~1UL)) hit = would_hit_stale(cs);
    if (!strcmp(op, "iregskip") || (hit && !include_stale)) {
      if (!strcmp(op, "ireg")) memmove(eff + 8, eff + 4, strlen(eff + 4) + 1), memcpy(eff, "iregskip", 8);
      fprintf(fops, "%s\n", eff);
      fprintf(fout, "skipped stalehit=%d\n", hit);
      st_regskip++;
      hwloc_bitmap_free(cs);
      return;
    }
    fprintf(fops, "%s\n", eff);
    fflush(fops);
    int empty = hwloc_bitmap_iszero(cs);
    errno = 0;
    int rc = hwloc_internal_cpukinds_register(T, cs, forced, (n == 0 && (forced & 1) == 0) ? NULL : &infos, flags);
    /* the callee frees or keeps the cpuset except on the invalid-flags path */
    if (rc < 0 && !empty) hwloc_bitmap_free(cs);
    st_ireg++;
    fprintf(fout, "rc=%s stalehit=%d ", rc < 0 ? errname() : "ok", hit);
    show_obs();
    return;
  }
  if (!strcmp(op, "reg") || !strcmp(op, "regskip")) {
    hwloc_bitmap_t cs = parseset(tok[1]);
    int forced = atoi(tok[2]);
    unsigned long flags = strtoul(tok[3], NULL, 10);
    struct hwloc_info_s arr[16]; unsigned n = 0;
    for (int i = 4; i < nt && n < 16; i++) {
      char *eq = strchr(tok[i], '=');
      if (!eq) continue;
      *eq = 0; arr[n].name = tok[i]; arr[n].value = eq + 1; n++;
    }
    struct hwloc_infos_s infos = { arr, n, n };
    int hit = 0;
    if (cs && !hwloc_bitmap_iszero(cs) && !flags) hit = would_hit_stale(cs);
    if (!strcmp(op, "regskip") || (hit && !include_stale)) {
      if (!strcmp(op, "reg")) memmove(eff + 7, eff + 3, strlen(eff + 3) + 1), memcpy(eff, "regskip", 7);
      fprintf(fops, "%s\n", eff);
      fprintf(fout, "skipped stalehit=%d\n", hit);
      st_regskip++;
      hwloc_bitmap_free(cs);
      return;
    }
    fprintf(fops, "%s\n", eff);
    fflush(fops);
    if (cs && !hwloc_bitmap_isincluded(cs, hwloc_get_root_obj(T)->cpuset)) st_outside_root++;
    if (cs && !flags) {   /* registration over PUs that are in the topology but disallowed */
      hwloc_bitmap_t d = hwloc_bitmap_alloc();
      hwloc_bitmap_andnot(d, hwloc_get_root_obj(T)->cpuset, hwloc_topology_get_allowed_cpuset(T));
      if (hwloc_bitmap_intersects(d, cs)) st_reg_over_disallowed++;
      hwloc_bitmap_free(d);
    }
    errno = 0;
    int rc = hwloc_cpukinds_register(T, cs, forced, (n == 0 && (forced & 1) == 0) ? NULL : &infos, flags);
    st_reg++;
    if (rc < 0) st_reg_einval++;
    fprintf(fout, "rc=%s stalehit=%d ", rc < 0 ? errname() : "ok", hit);
    show_obs();
    hwloc_bitmap_free(cs);
    return;
  }
  fprintf(fops, "%s\n", eff);
  fflush(fops);
  if (!strcmp(op, "rawset") || !strcmp(op, "rawswap") || !strcmp(op, "rawrank")) {
    /* A7: arrays no history reaches.  rawset <idx> <forced> <eff> overwrites forced_efficiency / efficiency of one slot,
     * rawswap <i> <j> exchanges two slots (private writes), rawrank calls hwloc_internal_cpukinds_rank directly. */
    unsigned nr = T->nr_cpukinds;
    int ok = 1;
    if (!strcmp(op, "rawset")) {
      if (nt < 4) { fprintf(fout, "bad-op\n"); return; }
      unsigned idx = (unsigned) strtoul(tok[1], NULL, 10);
      if (idx < nr) { T->cpukinds[idx].forced_efficiency = atoi(tok[2]); T->cpukinds[idx].efficiency = atoi(tok[3]); st_rawset++; }
      else ok = 0;
    } else if (!strcmp(op, "rawswap")) {
      if (nt < 3) { fprintf(fout, "bad-op\n"); return; }
      unsigned i = (unsigned) strtoul(tok[1], NULL, 10), j = (unsigned) strtoul(tok[2], NULL, 10);
      if (i < nr && j < nr) {
        struct hwloc_internal_cpukind_s tmp = T->cpukinds[i]; T->cpukinds[i] = T->cpukinds[j]; T->cpukinds[j] = tmp; st_rawswap++;
      } else ok = 0;
    } else {
      hwloc_internal_cpukinds_rank(T);
      st_rawrank++;
    }
    fprintf(fout, "rc=%s ", ok ? "ok" : "ENOENT");
    show_obs();
    return;
  }
  if (!strcmp(op, "restrict")) {
    hwloc_bitmap_t s = parseset(tok[1]);
    int before = hwloc_cpukinds_get_nr(T, 0);
    /* coverage bookkeeping (before the call): is the allowed cpuset a strict subset of the root cpuset, does the set
     * miss the allowed cpuset although it meets the root cpuset, and does some kind own a PU that stays in the
     * topology (root & set) without being allowed */
    int strict = strict_allowed(), misses = 0, keeps = 0;
    if (s) {
      hwloc_bitmap_t d = hwloc_bitmap_alloc(), kb = hwloc_bitmap_alloc();
      misses = hwloc_bitmap_intersects(s, hwloc_get_root_obj(T)->cpuset) && !hwloc_bitmap_intersects(s, hwloc_topology_get_allowed_cpuset(T));
      hwloc_bitmap_and(d, hwloc_get_root_obj(T)->cpuset, s);
      hwloc_bitmap_andnot(d, d, hwloc_topology_get_allowed_cpuset(T));
      for (int i = 0; i < before; i++)
        if (!hwloc_cpukinds_get_info(T, i, kb, NULL, NULL, 0) && hwloc_bitmap_intersects(kb, d)) keeps = 1;
      hwloc_bitmap_free(d); hwloc_bitmap_free(kb);
    }
    errno = 0;
    int rc = hwloc_topology_restrict(T, s, 0);
    if (rc < 0) st_restrict_einval++; else st_restrict_ok++;
    if (hwloc_cpukinds_get_nr(T, 0) < before) st_restrict_removed++;
    if (rc < 0 && misses) st_restrict_einval_misses_allowed++;
    if (rc == 0 && strict) {
      st_restrict_ok_strict++;
      if (keeps) st_restrict_keeps_disallowed_kind_pu++;
      if (hwloc_cpukinds_get_nr(T, 0) < before) st_restrict_removed_strict++;
    }
    fprintf(fout, "rc=%s ", rc < 0 ? errname() : "ok");
    show_obs();
    hwloc_bitmap_free(s);
  } else if (!strcmp(op, "dup")) {
    hwloc_topology_t n;
    int rc = hwloc_topology_dup(&n, T);
    if (!rc) { hwloc_topology_destroy(T); T = n; }
    st_dup++;
    if (strict_allowed() && hwloc_cpukinds_get_nr(T, 0)) st_dup_strict++;
    fprintf(fout, "rc=%s ", rc < 0 ? "fail" : "ok");
    show_obs();
  } else if (!strcmp(op, "xml") || !strcmp(op, "xmlv2")) {
    xml_export_flags = !strcmp(op, "xmlv2") ? HWLOC_TOPOLOGY_EXPORT_XML_FLAG_V2 : 0;     /* the legacy format carries the kinds too */
    int rc = do_xml();
    st_xml++;
    if (strict_allowed() && hwloc_cpukinds_get_nr(T, 0)) st_xml_strict++;
    fprintf(fout, "rc=%s ", rc < 0 ? "fail" : "ok");
    show_obs();
  } else if (!strcmp(op, "refresh")) {
    int rc = hwloc_topology_refresh(T);
    st_refresh++;
    fprintf(fout, "rc=%s ", rc < 0 ? "fail" : "ok");
    show_obs();
  } else if (!strcmp(op, "by")) {
    hwloc_bitmap_t s = parseset(tok[1]);
    unsigned long flags = strtoul(tok[2], NULL, 10);
    errno = 0;
    int r = hwloc_cpukinds_get_by_cpuset(T, s, flags);
    if (r >= 0) {
      fprintf(fout, "r=%d\n", r); st_by_idx++;
      if (s && !hwloc_bitmap_isincluded(s, hwloc_topology_get_allowed_cpuset(T)) && hwloc_bitmap_isincluded(s, hwloc_get_root_obj(T)->cpuset))
        st_by_disallowed_idx++;
    }
    else {
      fprintf(fout, "r=%s\n", errname());
      if (errno == EXDEV) st_by_exdev++; else if (errno == ENOENT) st_by_enoent++; else st_by_einval++;
    }
    hwloc_bitmap_free(s);
  } else if (!strcmp(op, "nr")) {
    unsigned long flags = strtoul(tok[1], NULL, 10);
    errno = 0;
    int r = hwloc_cpukinds_get_nr(T, flags);
    if (r >= 0) fprintf(fout, "r=%d\n", r); else fprintf(fout, "r=%s\n", errname());
  } else if (!strcmp(op, "info")) {
    unsigned id = (unsigned) strtoul(tok[1], NULL, 10);
    unsigned long flags = strtoul(tok[2], NULL, 10);
    hwloc_bitmap_t b = hwloc_bitmap_alloc(); int effi = -99; struct hwloc_infos_s *ip = NULL; char hs[80];
    errno = 0;
    int r = hwloc_cpukinds_get_info(T, id, b, &effi, &ip, flags);
    if (r < 0) { fprintf(fout, "r=%s\n", errname()); if (errno == EINVAL) st_info_einval++; else st_info_enoent++; }
    else { hexset(b, hs); fprintf(fout, "r=ok %s e=%d", hs, effi); show_infos(ip); fputc('\n', fout); }
    hwloc_bitmap_free(b);
  } else {
    fprintf(fout, "bad-op\n");
  }
}

/* ---------------- generator ---------------- */

static const char *freqvals[] = { "1000", "2000", "3000", "0", "-5", "12abc", "abc", "+7", "007", "4294967297",
                                  "1048576", "1049576", "2097152", "1500" };
static const char *ctvals[] = { "IntelAtom", "IntelCore", "Other", "IntelAtom", "IntelCore" };
static const char *misc[] = { "x", "y", "1" };

static unsigned long kindset(int i) { /* low word of kind i's cpuset through the public API */
  hwloc_bitmap_t b = hwloc_bitmap_alloc();
  unsigned long w = 0;
  if (hwloc_cpukinds_get_info(T, i, b, NULL, NULL, 0) == 0) w = hwloc_bitmap_to_ulong(b);
  hwloc_bitmap_free(b);
  return w;
}
static unsigned long covered(void) {
  unsigned long u = 0; int nr = hwloc_cpukinds_get_nr(T, 0);
  for (int i = 0; i < nr; i++) u |= kindset(i);
  return u;
}
static unsigned long rndmask(unsigned bits, unsigned pct) {
  unsigned long m = 0;
  for (unsigned i = 0; i < bits; i++) if (rng_chance(pct)) m |= 1UL << i;
  return m;
}
static unsigned long subset_of(unsigned long s, unsigned pct) {
  unsigned long m = 0;
  for (unsigned i = 0; i < 64; i++) if ((s >> i & 1) && rng_chance(pct)) m |= 1UL << i;
  return m;
}

static void gen_set(char *out, unsigned universe) {
  int nr = hwloc_cpukinds_get_nr(T, 0);
  unsigned long m = 0, hi = 0;
  unsigned c = rng_below(100);
  if (c < 22) m = rndmask(universe, 10 + rng_below(60));
  else if (c < 30) m = 1UL << rng_below(universe);
  else if (c < 42) { unsigned a = rng_below(universe), l = 1 + rng_below(universe - a); m = ((l >= 64 ? ~0UL : (1UL << l) - 1)) << a; }
  else if (c < 52 && nr) m = kindset(rng_below(nr));                                   /* EQUAL */
  else if (c < 62 && nr) { m = kindset(rng_below(nr)) | kindset(rng_below(nr)); if (rng_chance(40)) m |= rndmask(universe, 15); } /* CONTAINS */
  else if (c < 74 && nr) { m = subset_of(kindset(rng_below(nr)), 50); }                   /* INCLUDED */
  else if (c < 84 && nr) { m = subset_of(kindset(rng_below(nr)), 60) | subset_of(kindset(rng_below(nr)), 60) | (rng_chance(30) ? rndmask(universe, 10) : 0); } /* INTERSECTS several */
  else if (c < 90) m = ((universe >= 64 ? ~0UL : (1UL << universe) - 1)) & ~covered();    /* exactly the uncovered PUs */
  else if (c < 95) m = (universe >= 64 ? ~0UL : (1UL << universe) - 1);
  else m = rndmask(universe, 50);
  if (rng_chance(3)) hi = 1 + rng_below(3);          /* PUs 64, 65: second word */
  if (!m && !hi && !rng_chance(15)) m = 1UL << rng_below(universe);
  if (hi) sprintf(out, "%lx%016lx", hi, m); else sprintf(out, "%lx", m);
}

static void gen_infos(char *out, int profile, int regno) {
  out[0] = 0;
  char tmp[128];
  if (profile == 2) {          /* hybrid-like: distinct core types / base frequencies per register */
    if (rng_chance(85)) { sprintf(tmp, " CoreType=%s", ctvals[regno % 2]); strcat(out, tmp); }
    if (rng_chance(70)) { sprintf(tmp, " FrequencyBaseMHz=%u", 1000 + 100 * (unsigned)(regno % 9)); strcat(out, tmp); }
    if (rng_chance(40)) { sprintf(tmp, " FrequencyMaxMHz=%u", 3000 + 100 * (unsigned)(regno % 7)); strcat(out, tmp); }
    return;
  }
  if (profile == 3 && !rng_chance(20)) return;   /* forced-efficiency profile: few infos */
  unsigned n = rng_below(4);
  for (unsigned i = 0; i < n; i++) {
    unsigned c = rng_below(100);
    if (c < 25) sprintf(tmp, " CoreType=%s", ctvals[rng_below(5)]);
    else if (c < 50) sprintf(tmp, " FrequencyMaxMHz=%s", freqvals[rng_below(14)]);
    else if (c < 75) sprintf(tmp, " FrequencyBaseMHz=%s", freqvals[rng_below(14)]);
    else if (c < 88) sprintf(tmp, " Foo=%s", misc[rng_below(3)]);
    else sprintf(tmp, " Bar=%s", misc[rng_below(3)]);
    strcat(out, tmp);
  }
}

static int gen_forced(int profile, int regno) {
  if (profile == 3) return rng_chance(85) ? (int) ((regno * 7 + 3) % 11) : (int) rng_below(6);
  if (profile == 2) return rng_chance(85) ? -1 : (int) rng_below(4);
  unsigned c = rng_below(100);
  if (c < 40) return -1;
  if (c < 90) return (int) rng_below(6);
  if (c < 94) return -7;
  if (c < 97) return 1000000;
  return 2147483647;
}

static unsigned long rootmask(void) { return hwloc_bitmap_to_ulong(hwloc_get_root_obj(T)->cpuset); }
static unsigned long allowedmask(void) { return hwloc_bitmap_to_ulong(hwloc_topology_get_allowed_cpuset(T)); }

/* one hwloc_topology_allow call: mostly CUSTOM with a set chosen against the root / allowed cpusets and the current
 * kinds (random subsets, disallowing part of a kind / a whole kind / everything but one kind, shrinking, growing),
 * sometimes ALL, an empty / disjoint / NULL set, invalid or unsupported flags.  On a topology without the
 * INCLUDE_DISALLOWED flag every one of them is refused. */
static void gen_allow(void) {
  char line[128];
  unsigned long root = rootmask(), allowed = allowedmask(), m = 0;
  int nr = hwloc_cpukinds_get_nr(T, 0);
  unsigned d = rng_below(100);
  if (d < 38) m = subset_of(root, 40 + rng_below(50));
  else if (d < 50 && nr) m = root & ~subset_of(kindset(rng_below(nr)), 60);
  else if (d < 60 && nr) m = root & ~kindset(rng_below(nr));
  else if (d < 68 && nr) m = kindset(rng_below(nr));
  else if (d < 74) m = subset_of(allowed, 70);
  else if (d < 80) m = allowed | subset_of(root & ~allowed, 50);
  else if (d < 85) { exec_line("allow NULL 1"); return; }
  else if (d < 88) m = 0xffff0000UL;
  else if (d < 90) { exec_line("allow NULL 4"); return; }
  else if (d < 94) {
    static const unsigned long badf[] = { 0, 1, 2, 3, 5, 6, 7, 8, 12, 1UL << 20 };
    sprintf(line, "allow %lx %lu", subset_of(root, 60), badf[rng_below(10)]);
    exec_line(line); return;
  }
  else if (d < 96) { exec_line("allow NULL 2"); return; }
  else m = rndmask(16, 50);
  if (!m && !rng_chance(20)) m = root & (~root + 1);
  if (rng_chance(2)) sprintf(line, "allow 1%016lx 4", m);
  else sprintf(line, "allow %lx 4", m);
  exec_line(line);
}

static void gen_queries(void) {
  char line[256];
  int nr = hwloc_cpukinds_get_nr(T, 0);
  unsigned nq = 2 + rng_below(3);
  for (unsigned q = 0; q < nq; q++) {
    unsigned long m = 0; unsigned long flags = 0;
    unsigned c = rng_below(100);
    unsigned long cov = covered();
    unsigned long unc = 0xffffUL & ~cov;
    unsigned long disallowed = rootmask() & ~allowedmask();
    if (disallowed && rng_chance(25)) {   /* queries over PUs that are in the topology but disallowed */
      m = subset_of(disallowed, 50);
      if (nr && rng_chance(40)) m |= subset_of(kindset(rng_below(nr)), 40);
      if (nr && rng_chance(30)) m &= kindset(rng_below(nr));
      if (!m) m = disallowed & (~disallowed + 1);
      sprintf(line, "by %lx 0", m);
      exec_line(line);
      continue;
    }
    if (c < 30 && nr) { m = subset_of(kindset(rng_below(nr)), 60); }
    else if (c < 40 && nr) m = kindset(rng_below(nr));
    else if (c < 55 && nr) m = subset_of(kindset(rng_below(nr)), 60) | subset_of(kindset(rng_below(nr)), 60);
    else if (c < 67 && nr) m = subset_of(kindset(rng_below(nr)), 70) | subset_of(unc, 30);
    else if (c < 77) m = subset_of(unc, 50);
    else if (c < 82 && nr) m = kindset(rng_below(nr)) | (1UL << rng_below(16));
    else if (c < 94) m = rndmask(16, 5 + rng_below(40));
    else if (c < 96) { sprintf(line, "by NULL 0"); exec_line(line); continue; }
    else if (c < 98) m = 0;
    else { m = rndmask(16, 30); flags = 1UL << rng_below(3); }
    if (!m && c < 94) m = rng_chance(50) && cov ? cov & (~cov + 1) : 1UL << rng_below(16);
    if (rng_chance(2)) sprintf(line, "by 1%016lx %lu", m, flags);
    else sprintf(line, "by %lx %lu", m, flags);
    exec_line(line);
  }
}

static void gen_env(void) {
  char line[64];
  sprintf(line, "env %s", envvals[rng_below(NENV)]);
  exec_line(line);
  st_env_switch++;
}

static void shuffle(unsigned *a, unsigned n) {
  for (unsigned i = n; i > 1; i--) { unsigned j = rng_below(i), t = a[i - 1]; a[i - 1] = a[j]; a[j] = t; }
}

/* re-rank the current kinds under every value of HWLOC_CPUKINDS_RANKING (random order): env <v>, then a call that ranks
 * (refresh, XML round trip, dup + refresh) */
static void gen_sweep(unsigned nvals) {
  char line[64];
  unsigned order[NENV];
  for (unsigned i = 0; i < NENV; i++) order[i] = i;
  shuffle(order, NENV);
  for (unsigned i = 0; i < nvals && i < NENV; i++) {
    sprintf(line, "env %s", envvals[order[i]]);
    exec_line(line);
    st_env_switch++;
    unsigned c = rng_below(100);
    if (c < 70) exec_line("refresh");
    else if (c < 80) exec_line("xml");
    else if (c < 90) exec_line("xmlv2");
    else { exec_line("dup"); exec_line("refresh"); }
    if (last_ranked >= 0) st_sweep[order[i]][last_ranked]++;
    if (rng_chance(25)) gen_queries();
  }
}

/* ranking-focused episode (profile 4): 2-5 kinds over disjoint PU sets whose forced efficiencies and CoreType /
 * FrequencyMaxMHz / FrequencyBaseMHz pairs follow a scenario (all known and distinct, ties, partially unknown, unknown;
 * absent, distinct, equal across kinds, absent in one kind, non-numeric / zero in one kind, values beyond 2^20 that
 * collide with the core-type bits), registered in random order, then re-ranked under every strategy */
static void gen_rank_episode(unsigned npu) {
  char line[2048], tmp[160];
  static const char *nonnum[] = { "abc", "12abc", "-5", "+7", "007", "4294967297", "0", "0x10", "1e3", "-0", "2147483648", "x9" };
  static const unsigned bigf[] = { 1048576, 1049576, 2097152, 1500, 3000 };
  static const int bigforced[] = { 0, 7, 1000000, 2147483647, 2147483646 };
  unsigned nk = rng_chance(45) ? 2 : 3 + rng_below(3);
  unsigned fmode = rng_below(7), ctmode = rng_below(6), mxmode = rng_below(7), bsmode = rng_below(7);
  unsigned pf[5] = {0,1,2,3,4}, pm[5] = {0,1,2,3,4}, pb[5] = {0,1,2,3,4}, order[5] = {0,1,2,3,4};
  unsigned oddf = rng_below(nk), oddc = rng_below(nk), oddm = rng_below(nk), oddb = rng_below(nk), ctoff = rng_below(2);
  unsigned long masks[5] = {0,0,0,0,0};
  shuffle(pf, 5); shuffle(pm, 5); shuffle(pb, 5); shuffle(order, nk);
  st_rank_episodes++;
  for (unsigned i = 0; i < npu; i++) masks[i < nk ? i : rng_below(nk)] |= 1UL << i;
  if (fmode <= 1) st_rk_forced_distinct++; else if (fmode == 2 || fmode == 5) st_rk_forced_ties++;
  else if (fmode == 3 || fmode == 6) st_rk_forced_partial++; else st_rk_forced_none++;
  for (unsigned q = 0; q < nk; q++) {
    unsigned j = order[q];
    int forced;
    switch (fmode) {
    case 0: forced = (int) (10 * pf[j] + rng_below(3)); break;                                /* all known, distinct */
    case 1: forced = bigforced[pf[j]]; break;                                                  /* distinct, up to INT_MAX */
    case 2: forced = (int) (10 * pf[j == oddf ? (oddf + 1) % nk : j]); break;                  /* one tie */
    case 3: forced = j == oddf ? (rng_chance(50) ? -1 : -7) : (int) (10 * pf[j]); break;       /* one unknown */
    case 4: forced = -1; break;                                                                /* all unknown */
    case 5: forced = 3; break;                                                                 /* all equal */
    default: forced = rng_chance(50) ? -1 : (int) (10 * pf[j]); break;                         /* several unknown */
    }
    char parts[4][160]; unsigned np = 0;
    if (ctmode && !(ctmode == 3 && j == oddc)) {
      const char *v = ctmode == 2 ? ctvals[ctoff] : (ctmode == 4 && j == oddc) ? "Other" : (ctmode == 5 && j == oddc) ? "intelcore" : ctvals[(j + ctoff) % 2];
      sprintf(parts[np++], " CoreType=%s", v);
    }
    if (mxmode && !(mxmode == 3 && j == oddm)) {
      unsigned v = mxmode == 6 ? bigf[pm[j]] : 1000 + 500 * pm[(mxmode == 2 && j == oddm) ? (oddm + 1) % nk : j];
      if (mxmode == 4 && j == oddm) sprintf(parts[np++], " FrequencyMaxMHz=%s", nonnum[rng_below(12)]);
      else if (mxmode == 5 && j == oddm) sprintf(parts[np++], " FrequencyMaxMHz=0");
      else sprintf(parts[np++], " FrequencyMaxMHz=%u", v);
    }
    if (bsmode && !(bsmode == 3 && j == oddb)) {
      unsigned v = bsmode == 6 ? bigf[pb[j]] : 800 + 300 * pb[(bsmode == 2 && j == oddb) ? (oddb + 1) % nk : j];
      if (bsmode == 4 && j == oddb) sprintf(parts[np++], " FrequencyBaseMHz=%s", nonnum[rng_below(12)]);
      else if (bsmode == 5 && j == oddb) sprintf(parts[np++], " FrequencyBaseMHz=0");
      else sprintf(parts[np++], " FrequencyBaseMHz=%u", v);
    }
    if (rng_chance(30)) sprintf(parts[np++], " Foo=%s", misc[rng_below(3)]);
    unsigned po[4] = {0,1,2,3};
    shuffle(po, np);
    sprintf(line, "reg %lx %d 0", masks[j], forced);
    for (unsigned i = 0; i < np; i++) strcat(line, parts[po[i]]);
    exec_line(line);
    if (rng_chance(30)) gen_queries();
  }
  /* a later registration of a whole kind adds a second pair of the same name (the last one counts for the ranking) and
   * overwrites the forced efficiency */
  if (rng_chance(35)) {
    unsigned j = rng_below(nk);
    static const char *names[] = { "FrequencyMaxMHz", "FrequencyBaseMHz", "CoreType" };
    unsigned w = rng_below(3);
    if (w == 2) sprintf(tmp, " CoreType=%s", ctvals[rng_below(5)]);
    else if (rng_chance(25)) sprintf(tmp, " %s=%s", names[w], nonnum[rng_below(12)]);
    else sprintf(tmp, " %s=%u", names[w], 700 + 100 * rng_below(40));
    sprintf(line, "reg %lx %d 0%s", masks[j], rng_chance(50) ? (int) rng_below(50) : -1, tmp);
    exec_line(line);
    st_rk_override++;
  }
  /* leave the reachable states: permute the array, plant forced efficiencies no public call stores (negative other than
   * -1: ranked by their uint64_t cast) and stale efficiencies, rank directly */
  if (rng_chance(35)) {
    /* negative values stay above -1000000000: hwloc__xml_export_cpukinds prints into char tmp[11] and truncates 11-character
     * values (latent, unreachable through the public API; corpus/cpukinds.findings/xml-export-forced-below-minus-1e9.txt) */
    static const int rawf[] = { -7, -999999999, -2, 5, 2147483647, -1, 0, 12, 1 };
    static const int rawe[] = { -1, 0, 3, 99, -5 };
    unsigned n = 1 + rng_below(4);
    for (unsigned i = 0; i < n; i++) {
      int nr = hwloc_cpukinds_get_nr(T, 0);
      if (rng_chance(40)) sprintf(line, "rawswap %u %u", rng_below(nr + 1), rng_below(nr + 1));
      else {
        int f = rawf[rng_below(9)];
        if (f < -1) st_raw_negative_forced++;
        sprintf(line, "rawset %u %d %d", rng_below(nr + 1), f, rawe[rng_below(5)]);
      }
      exec_line(line);
    }
    if (rng_chance(50)) exec_line("rawrank");
  }
  gen_sweep(NENV);
  if (rng_chance(50)) {           /* drop one kind (re-ranked by restrict under the value in force), then a short sweep */
    int nr = hwloc_cpukinds_get_nr(T, 0);
    if (nr >= 2) {
      sprintf(line, "restrict %lx", rootmask() & ~kindset(rng_below(nr)));
      exec_line(line);
      st_rk_restrict++;
      gen_queries();
      gen_sweep(4);
    }
  }
}

static void generate(unsigned long nops) {
  char line[2048], set[80], infos[512];
  static const unsigned npus[] = { 8, 12, 12, 16 };
  const char *pf = getenv("VERIF_C15_PROFILE");
  const char *strat = getenv("VERIF_C15_STRATEGY");
  int ireg = getenv("VERIF_C15_IREG") && atoi(getenv("VERIF_C15_IREG"));
  const char *pd = getenv("VERIF_C15_DISALLOWED");    /* force (1) / forbid (0) INCLUDE_DISALLOWED episodes; default: half */
  include_split_forced = getenv("VERIF_C15_INCLUDE_SPLIT_FORCED") && atoi(getenv("VERIF_C15_INCLUDE_SPLIT_FORCED"));
  /* VERIF_C15_ENVMIX=1: the value of HWLOC_CPUKINDS_RANKING changes between episodes and between the calls of an episode,
   * and a quarter of the episodes are ranking-focused (profile 4) */
  int envmix = getenv("VERIF_C15_ENVMIX") && atoi(getenv("VERIF_C15_ENVMIX"));
  sprintf(line, "env %s", strat ? strat : "dflt");
  exec_line(line);
  while (st_ops < nops) {
    unsigned npu = npus[rng_below(4)];
    int profile = pf ? atoi(pf) : (int) (1 + rng_below(envmix ? 4 : 3));
    unsigned universe = rng_chance(70) ? npu : 16;       /* registering PUs the topology does not have */
    if (universe < npu) universe = npu;
    unsigned len = 8 + rng_below(40);
    int regno = (int) rng_below(5);
    int dis = pd ? atoi(pd) : (int) rng_chance(50);
    sprintf(line, "%s %lx", dis ? "initd" : "init", (1UL << npu) - 1);
    exec_line(line);
    if (envmix && rng_chance(70)) gen_env();
    /* disallow some PUs before anything is registered (most INCLUDE_DISALLOWED episodes) */
    if (dis && rng_chance(85)) gen_allow();
    if (profile == 4) { gen_rank_episode(npu); profile = (int) (1 + rng_below(3)); len = rng_below(12); }
    for (unsigned k = 0; k < len; k++) {
      if (envmix && rng_chance(5)) { gen_env(); continue; }
      /* hwloc_topology_allow between the other calls: the kinds must not move */
      if (rng_chance(dis ? 9 : 1)) { gen_allow(); gen_queries(); continue; }
      unsigned c = rng_below(100);
      if (c < 58) {
        gen_set(set, universe);
        gen_infos(infos, profile, regno);
        int f = gen_forced(profile, regno);
        regno++;
        unsigned long flags = rng_chance(2) ? (1UL << rng_below(4)) : 0;
        if (rng_chance(1)) strcpy(set, "NULL");
        if (ireg && strcmp(set, "NULL") && rng_chance(35)) {
          unsigned d = rng_below(100);
          flags = d < 60 ? 0 : d < 90 ? 1 : (2UL << rng_below(3)) | rng_below(2);
          if (!flags && !include_split_forced) {
            hwloc_bitmap_t b = parseset(set);
            if (would_split_known_forced(b, f)) { flags = 1; st_ireg_class_avoided++; }
            hwloc_bitmap_free(b);
          }
          sprintf(line, "ireg %s %d %lu%s", set, f, flags, infos);
        } else
          sprintf(line, "reg %s %d %lu%s", set, f, flags, infos);
        exec_line(line);
      } else if (c < 70) {
        unsigned long root = hwloc_bitmap_to_ulong(hwloc_get_root_obj(T)->cpuset), m;
        int nr = hwloc_cpukinds_get_nr(T, 0);
        unsigned d = rng_below(100);
        unsigned long allowed = allowedmask();
        if (allowed != root && rng_chance(35)) {
          /* shapes against the allowed cpuset: exactly the allowed PUs, only disallowed PUs (refused although the
           * set meets the topology), one allowed PU plus most of the disallowed ones, allowed part of a kind */
          unsigned e = rng_below(100);
          if (e < 20) m = allowed;
          else if (e < 40) m = subset_of(root & ~allowed, 70);
          else if (e < 60) m = (allowed & (~allowed + 1)) | subset_of(root & ~allowed, 85);
          else if (e < 80) m = subset_of(allowed, 60) | (root & ~allowed);
          else m = subset_of(allowed, 30) | subset_of(root & ~allowed, 50);
          if (!m) m = root & ~allowed;
        }
        else if (d < 40) m = subset_of(root, 75 + rng_below(20));
        else if (d < 65 && nr) m = root & ~kindset(rng_below(nr));           /* removes exactly one kind */
        else if (d < 75 && nr >= 2) m = root & ~kindset(0) & ~kindset(nr - 1);
        else if (d < 82) m = root;
        else if (d < 88) m = 0xffff0000UL;                                     /* disjoint: EINVAL */
        else if (d < 94 && nr) m = kindset(rng_below(nr)) | subset_of(root, 20);
        else m = rndmask(16, 50);
        sprintf(line, "restrict %lx", m);
        exec_line(line);
      } else if (c < 78) exec_line("dup");
      else if (c < 89) { char l[8]; strcpy(l, rng_chance(35) ? "xmlv2" : "xml"); exec_line(l); }
      else if (c < 92) exec_line("refresh");
      else if (c < 96) { sprintf(line, "nr %lu", rng_chance(50) ? 0UL : 1UL << rng_below(3)); exec_line(line); continue; }
      else { sprintf(line, "info %u %lu", rng_below(6), rng_chance(75) ? 0UL : 1UL << rng_below(3)); exec_line(line); continue; }
      gen_queries();
    }
  }
}

int main(int argc, char **argv) {
  const char *strat = getenv("VERIF_C15_STRATEGY");
  if (strat && strcmp(strat, "dflt")) setenv("HWLOC_CPUKINDS_RANKING", strat, 1); else unsetenv("HWLOC_CPUKINDS_RANKING");
  unsetenv("HWLOC_XMLFILE"); unsetenv("HWLOC_SYNTHETIC"); unsetenv("HWLOC_COMPONENTS"); unsetenv("HWLOC_THISSYSTEM");
  unsetenv("HWLOC_THISSYSTEM_ALLOWED_RESOURCES");
  include_stale = getenv("VERIF_C15_INCLUDE_STALE_SLOT_DEFECT") && atoi(getenv("VERIF_C15_INCLUDE_STALE_SLOT_DEFECT"));
  if (argc >= 4 && !strcmp(argv[1], "--replay")) {
    FILE *in = fopen(argv[2], "r");
    fout = fopen(argv[3], "w");
    fops = fopen(argc >= 5 ? argv[4] : "/dev/null", "w");
    if (!in || !fout || !fops) return 2;
    char line[2048];
    while (fgets(line, sizeof line, in)) {
      if (line[0] == '#' || line[0] == '\n') continue;
      exec_line(line);
      fflush(fout);
    }
    fclose(fout); fclose(fops);
    if (T) hwloc_topology_destroy(T);
    return 0;
  }
  if (argc < 5) { fprintf(stderr, "usage: cpukinds <nops> <ops> <out> <stats> | --replay <ops> <out> [<effops>]\n"); return 2; }
  rng_seed(rng_seed_from_env());
  fops = fopen(argv[2], "w"); fout = fopen(argv[3], "w");
  if (!fops || !fout) return 2;
  setvbuf(fout, NULL, _IOLBF, 0); setvbuf(fops, NULL, _IOLBF, 0);
  generate(strtoul(argv[1], NULL, 10));
  fclose(fops); fclose(fout);
  if (T) hwloc_topology_destroy(T);
  FILE *fs = fopen(argv[4], "w");
  if (fs) {
#define S(n) fprintf(fs, #n " %lu\n", st_##n)
    S(ops); S(episodes); S(reg); S(regskip); S(reg_einval); S(restrict_ok); S(restrict_einval); S(restrict_removed);
    S(dup); S(xml); S(refresh); S(by_idx); S(by_exdev); S(by_enoent); S(by_einval); S(ranked); S(unranked);
    S(split); S(merge); S(newtail); S(outside_root); S(stale_seen); S(info_einval); S(info_enoent); S(ireg); S(ireg_class_avoided);
    S(dis_episodes); S(allow_ok); S(allow_einval); S(allow_strict); S(reg_over_disallowed); S(restrict_ok_strict);
    S(restrict_keeps_disallowed_kind_pu); S(restrict_einval_misses_allowed); S(restrict_removed_strict);
    S(dup_strict); S(xml_strict); S(obs_strict_with_kinds); S(by_disallowed_idx);
    for (int i = 0; i < 6; i++) fprintf(fs, "nr_%d%s %lu\n", i, i == 5 ? "plus" : "", st_nr[i]);
    S(env); S(env_switch); S(rank_episodes); S(rk_forced_distinct); S(rk_forced_ties); S(rk_forced_partial); S(rk_forced_none);
    S(rk_override); S(rk_restrict); S(rawset); S(rawswap); S(rawrank); S(raw_negative_forced);
    for (int i = 0; i < NENV; i++) {
      fprintf(fs, "sweep_%s_ranked %lu\n", envvals[i], st_sweep[i][1]);
      fprintf(fs, "sweep_%s_unranked %lu\n", envvals[i], st_sweep[i][0]);
    }
    fclose(fs);
  }
  return 0;
}
