/* C20 harness (engine `tools`): the real command-line tools (hwloc-calc, hwloc-distrib, lstopo-no-graphics, hwloc-diff,
 * hwloc-patch), compiled from VERIF_REPO/utils with the sanitizer flags and linked into this binary with `main` renamed
 * (harness/tools/t_*.c), are run in forked children on generated topologies and command lines.
 *
 * usage: tools <nops> <ops-out> <c-out> <stats-out> <model-in-out>        (generate; seed = VERIF_SEED)
 *        tools --replay <ops-in> <c-out> <model-in-out>
 * env:   VERIF_TOOLS_XML = file listing XML inputs, VERIF_TOOLS_TMP = scratch directory (must exist)
 *
 * ops file      : LOAD lines and tool-run lines; model-in file: the same with the canonical dump after every LOAD.
 *   LOAD <S|X> <A|D|L|P> <synthetic description | xml path>
 *        A = as hwloc-calc loads (all types kept, IMPORT_SUPPORT), D = as hwloc-distrib loads (default filters, no flag),
 *        L = as lstopo loads (all kept, I/O important), P = as hwloc-diff/patch load (all kept, INCLUDE_DISALLOWED|IMPORT_SUPPORT)
 *   CALC <a|f> <stdin> <arg>*        hwloc-calc -i <input> [--if <fmt>] <arg>*      -> rc=0 out=<stdout> | rc=nz | crash … | timeout
 *   DISTRIB <a|f> <arg>*             hwloc-distrib -i <input> [--if <fmt>] <arg>*
 *   LRT <arg>*                       --largest round trip                            -> same=1 | same=0 … | na
 *   NI <level> <arg>*                -N vs -I                                        -> same=1 | same=0 … | na
 *   SL <stdin> <opt>*                stdin mode, line by line: `hwloc-calc -q <opt>*` fed <stdin> prints, for every input line,
 *                                    what `hwloc-calc -q <opt>* <locations of that line>` prints      -> same=1 cmp=<n> | same=0 … | na
 *   LSTOPO <a|f> <xml|synthetic> <flags> <tofile> lib=<ok|fail>                      -> rc=0 same=1 reload=1 | rc=nz
 *   DIFFPATCH <seed> complex=<0|1> pipe=<0|1> rev=<0|1>                              -> diff=0 patch=0 equiv=1 | diff=nz
 *   BADARGS <tool> <arg>*            a malformed command line                        -> rc=nz
 * Tokens are %XX-escaped (`%_` = empty string).
 */
#define _GNU_SOURCE
#include "dump.h"
#include "rng.h"
#include <errno.h>
#include <limits.h>
#include <stdarg.h>
#include <unistd.h>
#include <fcntl.h>
#include <signal.h>
#include <sys/wait.h>
#include <sys/stat.h>
#include <ctype.h>
#include <time.h>

/* the userdata callbacks lstopo installs for XML -> XML (utils/hwloc/misc.h; `usage` is referenced by other inline helpers there) */
static void usage(const char *name, FILE *where) { (void) name; (void) where; }
#include "misc.h"

int verif_calc_main(int, char **);
int verif_distrib_main(int, char **);
int verif_lstopo_main(int, char **);
int verif_diff_main(int, char **);
int verif_patch_main(int, char **);

static FILE *fops, *fc, *fmin;
static hwloc_topology_t topo;
static char cur_input[4096];
static const char *tmpdir;
static unsigned long nops_done;
static unsigned tool_timeout = 60;

/* ------------------------------------------------------------------ statistics */
#define MAXSTAT 128
static struct { char name[40]; unsigned long n; } stats[MAXSTAT]; static unsigned nstats;
static void stat_hit(const char *name) {
  for (unsigned i = 0; i < nstats; i++) if (!strcmp(stats[i].name, name)) { stats[i].n++; return; }
  if (nstats < MAXSTAT) { snprintf(stats[nstats].name, sizeof stats[nstats].name, "%s", name); stats[nstats++].n = 1; }
}

/* ------------------------------------------------------------------ escaping */
static int safe_byte(unsigned char b) { return b > 32 && b < 127 && b != '%'; }
static char *esc(const char *s, size_t n) {
  char *r = malloc(3 * n + 4), *p = r;
  if (!n) { strcpy(r, "%_"); return r; }
  for (size_t i = 0; i < n; i++) { unsigned char b = (unsigned char) s[i]; if (safe_byte(b)) *p++ = (char) b; else p += sprintf(p, "%%%02x", b); }
  *p = 0; return r;
}
static char *unesc(const char *s, size_t *lenp) {
  size_t n = strlen(s); char *r = malloc(n + 1), *p = r;
  if (!strcmp(s, "%_")) { *r = 0; if (lenp) *lenp = 0; return r; }
  for (size_t i = 0; i < n; i++) {
    if (s[i] == '%' && i + 2 < n + 0 + 1 && isxdigit((unsigned char) s[i + 1]) && isxdigit((unsigned char) s[i + 2])) {
      unsigned v; sscanf(s + i + 1, "%2x", &v); *p++ = (char) v; i += 2;
    } else *p++ = s[i];
  }
  *p = 0; if (lenp) *lenp = (size_t) (p - r); return r;
}

/* ------------------------------------------------------------------ running a tool */
struct result { int rc; int sig; int san; char *out; size_t outlen; };
static char *slurp(const char *path, size_t *lenp) {
  FILE *f = fopen(path, "rb"); if (!f) { *lenp = 0; return strdup(""); }
  size_t cap = 1 << 16, n = 0; char *b = malloc(cap + 1);
  for (;;) { size_t r = fread(b + n, 1, cap - n, f); n += r; if (n < cap) break; cap *= 2; b = realloc(b, cap + 1); }
  fclose(f); b[n] = 0; *lenp = n; return b;
}
static void path_in_tmp(char *buf, size_t cap, const char *name) { snprintf(buf, cap, "%s/%s", tmpdir, name); }

static struct result run_tool(int (*mainf)(int, char **), int argc, char **argv, const char *in, size_t inlen) {
  struct result r = {0, 0, 0, NULL, 0};
  char pin[4200], pout[4200], perr[4200];
  path_in_tmp(pin, sizeof pin, "stdin"); path_in_tmp(pout, sizeof pout, "stdout"); path_in_tmp(perr, sizeof perr, "stderr");
  FILE *f = fopen(pin, "wb"); if (f) { if (inlen) fwrite(in, 1, inlen, f); fclose(f); }
  fflush(NULL);
  pid_t pid = fork();
  if (pid == 0) {
    int fd = open(pin, O_RDONLY); dup2(fd, 0); close(fd);
    fd = open(pout, O_WRONLY | O_CREAT | O_TRUNC, 0600); dup2(fd, 1); close(fd);
    fd = open(perr, O_WRONLY | O_CREAT | O_TRUNC, 0600); dup2(fd, 2); close(fd);
    if (chdir(tmpdir) < 0) _exit(97);      /* stray output files of the tools land in the scratch directory */
    alarm(tool_timeout);
    char **av = calloc(argc + 1, sizeof(*av));
    for (int i = 0; i < argc; i++) av[i] = strdup(argv[i]);   /* the tools write into argv strings */
    int rc = mainf(argc, av);
    fflush(NULL);
    _exit(rc & 255);
  }
  int status = 0;
  while (waitpid(pid, &status, 0) < 0 && errno == EINTR) ;
  if (WIFSIGNALED(status)) r.sig = WTERMSIG(status); else r.rc = WEXITSTATUS(status);
  r.out = slurp(pout, &r.outlen);
  size_t el; char *e = slurp(perr, &el);
  if (strstr(e, "AddressSanitizer") || strstr(e, "runtime error:") || strstr(e, "LeakSanitizer") || strstr(e, "Assertion")) r.san = 1;
  if (r.san || r.sig) { FILE *k = fopen("/dev/null", "w"); if (k) fclose(k); }
  if ((r.san || (r.sig && r.sig != SIGALRM)) && getenv("VERIF_TOOLS_SHOWERR")) fprintf(stderr, "--- tool stderr ---\n%.3000s\n", e);
  free(e);
  return r;
}
/* canonical result line */
static char *result_line(struct result *r) {
  char *line;
  if (r->sig == SIGALRM) return strdup("timeout");
  if (r->sig) { if (asprintf(&line, "crash sig=%d", r->sig) < 0) abort(); return line; }
  if (r->san) return strdup("crash san");
  if (r->rc) return strdup("rc=nz");
  char *e = esc(r->out, r->outlen);
  if (asprintf(&line, "rc=0 out=%s", e) < 0) abort();
  free(e); return line;
}

/* ------------------------------------------------------------------ topology construction */
static char cur_kind, cur_mode;
static void unload(void) {
  if (topo) { if (cur_mode == 'L' && cur_kind == 'X') hwloc_utils_userdata_free_recursive(hwloc_get_root_obj(topo)); hwloc_topology_destroy(topo); topo = NULL; }
}

static int setup_mode(hwloc_topology_t t, char mode) {
  switch (mode) {
  case 'A': hwloc_topology_set_all_types_filter(t, HWLOC_TYPE_FILTER_KEEP_ALL); return hwloc_topology_set_flags(t, HWLOC_TOPOLOGY_FLAG_IMPORT_SUPPORT);
  case 'D': return 0;
  case 'L': hwloc_topology_set_all_types_filter(t, HWLOC_TYPE_FILTER_KEEP_ALL); hwloc_topology_set_io_types_filter(t, HWLOC_TYPE_FILTER_KEEP_IMPORTANT);
            return hwloc_topology_set_flags(t, HWLOC_TOPOLOGY_FLAG_IMPORT_SUPPORT);
  case 'P': hwloc_topology_set_all_types_filter(t, HWLOC_TYPE_FILTER_KEEP_ALL);
            return hwloc_topology_set_flags(t, HWLOC_TOPOLOGY_FLAG_INCLUDE_DISALLOWED | HWLOC_TOPOLOGY_FLAG_IMPORT_SUPPORT);
  default: return -1;
  }
}
static hwloc_topology_t load_as(char kind, char mode, const char *arg, const char *xmlbuf, size_t xmllen) {
  hwloc_topology_t t;
  if (hwloc_topology_init(&t) < 0) return NULL;
  if (setup_mode(t, mode) < 0) { hwloc_topology_destroy(t); return NULL; }
  int err;
  if (mode == 'L' && (xmlbuf || kind == 'X')) {
    /* as lstopo does when both input and output are XML (harmless for its synthetic output): keep userdata, undecoded */
    putenv((char *) "HWLOC_XML_USERDATA_NOT_DECODED=1");
    hwloc_topology_set_userdata_import_callback(t, hwloc_utils_userdata_import_cb);
    hwloc_topology_set_userdata_export_callback(t, hwloc_utils_userdata_export_cb);
  }
  if (xmlbuf) err = hwloc_topology_set_xmlbuffer(t, xmlbuf, (int) xmllen + 1);
  else if (kind == 'S') err = hwloc_topology_set_synthetic(t, arg);
  else err = hwloc_topology_set_xml(t, arg);
  if (err < 0 || hwloc_topology_load(t) < 0) { hwloc_topology_destroy(t); return NULL; }
  return t;
}
static unsigned count_objs(hwloc_topology_t t) { struct dump_map m = {0}; unsigned budget = 2000000; dump_collect(&m, hwloc_get_root_obj(t), &budget); free(m.objs); return m.n; }
static char cur_restrict[1024];       /* argument of --restrict ("" = none) */
/* what hwloc-calc / hwloc-distrib do with `--restrict <arg>` after the load: the library calls, failures ignored */
static void apply_restrict(hwloc_topology_t t, char mode, const char *arg) {
  unsigned long flags = 0; const char *str = arg;
  /* hwloc-calc compares 7 characters of "nodeset=" and skips 8, hwloc-distrib compares 8 */
  if (!strncmp(arg, "nodeset=", mode == 'A' ? 7 : 8)) { str = strlen(arg) >= 8 ? arg + 8 : ""; flags |= HWLOC_RESTRICT_FLAG_BYNODESET; }
  hwloc_bitmap_t set = hwloc_bitmap_alloc();
  hwloc_bitmap_sscanf(set, str);
  hwloc_topology_restrict(t, set, flags);
  hwloc_bitmap_free(set);
}

/* ------------------------------------------------------------------ CPU kinds / memory attributes (B9) */
/* what the public API reports about CPU kinds and memory attribute values of `t`: one X* line each, sent to the model after the dump */
static unsigned dump_extras(FILE *f, hwloc_topology_t t) {
  unsigned lines = 0;
  int nr = hwloc_cpukinds_get_nr(t, 0);
  hwloc_bitmap_t set = hwloc_bitmap_alloc();
  for (int i = 0; i < nr; i++) {
    int eff = 0; struct hwloc_infos_s *infos = NULL;
    if (hwloc_cpukinds_get_info(t, (unsigned) i, set, &eff, &infos, 0) < 0) break;
    fprintf(f, "XKIND"); dump_set(f, set); fprintf(f, " %d %u", eff, infos ? infos->count : 0);
    for (unsigned j = 0; infos && j < infos->count; j++) {
      char *a = esc(infos->array[j].name, strlen(infos->array[j].name)), *b = esc(infos->array[j].value, strlen(infos->array[j].value));
      fprintf(f, " %s %s", a, b); free(a); free(b);
    }
    fputc('\n', f); lines++;
  }
  hwloc_bitmap_free(set);
  int nn = hwloc_get_nbobjs_by_type(t, HWLOC_OBJ_NUMANODE);
  for (hwloc_memattr_id_t id = 0; ; id++) {
    const char *name; unsigned long fl = 0;
    if (hwloc_memattr_get_name(t, id, &name) < 0) break;
    hwloc_memattr_get_flags(t, id, &fl);
    char *en = esc(name, strlen(name)); fprintf(f, "XATTR %u %lu %s\n", id, fl, en); free(en); lines++;
    for (int k = 0; k < nn; k++) {
      hwloc_obj_t n = hwloc_get_obj_by_type(t, HWLOC_OBJ_NUMANODE, (unsigned) k);
      if (fl & HWLOC_MEMATTR_FLAG_NEED_INITIATOR) {
        unsigned nbi = 0;
        if (hwloc_memattr_get_initiators(t, id, n, 0, &nbi, NULL, NULL) < 0) { fprintf(f, "XINIERR %u %llu\n", id, (unsigned long long) n->gp_index); lines++; continue; }
        struct hwloc_location *in = calloc(nbi + 1, sizeof *in); hwloc_uint64_t *v = calloc(nbi + 1, sizeof *v);
        if (hwloc_memattr_get_initiators(t, id, n, 0, &nbi, in, v) < 0) { fprintf(f, "XINIERR %u %llu\n", id, (unsigned long long) n->gp_index); lines++; free(in); free(v); continue; }
        fprintf(f, "XINI %u %llu %u", id, (unsigned long long) n->gp_index, nbi);
        for (unsigned j = 0; j < nbi; j++) {
          if (in[j].type == HWLOC_LOCATION_TYPE_CPUSET) { fprintf(f, " c"); dump_set(f, in[j].location.cpuset); fprintf(f, " %llu", (unsigned long long) v[j]); }
          else fprintf(f, " o %d %llu %llu", (int) in[j].location.object->type, (unsigned long long) in[j].location.object->gp_index, (unsigned long long) v[j]);
        }
        fputc('\n', f); lines++; free(in); free(v);
      } else {
        hwloc_uint64_t v = 0;
        if (!hwloc_memattr_get_value(t, id, n, NULL, 0, &v)) { fprintf(f, "XVAL %u %llu %llu\n", id, (unsigned long long) n->gp_index, (unsigned long long) v); lines++; }
      }
    }
  }
  return lines;
}

/* LOAD K: a synthetic topology decorated (deterministically from <seed>) with CPU kinds, memory attribute values, NUMA subtypes and
 * MemoryTier infos, exported to XML in the scratch directory; the XML file is what the tools (and the harness) load */
static uint64_t kx_state;
static uint64_t kx_next(void) { uint64_t z = (kx_state += 0x9e3779b97f4a7c15ULL); z = (z ^ (z >> 30)) * 0xbf58476d1ce4e5b9ULL; z = (z ^ (z >> 27)) * 0x94d049bb133111ebULL; return z ^ (z >> 31); }
static unsigned kx_below(unsigned n) { return n ? (unsigned) (kx_next() % n) : 0; }
static int kx_chance(unsigned pct) { return kx_below(100) < pct; }
static hwloc_obj_t kx_obj_with_cpus(hwloc_topology_t t) {
  int depth = hwloc_topology_get_depth(t); int d = (int) kx_below((unsigned) depth);
  unsigned n = hwloc_get_nbobjs_by_depth(t, d); return hwloc_get_obj_by_depth(t, d, kx_below(n));
}
static int build_decorated(uint64_t seed, const char *synthetic, char *path, size_t cap) {
  hwloc_topology_t t; kx_state = seed * 0x2545F4914F6CDD1DULL + 12345;
  if (hwloc_topology_init(&t) < 0) return -1;
  hwloc_topology_set_all_types_filter(t, HWLOC_TYPE_FILTER_KEEP_ALL);
  if (hwloc_topology_set_synthetic(t, synthetic) < 0 || hwloc_topology_load(t) < 0) { hwloc_topology_destroy(t); return -1; }
  int npu = hwloc_get_nbobjs_by_type(t, HWLOC_OBJ_PU), nn = hwloc_get_nbobjs_by_type(t, HWLOC_OBJ_NUMANODE), ncore = hwloc_get_nbobjs_by_type(t, HWLOC_OBJ_CORE);
  /* CPU kinds: 0..4 classes of whole cores (or of PUs), some PUs possibly in no kind, infos shared between kinds sometimes */
  unsigned nk = kx_chance(12) ? 0 : 1 + kx_below(4);
  static const char *ctype[] = {"IntelAtom", "IntelCore", "big", "LITTLE"};
  static const char *names[] = {"CoreType", "FrequencyMaxMHz", "Model", "x"};
  for (unsigned k = 0; k < nk; k++) {
    hwloc_bitmap_t set = hwloc_bitmap_alloc();
    int bycore = ncore > 0 && kx_chance(50);
    int n = bycore ? ncore : npu;
    for (int i = 0; i < n; i++) if ((unsigned) (kx_below(nk + (kx_chance(20) ? 1 : 0))) == k) {
      hwloc_obj_t o = hwloc_get_obj_by_type(t, bycore ? HWLOC_OBJ_CORE : HWLOC_OBJ_PU, (unsigned) i); hwloc_bitmap_or(set, set, o->cpuset); }
    if (hwloc_bitmap_iszero(set)) { hwloc_obj_t o = hwloc_get_obj_by_type(t, HWLOC_OBJ_PU, kx_below((unsigned) npu)); hwloc_bitmap_or(set, set, o->cpuset); }
    struct hwloc_info_s arr[3]; struct hwloc_infos_s infos = { arr, 0, 3 }; char val[3][32];
    unsigned ni = kx_below(4);
    for (unsigned j = 0; j < ni; j++) {
      unsigned w = kx_below(4);
      if (w == 0) snprintf(val[j], sizeof val[j], "%s", ctype[kx_below(4)]); else if (w == 1) snprintf(val[j], sizeof val[j], "%u", 1000 + 500 * kx_below(4));
      else if (w == 2) snprintf(val[j], sizeof val[j], "m%u", kx_below(2)); else snprintf(val[j], sizeof val[j], "%s", kx_chance(50) ? "y" : "a=b");
      arr[j].name = (char *) names[w]; arr[j].value = val[j]; infos.count++;
    }
    hwloc_cpukinds_register(t, set, kx_chance(60) ? (int) kx_below(5) : -1, &infos, 0);
    hwloc_bitmap_free(set);
  }
  /* NUMA subtypes and MemoryTier infos */
  if (kx_chance(50)) for (int i = 0; i < nn; i++) {
    hwloc_obj_t n = hwloc_get_obj_by_type(t, HWLOC_OBJ_NUMANODE, (unsigned) i);
    if (kx_chance(60)) { static const char *st[] = {"DRAM", "HBM", "NVM", "MCDRAM"}; free(n->subtype); n->subtype = strdup(st[kx_below(kx_chance(80) ? 2 : 4)]); }
    if (kx_chance(60)) { char b[8]; snprintf(b, sizeof b, "%u", kx_below(3)); hwloc_obj_add_info(n, "MemoryTier", b); }
  }
  /* memory attribute values: Bandwidth / Latency / ReadBandwidth with cpuset initiators, custom attributes with and without initiator */
  hwloc_memattr_id_t ids[6]; unsigned nid = 0;
  if (kx_chance(80)) ids[nid++] = HWLOC_MEMATTR_ID_BANDWIDTH;
  if (kx_chance(70)) ids[nid++] = HWLOC_MEMATTR_ID_LATENCY;
  if (kx_chance(30)) ids[nid++] = HWLOC_MEMATTR_ID_READ_BANDWIDTH;
  if (kx_chance(60)) { hwloc_memattr_id_t id; if (!hwloc_memattr_register(t, "Speed", HWLOC_MEMATTR_FLAG_HIGHER_FIRST, &id)) ids[nid++] = id; }
  if (kx_chance(40)) { hwloc_memattr_id_t id; if (!hwloc_memattr_register(t, "cost", HWLOC_MEMATTR_FLAG_LOWER_FIRST, &id)) ids[nid++] = id; }
  if (kx_chance(40)) { hwloc_memattr_id_t id; if (!hwloc_memattr_register(t, "Hops", HWLOC_MEMATTR_FLAG_LOWER_FIRST | HWLOC_MEMATTR_FLAG_NEED_INITIATOR, &id)) ids[nid++] = id; }
  for (unsigned a = 0; a < nid; a++) {
    unsigned long fl = 0; hwloc_memattr_get_flags(t, ids[a], &fl);
    unsigned skip_pct = kx_chance(50) ? 0 : 30, range = kx_chance(50) ? 3 : 1000;
    for (int i = 0; i < nn; i++) {
      hwloc_obj_t n = hwloc_get_obj_by_type(t, HWLOC_OBJ_NUMANODE, (unsigned) i);
      if (kx_chance(skip_pct)) continue;
      if (fl & HWLOC_MEMATTR_FLAG_NEED_INITIATOR) {
        unsigned ninit = 1 + kx_below(kx_chance(70) ? 1 : 3);
        for (unsigned j = 0; j < ninit; j++) {
          struct hwloc_location loc; loc.type = HWLOC_LOCATION_TYPE_CPUSET;
          hwloc_obj_t o = kx_chance(50) ? n : kx_obj_with_cpus(t);
          loc.location.cpuset = o->cpuset;
          if (hwloc_bitmap_iszero(o->cpuset)) continue;
          hwloc_memattr_set_value(t, ids[a], n, &loc, 0, 1 + kx_below(range));
        }
      } else hwloc_memattr_set_value(t, ids[a], n, NULL, 0, 1 + kx_below(range));
    }
  }
  path_in_tmp(path, cap, "decorated.xml");
  unlink(path);
  int err = hwloc_topology_export_xml(t, path, 0);
  hwloc_topology_destroy(t);
  return err;
}
static int load_topology(char kind, char mode, const char *restr, const char *arg) {
  static char kpath[4200];
  unload();
  if (kind == 'K') {             /* "<seed> <synthetic description>": build, decorate, export; the XML file is the input from here on */
    char *end; unsigned long long seed = strtoull(arg, &end, 10);
    if (end == arg || *end != ' ' || build_decorated(seed, end + 1, kpath, sizeof kpath) < 0) return -1;
    kind = 'X'; arg = kpath;
  }
  topo = load_as(kind, mode, arg, NULL, 0);
  if (!topo) return -1;
  if (restr && *restr) { if (mode != 'A' && mode != 'D') { unload(); return -1; } apply_restrict(topo, mode, restr); }
  if (count_objs(topo) > 700) { unload(); return -1; }
  cur_kind = kind; cur_mode = mode; snprintf(cur_input, sizeof cur_input, "%s", arg);
  snprintf(cur_restrict, sizeof cur_restrict, "%s", restr ? restr : "");
  return 0;
}
static char *dump_string(hwloc_topology_t t) {
  char *buf = NULL; size_t len = 0; FILE *f = open_memstream(&buf, &len);
  dump_topology(f, t, "x"); fclose(f); return buf;
}

/* ------------------------------------------------------------------ argv helpers */
#define MAXARG 1024
struct args { int n; char *v[MAXARG]; };
static void a_add(struct args *a, const char *s) { if (a->n < MAXARG - 1) a->v[a->n++] = strdup(s); }
static void a_free(struct args *a) { for (int i = 0; i < a->n; i++) free(a->v[i]); a->n = 0; }
static void a_input(struct args *a, const char *tool, int explicit_if) {
  a_add(a, tool); a_add(a, "-i"); a_add(a, cur_input);
  if (explicit_if) { a_add(a, "--if"); a_add(a, cur_kind == 'S' ? "synthetic" : "xml"); }
  if (cur_restrict[0]) { a_add(a, "--restrict"); a_add(a, cur_restrict); }
}

/* ------------------------------------------------------------------ op execution */
static char ansbuf[1 << 20];
static void set_ans(const char *s) { snprintf(ansbuf, sizeof ansbuf, "%s", s); }

static struct result calc_run(int explicit_if, const char *in, size_t inlen, int nextra, char **extra, int npre, const char **pre) {
  struct args a = {0};
  a_input(&a, "hwloc-calc", explicit_if);
  for (int i = 0; i < npre; i++) a_add(&a, pre[i]);
  for (int i = 0; i < nextra; i++) a_add(&a, extra[i]);
  struct result r = run_tool(verif_calc_main, a.n, a.v, in, inlen);
  a_free(&a);
  return r;
}
static int res_bad(struct result *r) { return r->sig || r->san; }

static void op_calc(int nt, char **t) {
  if (nt < 3) { set_ans("bad-op"); return; }
  size_t inlen; char *in = unesc(t[2], &inlen);
  char *av[MAXARG]; int n = 0;
  for (int i = 3; i < nt && n < MAXARG; i++) av[n++] = unesc(t[i], NULL);
  struct result r = calc_run(t[1][0] == 'f', in, inlen, n, av, 0, NULL);
  char *l = result_line(&r); set_ans(l); free(l); free(r.out); free(in);
  for (int i = 0; i < n; i++) free(av[i]);
}
static void op_distrib(int nt, char **t) {
  if (nt < 2) { set_ans("bad-op"); return; }
  struct args a = {0};
  a_input(&a, "hwloc-distrib", t[1][0] == 'f');
  for (int i = 2; i < nt; i++) { char *u = unesc(t[i], NULL); a_add(&a, u); free(u); }
  struct result r = run_tool(verif_distrib_main, a.n, a.v, NULL, 0);
  char *l = result_line(&r); set_ans(l); free(l); free(r.out); a_free(&a);
}
static void strip_nl(char *s) { size_t n = strlen(s); while (n && s[n - 1] == '\n') s[--n] = 0; }
static void op_lrt(int nt, char **t) {
  char *av[MAXARG]; int n = 0;
  for (int i = 1; i < nt && n < MAXARG; i++) av[n++] = unesc(t[i], NULL);
  const char *p1[] = {"--cof", "list"}, *p2[] = {"--largest"};
  struct result r1 = calc_run(0, NULL, 0, n, av, 2, p1), r2 = calc_run(0, NULL, 0, n, av, 1, p2);
  if (res_bad(&r1) || res_bad(&r2)) { char *l = result_line(res_bad(&r1) ? &r1 : &r2); set_ans(l); free(l); }
  else if (r1.rc || r2.rc) set_ans("na");
  else {
    char *bv[MAXARG]; int bn = 0; char *copy = strdup(r2.out);
    for (char *p = strtok(copy, " \n"); p && bn < MAXARG; p = strtok(NULL, " \n")) bv[bn++] = p;
    struct result r3 = {0, 0, 0, NULL, 0};
    const char *p3[] = {"--cof", "list", "-p"};     /* physical output indexes are fed back as physical input indexes */
    if (bn) r3 = calc_run(0, NULL, 0, bn, bv, n && !strcmp(av[0], "-p") ? 3 : 2, p3);
    if (!bn) set_ans("na");           /* the empty set has no largest objects to feed back */
    else if (res_bad(&r3)) { char *l = result_line(&r3); set_ans(l); free(l); }
    else if (r3.rc) set_ans("na");
    else if (!strcmp(r1.out, r3.out)) set_ans("same=1");
    else { strip_nl(r1.out); strip_nl(r3.out); snprintf(ansbuf, sizeof ansbuf, "same=0 %s vs %s", r1.out, r3.out); }
    free(copy); free(r3.out);
  }
  free(r1.out); free(r2.out);
  for (int i = 0; i < n; i++) free(av[i]);
}
static void op_ni(int nt, char **t) {
  if (nt < 2) { set_ans("bad-op"); return; }
  char *av[MAXARG]; int n = 0;
  for (int i = 1; i < nt && n < MAXARG; i++) av[n++] = unesc(t[i], NULL);
  const char *p1[] = {"-N"}, *p2[] = {"-I"};
  struct result r1 = calc_run(0, NULL, 0, n, av, 1, p1), r2 = calc_run(0, NULL, 0, n, av, 1, p2);
  if (res_bad(&r1) || res_bad(&r2)) { char *l = result_line(res_bad(&r1) ? &r1 : &r2); set_ans(l); free(l); }
  else if (r1.rc || r2.rc) set_ans("na");
  else {
    strip_nl(r1.out); strip_nl(r2.out);
    int numeric = r1.out[0] != 0; for (char *p = r1.out; *p; p++) if (!isdigit((unsigned char) *p)) numeric = 0;
    if (!numeric) { set_ans("na"); free(r1.out); free(r2.out); for (int i = 0; i < n; i++) free(av[i]); return; }
    unsigned items = 0; char *copy = strdup(r2.out);
    for (char *p = strtok(copy, ","); p; p = strtok(NULL, ",")) items++;
    char num[32]; snprintf(num, sizeof num, "%u", items);
    if (!strcmp(num, r1.out)) set_ans("same=1"); else snprintf(ansbuf, sizeof ansbuf, "same=0 N=%s I=%s", r1.out, r2.out);
    free(copy);
  }
  free(r1.out); free(r2.out);
  for (int i = 0; i < n; i++) free(av[i]);
}

/* stdin mode is line-by-line: every input line is computed from a fresh state, i.e. output line k = the output of the same options
 * with the locations of line k on the command line.  Lines without a token, lines whose command-line run fails or prints nothing
 * (every location ignored: that run falls back to reading its empty stdin) are not compared.  Also covers the output modes the
 * Lean model does not predict (memorytier, cpukind, --default-nodes, --local-memory). */
static void op_sl(int nt, char **t) {
  if (nt < 2) { set_ans("bad-op"); return; }
  size_t inlen; char *in = unesc(t[1], &inlen);
  char *av[MAXARG]; int n = 0;
  for (int i = 2; i < nt && n < MAXARG - 40; i++) av[n++] = unesc(t[i], NULL);
  const char *pre[] = {"-q"};
  char **lines = NULL; unsigned nl = 0; char **outs = NULL; unsigned no = 0; char *incopy = NULL;
  struct result r0 = {0, 0, 0, NULL, 0};
  if (memchr(in, 0, inlen)) { set_ans("na"); goto done; }
  /* the input lines (a final newline does not start another line) */
  incopy = strdup(in);
  lines = calloc(inlen + 2, sizeof(*lines));
  for (char *p = incopy; ; ) { lines[nl++] = p; char *e = strchr(p, '\n'); if (!e) break; *e = 0; p = e + 1; }
  if (nl && !*lines[nl - 1]) nl--;
  for (unsigned k = 0; k < nl; k++) {         /* a token starting with '-' would be an option on the command line */
    const char *p = lines[k];
    while (*p) { while (*p == ' ') p++; if (*p == '-') { set_ans("na"); goto done; } while (*p && *p != ' ') p++; }
  }
  r0 = calc_run(0, in, inlen, n, av, 1, pre);
  if (res_bad(&r0)) { char *l = result_line(&r0); set_ans(l); free(l); goto done; }
  if (r0.rc || memchr(r0.out, 0, r0.outlen) || (r0.outlen && r0.out[r0.outlen - 1] != '\n')) { set_ans("na"); goto done; }
  outs = calloc(r0.outlen + 2, sizeof(*outs));
  for (char *p = r0.out; *p; ) { outs[no++] = p; char *e = strchr(p, '\n'); *e = 0; p = e + 1; }
  if (no != nl) { set_ans("na"); goto done; }
  unsigned cmp = 0;
  for (unsigned k = 0; k < nl; k++) {
    char *copy = strdup(lines[k]); int m = n;
    for (char *p = strtok(copy, " "); p && m < MAXARG - 1; p = strtok(NULL, " ")) av[m++] = p;
    if (m == n) { free(copy); continue; }
    struct result rk = calc_run(0, NULL, 0, m, av, 1, pre);
    free(copy);
    if (res_bad(&rk)) { char *l = result_line(&rk); set_ans(l); free(l); free(rk.out); goto done; }
    if (rk.rc || !rk.outlen) { free(rk.out); continue; }
    size_t ol = strlen(outs[k]);
    if (rk.outlen != ol + 1 || memcmp(rk.out, outs[k], ol) || rk.out[ol] != '\n') {
      char *e1 = esc(outs[k], ol), *e2 = esc(rk.out, rk.outlen);
      snprintf(ansbuf, sizeof ansbuf, "same=0 line=%u stdin-mode=%.2000s command-line=%.2000s", k, e1, e2);
      free(e1); free(e2); free(rk.out); goto done;
    }
    free(rk.out); cmp++;
  }
  snprintf(ansbuf, sizeof ansbuf, "same=1 cmp=%u", cmp);
done:
  free(r0.out); free(lines); free(outs); free(incopy); free(in);
  for (int i = 0; i < n; i++) free(av[i]);
}

/* library-side reference for lstopo: export of the in-process topology (loaded exactly as lstopo loads it) */
static char *lib_export(const char *of, unsigned long flags, size_t *lenp) {
  if (!strcmp(of, "xml")) {
    char *b = NULL; int len = 0;
    if (hwloc_topology_export_xmlbuffer(topo, &b, &len, flags) < 0) return NULL;
    char *r = malloc(len + 1); memcpy(r, b, len); r[len] = 0;
    size_t n = strlen(r); *lenp = n; hwloc_free_xmlbuffer(topo, b); return r;
  } else {
    if (!hwloc_get_root_obj(topo)->symmetric_subtree) return NULL;
    int len = hwloc_topology_export_synthetic(topo, NULL, 0, flags);
    if (len < 0) return NULL;
    char *r = malloc(len + 2);
    if (hwloc_topology_export_synthetic(topo, r, len + 1, flags) < 0) { free(r); return NULL; }
    *lenp = strlen(r); return r;
  }
}
static void op_lstopo(int nt, char **t) {
  if (nt != 6 || cur_mode != 'L') { set_ans("bad-op"); return; }
  const char *of = t[2]; unsigned long flags = strtoul(t[3], NULL, 10); int tofile = atoi(t[4]);
  size_t reflen = 0; char *ref = lib_export(of, flags, &reflen);
  if (strcmp(t[5], ref ? "lib=ok" : "lib=fail")) { set_ans("libmismatch"); free(ref); return; }
  struct args a = {0}; char fl[32], outp[4200];
  a_input(&a, "lstopo-no-graphics", t[1][0] == 'f');
  snprintf(fl, sizeof fl, "%lu", flags);
  if (!strcmp(of, "xml")) { if (flags) { a_add(&a, "--export-xml-flags"); a_add(&a, fl); } }
  else if (flags) { a_add(&a, "--export-synthetic-flags"); a_add(&a, fl); }
  path_in_tmp(outp, sizeof outp, !strcmp(of, "xml") ? "lstopo-out.xml" : "lstopo-out.synthetic");
  unlink(outp);
  if (tofile) a_add(&a, outp); else { a_add(&a, "--of"); a_add(&a, of); }
  struct result r = run_tool(verif_lstopo_main, a.n, a.v, NULL, 0);
  a_free(&a);
  if (res_bad(&r) || r.rc) { char *l = result_line(&r); set_ans(l); free(l); free(r.out); free(ref); return; }
  if (!ref) { set_ans("rc=0 but-library-export-fails"); free(r.out); return; }
  size_t olen; char *out = tofile ? slurp(outp, &olen) : (olen = r.outlen, strdup(r.out));
  /* the synthetic output ends with a newline that the library string does not have; XML to stdout is the buffer itself */
  int same;
  if (!strcmp(of, "xml")) same = (olen == reflen && !memcmp(out, ref, reflen));
  else same = (olen == reflen + 1 && !memcmp(out, ref, reflen) && out[reflen] == '\n');
  /* reload */
  int reload = 0;
  if (!strcmp(of, "xml")) {
    hwloc_topology_t t2 = load_as('X', 'L', NULL, out, olen);
    if (t2) { char *d1 = dump_string(topo), *d2 = dump_string(t2); reload = !strcmp(d1, d2); free(d1); free(d2);
              hwloc_utils_userdata_free_recursive(hwloc_get_root_obj(t2)); hwloc_topology_destroy(t2);
              if (flags & HWLOC_TOPOLOGY_EXPORT_XML_FLAG_V2) reload = 1; /* the v2 format "may miss some details": loadable is all that is required */ }
  } else {
    char *desc = strdup(out); strip_nl(desc);
    hwloc_topology_t t2 = load_as('S', 'L', desc, NULL, 0);
    if (t2) {
      /* equivalence = same structure: the attribute-free exports agree (a reloaded description gets default attribute values,
       * e.g. memory=1GB for a NUMA node exported without memory) and the levels have the same types and sizes */
      size_t l2, l3; char *ref2 = lib_export(of, flags | HWLOC_TOPOLOGY_EXPORT_SYNTHETIC_FLAG_NO_ATTRS, &l3);
      hwloc_topology_t save = topo; topo = t2; char *again = lib_export(of, flags | HWLOC_TOPOLOGY_EXPORT_SYNTHETIC_FLAG_NO_ATTRS, &l2); topo = save;
      reload = again && ref2 && !strcmp(again, ref2);
      free(ref2);
      if (reload && !(flags & ~2UL)) {
        int d1 = hwloc_topology_get_depth(topo), d2 = hwloc_topology_get_depth(t2);
        if (d1 != d2) reload = 0;
        for (int d = 0; reload && d < d1; d++) if (hwloc_get_nbobjs_by_depth(topo, d) != hwloc_get_nbobjs_by_depth(t2, d) || hwloc_get_depth_type(topo, d) != hwloc_get_depth_type(t2, d)) reload = 0;
        if (hwloc_get_nbobjs_by_type(topo, HWLOC_OBJ_NUMANODE) != hwloc_get_nbobjs_by_type(t2, HWLOC_OBJ_NUMANODE)) reload = 0;
      }
      free(again); hwloc_topology_destroy(t2);
    }
    free(desc);
    if (flags & 1) reload = 1;      /* NO_EXTENDED_TYPES targets old parsers (hwloc < 1.9) and is lossy by design: no reload requirement */
  }
  snprintf(ansbuf, sizeof ansbuf, "rc=0 same=%d reload=%d", same, reload);
  free(out); free(r.out); free(ref);
}

/* edits for DIFFPATCH: applied to a duplicate of the current topology */
static void collect(hwloc_obj_t o, hwloc_obj_t **arr, unsigned *n, unsigned *cap) {
  if (*n == *cap) { *cap = *cap ? 2 * *cap : 256; *arr = realloc(*arr, *cap * sizeof(**arr)); }
  (*arr)[(*n)++] = o;
  for (hwloc_obj_t c = o->first_child; c; c = c->next_sibling) collect(c, arr, n, cap);
  for (hwloc_obj_t c = o->memory_first_child; c; c = c->next_sibling) collect(c, arr, n, cap);
  for (hwloc_obj_t c = o->io_first_child; c; c = c->next_sibling) collect(c, arr, n, cap);
  for (hwloc_obj_t c = o->misc_first_child; c; c = c->next_sibling) collect(c, arr, n, cap);
}
static void apply_edits(hwloc_topology_t t, uint64_t seed) {
  uint64_t save[2] = {rng_s[0], rng_s[1]};
  rng_seed(seed);
  hwloc_obj_t *objs = NULL; unsigned n = 0, cap = 0;
  collect(hwloc_get_root_obj(t), &objs, &n, &cap);
  unsigned nedits = rng_below(4);          /* 0 edits: empty diff */
  for (unsigned e = 0; e < nedits; e++) {
    hwloc_obj_t o = objs[rng_below(n)];
    switch (rng_below(6)) {
    case 0: case 1: /* change the value of an existing info */
      if (o->infos.count) { struct hwloc_info_s *i = &o->infos.array[rng_below(o->infos.count)]; char v[64]; snprintf(v, sizeof v, "edited%u", rng_below(1000)); free(i->value); i->value = strdup(v); }
      break;
    case 2: /* rename a named object */
      if (o->name) { char v[64]; snprintf(v, sizeof v, "renamed%u", rng_below(1000)); free(o->name); o->name = strdup(v); }
      break;
    case 3: /* cache / memory size */
      if (hwloc_obj_type_is_cache(o->type)) o->attr->cache.size += 4096 * (1 + rng_below(8));
      else if (o->type == HWLOC_OBJ_NUMANODE) o->attr->numanode.local_memory += 4096 * (1 + rng_below(8));
      break;
    case 4: /* a new info: not expressible */
      hwloc_obj_add_info(o, "VerifNew", "1");
      break;
    case 5: /* a new Misc object: not expressible */
      if (rng_chance(50)) hwloc_topology_insert_misc_object(t, o, "verif-misc");
      break;
    }
  }
  free(objs);
  rng_s[0] = save[0]; rng_s[1] = save[1];
}
static int export_file(hwloc_topology_t t, const char *path) { unlink(path); return hwloc_topology_export_xml(t, path, 0); }

/* builds t1.xml / t2.xml in the scratch directory; returns the library's verdict: 0 simple, 1 too complex, -1 failure */
static int diffpatch_prepare(uint64_t seed, char *p1, char *p2, size_t cap) {
  path_in_tmp(p1, cap, "t1.xml"); path_in_tmp(p2, cap, "t2.xml");
  hwloc_topology_t t2 = NULL;
  if (hwloc_topology_dup(&t2, topo) < 0) return -1;
  apply_edits(t2, seed);
  int e1 = export_file(topo, p1), e2 = export_file(t2, p2);
  hwloc_topology_destroy(t2);
  if (e1 < 0 || e2 < 0) return -1;
  hwloc_topology_t a = load_as('X', 'P', p1, NULL, 0), b = load_as('X', 'P', p2, NULL, 0);
  int complex = -1;
  if (a && b) {
    hwloc_topology_diff_t d = NULL;
    if (hwloc_topology_diff_build(a, b, 0, &d) >= 0) {
      complex = 0;
      for (hwloc_topology_diff_t x = d; x; x = x->generic.next) if (x->generic.type == HWLOC_TOPOLOGY_DIFF_TOO_COMPLEX) complex = 1;
      hwloc_topology_diff_destroy(d);
    }
  }
  if (a) hwloc_topology_destroy(a);
  if (b) hwloc_topology_destroy(b);
  return complex;
}
static void op_diffpatch(int nt, char **t) {
  if (nt != 5) { set_ans("bad-op"); return; }
  uint64_t seed = strtoull(t[1], NULL, 10); int pipe_ = atoi(t[3] + 5), rev = atoi(t[4] + 4);
  char p1[4200], p2[4200], pd[4200], po[4200];
  int complex = diffpatch_prepare(seed, p1, p2, sizeof p1);
  char want[32]; snprintf(want, sizeof want, "complex=%d", complex);
  if (strcmp(want, t[2])) { snprintf(ansbuf, sizeof ansbuf, "libmismatch %s", want); return; }
  path_in_tmp(pd, sizeof pd, "t.diff.xml"); path_in_tmp(po, sizeof po, "patched.xml"); unlink(pd); unlink(po);
  struct args a = {0};
  a_add(&a, "hwloc-diff"); a_add(&a, p1); a_add(&a, p2); if (!pipe_) a_add(&a, pd);
  struct result r = run_tool(verif_diff_main, a.n, a.v, NULL, 0); a_free(&a);
  if (res_bad(&r)) { char *l = result_line(&r); set_ans(l); free(l); free(r.out); return; }
  if (r.rc) { set_ans("diff=nz"); free(r.out); return; }
  a_add(&a, "hwloc-patch"); if (rev) a_add(&a, "-R");
  a_add(&a, rev ? p2 : p1); a_add(&a, pipe_ ? "-" : pd); a_add(&a, po);
  struct result q = run_tool(verif_patch_main, a.n, a.v, pipe_ ? r.out : NULL, pipe_ ? r.outlen : 0); a_free(&a);
  free(r.out);
  if (res_bad(&q)) { char *l = result_line(&q); set_ans(l); free(l); free(q.out); return; }
  if (q.rc) { set_ans("diff=0 patch=nz"); free(q.out); return; }
  free(q.out);
  hwloc_topology_t got = load_as('X', 'P', po, NULL, 0), exp = load_as('X', 'P', rev ? p1 : p2, NULL, 0);
  int equiv = 0;
  if (got && exp) { char *d1 = dump_string(got), *d2 = dump_string(exp); equiv = !strcmp(d1, d2); free(d1); free(d2); }
  if (got) hwloc_topology_destroy(got);
  if (exp) hwloc_topology_destroy(exp);
  snprintf(ansbuf, sizeof ansbuf, "diff=0 patch=0 equiv=%d", equiv);
}
static void op_badargs(int nt, char **t) {
  if (nt < 2) { set_ans("bad-op"); return; }
  int (*mf)(int, char **) = NULL; const char *name = t[1];
  if (!strcmp(name, "lstopo")) mf = verif_lstopo_main; else if (!strcmp(name, "diff")) mf = verif_diff_main;
  else if (!strcmp(name, "patch")) mf = verif_patch_main; else if (!strcmp(name, "calc")) mf = verif_calc_main;
  else if (!strcmp(name, "distrib")) mf = verif_distrib_main;
  if (!mf) { set_ans("bad-op"); return; }
  struct args a = {0}; char p1[4200];
  a_add(&a, name);
  for (int i = 2; i < nt; i++) {
    char *u = unesc(t[i], NULL);
    if (!strcmp(u, "@INPUT")) a_add(&a, cur_input);
    else if (!strcmp(u, "@T1")) { path_in_tmp(p1, sizeof p1, "t1.xml"); export_file(topo, p1); a_add(&a, p1); }
    else if (!strcmp(u, "@OUT")) { path_in_tmp(p1, sizeof p1, "bad-out.xml"); unlink(p1); a_add(&a, p1); }
    else a_add(&a, u);
    free(u);
  }
  struct result r = run_tool(mf, a.n, a.v, NULL, 0); a_free(&a);
  if (res_bad(&r) || r.rc) { char *l = result_line(&r); set_ans(l); free(l); }
  else set_ans("rc=0");
  free(r.out);
}

/* ------------------------------------------------------------------ line plumbing */
static void out_c(const char *s) { fputs(s, fc); fputc('\n', fc); fflush(fc); }

static void do_load_line(const char *line) {
  /* LOAD <S|X> <mode>[:<escaped --restrict argument>] <input> */
  char kind, modetok[1100]; int pos = 0;
  fprintf(fmin, "%s\n", line); fflush(fmin);
  if (sscanf(line, "LOAD %c %1099s %n", &kind, modetok, &pos) < 2 || !pos) { out_c("bad-load"); return; }
  char mode = modetok[0]; char *restr = NULL;
  if (modetok[1] == ':') restr = unesc(modetok + 2, NULL); else if (modetok[1]) { out_c("bad-load"); return; }
  int lerr = load_topology(kind, mode, restr, line + pos);
  free(restr);
  if (lerr < 0) { out_c("LOADFAIL"); return; }
  out_c(".");
  unsigned lines = dump_topology(fmin, topo, "t");
  fflush(fmin);
  for (unsigned i = 0; i + 1 < lines; i++) out_c(".");
  out_c("T ok");
  if (mode == 'A') { unsigned xl = dump_extras(fmin, topo); fflush(fmin); for (unsigned i = 0; i < xl; i++) out_c("."); }
}
#define MAXTOK 96
static void do_op_line(const char *line) {
  static char copy[1 << 18]; char *t[MAXTOK]; int nt = 0;
  fprintf(fmin, "%s\n", line); fflush(fmin);
  snprintf(copy, sizeof copy, "%s", line);
  for (char *p = strtok(copy, " "); p && nt < MAXTOK; p = strtok(NULL, " ")) t[nt++] = p;
  if (!nt) { out_c("bad-op"); return; }
  if (!topo) { out_c("no-topology"); return; }
  ansbuf[0] = 0;
  if (!strcmp(t[0], "CALC")) op_calc(nt, t);
  else if (!strcmp(t[0], "DISTRIB")) op_distrib(nt, t);
  else if (!strcmp(t[0], "LRT")) op_lrt(nt, t);
  else if (!strcmp(t[0], "NI")) op_ni(nt, t);
  else if (!strcmp(t[0], "SL")) op_sl(nt, t);
  else if (!strcmp(t[0], "LSTOPO")) op_lstopo(nt, t);
  else if (!strcmp(t[0], "DIFFPATCH")) op_diffpatch(nt, t);
  else if (!strcmp(t[0], "BADARGS")) op_badargs(nt, t);
  else set_ans("bad-op");
  out_c(ansbuf);
  nops_done++;
  if (getenv("VERIF_TOOLS_TIMING")) {
    static struct timespec last; struct timespec now; clock_gettime(CLOCK_MONOTONIC, &now);
    double dt = last.tv_sec ? (now.tv_sec - last.tv_sec) + 1e-9 * (now.tv_nsec - last.tv_nsec) : 0;
    if (dt > 0.3) fprintf(stderr, "[timing] %.2fs %.150s (input %.80s)\n", dt, line, cur_input);
    last = now;
  }
}
static void emit_line(const char *line) {
  fprintf(fops, "%s\n", line); fflush(fops);
  if (!strncmp(line, "LOAD ", 5)) do_load_line(line);
  else { char name[16]; sscanf(line, "%15s", name); stat_hit(name); do_op_line(line); }
}

/* ------------------------------------------------------------------ generators */
static int app(char *s, int off, int cap, const char *fmt, ...) {
  va_list ap; va_start(ap, fmt); int n = vsnprintf(s + off, cap - off, fmt, ap); va_end(ap);
  off += n; if (off >= cap) off = cap - 1; return off;
}
static void gen_synthetic(char *s, int cap) {
  static const char *fixed[] = {"pack:2 [numa] core:2 [numa] pu:2", "pack:2 [numa] l3:2 [numa] core:2 pu:2",
    "group:2 pack:2 [numa] [numa] core:2 pu:1", "numa:2 pack:1 l2:2 l1:1 core:1 pu:2", "pack:3 numa:1 core:2 pu:2",
    "pack:2 core:3 pu:2", "numa:4 core:4 pu:4", "pack:2 die:2 l3:1 l2:2 l1d:1 l1i:1 core:1 pu:2", "pu:1", "core:5 pu:1",
    "pack:2 numa:2 l2:3 core:2 pu:3", "numa:2(memory=1GB) pack:2 core:17 pu:2", "group:2 group:2 core:2 pu:2",
    "pack:4 [numa(memory=4GB)] [numa(memory=1GB)] core:4 pu:2", "numa:3 pack:1 core:2 pu:2(indexes=0,6,1,7,2,8,3,9,4,10,5,11)",
    "pack:2 core:2 pu:2(indexes=pack:core:pu)", "numa:2(indexes=1,0) core:2 pu:2", "pack:2 l3:2 core:8 pu:4"};
  if (rng_chance(35)) { snprintf(s, cap, "%s", fixed[rng_below(sizeof fixed / sizeof *fixed)]); return; }
  int off = 0; unsigned budget = rng_chance(25) ? 160 : 48;
  static const char *lv[] = {"group", "pack", "die", "l3", "l2", "l1d", "core"};
  int numa_done = 0, first = 1;
  for (unsigned i = 0; i < 7; i++) {
    if (!rng_chance(i == 6 ? 85 : 40)) continue;
    unsigned c = 1 + rng_below(rng_chance(60) ? 2 : 4); if (c > budget) c = 1; budget /= c;
    if (!numa_done && rng_chance(25)) { off = app(s, off, cap, "%snuma:%u", first ? "" : " ", 1 + rng_below(3)); first = 0; numa_done = 1; budget /= 2; if (!budget) budget = 1; }
    off = app(s, off, cap, "%s%s:%u", first ? "" : " ", lv[i], c); first = 0;
    if (!numa_done && rng_chance(20)) { off = app(s, off, cap, " [numa]"); if (rng_chance(30)) off = app(s, off, cap, " [numa]"); numa_done = rng_chance(70); }
  }
  unsigned c = 1 + rng_below(4); if (c > budget) c = 1;
  off = app(s, off, cap, "%spu:%u", first ? "" : " ", c);
}
/* a description that does not fit lstopo's 1024-byte first buffer: a few hundred PUs with an explicit, incompressible index list */
static void gen_synthetic_long(char *s, int cap) {
  unsigned cores = 130 + rng_below(60), n = cores * 2, *perm = malloc(n * sizeof *perm);
  for (unsigned i = 0; i < n; i++) perm[i] = i;
  for (unsigned i = n - 1; i > 0; i--) { unsigned j = rng_below(i + 1), x = perm[i]; perm[i] = perm[j]; perm[j] = x; }
  int off = app(s, 0, cap, rng_chance(50) ? "pack:2 core:%u pu:2(indexes=" : "numa:2 core:%u pu:2(indexes=", cores / 2);
  n = (cores / 2) * 2 * 2;
  for (unsigned i = 0, k = 0; k < n; i++) { if (perm[i] >= n) continue; off = app(s, off, cap, "%s%u", k ? "," : "", perm[i]); k++; }
  app(s, off, cap, ")");
  free(perm);
}
static char **xml_list; static unsigned nxml;
static void read_xml_list(void) {
  const char *p = getenv("VERIF_TOOLS_XML"); if (!p) return;
  FILE *f = fopen(p, "r"); if (!f) return;
  char line[4096]; unsigned cap = 0;
  while (fgets(line, sizeof line, f)) { strip_nl(line); if (!*line) continue; if (nxml == cap) { cap = cap ? 2 * cap : 64; xml_list = realloc(xml_list, cap * sizeof(*xml_list)); } xml_list[nxml++] = strdup(line); }
  fclose(f);
}
/* loads a fresh topology in `mode`; emits the LOAD line; returns 0 on success */
/* a --restrict argument for the loaded topology: a sub-cpuset, `nodeset=` a sub-nodeset, or something the library refuses */
static void gen_restrict(char *out, size_t cap) {
  char buf[512];
  int bynode = rng_chance(30);
  hwloc_const_bitmap_t whole = bynode ? hwloc_topology_get_topology_nodeset(topo) : hwloc_topology_get_topology_cpuset(topo);
  hwloc_bitmap_t b = hwloc_bitmap_alloc(); int i;
  if (!bynode && rng_chance(40)) {
    /* drop the whole cpuset of one or two NUMA nodes: they stay in the topology without CPUs (default restrict flags) */
    int nn = hwloc_get_nbobjs_by_type(topo, HWLOC_OBJ_NUMANODE);
    hwloc_bitmap_copy(b, whole);
    for (int k = 0, m = 1 + (int) rng_below(2); k < m && nn > 1; k++) {
      hwloc_obj_t node = hwloc_get_obj_by_type(topo, HWLOC_OBJ_NUMANODE, rng_below(nn));
      if (node && node->cpuset && !hwloc_bitmap_isequal(node->cpuset, b)) hwloc_bitmap_andnot(b, b, node->cpuset);
    }
    if (hwloc_bitmap_iszero(b)) hwloc_bitmap_copy(b, whole);
  } else
  hwloc_bitmap_foreach_begin(i, whole) { if (rng_chance(60)) hwloc_bitmap_set(b, i); } hwloc_bitmap_foreach_end();
  if (rng_chance(8)) hwloc_bitmap_zero(b);                    /* refused: EINVAL, the tool goes on unrestricted */
  if (rng_chance(8)) hwloc_bitmap_set(b, hwloc_bitmap_last(whole) + 3);
  hwloc_bitmap_snprintf(buf, sizeof buf, b); hwloc_bitmap_free(b);
  snprintf(out, cap, "%s%s", bynode ? (rng_chance(10) ? "nodesetX" : "nodeset=") : "", buf);
}
static int gen_load(char mode, int want_xml) {
  char line[8192], restr[600] = "", mt[2048];
  for (int tries = 0; tries < 20; tries++) {
    char kind = (want_xml && nxml) ? 'X' : 'S'; char syn[2048], ksyn[2200]; const char *input;
    if (kind == 'X') input = xml_list[rng_below(nxml)];
    else { if (mode == 'L' && rng_chance(12)) { gen_synthetic_long(syn, sizeof syn); stat_hit("lstopo:long-synthetic-input"); } else gen_synthetic(syn, sizeof syn); input = syn; }
    if (kind == 'S' && mode == 'A' && rng_chance(45)) {     /* decorated with CPU kinds / memory attributes, given to the tool as XML */
      snprintf(ksyn, sizeof ksyn, "%u %s", (unsigned) rng_below(1000000), syn); kind = 'K'; input = ksyn;
    }
    if (load_topology(kind, mode, NULL, input) < 0) continue;
    restr[0] = 0;
    if ((mode == 'A' || mode == 'D') && rng_chance(28)) { gen_restrict(restr, sizeof restr); if (load_topology(kind, mode, restr, input) < 0) continue; }
    if (restr[0]) { char *e = esc(restr, strlen(restr)); snprintf(mt, sizeof mt, "%c:%s", mode, e); free(e); } else snprintf(mt, sizeof mt, "%c", mode);
    snprintf(line, sizeof line, "LOAD %c %s %s", kind, mt, input);
    unload();       /* emit_line loads it again (same path as replay) */
    emit_line(line);
    return topo ? 0 : -1;
  }
  return -1;
}

/* --- location / option generation for hwloc-calc --- */
static const char *level_name(int depth, char *buf, size_t cap) {
  hwloc_obj_t o = hwloc_get_obj_by_depth(topo, depth, 0);
  if (!o) return "core";
  hwloc_obj_type_snprintf(buf, cap, o, rng_chance(30) ? HWLOC_OBJ_SNPRINTF_FLAG_LONG_NAMES : 0);
  if (rng_chance(30)) for (char *p = buf; *p; p++) *p = (char) tolower((unsigned char) *p);
  return buf;
}
static void gen_type(char *out, size_t cap, int normal_only) {
  char buf[64];
  int td = hwloc_topology_get_depth(topo);
  unsigned k = rng_below(100);
  /* a topology with CPU-less objects (after --restrict, or CPU-less memory nodes): counting and indexing of a level must agree
   * on them, so visit the NUMA level (and the levels of CPU-less normal objects) more often */
  if (cur_restrict[0] && rng_chance(35)) k = 60;
  if (k < 55) snprintf(out, cap, "%s", level_name((int) rng_below(td), buf, sizeof buf));
  else if (k < 65) snprintf(out, cap, "%s", rng_chance(50) ? "numa" : (rng_chance(50) ? "node" : "NUMANode"));
  else if (k < 75) snprintf(out, cap, "%u", rng_below(td + 1));
  else if (k < 80) { static const char *n[] = {"pu", "core", "package", "machine", "l2", "l1i", "l3", "group", "die", "Group0", "L2Cache", "l1d"}; snprintf(out, cap, "%s", n[rng_below(12)]); }
  else if (k < 92 && !normal_only) { static const char *n[] = {"pci", "os", "misc", "bridge", "hostbridge", "pcibridge", "osdev", "gpu", "net", "block", "memcache", "hbm", "mcdram", "storage", "PCIDev", "OSDev"}; snprintf(out, cap, "%s", n[rng_below(16)]); }
  else { static const char *n[] = {"zzz", "cor", "p", "l9", "4294967295", "4294967293", "0x1", "+1", "pu[", "os[gpu]", "numa[tier=0]", "averyveryverylongtypename", "numa[hbm]", "pci[10de:]", "-1", "core0",
      "numa[tier=1]", "numa[subtype=MCDRAM]", "numa[mcdram]", "numa[DRAM]", "pci[:]", "pci[8086:]", "pci[:1521]", "pci[8086:1521]", "pci[1000]", "pci[x:y]", "os[net]", "os[foo]", "gpu[x]",
      "pci[0x8086:]", "misc[subtype=x]", "core[foo]", "pu[tier=2]", "numa[tier=]", "pci[ffffffff:]", "os[subtype=OpenCL]"}; snprintf(out, cap, "%s", n[rng_below(36)]); }
}
static void gen_range(char *out, size_t cap, int top) {
  unsigned k = rng_below(100), a = rng_below(rng_chance(80) ? 4 : 12), b = rng_below(6);
  (void) top;
  if (k < 33) snprintf(out, cap, "%u", a);
  else if (k < 50) snprintf(out, cap, "%u-%u", a, a + b);
  else if (k < 55) snprintf(out, cap, "%u-%u", a + b, a);             /* reversed (or single) */
  else if (k < 63) snprintf(out, cap, "%u-", a);                       /* open, possibly beyond the width */
  else if (k < 76) snprintf(out, cap, "%u:%u", a, rng_below(7));       /* width 0 is invalid */
  else if (k < 78) snprintf(out, cap, "%u:-%u", a, rng_below(3));      /* negative width */
  else if (k < 86) snprintf(out, cap, "all");
  else if (k < 91) snprintf(out, cap, "odd");
  else if (k < 96) snprintf(out, cap, "even");
  else { static const char *n[] = {"", "x", "1-2-3", "1:", "1,2", "allx", "oddity", "evening", "1-+2", "00", "01-02", "2:+1", "0x1", "1 ", "99999", "1-x", "3--1", "2:0", "0:-1", "7-"}; snprintf(out, cap, "%s", n[rng_below(20)]); }
}
static void gen_rawset(char *out, size_t cap, int *fmt /* 0 hwloc 1 list 2 taskset */) {
  unsigned nb = 0; hwloc_const_bitmap_t cc = hwloc_topology_get_complete_cpuset(topo);
  int last = hwloc_bitmap_last(cc); if (last < 0) last = 0;
  hwloc_bitmap_t b = hwloc_bitmap_alloc();
  unsigned n = rng_below(5) + (rng_chance(20) ? 8 : 0);
  for (unsigned i = 0; i < n; i++) { unsigned lo = rng_below(last + (rng_chance(15) ? 70 : 2)); hwloc_bitmap_set_range(b, lo, lo + rng_below(rng_chance(70) ? 2 : 9)); nb++; }
  if (rng_chance(8)) hwloc_bitmap_set_range(b, rng_below(last + 3), -1);
  if (rng_chance(4)) hwloc_bitmap_not(b, b);
  *fmt = (int) rng_below(3);
  if (*fmt == 0) hwloc_bitmap_snprintf(out, cap, b); else if (*fmt == 1) hwloc_bitmap_list_snprintf(out, cap, b); else hwloc_bitmap_taskset_snprintf(out, cap, b);
  hwloc_bitmap_free(b);
  if (rng_chance(6)) { static const char *n[] = {"0xzz", "1,,2", "0x", ",", "0x1,", "1-", "2-", "0xf...f", "0xf...f,0x0", "0x00000001,0x00000000,0x00000003", "7", "0,1", "3-1", "0x1,0x2", "0xffffffffffffffffff", "1 2"}; snprintf(out, cap, "%s", n[rng_below(16)]); *fmt = -1; }
}
static void gen_location(char *out, size_t cap) {
  unsigned k = rng_below(100); int off = 0;
  static const char *pre[] = {"", "", "", "~", "x", "^"};
  off = app(out, off, (int) cap, "%s", pre[rng_below(6)]);
  if (k < 8) { app(out, off, (int) cap, "%s", rng_chance(50) ? "all" : "root"); return; }
  if (k < 30) { char raw[2048]; int f; gen_rawset(raw, sizeof raw, &f); app(out, off, (int) cap, "%s", raw); return; }
  if (k < 36) { /* by name */
    hwloc_obj_t o = NULL; const char *ty = "os";
    if (rng_chance(50)) { unsigned n = hwloc_get_nbobjs_by_type(topo, HWLOC_OBJ_OS_DEVICE); if (n) o = hwloc_get_obj_by_type(topo, HWLOC_OBJ_OS_DEVICE, rng_below(n)); }
    else { ty = "misc"; unsigned n = hwloc_get_nbobjs_by_type(topo, HWLOC_OBJ_MISC); if (n) o = hwloc_get_obj_by_type(topo, HWLOC_OBJ_MISC, rng_below(n)); }
    if (rng_chance(30)) {
      unsigned n = hwloc_get_nbobjs_by_type(topo, HWLOC_OBJ_PCI_DEVICE); char b[64] = "0000:00:02.0";
      if (n && rng_chance(85)) { hwloc_obj_t pd = hwloc_get_obj_by_type(topo, HWLOC_OBJ_PCI_DEVICE, rng_below(n));
        if (rng_chance(60) || pd->attr->pcidev.domain) snprintf(b, sizeof b, "%04x:%02x:%02x.%01x", pd->attr->pcidev.domain, pd->attr->pcidev.bus, pd->attr->pcidev.dev, pd->attr->pcidev.func);
        else snprintf(b, sizeof b, "%x:%x.%x", pd->attr->pcidev.bus, pd->attr->pcidev.dev, pd->attr->pcidev.func); }
      else if (rng_chance(50)) { static const char *bad[] = {"00:02", "zz:00.0", "0000:00:02", "1:2:3.4.5", "0:0.0x", ":00.0", "0000:00:02.0junk", "ff:1f.7"}; snprintf(b, sizeof b, "%s", bad[rng_below(8)]); }
      app(out, off, (int) cap, "pci=%s", b); return;
    }
    app(out, off, (int) cap, "%s=%s", ty, o && o->name && !strchr(o->name, ' ') ? o->name : "nosuchname"); return;
  }
  char ty[64], rg[64];
  unsigned depthn = 1 + (rng_chance(40) ? 1 + rng_below(2) : 0);
  for (unsigned i = 0; i < depthn; i++) {
    gen_type(ty, sizeof ty, i > 0 && rng_chance(80)); gen_range(rg, sizeof rg, i == 0 && strncasecmp(ty, "hbm", 3) && strncasecmp(ty, "mcdram", 6) && !strchr(ty, '['));
    off = app(out, off, (int) cap, "%s%s%s%s", i ? "." : "", ty, rng_chance(3) ? "=" : ":", rg);
  }
}
static void gen_out_level(char *out, size_t cap) {
  if (rng_chance(8)) { static const char *n[] = {"zzz", "", "cpukind", "memorytier", "core:0", "99", "-1", "group", "l2[", "pu.core"}; snprintf(out, cap, "%s", n[rng_below(10)]); return; }
  gen_type(out, cap, rng_chance(70));
}

/* --- CPU kind / memory attribute options (B9) --- */
static void gen_simple_loc(char *out, size_t cap, int nodeset_input);
static void gen_cpukind_arg(char *out, size_t cap) {
  int nr = hwloc_cpukinds_get_nr(topo, 0); unsigned k = rng_below(100);
  if (k < 45) { snprintf(out, cap, "%u", rng_below((unsigned) (nr > 0 ? nr : 0) + 2)); return; }
  if (k < 85 && nr > 0) {
    struct hwloc_infos_s *infos = NULL; hwloc_bitmap_t set = hwloc_bitmap_alloc(); int eff;
    hwloc_cpukinds_get_info(topo, rng_below((unsigned) nr), set, &eff, &infos, 0); hwloc_bitmap_free(set);
    if (infos && infos->count) { unsigned j = rng_below(infos->count);
      if (!strchr(infos->array[j].name, ' ') && strlen(infos->array[j].value) < 60) { snprintf(out, cap, "%s=%s%s", infos->array[j].name, infos->array[j].value, rng_chance(8) ? "x" : ""); return; } }
  }
  static const char *other[] = {"CoreType=IntelCore", "CoreType=nosuch", "=", "x=", "=y", "x", "1x", "00", "7=7", "FrequencyMaxMHz=1500", "nosuch=1", "-1", "", "Model=m0"};
  snprintf(out, cap, "%s", other[rng_below(14)]);
}
static void gen_memattr_arg(char *out, size_t cap) {
  unsigned n = 0; const char *name = NULL; while (!hwloc_memattr_get_name(topo, n, &name)) n++;
  unsigned k = rng_below(100); char base[128];
  if (k < 60) { unsigned id = rng_below(n); hwloc_memattr_get_name(topo, id, &name); snprintf(base, sizeof base, "%s", name);
    if (rng_chance(30)) for (char *p = base; *p; p++) *p = (char) (rng_chance(50) ? toupper((unsigned char) *p) : tolower((unsigned char) *p)); }
  else if (k < 80) snprintf(base, sizeof base, "%u", rng_below(n + 2));
  else { static const char *o[] = {"Bandwidth", "latency", "Speed", "cost", "Hops", "nosuch", "", "2x", "capacity", "LOCALITY", "99"}; snprintf(base, sizeof base, "%s", o[rng_below(11)]); }
  static const char *suf[] = {"", "", "", ",default", ",strict", ",default,strict", ",strict,default", ",default,default", ",bogus"};
  snprintf(out, cap, "%s%s", base, suf[rng_below(9)]);
}
static void gen_local_flags_arg(char *out, size_t cap) {
  static const char *o[] = {"0", "1", "2", "3", "4", "5", "6", "7", "8", "12", "all", "ALL", "larger", "smaller", "LARGER_LOCALITY", "larger|smaller", "smaller,larger", "all+larger",
    "locality", "hwloc_local_numanode_flag_all", "l", "all$", "ality$", "zzz", "", "none", "NONE", ",all", "smaller,smaller", "larger,,all", "flag_a", "$", "all|zzz", "ger_loc"};
  snprintf(out, cap, "%s", o[rng_below(sizeof o / sizeof *o)]);
}
/* adds one of the memory options (with its argument) */
static void add_mem_option(struct args *a) {
  char buf[256]; unsigned k = rng_below(100);
  if (k < 25) a_add(a, "--default-nodes");
  else if (k < 50) a_add(a, "--local-memory");
  else if (k < 72) { a_add(a, "--local-memory-flags"); gen_local_flags_arg(buf, sizeof buf); a_add(a, buf); }
  else { a_add(a, "--best-memattr"); gen_memattr_arg(buf, sizeof buf); a_add(a, buf); }
}
static int has_attrs(void) { return cur_kind == 'X' || hwloc_cpukinds_get_nr(topo, 0) > 0; }
static void gen_calc_args(struct args *a, int *has_v) {
  static const char *flags[] = {"-p", "-l", "--pi", "--po", "--li", "--lo", "--physical", "--logical", "-n", "--ni", "--no", "--nodeset", "--oo",
    "--object-output", "--single", "--taskset", "-q", "--quiet", "--no-smt", "--no-smt=1", "--no-smt=0", "--largest", "--physical-input", "--nodeset-output"};
  static const char *fmts[] = {"hwloc", "list", "taskset", "systemd-dbus-api", "bogus"};
  char buf[4096];
  *has_v = 0;
  unsigned nloc = rng_chance(6) ? 0 : 1 + rng_below(4), nopt = rng_below(rng_chance(70) ? 3 : 6);
  unsigned total = nloc + nopt;
  if (rng_chance(has_attrs() ? 22 : 5)) {       /* topology options come first: --cpukind, once or twice */
    for (unsigned r = 0, n = rng_chance(85) ? 1 : 2; r < n; r++) { a_add(a, "--cpukind"); gen_cpukind_arg(buf, sizeof buf); a_add(a, buf); }
    stat_hit("calc:cpukind-option");
    if (nopt < 2 && rng_chance(50)) { nopt += 1; total += 1; }
  }
  for (unsigned i = 0; i < total; i++) {
    int is_opt = nopt && (!nloc || rng_below(nloc + nopt) < nopt);
    if (is_opt) {
      nopt--;
      unsigned k = rng_below(100);
      if (rng_chance(has_attrs() ? 22 : 6)) { add_mem_option(a); stat_hit("calc:mem-option"); continue; }
      if (rng_chance(has_attrs() ? 8 : 2)) { a_add(a, rng_chance(50) ? "-N" : "-I"); a_add(a, rng_chance(50) ? "cpukind" : (rng_chance(50) ? "memorytier" : (rng_chance(50) ? "CPUKinds" : "MemoryTier"))); stat_hit("calc:pseudo-level"); continue; }
      if (k < 50) { const char *f = flags[rng_below(sizeof flags / sizeof *flags)]; a_add(a, f); }
      else if (k < 60) { a_add(a, rng_chance(50) ? "--cof" : (rng_chance(50) ? "--cpuset-output-format" : "--nof")); a_add(a, fmts[rng_below(rng_chance(90) ? 4 : 5)]); }
      else if (k < 66) { a_add(a, rng_chance(50) ? "--cif" : "--cpuset-input-format"); a_add(a, fmts[rng_chance(90) ? rng_below(3) : 3 + rng_below(2)]); }
      else if (k < 72) { a_add(a, "--sep"); static const char *s[] = {" ", ",", ";", "--", "", "\t"}; a_add(a, s[rng_below(6)]); }
      else if (k < 80) { a_add(a, rng_chance(50) ? "-N" : "--number-of"); gen_out_level(buf, sizeof buf); a_add(a, buf); }
      else if (k < 88) { a_add(a, rng_chance(50) ? "-I" : "--intersect"); gen_out_level(buf, sizeof buf); a_add(a, buf); }
      else if (k < 94) { a_add(a, rng_chance(50) ? "-H" : "--hierarchical"); char t1[64], t2[64], t3[64]; gen_type(t1, sizeof t1, rng_chance(85)); gen_type(t2, sizeof t2, rng_chance(85)); gen_type(t3, sizeof t3, 1);
                         unsigned n = 1 + rng_below(3); snprintf(buf, sizeof buf, "%s%s%s%s%s", t1, n > 1 ? "." : "", n > 1 ? t2 : "", n > 2 ? "." : "", n > 2 ? t3 : ""); a_add(a, buf); }
      else if (k < 96) { a_add(a, "-v"); *has_v = 1; }
      else { static const char *bad[] = {"--foo", "-x", "--cof", "-N", "--sep", "--disallowed", "--cif", "-", "--", "--Largest", "-I", "-H"}; a_add(a, bad[rng_below(12)]); }
    } else {
      nloc--;
      gen_location(buf, sizeof buf);
      a_add(a, buf);
    }
  }
}
static void emit_args(char *line, int off, int cap, struct args *a) {
  for (int i = 0; i < a->n; i++) { char *e = esc(a->v[i], strlen(a->v[i])); off = app(line, off, cap, " %s", e); free(e); }
  emit_line(line);
}
/* `--cif list` makes a hexadecimal group a bit index: 0xc20001f4 allocates a 400 MB bitmap (slow, and outside the model's
 * list-format domain of indexes < 2^21) */
static int slow_args(struct args *a) {
  int list = 0, hex = 0;
  for (int i = 0; i < a->n; i++) { if (!strcmp(a->v[i], "list") && i && strstr(a->v[i - 1], "input") ) list = 1; if (!strcmp(a->v[i], "list") && i && !strcmp(a->v[i - 1], "--cif")) list = 1;
    if (strstr(a->v[i], "0x") && strlen(a->v[i]) > 7) hex = 1; }
  return list && hex;
}
/* a focused run on a topology with CPU kinds / memory attributes: valid locations naming one or two objects, so that the kind filter,
 * the local-node selection and the best-attribute filter see non-trivial sets */
static void gen_calc_attr(void) {
  static char line[1 << 16]; struct args a = {0}; char buf[512];
  int with_kind = rng_chance(45);
  if (with_kind) { a_add(&a, "--cpukind"); gen_cpukind_arg(buf, sizeof buf); a_add(&a, buf); }
  unsigned nloc = 1 + rng_below(2), k = rng_below(100);
  /* the kind filter comes before --no-smt and --single: a kind that misses the first PU of a core / of the set tells the orders apart */
  if (with_kind && rng_chance(40)) { static const char *f[] = {"--no-smt", "--no-smt=1", "--no-smt=0", "--single", "--single"}; a_add(&a, f[rng_below(5)]); }
  for (unsigned i = 0; i < nloc; i++) { gen_simple_loc(buf, sizeof buf, 0); if (i == 0 && (buf[0] == 'x' || buf[0] == '~' || buf[0] == '^')) memmove(buf, buf + 1, strlen(buf)); a_add(&a, buf); }
  if (k < 55) { add_mem_option(&a); if (rng_chance(35)) add_mem_option(&a); }
  else if (k < 70) { a_add(&a, rng_chance(50) ? "-N" : "-I"); a_add(&a, rng_chance(50) ? "cpukind" : "memorytier"); }
  else if (k < 80) a_add(&a, rng_chance(50) ? "--single" : "--no-smt");
  else if (k < 90) { a_add(&a, "-I"); a_add(&a, rng_chance(50) ? "numa" : "pu"); }
  if (rng_chance(25)) a_add(&a, "--oo");
  if (rng_chance(15)) a_add(&a, rng_chance(50) ? "-p" : "--po");
  if (rng_chance(10)) a_add(&a, "-n");
  if (rng_chance(10)) { a_add(&a, "--sep"); a_add(&a, ";"); }
  stat_hit("calc:attr-focused");
  int off = app(line, 0, sizeof line, "CALC a %%_");
  emit_args(line, off, sizeof line, &a); a_free(&a);
}
static void gen_calc(void) {
  static char line[1 << 16]; struct args a = {0}; int has_v;
  if (has_attrs() && rng_chance(cur_restrict[0] ? 15 : 30)) { gen_calc_attr(); return; }
  do { a_free(&a); gen_calc_args(&a, &has_v); } while (slow_args(&a));
  /* stdin: used when no location is accepted on the command line */
  char in[4096] = ""; int ioff = 0;
  if (rng_chance(25)) {
    unsigned nl = rng_below(4);
    for (unsigned l = 0; l < nl; l++) {
      unsigned nt = rng_below(4);
      for (unsigned k = 0; k < nt; k++) { char loc[2048]; gen_location(loc, sizeof loc); if (strlen(loc) < 300) ioff = app(in, ioff, sizeof in, "%s%s", k ? " " : "", loc); }
      if (l + 1 < nl || rng_chance(80)) ioff = app(in, ioff, sizeof in, "\n");
    }
  }
  char *ein = esc(in, strlen(in));
  int off = app(line, 0, sizeof line, "CALC %c %s", rng_chance(25) ? 'f' : 'a', ein); free(ein);
  emit_args(line, off, sizeof line, &a); a_free(&a);
}
/* --- stdin mode: no location on the command line, the locations come line by line on standard input --- */
/* a valid location naming one object (or a short range) of the NUMA / package / core / PU level: successive lines then select
 * different NUMA nodes and different CPUs, which is what distinguishes a per-line computation from an accumulating one */
static void gen_simple_loc(char *out, size_t cap, int nodeset_input) {
  static const hwloc_obj_type_t ty[] = {HWLOC_OBJ_NUMANODE, HWLOC_OBJ_NUMANODE, HWLOC_OBJ_PACKAGE, HWLOC_OBJ_CORE, HWLOC_OBJ_PU, HWLOC_OBJ_GROUP, HWLOC_OBJ_L3CACHE};
  static const char *nm[] = {"numa", "node", "pack", "core", "pu", "group", "l3"};
  unsigned k = rng_below(7); int n = hwloc_get_nbobjs_by_type(topo, ty[k]);
  if (n <= 0) { k = 4; n = hwloc_get_nbobjs_by_type(topo, HWLOC_OBJ_PU); if (n <= 0) n = 1; }
  unsigned i = rng_below((unsigned) n);
  static const char *pre[] = {"", "", "", "", "", "~", "x", "^"};
  const char *pr = pre[rng_below(8)];
  if (rng_chance(12)) {        /* a raw set: the cpuset of the object, or (with --ni) its nodeset */
    hwloc_obj_t o = hwloc_get_obj_by_type(topo, ty[k], i); char b[512] = "0x0";
    hwloc_const_bitmap_t set = o ? (nodeset_input ? o->nodeset : o->cpuset) : NULL;
    if (set && hwloc_bitmap_weight(set) >= 0 && hwloc_bitmap_last(set) < 200) hwloc_bitmap_snprintf(b, sizeof b, set);
    snprintf(out, cap, "%s%s", pr, b);
  }
  else if (rng_chance(75)) snprintf(out, cap, "%s%s:%u", pr, nm[k], i);
  else if (rng_chance(50)) snprintf(out, cap, "%s%s:%u-%u", pr, nm[k], i, i + rng_below(2));
  else snprintf(out, cap, "%s%s:%u:%u", pr, nm[k], i, 1 + rng_below(2));
}
static void gen_mem_level(char *out, size_t cap) {
  static const char *n[] = {"numa", "numa", "numa", "node", "NUMANode", "numanode", "numa[tier=0]", "numa[tier=1]", "numa[dram]", "numa[hbm]", "numa[subtype=MCDRAM]",
    "memorytier", "MemoryTier", "memcache", "-3"};
  snprintf(out, cap, "%s", n[rng_below(sizeof n / sizeof *n)]);
}
/* the options of a stdin-mode run (no location): one output mode and a random subset of the input/output modifiers, shuffled */
static void gen_stdin_opts(struct args *a, int allow_verbose, int *nodeset_input, char *bucket, size_t bcap) {
  static const char *fmts[] = {"hwloc", "list", "taskset", "systemd-dbus-api"};
  static const char *seps[] = {" ", ",", ";", "--", "", "\t", ":"};
  char buf[512]; struct args g[16]; int ng = 0; memset(g, 0, sizeof g);
  unsigned k = rng_below(100); int mem = 0; const char *mode = "set";
  if (k < 55) {              /* -I / -N: half of the time on a memory level (the only outputs that read the nodeset without -n) */
    int isN = rng_chance(45); mem = rng_chance(50);
    a_add(&g[ng], isN ? (rng_chance(50) ? "-N" : "--number-of") : (rng_chance(50) ? "-I" : "--intersect"));
    if (mem) gen_mem_level(buf, sizeof buf); else gen_out_level(buf, sizeof buf);
    a_add(&g[ng++], buf); mode = isN ? (mem ? "-N-mem" : "-N-cpu") : (mem ? "-I-mem" : "-I-cpu");
  } else if (k < 65) {
    char t1[64], t2[64], t3[64]; gen_type(t1, sizeof t1, rng_chance(85)); gen_type(t2, sizeof t2, rng_chance(85)); gen_type(t3, sizeof t3, 1);
    if (rng_chance(25)) snprintf(t1, sizeof t1, "numa");
    unsigned n = 1 + rng_below(3); snprintf(buf, sizeof buf, "%s%s%s%s%s", t1, n > 1 ? "." : "", n > 1 ? t2 : "", n > 2 ? "." : "", n > 2 ? t3 : "");
    a_add(&g[ng], rng_chance(50) ? "-H" : "--hierarchical"); a_add(&g[ng++], buf); mode = "-H";
  } else if (k < 73) { a_add(&g[ng++], "--largest"); mode = "largest"; }
  else if (k < 80) { add_mem_option(&g[ng++]); if (rng_chance(30)) add_mem_option(&g[ng++]); mode = "set+memopt"; }
  else if (k < 84) { a_add(&g[ng], rng_chance(50) ? "-N" : "-I"); a_add(&g[ng++], rng_chance(60) ? "cpukind" : "memorytier"); mode = "pseudo-level"; }
  *nodeset_input = 0;
  if (rng_chance(35)) {      /* a nodeset input/output flag */
    unsigned f = rng_below(5);
    if (f == 0) { a_add(&g[ng++], rng_chance(50) ? "-n" : "--nodeset"); *nodeset_input = 1; }
    else if (f == 1) { a_add(&g[ng++], rng_chance(50) ? "--ni" : "--nodeset-input"); *nodeset_input = 1; }
    else if (f == 2) a_add(&g[ng++], rng_chance(50) ? "--no" : "--nodeset-output");
    else if (f == 3) { a_add(&g[ng], rng_chance(50) ? "--nof" : "--nodeset-output-format"); a_add(&g[ng++], fmts[rng_below(4)]); }
    else { a_add(&g[ng++], "--ni"); a_add(&g[ng++], "--no"); *nodeset_input = 1; }
  }
  if (rng_chance(45)) { static const char *f[] = {"--po", "--po", "--lo", "--pi", "--li", "-p", "-l", "--physical-output", "--logical-input", "--physical"}; a_add(&g[ng++], f[rng_below(10)]); }
  if (rng_chance(12)) { static const char *f[] = {"--po", "--lo", "--pi", "--li", "-p", "-l"}; a_add(&g[ng++], f[rng_below(6)]); }
  if (rng_chance(30)) a_add(&g[ng++], rng_chance(50) ? "--oo" : "--object-output");
  if (rng_chance(20)) { a_add(&g[ng], "--sep"); a_add(&g[ng++], seps[rng_below(7)]); }
  if (rng_chance(30)) { if (rng_chance(40)) a_add(&g[ng++], "--taskset"); else { a_add(&g[ng], rng_chance(50) ? "--cof" : "--cpuset-output-format"); a_add(&g[ng++], fmts[rng_below(4)]); } }
  if (rng_chance(12)) a_add(&g[ng++], "--single");
  if (rng_chance(6)) { static const char *f[] = {"--no-smt", "--no-smt=0", "--no-smt=1"}; a_add(&g[ng++], f[rng_below(3)]); }
  if (rng_chance(5)) { a_add(&g[ng], "--cif"); a_add(&g[ng++], fmts[rng_below(3)]); }
  if (rng_chance(5) && strcmp(mode, "set+memopt")) a_add(&g[ng++], "--default-nodes");
  if (rng_chance(45)) a_add(&g[ng++], rng_chance(50) ? "-q" : "--quiet");
  if (allow_verbose && rng_chance(3)) a_add(&g[ng++], "-v");
  if (allow_verbose && rng_chance(3)) { static const char *bad[] = {"--foo", "-x", "--cof", "-N", "--sep", "-", "--", "-I", "-H", "--cif"}; a_add(&g[ng++], bad[rng_below(10)]); }
  /* shuffle the groups (an option keeps its argument) */
  for (int i = ng - 1; i > 0; i--) { int j = (int) rng_below((unsigned) i + 1); struct args tmp = g[i]; g[i] = g[j]; g[j] = tmp; }
  for (int i = 0; i < ng; i++) { for (int j = 0; j < g[i].n; j++) a_add(a, g[i].v[j]); a_free(&g[i]); }
  snprintf(bucket, bcap, "stdin:out=%s%s", mode, *nodeset_input ? "+ni" : "");
}
/* 1..5 lines of 1..3 locations each; also empty lines, lines of blanks, invalid locations, lines longer than the 64-byte buffer the
 * tool starts with, a missing final newline */
static void gen_stdin_text(char *in, int cap, int nodeset_input, int for_sl, int cif_list, unsigned *nlines) {
  static const unsigned nlw[] = {1, 2, 2, 2, 3, 3, 3, 4, 4, 5};
  unsigned nl = nlw[rng_below(10)]; int off = 0; in[0] = 0;
  *nlines = nl;
  int simple_pct = rng_chance(60) ? 75 : 25;
  for (unsigned l = 0; l < nl; l++) {
    unsigned k = rng_below(100);
    if (k < 7) ;                                                                   /* empty line */
    else if (k < 12) off = app(in, off, cap, "%s", rng_chance(70) ? (rng_chance(50) ? " " : "   ") : "\t");   /* blanks only (a tab is a token) */
    else {
      unsigned nt = rng_chance(8) ? 6 + rng_below(8) : 1 + rng_below(3);
      if (rng_chance(10)) off = app(in, off, cap, " ");
      for (unsigned t = 0; t < nt; t++) {
        char loc[2048];
        do {
          if (rng_chance(simple_pct)) gen_simple_loc(loc, sizeof loc, nodeset_input); else gen_location(loc, sizeof loc);
        } while (strlen(loc) >= 300 || !*loc || (for_sl && loc[0] == '-') || strchr(loc, '\n') || (cif_list && strstr(loc, "0x") && strlen(loc) > 7));   /* see slow_args */
        off = app(in, off, cap, "%s%s", t ? (rng_chance(10) ? "  " : " ") : "", loc);
      }
      if (rng_chance(10)) off = app(in, off, cap, " ");
    }
    if (l + 1 < nl || rng_chance(85)) off = app(in, off, cap, "\n");
  }
}
static void gen_calc_stdin(int sl) {
  static char line[1 << 16], in[1 << 14]; struct args a = {0}; int ni; char bucket[64]; unsigned nl;
  do { a_free(&a); gen_stdin_opts(&a, !sl, &ni, bucket, sizeof bucket); } while (slow_args(&a));
  if (!sl && rng_chance(has_attrs() ? 14 : 3) && a.n < MAXARG - 4) {      /* --cpukind <arg> in front (a topology option; the SL runs put -q first) */
    char kb[256]; gen_cpukind_arg(kb, sizeof kb);
    memmove(a.v + 2, a.v, (size_t) a.n * sizeof *a.v); a.v[0] = strdup("--cpukind"); a.v[1] = strdup(kb); a.n += 2; stat_hit("stdin:cpukind-option");
  }
  int cif_list = 0; for (int i = 1; i < a.n; i++) if (!strcmp(a.v[i], "list") && !strcmp(a.v[i - 1], "--cif")) cif_list = 1;
  gen_stdin_text(in, sizeof in, ni, sl, cif_list, &nl);
  stat_hit(bucket);
  { char b[32]; snprintf(b, sizeof b, "stdin:lines=%u", nl); stat_hit(b); }
  if (hwloc_get_nbobjs_by_type(topo, HWLOC_OBJ_NUMANODE) >= 2) stat_hit("stdin:numa-nodes>=2");
  char *ein = esc(in, strlen(in)); int off;
  if (sl) off = app(line, 0, sizeof line, "SL %s", ein);
  else off = app(line, 0, sizeof line, "CALC %c %s", rng_chance(20) ? 'f' : 'a', ein);
  free(ein);
  emit_args(line, off, sizeof line, &a); a_free(&a);
}
static void gen_lrt(void) {
  static char line[1 << 16]; struct args a = {0}; char buf[4096];
  unsigned nloc = 1 + rng_below(3);
  /* logical indexes only: physical indexes are not unique across packages and absent (-1) on caches and groups, so the output of
   * `-p --largest` is not a location list in general (a documented limitation of physical indexes, not part of the property) */
  for (unsigned i = 0; i < nloc; i++) { gen_location(buf, sizeof buf); a_add(&a, buf); }
  int off = app(line, 0, sizeof line, "LRT");
  emit_args(line, off, sizeof line, &a); a_free(&a);
}
static void gen_ni(void) {
  static char line[1 << 16]; struct args a = {0}; char buf[4096];
  gen_type(buf, sizeof buf, rng_chance(60)); a_add(&a, buf);
  if (rng_chance(20)) a_add(&a, "-p");
  unsigned nloc = 1 + rng_below(3);
  for (unsigned i = 0; i < nloc; i++) { gen_location(buf, sizeof buf); a_add(&a, buf); }
  int off = app(line, 0, sizeof line, "NI");
  emit_args(line, off, sizeof line, &a); a_free(&a);
}
static void gen_distrib(void) {
  static char line[1 << 16]; struct args a = {0}; char buf[256];
  unsigned npu = hwloc_get_nbobjs_by_type(topo, HWLOC_OBJ_PU);
  unsigned n = rng_chance(10) ? 0 : rng_below(2 * npu + 3);
  int number_done = 0;
  unsigned nopt = rng_below(4);
  for (unsigned i = 0; i <= nopt; i++) {
    if (!number_done && (i == nopt || rng_chance(30))) {
      if (rng_chance(4)) { static const char *bad[] = {"abc", "", "+3", "3x", "1.5"}; a_add(&a, bad[rng_below(5)]); }
      else { snprintf(buf, sizeof buf, "%u", n); a_add(&a, buf); }
      number_done = 1; if (i == nopt) break;
    }
    unsigned k = rng_below(100);
    if (k < 20) a_add(&a, "--single");
    else if (k < 30) a_add(&a, "--taskset");
    else if (k < 45) { a_add(&a, rng_chance(50) ? "--cof" : "--cpuset-output-format"); static const char *f[] = {"hwloc", "list", "taskset", "systemd-dbus-api", "bogus"}; a_add(&a, f[rng_below(rng_chance(92) ? 4 : 5)]); }
    else if (k < 60) a_add(&a, "--reverse");
    else if (k < 90) { static const char *o[] = {"--from", "--to", "--at"}; a_add(&a, o[rng_below(3)]); gen_type(buf, sizeof buf, rng_chance(85)); a_add(&a, buf); }
    else if (k < 93) a_add(&a, "-v");
    else if (k < 95) { snprintf(buf, sizeof buf, "%u", rng_below(5)); a_add(&a, buf); }   /* possibly a duplicate number */
    else { static const char *bad[] = {"--foo", "-x", "--cof", "--from", "--to", "--at", "--", "-1"}; a_add(&a, bad[rng_below(8)]); }
  }
  int off = app(line, 0, sizeof line, "DISTRIB %c", rng_chance(25) ? 'f' : 'a');
  emit_args(line, off, sizeof line, &a); a_free(&a);
}
static void gen_lstopo(void) {
  char line[256]; int xml = rng_chance(55);
  /* XML: 0, V2 (2), or the invalid flag 1 (export must fail in the tool as in the library) */
  unsigned long flags = xml ? (rng_chance(75) ? 0 : rng_chance(80) ? 2 : 1) : (rng_chance(50) ? 0 : rng_below(4));
  size_t len; char *ref = lib_export(xml ? "xml" : "synthetic", flags, &len);
  snprintf(line, sizeof line, "LSTOPO %c %s %lu %d lib=%s", rng_chance(25) ? 'f' : 'a', xml ? "xml" : "synthetic", flags, (int) rng_below(2), ref ? "ok" : "fail");
  free(ref);
  emit_line(line);
}
static void gen_diffpatch(void) {
  char line[256], p1[4200], p2[4200]; uint64_t seed = rng_next() % 1000000007ULL;
  int complex = diffpatch_prepare(seed, p1, p2, sizeof p1);
  snprintf(line, sizeof line, "DIFFPATCH %llu complex=%d pipe=%d rev=%d", (unsigned long long) seed, complex, (int) rng_below(2), (int) rng_below(2));
  emit_line(line);
}
static void gen_badargs(void) {
  static const char *cases[] = {
    "lstopo -i @INPUT @OUT --nosuchoption", "lstopo -i @INPUT --of nosuchformat", "lstopo -i @INPUT --of", "lstopo -i", "lstopo -i @INPUT --export-xml-flags",
    "lstopo -i @INPUT --export-synthetic-flags", "lstopo -i @INPUT --filter", "lstopo -i @INPUT --filter nosuchtype:none --of xml",
    "lstopo -i @INPUT --filter core:nosuchkind --of xml", "lstopo -i @INPUT --restrict", "lstopo -i @INPUT --if nosuchformat --of xml",
    "lstopo -i /nonexistent/file.xml --of xml", "lstopo -i @INPUT --of xml --flags", "lstopo -i @INPUT --output-format", "lstopo --input",
    "lstopo -i @INPUT --export-synthetic-flags nosuchflag --of synthetic", "lstopo -i @INPUT --export-xml-flags nosuchflag --of xml",
    "lstopo -i @INPUT --restrict-flags nosuchflag --of xml", "lstopo -i @INPUT --flags nosuchflag --of xml", "lstopo -i @INPUT --allow nosuch --of xml",
    "diff", "diff @T1", "diff --nosuchoption @T1 @T1", "diff /nonexistent/a.xml @T1", "diff @T1 /nonexistent/b.xml", "diff --refname",
    "patch", "patch @T1", "patch --nosuchoption @T1 @T1", "patch /nonexistent/a.xml @T1 @OUT", "patch @T1 /nonexistent/d.xml @OUT", "patch @T1 @T1 @OUT",
    "calc --if", "calc -i", "calc --restrict", "calc --cpukind", "calc --cpukind x", "calc -i @INPUT --if nosuchformat all", "calc -i /nonexistent/f.xml --if xml all",
    "calc --restrict-flags", "distrib", "distrib -i @INPUT", "distrib -i @INPUT --ignore", "distrib -i @INPUT --restrict", "distrib -i", "distrib --if",
    "distrib -i @INPUT --if nosuchformat 2", "distrib -i /nonexistent/f.xml --if xml 2"};
  char line[1024]; const char *c = cases[rng_below(sizeof cases / sizeof *cases)];
  snprintf(line, sizeof line, "BADARGS %s", c);
  emit_line(line);
}

static void generate(unsigned long nops) {
  while (nops_done < nops) {
    unsigned k = rng_below(100);
    char mode = k < 62 ? 'A' : k < 78 ? 'D' : k < 90 ? 'L' : 'P';
    int want_xml = mode == 'D' ? rng_chance(15) : mode == 'A' ? rng_chance(30) : rng_chance(40);
    if (gen_load(mode, want_xml) < 0) continue;
    unsigned burst = 4 + rng_below(12);
    for (unsigned i = 0; i < burst && nops_done < nops; i++) {
      switch (mode) {
      case 'A': { unsigned j = rng_below(100); if (j < 58) gen_calc(); else if (j < 74) gen_calc_stdin(0); else if (j < 80) gen_calc_stdin(1);
                  else if (j < 89) gen_lrt(); else if (j < 96) gen_ni(); else gen_badargs(); break; }
      case 'D': gen_distrib(); break;
      case 'L': if (rng_chance(85)) gen_lstopo(); else gen_badargs(); break;
      case 'P': if (rng_chance(85)) gen_diffpatch(); else gen_badargs(); break;
      }
    }
  }
}

int main(int argc, char **argv) {
  setvbuf(stdout, NULL, _IONBF, 0);
  tmpdir = getenv("VERIF_TOOLS_TMP");
  if (!tmpdir) { fprintf(stderr, "VERIF_TOOLS_TMP must name a scratch directory\n"); return 2; }
  if (getenv("VERIF_TOOLS_TIMEOUT")) tool_timeout = (unsigned) atoi(getenv("VERIF_TOOLS_TIMEOUT"));
  read_xml_list();
  if (argc == 5 && !strcmp(argv[1], "--replay")) {
    FILE *in = fopen(argv[2], "r"); fc = fopen(argv[3], "w"); fmin = fopen(argv[4], "w"); fops = fopen("/dev/null", "w");
    if (!in || !fc || !fmin) return 2;
    /* the whole file is read and closed first: the forked children share the descriptor, and the exit()-time flush of an input
     * stream in a child moves the shared file offset back */
    fclose(in);
    size_t len; char *all = slurp(argv[2], &len);
    for (char *line = all, *nl; line && *line; line = nl) {
      nl = strchr(line, '\n'); if (nl) *nl++ = 0;
      if (!*line || *line == '#') continue;
      if (!strncmp(line, "LOAD ", 5)) do_load_line(line); else do_op_line(line);
    }
    free(all);
    unload();
    return 0;
  }
  if (argc != 6) { fprintf(stderr, "usage: tools <nops> <ops> <c-out> <stats> <model-in>\n"); return 2; }
  unsigned long nops = strtoul(argv[1], NULL, 10);
  fops = fopen(argv[2], "w"); fc = fopen(argv[3], "w"); fmin = fopen(argv[5], "w");
  if (!fops || !fc || !fmin) return 2;
  rng_seed(rng_seed_from_env());
  fprintf(fmin, "ENUM %d %d %d %d %d %d %d %d %d %d %d %d %d %d %d %d %d %d %d %d %d\n",
          HWLOC_OBJ_MACHINE, HWLOC_OBJ_PACKAGE, HWLOC_OBJ_DIE, HWLOC_OBJ_CORE, HWLOC_OBJ_PU,
          HWLOC_OBJ_L1CACHE, HWLOC_OBJ_L2CACHE, HWLOC_OBJ_L3CACHE, HWLOC_OBJ_L4CACHE, HWLOC_OBJ_L5CACHE,
          HWLOC_OBJ_L1ICACHE, HWLOC_OBJ_L2ICACHE, HWLOC_OBJ_L3ICACHE, HWLOC_OBJ_GROUP, HWLOC_OBJ_NUMANODE,
          HWLOC_OBJ_MEMCACHE, HWLOC_OBJ_BRIDGE, HWLOC_OBJ_PCI_DEVICE, HWLOC_OBJ_OS_DEVICE, HWLOC_OBJ_MISC, HWLOC_OBJ_TYPE_MAX);
  out_c("ENUM ok");
  generate(nops);
  unload();
  FILE *fs = fopen(argv[4], "w");
  if (fs) { for (unsigned i = 0; i < nstats; i++) fprintf(fs, "%s %lu\n", stats[i].name, stats[i].n); fclose(fs); }
  return 0;
}
