/* C05 harness (engine `xmlrt`): XML export -> import round trips of real topologies under every backend pairing,
 * plus byte-level unit correspondences for the nolibxml escaper / attribute scanner and the base64 codec.
 *
 * usage: xmlrt gen <ncases> <sources-file> <ops-out> <c-out>        (seed = VERIF_SEED)
 *        xmlrt replay <script-file> <ops-out> <c-out>
 *
 * script lines (they are copied to ops-out; ops-out is what the Lean driver reads, c-out what the C side claims):
 *   ESC <hex>                          hwloc__nolibxml_export_escape_string          -> ESC -|<hex>
 *   ATTR <hex>                         hwloc__nolibxml_import_next_attr on a buffer  -> ATTR -1 | ATTR 0 <name> <value> <restoffset>
 *   B64E <hex> <targsize>              hwloc_encode_to_base64                        -> B64E <ret> <hex of the whole target>
 *   B64D <hex> <targsize|N>            hwloc_decode_from_base64 (N = NULL target)    -> B64D <ret> <hex of the whole target>
 *   NUM <u|d|lu|llu> <value>           sprintf + the importer's strto* / atoi         -> NUM <text hex> <parsed>
 *   CASE <e> <i> <B|F> <3|2> <kind> <flags> <filters> <arg>     start a round-trip case: export backend e, import backend i
 *                                      (1 = libxml), buffer or file, v3 or v2 format; source as in h_topoload
 *   OP <op...>                         a modifying call (object arguments are DFS ids modulo the object count)
 *   RT                                 run the case in a forked child (the XML backends are chosen once per process)
 * derived ops lines produced while running a case (answered "." by both sides unless stated):
 *   LOADFAIL | TOPO..END o | X o <cat> ... | TOPO..END r | X r <cat> ...
 *   CMP v3|v2|exportfail|reloadfail    expected answer "EQ ok"
 *   FIX <same 0|1> <len1> <len2> <first differing offset>        expected answer "FIX ok"
 *   CRASH <status>                     the child died (sanitizer report / abort); expected answer "CRASH none" never matches
 *   OBJ ...                            object-level stream, see obj_stream()              expected answer "OBJ ok"
 *   TB / TE / TO / TR / TJ             tree-level stream, see tree_stream()               expected answer "TREE ok" (on TJ)
 *   TB / TE / TM <mutation> <status>   mutated documents, see mut_stream()                expected answer "TMUT ok" (on TM)
 *   SB / SE / SD SM ST SK SI / SJ      side-structure stream, see side_stream()           expected answer "SIDE ok" (on SJ)
 *   SB / SE / SU <mutation> <status>   mutated side elements, see smut_stream()           expected answer "SMUT ok" (on SU)
 */
#include "topology-xml-nolibxml.c"
#include "dump.h"
#include "rng.h"
#include <errno.h>
#include <stdarg.h>
#include <unistd.h>
#include <ctype.h>
#include <sys/wait.h>
#include <fcntl.h>
#include <hwloc/distances.h>
#include <hwloc/memattrs.h>
#include <hwloc/cpukinds.h>
#include <hwloc/export.h>

static FILE *fops, *fc;
static char xmlpath1[1200], xmlpath2[1200];

static void emit(const char *c, const char *fmt, ...) {
  va_list ap; va_start(ap, fmt); vfprintf(fops, fmt, ap); va_end(ap);
  fputc('\n', fops); fprintf(fc, "%s\n", c);
}
static void flush2(void) { fflush(fops); fflush(fc); }

/* ---------------------------------------------------------------- hex helpers */
static void fhex(FILE *f, const void *p, size_t n) {
  const unsigned char *s = p;
  if (!n) { fputc('=', f); return; }
  for (size_t i = 0; i < n; i++) fprintf(f, "%02x", s[i]);
}
static void fhexs(FILE *f, const char *s) { if (!s) fputc('-', f); else fhex(f, s, strlen(s)); }
static unsigned char *unhexn(const char *h, size_t *np) {
  size_t n = (!strcmp(h, "=") || !strcmp(h, "-")) ? 0 : strlen(h) / 2;
  unsigned char *s = malloc(n + 1);
  for (size_t i = 0; i < n; i++) { unsigned v = 0; sscanf(h + 2 * i, "%2x", &v); s[i] = (unsigned char) v; }
  s[n] = 0; if (np) *np = n; return s;
}
static char *unhex(const char *h) { if (!strcmp(h, "-")) return NULL; return (char *) unhexn(h, NULL); }
static void hexs(char *dst, const char *s) { if (!s) { strcpy(dst, "-"); return; } if (!*s) { strcpy(dst, "="); return; } for (; *s; s++) dst += sprintf(dst, "%02x", (unsigned char) *s); }
static void hexn(char *dst, const unsigned char *s, size_t n) { if (!n) { strcpy(dst, "="); return; } for (size_t i = 0; i < n; i++) dst += sprintf(dst, "%02x", s[i]); }

/* ---------------------------------------------------------------- unit correspondences */
static void unit_op(char *line) {
  char *tok[8]; int nt = 0; char *save = NULL;
  char copy[70000]; snprintf(copy, sizeof copy, "%s", line);
  for (char *t = strtok_r(copy, " \n", &save); t && nt < 8; t = strtok_r(NULL, " \n", &save)) tok[nt++] = t;
  fprintf(fops, "%s\n", line);
  if (!strcmp(tok[0], "ESC") && nt >= 2) {
    size_t n; unsigned char *s = unhexn(tok[1], &n);
    char *e = hwloc__nolibxml_export_escape_string((char *) s);
    fputs("ESC ", fc); if (!e) fputc('-', fc); else fhex(fc, e, strlen(e)); fputc('\n', fc);
    free(e); free(s);
  } else if (!strcmp(tok[0], "ATTR") && nt >= 2) {
    size_t n; unsigned char *s = unhexn(tok[1], &n);
    char *buf = malloc(n + 2); memcpy(buf, s, n); buf[n] = buf[n + 1] = 0;   /* two NULs: the scanner may look one byte past the first */
    struct hwloc__xml_import_state_s st; memset(&st, 0, sizeof st);
    hwloc__nolibxml_import_state_data_t ns = (void *) st.data;
    ns->attrbuffer = buf;
    char *name = NULL, *value = NULL;
    int r = hwloc__nolibxml_import_next_attr(&st, &name, &value);
    if (r < 0) fprintf(fc, "ATTR -1\n");
    else { fputs("ATTR 0 ", fc); fhex(fc, name, strlen(name)); fputc(' ', fc); fhex(fc, value, strlen(value)); fprintf(fc, " %ld\n", (long) (ns->attrbuffer - buf)); }
    free(buf); free(s);
  } else if (!strcmp(tok[0], "B64E") && nt >= 3) {
    size_t n; unsigned char *s = unhexn(tok[1], &n);
    unsigned char *src = malloc(n ? n : 1); memcpy(src, s, n);             /* exact size: over-reads are ASan errors */
    size_t ts = strtoul(tok[2], NULL, 10);
    char *t = malloc(ts ? ts : 1); memset(t, 0xaa, ts ? ts : 1);
    int r = hwloc_encode_to_base64((char *) src, n, t, ts);
    fprintf(fc, "B64E %d ", r); fhex(fc, t, ts); fputc('\n', fc);
    free(t); free(src); free(s);
  } else if (!strcmp(tok[0], "B64D") && nt >= 3) {
    size_t n; unsigned char *s = unhexn(tok[1], &n);
    char *src = malloc(n + 1); memcpy(src, s, n); src[n] = 0;
    if (!strcmp(tok[2], "N")) { int r = hwloc_decode_from_base64(src, NULL, 0); fprintf(fc, "B64D %d =\n", r); }
    else {
      size_t ts = strtoul(tok[2], NULL, 10);
      char *t = malloc(ts ? ts : 1); memset(t, 0xaa, ts ? ts : 1);
      int r = hwloc_decode_from_base64(src, t, ts);
      fprintf(fc, "B64D %d ", r); fhex(fc, t, ts); fputc('\n', fc);
      free(t);
    }
    free(src); free(s);
  } else if (!strcmp(tok[0], "NUM") && nt >= 3) {
    char tmp[64]; unsigned long long v = strtoull(tok[2], NULL, 10);
    if (!strcmp(tok[1], "u")) { sprintf(tmp, "%u", (unsigned) v); unsigned p = strtoul(tmp, NULL, 10); fputs("NUM ", fc); fhex(fc, tmp, strlen(tmp)); fprintf(fc, " %u\n", p); }
    else if (!strcmp(tok[1], "d")) { sprintf(tmp, "%d", (int) (long long) strtoll(tok[2], NULL, 10)); int p = atoi(tmp); fputs("NUM ", fc); fhex(fc, tmp, strlen(tmp)); fprintf(fc, " %d\n", p); }
    else if (!strcmp(tok[1], "lu")) { sprintf(tmp, "%lu", (unsigned long) v); unsigned long p = strtoul(tmp, NULL, 10); fputs("NUM ", fc); fhex(fc, tmp, strlen(tmp)); fprintf(fc, " %lu\n", p); }
    else { sprintf(tmp, "%llu", v); unsigned long long p = strtoull(tmp, NULL, 10); fputs("NUM ", fc); fhex(fc, tmp, strlen(tmp)); fprintf(fc, " %llu\n", p); }
  } else fprintf(fc, "unknown-unit-op\n");
  flush2();
}

/* ---------------------------------------------------------------- topology side */
static hwloc_topology_t topo;
static hwloc_obj_t *objs; static unsigned nobjs, capobjs;

static void collect(hwloc_obj_t o) {
  hwloc_obj_t c; unsigned i;
  if (nobjs == capobjs) { capobjs = capobjs ? 2 * capobjs : 256; objs = realloc(objs, capobjs * sizeof(*objs)); }
  objs[nobjs++] = o;
  for (i = 0; i < o->arity; i++) collect(o->children[i]);
  for (c = o->memory_first_child; c; c = c->next_sibling) collect(c);
  for (c = o->io_first_child; c; c = c->next_sibling) collect(c);
  for (c = o->misc_first_child; c; c = c->next_sibling) collect(c);
}
static void recollect(hwloc_topology_t t) { nobjs = 0; collect(hwloc_get_root_obj(t)); }

static hwloc_bitmap_t set_from_hex(const char *s) {
  if (!strcmp(s, "-")) return NULL;
  hwloc_bitmap_t b = hwloc_bitmap_alloc();
  int inf = 0;
  if (*s == 'I') { inf = 1; s++; }
  size_t n = strlen(s);
  for (size_t i = 0; i < n; i++) {
    char c = s[n - 1 - i]; unsigned v = (c >= '0' && c <= '9') ? c - '0' : (c >= 'a' && c <= 'f') ? c - 'a' + 10 : 0;
    for (int k = 0; k < 4; k++) if (v & (1u << k)) hwloc_bitmap_set(b, 4 * i + k);
  }
  if (inf) hwloc_bitmap_set_range(b, 4 * n, -1);
  return b;
}
static void hex_of_set(char *dst, size_t cap, hwloc_const_bitmap_t s) {
  if (!s) { snprintf(dst, cap, "-"); return; }
  int inf = hwloc_bitmap_weight(s) == -1;
  int last = inf ? hwloc_bitmap_last_unset(s) : hwloc_bitmap_last(s);
  size_t off = 0;
  if (inf) dst[off++] = 'I';
  if (last < 0) { dst[off++] = '0'; dst[off] = 0; return; }
  int started = 0;
  for (int i = last / 64; i >= 0; i--) {
    unsigned long w = hwloc_bitmap_to_ith_ulong(s, i);
    off += snprintf(dst + off, cap - off, started ? "%016lx" : "%lx", w); started = 1;
  }
}

/* userdata attached to objects: a list of entries exported one by one */
struct ud_entry { int b64; char *name; unsigned char *data; size_t len; struct ud_entry *next; };
static struct ud_entry **ud_all; static unsigned ud_nall;     /* registry: objects may be freed by restrict, hwloc does not own userdata */
static void ud_append(hwloc_obj_t o, int b64, const char *name, const void *data, size_t len) {
  struct ud_entry *e = calloc(1, sizeof *e), **p = (struct ud_entry **) &o->userdata;
  ud_all = realloc(ud_all, (ud_nall + 1) * sizeof *ud_all); ud_all[ud_nall++] = e;
  e->b64 = b64; e->name = name ? strdup(name) : NULL; e->data = malloc(len + 1); memcpy(e->data, data, len); e->data[len] = 0; e->len = len;
  while (*p) p = &(*p)->next;
  *p = e;
}
static int xml_valid(unsigned char c) { return (c >= 32 && c <= 126) || c == '\t' || c == '\n' || c == '\r'; }
/* event log (export calls that succeeded / import callbacks), printed as X lines after the dump */
static char *evbuf; static size_t evlen; static FILE *evf;
static void ev_open(void) { evbuf = NULL; evlen = 0; evf = open_memstream(&evbuf, &evlen); }
static void ev_line(const char *tag, hwloc_obj_t o, const char *name, const void *data, size_t len) {
  fprintf(evf, "X %s ud %llu ", tag, (unsigned long long) o->gp_index);
  if (name) { fputs("r:", evf); fhexs(evf, name); } else fputc('-', evf);
  fprintf(evf, " %lu r:", (unsigned long) len); fhex(evf, data, len); fputc('\n', evf);
}
static void ev_flush_to_ops(void) {
  fclose(evf);
  unsigned lines = 0; for (size_t i = 0; i < evlen; i++) if (evbuf[i] == '\n') lines++;
  fwrite(evbuf, 1, evlen, fops); for (unsigned i = 0; i < lines; i++) fprintf(fc, ".\n");
  free(evbuf); evbuf = NULL;
}
static const char *ev_tag = "o";
/* The nolibxml exporter runs the whole export twice when the XML exceeds its 16 kB first guess (one pass to measure, one to
 * write), so the application callback is invoked twice per object; only the last pass produces the file.  A pass restarts
 * when an object comes at or before the previous one in DFS order: the log is then reset. */
static long ev_lastseq = -1; static unsigned ev_passes;
/* the exporter visits memory children first, then normal, I/O and Misc children */
static hwloc_obj_t *xobjs; static unsigned nxobjs, capxobjs;
static void xcollect(hwloc_obj_t o) {
  hwloc_obj_t c; unsigned i;
  if (nxobjs == capxobjs) { capxobjs = capxobjs ? 2 * capxobjs : 256; xobjs = realloc(xobjs, capxobjs * sizeof(*xobjs)); }
  xobjs[nxobjs++] = o;
  for (c = o->memory_first_child; c; c = c->next_sibling) xcollect(c);
  for (i = 0; i < o->arity; i++) xcollect(o->children[i]);
  for (c = o->io_first_child; c; c = c->next_sibling) xcollect(c);
  for (c = o->misc_first_child; c; c = c->next_sibling) xcollect(c);
}
static long dfs_seq(hwloc_obj_t o) { for (unsigned i = 0; i < nxobjs; i++) if (xobjs[i] == o) return i; return -1; }
static void export_cb(void *reserved, hwloc_topology_t t, hwloc_obj_t o) {
  long seq = dfs_seq(o);
  if (evf && seq <= ev_lastseq) { fclose(evf); free(evbuf); ev_open(); ev_passes++; }
  ev_lastseq = seq;
  for (struct ud_entry *e = o->userdata; e; e = e->next) {
    int r = e->b64 ? hwloc_export_obj_userdata_base64(reserved, t, o, e->name, e->data, e->len)
                   : hwloc_export_obj_userdata(reserved, t, o, e->name, e->data, e->len);
    if (!r && evf) ev_line(ev_tag, o, e->name, e->data, e->len);
  }
}
static void import_cb(hwloc_topology_t t, hwloc_obj_t o, const char *name, const void *buffer, size_t len) {
  const unsigned char *d = buffer;
  int b64 = (name && name[0] == 'B') || (len && !xml_valid(d[0]));   /* the generator keeps this convention (needed for the second export) */
  (void) t;
  if (evf) ev_line("r", o, name, buffer, len);
  ud_append(o, b64, name, buffer, len);
}
static void free_ud(hwloc_topology_t t) { (void) t; }
static void free_all_ud(void) {
  for (unsigned i = 0; i < ud_nall; i++) { free(ud_all[i]->name); free(ud_all[i]->data); free(ud_all[i]); }
  free(ud_all); ud_all = NULL; ud_nall = 0;
}

static const char *tyname(hwloc_obj_t o) { return hwloc_obj_type_string(o->type); }

/* canonical lines for everything the dump does not show */
static void extras(hwloc_topology_t t, const char *tag) {
  unsigned lines = 0;
  char a[4096];
  recollect(t);
  for (unsigned i = 0; i < nobjs; i++) {
    hwloc_obj_t o = objs[i];
    if (o->type == HWLOC_OBJ_NUMANODE && o->attr->numanode.page_types_len) {
      fprintf(fops, "X %s pt %llu %u", tag, (unsigned long long) o->gp_index, o->attr->numanode.page_types_len);
      for (unsigned k = 0; k < o->attr->numanode.page_types_len; k++)
        fprintf(fops, " %llu %llu", (unsigned long long) o->attr->numanode.page_types[k].size, (unsigned long long) o->attr->numanode.page_types[k].count);
      fputc('\n', fops); lines++;
    }
    if (o->type == HWLOC_OBJ_PCI_DEVICE || (o->type == HWLOC_OBJ_BRIDGE && o->attr->bridge.upstream_type == HWLOC_OBJ_BRIDGE_PCI)) {
      fprintf(fops, "X %s pci %llu %u %u %u %u %u %u %u\n", tag, (unsigned long long) o->gp_index, o->attr->pcidev.domain, o->attr->pcidev.bus, o->attr->pcidev.dev,
              o->attr->pcidev.func, ((unsigned) o->attr->pcidev.subvendor_id << 16) | o->attr->pcidev.subdevice_id, o->attr->pcidev.revision, o->attr->pcidev.prog_if); lines++;
    }
  }
  /* distances */
  { unsigned nr = 0; hwloc_distances_get(t, &nr, NULL, 0, 0);
    struct hwloc_distances_s **ds = calloc(nr + 1, sizeof *ds);
    hwloc_distances_get(t, &nr, ds, 0, 0);
    for (unsigned i = 0; i < nr; i++) {
      const char *nm = hwloc_distances_get_name(t, ds[i]);
      fprintf(fops, "X %s dist ", tag); if (nm) { fputs("h:", fops); fhexs(fops, nm); } else fputc('-', fops);
      fprintf(fops, " %lu %u", ds[i]->kind, ds[i]->nbobjs);
      for (unsigned k = 0; k < ds[i]->nbobjs; k++) if (ds[i]->objs[k]) fprintf(fops, " %s:%llu", tyname(ds[i]->objs[k]), (unsigned long long) ds[i]->objs[k]->gp_index); else fputs(" null", fops);
      fputs(" |", fops);
      for (unsigned k = 0; k < ds[i]->nbobjs * ds[i]->nbobjs; k++) fprintf(fops, " %llu", (unsigned long long) ds[i]->values[k]);
      fputc('\n', fops); lines++;
      hwloc_distances_release(t, ds[i]);
    }
    free(ds); }
  /* memory attributes (ids 0 and 1 are virtual: derived from the tree) */
  for (hwloc_memattr_id_t id = 2; ; id++) {
    const char *nm = NULL; unsigned long fl = 0;
    if (hwloc_memattr_get_name(t, id, &nm) < 0 || hwloc_memattr_get_flags(t, id, &fl) < 0) break;
    unsigned nt = 0; hwloc_memattr_get_targets(t, id, NULL, 0, &nt, NULL, NULL);
    hwloc_obj_t *tg = calloc(nt + 1, sizeof *tg); hwloc_uint64_t *tv = calloc(nt + 1, sizeof *tv);
    hwloc_memattr_get_targets(t, id, NULL, 0, &nt, tg, tv);
    fprintf(fops, "X %s memattr %u r:", tag, id); fhexs(fops, nm); fprintf(fops, " %lu %u\n", fl, nt); lines++;
    for (unsigned k = 0; k < nt; k++) {
      fprintf(fops, "X %s mav %u %s:%llu", tag, id, tyname(tg[k]), (unsigned long long) tg[k]->gp_index);
      if (!(fl & HWLOC_MEMATTR_FLAG_NEED_INITIATOR)) fprintf(fops, " - %llu", (unsigned long long) tv[k]);
      else {
        unsigned ni = 0; hwloc_memattr_get_initiators(t, id, tg[k], 0, &ni, NULL, NULL);
        struct hwloc_location *in = calloc(ni + 1, sizeof *in); hwloc_uint64_t *iv = calloc(ni + 1, sizeof *iv);
        hwloc_memattr_get_initiators(t, id, tg[k], 0, &ni, in, iv);
        fprintf(fops, " %u", ni);
        for (unsigned j = 0; j < ni; j++) {
          if (in[j].type == HWLOC_LOCATION_TYPE_CPUSET) { hex_of_set(a, sizeof a, in[j].location.cpuset); fprintf(fops, " c%s", a); }
          else if (in[j].location.object) fprintf(fops, " o%s:%llu", tyname(in[j].location.object), (unsigned long long) in[j].location.object->gp_index);
          else fputs(" onull", fops);
          fprintf(fops, " %llu", (unsigned long long) iv[j]);
        }
        free(in); free(iv);
      }
      fputc('\n', fops); lines++;
    }
    free(tg); free(tv);
  }
  /* cpu kinds */
  { int nk = hwloc_cpukinds_get_nr(t, 0);
    hwloc_bitmap_t s = hwloc_bitmap_alloc();
    for (int k = 0; k < nk; k++) {
      int eff = -2; struct hwloc_infos_s *inf = NULL;
      if (hwloc_cpukinds_get_info(t, k, s, &eff, &inf, 0) < 0) continue;
      hex_of_set(a, sizeof a, s);
      fprintf(fops, "X %s cpukind %d %s %d %u", tag, k, a, eff, inf ? inf->count : 0);
      for (unsigned j = 0; inf && j < inf->count; j++) { fputs(" h:", fops); fhexs(fops, inf->array[j].name); fputs(" h:", fops); fhexs(fops, inf->array[j].value); }
      fputc('\n', fops); lines++;
    }
    hwloc_bitmap_free(s); }
  /* topology infos */
  { struct hwloc_infos_s *inf = hwloc_topology_get_infos(t);
    fprintf(fops, "X %s tinfo %u", tag, inf ? inf->count : 0);
    for (unsigned j = 0; inf && j < inf->count; j++) { fputs(" h:", fops); fhexs(fops, inf->array[j].name); fputs(" h:", fops); fhexs(fops, inf->array[j].value); }
    fputc('\n', fops); lines++; }
  /* support bits, when their import was requested */
  if (hwloc_topology_get_flags(t) & HWLOC_TOPOLOGY_FLAG_IMPORT_SUPPORT) {
    const struct hwloc_topology_support *sp = hwloc_topology_get_support(t);
    fprintf(fops, "X %s support ", tag); fhex(fops, sp->discovery, sizeof *sp->discovery); fputc(' ', fops);
    fhex(fops, sp->cpubind, sizeof *sp->cpubind); fputc(' ', fops); fhex(fops, sp->membind, sizeof *sp->membind); fputc('\n', fops); lines++;
  }
  for (unsigned i = 0; i < lines; i++) fprintf(fc, ".\n");
}

static void dump_both(hwloc_topology_t t, const char *tag) {
  unsigned lines = dump_topology(fops, t, tag);
  for (unsigned i = 0; i < lines; i++) fprintf(fc, ".\n");
}

static int load_case(char kind, unsigned long flags, const char *filters, const char *arg) {
  unsetenv("HWLOC_FSROOT"); unsetenv("HWLOC_CPUID_PATH"); unsetenv("HWLOC_COMPONENTS"); unsetenv("HWLOC_DUMPED_HWDATA_DIR");
  if (hwloc_topology_init(&topo) < 0) return -1;
  for (int ty = 0; ty < HWLOC_OBJ_TYPE_MAX && filters[ty]; ty++)
    if (filters[ty] >= '0' && filters[ty] <= '3') hwloc_topology_set_type_filter(topo, (hwloc_obj_type_t) ty, (enum hwloc_type_filter_e) (filters[ty] - '0'));
  if (hwloc_topology_set_flags(topo, flags) < 0) goto fail;
  int err = 0;
  switch (kind) {
  case 'S': err = hwloc_topology_set_synthetic(topo, arg); break;
  case 'X': err = hwloc_topology_set_xml(topo, arg); break;
  case 'F': setenv("HWLOC_FSROOT", arg, 1); setenv("HWLOC_COMPONENTS", "linux,stop", 1); setenv("HWLOC_DUMPED_HWDATA_DIR", "/var/run/hwloc", 1); break;
  case 'G': setenv("HWLOC_FSROOT", arg, 1); setenv("HWLOC_COMPONENTS", "linux,pci,stop", 1); setenv("HWLOC_DUMPED_HWDATA_DIR", "/var/run/hwloc", 1); break;
  case 'C': setenv("HWLOC_CPUID_PATH", arg, 1); setenv("HWLOC_COMPONENTS", "x86,stop", 1); break;
  default: err = -1;
  }
  if (err < 0 || hwloc_topology_load(topo) < 0) goto fail;
  unsetenv("HWLOC_FSROOT"); unsetenv("HWLOC_CPUID_PATH"); unsetenv("HWLOC_COMPONENTS"); unsetenv("HWLOC_DUMPED_HWDATA_DIR");
  recollect(topo);
  return 0;
fail:
  hwloc_topology_destroy(topo); topo = NULL; return -1;
}

/* execute one OP line */
static void exec_op(char *line) {
  char *tok[80]; int nt = 0; char *save = NULL;
  for (char *t = strtok_r(line, " \n", &save); t && nt < 80; t = strtok_r(NULL, " \n", &save)) tok[nt++] = t;
  if (nt < 2) return;
  const char *op = tok[1];
  recollect(topo);
#define OBJ(k) (objs[strtoul(tok[k], NULL, 10) % nobjs])
  if (!strcmp(op, "allow") && nt >= 5) {
    hwloc_bitmap_t c = set_from_hex(tok[3]), n = set_from_hex(tok[4]);
    hwloc_topology_allow(topo, c, n, strtoul(tok[2], NULL, 10));
    hwloc_bitmap_free(c); hwloc_bitmap_free(n);
  } else if (!strcmp(op, "addinfo") && nt >= 5) {
    char *n = unhex(tok[3]), *v = unhex(tok[4]);
    hwloc_obj_add_info(OBJ(2), n, v); free(n); free(v);
  } else if (!strcmp(op, "tinfo") && nt >= 5) {
    char *n = unhex(tok[3]), *v = unhex(tok[4]);
    hwloc_modify_infos(hwloc_topology_get_infos(topo), strtoul(tok[2], NULL, 10), n, v); free(n); free(v);
  } else if (!strcmp(op, "subtype") && nt >= 4) {
    char *s = unhex(tok[3]);
    hwloc_obj_set_subtype(topo, OBJ(2), s); free(s);
  } else if (!strcmp(op, "name") && nt >= 4) {
    hwloc_obj_t o = OBJ(2);
    free(o->name); o->name = unhex(tok[3]);           /* public field, freed with free() by hwloc */
  } else if (!strcmp(op, "misc") && nt >= 4) {
    char *s = unhex(tok[3]);
    hwloc_topology_insert_misc_object(topo, OBJ(2), s); free(s);
  } else if (!strcmp(op, "restrict") && nt >= 4) {
    hwloc_bitmap_t s = set_from_hex(tok[2]);
    hwloc_topology_restrict(topo, s, strtoul(tok[3], NULL, 10)); hwloc_bitmap_free(s);
  } else if (!strcmp(op, "group") && nt >= 7) {
    /* group <cpuset|-> <nodeset|-> <dont_merge> <kind> <subkind> */
    hwloc_obj_t g = hwloc_topology_alloc_group_object(topo);
    if (g) {
      hwloc_bitmap_t c = set_from_hex(tok[2]), n = set_from_hex(tok[3]);
      if (c) g->cpuset = c;
      if (n) g->nodeset = n;
      g->attr->group.dont_merge = (unsigned char) atoi(tok[4]);
      g->attr->group.kind = atoi(tok[5]); g->attr->group.subkind = atoi(tok[6]);
      hwloc_topology_insert_group_object(topo, g);
    }
  } else if (!strcmp(op, "distadd") && nt >= 9) {
    /* distadd <depth|H> <first> <n> <kind> <flags> <seed> <namehex|-> */
    int hetero = !strcmp(tok[2], "H"); int depth = atoi(tok[2]); unsigned first = atoi(tok[3]), n = atoi(tok[4]);
    unsigned long kind = strtoul(tok[5], NULL, 10), fl = strtoul(tok[6], NULL, 10);
    uint64_t sd = strtoull(tok[7], NULL, 10);
    char *nm = unhex(tok[8]);
    hwloc_obj_t os[32]; hwloc_uint64_t vals[32 * 32]; unsigned k = 0;
    if (n > 32) n = 32;
    for (unsigned i = 0; i < n; i++) {
      hwloc_obj_t o = hetero ? objs[(first + i * (1 + sd % 5)) % nobjs] : hwloc_get_obj_by_depth(topo, depth, first + i);
      int dup = 0; for (unsigned j = 0; j < k; j++) if (os[j] == o) dup = 1;
      if (o && !dup) os[k++] = o;
    }
    for (unsigned i = 0; i < k; i++) for (unsigned j = 0; j < k; j++) {
      unsigned bi = i / (1 + sd % 3), bj = j / (1 + sd % 3);
      vals[i * k + j] = (sd & 64) ? ((i * 7919ULL + j * 104729ULL + sd) * 0x9E3779B97F4A7C15ULL) >> (sd % 60)        /* arbitrary 64-bit values */
                                  : (i == j ? 10 : (bi == bj ? 12 : 20 + ((sd >> 8) % 2) * ((bi / 2 == bj / 2) ? 0 : 10)));
    }
    hwloc_distances_add_handle_t h = hwloc_distances_add_create(topo, nm, kind, 0);
    if (h && hwloc_distances_add_values(topo, h, k, os, vals, 0) >= 0) hwloc_distances_add_commit(topo, h, fl);
    free(nm);
  } else if (!strcmp(op, "distremove")) {
    hwloc_distances_remove(topo);
  } else if (!strcmp(op, "memattr") && nt >= 8) {
    /* memattr <flags> <namehex> <node lidx> <inikind c|o|-> <iniarg> <value> */
    hwloc_memattr_id_t id; char *nm = unhex(tok[3]); unsigned long fl = strtoul(tok[2], NULL, 10);
    int r = hwloc_memattr_get_by_name(topo, nm, &id);
    if (r < 0) r = hwloc_memattr_register(topo, nm, fl, &id);
    if (!r) {
      unsigned nn = hwloc_get_nbobjs_by_type(topo, HWLOC_OBJ_NUMANODE);
      hwloc_obj_t node = nn ? hwloc_get_obj_by_type(topo, HWLOC_OBJ_NUMANODE, atoi(tok[4]) % nn) : NULL;
      struct hwloc_location loc, *lp = NULL; hwloc_bitmap_t c = NULL;
      if (tok[5][0] == 'c') { c = set_from_hex(tok[6]); loc.type = HWLOC_LOCATION_TYPE_CPUSET; loc.location.cpuset = c; lp = &loc; }
      else if (tok[5][0] == 'o') { loc.type = HWLOC_LOCATION_TYPE_OBJECT; loc.location.object = OBJ(6); lp = &loc; }
      if (node) hwloc_memattr_set_value(topo, id, node, lp, 0, strtoull(tok[7], NULL, 10));
      hwloc_bitmap_free(c);
    }
    free(nm);
  } else if (!strcmp(op, "cpukind") && nt >= 5) {
    /* cpukind <set> <eff> <ninfos> (<name> <value>)* */
    hwloc_bitmap_t s = set_from_hex(tok[2]);
    struct hwloc_infos_s inf; struct hwloc_info_s arr[8]; unsigned ni = atoi(tok[4]); if (ni > 8) ni = 8;
    memset(&inf, 0, sizeof inf);
    for (unsigned i = 0; i < ni && 5 + 2 * i + 1 < (unsigned) nt; i++) { arr[i].name = unhex(tok[5 + 2 * i]); arr[i].value = unhex(tok[6 + 2 * i]); inf.count = i + 1; }
    inf.array = arr;
    if (s) hwloc_cpukinds_register(topo, s, atoi(tok[3]), inf.count ? &inf : NULL, 0);
    for (unsigned i = 0; i < inf.count; i++) { free(arr[i].name); free(arr[i].value); }
    hwloc_bitmap_free(s);
  } else if (!strcmp(op, "ud") && nt >= 6) {
    /* ud <obj> <b64> <namehex|-> <datahex> */
    size_t n; char *nm = unhex(tok[4]); unsigned char *d = unhexn(tok[5], &n);
    ud_append(OBJ(2), atoi(tok[3]), nm, d, n);
    free(nm); free(d);
  } else if (!strcmp(op, "refresh")) {
    hwloc_topology_refresh(topo);
  }
  recollect(topo);
}

static char *read_file(const char *path, size_t *len) {
  FILE *f = fopen(path, "rb"); if (!f) return NULL;
  fseek(f, 0, SEEK_END); long n = ftell(f); fseek(f, 0, SEEK_SET);
  char *b = malloc(n + 1); if (fread(b, 1, n, f) != (size_t) n) { fclose(f); free(b); return NULL; }
  b[n] = 0; fclose(f); *len = n; return b;
}

/* export `t`; returns malloc'ed bytes (without the final NUL for buffers) or NULL */
static char *do_export(hwloc_topology_t t, char mode, unsigned long xflags, const char *path, size_t *lenp) {
  hwloc_topology_set_userdata_export_callback(t, export_cb);
  if (mode == 'B') {
    char *xb = NULL; int xl = 0;
    if (hwloc_topology_export_xmlbuffer(t, &xb, &xl, xflags) < 0) return NULL;
    char *copy = malloc(xl + 1); memcpy(copy, xb, xl); copy[xl] = 0; *lenp = xl;      /* xl includes the ending NUL */
    hwloc_free_xmlbuffer(t, xb);
    return copy;
  }
  unlink(path);
  if (hwloc_topology_export_xml(t, path, xflags) < 0) return NULL;
  return read_file(path, lenp);
}

/* remove every line that holds a <support name=.../> element, in place; returns the new length */
static size_t strip_support(char *x, size_t len) {
  size_t o = 0, i = 0;
  while (i < len) {
    size_t e = i; while (e < len && x[e] != '\n') e++;
    if (e < len) e++;
    size_t b = i; while (b < e && (x[b] == ' ' || x[b] == '\t')) b++;
    if (!(e - b >= 15 && !memcmp(x + b, "<support name=\"", 15))) { memmove(x + o, x + i, e - i); o += e - i; }
    i = e;
  }
  return o;
}

/* Precondition: the initiators of a memattr target are pairwise distinct.  Known core behaviour: restrict clips initiator cpusets
 * to the remaining cpuset and may make two of them equal (two values for one (target, initiator) pair); the XML importer then
 * merges them (the second value replaces the first). */
static int duplicate_initiators(hwloc_topology_t t) {
  for (hwloc_memattr_id_t id = 0; id < t->nr_memattrs; id++) { unsigned nt = 0; hwloc_memattr_get_targets(t, id, NULL, 0, &nt, NULL, NULL); }  /* refresh caches */
  for (unsigned id = 0; id < t->nr_memattrs; id++) {
    struct hwloc_internal_memattr_s *im = &t->memattrs[id];
    if (!(im->flags & HWLOC_MEMATTR_FLAG_NEED_INITIATOR) || (im->iflags & HWLOC_IMATTR_FLAG_CONVENIENCE)) continue;
    for (unsigned j = 0; j < im->nr_targets; j++) {
      struct hwloc_internal_memattr_target_s *tg = &im->targets[j];
      for (unsigned k = 0; k < tg->nr_initiators; k++) for (unsigned l = k + 1; l < tg->nr_initiators; l++) {
        struct hwloc_internal_location_s *a = &tg->initiators[k].initiator, *b = &tg->initiators[l].initiator;
        if (a->type != b->type) continue;
        /* the importer's matching rule (match_internal_location): a later cpuset initiator INCLUDED in an earlier one is merged into it
         * (equal sets are the special case the precondition was first written for; B4: thorough seed 1 met 0x11 / 0x10 after a restrict) */
        if (a->type == HWLOC_LOCATION_TYPE_CPUSET ? hwloc_bitmap_isincluded(b->location.cpuset, a->location.cpuset)
            : (a->location.object.gp_index == b->location.object.gp_index && a->location.object.type == b->location.object.type)) return 1;
      }
    }
  }
  return 0;
}

/* The original must pass hwloc's own hwloc_topology_check() (run in a forked grandchild, it aborts on failure): a history of
 * modifying calls that leaves a topology which does not is reported as a failed verdict (CMP original-fails-check). */
static int original_fails_check(hwloc_topology_t t) {
  fflush(NULL);
  pid_t p = fork();
  if (p == 0) { int fd = open("/dev/null", O_WRONLY); if (fd >= 0 && !getenv("VERIF_XMLRT_SHOW_CHECK")) { dup2(fd, 2); } hwloc_topology_check(t); _exit(0); }
  int st = 0; waitpid(p, &st, 0);
  return !(WIFEXITED(st) && WEXITSTATUS(st) == 0);
}

/* ---- object-level unit stream (v3, nolibxml export): for sampled objects, the raw attribute bytes of the <object ...> start tag
 * of the export, the fields of the original object and of the reloaded object with the same gp_index.
 *   OBJ <root> <parent type> <parent has sets> <tag hex> O <fields> R <fields|->          expected answer "OBJ ok"
 *   fields: type osidx gp cpuset ccpuset nodeset cnodeset allowed_cpuset allowed_nodeset name subtype a0..a5 pci
 *   pci: - or domain,bus,dev,func,class,vendor,device,subvendor,subdevice,revision,progif,<hex of the %f text of linkspeed> */
static int cur_export_libxml;
static void obj_fields(FILE *f, hwloc_topology_t t, hwloc_obj_t o) {
  char a[4096];
  long long v[6] = {0, 0, 0, 0, 0, 0};
  int haspci = 0;
  switch (o->type) {
  case HWLOC_OBJ_NUMANODE: v[0] = (long long) o->attr->numanode.local_memory; break;      /* page types are child elements */
  case HWLOC_OBJ_L1CACHE: case HWLOC_OBJ_L2CACHE: case HWLOC_OBJ_L3CACHE: case HWLOC_OBJ_L4CACHE: case HWLOC_OBJ_L5CACHE:
  case HWLOC_OBJ_L1ICACHE: case HWLOC_OBJ_L2ICACHE: case HWLOC_OBJ_L3ICACHE: case HWLOC_OBJ_MEMCACHE:
    v[0] = (long long) o->attr->cache.size; v[1] = o->attr->cache.depth; v[2] = o->attr->cache.linesize; v[3] = o->attr->cache.associativity; v[4] = o->attr->cache.type; break;
  case HWLOC_OBJ_GROUP: v[0] = o->attr->group.depth; v[1] = o->attr->group.kind; v[2] = o->attr->group.subkind; v[3] = o->attr->group.dont_merge; break;
  case HWLOC_OBJ_PCI_DEVICE: v[0] = o->attr->pcidev.domain; v[1] = o->attr->pcidev.bus; v[2] = o->attr->pcidev.dev; v[3] = o->attr->pcidev.func; v[4] = o->attr->pcidev.class_id;
    v[5] = ((long long) o->attr->pcidev.vendor_id << 16) | o->attr->pcidev.device_id; haspci = 1; break;
  case HWLOC_OBJ_BRIDGE: v[0] = o->attr->bridge.upstream_type; v[1] = o->attr->bridge.downstream_type; v[2] = o->attr->bridge.depth;
    v[3] = o->attr->bridge.downstream.pci.domain; v[4] = o->attr->bridge.downstream.pci.secondary_bus; v[5] = o->attr->bridge.downstream.pci.subordinate_bus;
    haspci = o->attr->bridge.upstream_type == HWLOC_OBJ_BRIDGE_PCI; break;
  case HWLOC_OBJ_OS_DEVICE: v[0] = (long long) o->attr->osdev.types; break;
  default: break;
  }
  fprintf(f, "%d %d %llu", (int) o->type, (int) o->os_index, (unsigned long long) o->gp_index);
  hex_of_set(a, sizeof a, o->cpuset); fprintf(f, " %s", a); hex_of_set(a, sizeof a, o->complete_cpuset); fprintf(f, " %s", a);
  hex_of_set(a, sizeof a, o->nodeset); fprintf(f, " %s", a); hex_of_set(a, sizeof a, o->complete_nodeset); fprintf(f, " %s", a);
  if (!o->parent) { hex_of_set(a, sizeof a, hwloc_topology_get_allowed_cpuset(t)); fprintf(f, " %s", a); hex_of_set(a, sizeof a, hwloc_topology_get_allowed_nodeset(t)); fprintf(f, " %s", a); }
  else fputs(" - -", f);
  fputc(' ', f); fhexs(f, o->name); fputc(' ', f); fhexs(f, o->subtype);
  for (int i = 0; i < 6; i++) fprintf(f, " %lld", v[i]);
  if (!haspci) fputs(" -", f);
  else {
    char sp[64]; snprintf(sp, sizeof sp, "%f", o->attr->pcidev.linkspeed);
    fprintf(f, " %u,%u,%u,%u,%u,%u,%u,%u,%u,%u,%u,", o->attr->pcidev.domain, o->attr->pcidev.bus, o->attr->pcidev.dev, o->attr->pcidev.func, o->attr->pcidev.class_id,
            o->attr->pcidev.vendor_id, o->attr->pcidev.device_id, o->attr->pcidev.subvendor_id, o->attr->pcidev.subdevice_id, o->attr->pcidev.revision, o->attr->pcidev.prog_if);
    fhex(f, sp, strlen(sp));
  }
}
static void obj_stream(hwloc_topology_t t1, hwloc_topology_t t2, const char *xml, size_t len) {
  hwloc_obj_t *o1; unsigned n1;
  recollect(t1); n1 = nobjs; o1 = malloc((n1 + 1) * sizeof *o1); memcpy(o1, objs, n1 * sizeof *o1);
  recollect(t2);
  unsigned stride = n1 > 48 ? n1 / 48 : 1, nio = 0;
  for (unsigned i = 0; i < n1; i++) {
    hwloc_obj_t o = o1[i], r = NULL;
    /* every stride-th object, plus the first 40 memory-side caches / I/O / Misc objects (rare types) */
    if (i % stride && !(o->type >= HWLOC_OBJ_MEMCACHE && nio++ < 40)) continue;
    char key[64]; int kl = snprintf(key, sizeof key, " id=\"obj%llu\"", (unsigned long long) o->gp_index);
    const char *p = NULL;
    for (size_t k = 0; k + kl <= len; k++) if (!memcmp(xml + k, key, kl)) { p = xml + k; break; }
    if (!p) continue;
    const char *st = p; while (st > xml && *st != '<') st--;
    if (strncmp(st, "<object", 7)) continue;
    const char *en = p; while (en < xml + len && *en != '>') en++;
    if (en >= xml + len) continue;
    if (en[-1] == '/') en--;
    for (unsigned k = 0; k < nobjs; k++) if (objs[k]->gp_index == o->gp_index && objs[k]->type == o->type) { r = objs[k]; break; }
    fprintf(fops, "OBJ %d %d %d ", o->parent ? 0 : 1, o->parent ? (int) o->parent->type : 0, o->parent ? (o->parent->cpuset ? 1 : 0) : 1);
    fhex(fops, st + 7, (size_t) (en - (st + 7)));
    fputs(" O ", fops); obj_fields(fops, t1, o);
    fputs(" R ", fops); if (r) obj_fields(fops, t2, r); else fputc('-', fops);
    fputc('\n', fops); fprintf(fc, "OBJ ok\n");
  }
  free(o1);
}

/* ---- tree-level stream (v3, nolibxml export, small topologies): the element tree of the REAL export below the root <object>
 * (tags, raw attribute bytes of every start tag, text content, nesting), the object tree of the original topology and the object
 * tree of the reloaded topology, each in document order (memory, normal, I/O, Misc children):
 *   TB <nobjs>
 *   TE <depth> <tag hex> <raw attribute bytes hex> <content hex | ->                    one per element of the export
 *   TO|TR <depth> <kind r|m|n|i|x> <fields as in OBJ> I <n> (<name> <value>)* P <n> (<size> <count>)* U <n> (<name|-> <b64> <data>)*
 *   TJ                                                                                  expected answer "TREE ok"
 * The driver builds the model tree from the TO lines: exportTree of it must be the TE tree exactly, it must be TreeValid,
 * importTree of the TE tree must be normTree of it, and must agree with the TR tree on what the model carries. */
static int is_blank_c(char c) { return c == ' ' || c == '\t' || c == '\n' || c == '\r'; }
/* the element scanner behind the TE (tree) and SE (side structures) lines: from the start tag at `p`; multi = 0: one element with
 * its subtree; multi = 1: every sibling element up to the end tag of the enclosing element.  op = NULL: nothing is written. */
static int scan_elems(const char *op, const char *p, const char *end, int multi, const char **afterp) {
  int depth = 0, n = 0;
  while (p < end && *p == '<') {
    if (p[1] == '/') {
      if (depth == 0) break;                                   /* multi: the end tag of the enclosing element */
      while (p < end && *p != '>') p++;
      if (p >= end) return -1;
      p++; depth--;
      if (depth <= 0 && !multi) break;
      while (p < end && is_blank_c(*p)) p++;
      continue;
    }
    const char *t = p + 1, *te = t;
    while (te < end && ((*te >= 'a' && *te <= 'z') || (*te >= '0' && *te <= '9') || *te == '_')) te++;
    const char *gt = te; while (gt < end && *gt != '>') gt++;
    if (gt >= end) return -1;
    int closed = gt[-1] == '/';
    const char *ae = closed ? gt - 1 : gt;
    const char *q = gt + 1, *r = q;
    int has = 0;
    if (!closed) {
      while (r < end && *r != '<') r++;
      if (r >= end) return -1;
      if (((size_t) (te - t) == 8 && !memcmp(t, "userdata", 8)) || ((size_t) (te - t) == 7 && !memcmp(t, "indexes", 7))
          || ((size_t) (te - t) == 9 && !memcmp(t, "u64values", 9))) has = 1;      /* get_content takes the exact bytes up to the next tag */
      else for (const char *z = q; z < r; z++) if (!is_blank_c(*z)) has = 1;
    }
    if (op) {
      fprintf(fops, "%s %d ", op, depth); fhex(fops, t, (size_t) (te - t)); fputc(' ', fops); fhex(fops, te, (size_t) (ae - te)); fputc(' ', fops);
      if (has) fhex(fops, q, (size_t) (r - q)); else fputc('-', fops);
      fputc('\n', fops); fprintf(fc, ".\n");
    }
    n++;
    if (closed) {
      if (depth == 0 && !multi) { p = q; break; }
      p = q; while (p < end && is_blank_c(*p)) p++;
    } else { depth++; p = r; }
  }
  if (afterp) { while (p < end && is_blank_c(*p)) p++; *afterp = p; }
  return n;
}
static const char *root_object(const char *xml, size_t len) {
  for (size_t k = 0; k + 8 <= len; k++) if (!memcmp(xml + k, "<object ", 8)) return xml + k;
  return NULL;
}
static int tree_elems(const char *xml, size_t len) {
  const char *p = root_object(xml, len);
  if (!p) return -1;
  return scan_elems("TE", p, xml + len, 0, NULL);
}
static void tree_objs(const char *op, hwloc_topology_t t, hwloc_obj_t o, int depth, char kind) {
  hwloc_obj_t c;
  fprintf(fops, "%s %d %c ", op, depth, kind); obj_fields(fops, t, o);
  fprintf(fops, " I %u", o->infos.count);
  for (unsigned i = 0; i < o->infos.count; i++) { fputc(' ', fops); fhexs(fops, o->infos.array[i].name); fputc(' ', fops); fhexs(fops, o->infos.array[i].value); }
  if (o->type == HWLOC_OBJ_NUMANODE) {
    fprintf(fops, " P %u", o->attr->numanode.page_types_len);
    for (unsigned i = 0; i < o->attr->numanode.page_types_len; i++)
      fprintf(fops, " %llu %llu", (unsigned long long) o->attr->numanode.page_types[i].size, (unsigned long long) o->attr->numanode.page_types[i].count);
  } else fputs(" P 0", fops);
  unsigned nu = 0; for (struct ud_entry *e = o->userdata; e; e = e->next) nu++;
  fprintf(fops, " U %u", nu);
  for (struct ud_entry *e = o->userdata; e; e = e->next) { fputc(' ', fops); fhexs(fops, e->name); fprintf(fops, " %d ", e->b64 ? 1 : 0); fhex(fops, e->data, e->len); }
  fputc('\n', fops); fprintf(fc, ".\n");
  for (c = o->memory_first_child; c; c = c->next_sibling) tree_objs(op, t, c, depth + 1, 'm');
  for (c = o->first_child; c; c = c->next_sibling) tree_objs(op, t, c, depth + 1, 'n');
  for (c = o->io_first_child; c; c = c->next_sibling) tree_objs(op, t, c, depth + 1, 'i');
  for (c = o->misc_first_child; c; c = c->next_sibling) tree_objs(op, t, c, depth + 1, 'x');
}
#define TREE_MAX_OBJS 160
static void tree_stream(hwloc_topology_t t1, hwloc_topology_t t2, const char *xml, size_t len) {
  recollect(t1);
  if (nobjs > TREE_MAX_OBJS || len > 400000) return;
  emit(".", "TB %u", nobjs);
  tree_elems(xml, len);
  tree_objs("TO", t1, hwloc_get_root_obj(t1), 0, 'r');
  tree_objs("TR", t2, hwloc_get_root_obj(t2), 0, 'r');
  emit("TREE ok", "TJ");
}

/* ---- side-structure stream (v3, nolibxml export, the same topologies as the tree stream): the elements of the REAL export after
 * the root <object> (distances2 / distances2hetero with their indexes / u64values children, support, memattr with memattr_value,
 * cpukind with info, topology info) and the side structures of the original ("o") and of the reloaded ("r") topology:
 *   SB
 *   SE <depth> <tag hex> <raw attribute bytes hex> <content hex | ->
 *   SD o|r <hetero> <unique type | -> <kind> <name hex | -> <n> (<type>:<index>){n} <value>{n*n}     hwloc_distances_get order
 *   SM o|r <id> <name hex> <flags> <ntargets>                                                      hwloc_memattr_get_name / _flags
 *   ST o|r <type> <gp_index> <value> <ninitiators> (c<set hex> | o<type>:<gp_index>) <value> ...   ... _get_targets / _get_initiators
 *   SK o|r <cpuset hex> <forced_efficiency> <ninfos> (<name hex> <value hex>)*                     hwloc_cpukinds_get_info
 *   SI o|r <n> (<name hex> <value hex>)*                                                           hwloc_topology_get_infos
 *   SJ                                                                                             expected answer "SIDE ok"
 * Everything comes from the public API except the two fields it does not show: cpukinds[k].forced_efficiency (get_info returns the
 * computed efficiency) and whether a distances structure carries different_types[] (both read from the private structures).
 * The driver builds the model state from the "o" lines: exportSide of it must be the SE elements exactly (support elements apart),
 * importSide of the SE elements must be the normalised original and must agree with the "r" lines. */
static void side_topo(const char *tag, hwloc_topology_t t) {
  char a[4096];
  { unsigned nr = 0; hwloc_distances_get(t, &nr, NULL, 0, 0);
    struct hwloc_distances_s **ds = calloc(nr + 1, sizeof *ds);
    hwloc_distances_get(t, &nr, ds, 0, 0);
    unsigned nint = 0; for (struct hwloc_internal_distances_s *d = t->first_dist; d; d = d->next) nint++;
    struct hwloc_internal_distances_s *id = t->first_dist;
    for (unsigned i = 0; i < nr; i++, id = id ? id->next : NULL) {
      unsigned n = ds[i]->nbobjs; int het = 0, bad = 0;
      for (unsigned k = 0; k < n; k++) if (!ds[i]->objs[k]) bad = 1;
      if (bad) { fprintf(fops, "SX %s null-object\n", tag); fprintf(fc, ".\n"); hwloc_distances_release(t, ds[i]); continue; }
      if (nint == nr && id && id->nbobjs == n) het = id->different_types != NULL;
      else for (unsigned k = 1; k < n; k++) if (ds[i]->objs[k]->type != ds[i]->objs[0]->type) het = 1;
      const char *nm = hwloc_distances_get_name(t, ds[i]);
      fprintf(fops, "SD %s %d ", tag, het);
      if (het) fputc('-', fops); else fprintf(fops, "%d", (int) ds[i]->objs[0]->type);
      fprintf(fops, " %lu ", ds[i]->kind); fhexs(fops, nm); fprintf(fops, " %u", n);
      for (unsigned k = 0; k < n; k++) {
        hwloc_obj_t o = ds[i]->objs[k];
        int os = !het && (o->type == HWLOC_OBJ_PU || o->type == HWLOC_OBJ_NUMANODE);
        fprintf(fops, " %d:%llu", (int) o->type, os ? (unsigned long long) o->os_index : (unsigned long long) o->gp_index);
      }
      for (unsigned k = 0; k < n * n; k++) fprintf(fops, " %llu", (unsigned long long) ds[i]->values[k]);
      fputc('\n', fops); fprintf(fc, ".\n");
      hwloc_distances_release(t, ds[i]);
    }
    free(ds); }
  for (hwloc_memattr_id_t id = 0; ; id++) {
    const char *nm = NULL; unsigned long fl = 0;
    if (hwloc_memattr_get_name(t, id, &nm) < 0 || hwloc_memattr_get_flags(t, id, &fl) < 0) break;
    unsigned nt = 0;
    if (id >= 2) hwloc_memattr_get_targets(t, id, NULL, 0, &nt, NULL, NULL);       /* ids 0 and 1 are virtual (never exported) */
    hwloc_obj_t *tg = calloc(nt + 1, sizeof *tg); hwloc_uint64_t *tv = calloc(nt + 1, sizeof *tv);
    if (id >= 2) hwloc_memattr_get_targets(t, id, NULL, 0, &nt, tg, tv);
    fprintf(fops, "SM %s %u ", tag, id); fhexs(fops, nm); fprintf(fops, " %lu %u\n", fl, nt); fprintf(fc, ".\n");
    for (unsigned k = 0; k < nt; k++) {
      fprintf(fops, "ST %s %d %llu", tag, (int) tg[k]->type, (unsigned long long) tg[k]->gp_index);
      if (!(fl & HWLOC_MEMATTR_FLAG_NEED_INITIATOR)) fprintf(fops, " %llu 0", (unsigned long long) tv[k]);
      else {
        unsigned ni = 0; hwloc_memattr_get_initiators(t, id, tg[k], 0, &ni, NULL, NULL);
        struct hwloc_location *in = calloc(ni + 1, sizeof *in); hwloc_uint64_t *iv = calloc(ni + 1, sizeof *iv);
        hwloc_memattr_get_initiators(t, id, tg[k], 0, &ni, in, iv);
        fprintf(fops, " 0 %u", ni);
        for (unsigned j = 0; j < ni; j++) {
          if (in[j].type == HWLOC_LOCATION_TYPE_CPUSET) { hex_of_set(a, sizeof a, in[j].location.cpuset); fprintf(fops, " c%s", a); }
          else if (in[j].location.object) fprintf(fops, " o%d:%llu", (int) in[j].location.object->type, (unsigned long long) in[j].location.object->gp_index);
          else fputs(" onull", fops);
          fprintf(fops, " %llu", (unsigned long long) iv[j]);
        }
        free(in); free(iv);
      }
      fputc('\n', fops); fprintf(fc, ".\n");
    }
    free(tg); free(tv);
  }
  { int nk = hwloc_cpukinds_get_nr(t, 0);
    hwloc_bitmap_t s = hwloc_bitmap_alloc();
    for (int k = 0; k < nk; k++) {
      int eff = -2; struct hwloc_infos_s *inf = NULL;
      if (hwloc_cpukinds_get_info(t, k, s, &eff, &inf, 0) < 0) { fprintf(fops, "SX %s cpukind\n", tag); fprintf(fc, ".\n"); continue; }
      hex_of_set(a, sizeof a, s);
      fprintf(fops, "SK %s %s %d %u", tag, a, (unsigned) k < t->nr_cpukinds ? t->cpukinds[k].forced_efficiency : -2, inf ? inf->count : 0);
      for (unsigned j = 0; inf && j < inf->count; j++) { fputc(' ', fops); fhexs(fops, inf->array[j].name); fputc(' ', fops); fhexs(fops, inf->array[j].value); }
      fputc('\n', fops); fprintf(fc, ".\n");
    }
    hwloc_bitmap_free(s); }
  { struct hwloc_infos_s *inf = hwloc_topology_get_infos(t);
    fprintf(fops, "SI %s %u", tag, inf ? inf->count : 0);
    for (unsigned j = 0; inf && j < inf->count; j++) { fputc(' ', fops); fhexs(fops, inf->array[j].name); fputc(' ', fops); fhexs(fops, inf->array[j].value); }
    fputc('\n', fops); fprintf(fc, ".\n"); }
}
static void side_stream(hwloc_topology_t t1, hwloc_topology_t t2, const char *xml, size_t len) {
  recollect(t1);
  if (nobjs > TREE_MAX_OBJS || len > 400000) return;
  const char *p = root_object(xml, len), *after = NULL;
  if (!p || scan_elems(NULL, p, xml + len, 0, &after) < 0 || !after) return;
  emit(".", "SB");
  scan_elems("SE", after, xml + len, 1, NULL);
  side_topo("o", t1);
  side_topo("r", t2);
  emit("SIDE ok", "SJ");
}

/* ---- mutated documents (v3, nolibxml export, small topologies): the export text is mutated line by line (the nolibxml exporter
 * writes one start tag / end tag per line) so that the importer's REJECTING paths are driven too: a subtree moved below another
 * object, a <page_type> / <info> / unknown element inserted before or after the object children, an object retyped.  Each mutated
 * document is loaded by the real hwloc in a forked grandchild (exit 0 = loaded, 1 = load failed, anything else = died: not
 * judged) and its element tree is sent to the driver:
 *   TB 0 ; TE ... ; TM <mutation> <status>        expected answer "TMUT ok"
 * The driver runs importTree on the element tree: a document the model REJECTS must not be loaded by hwloc (every `reject` of
 * the model mirrors a `goto error` of hwloc__xml_import_object).  The other direction is not judged (the load can fail later,
 * in the core). */
static uint64_t mut_state;
static unsigned mut_rand(unsigned n) {
  mut_state ^= mut_state << 13; mut_state ^= mut_state >> 7; mut_state ^= mut_state << 17;
  return n ? (unsigned) ((mut_state >> 11) % n) : 0;
}
struct lvec { char **l; unsigned n, cap; };
static void lv_insert(struct lvec *v, unsigned at, const char *s) {
  if (v->n == v->cap) { v->cap = v->cap ? 2 * v->cap : 64; v->l = realloc(v->l, v->cap * sizeof *v->l); }
  memmove(v->l + at + 1, v->l + at, (v->n - at) * sizeof *v->l); v->l[at] = strdup(s); v->n++;
}
static void lv_remove(struct lvec *v, unsigned at) { free(v->l[at]); memmove(v->l + at, v->l + at + 1, (v->n - at - 1) * sizeof *v->l); v->n--; }
static const char *lv_body(const char *s) { while (*s == ' ') s++; return s; }
static int lv_is_open(const char *s) { return !strncmp(lv_body(s), "<object ", 8); }
static int lv_is_selfclosed(const char *s) { size_t n = strlen(s); return n >= 2 && s[n - 2] == '/' && s[n - 1] == '>'; }
static int lv_is_close(const char *s) { return !strncmp(lv_body(s), "</object>", 9); }
/* last line of the subtree that starts on line s */
static unsigned lv_extent(struct lvec *v, unsigned s) {
  if (lv_is_selfclosed(v->l[s])) return s;
  int depth = 0;
  for (unsigned i = s; i < v->n; i++) {
    if (lv_is_open(v->l[i]) && !lv_is_selfclosed(v->l[i])) depth++;
    else if (lv_is_close(v->l[i])) { depth--; if (!depth) return i; }
  }
  return v->n - 1;
}
/* make the object on line t an open/close pair; returns the index of its closing line */
static unsigned lv_open_up(struct lvec *v, unsigned t) {
  if (!lv_is_selfclosed(v->l[t])) return lv_extent(v, t);
  size_t n = strlen(v->l[t]); v->l[t][n - 2] = '>'; v->l[t][n - 1] = 0;
  lv_insert(v, t + 1, "</object>");
  return t + 1;
}
static unsigned lv_pick_object(struct lvec *v, int allow_root) {
  unsigned cnt = 0, first = 1;
  for (unsigned i = 0; i < v->n; i++) if (lv_is_open(v->l[i])) { if (first && !allow_root) { first = 0; continue; } first = 0; cnt++; }
  if (!cnt) return v->n;
  unsigned k = mut_rand(cnt); first = 1;
  for (unsigned i = 0; i < v->n; i++) if (lv_is_open(v->l[i])) { if (first && !allow_root) { first = 0; continue; } first = 0; if (!k--) return i; }
  return v->n;
}
static void noop_import_cb(hwloc_topology_t t, hwloc_obj_t o, const char *name, const void *buffer, size_t len) { (void) t; (void) o; (void) name; (void) buffer; (void) len; }
static int try_load(const char *buf, size_t len) {
  fflush(NULL);
  pid_t p = fork();
  if (p == 0) {
    int fd = open("/dev/null", O_WRONLY); if (fd >= 0) { dup2(fd, 2); dup2(fd, 1); }
    hwloc_topology_t t;
    if (hwloc_topology_init(&t) < 0) _exit(3);
    hwloc_topology_set_flags(t, hwloc_topology_get_flags(topo));
    for (int ty = 0; ty < HWLOC_OBJ_TYPE_MAX; ty++) hwloc_topology_set_type_filter(t, (hwloc_obj_type_t) ty, HWLOC_TYPE_FILTER_KEEP_ALL);
    hwloc_topology_set_userdata_import_callback(t, noop_import_cb);
    if (hwloc_topology_set_xmlbuffer(t, buf, (int) len + 1) < 0) _exit(1);
    _exit(hwloc_topology_load(t) < 0 ? 1 : 0);
  }
  int st = 0; waitpid(p, &st, 0);
  return WIFEXITED(st) && (WEXITSTATUS(st) == 0 || WEXITSTATUS(st) == 1) ? WEXITSTATUS(st) : 2;
}
#define MUT_PER_CASE 4
static void mut_stream(const char *xml, size_t len) {
  static const char *tynames[] = { "Machine", "Package", "Die", "Core", "PU", "L1Cache", "L2Cache", "L3Cache", "L1iCache", "Group", "NUMANode", "MemCache",
                                   "Bridge", "PCIDev", "OSDev", "Misc" };
  if (nobjs > TREE_MAX_OBJS || len > 400000) return;
  mut_state = 0x9e3779b97f4a7c15ull; for (size_t i = 0; i < len; i++) mut_state = (mut_state ^ (unsigned char) xml[i]) * 0x100000001b3ull;
  if (!mut_state) mut_state = 1;
  for (int m = 0; m < MUT_PER_CASE; m++) {
    struct lvec v = { NULL, 0, 0 };
    { const char *p = xml, *e = xml + len; while (p < e && *p) { const char *q = memchr(p, '\n', (size_t) (e - p)); size_t n = q ? (size_t) (q - p) : strnlen(p, (size_t) (e - p));
        char *s = malloc(n + 1); memcpy(s, p, n); s[n] = 0; lv_insert(&v, v.n, s); free(s); if (!q) break; p = q + 1; } }
    char kind = "abcde"[mut_rand(5)]; int done = 0;
    if (kind == 'a') {                       /* move a subtree to the end of another object's children */
      unsigned s = lv_pick_object(&v, 0);
      if (s < v.n) {
        unsigned e = lv_extent(&v, s), cnt = e - s + 1;
        char **sub = malloc(cnt * sizeof *sub);
        for (unsigned i = 0; i < cnt; i++) sub[i] = strdup(v.l[s + i]);
        for (unsigned i = 0; i < cnt; i++) lv_remove(&v, s);
        unsigned t = lv_pick_object(&v, 1);
        if (t < v.n) { unsigned c = lv_open_up(&v, t); for (unsigned i = 0; i < cnt; i++) lv_insert(&v, c + i, sub[i]); done = 1; }
        for (unsigned i = 0; i < cnt; i++) free(sub[i]);
        free(sub);
      }
    } else if (kind == 'b' || kind == 'd') { /* a <page_type> / unknown element as first child of an object */
      unsigned t = lv_pick_object(&v, 1);
      if (t < v.n) { lv_open_up(&v, t); lv_insert(&v, t + 1, kind == 'b' ? "<page_type size=\"4096\" count=\"1\"/>" : "<foo bar=\"1\"/>"); done = 1; }
    } else if (kind == 'c') {                /* an <info> after the last child of an object */
      unsigned t = lv_pick_object(&v, 1);
      if (t < v.n) { unsigned c = lv_open_up(&v, t); lv_insert(&v, c, "<info name=\"a\" value=\"b\"/>"); done = 1; }
    } else {                                 /* another type string */
      unsigned t = lv_pick_object(&v, 1);
      if (t < v.n) {
        char *q = strstr(v.l[t], " type=\""), *r = q ? strchr(q + 7, '"') : NULL;
        if (q && r) {
          const char *ny = tynames[mut_rand(sizeof tynames / sizeof tynames[0])];
          char *nl = malloc(strlen(v.l[t]) + 32);
          sprintf(nl, "%.*s type=\"%s%s", (int) (q - v.l[t]), v.l[t], ny, r);
          free(v.l[t]); v.l[t] = nl; done = 1;
        }
      }
    }
    if (done) {
      char *mb = NULL; size_t ml = 0; FILE *mf = open_memstream(&mb, &ml);
      for (unsigned i = 0; i < v.n; i++) { fputs(v.l[i], mf); fputc('\n', mf); }
      fclose(mf);
      int st = try_load(mb, ml);
      emit(".", "TB 0");
      if (tree_elems(mb, ml) > 0) emit("TMUT ok", "TM %c %d", kind, st); else emit(".", "TB 0");
      free(mb);
    }
    for (unsigned i = 0; i < v.n; i++) free(v.l[i]);
    free(v.l);
  }
}

/* ---- mutated SIDE elements (same documents): one line of the part after the root object is mutated so that the importers' REJECTING
 * paths are driven: an attribute of a distances2(hetero) / indexes / u64values / memattr / memattr_value / cpukind / info start tag
 * deleted ('p') or renamed ('q'), a child line (indexes / u64values / memattr_value / info) deleted ('r') or duplicated ('s'), the
 * last number of an indexes / u64values text dropped with the length attribute kept ('t').  Each mutated document is loaded by the
 * real hwloc in a forked grandchild and its side elements are sent to the driver:
 *   SB ; SE ... ; SU <mutation> <status>         expected answer "SMUT ok"
 * The driver runs importSide: a document the model REJECTS must not be loaded by hwloc; the other direction is not judged. */
static int lv_is_side(const char *s) {
  static const char *tg[] = { "<distances2", "<indexes ", "<u64values ", "<memattr ", "<memattr_value ", "<cpukind ", "<info " };
  const char *bdy = lv_body(s);
  for (unsigned i = 0; i < sizeof tg / sizeof tg[0]; i++) if (!strncmp(bdy, tg[i], strlen(tg[i]))) return 1;
  return 0;
}
static int lv_is_sidechild(const char *s) {
  const char *bdy = lv_body(s);
  return !strncmp(bdy, "<indexes ", 9) || !strncmp(bdy, "<u64values ", 11) || !strncmp(bdy, "<memattr_value ", 15) || !strncmp(bdy, "<info ", 6);
}
#define SMUT_PER_CASE 4
static void smut_stream(const char *xml, size_t len) {
  if (nobjs > TREE_MAX_OBJS || len > 400000) return;
  mut_state = 0x51ed270b4f7c3a95ull; for (size_t i = 0; i < len; i++) mut_state = (mut_state ^ (unsigned char) xml[i]) * 0x100000001b3ull;
  if (!mut_state) mut_state = 1;
  for (int m = 0; m < SMUT_PER_CASE; m++) {
    struct lvec v = { NULL, 0, 0 };
    { const char *p = xml, *e = xml + len; while (p < e && *p) { const char *q = memchr(p, '\n', (size_t) (e - p)); size_t n = q ? (size_t) (q - p) : strnlen(p, (size_t) (e - p));
        char *s = malloc(n + 1); memcpy(s, p, n); s[n] = 0; lv_insert(&v, v.n, s); free(s); if (!q) break; p = q + 1; } }
    /* the side part starts after the last </object> (or after the self-closed root) */
    unsigned from = 0; for (unsigned i = 0; i < v.n; i++) if (lv_is_close(v.l[i]) || lv_is_open(v.l[i])) from = i + 1;
    unsigned cand[512], nc = 0, candc[512], ncc = 0;
    for (unsigned i = from; i < v.n; i++) { if (lv_is_side(v.l[i]) && nc < 512) cand[nc++] = i; if (lv_is_sidechild(v.l[i]) && ncc < 512) candc[ncc++] = i; }
    char kind = "pqrst"[mut_rand(5)]; int done = 0;
    if ((kind == 'p' || kind == 'q') && nc) {
      unsigned t = cand[mut_rand(nc)];
      /* the attributes of the start tag: ` name="..."` groups between the tag name and the first '>' (values hold no raw '"' or '>') */
      char *l = v.l[t], *bdy = (char *) lv_body(l), *gt = strchr(bdy, '>');
      unsigned na = 0, k0 = 0; char *at[32];
      for (char *q = strchr(bdy, ' '); q && gt && q < gt && *q == ' ' && na < 32; ) {
        char *eq = strchr(q, '='); if (!eq || eq >= gt || eq[1] != '"') break;
        char *cl = strchr(eq + 2, '"'); if (!cl || cl >= gt) break;
        at[na++] = q; q = cl + 1;
      }
      if (na > k0) {
        char *a = at[k0 + mut_rand(na - k0)], *eq = strchr(a, '='), *cl = strchr(eq + 2, '"');
        char *nl = malloc(strlen(l) + 4);
        if (kind == 'p') sprintf(nl, "%.*s%s", (int) (a - l), l, cl + 1);
        else sprintf(nl, "%.*s x%s", (int) (a - l), l, a + 1);
        free(v.l[t]); v.l[t] = nl; done = 1;
      }
    } else if (kind == 'r' && ncc) { lv_remove(&v, candc[mut_rand(ncc)]); done = 1; }
    else if (kind == 's' && ncc) { unsigned t = candc[mut_rand(ncc)]; char *c = strdup(v.l[t]); lv_insert(&v, t, c); free(c); done = 1; }
    else if (kind == 't' && ncc) {
      unsigned t = candc[mut_rand(ncc)];
      char *l = v.l[t], *gt = strchr(l, '>'), *lt = gt ? strchr(gt, '<') : NULL;
      if (gt && lt && lt - gt > 3 && lt[-1] == ' ') {
        char *q = lt - 2; while (q > gt && *q != ' ') q--;
        if (q > gt) { char *nl = malloc(strlen(l) + 1); sprintf(nl, "%.*s%s", (int) (q + 1 - l), l, lt); free(v.l[t]); v.l[t] = nl; done = 1; }
      }
    }
    if (done) {
      char *mb = NULL; size_t ml = 0; FILE *mf = open_memstream(&mb, &ml);
      for (unsigned i = 0; i < v.n; i++) { fputs(v.l[i], mf); fputc('\n', mf); }
      fclose(mf);
      const char *p = root_object(mb, ml), *after = NULL;
      if (p && scan_elems(NULL, p, mb + ml, 0, &after) >= 0 && after) {
        int st = try_load(mb, ml);
        emit(".", "SB");
        if (scan_elems("SE", after, mb + ml, 1, NULL) >= 0) emit("SMUT ok", "SU %c %d", kind, st); else emit(".", "SB");
      }
      free(mb);
    }
    for (unsigned i = 0; i < v.n; i++) free(v.l[i]);
    free(v.l);
  }
}

static void roundtrip(char mode, int fmt) {
  unsigned long xflags = fmt == 2 ? HWLOC_TOPOLOGY_EXPORT_XML_FLAG_V2 : 0;
  hwloc_topology_t t2 = NULL;
  size_t len1 = 0, len2 = 0; char *x1 = NULL, *x2 = NULL;
  if (original_fails_check(topo)) { emit("EQ ok", "CMP original-fails-check"); flush2(); return; }
  if (duplicate_initiators(topo) && !getenv("VERIF_XMLRT_JUDGE_DUP_INITIATORS")) { emit(".", "KNOWN duplicate-memattr-initiators"); flush2(); return; }
  /* first export BEFORE the harness reads anything through lazily refreshed caches (distances after a restrict, ...): the
   * document must not depend on which getters ran before the export (same entry point, same flags, compared with x1 below) */
  size_t len0 = 0; char *x0 = do_export(topo, mode, xflags, xmlpath2, &len0);
  dump_both(topo, "o"); extras(topo, "o");
  ev_open(); ev_tag = "o"; ev_lastseq = -1; nxobjs = 0; xcollect(hwloc_get_root_obj(topo));
  x1 = do_export(topo, mode, xflags, xmlpath1, &len1);
  ev_flush_to_ops(); evf = NULL;
  emit("EXP0 ok", "EXP0 %d", (!x0 && !x1) || (x0 && x1 && len0 == len1 && !memcmp(x0, x1, len0)));
  free(x0);
  flush2();
  if (!x1) { emit("EQ ok", "CMP exportfail"); goto out; }
  if (hwloc_topology_init(&t2) < 0) { emit("EQ ok", "CMP reloadfail"); t2 = NULL; goto out; }
  hwloc_topology_set_flags(t2, hwloc_topology_get_flags(topo));
  for (int ty = 0; ty < HWLOC_OBJ_TYPE_MAX; ty++) hwloc_topology_set_type_filter(t2, (hwloc_obj_type_t) ty, HWLOC_TYPE_FILTER_KEEP_ALL); /* refused for Group */
  hwloc_topology_set_userdata_import_callback(t2, import_cb);
  ev_open();
  int err = mode == 'B' ? hwloc_topology_set_xmlbuffer(t2, x1, (int) len1) : hwloc_topology_set_xml(t2, xmlpath1);
  if (err >= 0) err = hwloc_topology_load(t2);
  if (err < 0) { fclose(evf); free(evbuf); evf = NULL; emit("EQ ok", "CMP reloadfail"); hwloc_topology_destroy(t2); t2 = NULL; goto out; }
  dump_both(t2, "r"); extras(t2, "r");
  ev_flush_to_ops(); evf = NULL;
  emit("EQ ok", "CMP v%d", fmt);
  if (fmt == 3 && !cur_export_libxml && !getenv("VERIF_XMLRT_NO_OBJ")) obj_stream(topo, t2, x1, len1);
  if (fmt == 3 && !cur_export_libxml && !getenv("VERIF_XMLRT_NO_TREE")) tree_stream(topo, t2, x1, len1);
  if (fmt == 3 && !cur_export_libxml && !getenv("VERIF_XMLRT_NO_TREE") && !getenv("VERIF_XMLRT_NO_SIDE")) side_stream(topo, t2, x1, len1);
  if (fmt == 3 && !cur_export_libxml && !getenv("VERIF_XMLRT_NO_TREE") && !getenv("VERIF_XMLRT_NO_MUT")) { recollect(topo); mut_stream(x1, len1); }
  if (fmt == 3 && !cur_export_libxml && !getenv("VERIF_XMLRT_NO_TREE") && !getenv("VERIF_XMLRT_NO_SIDE") && !getenv("VERIF_XMLRT_NO_MUT")) { recollect(topo); smut_stream(x1, len1); }
  flush2();
  /* hwloc_topology_check() is not called on the reloaded topology: it is equivalent to the original (just judged), and whether
   * the original passes it is C01/C02's business (VERIF_XMLRT_CHECK=1 runs it on both, original first) */
  if (getenv("VERIF_XMLRT_CHECK")) { fprintf(stderr, "check original\n"); hwloc_topology_check(topo); fprintf(stderr, "check reloaded\n"); hwloc_topology_check(t2); }
  /* second export, same backend, same mode */
  ev_lastseq = -1; nxobjs = 0; xcollect(hwloc_get_root_obj(t2));
  x2 = do_export(t2, mode, xflags, xmlpath2, &len2);
  int impsup = (hwloc_topology_get_flags(topo) & HWLOC_TOPOLOGY_FLAG_IMPORT_SUPPORT) ? 1 : 0;
  const char *fixexp = fmt == 2 ? "." : "FIX ok", *fixop = fmt == 2 ? "FIXV2" : "FIX";   /* v2: only "same tree and sets" is claimed; informational */
  if (!x2) emit(fixexp, "%s 0 0 %d %lu 0 0", fixop, impsup, (unsigned long) len1);
  else {
    size_t k = 0; while (k < len1 && k < len2 && x1[k] == x2[k]) k++;
    int same = len1 == len2 && k == len1;
    if (!same && getenv("VERIF_XMLRT_KEEP")) { char p[1300]; snprintf(p, sizeof p, "%s.keep1", xmlpath1); FILE *f = fopen(p, "w"); fwrite(x1, 1, len1, f); fclose(f);
      snprintf(p, sizeof p, "%s.keep2", xmlpath1); f = fopen(p, "w"); fwrite(x2, 1, len2, f); fclose(f); }
    /* the same comparison with the <support .../> elements removed (they describe the loader, not the topology) */
    size_t l1 = strip_support(x1, len1), l2 = strip_support(x2, len2);
    int same_ns = l1 == l2 && !memcmp(x1, x2, l1);
    emit(fixexp, "%s %d %d %d %lu %lu %lu", fixop, same, same_ns, impsup, (unsigned long) len1, (unsigned long) len2, (unsigned long) k);
  }
out:
  if (getenv("VERIF_XMLRT_KEEP") && x1) { char p[1300]; snprintf(p, sizeof p, "%s.last", xmlpath1); FILE *f = fopen(p, "w"); fwrite(x1, 1, len1, f); fclose(f); }
  flush2();
  free(x1); free(x2); free(xobjs); xobjs = NULL; nxobjs = capxobjs = 0;
  if (t2) { free_ud(t2); hwloc_topology_destroy(t2); }
  unlink(xmlpath1); unlink(xmlpath2);
}

/* ---------------------------------------------------------------- generators */
static const char *strpool[] = {
  "Foo", "Bar", "a b", "x<y", "x>y", "a&b", "say \"hi\"", "it's", "&amp;", "&lt;tag&gt;", "&#10;", "&", "<", ">", "\"", "'", "<>&\"'",
  "line1\nline2", "tab\there", "cr\rhere", " lead", "trail ", "", "caf\xc3\xa9", "\xff\xfe", "hi\x01\x02there", "\x7f", "a\x80" "b", "]]>", "<!--x-->",
  "=\"", "a=\"b\"", "/>", "</object>", "0123456789012345678901234567890123456789012345678901234567890123456789", "Backend", "hwlocVersion", "Die", "&quot", "&#9", "&#13;&#10;" };
#define NPOOL (sizeof strpool / sizeof strpool[0])
static const char *pool_str(void) { return strpool[rng_below(NPOOL)]; }
static const char *plain_str(void) { static const char *p[] = {"Foo", "Bar", "Backend", "X", "name with space", "v1.2"}; return p[rng_below(6)]; }
static const char *some_str(void) { return rng_chance(65) ? pool_str() : plain_str(); }
static int gen_fmt = 3;

static void gen_set(char *dst, size_t cap, hwloc_const_bitmap_t universe) {
  hwloc_bitmap_t s = hwloc_bitmap_alloc();
  unsigned k = rng_below(10);
  int last = hwloc_bitmap_last(universe); if (last < 0) last = 0;
  if (k == 0) hwloc_bitmap_zero(s);
  else if (k == 1) hwloc_bitmap_copy(s, universe);
  else if (k == 2) { hwloc_bitmap_copy(s, universe); hwloc_bitmap_clr(s, hwloc_bitmap_first(universe)); }
  else if (k == 3) { hwloc_bitmap_set_range(s, last + 1, last + 4); }
  else if (k == 4) { hwloc_bitmap_set(s, rng_below(last + 1)); }
  else if (k == 5) { hwloc_bitmap_copy(s, universe); hwloc_bitmap_clr(s, rng_below(last + 1)); }
  else if (k == 6) { unsigned a = rng_below(last + 1); hwloc_bitmap_set_range(s, a, last); }
  else { unsigned a = rng_below(last + 1), b = a + rng_below(last + 2 - a); hwloc_bitmap_set_range(s, a, b); if (rng_chance(30)) hwloc_bitmap_set(s, rng_below(last + 3)); }
  hex_of_set(dst, cap, s); hwloc_bitmap_free(s);
}

static void gen_op(char *line, size_t cap) {
  char a[2100], b[2100], h1[400], h2[400];
  unsigned r = rng_below(100);
  hwloc_obj_t root = hwloc_get_root_obj(topo);
  unsigned id = rng_below(nobjs);
  if (r < 4) {
    static const unsigned long fl[] = {1, 4, 4, 4, 2};
    unsigned long f = fl[rng_below(5)];
    if (f == 4) { if (rng_chance(80)) gen_set(a, sizeof a, root->complete_cpuset); else strcpy(a, "-"); if (rng_chance(60)) gen_set(b, sizeof b, root->complete_nodeset); else strcpy(b, "-"); }
    else { strcpy(a, "-"); strcpy(b, "-"); }
    snprintf(line, cap, "OP allow %lu %s %s", f, a, b);
  } else if (r < 20) {
    hexs(h1, some_str()); hexs(h2, some_str());
    snprintf(line, cap, "OP addinfo %u %s %s", id, h1, h2);
  } else if (r < 27) {
    static const unsigned long opv[] = {1, 2, 4, 8, 1, 1};
    /* one topology-info op in three repeats the previous pair with OP_ADD: the same name=value twice is legal and must survive the
     * round trip, count and order included (C05-r8) */
    static char last1[sizeof h1], last2[sizeof h2]; static int have_last;
    if (have_last && rng_chance(33)) snprintf(line, cap, "OP tinfo 1 %s %s", last1, last2);
    else {
      hexs(h1, some_str()); hexs(h2, some_str());
      memcpy(last1, h1, sizeof last1); memcpy(last2, h2, sizeof last2); have_last = 1;
      snprintf(line, cap, "OP tinfo %lu %s %s", opv[rng_below(6)], h1, h2);
    }
  } else if (r < 33) {
    hexs(h1, some_str());
    snprintf(line, cap, "OP subtype %u %s", id, rng_chance(10) ? "-" : h1);
  } else if (r < 40) {
    hexs(h1, some_str());
    snprintf(line, cap, "OP name %u %s", id, rng_chance(10) ? "-" : h1);
  } else if (r < 50) {
    hexs(h1, some_str());
    snprintf(line, cap, "OP misc %u %s", id, h1);
  } else if (r < 58) {
    int bynode = rng_chance(25);
    gen_set(a, sizeof a, bynode ? root->complete_nodeset : root->complete_cpuset);
    unsigned long fl = rng_below(32); if (bynode) fl |= 8; else fl &= ~8UL;
    snprintf(line, cap, "OP restrict %s %lu", a, fl);
  } else if (r < 66) {
    hwloc_obj_t p = objs[id]; for (int k = 0; k < 8 && (!p->arity || !p->cpuset); k++) p = objs[rng_below(nobjs)];
    hwloc_bitmap_t c = hwloc_bitmap_alloc(), n = NULL;
    if (p->arity && p->cpuset) {
      unsigned f = rng_below(p->arity), cnt = 1 + rng_below(p->arity - f);
      for (unsigned i = f; i < f + cnt; i++) hwloc_bitmap_or(c, c, p->children[i]->cpuset);
      unsigned k = rng_below(10);
      if (k == 1) hwloc_bitmap_copy(c, p->cpuset);
      else if (k == 4) { n = hwloc_bitmap_alloc(); hwloc_bitmap_copy(n, p->nodeset); hwloc_bitmap_zero(c); }
    }
    hex_of_set(a, sizeof a, hwloc_bitmap_iszero(c) && n ? NULL : c);
    hex_of_set(b, sizeof b, n);
    snprintf(line, cap, "OP group %s %s %d %u %u", a, b, rng_chance(40), rng_chance(50) ? 0 : rng_chance(10) ? 104 : rng_below(1100), rng_chance(50) ? 0 : rng_below(5));
    hwloc_bitmap_free(c); hwloc_bitmap_free(n);
  } else if (r < 78) {
    static const unsigned long kinds[] = {5, 6, 9, 10, 34, 33, 0, 0, 2, 22, 26, 4, 8};
    static const unsigned long fls[] = {0, 0, 0, 1, 3};
    hexs(h1, some_str());
    int noname = rng_chance(25);
    unsigned n = rng_chance(25) ? 9 + rng_below(20) : 2 + rng_below(7);     /* beyond 10: more than one <indexes> child */
    if (rng_chance(30)) snprintf(line, cap, "OP distadd H %u %u %lu %lu %llu %s", rng_below(nobjs), n, kinds[rng_below(13)] | (rng_chance(70) ? 16 : 0), 0UL, (unsigned long long) rng_below(100000), noname ? "-" : h1);
    else {
      int depth = rng_chance(40) ? HWLOC_TYPE_DEPTH_NUMANODE : (int) rng_below(hwloc_topology_get_depth(topo));
      unsigned w = hwloc_get_nbobjs_by_depth(topo, depth);
      unsigned first = w > n ? rng_below(w - n + 1) : 0;
      snprintf(line, cap, "OP distadd %d %u %u %lu %lu %llu %s", depth, first, n, kinds[rng_below(13)], fls[rng_below(5)], (unsigned long long) rng_below(100000), noname ? "-" : h1);
    }
  } else if (r < 79) {
    snprintf(line, cap, "OP distremove");
  } else if (r < 88) {
    static const char *mn[] = {"verifA", "verifB", "Bandwidth", "Latency", "ReadBandwidth", "we<ird>&\"name'", "WriteLatency"};
    unsigned which = rng_below(7);
    unsigned long fl = which == 0 ? 1 : which == 1 ? 6 : which == 5 ? 5 : 5;     /* HIGHER_FIRST=1 LOWER_FIRST=2 NEED_INITIATOR=4 */
    hexs(h1, mn[which]);
    int needini = (fl & 4) || (which >= 2 && which != 5);
    unsigned long long val = rng_chance(20) ? 0xffffffffffffffffULL - rng_below(3) : rng_chance(30) ? rng_next() : rng_below(100000);
    if (needini && rng_chance(70)) {
      /* hypothesis: initiator cpusets are non-empty subsets of the topology cpuset (others are clipped by the next memattr refresh) */
      gen_set(a, sizeof a, root->cpuset);
      hwloc_bitmap_t is = set_from_hex(a); hwloc_bitmap_and(is, is, root->cpuset); if (hwloc_bitmap_iszero(is)) hwloc_bitmap_copy(is, root->cpuset);
      hex_of_set(a, sizeof a, is); hwloc_bitmap_free(is); snprintf(line, cap, "OP memattr %lu %s %u c %s %llu", fl, h1, rng_below(8), a, val); }
    else if (needini) snprintf(line, cap, "OP memattr %lu %s %u o %u %llu", fl, h1, rng_below(8), id, val);
    else snprintf(line, cap, "OP memattr %lu %s %u - - %llu", fl, h1, rng_below(8), val);
  } else if (r < 93) {
    gen_set(a, sizeof a, root->complete_cpuset);
    unsigned ni = rng_below(3); int off = snprintf(line, cap, "OP cpukind %s %d %u", a, (int) rng_below(5) - 1, ni);
    for (unsigned i = 0; i < ni; i++) { hexs(h1, some_str()); hexs(h2, some_str()); off += snprintf(line + off, cap - off, " %s %s", h1, h2); }
  } else if (r < 99) {
    /* userdata: lengths 0..9 mostly; plain = printable without markup; base64 = arbitrary bytes.  Convention for the re-export:
     * base64 entries have a name starting with 'B', or no name and a first byte that is not a valid XML char */
    int b64 = rng_chance(50); unsigned len = rng_chance(85) ? rng_below(10) : 10 + rng_below(60);
    unsigned char d[80]; const char *nm;
    static const char *pn[] = {"plain", "p<&>\"x", "", "n2"}; static const char *bn[] = {"B64", "B<&>", "B"};
    if (b64) {
      nm = rng_chance(65) || !len ? bn[rng_below(3)] : NULL;
      for (unsigned i = 0; i < len; i++) d[i] = (unsigned char) rng_below(256);
      if (!nm) d[0] = 0x80 | d[0];
    } else {
      nm = rng_chance(65) ? pn[rng_below(4)] : NULL;
      static const char alpha[] = "abcXYZ019 _-.,;:=/'()[]{}!?*+#@$%^~|\\";
      for (unsigned i = 0; i < len; i++) d[i] = alpha[rng_below(sizeof alpha - 1)];
    }
    hexs(h1, nm); hexn(h2, d, len);
    snprintf(line, cap, "OP ud %u %d %s %s", id, b64, h1, h2);
  } else snprintf(line, cap, "OP refresh");
}

struct src { char kind; char path[1000]; };
static struct src *srcs; static unsigned nsrcs;

static int app(char *s, int off, int cap, const char *fmt, ...) {
  va_list ap; va_start(ap, fmt); int n = vsnprintf(s + off, cap - off, fmt, ap); va_end(ap); return off + n;
}
static void gen_synthetic(char *s, int cap) {
  int off = 0;
  unsigned budget = 64;
#define CNT() ({ unsigned c = 1 + rng_below(rng_chance(70) ? 2 : 4); if (c > budget) c = 1; budget /= c; c; })
  if (rng_chance(8)) { int n = 1 + rng_below(4); for (int i = 0; i < n; i++) off = app(s, off, cap, "%u ", CNT()); s[off - 1] = 0; return; }
  int numa_mode = rng_below(4);
  if (rng_chance(25)) off = app(s, off, cap, "group:%u ", CNT());
  if (rng_chance(70)) { off = app(s, off, cap, "pack:%u ", CNT()); if ((numa_mode == 2 || numa_mode == 3) && rng_chance(50)) { off = app(s, off, cap, "[numa%s] ", rng_chance(40) ? "(memory=1GB)" : ""); if (numa_mode == 2) numa_mode = 0; } }
  if (rng_chance(20)) off = app(s, off, cap, "die:%u ", CNT());
  if (numa_mode == 1) off = app(s, off, cap, "numa:%u%s ", CNT(), rng_chance(30) ? "(memory=256MB)" : "");
  if (rng_chance(15)) off = app(s, off, cap, "group:%u ", CNT());
  if (rng_chance(40)) { off = app(s, off, cap, "l3:%u%s ", CNT(), rng_chance(30) ? "(size=8MB)" : ""); if (numa_mode >= 2) { off = app(s, off, cap, "[numa] "); numa_mode = 0; } }
  if (rng_chance(40)) off = app(s, off, cap, "l2:%u ", CNT());
  if (rng_chance(20)) off = app(s, off, cap, "l1i:%u ", 1u);
  if (rng_chance(30)) off = app(s, off, cap, "l1:%u ", 1u);
  if (rng_chance(80)) off = app(s, off, cap, "core:%u ", CNT());
  off = app(s, off, cap, "pu:%u", CNT());
  if (rng_chance(10)) off = app(s, off, cap, "(indexes=core:pu)");
}

static void script_line(const char *fmt, ...) {
  va_list ap; va_start(ap, fmt); vfprintf(fops, fmt, ap); va_end(ap);
  fputc('\n', fops); fprintf(fc, ".\n"); flush2();
}

static void set_backends(int e, int i) {
  cur_export_libxml = e;
  unsetenv("HWLOC_LIBXML");
  setenv("HWLOC_LIBXML_EXPORT", e ? "1" : "0", 1);
  setenv("HWLOC_LIBXML_IMPORT", i ? "1" : "0", 1);
}

/* child: generate a case from the current rng state, write its script lines and run it */
static void gen_case_child(void) {
  char arg[1200], filters[32], line[70000]; char kind = 'S';
  int e = rng_below(2), i = rng_below(2); char mode = rng_chance(50) ? 'B' : 'F'; int fmt = rng_chance(80) ? 3 : 2;
  gen_fmt = fmt;
  unsigned long flags = 0;
  if (rng_chance(50)) flags |= 1;
  if (rng_chance(25)) flags |= 8;
  if (rng_chance(10)) flags |= 64;
  strcpy(filters, "--------------------");
  unsigned fm = rng_below(8);
  if (fm == 0) { for (int k = 0; k < 20; k++) filters[k] = '0'; filters[13] = '-'; }
  else if (fm == 1) { for (int k = 0; k < 20; k++) filters[k] = '2'; }
  else if (fm == 2) { for (int k = 16; k < 20; k++) filters[k] = '0'; }
  else if (fm == 3) { int n = 1 + rng_below(5); for (int k = 0; k < n; k++) filters[rng_below(20)] = '0' + rng_below(4); }
  if (nsrcs && rng_chance(30)) { struct src *s = &srcs[rng_below(nsrcs)]; kind = s->kind; strcpy(arg, s->path); }
  else gen_synthetic(arg, sizeof arg);
  set_backends(e, i);
  script_line("CASE %d %d %c %d %c %lu %s %s", e, i, mode, fmt, kind, flags, filters, arg);
  if (load_case(kind, flags, filters, arg) < 0) { script_line("LOADFAIL"); return; }
  if (nobjs > 1500) { script_line("LOADFAIL"); hwloc_topology_destroy(topo); return; }
  unsigned nsteps = rng_chance(15) ? 0 : 1 + rng_below(10);
  for (unsigned s = 0; s < nsteps; s++) {
    gen_op(line, sizeof line);
    script_line("%s", line);
    exec_op(line);
  }
  script_line("RT");
  roundtrip(mode, fmt);
  hwloc_topology_destroy(topo); topo = NULL; free(objs); objs = NULL; free_all_ud();
}

/* child: run a buffered case of a script */
static void run_case_child(char **lines, unsigned n) {
  int e, i, fmt, pos = 0; char mode, kind, filters[64]; unsigned long flags;
  if (sscanf(lines[0], "CASE %d %d %c %d %c %lu %63s %n", &e, &i, &mode, &fmt, &kind, &flags, filters, &pos) < 7) { script_line("%s", lines[0]); script_line("LOADFAIL"); return; }
  set_backends(e, i);
  script_line("%s", lines[0]);
  if (load_case(kind, flags, filters, lines[0] + pos) < 0) { script_line("LOADFAIL"); return; }
  for (unsigned k = 1; k < n; k++) {
    if (!strncmp(lines[k], "OP ", 3)) { script_line("%s", lines[k]); exec_op(lines[k]); }
  }
  script_line("RT");
  roundtrip(mode, fmt);
  hwloc_topology_destroy(topo); topo = NULL; free(objs); objs = NULL; free_all_ud();
}

static long count_lines(FILE *f) {
  long n = 0; int c, last = '\n';
  fflush(f); rewind(f);
  while ((c = fgetc(f)) != EOF) { if (c == '\n') n++; last = c; }
  fseek(f, 0, SEEK_END);
  if (last != '\n') { fputc('\n', f); n++; }      /* a torn last line */
  return n;
}
/* fork, run `fn` in the child, report a crash in the parent */
static void in_child(void (*fn0)(void), void (*fn1)(char **, unsigned), char **lines, unsigned n) {
  flush2();
  pid_t p = fork();
  if (p == 0) {
    if (fn0) fn0(); else fn1(lines, n);
    flush2();
    exit(0);
  }
  int st = 0; waitpid(p, &st, 0);
  fseek(fops, 0, SEEK_END); fseek(fc, 0, SEEK_END);
  if (!WIFEXITED(st) || WEXITSTATUS(st) != 0) {
    /* the child may have died between writing a protocol line and its answer: re-align the two streams line for line */
    long no = count_lines(fops), nc = count_lines(fc);
    for (; nc < no; nc++) fprintf(fc, "<lost>\n");
    for (; no < nc; no++) fprintf(fops, "LOST\n");
    emit("CRASH none", "CRASH %d", WIFEXITED(st) ? WEXITSTATUS(st) : 1000 + WTERMSIG(st)); flush2();
  }
}

/* ---- unit generators ---- */
static void gen_bytes_hex(char *dst, unsigned n, int mode) {
  /* mode 0: any non-NUL byte, 1: biased towards escapable chars, 2: any byte incl. NUL */
  static const unsigned char sp[] = "\n\r\t\"<>&&&<>'; #amp;lgtquo1039";
  if (!n) { strcpy(dst, "="); return; }
  for (unsigned i = 0; i < n; i++) {
    unsigned c = mode == 2 ? rng_below(256) : mode == 1 && rng_chance(60) ? sp[rng_below(sizeof sp - 1)] : 1 + rng_below(255);
    dst += sprintf(dst, "%02x", c);
  }
}
static void gen_unit(char *line, size_t cap) {
  char h[5000]; unsigned r = rng_below(100);
  if (r < 25) { gen_bytes_hex(h, rng_below(rng_chance(80) ? 12 : 120), rng_below(2)); snprintf(line, cap, "ESC %s", h); }
  else if (r < 50) {
    /* attribute buffers: the escaper's own output wrapped as  name="value" rest, then mutated */
    unsigned char raw[64], buf[600]; unsigned n = rng_below(16), o = 0;
    static const unsigned char sp[] = "\n\r\t\"<>&'ab ;#";
    for (unsigned i = 0; i < n; i++) raw[i] = rng_chance(50) ? sp[rng_below(sizeof sp - 1)] : 1 + rng_below(255);
    raw[n] = 0;
    char *e = hwloc__nolibxml_export_escape_string((char *) raw);
    const char *val = e ? e : (char *) raw;
    static const char *names[] = {"name", "value", "os_index", "a", "", "complete_cpuset", "Name", "x1"};
    static const char *leads[] = {"", " ", "  \t", "\n "};
    o += sprintf((char *) buf + o, "%s%s=\"%s\"%s", leads[rng_below(4)], names[rng_below(8)], val, rng_chance(50) ? " next=\"1\"" : rng_chance(50) ? "" : "  ");
    free(e);
    unsigned m = rng_below(10);
    if (m == 0 && o > 2) { unsigned k = rng_below(o); memmove(buf + k, buf + k + 1, o - k); o--; }                 /* drop a byte */
    else if (m == 1) { unsigned k = rng_below(o + 1); memmove(buf + k + 1, buf + k, o - k + 1); buf[k] = sp[rng_below(sizeof sp - 1)]; o++; }  /* insert */
    else if (m == 2 && o > 1) { o = 1 + rng_below(o - 1); buf[o] = 0; }                                              /* truncate */
    /* never end right after the opening quote of a value: the C scanner then reads two bytes past the terminator (C06 material) */
    if (o >= 2 && buf[o - 1] == '"' && buf[o - 2] == '=') { buf[o++] = 'z'; buf[o] = 0; }
    hexn(h, buf, o);
    snprintf(line, cap, "ATTR %s", h);
  } else if (r < 70) {
    unsigned n = rng_chance(85) ? rng_below(13) : rng_below(200);
    gen_bytes_hex(h, n, 2);
    unsigned need = 4 * ((n + 2) / 3) + 1;
    unsigned ts = rng_chance(60) ? need : rng_chance(50) ? need + rng_below(4) : (need > 6 ? need - 1 - rng_below(6) : rng_below(need + 1));
    snprintf(line, cap, "B64E %s %u", h, ts);
  } else if (r < 92) {
    /* decoder input: an encoding (possibly with whitespace / damage) of n bytes; targsize around n+1 (what the XML importer passes) */
    unsigned n = rng_chance(85) ? rng_below(13) : rng_below(100);
    unsigned char src[256], enc[600], mut[1300]; unsigned o = 0;
    for (unsigned i = 0; i < n; i++) src[i] = (unsigned char) rng_below(256);
    int el = hwloc_encode_to_base64((char *) src, n, (char *) enc, sizeof enc);
    unsigned m = rng_below(12);
    for (int i = 0; i < el; i++) {
      if (m == 0 && rng_chance(15)) mut[o++] = " \t\n\v\f\r"[rng_below(6)];
      mut[o++] = enc[i];
    }
    if (m == 1 && o) mut[rng_below(o)] = "!-_.*\x80\xff=="[rng_below(9)];
    else if (m == 2 && o) o--;
    else if (m == 3) mut[o++] = "A= \n"[rng_below(4)];
    else if (m == 4 && o > 1) { unsigned k = rng_below(o); memmove(mut + k, mut + k + 1, o - k - 1); o--; }
    else if (m == 5 && o) { unsigned k = o - 1 - rng_below(o < 3 ? o : 3); mut[k] = "ABCD/+9z"[rng_below(8)]; }     /* non-zero slop bits / missing pad */
    hexn(h, mut, o);
    unsigned k = rng_below(10);
    if (k == 0) snprintf(line, cap, "B64D %s N", h);
    else snprintf(line, cap, "B64D %s %u", h, k < 6 ? n + 1 : k < 8 ? n : k == 8 ? n + 2 + rng_below(3) : rng_below(n + 1));
  } else {
    static const char *cv[] = {"u", "d", "lu", "llu"};
    unsigned c = rng_below(4);
    unsigned long long v = rng_chance(30) ? rng_next() : rng_chance(50) ? rng_below(1000) : (1ULL << rng_below(64)) - rng_below(2);
    if (c == 1) snprintf(line, cap, "NUM d %lld", (long long) (int) v);
    else snprintf(line, cap, "NUM %s %llu", cv[c], v);
  }
}

int main(int argc, char **argv) {
  if (argc >= 5 && !strcmp(argv[1], "replay")) {
    FILE *in = fopen(argv[2], "r"); fops = fopen(argv[3], "w+"); fc = fopen(argv[4], "w+");
    if (!in || !fops || !fc) return 2;
    snprintf(xmlpath1, sizeof xmlpath1, "%s.x1.xml", argv[3]); snprintf(xmlpath2, sizeof xmlpath2, "%s.x2.xml", argv[3]);
    static char line[70000];
    char **cl = NULL; unsigned ncl = 0;
    char **all = NULL; unsigned nall = 0;
    /* read the whole script first: a forked child must not share a half-consumed input stream */
    while (fgets(line, sizeof line, in)) { line[strcspn(line, "\n")] = 0; all = realloc(all, (nall + 1) * sizeof *all); all[nall++] = strdup(line); }
    fclose(in); in = NULL;
    for (unsigned li = 0; li < nall; li++) {
      snprintf(line, sizeof line, "%s", all[li]);
      if (!strncmp(line, "CASE ", 5)) { for (unsigned k = 0; k < ncl; k++) free(cl[k]); ncl = 0; cl = realloc(cl, sizeof *cl); cl[ncl++] = strdup(line); }
      else if (!strncmp(line, "OP ", 3) && ncl) { cl = realloc(cl, (ncl + 1) * sizeof *cl); cl[ncl++] = strdup(line); }
      else if (!strcmp(line, "RT") && ncl) { in_child(NULL, run_case_child, cl, ncl); for (unsigned k = 0; k < ncl; k++) free(cl[k]); ncl = 0; }
      else if (!strncmp(line, "ESC ", 4) || !strncmp(line, "ATTR ", 5) || !strncmp(line, "B64E ", 5) || !strncmp(line, "B64D ", 5) || !strncmp(line, "NUM ", 4)) unit_op(line);
    }
    for (unsigned li = 0; li < nall; li++) free(all[li]);
    free(all);
    for (unsigned k = 0; k < ncl; k++) free(cl[k]);
    free(cl);
    fclose(fops); fclose(fc);
    return 0;
  }
  if (argc < 6 || strcmp(argv[1], "gen")) { fprintf(stderr, "usage: xmlrt gen <ncases> <sources> <ops> <c.out> | replay <script> <ops> <c.out>\n"); return 2; }
  unsigned long ncases = strtoul(argv[2], NULL, 10);
  FILE *fs = fopen(argv[3], "r");
  if (fs) { char l[1100]; while (fgets(l, sizeof l, fs)) { l[strcspn(l, "\n")] = 0; if (strlen(l) < 3) continue;
      srcs = realloc(srcs, (nsrcs + 1) * sizeof(*srcs)); srcs[nsrcs].kind = l[0]; strncpy(srcs[nsrcs].path, l + 2, 999); srcs[nsrcs].path[999] = 0; nsrcs++; } fclose(fs); }
  fops = fopen(argv[4], "w+"); fc = fopen(argv[5], "w+");
  if (!fops || !fc) return 2;
  snprintf(xmlpath1, sizeof xmlpath1, "%s.x1.xml", argv[4]); snprintf(xmlpath2, sizeof xmlpath2, "%s.x2.xml", argv[4]);
  rng_seed(rng_seed_from_env());
  unsigned long nunit = getenv("VERIF_XMLRT_UNITS") ? strtoul(getenv("VERIF_XMLRT_UNITS"), NULL, 10) : 40;
  static char line[70000];
  for (unsigned long c = 0; c < ncases; c++) {
    for (unsigned long u = 0; u < nunit; u++) { gen_unit(line, sizeof line); unit_op(line); }
    uint64_t cs = rng_next();
    rng_seed(cs);                 /* the child inherits this state; the parent re-derives its own stream below */
    in_child(gen_case_child, NULL, NULL, 0);
    rng_seed(cs ^ 0x5bd1e995u);
  }
  fclose(fops); fclose(fc);
  free(srcs);
  return 0;
}
