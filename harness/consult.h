/* The consulting API of C17 as a uniform table: every entry runs one public entry point (over a deterministic
 * set of arguments derived from the topology itself) and folds everything it returns into cx->digest
 * (objects as gp_index, sets as their list string; never addresses).  Shared by h_readonly.c (PROT_READ arena,
 * engine `readonly`) and h_tsan.c (reader threads, support only).
 *
 * cx->id / cx->ok parametrise the memattr queries (attribute id; ok=0 passes flags=1 so that the call is
 * rejected before it reaches the cache test) and the distances / XML getters (ok=0: invalid flags). */
#ifndef VERIF_CONSULT_H
#define VERIF_CONSULT_H
#include "hwloc.h"
#include <stdio.h>
#include <string.h>
#include <stdlib.h>
#include <stdint.h>
#include <errno.h>
#include <limits.h>
#include "hwloc/shmem.h"

struct cctx {
  unsigned id;
  int ok;
  uint64_t digest;
  const char *scratch;   /* a file name this thread may write */
};

static void HB(struct cctx *cx, const void *p, size_t n) {
  const unsigned char *b = p; uint64_t h = cx->digest ? cx->digest : 1469598103934665603ULL;
  for (size_t i = 0; i < n; i++) { h ^= b[i]; h *= 1099511628211ULL; }
  cx->digest = h;
}
static void HU(struct cctx *cx, uint64_t v) { HB(cx, &v, sizeof v); }
static void HS(struct cctx *cx, const char *s) { if (s) HB(cx, s, strlen(s) + 1); else HU(cx, 0xdead); }
static void HO(struct cctx *cx, hwloc_obj_t o) { HU(cx, o ? o->gp_index : (uint64_t)-1); }
static void HSET(struct cctx *cx, hwloc_const_bitmap_t b) {
  char buf[512];
  if (!b) { HU(cx, 0xbeef); return; }
  hwloc_bitmap_list_snprintf(buf, sizeof buf, b); HS(cx, buf);
}

/* ---- traversal */
static void c_depth_queries(hwloc_topology_t t, struct cctx *cx) {
  int d, depth = hwloc_topology_get_depth(t);
  HU(cx, depth);
  for (d = HWLOC_TYPE_DEPTH_MEMCACHE; d < depth; d++) {
    HU(cx, hwloc_get_depth_type(t, d)); HU(cx, hwloc_get_nbobjs_by_depth(t, d));
  }
  for (int ty = HWLOC_OBJ_TYPE_MIN; ty < HWLOC_OBJ_TYPE_MAX; ty++) {
    HU(cx, hwloc_get_type_depth(t, ty)); HU(cx, hwloc_get_nbobjs_by_type(t, ty));
    HU(cx, hwloc_get_type_or_below_depth(t, ty)); HU(cx, hwloc_get_type_or_above_depth(t, ty));
  }
  HU(cx, hwloc_get_memory_parents_depth(t));
}
static void c_get_obj_by_depth(hwloc_topology_t t, struct cctx *cx) {
  int depth = hwloc_topology_get_depth(t);
  for (int d = HWLOC_TYPE_DEPTH_MEMCACHE; d < depth; d++) {
    unsigned n = hwloc_get_nbobjs_by_depth(t, d);
    for (unsigned i = 0; i <= n && i < 40; i++) HO(cx, hwloc_get_obj_by_depth(t, d, i));
  }
  HO(cx, hwloc_get_root_obj(t));
}
static void c_get_next_obj(hwloc_topology_t t, struct cctx *cx) {
  hwloc_obj_t o;
  int depth = hwloc_topology_get_depth(t);
  for (int d = HWLOC_TYPE_DEPTH_MEMCACHE; d < depth; d++) {
    o = NULL; unsigned n = 0;
    while ((o = hwloc_get_next_obj_by_depth(t, d, o)) && n++ < 300) HO(cx, o);
  }
  for (int ty = HWLOC_OBJ_TYPE_MIN; ty < HWLOC_OBJ_TYPE_MAX; ty++) {
    o = NULL; unsigned n = 0;
    while ((o = hwloc_get_next_obj_by_type(t, ty, o)) && n++ < 300) HO(cx, o);
    HO(cx, hwloc_get_obj_by_type(t, ty, 0));
  }
}
static void c_os_index_lookup(hwloc_topology_t t, struct cctx *cx) {
  for (unsigned i = 0; i < 70; i++) { HO(cx, hwloc_get_pu_obj_by_os_index(t, i)); HO(cx, hwloc_get_numanode_obj_by_os_index(t, i)); }
}
static void c_tree_walk(hwloc_topology_t t, struct cctx *cx) {
  /* children lists incl. memory / io / misc, parents, cousins, siblings */
  hwloc_obj_t stack[256]; int sp = 0; unsigned n = 0;
  stack[sp++] = hwloc_get_root_obj(t);
  while (sp && n++ < 2000) {
    hwloc_obj_t o = stack[--sp], c = NULL;
    HO(cx, o); HO(cx, o->parent); HO(cx, o->next_cousin); HO(cx, o->prev_sibling); HU(cx, o->arity); HU(cx, o->logical_index);
    HSET(cx, o->cpuset); HSET(cx, o->nodeset); HS(cx, o->name); HS(cx, o->subtype); HU(cx, o->total_memory);
    while ((c = hwloc_get_next_child(t, o, c))) if (sp < 256) stack[sp++] = c;
  }
}
static void c_ancestors(hwloc_topology_t t, struct cctx *cx) {
  unsigned n = hwloc_get_nbobjs_by_type(t, HWLOC_OBJ_PU);
  hwloc_obj_t a = hwloc_get_obj_by_type(t, HWLOC_OBJ_PU, 0), b = hwloc_get_obj_by_type(t, HWLOC_OBJ_PU, n - 1);
  if (!a || !b) return;
  HO(cx, hwloc_get_common_ancestor_obj(t, a, b));
  HU(cx, hwloc_obj_is_in_subtree(t, a, hwloc_get_root_obj(t)));
  for (int d = 0; d < hwloc_topology_get_depth(t); d++) HO(cx, hwloc_get_ancestor_obj_by_depth(t, d, b));
  for (int ty = HWLOC_OBJ_TYPE_MIN; ty < HWLOC_OBJ_TYPE_MAX; ty++) HO(cx, hwloc_get_ancestor_obj_by_type(t, ty, b));
  HO(cx, hwloc_get_non_io_ancestor_obj(t, a));
  HO(cx, hwloc_get_shared_cache_covering_obj(t, a));
  HO(cx, hwloc_get_obj_with_same_locality(t, a, HWLOC_OBJ_CORE, NULL, NULL, 0));
}
static void c_cpuset_helpers(hwloc_topology_t t, struct cctx *cx) {
  hwloc_const_bitmap_t root = hwloc_topology_get_topology_cpuset(t);
  hwloc_bitmap_t s = hwloc_bitmap_dup(root), ns = hwloc_bitmap_alloc();
  hwloc_obj_t objs[16], o;
  int first = hwloc_bitmap_first(s), depth = hwloc_topology_get_depth(t);
  if (first >= 0 && hwloc_bitmap_weight(s) > 2) hwloc_bitmap_clr(s, first);
  HO(cx, hwloc_get_first_largest_obj_inside_cpuset(t, s));
  int r = hwloc_get_largest_objs_inside_cpuset(t, s, objs, 16);
  HU(cx, r); for (int i = 0; i < r; i++) HO(cx, objs[i]);
  for (int d = 0; d < depth; d++) {
    HU(cx, hwloc_get_nbobjs_inside_cpuset_by_depth(t, s, d));
    HO(cx, hwloc_get_obj_inside_cpuset_by_depth(t, s, d, 0));
    HO(cx, hwloc_get_next_obj_inside_cpuset_by_depth(t, s, d, NULL));
    HO(cx, hwloc_get_next_obj_covering_cpuset_by_depth(t, s, d, NULL));
  }
  HU(cx, hwloc_get_nbobjs_inside_cpuset_by_type(t, s, HWLOC_OBJ_CORE));
  HO(cx, hwloc_get_obj_inside_cpuset_by_type(t, s, HWLOC_OBJ_PU, 1));
  HO(cx, hwloc_get_obj_covering_cpuset(t, s));
  HO(cx, hwloc_get_cache_covering_cpuset(t, s));
  HO(cx, hwloc_get_next_obj_inside_cpuset_by_type(t, s, HWLOC_OBJ_CORE, NULL));
  HO(cx, hwloc_get_child_covering_cpuset(t, s, hwloc_get_root_obj(t)));
  o = hwloc_get_obj_by_type(t, HWLOC_OBJ_PU, 1);
  if (o) HU(cx, hwloc_get_obj_index_inside_cpuset(t, hwloc_topology_get_complete_cpuset(t), o));
  { hwloc_bitmap_t pc = hwloc_bitmap_dup(hwloc_topology_get_topology_cpuset(t)); HU(cx, hwloc_bitmap_singlify_per_core(t, pc, 0)); HSET(cx, pc); hwloc_bitmap_free(pc); }
  o = hwloc_get_obj_by_type(t, HWLOC_OBJ_PU, 0);
  if (o) { r = hwloc_get_closest_objs(t, o, objs, 16); HU(cx, r); for (int i = 0; i < r; i++) HO(cx, objs[i]); }
  HO(cx, hwloc_get_obj_below_by_type(t, HWLOC_OBJ_PACKAGE, 0, HWLOC_OBJ_PU, 0));
  hwloc_cpuset_to_nodeset(t, s, ns); HSET(cx, ns);
  hwloc_cpuset_from_nodeset(t, s, ns); HSET(cx, s);
  hwloc_bitmap_free(s); hwloc_bitmap_free(ns);
}
static void c_type_predicates(hwloc_topology_t t, struct cctx *cx) {
  hwloc_obj_type_t ty; union hwloc_obj_attr_u attr; hwloc_obj_t o = NULL; unsigned n = 0;
  (void) t;
  for (int a = HWLOC_OBJ_TYPE_MIN; a < HWLOC_OBJ_TYPE_MAX; a++) {
    HU(cx, hwloc_obj_type_is_normal(a)); HU(cx, hwloc_obj_type_is_io(a)); HU(cx, hwloc_obj_type_is_memory(a));
    HU(cx, hwloc_obj_type_is_cache(a)); HU(cx, hwloc_obj_type_is_dcache(a)); HU(cx, hwloc_obj_type_is_icache(a));
    HU(cx, hwloc_compare_types(a, HWLOC_OBJ_CORE));
    HU(cx, hwloc_type_sscanf(hwloc_obj_type_string(a), &ty, &attr, sizeof attr)); HU(cx, ty);
  }
  HU(cx, hwloc_type_sscanf("L2Cache", &ty, &attr, sizeof attr)); HU(cx, ty);
  while ((o = hwloc_get_next_bridge(t, o)) && n++ < 20) { HU(cx, hwloc_bridge_covers_pcibus(o, 0, 0)); }
  HO(cx, hwloc_get_pcidev_by_busidstring(t, "0000:00:00.0"));
  HU(cx, hwloc_get_api_version());
}
static void c_topology_dup(hwloc_topology_t t, struct cctx *cx) {
  hwloc_topology_t d;
  int r = hwloc_topology_dup(&d, t);
  HU(cx, r);
  if (!r) { HU(cx, hwloc_topology_get_depth(d)); HU(cx, hwloc_get_nbobjs_by_type(d, HWLOC_OBJ_PU)); HSET(cx, hwloc_topology_get_allowed_cpuset(d)); hwloc_topology_destroy(d); }
}
static void c_shmem_get_length(hwloc_topology_t t, struct cctx *cx) {
  size_t len = 0;
  int r = hwloc_shmem_topology_get_length(t, &len, 0);
  HU(cx, r); if (!r) HU(cx, len > 0);
}
static void c_diff_build(hwloc_topology_t t, struct cctx *cx) {
  hwloc_topology_diff_t diff = NULL;
  int r = hwloc_topology_diff_build(t, t, 0, &diff);      /* refreshes the distances and every memattr of both operands */
  HU(cx, r); HU(cx, diff != NULL);
  if (diff) hwloc_topology_diff_destroy(diff);
}
static void c_distrib(hwloc_topology_t t, struct cctx *cx) {
  hwloc_obj_t root = hwloc_get_root_obj(t);
  hwloc_bitmap_t sets[7];
  if (hwloc_distrib(t, &root, 1, sets, 7, INT_MAX, 0) == 0)
    for (int i = 0; i < 7; i++) { HSET(cx, sets[i]); hwloc_bitmap_free(sets[i]); }
  if (hwloc_distrib(t, &root, 1, sets, 3, 2, HWLOC_DISTRIB_FLAG_REVERSE) == 0)
    for (int i = 0; i < 3; i++) { HSET(cx, sets[i]); hwloc_bitmap_free(sets[i]); }
}
static void c_io_iter(hwloc_topology_t t, struct cctx *cx) {
  hwloc_obj_t o = NULL; unsigned n = 0;
  while ((o = hwloc_get_next_pcidev(t, o)) && n++ < 100) HO(cx, o);
  o = NULL; while ((o = hwloc_get_next_osdev(t, o)) && n++ < 200) HO(cx, o);
  o = NULL; while ((o = hwloc_get_next_bridge(t, o)) && n++ < 300) HO(cx, o);
  HO(cx, hwloc_get_pcidev_by_busid(t, 0, 0, 0, 0));
}
static void c_topology_meta(hwloc_topology_t t, struct cctx *cx) {
  enum hwloc_type_filter_e f;
  const struct hwloc_topology_support *s = hwloc_topology_get_support(t);
  HU(cx, hwloc_topology_is_thissystem(t)); HU(cx, hwloc_topology_get_flags(t));
  for (int ty = HWLOC_OBJ_TYPE_MIN; ty < HWLOC_OBJ_TYPE_MAX; ty++) { hwloc_topology_get_type_filter(t, ty, &f); HU(cx, f); }
  HU(cx, s->discovery->pu); HU(cx, s->misc->imported_support);
  HU(cx, hwloc_topology_get_userdata(t) != NULL);
  HU(cx, hwloc_topology_abi_check(t));
}
static void c_topology_check(hwloc_topology_t t, struct cctx *cx) { hwloc_topology_check(t); HU(cx, 1); }

/* ---- printing */
static void c_type_snprintf(hwloc_topology_t t, struct cctx *cx) {
  hwloc_obj_t stack[256]; int sp = 0; unsigned n = 0; char buf[256];
  stack[sp++] = hwloc_get_root_obj(t);
  while (sp && n++ < 400) {
    hwloc_obj_t o = stack[--sp], c = NULL;
    HU(cx, hwloc_obj_type_snprintf(buf, sizeof buf, o, 0)); HS(cx, buf);
    HU(cx, hwloc_obj_type_snprintf(buf, 5, o, HWLOC_OBJ_SNPRINTF_FLAG_LONG_NAMES)); HS(cx, buf);
    HU(cx, hwloc_obj_attr_snprintf(buf, sizeof buf, o, " ", 0)); HS(cx, buf);
    HU(cx, hwloc_obj_attr_snprintf(buf, 9, o, ",", HWLOC_OBJ_SNPRINTF_FLAG_MORE_ATTRS)); HS(cx, buf);
    HS(cx, hwloc_obj_type_string(o->type));
    while ((c = hwloc_get_next_child(t, o, c))) if (sp < 256) stack[sp++] = c;
  }
}
static void c_info_queries(hwloc_topology_t t, struct cctx *cx) {
  hwloc_obj_t root = hwloc_get_root_obj(t);
  struct hwloc_infos_s *infos = hwloc_topology_get_infos(t);
  HS(cx, hwloc_obj_get_info_by_name(root, "Backend"));
  HS(cx, hwloc_get_info_by_name(infos, "OSName"));
  for (unsigned i = 0; i < infos->count; i++) { HS(cx, infos->array[i].name); HS(cx, infos->array[i].value); }
}

/* ---- sets */
static void c_set_getters(hwloc_topology_t t, struct cctx *cx) {
  HSET(cx, hwloc_topology_get_complete_cpuset(t)); HSET(cx, hwloc_topology_get_topology_cpuset(t));
  HSET(cx, hwloc_topology_get_allowed_cpuset(t)); HSET(cx, hwloc_topology_get_complete_nodeset(t));
  HSET(cx, hwloc_topology_get_topology_nodeset(t)); HSET(cx, hwloc_topology_get_allowed_nodeset(t));
}
static void c_bitmap_queries(hwloc_topology_t t, struct cctx *cx) {
  hwloc_const_bitmap_t a = hwloc_topology_get_allowed_cpuset(t), c = hwloc_topology_get_complete_cpuset(t);
  hwloc_const_bitmap_t n = hwloc_get_root_obj(t)->nodeset;
  char *s = NULL; int i; unsigned idx;
  HU(cx, hwloc_bitmap_weight(a)); HU(cx, hwloc_bitmap_first(a)); HU(cx, hwloc_bitmap_last(c));
  HU(cx, hwloc_bitmap_first_unset(a)); HU(cx, hwloc_bitmap_last_unset(a)); HU(cx, hwloc_bitmap_next(a, 3));
  HU(cx, hwloc_bitmap_next_unset(c, 0)); HU(cx, hwloc_bitmap_iszero(a)); HU(cx, hwloc_bitmap_isfull(c));
  HU(cx, hwloc_bitmap_isincluded(a, c)); HU(cx, hwloc_bitmap_intersects(a, n)); HU(cx, hwloc_bitmap_isequal(a, c));
  HU(cx, hwloc_bitmap_compare(a, c)); HU(cx, hwloc_bitmap_compare_first(a, n)); HU(cx, hwloc_bitmap_isset(a, 1));
  HU(cx, hwloc_bitmap_to_ulong(a)); HU(cx, hwloc_bitmap_to_ith_ulong(c, 1)); HU(cx, hwloc_bitmap_nr_ulongs(c));
  hwloc_bitmap_asprintf(&s, a); HS(cx, s); free(s);
  hwloc_bitmap_list_asprintf(&s, c); HS(cx, s); free(s);
  hwloc_bitmap_taskset_asprintf(&s, n); HS(cx, s); free(s);
  i = 0; hwloc_bitmap_foreach_begin(idx, a) { if (i++ < 64) HU(cx, idx); } hwloc_bitmap_foreach_end();
}

/* ---- cpukinds */
static void c_cpukinds(hwloc_topology_t t, struct cctx *cx) {
  int nr = hwloc_cpukinds_get_nr(t, 0);
  hwloc_bitmap_t s = hwloc_bitmap_alloc();
  HU(cx, nr);
  for (int i = 0; i < nr + 1; i++) {
    int eff = -2; struct hwloc_infos_s *infos = NULL;
    int r = hwloc_cpukinds_get_info(t, i, s, &eff, &infos, 0);
    HU(cx, r); if (r == 0) { HSET(cx, s); HU(cx, eff); for (unsigned k = 0; k < infos->count; k++) { HS(cx, infos->array[k].name); HS(cx, infos->array[k].value); } }
  }
  HU(cx, hwloc_cpukinds_get_by_cpuset(t, hwloc_topology_get_topology_cpuset(t), 0));
  hwloc_obj_t pu = hwloc_get_obj_by_type(t, HWLOC_OBJ_PU, 0);
  if (pu) HU(cx, hwloc_cpukinds_get_by_cpuset(t, pu->cpuset, 0));
  hwloc_bitmap_free(s);
}

/* ---- distances */
static void hash_distances(hwloc_topology_t t, struct cctx *cx, int r, unsigned nr, struct hwloc_distances_s **d) {
  HU(cx, r); if (r) return;
  HU(cx, nr);
  for (unsigned i = 0; i < nr && i < 16; i++) {
    HU(cx, d[i]->nbobjs); HU(cx, d[i]->kind); HS(cx, hwloc_distances_get_name(t, d[i]));
    for (unsigned k = 0; k < d[i]->nbobjs; k++) HO(cx, d[i]->objs[k]);
    for (unsigned k = 0; k < d[i]->nbobjs * d[i]->nbobjs; k++) HU(cx, d[i]->values[k]);
    HU(cx, hwloc_distances_obj_index(d[i], d[i]->objs[d[i]->nbobjs - 1]));
    hwloc_uint64_t v1 = 0, v2 = 0;
    HU(cx, hwloc_distances_obj_pair_values(d[i], d[i]->objs[0], d[i]->objs[1], &v1, &v2)); HU(cx, v1); HU(cx, v2);
    /* transforms work on the caller's copy but consult the topology */
    HU(cx, hwloc_distances_transform(t, d[i], HWLOC_DISTANCES_TRANSFORM_TRANSITIVE_CLOSURE, NULL, 0));
    HU(cx, hwloc_distances_transform(t, d[i], HWLOC_DISTANCES_TRANSFORM_MERGE_SWITCH_PORTS, NULL, 0));
    HU(cx, hwloc_distances_transform(t, d[i], HWLOC_DISTANCES_TRANSFORM_REMOVE_NULL, NULL, 0)); HU(cx, d[i]->nbobjs);
    hwloc_distances_release(t, d[i]);
  }
}
static void c_distances_get(hwloc_topology_t t, struct cctx *cx) {
  struct hwloc_distances_s *d[16]; unsigned nr = 16;
  int r = hwloc_distances_get(t, &nr, d, 0, cx->ok ? 0 : 1);
  hash_distances(t, cx, r, nr, d);
}
static void c_distances_get_by_depth(hwloc_topology_t t, struct cctx *cx) {
  struct hwloc_distances_s *d[16]; unsigned nr = 16;
  int r = hwloc_distances_get_by_depth(t, hwloc_get_type_depth(t, HWLOC_OBJ_NUMANODE), &nr, d, 0, cx->ok ? 0 : 1);
  hash_distances(t, cx, r, nr, d);
}
static void c_distances_get_by_type(hwloc_topology_t t, struct cctx *cx) {
  struct hwloc_distances_s *d[16]; unsigned nr = 16;
  int r = hwloc_distances_get_by_type(t, HWLOC_OBJ_PU, &nr, d, HWLOC_DISTANCES_KIND_VALUE_LATENCY, cx->ok ? 0 : 1);
  hash_distances(t, cx, r, nr, d);
}
static void c_distances_get_by_name(hwloc_topology_t t, struct cctx *cx) {
  struct hwloc_distances_s *d[16]; unsigned nr = 16;
  int r = hwloc_distances_get_by_name(t, "NUMALatency", &nr, d, cx->ok ? 0 : 1);
  hash_distances(t, cx, r, nr, d);
}

/* ---- memattrs */
static hwloc_obj_t first_node(hwloc_topology_t t) { return hwloc_get_obj_by_type(t, HWLOC_OBJ_NUMANODE, 0); }
static void c_memattr_meta(hwloc_topology_t t, struct cctx *cx) {
  hwloc_memattr_id_t id; const char *name; unsigned long fl;
  HU(cx, hwloc_memattr_get_by_name(t, "Bandwidth", &id)); HU(cx, id);
  HU(cx, hwloc_memattr_get_by_name(t, "nope", &id));
  for (unsigned i = 0; i < 12; i++) {
    if (hwloc_memattr_get_name(t, i, &name) == 0) HS(cx, name);
    if (hwloc_memattr_get_flags(t, i, &fl) == 0) HU(cx, fl);
  }
}
static void c_memattr_get_value(hwloc_topology_t t, struct cctx *cx) {
  struct hwloc_location loc; hwloc_uint64_t v = 0;
  loc.type = HWLOC_LOCATION_TYPE_CPUSET; loc.location.cpuset = (hwloc_bitmap_t) hwloc_topology_get_topology_cpuset(t);
  int r = hwloc_memattr_get_value(t, cx->id, first_node(t), &loc, cx->ok ? 0 : 1, &v);
  HU(cx, r); if (!r) HU(cx, v);
}
static void c_memattr_get_targets(hwloc_topology_t t, struct cctx *cx) {
  struct hwloc_location loc; hwloc_uint64_t v[8]; hwloc_obj_t tg[8]; unsigned nr = 8;
  loc.type = HWLOC_LOCATION_TYPE_CPUSET; loc.location.cpuset = (hwloc_bitmap_t) hwloc_topology_get_topology_cpuset(t);
  int r = hwloc_memattr_get_targets(t, cx->id, (cx->id & 1) ? &loc : NULL, cx->ok ? 0 : 1, &nr, tg, v);
  HU(cx, r); if (!r) { HU(cx, nr); for (unsigned i = 0; i < nr && i < 8; i++) { HO(cx, tg[i]); HU(cx, v[i]); } }
}
static void c_memattr_get_initiators(hwloc_topology_t t, struct cctx *cx) {
  struct hwloc_location in[8]; hwloc_uint64_t v[8]; unsigned nr = 8;
  int r = hwloc_memattr_get_initiators(t, cx->id, first_node(t), cx->ok ? 0 : 1, &nr, in, v);
  HU(cx, r); if (!r) { HU(cx, nr); for (unsigned i = 0; i < nr && i < 8; i++) {
    HU(cx, in[i].type); if (in[i].type == HWLOC_LOCATION_TYPE_CPUSET) HSET(cx, in[i].location.cpuset); else HO(cx, in[i].location.object); HU(cx, v[i]); } }
}
static void c_memattr_get_best_target(hwloc_topology_t t, struct cctx *cx) {
  struct hwloc_location loc; hwloc_uint64_t v = 0; hwloc_obj_t best = NULL;
  loc.type = HWLOC_LOCATION_TYPE_CPUSET; loc.location.cpuset = (hwloc_bitmap_t) hwloc_topology_get_topology_cpuset(t);
  int r = hwloc_memattr_get_best_target(t, cx->id, &loc, cx->ok ? 0 : 1, &best, &v);
  HU(cx, r); if (!r) { HO(cx, best); HU(cx, v); }
}
static void c_memattr_get_best_initiator(hwloc_topology_t t, struct cctx *cx) {
  struct hwloc_location best; hwloc_uint64_t v = 0;
  int r = hwloc_memattr_get_best_initiator(t, cx->id, first_node(t), cx->ok ? 0 : 1, &best, &v);
  HU(cx, r); if (!r) { HU(cx, best.type); if (best.type == HWLOC_LOCATION_TYPE_CPUSET) HSET(cx, best.location.cpuset); else HO(cx, best.location.object); HU(cx, v); }
}
static void c_local_numanodes(hwloc_topology_t t, struct cctx *cx) {
  struct hwloc_location loc; hwloc_obj_t nodes[16]; unsigned nr = 16;
  hwloc_obj_t pu = hwloc_get_obj_by_type(t, HWLOC_OBJ_PU, 0);
  loc.type = HWLOC_LOCATION_TYPE_CPUSET; loc.location.cpuset = pu ? pu->cpuset : (hwloc_bitmap_t) hwloc_topology_get_topology_cpuset(t);
  int r = hwloc_get_local_numanode_objs(t, &loc, &nr, nodes, HWLOC_LOCAL_NUMANODE_FLAG_LARGER_LOCALITY);
  HU(cx, r); if (!r) { HU(cx, nr); for (unsigned i = 0; i < nr && i < 16; i++) HO(cx, nodes[i]); }
  nr = 16; r = hwloc_get_local_numanode_objs(t, NULL, &nr, nodes, HWLOC_LOCAL_NUMANODE_FLAG_ALL);
  HU(cx, r); if (!r) HU(cx, nr);
  hwloc_bitmap_t ns = hwloc_bitmap_alloc();
  r = hwloc_topology_get_default_nodeset(t, ns, 0); HU(cx, r); if (!r) HSET(cx, ns);
  hwloc_bitmap_free(ns);
}

/* ---- exports */
static void c_export_synthetic(hwloc_topology_t t, struct cctx *cx) {
  char buf[1024];
  int r = hwloc_topology_export_synthetic(t, buf, sizeof buf, 0);
  HU(cx, r < 0 ? -1 : 0); if (r >= 0) HS(cx, buf);
  r = hwloc_topology_export_synthetic(t, buf, sizeof buf, HWLOC_TOPOLOGY_EXPORT_SYNTHETIC_FLAG_NO_ATTRS | HWLOC_TOPOLOGY_EXPORT_SYNTHETIC_FLAG_IGNORE_MEMORY);
  HU(cx, r < 0 ? -1 : 0); if (r >= 0) HS(cx, buf);
}
static void c_export_xmlbuffer(hwloc_topology_t t, struct cctx *cx) {
  char *buf = NULL; int len = 0;
  int r = hwloc_topology_export_xmlbuffer(t, &buf, &len, cx->ok ? 0 : 1UL << 20);
  HU(cx, r); if (!r) { HU(cx, len); HB(cx, buf, len); hwloc_free_xmlbuffer(t, buf); }
}
static void c_export_xmlbuffer_v2(hwloc_topology_t t, struct cctx *cx) {
  char *buf = NULL; int len = 0;
  int r = hwloc_topology_export_xmlbuffer(t, &buf, &len, cx->ok ? HWLOC_TOPOLOGY_EXPORT_XML_FLAG_V2 : 1UL << 20);
  HU(cx, r); if (!r) { HU(cx, len); HB(cx, buf, len); hwloc_free_xmlbuffer(t, buf); }
}
static void c_export_xml_file(hwloc_topology_t t, struct cctx *cx) {
  int r = hwloc_topology_export_xml(t, cx->scratch, cx->ok ? 0 : 1UL << 20);
  HU(cx, r);
  if (!r) { FILE *f = fopen(cx->scratch, "rb"); char b[4096]; size_t n; while (f && (n = fread(b, 1, sizeof b, f)) > 0) HB(cx, b, n); if (f) fclose(f); }
}

typedef void (*consult_fn)(hwloc_topology_t, struct cctx *);
struct consult_entry { const char *name; consult_fn fn; int kind; };   /* kind: 0 plain, 1 uses ok, 2 uses id+ok */
static const struct consult_entry CONSULT[] = {
  { "depth_queries", c_depth_queries, 0 }, { "get_obj_by_depth", c_get_obj_by_depth, 0 }, { "get_next_obj", c_get_next_obj, 0 },
  { "os_index_lookup", c_os_index_lookup, 0 }, { "tree_walk", c_tree_walk, 0 }, { "ancestors", c_ancestors, 0 },
  { "cpuset_helpers", c_cpuset_helpers, 0 }, { "distrib", c_distrib, 0 }, { "io_iter", c_io_iter, 0 },
  { "topology_meta", c_topology_meta, 0 }, { "topology_check", c_topology_check, 0 },
  { "type_predicates", c_type_predicates, 0 }, { "topology_dup", c_topology_dup, 0 }, { "shmem_get_length", c_shmem_get_length, 0 },
  { "diff_build", c_diff_build, 0 },
  { "type_snprintf", c_type_snprintf, 0 }, { "info_queries", c_info_queries, 0 },
  { "set_getters", c_set_getters, 0 }, { "bitmap_queries", c_bitmap_queries, 0 }, { "cpukinds", c_cpukinds, 0 },
  { "distances_get", c_distances_get, 1 }, { "distances_get_by_depth", c_distances_get_by_depth, 1 },
  { "distances_get_by_type", c_distances_get_by_type, 1 }, { "distances_get_by_name", c_distances_get_by_name, 1 },
  { "memattr_meta", c_memattr_meta, 0 },
  { "memattr_get_value", c_memattr_get_value, 2 }, { "memattr_get_targets", c_memattr_get_targets, 2 },
  { "memattr_get_initiators", c_memattr_get_initiators, 2 }, { "memattr_get_best_target", c_memattr_get_best_target, 2 },
  { "memattr_get_best_initiator", c_memattr_get_best_initiator, 2 },
  { "local_numanodes", c_local_numanodes, 0 }, { "export_synthetic", c_export_synthetic, 0 },
  { "export_xmlbuffer", c_export_xmlbuffer, 1 }, { "export_xmlbuffer_v2", c_export_xmlbuffer_v2, 1 },
  { "export_xml_file", c_export_xml_file, 1 },
};
#define NCONSULT (sizeof(CONSULT) / sizeof(CONSULT[0]))
#endif
