/* C11 differential harness (engine `typestr`): hwloc_obj_type_string, hwloc_type_sscanf,
 * hwloc_obj_type_snprintf, hwloc_obj_attr_snprintf, hwloc_compare_types, kind predicates.
 *
 * usage: typestr gen <nops> <ops-file> <stats-file> <part>    generate ops only (seed = VERIF_SEED); nothing under
 *                                                              test is called (the engine runs the model first)
 *        typestr --replay <ops-file> <out-file>                execute every op line, one answer line each
 * Every op is self-contained (objects are rebuilt from the op line), except `lvl`, which names its topology.
 * A virtual-time watchdog turns a non-terminating call into the answer `P loops` / `T loops`.
 */
#define _GNU_SOURCE
#include "private/autogen/config.h"
#include "hwloc.h"
#include "private/private.h"
#include "private/misc.h"
#include "rng.h"
#include <string.h>
#include <stdio.h>
#include <stdlib.h>
#include <stdint.h>
#include <signal.h>
#include <setjmp.h>
#include <sys/time.h>
#include <dirent.h>
#include <assert.h>

static FILE *fops, *fout;

/* ------------------------------------------------------------------ helpers */
static void put_hex(FILE *f, const unsigned char *b, size_t n) {
  fputc('x', f);
  for (size_t i = 0; i < n; i++) fprintf(f, "%02x", b[i]);
}
static size_t get_hex(const char *tok, unsigned char *out, size_t cap) {
  size_t n = 0;
  if (*tok != 'x') return 0;
  tok++;
  while (tok[0] && tok[1] && n < cap) {
    unsigned v; sscanf(tok, "%2x", &v); out[n++] = (unsigned char) v; tok += 2;
  }
  return n;
}

/* ------------------------------------------------------------------ object description */
#define MAXINFO 6
struct od {
  unsigned type; unsigned depth; unsigned ctype; unsigned long long csize; unsigned linesize; int assoc;
  unsigned long long total, local; unsigned upstream; unsigned pdomain, pbus, pdev, pfunc, vendor, device, classid;
  float link; unsigned ddomain, sec, sub; unsigned long ostypes;
  unsigned ninfo; char iname[MAXINFO][40], ivalue[MAXINFO][40];
};

static void od_from_obj(struct od *d, hwloc_obj_t o) {
  memset(d, 0, sizeof *d);
  d->type = o->type; d->total = o->total_memory;
  if (hwloc_obj_type_is_cache(o->type) || o->type == HWLOC_OBJ_MEMCACHE) {
    d->depth = o->attr->cache.depth; d->ctype = o->attr->cache.type; d->csize = o->attr->cache.size;
    d->linesize = o->attr->cache.linesize; d->assoc = o->attr->cache.associativity;
  } else if (o->type == HWLOC_OBJ_GROUP) d->depth = o->attr->group.depth;
  else if (o->type == HWLOC_OBJ_NUMANODE) d->local = o->attr->numanode.local_memory;
  else if (o->type == HWLOC_OBJ_BRIDGE || o->type == HWLOC_OBJ_PCI_DEVICE) {
    struct hwloc_pcidev_attr_s *p = &o->attr->pcidev;
    d->pdomain = p->domain; d->pbus = p->bus; d->pdev = p->dev; d->pfunc = p->func; d->vendor = p->vendor_id;
    d->device = p->device_id; d->classid = p->class_id; d->link = p->linkspeed;
    if (o->type == HWLOC_OBJ_BRIDGE) {
      d->upstream = o->attr->bridge.upstream_type; d->ddomain = o->attr->bridge.downstream.pci.domain;
      d->sec = o->attr->bridge.downstream.pci.secondary_bus; d->sub = o->attr->bridge.downstream.pci.subordinate_bus;
      if (d->upstream != HWLOC_OBJ_BRIDGE_PCI) { d->pdomain = d->pbus = d->pdev = d->pfunc = d->vendor = d->device = d->classid = 0; d->link = 0; }
    }
  } else if (o->type == HWLOC_OBJ_OS_DEVICE) d->ostypes = o->attr->osdev.types;
  for (unsigned i = 0; i < o->infos.count && d->ninfo < MAXINFO; i++) {
    const char *n = o->infos.array[i].name, *v = o->infos.array[i].value;
    if (strlen(n) >= 40 || strlen(v) >= 40) continue;
    strcpy(d->iname[d->ninfo], n); strcpy(d->ivalue[d->ninfo], v); d->ninfo++;
  }
}

/* the C object rebuilt from a description */
struct built { struct hwloc_obj o; union hwloc_obj_attr_u a; struct hwloc_info_s infos[MAXINFO]; };
static void build_obj(struct built *b, struct od *d) {
  memset(b, 0, sizeof *b);
  b->o.type = (hwloc_obj_type_t) d->type; b->o.attr = &b->a; b->o.total_memory = d->total;
  if (hwloc_obj_type_is_cache(b->o.type) || d->type == HWLOC_OBJ_MEMCACHE) {
    b->a.cache.depth = d->depth; b->a.cache.type = (hwloc_obj_cache_type_t) d->ctype; b->a.cache.size = d->csize;
    b->a.cache.linesize = d->linesize; b->a.cache.associativity = d->assoc;
  } else if (d->type == HWLOC_OBJ_GROUP) b->a.group.depth = d->depth;
  else if (d->type == HWLOC_OBJ_NUMANODE) b->a.numanode.local_memory = d->local;
  else if (d->type == HWLOC_OBJ_BRIDGE || d->type == HWLOC_OBJ_PCI_DEVICE) {
    struct hwloc_pcidev_attr_s *p = &b->a.pcidev;
    p->domain = d->pdomain; p->bus = d->pbus; p->dev = d->pdev; p->func = d->pfunc; p->vendor_id = d->vendor;
    p->device_id = d->device; p->class_id = d->classid; p->linkspeed = d->link;
    if (d->type == HWLOC_OBJ_BRIDGE) {
      b->a.bridge.upstream_type = (hwloc_obj_bridge_type_t) d->upstream; b->a.bridge.downstream_type = HWLOC_OBJ_BRIDGE_PCI;
      b->a.bridge.downstream.pci.domain = d->ddomain; b->a.bridge.downstream.pci.secondary_bus = d->sec;
      b->a.bridge.downstream.pci.subordinate_bus = d->sub;
    }
  } else if (d->type == HWLOC_OBJ_OS_DEVICE) b->a.osdev.types = d->ostypes;
  b->o.infos.array = b->infos; b->o.infos.count = d->ninfo; b->o.infos.allocated = MAXINFO;
  for (unsigned i = 0; i < d->ninfo; i++) { b->infos[i].name = d->iname[i]; b->infos[i].value = d->ivalue[i]; }
}

static void put_od(FILE *f, struct od *d) {
  char tok[64];
  fprintf(f, "%u %u %u %llu %u %d %llu %llu %u %u %u %u %u %u %u %u ", d->type, d->depth, d->ctype, d->csize, d->linesize,
          d->assoc, d->total, d->local, d->upstream, d->pdomain, d->pbus, d->pdev, d->pfunc, d->vendor, d->device, d->classid);
  if (d->link) { snprintf(tok, sizeof tok, "%.2f", d->link); put_hex(f, (unsigned char *) tok, strlen(tok)); }
  else fputc('-', f);
  uint32_t bits; memcpy(&bits, &d->link, 4);
  fprintf(f, " %x ", bits);
  const char *cn = hwloc_pci_class_string((unsigned short) d->classid);
  put_hex(f, (const unsigned char *) cn, strlen(cn));
  fprintf(f, " %u %u %u %lx %u", d->ddomain, d->sec, d->sub, d->ostypes, d->ninfo);
  for (unsigned i = 0; i < d->ninfo; i++) {
    fputc(' ', f); put_hex(f, (unsigned char *) d->iname[i], strlen(d->iname[i]));
    fputc(' ', f); put_hex(f, (unsigned char *) d->ivalue[i], strlen(d->ivalue[i]));
  }
}

#define OD_FIXED 24
/* parse tokens tok[0..] into d; returns number of tokens consumed or -1 */
static int get_od(char **tok, int nt, struct od *d) {
  if (nt < OD_FIXED) return -1;
  memset(d, 0, sizeof *d);
  d->type = strtoul(tok[0], 0, 10); d->depth = strtoul(tok[1], 0, 10); d->ctype = strtoul(tok[2], 0, 10);
  d->csize = strtoull(tok[3], 0, 10); d->linesize = strtoul(tok[4], 0, 10); d->assoc = (int) strtol(tok[5], 0, 10);
  d->total = strtoull(tok[6], 0, 10); d->local = strtoull(tok[7], 0, 10); d->upstream = strtoul(tok[8], 0, 10);
  d->pdomain = strtoul(tok[9], 0, 10); d->pbus = strtoul(tok[10], 0, 10); d->pdev = strtoul(tok[11], 0, 10);
  d->pfunc = strtoul(tok[12], 0, 10); d->vendor = strtoul(tok[13], 0, 10); d->device = strtoul(tok[14], 0, 10);
  d->classid = strtoul(tok[15], 0, 10);
  uint32_t bits = (uint32_t) strtoul(tok[17], 0, 16); memcpy(&d->link, &bits, 4);
  d->ddomain = strtoul(tok[19], 0, 10); d->sec = strtoul(tok[20], 0, 10); d->sub = strtoul(tok[21], 0, 10);
  d->ostypes = strtoul(tok[22], 0, 16); d->ninfo = strtoul(tok[23], 0, 10);
  if (d->ninfo > MAXINFO || nt < OD_FIXED + 2 * (int) d->ninfo) return -1;
  for (unsigned i = 0; i < d->ninfo; i++) {
    size_t n = get_hex(tok[OD_FIXED + 2 * i], (unsigned char *) d->iname[i], 39); d->iname[i][n] = 0;
    n = get_hex(tok[OD_FIXED + 2 * i + 1], (unsigned char *) d->ivalue[i], 39); d->ivalue[i][n] = 0;
  }
  return OD_FIXED + 2 * d->ninfo;
}

/* ------------------------------------------------------------------ watchdog */
static sigjmp_buf wd_env;
static void wd_fire(int s) { (void) s; siglongjmp(wd_env, 1); }
static void wd_arm(void) {
  struct itimerval it = { {0, 0}, {0, 100000} };
  setitimer(ITIMER_VIRTUAL, &it, NULL);
}
static void wd_disarm(void) {
  struct itimerval it = { {0, 0}, {0, 0} };
  setitimer(ITIMER_VIRTUAL, &it, NULL);
}

/* ------------------------------------------------------------------ executing print calls */
#define GUARD 16
typedef int (*printfn)(char *, size_t, void *);
struct tsn_arg { hwloc_obj_t o; unsigned long flags; const char *sep; };
static int call_tsn(char *s, size_t n, void *a) { struct tsn_arg *x = a; return hwloc_obj_type_snprintf(s, n, x->o, x->flags); }
static int call_asn(char *s, size_t n, void *a) { struct tsn_arg *x = a; return hwloc_obj_attr_snprintf(s, n, x->o, x->sep, x->flags); }

/* runs fn on a guard-fenced buffer of `size` bytes (NULL when isnull) and prints `P ret content [flags]` */
static void exec_print(printfn fn, void *arg, int isnull, size_t size) {
  unsigned char *volatile region = NULL;
  char *volatile exact = NULL;
  if (sigsetjmp(wd_env, 1)) { wd_disarm(); fprintf(fout, "P loops\n"); return; }
  region = malloc(size + 2 * GUARD);
  memset(region, 0xA5, size + 2 * GUARD);
  wd_arm();
  int ret = fn(isnull ? NULL : (char *) region + GUARD, size, arg);
  /* second call into an exact-size heap block: ASan sees any byte past `size` */
  exact = malloc(size ? size : 1);
  int ret2 = fn(isnull ? NULL : exact, size, arg);
  wd_disarm();
  int guard_ok = 1;
  for (int i = 0; i < GUARD; i++) if (region[i] != 0xA5 || region[GUARD + size + i] != 0xA5) guard_ok = 0;
  fprintf(fout, "P %d ", ret);
  if (isnull || size == 0) fputc('-', fout);
  else {
    unsigned char *nul = memchr(region + GUARD, 0, size);
    if (!nul) fprintf(fout, "NONUL");
    else put_hex(fout, region + GUARD, nul - (region + GUARD));
    if (nul && !isnull && (ret2 != ret || strcmp((char *) region + GUARD, exact))) fprintf(fout, " UNSTABLE");
  }
  if (!guard_ok) fprintf(fout, " GUARD");
  fputc('\n', fout);
  free(region); free(exact);
}

/* `R ...` answer of hwloc_type_sscanf on the exact-size heap copy of s[0..n) */
static void print_ssc(FILE *f, const unsigned char *s, size_t n, int isnull, size_t attrsize) {
  char *str = malloc(n + 1); memcpy(str, s, n); str[n] = 0;
  size_t asz = attrsize ? attrsize : 1;
  unsigned char *heap = malloc(asz); memset(heap, 0xEE, asz);
  hwloc_obj_type_t type = (hwloc_obj_type_t) 99;
  int r = hwloc_type_sscanf(str, &type, isnull ? NULL : (union hwloc_obj_attr_u *) heap, attrsize);
  union hwloc_obj_attr_u u; memset(&u, 0xEE, sizeof u);
  if (!isnull) memcpy(&u, heap, attrsize < sizeof u ? attrsize : sizeof u);
  int dirty = 0;
  if (!isnull) for (size_t i = sizeof u; i < attrsize; i++) if (heap[i] != 0xEE) dirty = 1;
  if (r < 0) {
    for (size_t i = 0; i < sizeof u; i++) if (((unsigned char *) &u)[i] != 0xEE) dirty = 1;
    fprintf(f, "R %d%s%s", r, type == (hwloc_obj_type_t) 99 ? "" : " TYPEWRITTEN", dirty ? " DIRTY" : "");
  } else {
    fprintf(f, "R %d %u ", r, (unsigned) type);
    if (isnull) fprintf(f, "null");
    else if (hwloc_obj_type_is_cache(type)) { fprintf(f, "cache %u %u", u.cache.depth, (unsigned) u.cache.type); memset(&u.cache.depth, 0xEE, sizeof u.cache.depth); memset(&u.cache.type, 0xEE, sizeof u.cache.type); }
    else if (type == HWLOC_OBJ_GROUP) { fprintf(f, "group %u", u.group.depth); memset(&u.group.depth, 0xEE, sizeof u.group.depth); }
    else if (type == HWLOC_OBJ_BRIDGE) { fprintf(f, "bridge %u %u", (unsigned) u.bridge.upstream_type, (unsigned) u.bridge.downstream_type); memset(&u.bridge.upstream_type, 0xEE, sizeof u.bridge.upstream_type); memset(&u.bridge.downstream_type, 0xEE, sizeof u.bridge.downstream_type); }
    else if (type == HWLOC_OBJ_OS_DEVICE) { fprintf(f, "osdev %lx", u.osdev.types); memset(&u.osdev.types, 0xEE, sizeof u.osdev.types); }
    else fprintf(f, "none");
    if (!isnull) for (size_t i = 0; i < sizeof u; i++) if (((unsigned char *) &u)[i] != 0xEE) dirty = 1;
    if (dirty) fprintf(f, " DIRTY");
  }
  free(str); free(heap);
}

/* does the parse of `text` give back the attributes of the object?  (the property's own oracle) */
static int roundtrip_match(struct od *d, const char *text) {
  hwloc_obj_type_t type; union hwloc_obj_attr_u a; memset(&a, 0xEE, sizeof a);
  if (hwloc_type_sscanf(text, &type, &a, sizeof a) < 0) return 0;
  if ((unsigned) type != d->type) return 0;
  if (hwloc_obj_type_is_cache(type)) return a.cache.depth == d->depth && (unsigned) a.cache.type == d->ctype;
  if (type == HWLOC_OBJ_GROUP) return a.group.depth == d->depth;
  if (type == HWLOC_OBJ_BRIDGE) return (unsigned) a.bridge.upstream_type == d->upstream;
  if (type == HWLOC_OBJ_OS_DEVICE) return a.osdev.types == d->ostypes;
  return 1;
}

/* ------------------------------------------------------------------ topologies (for lvl ops and object enumeration) */
static hwloc_topology_t cur_topo; static char cur_spec[1024];
static hwloc_topology_t load_topo(const char *spec) {
  if (cur_topo && !strcmp(spec, cur_spec)) return cur_topo;
  if (cur_topo) { hwloc_topology_destroy(cur_topo); cur_topo = NULL; }
  unsigned char raw[512]; size_t n = get_hex(spec + 1, raw, sizeof raw - 1); raw[n] = 0;
  hwloc_topology_t t;
  if (hwloc_topology_init(&t) < 0) return NULL;
  hwloc_topology_set_all_types_filter(t, HWLOC_TYPE_FILTER_KEEP_ALL);
  /* 'g' specs: "<synthetic description>|<cpuset>,<cpuset>,..." = the synthetic topology after inserting one Group per cpuset, in that
   * order (levels of a topology modified after load: Group depths are renumbered by every insertion) */
  /* 'c' specs: "<type name>,<depth>,<cache type>" = a one-PU XML document with one cache object of that type name carrying those
   * attributes (consistent or not: an inconsistent combination must be refused by the loader, or print a text that parses back) */
  if (spec[0] == 'c') {
    char tn[64]; int dep = 0, cty = 0; static char doc[2048];
    if (sscanf((char *) raw, "%63[^,],%d,%d", tn, &dep, &cty) != 3) { hwloc_topology_destroy(t); return NULL; }
    int dl = snprintf(doc, sizeof doc, "<?xml version=\"1.0\" encoding=\"UTF-8\"?>\n<topology version=\"3.0\">\n"
      "<object type=\"Machine\" os_index=\"0\" cpuset=\"0x1\" complete_cpuset=\"0x1\" allowed_cpuset=\"0x1\" nodeset=\"0x1\" complete_nodeset=\"0x1\" allowed_nodeset=\"0x1\" gp_index=\"1\">\n"
      "<object type=\"NUMANode\" os_index=\"0\" cpuset=\"0x1\" complete_cpuset=\"0x1\" nodeset=\"0x1\" complete_nodeset=\"0x1\" gp_index=\"2\" local_memory=\"1024\"/>\n"
      "<object type=\"%s\" cpuset=\"0x1\" complete_cpuset=\"0x1\" nodeset=\"0x1\" complete_nodeset=\"0x1\" gp_index=\"3\" cache_size=\"1024\" depth=\"%d\" cache_linesize=\"64\" cache_associativity=\"1\" cache_type=\"%d\">\n"
      "<object type=\"PU\" os_index=\"0\" cpuset=\"0x1\" complete_cpuset=\"0x1\" nodeset=\"0x1\" complete_nodeset=\"0x1\" gp_index=\"4\"/>\n</object>\n</object>\n</topology>\n", tn, dep, cty);
    if (hwloc_topology_set_xmlbuffer(t, doc, dl + 1) < 0 || hwloc_topology_load(t) < 0) { hwloc_topology_destroy(t); return NULL; }
    cur_topo = t; snprintf(cur_spec, sizeof cur_spec, "%s", spec);
    return t;
  }
  /* 'b' specs: "<bridge_type value>,<0|1>" = a one-PU XML document with one Bridge carrying that bridge_type attribute (with the PCI
   * attributes of a PCI-to-PCI bridge when the flag is 1) above one PCI device: an invalid upstream/downstream pair must be refused by
   * the loader, or the Bridge must print a text that parses back to the very upstream type it holds (C11-r7) */
  if (spec[0] == 'b') {
    char bt[96]; int pci = 0; static char doc[3072];
    if (sscanf((char *) raw, "%95[^,],%d", bt, &pci) != 2) { hwloc_topology_destroy(t); return NULL; }
    int dl = snprintf(doc, sizeof doc, "<?xml version=\"1.0\" encoding=\"UTF-8\"?>\n<topology version=\"3.0\">\n"
      "<object type=\"Machine\" os_index=\"0\" cpuset=\"0x1\" complete_cpuset=\"0x1\" allowed_cpuset=\"0x1\" nodeset=\"0x1\" complete_nodeset=\"0x1\" allowed_nodeset=\"0x1\" gp_index=\"1\">\n"
      "<object type=\"NUMANode\" os_index=\"0\" cpuset=\"0x1\" complete_cpuset=\"0x1\" nodeset=\"0x1\" complete_nodeset=\"0x1\" gp_index=\"2\" local_memory=\"1024\"/>\n"
      "<object type=\"PU\" os_index=\"0\" cpuset=\"0x1\" complete_cpuset=\"0x1\" nodeset=\"0x1\" complete_nodeset=\"0x1\" gp_index=\"4\"/>\n"
      "<object type=\"Bridge\" gp_index=\"5\" bridge_type=\"%s\" depth=\"0\" bridge_pci=\"0000:[00-01]\"%s>\n"
      "<object type=\"PCIDev\" gp_index=\"6\" pci_busid=\"0000:01:00.0\" pci_type=\"0200 [8086:10d3] [0000:0000] 00 00\" pci_link_speed=\"0.000000\"/>\n"
      "</object>\n</object>\n</topology>\n", bt,
      pci ? " pci_busid=\"0000:00:01.0\" pci_type=\"0604 [8086:3c03] [0000:0000] 07 00\" pci_link_speed=\"0.000000\"" : "");
    if (hwloc_topology_set_xmlbuffer(t, doc, dl + 1) < 0 || hwloc_topology_load(t) < 0) { hwloc_topology_destroy(t); return NULL; }
    cur_topo = t; snprintf(cur_spec, sizeof cur_spec, "%s", spec);
    return t;
  }
  char *bar = spec[0] == 'g' ? strchr((char *) raw, '|') : NULL;
  if (bar) *bar++ = 0;
  int err = (spec[0] == 's' || spec[0] == 'g') ? hwloc_topology_set_synthetic(t, (char *) raw) : hwloc_topology_set_xml(t, (char *) raw);
  if (err < 0 || hwloc_topology_load(t) < 0) { hwloc_topology_destroy(t); return NULL; }
  for (char *c = bar; c && *c; ) {
    char *e = strchr(c, ','); if (e) *e++ = 0;
    hwloc_obj_t g = hwloc_topology_alloc_group_object(t);
    if (g) { g->cpuset = hwloc_bitmap_alloc(); hwloc_bitmap_sscanf(g->cpuset, c); hwloc_topology_insert_group_object(t, g); }
    c = e;
  }
  cur_topo = t; snprintf(cur_spec, sizeof cur_spec, "%s", spec);
  return t;
}

static const int special_depths[] = { HWLOC_TYPE_DEPTH_NUMANODE, HWLOC_TYPE_DEPTH_MEMCACHE, HWLOC_TYPE_DEPTH_BRIDGE,
                                      HWLOC_TYPE_DEPTH_PCI_DEVICE, HWLOC_TYPE_DEPTH_OS_DEVICE, HWLOC_TYPE_DEPTH_MISC };

/* ------------------------------------------------------------------ op execution */
static int exec_line(char *line) {
  char *tok[64]; int nt = 0; char *save = NULL;
  for (char *t = strtok_r(line, " \n", &save); t && nt < 64; t = strtok_r(NULL, " \n", &save)) tok[nt++] = t;
  if (!nt) return 0;
  const char *op = tok[0];
  if (!strcmp(op, "cmp") && nt == 3) {
    int r = hwloc_compare_types((hwloc_obj_type_t) atoi(tok[1]), (hwloc_obj_type_t) atoi(tok[2]));
    if (r == HWLOC_TYPE_UNORDERED) fprintf(fout, "V U\n"); else fprintf(fout, "V %d\n", r);
  } else if (!strcmp(op, "kind") && nt == 2) {
    hwloc_obj_type_t t = (hwloc_obj_type_t) strtoul(tok[1], 0, 10);
    fprintf(fout, "K %d %d %d %d %d %d\n", !!hwloc_obj_type_is_normal(t), !!hwloc_obj_type_is_memory(t), !!hwloc_obj_type_is_io(t),
            !!hwloc_obj_type_is_cache(t), !!hwloc_obj_type_is_dcache(t), !!hwloc_obj_type_is_icache(t));
  } else if (!strcmp(op, "tstr") && nt == 2) {
    const char *s = hwloc_obj_type_string((hwloc_obj_type_t) strtoul(tok[1], 0, 10));
    fprintf(fout, "S "); put_hex(fout, (const unsigned char *) s, strlen(s)); fputc('\n', fout);
  } else if (!strcmp(op, "ssc") && nt == 3) {
    unsigned char raw[600]; size_t n = get_hex(tok[2], raw, sizeof raw);
    int isnull = !strcmp(tok[1], "null");
    print_ssc(fout, raw, n, isnull, isnull ? 0 : strtoul(tok[1], 0, 10)); fputc('\n', fout);
  } else if (!strcmp(op, "tsn") && nt >= 3 + OD_FIXED) {
    struct od d; struct built b;
    if (get_od(tok + 3, nt - 3, &d) < 0) { fprintf(fout, "bad-op\n"); return 0; }
    build_obj(&b, &d);
    struct tsn_arg a = { &b.o, strtoul(tok[1], 0, 10), NULL };
    int isnull = !strcmp(tok[2], "null");
    exec_print(call_tsn, &a, isnull, isnull ? 0 : strtoul(tok[2], 0, 10));
  } else if (!strcmp(op, "asn") && nt >= 4 + OD_FIXED) {
    struct od d; struct built b; unsigned char sep[200];
    if (get_od(tok + 4, nt - 4, &d) < 0) { fprintf(fout, "bad-op\n"); return 0; }
    build_obj(&b, &d);
    size_t n = get_hex(tok[3], sep, sizeof sep - 1); sep[n] = 0;
    struct tsn_arg a = { &b.o, strtoul(tok[1], 0, 10), (char *) sep };
    int isnull = !strcmp(tok[2], "null");
    exec_print(call_asn, &a, isnull, isnull ? 0 : strtoul(tok[2], 0, 10));
  } else if ((!strcmp(op, "rt") || !strcmp(op, "rtl")) && nt >= 2 + OD_FIXED) {
    struct od d; struct built b; char text[512];
    if (get_od(tok + 2, nt - 2, &d) < 0) { fprintf(fout, "bad-op\n"); return 0; }
    build_obj(&b, &d);
    if (sigsetjmp(wd_env, 1)) { wd_disarm(); fprintf(fout, "T loops\n"); return 0; }
    wd_arm();
    hwloc_obj_type_snprintf(text, sizeof text, &b.o, strtoul(tok[1], 0, 10));
    wd_disarm();
    fprintf(fout, "T "); put_hex(fout, (unsigned char *) text, strlen(text)); fputc(' ', fout);
    print_ssc(fout, (unsigned char *) text, strlen(text), 0, sizeof(union hwloc_obj_attr_u));
    fprintf(fout, " match=%d\n", roundtrip_match(&d, text));
  } else if (!strcmp(op, "lvl") && nt >= 5 + OD_FIXED) {
    hwloc_topology_t t = load_topo(tok[1]);
    if (!t) { fprintf(fout, "L noload\n"); return 0; }
    int depth = atoi(tok[2]); unsigned long flags = strtoul(tok[4], 0, 10);
    unsigned n = hwloc_get_nbobjs_by_depth(t, depth);
    char first[512], text[512]; int same = n > 0;
    for (unsigned i = 0; i < n; i++) {
      hwloc_obj_t o = hwloc_get_obj_by_depth(t, depth, i);
      hwloc_obj_type_snprintf(i ? text : first, sizeof text, o, flags);
      if (i && strcmp(text, first)) same = 0;
    }
    if (same) { fprintf(fout, "L same "); put_hex(fout, (unsigned char *) first, strlen(first)); fputc('\n', fout); }
    else fprintf(fout, "L differ\n");
  } else fprintf(fout, "bad-op\n");
  return 0;
}

/* ------------------------------------------------------------------ generation */
static struct { const char *name; unsigned long n; } stats[64]; static int nstats;
static void stat_hit(const char *name) {
  for (int i = 0; i < nstats; i++) if (!strcmp(stats[i].name, name)) { stats[i].n++; return; }
  if (nstats < 64) { stats[nstats].name = name; stats[nstats].n = 1; nstats++; }
}
static unsigned long nemitted;

static const unsigned long flagset[] = { 0, 1, 2, 4, 8, 16, 32, 6, 5, 12, 9, 10, 24, 40, 48, 63, 3, 7, 14, 33, 34, 41 };
static unsigned long rnd_flags(void) {
  unsigned r = rng_below(100);
  if (r < 70) return flagset[rng_below(sizeof flagset / sizeof *flagset)];
  if (r < 95) return rng_below(64);
  return rng_next();            /* arbitrary high bits are ignored by the code */
}

static void emit_tsn(unsigned long flags, long size /* -1 = null */, struct od *d) {
  if (size < 0) fprintf(fops, "tsn %lu null ", flags); else fprintf(fops, "tsn %lu %ld ", flags, size);
  put_od(fops, d); fputc('\n', fops); nemitted++; stat_hit("tsn");
}
static void emit_asn(unsigned long flags, long size, const char *sep, struct od *d) {
  if (size < 0) fprintf(fops, "asn %lu null ", flags); else fprintf(fops, "asn %lu %ld ", flags, size);
  put_hex(fops, (const unsigned char *) sep, strlen(sep)); fputc(' ', fops);
  put_od(fops, d); fputc('\n', fops); nemitted++; stat_hit("asn");
}
/* `rtl` = the same round trip for an object OF A LOADED TOPOLOGY: the property demands that it parses back, whatever its attributes */
static int emitting_loaded;
static void emit_rt(unsigned long flags, struct od *d) {
  fprintf(fops, "%s %lu ", emitting_loaded ? "rtl" : "rt", flags); put_od(fops, d); fputc('\n', fops); nemitted++; stat_hit(emitting_loaded ? "rtl" : "rt");
}
static void emit_ssc(const unsigned char *s, size_t n, const char *mode) {
  for (size_t i = 0; i < n; i++) if (!s[i]) { n = i; break; }
  fprintf(fops, "ssc %s ", mode); put_hex(fops, s, n); fputc('\n', fops); nemitted++; stat_hit("ssc");
}

/* upper bound of the untruncated length, computed WITHOUT calling the function under test */
static long need_type(struct od *d) { return d->type == HWLOC_OBJ_OS_DEVICE ? 72 : 26; }
static long need_attr(struct od *d, const char *sep, unsigned long flags) {
  (void) flags;
  long n = 200 + 6 * (long) strlen(sep);
  for (unsigned i = 0; i < d->ninfo; i++) n += strlen(sep) + strlen(d->iname[i]) + strlen(d->ivalue[i]) + 3;
  return n;
}

static const char *seps[] = { " ", ",", ", ", "", "\n", " # ", "----------------", "0123456789012345678901234567890123456789" };
static const char *rnd_sep(void) { return seps[rng_below(rng_chance(85) ? 5 : 8)]; }

static const char *attr_modes[] = { "48", "null", "0", "7", "8", "15", "16", "23", "24", "43", "44", "47", "4096" };
static const char *rnd_mode(void) { return attr_modes[rng_chance(60) ? 0 : rng_below(13)]; }

static unsigned long long rnd_mem(void) {
  static const unsigned long long b[] = { 0, 1, 511, 512, 1023, 1024, 10ULL << 20, (10ULL << 20) - 1, 10ULL << 30, (10ULL << 30) - 1, 10ULL << 40,
    (10ULL << 40) - 1, 9999999, 10000000, 9999999999ULL, 10000000000ULL, 9999999999999ULL, 10000000000000ULL, ~0ULL, ~0ULL - 511, 1ULL << 63, 32768, 65536, 262144 };
  unsigned r = rng_below(100);
  if (r < 60) return b[rng_below(sizeof b / sizeof *b)];
  if (r < 80) return rng_next() >> rng_below(64);
  return (unsigned long long) rng_below(1 << 20) << rng_below(40);
}
static unsigned rnd_u32(void) {
  static const unsigned b[] = { 0, 1, 2, 3, 4, 5, 6, 9, 10, 99, 100, 4294967295u, 4294967294u, 2147483647u, 2147483648u, 1000000000u };
  return rng_chance(75) ? b[rng_below(16)] : (unsigned) (rng_next() >> rng_below(32));
}
static const char *words[] = { "Inclusive", "1", "Intel Xeon", "a b c", "", "x=y", "GPUVendor", "NVIDIA Corporation", "\"q\"", " ", "Backend", "Linux" };

static void rnd_infos(struct od *d) {
  d->ninfo = rng_chance(50) ? 0 : rng_below(MAXINFO + 1);
  for (unsigned i = 0; i < d->ninfo; i++) {
    strcpy(d->iname[i], words[rng_below(12)]);
    strcpy(d->ivalue[i], words[rng_below(12)]);
    /* no NUL, no whitespace-only surprises needed: any byte string is fine for the printer */
  }
}

static unsigned long rnd_ostypes(int allow_unknown) {
  unsigned r = rng_below(100);
  unsigned long w;
  if (r < 30) w = 1UL << rng_below(7);
  else if (r < 75) w = rng_below(128);
  else if (r < 80) w = 0;
  else w = rng_below(128) | (rng_next() & ~0x7fUL) >> rng_below(57);    /* unknown bits (the former F06 class) */
  if (!allow_unknown) w &= 0x7f;
  return w;
}

/* a harness-built object with arbitrary attribute values; consistent = reachable-through-load shape */
static void rnd_obj(struct od *d, int consistent) {
  memset(d, 0, sizeof *d);
  d->type = rng_below(HWLOC_OBJ_TYPE_MAX);
  if (!consistent && rng_chance(3)) d->type = HWLOC_OBJ_TYPE_MAX + rng_below(3);   /* default: branch of the switch */
  d->total = rng_chance(50) ? 0 : rnd_mem();
  hwloc_obj_type_t t = (hwloc_obj_type_t) d->type;
  if (hwloc_obj_type_is_cache(t) || t == HWLOC_OBJ_MEMCACHE) {
    if (consistent && t != HWLOC_OBJ_MEMCACHE) {
      if (hwloc_obj_type_is_icache(t)) { d->depth = t - HWLOC_OBJ_L1ICACHE + 1; d->ctype = HWLOC_OBJ_CACHE_INSTRUCTION; }
      else { d->depth = t - HWLOC_OBJ_L1CACHE + 1; d->ctype = rng_chance(50) ? HWLOC_OBJ_CACHE_UNIFIED : HWLOC_OBJ_CACHE_DATA; }
    } else { d->depth = rnd_u32(); d->ctype = rng_chance(80) ? rng_below(3) : rnd_u32(); }
    d->csize = rnd_mem(); d->linesize = rnd_u32();
    d->assoc = rng_chance(30) ? -1 : rng_chance(30) ? 0 : (int) rnd_u32();
  } else if (t == HWLOC_OBJ_GROUP) d->depth = rnd_u32();
  else if (t == HWLOC_OBJ_NUMANODE) d->local = rng_chance(25) ? 0 : rnd_mem();
  else if (t == HWLOC_OBJ_BRIDGE || t == HWLOC_OBJ_PCI_DEVICE) {
    d->pdomain = rng_chance(60) ? rng_below(4) : rnd_u32(); d->pbus = rng_below(256); d->pdev = rng_below(256); d->pfunc = rng_below(256);
    d->vendor = rng_below(65536); d->device = rng_below(65536);
    static const unsigned cls[] = { 0x0300, 0x0200, 0x0108, 0x0604, 0x0600, 0x0c03, 0x0001, 0x1200, 0xffff, 0x0000, 0x0207 };
    d->classid = rng_chance(70) ? cls[rng_below(11)] : rng_below(65536);
    static const float ls[] = { 0, 0.25f, 0.5f, 1.0f, 7.876923f, 15.753846f, 31.507692f, 0.005f, 1e10f, -1.5f, 3.4e38f };
    d->link = ls[rng_below(11)];
    if (t == HWLOC_OBJ_BRIDGE) {
      d->upstream = consistent || rng_chance(90) ? rng_below(2) : rnd_u32();
      d->ddomain = rng_chance(60) ? rng_below(4) : rnd_u32(); d->sec = rng_below(256); d->sub = rng_below(256);
      if (d->upstream != HWLOC_OBJ_BRIDGE_PCI && rng_chance(80)) { d->pdomain = d->pbus = d->pdev = d->pfunc = d->vendor = d->device = d->classid = 0; d->link = 0; }
      d->total = 0;
    }
    if (consistent || rng_chance(70)) d->total = 0;    /* I/O objects have no memory through load */
  } else if (t == HWLOC_OBJ_OS_DEVICE) d->ostypes = rnd_ostypes(!consistent);
  rnd_infos(d);
}

static void emit_obj_ops(struct od *d, int allsizes) {
  unsigned long flags = rnd_flags();
  const char *sep = rnd_sep();
  if (allsizes) {
    long nt_ = need_type(d), na = need_attr(d, sep, flags);
    for (long s = 0; s <= nt_ + 1; s++) emit_tsn(flags, s, d);
    if (na <= 420) for (long s = 0; s <= na + 1; s += (s < 70 || rng_chance(25)) ? 1 : 1 + rng_below(7)) emit_asn(flags, s, sep, d);
    emit_tsn(flags, -1, d); emit_asn(flags, -1, sep, d);
  } else {
    emit_tsn(flags, rng_chance(8) ? -1 : (long) rng_below(need_type(d) + 2), d);
    emit_asn(flags, rng_chance(8) ? -1 : (long) rng_below(need_attr(d, sep, flags) + 2), sep, d);
  }
  emit_rt(flags, d);
  if (rng_chance(50)) emit_rt(rnd_flags(), d);
}

/* ---- strings for hwloc_type_sscanf */
static const char *patterns[] = { "osdev[", "os[", "osdev", "storage", "block", "memory", "network", "ofed", "openfabrics", "dma", "gpu", "coproc",
  "co-processor", "machine", "numanode", "node", "memcache", "memory-side cache", "package", "socket", "die", "core", "pu", "misc", "bridge",
  "hostbridge", "pcibridge", "pcidev", "group", "cache", "l1", "l2i", "l3d", "l5u", "l1cache", "l2icache", "Mem", "Storage", "OFED", "OpenFabrics", "Net",
  "Network", "CoProc", "Co-Processor", "GPU", "DMA", "PCI", "OS", "Unknown", "L1Cache", "L3iCache", "NUMANode", "MemCache", "PCIDev", "OSDev", "HostBridge", "PCIBridge" };
#define NPAT (sizeof patterns / sizeof *patterns)
static const char *numbers[] = { "0", "1", "2", "3", "4", "5", "6", "9", "10", "007", "4294967295", "4294967296", "4294967297", "4294967301",
  "9223372036854775807", "9223372036854775808", "18446744073709551615", "18446744073709551617", "99999999999999999999999", "2147483648" };
static const char *tails[] = { "", ":2", "0", "12", "[", "]", ",", " ", "-", "x", "e", "\r", "\xe0", "\xe0z", "\xc3\xa9", "_", ".", "\t", "cache", "Cache", "i", "d", "u", "@" };

static size_t app(unsigned char *b, size_t n, const char *s) { size_t l = strlen(s); if (n + l > 500) return n; memcpy(b + n, s, l); return n + l; }
static void flipcase(unsigned char *b, size_t n, unsigned pct) {
  for (size_t i = 0; i < n; i++) if (rng_chance(pct)) { if (b[i] >= 'a' && b[i] <= 'z') b[i] -= 32; else if (b[i] >= 'A' && b[i] <= 'Z') b[i] += 32; }
}
static size_t gen_string(unsigned char *b) {
  size_t n = 0; unsigned k = rng_below(100);
  if (k < 30) {            /* pattern prefix of some length + tail */
    const char *p = patterns[rng_below(NPAT)]; size_t l = strlen(p);
    size_t take = rng_chance(40) ? l : rng_below(l + 1);
    memcpy(b, p, take); n = take; flipcase(b, n, rng_chance(50) ? 0 : 40);
    n = app(b, n, tails[rng_below(sizeof tails / sizeof *tails)]);
    if (rng_chance(20)) n = app(b, n, tails[rng_below(sizeof tails / sizeof *tails)]);
  } else if (k < 45) {     /* cache forms */
    b[n++] = rng_chance(50) ? 'L' : 'l';
    n = app(b, n, numbers[rng_below(rng_chance(70) ? 9 : 20)]);
    static const char *let[] = { "", "i", "d", "u", "I", "D", "U", "x", "c", "-" };
    n = app(b, n, let[rng_below(10)]);
    static const char *cs[] = { "", "cache", "Cache", "CACHE", "c", "cach", "cachex", "cache:1", "cache0", "cache\xe0q", "kache" };
    n = app(b, n, cs[rng_below(11)]);
  } else if (k < 55) {     /* group forms */
    static const char *g[] = { "group", "Group", "gr", "GROUP", "g", "grou", "groupe" };
    n = app(b, n, g[rng_below(7)]);
    if (rng_chance(80)) n = app(b, n, numbers[rng_below(20)]);
    if (rng_chance(30)) n = app(b, n, tails[rng_below(sizeof tails / sizeof *tails)]);
  } else if (k < 75) {     /* osdev[...] forms */
    static const char *pre[] = { "OSDev[", "OS[", "osdev[", "os[", "OSDEV[", "oS[", "OSDev", "OS", "osde[", "o[" };
    n = app(b, n, pre[rng_below(10)]);
    unsigned cnt = rng_below(5);
    for (unsigned i = 0; i < cnt; i++) {
      if (i) n = app(b, n, rng_chance(90) ? "," : rng_chance(50) ? ",," : " ,");
      const char *p = patterns[rng_chance(75) ? 36 + rng_below(10) : rng_below(NPAT)]; size_t l = strlen(p);
      size_t take = rng_chance(70) ? l : rng_below(l + 1);
      size_t st = n; if (n + take < 500) { memcpy(b + n, p, take); n += take; }
      flipcase(b + st, n - st, rng_chance(60) ? 0 : 40);
    }
    if (rng_chance(80)) n = app(b, n, "]");
    if (rng_chance(10)) n = app(b, n, tails[rng_below(sizeof tails / sizeof *tails)]);
  } else if (k < 90) {     /* mutate a well-formed string */
    const char *p = patterns[rng_below(NPAT)]; n = app(b, 0, p);
    if (rng_chance(30)) n = app(b, n, numbers[rng_below(20)]);
    unsigned muts = 1 + rng_below(3);
    for (unsigned m = 0; m < muts && n > 0; m++) {
      unsigned pos = rng_below((unsigned) n), how = rng_below(4);
      static const unsigned char inj[] = { 0xe0, '-', '\r', ' ', '[', ']', ',', '0', 'A', 'z', 0x80, 0xff, 0x0d, 0x01, '{', '`', '@', '/' , ':' };
      if (how == 0) { memmove(b + pos, b + pos + 1, n - pos - 1); n--; }
      else if (how == 1 && n < 400) { memmove(b + pos + 1, b + pos, n - pos); b[pos] = inj[rng_below(sizeof inj)]; n++; }
      else if (how == 2) b[pos] = inj[rng_below(sizeof inj)];
      else if (pos + 1 < n) { unsigned char c = b[pos]; b[pos] = b[pos + 1]; b[pos + 1] = c; }
    }
  } else {                 /* raw bytes */
    n = rng_below(13);
    for (size_t i = 0; i < n; i++) b[i] = 1 + rng_below(255);
  }
  return n;
}

static void put_spec(char *out, size_t cap, char kind, const char *raw) {
  size_t n = 0; out[n++] = kind; out[n++] = 'x';
  for (const char *p = raw; *p && n + 3 < cap; p++) n += sprintf(out + n, "%02x", (unsigned char) *p);
  out[n] = 0;
}

/* printing-relevant key of an object (what hwloc_obj_type_snprintf reads) */
static int same_key(struct od *a, struct od *b) {
  if (a->type != b->type) return 0;
  hwloc_obj_type_t t = (hwloc_obj_type_t) a->type;
  if (hwloc_obj_type_is_cache(t)) return a->depth == b->depth && a->ctype == b->ctype;
  if (t == HWLOC_OBJ_GROUP) return a->depth == b->depth;
  if (t == HWLOC_OBJ_BRIDGE) return (a->upstream == HWLOC_OBJ_BRIDGE_PCI) == (b->upstream == HWLOC_OBJ_BRIDGE_PCI);
  if (t == HWLOC_OBJ_OS_DEVICE) return a->ostypes == b->ostypes;
  return 1;
}

static void gen_topology(const char *spec, unsigned budget) {
  hwloc_topology_t t = load_topo(spec);
  if (!t) { stat_hit("topo_noload"); return; }
  stat_hit("topo_loaded");
  int nl = hwloc_topology_get_depth(t);
  for (int li = 0; li < nl + 6; li++) {
    int depth = li < nl ? li : special_depths[li - nl];
    unsigned n = hwloc_get_nbobjs_by_depth(t, depth);
    if (!n) continue;
    struct od first, d; int homog = 1;
    od_from_obj(&first, hwloc_get_obj_by_depth(t, depth, 0));
    for (unsigned i = 1; i < n; i++) { od_from_obj(&d, hwloc_get_obj_by_depth(t, depth, i)); if (!same_key(&first, &d)) homog = 0; }
    if (homog) {
      unsigned long flags = rnd_flags();
      fprintf(fops, "lvl %s %d %u %lu ", spec, depth, n, flags); put_od(fops, &first); fputc('\n', fops); nemitted++;
      stat_hit(li < nl ? "lvl_normal" : "lvl_special");
    } else if (li < nl && !(hwloc_obj_type_is_cache((hwloc_obj_type_t) first.type) && !getenv("VERIF_C11_INCLUDE_F11"))) {
      /* a NORMAL level whose objects differ in what the printer reads: the property says they print the same text, so the op is
       * emitted with the first object and the C side answers "L diff" (only cache levels mixing cache types, known finding F11,
       * stay out) */
      unsigned long flags = rnd_flags();
      fprintf(fops, "lvl %s %d %u %lu ", spec, depth, n, flags); put_od(fops, &first); fputc('\n', fops); nemitted++;
      stat_hit("lvl_hetero_normal_emitted");
    } else stat_hit(li < nl ? "lvl_hetero_cache_level_F11_skipped" : "lvl_hetero_special_skipped");
    unsigned per = budget / (unsigned) (nl + 6) + 1;
    for (unsigned k = 0; k < per && k < n; k++) {
      hwloc_obj_t o = hwloc_get_obj_by_depth(t, depth, n <= per ? k : rng_below(n));
      od_from_obj(&d, o);
      if (d.type == HWLOC_OBJ_OS_DEVICE && (d.ostypes & (d.ostypes - 1))) stat_hit("loaded_osdev_multibit");
      if (d.type == HWLOC_OBJ_OS_DEVICE) stat_hit("loaded_osdev");
      if (d.type == HWLOC_OBJ_BRIDGE) stat_hit("loaded_bridge");
      emitting_loaded = 1; emit_obj_ops(&d, rng_chance(10)); emitting_loaded = 0;
    }
  }
}

static const char *synth[] = {
  "pack:2 l3:1 l2:2 l1d:1 l1i:1 core:1 pu:2", "numa:2 pack:2 core:4 pu:2", "group:2 group:3 pu:2", "pack:2 die:2 l2:2 core:2 pu:1",
  "pack:1 numa:2 l5:1 l4:1 l3:2 l3i:1 l2:1 l2i:1 l1:1 l1i:1 core:1 pu:1", "group:2 numa:2 group:2 core:2 pu:2", "pu:1",
  "pack:2 [numa(memory=1GB)] [numa(memory=4GB)] l3:2 core:2 pu:2", "numa:2(memory=16777216) pack:1 l2:2 core:2 pu:1", "pack:3 group:2 l1i:2 pu:3",
};

static void gen_part0(void) {
  /* exhaustive finite parts */
  for (int a = 0; a < HWLOC_OBJ_TYPE_MAX; a++) for (int b = 0; b < HWLOC_OBJ_TYPE_MAX; b++) { fprintf(fops, "cmp %d %d\n", a, b); nemitted++; }
  for (int a = 0; a < 2 * HWLOC_OBJ_TYPE_MAX + 2; a++) { fprintf(fops, "kind %d\n", a); fprintf(fops, "tstr %d\n", a); nemitted += 2; }
  fprintf(fops, "kind 4294967295\ntstr 4294967295\n"); nemitted += 2;
  stat_hit("cmp_kind_tstr_exhaustive");
  /* every type x every low flag word x every size 0..need+1, plain consistent attributes */
  struct od d;
  for (unsigned t = 0; t < HWLOC_OBJ_TYPE_MAX; t++) {
    for (unsigned variant = 0; variant < 3; variant++) {
      memset(&d, 0, sizeof d); d.type = t;
      hwloc_obj_type_t ty = (hwloc_obj_type_t) t;
      if (hwloc_obj_type_is_icache(ty)) { if (variant) continue; d.depth = t - HWLOC_OBJ_L1ICACHE + 1; d.ctype = HWLOC_OBJ_CACHE_INSTRUCTION; }
      else if (hwloc_obj_type_is_cache(ty)) { if (variant > 1) continue; d.depth = t - HWLOC_OBJ_L1CACHE + 1; d.ctype = variant ? HWLOC_OBJ_CACHE_DATA : HWLOC_OBJ_CACHE_UNIFIED; }
      else if (ty == HWLOC_OBJ_GROUP) d.depth = variant == 0 ? 0 : variant == 1 ? 4294967295u : 4294967294u;
      else if (ty == HWLOC_OBJ_BRIDGE) { if (variant > 1) continue; d.upstream = variant; }
      else if (variant) continue;
      if (ty != HWLOC_OBJ_OS_DEVICE) {
        for (unsigned long f = 0; f < 64; f++) {
          emit_rt(f, &d);
          if (f < 8) for (long s = 0; s <= 14; s++) emit_tsn(f, s, &d);
          emit_tsn(f, -1, &d);
        }
      }
    }
  }
  /* all 128 subsets of the OS-device bits, all name modes, all sizes */
  for (unsigned long w = 0; w < 128; w++) {
    memset(&d, 0, sizeof d); d.type = HWLOC_OBJ_OS_DEVICE; d.ostypes = w;
    static const unsigned long fl[] = { 0, 2, 4, 6, 1, 5 };
    for (unsigned i = 0; i < 6; i++) {
      emit_rt(fl[i], &d);
      emit_tsn(fl[i], 100, &d);
      if (i < 4 && (w < 16 || (w & (w - 1)) == 0 || w == 127 || w % 7 == 0)) for (long s = 0; s <= 72; s++) emit_tsn(fl[i], s, &d);
    }
  }
  /* every chain pattern at every prefix length, three case variants, a few tails */
  unsigned char b[600];
  for (unsigned p = 0; p < NPAT; p++) {
    size_t l = strlen(patterns[p]);
    for (size_t take = 0; take <= l; take++) for (unsigned cv = 0; cv < 3; cv++) for (unsigned tl = 0; tl < sizeof tails / sizeof *tails; tl++) {
      memcpy(b, patterns[p], take);
      for (size_t i = 0; i < take; i++) if (cv == 1 && b[i] >= 'a' && b[i] <= 'z') b[i] -= 32; else if (cv == 2 && b[i] >= 'A' && b[i] <= 'Z') b[i] += 32;
      size_t n = app(b, take, tails[tl]);
      emit_ssc(b, n, tl % 5 == 0 ? attr_modes[(p + take) % 13] : "48");
    }
  }
  for (unsigned i = 0; i < 20; i++) for (unsigned j = 0; j < 4; j++) {
    static const char *pre[] = { "L", "l", "Group", "gr" };
    size_t n = app(b, 0, pre[j]); n = app(b, n, numbers[i]);
    emit_ssc(b, n, "48");
    size_t m = app(b, n, "i"); emit_ssc(b, m, "48"); m = app(b, n, "dCache"); emit_ssc(b, m, "48"); m = app(b, n, "u"); emit_ssc(b, m, "24");
  }
}

static void gen_random(unsigned long nops, unsigned part) {
  unsigned char b[600];
  /* topologies first: synthetic in every part, the XML corpus spread over the parts */
  char spec[1100];
  put_spec(spec, sizeof spec, 's', synth[part % (sizeof synth / sizeof *synth)]);
  gen_topology(spec, 150);
  /* topologies modified after load: nested Groups inserted in random order (several Group levels, later Groups joining an
   * existing level at any position) */
  for (unsigned gt = 0; gt < 3; gt++) {
    static const char *bases[] = { "pu:16", "pack:2 core:4 pu:2", "numa:2 pu:8", "pack:4 pu:4" };
    char rawspec[400]; size_t n = (size_t) snprintf(rawspec, sizeof rawspec, "%s|", bases[rng_below(4)]);
    unsigned ng = 3 + rng_below(5);
    for (unsigned k = 0; k < ng && n + 16 < sizeof rawspec; k++) {
      unsigned len = 2u << rng_below(3), a = rng_below(16 / len) * len;      /* aligned ranges of 2, 4 or 8 PUs among 16 */
      n += (size_t) snprintf(rawspec + n, sizeof rawspec - n, "%s0x%x", k ? "," : "", ((1u << len) - 1) << a);
    }
    put_spec(spec, sizeof spec, 'g', rawspec);
    gen_topology(spec, 60);
    stat_hit("topo_with_inserted_groups");
  }
  /* cache catalogue: every cache type name x depth 0..6 x cache type 0..3, spread over the parts */
  { static const char *cn[] = { "L1Cache", "L2Cache", "L3Cache", "L4Cache", "L5Cache", "L1iCache", "L2iCache", "L3iCache" };
    unsigned k = 0;
    for (unsigned a = 0; a < 8; a++) for (int dep = 0; dep <= 6; dep++) for (int cty = 0; cty <= 3; cty++, k++) {
      if (k % 6 != part % 6) continue;
      char rawspec[96]; snprintf(rawspec, sizeof rawspec, "%s,%d,%d", cn[a], dep, cty);
      put_spec(spec, sizeof spec, 'c', rawspec);
      gen_topology(spec, 8);
      stat_hit("cache_catalogue_docs");
    } }
  /* bridge catalogue: upstream x downstream type numbers (valid, out of range, negative, beyond int / unsigned), with and without the
   * PCI attributes, spread over the parts */
  { static const char *up[] = { "0", "1", "2", "3", "-1", "-2", "4294967295", "2147483648", "4294967296", "99999999999999999999", "+0", " 1", "0x1", "" };
    static const char *down[] = { "1", "0", "2", "-1", "4294967297" };
    unsigned k = 0;
    for (unsigned a = 0; a < sizeof up / sizeof *up; a++) for (unsigned b = 0; b < sizeof down / sizeof *down; b++) for (int pci = 0; pci <= 1; pci++, k++) {
      if (k % 6 != part % 6) continue;
      char rawspec[128]; snprintf(rawspec, sizeof rawspec, "%s-%s,%d", up[a], down[b], pci);
      put_spec(spec, sizeof spec, 'b', rawspec);
      gen_topology(spec, 8);
      stat_hit("bridge_catalogue_docs");
    } }
  const char *dir = getenv("VERIF_XMLDIR");
  if (dir) {
    struct dirent **nl; int n = scandir(dir, &nl, NULL, alphasort);
    int seen = 0;
    for (int i = 0; i < n; i++) {
      size_t l = strlen(nl[i]->d_name);
      if (l > 4 && !strcmp(nl[i]->d_name + l - 4, ".xml")) {
        if ((unsigned) seen % 6 == part % 6) {
          char path[900]; snprintf(path, sizeof path, "%s/%s", dir, nl[i]->d_name);
          put_spec(spec, sizeof spec, 'f', path);
          gen_topology(spec, 120);
        }
        seen++;
      }
      free(nl[i]);
    }
    if (n >= 0) free(nl);
  }
  while (nemitted < nops) {
    unsigned k = rng_below(100);
    if (k < 45) { size_t n = gen_string(b); emit_ssc(b, n, rnd_mode()); }
    else if (k < 90) { struct od d; rnd_obj(&d, rng_chance(50)); emit_obj_ops(&d, rng_chance(4)); }
    else { fprintf(fops, "kind %u\n", rnd_u32()); nemitted++; }
  }
}

int main(int argc, char **argv) {
  signal(SIGVTALRM, wd_fire);
  if (argc >= 4 && !strcmp(argv[1], "--replay")) {
    FILE *in = fopen(argv[2], "r"); fout = fopen(argv[3], "w");
    if (!in || !fout) return 2;
    static char line[8192];
    while (fgets(line, sizeof line, in)) { exec_line(line); fflush(fout); }
    fclose(in); fclose(fout);
    if (cur_topo) hwloc_topology_destroy(cur_topo);
    return 0;
  }
  if (argc >= 6 && !strcmp(argv[1], "gen")) {
    unsigned long nops = strtoul(argv[2], NULL, 10);
    fops = fopen(argv[3], "w");
    if (!fops) return 2;
    unsigned part = (unsigned) strtoul(argv[5], NULL, 10);
    rng_seed(rng_seed_from_env());
    if (part == 0) gen_part0(); else gen_random(nops, part);
    fclose(fops);
    FILE *fs = fopen(argv[4], "w");
    if (fs) { for (int i = 0; i < nstats; i++) fprintf(fs, "%s %lu\n", stats[i].name, stats[i].n); fclose(fs); }
    if (cur_topo) hwloc_topology_destroy(cur_topo);
    return 0;
  }
  fprintf(stderr, "usage: typestr gen <nops> <ops> <stats> <part> | typestr --replay <ops> <out>\n");
  return 2;
}
