/- Driver.CpuKinds — line protocol for the `cpukinds` engine (C15).

   env <strategy>                         select HWLOC_CPUKINDS_RANKING (dflt = unset)          -> ok
   init <roothex>                         fresh topology with that root cpuset                  -> obs
   reg <cs|NULL> <forced> <flags> name=value ...   hwloc_cpukinds_register                      -> rc=.. stalehit=.. obs
   regskip <same args>                    not executed (stale-slot defect class)                -> skipped stalehit=..
   ireg <cs> <forced> <flags> name=value ...       hwloc_internal_cpukinds_register (no ranking) -> rc=.. stalehit=.. obs
   iregskip <same args>                   not executed (stale-slot defect class)                -> skipped stalehit=..
   restrict <sethex> | dup | xml | refresh                                                      -> rc=.. obs
   by <cs|NULL> <flags> | nr <flags> | info <id> <flags>                                        -> r=..
-/
import Hw.Attr.CpuKinds
import Driver.Util
namespace Driver.CpuKindsEng
open Hw Hw.CpuKinds Driver

structure DState where
  strat : Strategy := .dflt
  st : State := {}

def init : DState := {}

def errStr : Err → String
  | .ok => "ok" | .einval => "EINVAL" | .enoent => "ENOENT" | .exdev => "EXDEV"

def resStr : Res → String
  | .idx i => toString i
  | .err e => errStr e

/-- `dflt` stands for "variable unset"; anything else is the value of HWLOC_CPUKINDS_RANKING -/
def parseStrategy (s : String) : Strategy := parseEnv (if s = "dflt" then none else some s)

def parseCs (s : String) : Option (Option Nat) :=
  if s = "NULL" then some none else (parseHex s).map some

def parseInfo (s : String) : Option Info :=
  match s.splitOn "=" with
  | n :: v :: rest => if n.isEmpty then none else some (n, "=".intercalate (v :: rest))
  | _ => none

def showInfos (l : List Info) : String :=
  " i=" ++ toString l.length ++ l.foldl (fun s p => s ++ " " ++ p.1 ++ "=" ++ p.2) ""

def showKind (k : Kind) : String :=
  " | " ++ toHex k.cpuset ++ " e=" ++ toString k.eff ++ " f=" ++ toString k.forced ++ showInfos k.infos

def b01 (b : Bool) : String := if b then "1" else "0"

def stripZeros (l : List Bool) : List Bool := (l.reverse.dropWhile (· == false)).reverse

def showObs (st : State) : String :=
  "nr=" ++ toString st.kinds.length ++ " root=" ++ toHex st.root ++
    st.kinds.foldl (fun s k => s ++ showKind k) "" ++
    " ;; alloc=" ++ toString st.alloc ++ " stale=" ++
    ",".intercalate ((stripZeros st.stale).map b01)

def step (d : DState) (line : String) : DState × String :=
  let bad := (d, "bad-op")
  match tokens line with
  | ["env", s] => ({ d with strat := parseStrategy s }, "ok")
  | ["init", r] => match parseHex r with
      | some r => let st : State := { root := r }; ({ d with st := st }, showObs st)
      | none => bad
  | "reg" :: cs :: f :: fl :: infos => match parseCs cs, parseInt f, parseNat fl, infos.mapM parseInfo with
      | some cs, some f, some fl, some infos =>
        let hit := match cs with
          | some c => fl == 0 && c != 0 && staleHit d.st c (if f < 0 then -1 else f) infos true
          | none => false
        let (st', e) := register d.strat d.st cs f infos fl
        ({ d with st := st' }, "rc=" ++ errStr e ++ " stalehit=" ++ b01 hit ++ " " ++ showObs st')
      | _, _, _, _ => bad
  | "regskip" :: cs :: f :: fl :: infos => match parseCs cs, parseInt f, parseNat fl, infos.mapM parseInfo with
      | some (some c), some f, some fl, some infos =>
        let hit := fl == 0 && c != 0 && staleHit d.st c (if f < 0 then -1 else f) infos true
        (d, "skipped stalehit=" ++ b01 hit)
      | _, _, _, _ => bad
  | "ireg" :: cs :: f :: fl :: infos => match parseCs cs, parseInt f, parseNat fl, infos.mapM parseInfo with
      | some (some c), some f, some fl, some infos =>
        let hit := c != 0 && fl / 2 == 0 && staleHit d.st c f infos (fl % 2 == 1)
        let (st', e) := internalRegister d.st c f infos fl
        ({ d with st := st' }, "rc=" ++ errStr e ++ " stalehit=" ++ b01 hit ++ " " ++ showObs st')
      | _, _, _, _ => bad
  | "iregskip" :: cs :: f :: fl :: infos => match parseCs cs, parseInt f, parseNat fl, infos.mapM parseInfo with
      | some (some c), some f, some fl, some infos =>
        let hit := c != 0 && fl / 2 == 0 && staleHit d.st c f infos (fl % 2 == 1)
        (d, "skipped stalehit=" ++ b01 hit)
      | _, _, _, _ => bad
  | ["restrict", s] => match parseHex s with
      | some s => let (st', e) := restrict d.strat d.st s
                  ({ d with st := st' }, "rc=" ++ errStr e ++ " " ++ showObs st')
      | none => bad
  | ["dup"] => let st' := dup d.st; ({ d with st := st' }, "rc=ok " ++ showObs st')
  | ["xml"] => let st' := xmlReload d.strat d.st; ({ d with st := st' }, "rc=ok " ++ showObs st')
  | ["refresh"] => let st' := refresh d.strat d.st; ({ d with st := st' }, "rc=ok " ++ showObs st')
  | ["by", cs, fl] => match parseCs cs, parseNat fl with
      | some cs, some fl => (d, "r=" ++ resStr (getByCpuset d.st cs fl))
      | _, _ => bad
  | ["nr", fl] => match parseNat fl with
      | some fl => (d, "r=" ++ resStr (getNr d.st fl))
      | none => bad
  | ["info", id, fl] => match parseNat id, parseNat fl with
      | some id, some fl => match getInfo d.st id fl with
        | .ok k => (d, "r=ok" ++ " " ++ toHex k.cpuset ++ " e=" ++ toString k.eff ++ showInfos k.infos)
        | .error e => (d, "r=" ++ errStr e)
      | _, _ => bad
  | _ => bad

end Driver.CpuKindsEng
