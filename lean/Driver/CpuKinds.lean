/- Driver.CpuKinds — line protocol for the `cpukinds` engine (C15).

   env <strategy>                         select HWLOC_CPUKINDS_RANKING (dflt = unset)          -> ok
   init <roothex>                         fresh topology with that root cpuset                  -> obs
   initd <roothex>                        same, loaded with HWLOC_TOPOLOGY_FLAG_INCLUDE_DISALLOWED -> obs
   allow <cs|NULL> <flags>                hwloc_topology_allow(topology, cs, NULL, flags)       -> rc=.. obs
   reg <cs|NULL> <forced> <flags> name=value ...   hwloc_cpukinds_register                      -> rc=.. stalehit=.. obs
   regskip <same args>                    not executed (stale-slot defect class)                -> skipped stalehit=..
   ireg <cs> <forced> <flags> name=value ...       hwloc_internal_cpukinds_register (no ranking) -> rc=.. stalehit=.. obs
   iregskip <same args>                   not executed (stale-slot defect class)                -> skipped stalehit=..
   restrict <sethex> | dup | xml | refresh                                                      -> rc=.. obs
                                          (restrict: EINVAL iff the set misses the ALLOWED cpuset; kinds are cut by the
                                           new ROOT cpuset, Hw.Attr.CpuKindsAllowed)
   by <cs|NULL> <flags> | nr <flags> | info <id> <flags>                                        -> r=..

   rawset <idx> <forced> <eff> | rawswap <i> <j> | rawrank      private writes into the array / direct rank   -> rc=.. obs

   A7: `env` may occur anywhere (the harness does the setenv, the C code calls getenv in every rank).  The driver tracks the
   strategy of the last call that ranked the array (`tagStep` / `ranks` of Hw.Attr.CpuKindsStrategies) and appends
   " SPEC-VIOLATION.." to an observation whose array is not `Ranked` w.r.t. that strategy or whose last-pair info summaries
   differ from the fold summaries (`specOK`; both are theorems, so the marker never appears unless model, driver and
   theorems drift apart; the C side never prints it).  After an `ireg` (internal registration, no ranking) the check is
   suspended until the next call that ranks.
-/
import Hw.Attr.CpuKindsAllowed
import Hw.Attr.CpuKindsStrategies
import Driver.Util
namespace Driver.CpuKindsEng
open Hw Hw.CpuKinds Driver

structure DState where
  strat : Strategy := .dflt
  t : TState := {}
  tag : Strategy := .dflt      -- strategy in force at the last call that ranked the array
  dirty : Bool := false        -- an `ireg` appended kinds without ranking

def DState.st (d : DState) : State := d.t.st
def DState.setSt (d : DState) (st : State) : DState := { d with t := { d.t with st := st } }

def init : DState := {}

def errStr : Err → String
  | .ok => "ok" | .einval => "EINVAL" | .enoent => "ENOENT" | .exdev => "EXDEV"

def resStr : Res → String
  | .idx i => toString i
  | .err e => errStr e

/-- `dflt` stands for "variable unset"; anything else is the value of HWLOC_CPUKINDS_RANKING -/
def parseStrategy (s : String) : Strategy := parseEnv (if s = "dflt" then none else some s)

def parseCs (s : String) : Option (Option Nat) :=
  if s = "NULL" then some none else (parseHex s).map some

def parseInfo (s : String) : Option Info :=
  match s.splitOn "=" with
  | n :: v :: rest => if n.isEmpty then none else some (n, "=".intercalate (v :: rest))
  | _ => none

def showInfos (l : List Info) : String :=
  " i=" ++ toString l.length ++ l.foldl (fun s p => s ++ " " ++ p.1 ++ "=" ++ p.2) ""

def showKind (k : Kind) : String :=
  " | " ++ toHex k.cpuset ++ " e=" ++ toString k.eff ++ " f=" ++ toString k.forced ++ showInfos k.infos

def b01 (b : Bool) : String := if b then "1" else "0"

def stripZeros (l : List Bool) : List Bool := (l.reverse.dropWhile (· == false)).reverse

def showObs (t : TState) : String :=
  let st := t.st
  "nr=" ++ toString st.kinds.length ++ " root=" ++ toHex st.root ++
    " allowed=" ++ toHex t.allowed ++ " dis=" ++ b01 t.inclDis ++
    st.kinds.foldl (fun s k => s ++ showKind k) "" ++
    " ;; alloc=" ++ toString st.alloc ++ " stale=" ++
    ",".intercalate ((stripZeros st.stale).map b01)

/-- the spec cross-check appended to every observation of a state-changing call -/
def fin (d : DState) (out : String) : DState × String :=
  (d, if d.dirty || specOK d.tag d.t.st.kinds then out
      else out ++ " SPEC-VIOLATION:not-ranked-under-" ++ toString (repr d.tag))

/-- bookkeeping after a public call `op` that ran under the strategy in force -/
def DState.after (d : DState) (op : Op) (st' : State) : DState :=
  { (d.setSt st') with tag := tagStep d.st d.tag (d.strat, op), dirty := d.dirty && !(ranks d.st (d.strat, op)) }

def step (d : DState) (line : String) : DState × String :=
  let bad := (d, "bad-op")
  match tokens line with
  | ["env", s] => ({ d with strat := parseStrategy s }, "ok")
  | ["init", r] => match parseHex r with
      | some r => let t := tinit r false; ({ d with t := t, tag := .dflt, dirty := false }, showObs t)
      | none => bad
  | ["initd", r] => match parseHex r with
      | some r => let t := tinit r true; ({ d with t := t, tag := .dflt, dirty := false }, showObs t)
      | none => bad
  | ["allow", cs, fl] => match parseCs cs, parseNat fl with
      | some cs, some fl => let (t', e) := allow d.t cs fl
                            ({ d with t := t' }, "rc=" ++ errStr e ++ " " ++ showObs t')
      | _, _ => bad
  | "reg" :: cs :: f :: fl :: infos => match parseCs cs, parseInt f, parseNat fl, infos.mapM parseInfo with
      | some cs, some f, some fl, some infos =>
        let hit := match cs with
          | some c => fl == 0 && c != 0 && staleHit d.st c (if f < 0 then -1 else f) infos true
          | none => false
        let (st', e) := register d.strat d.st cs f infos fl
        let d' := d.after (.register cs f infos fl) st'
        fin d' ("rc=" ++ errStr e ++ " stalehit=" ++ b01 hit ++ " " ++ showObs d'.t)
      | _, _, _, _ => bad
  | "regskip" :: cs :: f :: fl :: infos => match parseCs cs, parseInt f, parseNat fl, infos.mapM parseInfo with
      | some (some c), some f, some fl, some infos =>
        let hit := fl == 0 && c != 0 && staleHit d.st c (if f < 0 then -1 else f) infos true
        (d, "skipped stalehit=" ++ b01 hit)
      | _, _, _, _ => bad
  | "ireg" :: cs :: f :: fl :: infos => match parseCs cs, parseInt f, parseNat fl, infos.mapM parseInfo with
      | some (some c), some f, some fl, some infos =>
        let hit := c != 0 && fl / 2 == 0 && staleHit d.st c f infos (fl % 2 == 1)
        let (st', e) := internalRegister d.st c f infos fl
        let d' := { (d.setSt st') with dirty := d.dirty || decide (e = .ok) }
        (d', "rc=" ++ errStr e ++ " stalehit=" ++ b01 hit ++ " " ++ showObs d'.t)
      | _, _, _, _ => bad
  | "iregskip" :: cs :: f :: fl :: infos => match parseCs cs, parseInt f, parseNat fl, infos.mapM parseInfo with
      | some (some c), some f, some fl, some infos =>
        let hit := c != 0 && fl / 2 == 0 && staleHit d.st c f infos (fl % 2 == 1)
        (d, "skipped stalehit=" ++ b01 hit)
      | _, _, _, _ => bad
  | ["restrict", s] => match parseHex s with
      | some s => let (t', e) := restrictT d.strat d.t s
                  -- `ranks` of a restrict = "a kind disappeared" (restrictT refuses more sets than `restrict`: compare lengths)
                  let rk := decide (t'.st.kinds.length < d.st.kinds.length)
                  fin { d with t := t', tag := if rk then d.strat else d.tag, dirty := d.dirty && !rk }
                    ("rc=" ++ errStr e ++ " " ++ showObs t')
      | none => bad
  | ["dup"] => let d' := d.after .dup (dup d.st); fin d' ("rc=ok " ++ showObs d'.t)
  | ["xml"] => let d' := d.after .xml (xmlReload d.strat d.st); fin d' ("rc=ok " ++ showObs d'.t)
  | ["xmlv2"] => let d' := d.after .xml (xmlReload d.strat d.st); fin d' ("rc=ok " ++ showObs d'.t)     -- same transfer through the v2 format
  | ["refresh"] => let d' := d.after .refresh (refresh d.strat d.st); fin d' ("rc=ok " ++ showObs d'.t)
  | ["rawset", idx, f, e] => match parseNat idx, parseInt f, parseInt e with
      | some idx, some f, some e =>
        let (st', r) := rawSet d.st idx f e
        let d' := { (d.setSt st') with dirty := d.dirty || decide (r = .ok) }
        (d', "rc=" ++ errStr r ++ " " ++ showObs d'.t)
      | _, _, _ => bad
  | ["rawswap", i, j] => match parseNat i, parseNat j with
      | some i, some j =>
        let (st', r) := rawSwap d.st i j
        let d' := { (d.setSt st') with dirty := d.dirty || decide (r = .ok) }
        (d', "rc=" ++ errStr r ++ " " ++ showObs d'.t)
      | _, _ => bad
  | ["rawrank"] => let d' := d.after .refresh (rawRank d.strat d.st); fin d' ("rc=ok " ++ showObs d'.t)
  | ["by", cs, fl] => match parseCs cs, parseNat fl with
      | some cs, some fl => (d, "r=" ++ resStr (getByCpuset d.st cs fl))
      | _, _ => bad
  | ["nr", fl] => match parseNat fl with
      | some fl => (d, "r=" ++ resStr (getNr d.st fl))
      | none => bad
  | ["info", id, fl] => match parseNat id, parseNat fl with
      | some id, some fl => match getInfo d.st id fl with
        | .ok k => (d, "r=ok" ++ " " ++ toHex k.cpuset ++ " e=" ++ toString k.eff ++ showInfos k.infos)
        | .error e => (d, "r=" ++ errStr e)
      | _, _ => bad
  | _ => bad

end Driver.CpuKindsEng
