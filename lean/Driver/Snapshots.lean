/- Driver.Snapshots — the `snapshots` engine (C18): dump blocks (harness/dump.h) judged by the proved
   well-formedness oracle, and relation lines judged by the proved relation checkers.

     TOPO … / O … / L … / TD …     "."          (block being assembled)
     END <tag>                     "WF ok" | "WF FAIL <clauses>"      (the dump is remembered under <tag>)
     REL same|disallowed|xml t1 t2 "<rel> ok" | "<rel> FAIL <clauses>" | "<rel> FAIL unknown-tag"
     CLEAR                         "."          (forget the remembered dumps)
     ENUM …                        "ENUM ok" | "ENUM MISMATCH" -/
import Hw.Topo.Relations
import Driver.Topo
namespace Driver.SnapshotsEng
open Hw.Topo Driver

structure St where
  part : TopoEng.Partial := {}
  dumps : List (String × Dump) := []

def verdict (name : String) (v : List String) : String :=
  if v.isEmpty then name ++ " ok" else name ++ " FAIL " ++ ",".intercalate (v.take 6)

def step (s : St) (line : String) : St × String :=
  let t := tokens line
  match t with
  | "ENUM" :: _ => (s, if (" ".intercalate t) = TopoEng.enumLine then "ENUM ok" else "ENUM MISMATCH (model constants differ from hwloc_obj_type_t)")
  | ["CLEAR"] => ({ s with dumps := [] }, ".")
  | ["REL", rel, t1, t2] =>
    match s.dumps.lookup t1, s.dumps.lookup t2 with
    | some a, some b =>
      match rel with
      | "same" => (s, verdict "same" (sameCheck a b))
      | "disallowed" => (s, verdict "disallowed" (disallowedCheck a b))
      | "xml" => (s, verdict "xml" (xmlCheck a b))
      | _ => (s, "bad-op")
    | _, _ => (s, rel ++ " FAIL unknown-tag")
  | _ =>
    let tag := s.part.tag
    let (p', r) := TopoEng.feed s.part t
    match r with
    | none => ({ s with part := p' }, ".")
    | some (.error e) => ({ s with part := p' }, "WF FAIL dump-unparsable:" ++ e)
    | some (.ok d) =>
      let v := wfCheck d
      ({ part := p', dumps := (tag, d) :: s.dumps }, if v.isEmpty then "WF ok" else "WF FAIL " ++ ",".intercalate (v.take 6))

end Driver.SnapshotsEng
