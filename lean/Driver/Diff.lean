/- Driver.Diff — line protocol for the `diff` engine (C16).  Strings are opaque tokens (hex-encoded by the
   harness, `-` = NULL); the model only compares them. -/
import Hw.Attr.Diff
import Hw.Attr.DiffBuildApply
import Hw.Io.XmlDiff
import Driver.Util
namespace Driver.DiffEng
open Hw.Diff Driver

abbrev T := Topo String
abbrev State := Array (Option T)

def init : State := Array.replicate 8 none

def optTok (s : String) : Option String := if s = "-" then none else some s
def showOpt : Option String → String
  | none => "-"
  | some s => s

def parseMem (s : String) : Option Mem := (parseNat s).map (BitVec.ofNat 64)
def parseBool (s : String) : Option Bool := if s = "0" then some false else if s = "1" then some true else none

/-- `n` pairs of tokens -/
def takePairs : Nat → List String → Option (List (String × String) × List String)
  | 0, ts => some ([], ts)
  | n + 1, a :: b :: ts => do
    let (r, ts) ← takePairs n ts
    pure ((a, b) :: r, ts)
  | _, _ => none

mutual
partial def parseObj (ancs : List Key) (ts : List String) : Option (Obj String × List String) :=
  match ts with
  | dep :: li :: nu :: s1 :: s2 :: nm :: ni :: ts => do
    let depth ← parseInt dep
    let lidx ← parseNat li
    let numa ← parseBool nu
    let ni ← parseNat ni
    let (infos, ts) ← takePairs ni ts
    match ts with
    | lm :: tm :: n0 :: n1 :: n2 :: n3 :: ts =>
      let lmem ← parseMem lm
      let tmem ← parseMem tm
      let d : Data String := { depth, lidx, ancs, numa, shape1 := s1, shape2 := s2, name := optTok nm, infos, lmem, tmem }
      let sub := d.key :: ancs
      let (c0, ts) ← parseKids sub (← parseNat n0) ts
      let (c1, ts) ← parseKids sub (← parseNat n1) ts
      let (c2, ts) ← parseKids sub (← parseNat n2) ts
      let (c3, ts) ← parseKids sub (← parseNat n3) ts
      pure (Obj.mk d c0 c1 c2 c3, ts)
    | _ => none
  | _ => none
partial def parseKids (ancs : List Key) (n : Nat) (ts : List String) : Option (List (Obj String) × List String) :=
  match n with
  | 0 => some ([], ts)
  | n + 1 => do
    let (o, ts) ← parseObj ancs ts
    let (r, ts) ← parseKids ancs n ts
    pure (o :: r, ts)
end

def takeDists : Nat → List String → Option (List (String × Bool) × List String)
  | 0, ts => some ([], ts)
  | n + 1, a :: b :: ts => do
    let b ← parseBool b
    let (r, ts) ← takeDists n ts
    pure ((a, b) :: r, ts)
  | _, _ => none

/-- `nbl allowed mattrs kinds nd (dkey dflag)* nti (name value)* <obj>` -/
def parseTopo (ts : List String) : Option T :=
  match ts with
  | nbl :: allowed :: mattrs :: kinds :: nd :: ts => do
    let nbl ← parseInt nbl
    let (dists, ts) ← takeDists (← parseNat nd) ts
    match ts with
    | nti :: ts =>
      let (tinfos, ts) ← takePairs (← parseNat nti) ts
      let (root, rest) ← parseObj [] ts
      if rest ≠ [] then none else
      pure { root, nbl, tinfos, allowed, dists, mattrs, kinds }
    | _ => none
  | _ => none

def parseKey (d i : String) : Option Key := do pure ((← parseInt d), (← parseNat i))

def parseEntry (s : String) : Option (Entry String) :=
  match s.splitOn ":" with
  | ["U"] => some .unknown
  | ["TC", d, i] => (parseKey d i).map .tooComplex
  | ["A", d, i] => (parseKey d i).map (fun k => .objAttr k .unknown)
  | ["S", d, i, o, n] => do pure (.objAttr (← parseKey d i) (.size (← parseMem o) (← parseMem n)))
  | ["N", d, i, o, n] => do pure (.objAttr (← parseKey d i) (.name (optTok o) (optTok n)))
  | ["I", d, i, nm, o, n] => do pure (.objAttr (← parseKey d i) (.info nm o n))
  | _ => none

def showKey (k : Key) : String := toString k.1 ++ ":" ++ toString k.2

def showEntry : Entry String → String
  | .unknown => "U"
  | .tooComplex k => "TC:" ++ showKey k
  | .objAttr k .unknown => "A:" ++ showKey k
  | .objAttr k (.size o n) => "S:" ++ showKey k ++ ":" ++ toString o.toNat ++ ":" ++ toString n.toNat
  | .objAttr k (.name o n) => "N:" ++ showKey k ++ ":" ++ showOpt o ++ ":" ++ showOpt n
  | .objAttr k (.info nm o n) => "I:" ++ showKey k ++ ":" ++ nm ++ ":" ++ o ++ ":" ++ n

def showInfos (l : List (String × String)) : String :=
  toString l.length ++ l.foldl (fun s p => s ++ ":" ++ p.1 ++ "=" ++ p.2) ""

def showData (d : Data String) : String :=
  showKey d.key ++ ":" ++ showOpt d.name ++ ":" ++ toString d.lmem.toNat ++ ":" ++ toString d.tmem.toNat ++ ":" ++ showInfos d.infos

/-- the observation dump: every object in DFS order, then the topology infos -/
def showObs (t : T) : String :=
  t.flat.foldl (fun s d => s ++ showData d ++ " ") "" ++ "T:" ++ showInfos t.tinfos


/-! ### the diff XML exporter / importer models (Hw.Io.XmlDiff): strings are decoded to bytes here -/

open Hw.XmlDiff in
def decBytes (s : String) : Option Bytes :=
  match s.toList with
  | 's' :: r =>
    let rec go : List Char → Option (List Nat)
      | [] => some []
      | a :: b :: t => do
        let x ← hexDigitVal a
        let y ← hexDigitVal b
        let l ← go t
        pure ((x * 16 + y) :: l)
      | _ => none
    go r
  | _ => none

def encBytes (b : List Nat) : String :=
  "s" ++ String.ofList (b.flatMap (fun c => [hexChar (c / 16 % 16), hexChar (c % 16)]))

def optBytes (s : String) : Option (Option (List Nat)) := if s = "-" then some none else (decBytes s).map some
def showOptB : Option (List Nat) → String
  | none => "-"
  | some b => encBytes b

def parseEntryB (s : String) : Option (Entry (List Nat)) :=
  match s.splitOn ":" with
  | ["U"] => some .unknown
  | ["TC", d, i] => (parseKey d i).map .tooComplex
  | ["A", d, i] => (parseKey d i).map (fun k => .objAttr k .unknown)
  | ["S", d, i, o, n] => do pure (.objAttr (← parseKey d i) (.size (← parseMem o) (← parseMem n)))
  | ["N", d, i, o, n] => do pure (.objAttr (← parseKey d i) (.name (← optBytes o) (← optBytes n)))
  | ["I", d, i, nm, o, n] => do pure (.objAttr (← parseKey d i) (.info (← decBytes nm) (← decBytes o) (← decBytes n)))
  | _ => none

def showEntryB : Entry (List Nat) → String
  | .unknown => "U"
  | .tooComplex k => "TC:" ++ showKey k
  | .objAttr k .unknown => "A:" ++ showKey k
  | .objAttr k (.size o n) => "S:" ++ showKey k ++ ":" ++ toString o.toNat ++ ":" ++ toString n.toNat
  | .objAttr k (.name o n) => "N:" ++ showKey k ++ ":" ++ showOptB o ++ ":" ++ showOptB n
  | .objAttr k (.info nm o n) => "I:" ++ showKey k ++ ":" ++ encBytes nm ++ ":" ++ encBytes o ++ ":" ++ encBytes n

def takeAttrsB : Nat → List String → Option (List (List Nat × List Nat) × List String)
  | 0, ts => some ([], ts)
  | n + 1, a :: b :: ts => do
    let a ← decBytes a
    let b ← decBytes b
    let (r, ts) ← takeAttrsB n ts
    pure ((a, b) :: r, ts)
  | _, _ => none

def takeElsB : Nat → List String → Option (List (List Nat × List (List Nat × List Nat)) × List String)
  | 0, ts => some ([], ts)
  | n + 1, tag :: k :: ts => do
    let tag ← decBytes tag
    let (a, ts) ← takeAttrsB (← parseNat k) ts
    let (r, ts) ← takeElsB n ts
    pure ((tag, a) :: r, ts)
  | _, _ => none

/-- `R <k> (name value)* E <m> (tag <k> (name value)*)*` -/
def parseDoc (ts : List String) : Option Hw.XmlDiff.Doc :=
  match ts with
  | "R" :: k :: ts => do
    let (root, ts) ← takeAttrsB (← parseNat k) ts
    match ts with
    | "E" :: m :: ts =>
      let (els, ts) ← takeElsB (← parseNat m) ts
      if ts ≠ [] then none else pure { root, els }
    | _ => none
  | _ => none

def showAttrsB (a : List (List Nat × List Nat)) : String :=
  toString a.length ++ a.foldl (fun s x => s ++ " " ++ encBytes x.1 ++ " " ++ encBytes x.2) ""

def showDoc (d : Hw.XmlDiff.Doc) : String :=
  "R " ++ showAttrsB d.root ++ " E " ++ toString d.els.length ++ d.els.foldl (fun s e => s ++ " " ++ encBytes e.1 ++ " " ++ showAttrsB e.2) ""

def parseBackend (s : String) : Option Hw.XmlDiff.Backend :=
  if s = "0" then some .nolibxml else if s = "1" then some .libxml else none

def showLoaded (r : Hw.XmlDiff.Loaded) : String :=
  "ret=" ++ toString r.ret ++ " ref=" ++ showOptB r.ref ++ " n=" ++ toString r.diff.length ++ r.diff.foldl (fun s e => s ++ " " ++ showEntryB e) ""

def xexp (be : Hw.XmlDiff.Backend) (ref : Option (List Nat)) (es : List (Entry (List Nat))) : String :=
  match Hw.XmlDiff.exportDoc ref es with
  | .einval => "ret=-1"
  | .undef => "undef"
  | .ok d =>
    "ret=0 " ++ showDoc d ++
      (match be with
       | .nolibxml => " bytes=" ++ encBytes (Hw.XmlDiff.renderDoc d)
       | .libxml => "")

def getT (st : State) (s : String) : Option (Nat × T) := do
  let i ← parseNat s
  let t ← (← st[i]?)
  pure (i, t)

def step (st : State) (line : String) : State × String :=
  let bad := (st, "bad-op")
  match tokens line with
  | "topo" :: slot :: rest =>
    match parseNat slot, parseTopo rest with
    | some i, some t => if i < st.size then (st.setIfInBounds i (some t), "ok " ++ toString t.flat.length) else bad
    | _, _ => bad
  | ["dup", dst, src] =>
    match parseNat dst, getT st src with
    | some i, some (_, t) => if i < st.size then (st.setIfInBounds i (some t), "ok") else bad
    | _, _ => bad
  | ["obs", s] =>
    match getT st s with
    | some (_, t) => (st, showObs t)
    | none => bad
  | ["build", a, b] =>
    match getT st a, getT st b with
    | some (_, ta), some (_, tb) =>
      let r := build ta tb
      (st, "ret=" ++ toString r.1 ++ " n=" ++ toString r.2.length ++ r.2.foldl (fun s e => s ++ " " ++ showEntry e) "")
    | _, _ => bad
  | ["hyp", a, b] =>
    -- the decidable hypotheses of the whole-tree theorems (C16_apply_build, C16_reverse_apply_build) evaluated on the
    -- topologies as the harness observed them; statistics only, the harness never emits this op
    match getT st a, getT st b with
    | some (_, ta), some (_, tb) =>
      let r := build ta tb
      let f (b : Bool) : String := if b then "1" else "0"
      (st, "hyp ret=" ++ toString r.1 ++ " keysNodup=" ++ f (decide (KeysNodup ta)) ++ " infoNames=" ++ f (decide (InfoNamesDistinct ta))
        ++ " depths=" ++ f (decide (DepthsBelowNbl ta)) ++ " skeleton=" ++ f (decide (SameSkeleton ta tb))
        ++ " memA=" ++ f (decide (MemConsistent ta)) ++ " memB=" ++ f (decide (MemConsistent tb))
        ++ " distinctSlots=" ++ f (decide (DistinctSlots ta.nbl r.2)))
    | _, _ => bad
  | "apply" :: s :: rev :: es =>
    match getT st s, parseBool rev, es.mapM parseEntry with
    | some (i, t), some rev, some es =>
      let r := apply rev t es
      (st.setIfInBounds i (some r.2), "ret=" ++ toString r.1 ++ " " ++ showObs r.2)
    | _, _, _ => bad
  | "xexp" :: be :: ref :: es =>
    -- hwloc_topology_diff_export_xmlbuffer: the token-level document (and, for the nolibxml back end, its exact text)
    match parseBackend be, optBytes ref, es.mapM parseEntryB with
    | some be, some ref, some es => (st, xexp be ref es)
    | _, _, _ => bad
  | "xload" :: be :: doc =>
    -- hwloc_topology_diff_load_xmlbuffer on a document given by its tokens
    -- (the nolibxml importer reads the attributes from the text: the tokens go through the byte-level render / scan models first)
    match parseBackend be, parseDoc doc with
    | some .nolibxml, some d => (st, showLoaded (Hw.XmlDiff.importDoc .nolibxml (Hw.XmlDiff.rescan d)))
    | some .libxml, some d => (st, showLoaded (Hw.XmlDiff.importDoc .libxml d))
    | _, _ => bad
  | _ => bad

end Driver.DiffEng
