/- Driver.XmlScan — line protocol of the `xmlscan` engine (C06).

   buf <hex|.>            new session (backend_init on a copy of the bytes)        -> buf r=0 n=<n> | buf r=-1 (n = 0)
   bufn <len>             backend_init with xmlbuflen = len ≤ 0                     -> buf r=-1
   init                   look_init                      -> init r=0 ver=<ma>.<mi> tb=<off> name=<hex>   |  init r=-1
   A <f>                  next_attr                      -> A r=<r> [name=<hex> value=<hex>] ab=<off|-> <buffer>
   F <f>                  find_child                     -> F r=<r> [tag=<hex> new=<id> tb=.. ab=.. closed=..] <buffer>
   T <f>                  close_tag                      -> T r=<r> tb=<off> <buffer>
   C <f>                  close_child                    -> C parent=<id> tb=<off>
   G <f> <len>            get_content                    -> G r=<r> [content=<hex> at=<off>] tb=<off> <buffer>
   K <f>                  close_content                  -> K <buffer>
   dist <nbobjs> <k> {i|v <hex|.>}*k                      -> dist r=<load result> [n=.. idx=.. val=.. | *]
   <buffer> = ` B=<hex of all bytes>` when n ≤ 48, else ` H=<FNV-1a 64 of all bytes>`.
   `illegal` = the op is outside the consumer state machine / inside an excluded defect class;
   a memory error of the model is printed as `MEMERR <kind>` (never equal to a C answer).
-/
import Hw.Io.XmlScan
import Driver.Util
namespace Driver.XmlScanEng
open Hw Hw.XmlScan Driver

structure DState where
  v : Variant := fixed      -- the model of the current source; never changed by the protocol
  st : Option St := none

def init : DState := {}

def hex2 (n : Nat) : String :=
  String.singleton (hexChar (n / 16 % 16)) ++ String.singleton (hexChar (n % 16))

def hexOf (l : List Nat) : String :=
  if l.isEmpty then "." else String.join (l.map hex2)

def parseHexBytes (s : String) : Option (Array Nat) :=
  if s = "." then some #[] else
  let cs := s.toList
  let rec go : List Char → Array Nat → Option (Array Nat)
    | [], acc => some acc
    | [_], _ => none
    | a :: b :: rest, acc => match hexDigitVal a, hexDigitVal b with
      | some x, some y => go rest (acc.push (x * 16 + y))
      | _, _ => none
  go cs #[]

/-- the NUL-terminated string at index i -/
def strAt (b : Buf) (i : Nat) : List Nat :=
  ((b.extract i b.size).toList).takeWhile (· != 0)

def fnv (b : Buf) : UInt64 :=
  b.foldl (fun h x => (h ^^^ x.toUInt64) * 0x100000001b3) 0xcbf29ce484222325

def hex16 (h : UInt64) : String :=
  let s := toHex h.toNat
  String.ofList (List.replicate (16 - s.length) '0') ++ s

def bufStr (b : Buf) : String :=
  if b.size ≤ 48 then " B=" ++ String.join (b.toList.map hex2) else " H=" ++ hex16 (fnv b)

def offStr (key : String) : Option Nat → String
  | none => s!" {key}=-"
  | some i => s!" {key}={i}"

def errStr : Err → String
  | .oob i => s!"MEMERR oob {i}"
  | .under => "MEMERR under"
  | .null => "MEMERR null"
  | .fuel => "MEMERR fuel"

def nameStr (b : Buf) : TagName → String
  | .lit s => hexOf s
  | .at i => hexOf (strAt b i)
  | .null => "NULL"

/-! distances probe: the part of hwloc__xml_import_distances that decides acceptance -/

def isCSp (c : Nat) : Bool := c == 32 || (9 ≤ c && c ≤ 13)

/-- strtoull(s, &next, 0) restricted to what the generator emits (decimal digits, no sign, no 0x):
    `none` = no conversion; value saturates at 2^64-1 -/
def strtoull (s : List Nat) : Option (Nat × List Nat) :=
  let s := s.dropWhile isCSp
  let ds := s.takeWhile isDigit
  if ds.isEmpty then none else
  let d := ds.foldl (fun a c => a * 10 + (c - 48)) 0
  some (min d (2^64 - 1), s.dropWhile isDigit)

/-- the token list the fill loop sees -/
partial def distToks (s : List Nat) : Toks :=
  match strtoull s with
  | none => []
  | some (u, rest) => match rest with
    | 32 :: r => (u, true) :: distToks r
    | _ => [(u, false)]

/-- values stored by `fillLoop` (same traversal, collecting the numbers) -/
def fillVals (cap : Nat) : Nat → Toks → List Nat
  | _, [] => []
  | nr, (u, sp) :: rest =>
    if !sp then [u] else if nr + 1 == cap then [u] else u :: fillVals cap (nr + 1) rest

def distRun (nb : Nat) (children : List (Bool × List Nat)) : String :=
  let nbobjs := idxCap nb
  if !nbobjsAccepted nb then "dist r=-1" else
  let vc := valCap nb
  -- children in document order
  let rec go : List (Bool × List Nat) → Nat → Nat → List Nat → List Nat → Option (List Nat × List Nat)
    | [], ni, nv, is, vs => if ni == nbobjs && nv == vc then some (is, vs) else none
    | (isIdx, content) :: rest, ni, nv, is, vs =>
      let t := distToks content
      if isIdx then
        match fillChild nbobjs ni t with
        | none => none
        | some (_, ni') => go rest ni' nv (is ++ fillVals nbobjs ni t) vs
      else
        match fillChild vc nv t with
        | none => none
        | some (_, nv') => go rest ni nv' is (vs ++ fillVals vc nv t)
  match go children 0 0 [] [] with
  | none => "dist r=-1"
  | some (is, vs) =>
    if nbobjs < 2 then "dist r=0"
    else if is.all (· < 4) && is.eraseDups.length == is.length then
      "dist r=0 n=" ++ toString nbobjs ++ " idx=" ++ ",".intercalate (is.map toString) ++ " val=" ++ ",".intercalate (vs.map toString)
    else "dist r=0 *"

def parseChildren : List String → Option (List (Bool × List Nat))
  | [] => some []
  | k :: h :: rest => do
    let bytes ← parseHexBytes h
    let tl ← parseChildren rest
    if k = "i" then pure ((true, bytes.toList) :: tl) else if k = "v" then pure ((false, bytes.toList) :: tl) else none
  | _ => none

def frameOut (o : Obs) (s : St) (i : Nat) : String :=
  match o, s.frames[i]? with
  | .badFrame, _ => "badframe"
  | .attr r, some f =>
    "A r=" ++ toString r.ret ++
      (if r.ret == 0 then " name=" ++ hexOf (strAt s.buf r.name) ++ " value=" ++ hexOf (strAt s.buf r.value) else "") ++
      offStr "ab" f.attrbuf ++ bufStr s.buf
  | .child r new, _ =>
    "F r=" ++ toString r.ret ++
      (match new with
       | some id => match s.frames[id]? with
         | some c => " tag=" ++ hexOf (strAt s.buf r.tag) ++ s!" new={id}" ++ offStr "tb" (some c.tagbuf) ++ offStr "ab" c.attrbuf ++
                     " closed=" ++ (if c.closed then "1" else "0")
         | none => " ??"
       | none => "") ++ bufStr s.buf
  | .ret r, some f => "T r=" ++ toString r ++ offStr "tb" (some f.tagbuf) ++ bufStr s.buf
  | .content r, some f =>
    "G r=" ++ toString r.ret ++
      (if r.ret == 1 then match r.begin with
        | some a => " content=" ++ hexOf (strAt s.buf a) ++ offStr "at" (some a)
        | none => " ??" else "") ++ offStr "tb" (some f.tagbuf) ++ bufStr s.buf
  | .unit, some f => match f.parent with
    | _ => "K" ++ bufStr s.buf
  | _, _ => "??"

def stepOp (d : DState) (op : Op) (i : Nat) : DState × String :=
  match d.st with
  | none => (d, "nosession")
  | some s =>
    if i ≥ s.frames.size then (d, "badframe") else
    if !legal d.v s op then (d, "illegal") else
    match step d.v s op with
    | .error e => (d, errStr e)
    | .ok (o, s') =>
      let out := match op with
        | .closeChild _ => match s.frames[i]? with
          | some f => match f.parent with
            | some p => match s'.frames[p]? with
              | some pf => s!"C parent={p}" ++ offStr "tb" (some pf.tagbuf)
              | none => "??"
            | none => "??"
          | none => "??"
        | _ => frameOut o s' i
      ({ d with st := some s' }, out)

def step (d : DState) (line : String) : DState × String :=
  match tokens line with
  | ["buf", hx] =>
    match parseHexBytes hx with
    | some bytes =>
      match backendInit true bytes bytes.size with
      | .ok (some b) => ({ d with st := some { buf := b, frames := #[] } }, s!"buf r=0 n={b.size}")
      | .ok none => ({ d with st := none }, "buf r=-1")
      | .error e => ({ d with st := none }, errStr e)
    | none => (d, "bad-op")
  | ["bufn", l] =>
    match l.toInt? with
    | some len =>
      if len > 0 then (d, "bad-op") else
      match backendInit true #[0] len with
      | .ok (some _) => ({ d with st := none }, "bad-op")
      | .ok none => ({ d with st := none }, "buf r=-1")
      | .error e => ({ d with st := none }, errStr e)
    | none => (d, "bad-op")
  | ["init"] =>
    match d.st with
    | none => (d, "nosession")
    | some s =>
      if s.frames.size != 0 then (d, "illegal") else
      match lookInit d.v s.buf with
      | .error e => (d, errStr e)
      | .ok (r, some f) =>
        ({ d with st := some { s with frames := #[f] } },
         s!"init r=0 ver={r.major}.{r.minor}" ++ offStr "tb" (some f.tagbuf) ++ " name=" ++ nameStr s.buf f.tagname)
      | .ok (_, none) => (d, "init r=-1")
  | ["A", f] => match f.toNat? with
    | some i => stepOp d (.attr i) i
    | none => (d, "bad-op")
  | ["F", f] => match f.toNat? with
    | some i => stepOp d (.child i) i
    | none => (d, "bad-op")
  | ["T", f] => match f.toNat? with
    | some i => stepOp d (.closeTag i) i
    | none => (d, "bad-op")
  | ["C", f] => match f.toNat? with
    | some i => stepOp d (.closeChild i) i
    | none => (d, "bad-op")
  | ["K", f] => match f.toNat? with
    | some i => stepOp d (.closeContent i) i
    | none => (d, "bad-op")
  | ["G", f, l] => match f.toNat?, l.toNat? with
    | some i, some len => stepOp d (.content i len) i
    | _, _ => (d, "bad-op")
  | "dist" :: nb :: k :: rest =>
    match nb.toNat?, k.toNat?, parseChildren rest with
    | some nb, some k, some ch => if ch.length == k then (d, distRun nb ch) else (d, "bad-op")
    | _, _, _ => (d, "bad-op")
  | _ => (d, "bad-op")

end Driver.XmlScanEng
