/- Driver.Stage2 — second part of the `setstage` engine (C01): the later stage boundaries of hwloc_discover() written by the
   extended HWLOC_VERIF hook (hooks/stage-dump-2.patch):

     STAGE2 <name> <flags> <filters> <acpu> <anode>                                      "."
     P <type> <os> <gp> <parent gp> <N|M|I|X> <4 sets> <local> <total> <gdepth> <gkind> <gsubkind> <dont_merge>   "."
     END2 <name>       "ok2 <name> …" | "DIFF2 <name> <what>" | "UNSUPPORTED2 <name> <why>"

   names, in the order hwloc_discover() writes them:
     rm_before  (after hwloc_filter_bridges)            remembered
     rm_after   (after remove_empty, root not NULL)     must equal  Stage.removeEmpty (rm_before)
     ks_after   (after hwloc__reconnect(KEEPSTRUCTURE)) must equal  Restrict.keepStructure filters (rm_after)
     mem_after  (after propagate_total_memory)          must equal  ks_after with total_memory := Stage.totalsT
     final      (after hwloc_set_group_depth)           must equal  mem_after with group depth := Stage.setGroupDepth
   after the load, from the public API (harness): `Y <gp> <symmetric_subtree> <depth> <arity>` per normal object (depth-first through
   normal children) and `ENDY <id>`: must equal Stage.symmetricStage (tree of `final`), with depth = level index in connectLevels and
   arity = number of normal children ("okY …" | "DIFFY …")
   `LOADED <id> <0|1>` closes a case: a rm_before block that is not followed by rm_after must be one whose root the model removes. -/
import Hw.Topo.StageRemoveEmpty
import Hw.Topo.StageMemory
import Hw.Topo.StageGroup
import Hw.Topo.StageSymmetric
import Hw.Topo.StageMemoryDump
import Hw.Topo.StageUnique
import Hw.Topo.StageSetsMerge
import Hw.Topo.WFLemmas0
import Driver.Util
import Std.Data.HashMap
namespace Driver.Stage2Eng
open Hw.Topo Hw.Topo.Restrict Hw.Topo.Restrict.Stage Driver

structure L2 where
  type : Nat
  os : Nat
  gp : Nat
  parent : Int
  kind : String
  sets : List (Option Nat)
  loc : Nat
  tot : Nat
  gdepth : Nat
  gkind : Nat
  gsub : Nat
  dm : Nat
deriving Repr, Inhabited

def parseSetO (s : String) : Option (Option Nat) := if s = "-" then some none else (parseHex s).map some

def parseL2 (t : List String) : Option L2 :=
  match t with
  | [ty, os, gp, parent, kind, a, b, c, d, loc, tot, gd, gk, gs, dm] => do
    let ty ← parseNat ty; let os ← parseNat os; let gp ← parseNat gp; let parent ← parseInt parent
    if kind ≠ "N" ∧ kind ≠ "M" ∧ kind ≠ "I" ∧ kind ≠ "X" then none else
    let a ← parseSetO a; let b ← parseSetO b; let c ← parseSetO c; let d ← parseSetO d
    let loc ← parseNat loc; let tot ← parseNat tot; let gd ← parseNat gd; let gk ← parseNat gk; let gs ← parseNat gs; let dm ← parseNat dm
    pure { type := ty, os := os, gp := gp, parent := parent, kind := kind, sets := [a, b, c, d], loc := loc, tot := tot,
           gdepth := gd, gkind := gk, gsub := gs, dm := dm }
  | _ => none

inductive DT where
  | node (l : L2) (kds : List DT)
deriving Inhabited

partial def parseNode : List L2 → Option (DT × List L2)
  | [] => none
  | l :: rest =>
    let rec loop (acc : List DT) (rest : List L2) : List DT × List L2 :=
      match rest with
      | c :: _ =>
        if c.parent == (l.gp : Int) then
          match parseNode rest with
          | some (t, rest') => loop (t :: acc) rest'
          | none => (acc.reverse, rest)
        else (acc.reverse, rest)
      | [] => (acc.reverse, [])
    let (kds, rest') := loop [] rest
    some (DT.node l kds, rest')

def robjOf (l : L2) : Except String RObj :=
  let setBearing := l.kind = "N" || l.kind = "M"
  match l.sets with
  | [some a, some b, some c, some d] =>
    if setBearing then .ok { gp := l.gp, type := l.type, osidx := (l.os : Int), cpuset := a, ccpuset := b, nodeset := c, cnodeset := d,
                             hasSets := true, gkind := (l.gkind : Int), gsubkind := (l.gsub : Int), dmByte := l.dm }
    else .error s!"I/O or Misc object gp={l.gp} has sets"
  | [none, none, none, none] =>
    if setBearing then .error s!"normal or memory object gp={l.gp} has no sets"
    else .ok { gp := l.gp, type := l.type, osidx := (l.os : Int), cpuset := 0, ccpuset := 0, nodeset := 0, cnodeset := 0,
               hasSets := false, gkind := (l.gkind : Int), gsubkind := (l.gsub : Int), dmByte := l.dm }
  | _ => .error s!"object gp={l.gp} has only some of its four sets (or an infinite one)"

partial def toTree : DT → Except String Tree
  | .node l kds => do
    let o ← robjOf l
    let mut ns : List Tree := []
    let mut ms : List Tree := []
    let mut ios : List Tree := []
    let mut mis : List Tree := []
    for k in kds do
      match k with
      | .node kl _ =>
        let t ← toTree k
        if kl.kind = "N" then ns := t :: ns
        else if kl.kind = "M" then ms := t :: ms
        else if kl.kind = "I" then ios := t :: ios
        else mis := t :: mis
    pure (.node o ns.reverse ms.reverse ios.reverse mis.reverse)

/-- what the tree objects do not carry, by gp_index -/
structure Side where
  loc : Nat
  tot : Nat
  gdepth : Nat
deriving Inhabited

abbrev Tab := Std.HashMap Nat Side

def hexS (o : RObj) (s : Nat) : String := if o.hasSets then toHex s else "-"

def rowOf (tab : Tab) (parent : Int) (kind : String) (o : RObj) : String :=
  let sd := (tab.get? o.gp).getD ⟨0, 0, 0⟩
  s!"{o.type} {o.osidx} {o.gp} {parent} {kind} {hexS o o.cpuset} {hexS o o.ccpuset} {hexS o o.nodeset} {hexS o o.cnodeset} " ++
  s!"{sd.loc} {sd.tot} {sd.gdepth} {o.gkind} {o.gsubkind} {o.dmByte}"

partial def rowsT (tab : Tab) (parent : Int) (kind : String) : Tree → List String
  | .node o ns ms ios mis =>
    rowOf tab parent kind o ::
      ((ns.map (rowsT tab o.gp "N")).flatten ++ (ms.map (rowsT tab o.gp "M")).flatten ++
       (ios.map (rowsT tab o.gp "I")).flatten ++ (mis.map (rowsT tab o.gp "X")).flatten)

structure Block where
  name : String
  flags : Nat
  filters : List Nat
  allowed : String
  tree : Tree
  tab : Tab
  nobjs : Nat
  gpsUnique : Bool

structure St2 where
  open_ : Option (String × Nat × List Nat × String) := none     -- name, flags, filters, allowed sets as printed
  lines : List L2 := []                                          -- reversed
  prev : Option Block := none
  rmPending : Option Bool := none      -- a rm_before block is waiting for rm_after: `some rootRemoved`
  ys : List (Nat × Nat × Int × Nat) := []                        -- reversed Y lines: gp, flag, depth, arity
deriving Inhabited

def parseFilters (s : String) : Option (List Nat) :=
  s.toList.mapM (fun c => if '0' ≤ c ∧ c ≤ '3' then some (c.toNat - '0'.toNat) else none)

def firstDiff : List String → List String → Nat → String
  | a :: as, b :: bs, k => if a = b then firstDiff as bs (k + 1) else s!"row {k}: model [{a}] C [{b}]"
  | [], [], _ => "none"
  | a :: _, [], k => s!"row {k}: model [{a}] C has no more objects"
  | [], b :: _, k => s!"row {k}: model has no more objects, C [{b}]"

def mkBlock (name : String) (flags : Nat) (filters : List Nat) (allowed : String) (lines : List L2) : Except String Block :=
  match parseNode lines with
  | some (dt, []) => do
    let t ← toTree dt
    let tab : Tab := lines.foldl (fun m l => m.insert l.gp ⟨l.loc, l.tot, l.gdepth⟩) {}
    pure { name := name, flags := flags, filters := filters, allowed := allowed, tree := t, tab := tab, nobjs := lines.length,
           gpsUnique := tab.size == lines.length }
  | some (_, _ :: _) => .error "the lines do not form one tree"
  | none => .error "empty block"

def countWhere (t : Tree) (p : RObj → Bool) : Nat := ((objsT t).filter p).length

/-- header fields that no stage changes -/
def hdrSame (a b : Block) : Option String :=
  if a.flags ≠ b.flags then some s!"flags {a.flags} -> {b.flags}"
  else if a.filters ≠ b.filters then some "type filters changed"
  else if a.allowed ≠ b.allowed then some s!"allowed sets [{a.allowed}] -> [{b.allowed}]"
  else none

def endBlock (s : St2) (name : String) : St2 × String :=
  match s.open_ with
  | none => (s, "bad-op")
  | some (nm, flags, filters, allowed) =>
    if nm ≠ name then (s, "bad-op") else
    let lines := s.lines.reverse
    let s0 : St2 := { s with open_ := none, lines := [] }
    match mkBlock name flags filters allowed lines with
    | .error e => ({ s0 with prev := none, rmPending := none }, s!"UNSUPPORTED2 {name} {e}")
    | .ok b =>
      if !b.gpsUnique then ({ s0 with prev := none, rmPending := none }, s!"UNSUPPORTED2 {name} gp_index values are not unique") else
      let got := rowsT b.tab (-1) "N" b.tree
      let next : St2 := { s0 with prev := some b, rmPending := none }
      if name = "rm_before" then
        ({ next with rmPending := some (removeEmpty b.tree).isNone },
         s!"ok2 rm_before objs={b.nobjs} typed={if typedT b.tree then 1 else 0}")
      else
      match s.prev with
      | none => (next, s!"DIFF2 {name} no usable previous block")
      | some p =>
        match hdrSame p b with
        | some w => (next, s!"DIFF2 {name} {w}")
        | none =>
        if name = "rm_after" then
          if p.name ≠ "rm_before" then (next, s!"DIFF2 {name} follows {p.name}") else
          match removeEmpty p.tree with
          | none => (next, s!"DIFF2 rm_after the model removes the root, C kept it")
          | some t =>
            let exp := rowsT p.tab (-1) "N" t
            if exp ≠ got then (next, s!"DIFF2 rm_after " ++ firstDiff exp got 0)
            else
              let before : Std.HashMap String Unit := (rowsT p.tab (-1) "N" p.tree).foldl (fun m r => m.insert r ()) {}
              let moved := if exp.all (fun r => before.contains r) then 0 else 1
              (next, s!"ok2 rm_after objs={b.nobjs} removed={p.nobjs - b.nobjs} miscmoved={moved} alive={if allAlive t then 1 else 0}")
        else if name = "ks_after" then
          if p.name ≠ "rm_after" then (next, s!"DIFF2 {name} follows {p.name}") else
          let t := keepStructure p.filters p.tree
          let exp := rowsT p.tab (-1) "N" t
          if exp ≠ got then (next, s!"DIFF2 ks_after " ++ firstDiff exp got 0)
          else
            -- C01_sets_through_level_merging instantiated on this load: hypotheses on the rm_after tree, conclusion on the merged tree
            let sq := setQT p.tree
            let tg := tightT p.tree
            let sw := setWT t
            if sq && tg && !sw then (next, s!"DIFF2 ks_after the set clauses fail after level merging although SetQ and the single-child hypothesis hold before") else
            (next, s!"ok2 ks_after objs={b.nobjs} merged={p.nobjs - b.nobjs} setq={if sq then 1 else 0} tight={if tg then 1 else 0} setw={if sw then 1 else 0}")
        else if name = "mem_after" then
          if p.name ≠ "ks_after" then (next, s!"DIFF2 {name} follows {p.name}") else
          let loc : RObj → Nat := fun o => ((p.tab.get? o.gp).map (·.loc)).getD 0
          let tots := totalsT loc p.tree
          let tab' : Tab := tots.foldl (fun m (g, v) => match m.get? g with
            | some sd => m.insert g { sd with tot := v }
            | none => m) p.tab
          let exp := rowsT tab' (-1) "N" p.tree
          if exp ≠ got then (next, s!"DIFF2 mem_after " ++ firstDiff exp got 0)
          else
            let numa := countWhere p.tree (fun o => o.type == tNUMA)
            let root := totalT loc p.tree
            (next, s!"ok2 mem_after objs={b.nobjs} numa={numa} nonzero={if root == 0 then 0 else 1} exact={if root == sumLocalT loc p.tree then 1 else 0}")
        else if name = "final" then
          if p.name ≠ "mem_after" then (next, s!"DIFF2 {name} follows {p.name}") else
          let gds := setGroupDepth p.tree
          let tab' : Tab := gds.foldl (fun m (g, v) => match m.get? g with
            | some sd => m.insert g { sd with gdepth := v }
            | none => m) p.tab
          let exp := rowsT tab' (-1) "N" p.tree
          if exp ≠ got then (next, s!"DIFF2 final " ++ firstDiff exp got 0)
          else
            let glevels := ((connectLevels p.tree).filter isGroupLevel).length
            -- the dump-form theorems (C01_pipeline_dump_clauses / C01_pipeline_unique) instantiated on this load: hypotheses and conclusions
            let loc : RObj → Nat := fun o => ((p.tab.get? o.gp).map (·.loc)).getD 0
            let tab := memTab loc p.tree
            let d := render p.tree ⟨b.flags, b.filters, none, none⟩ (exOfTab tab loc (fun _ => {}))
            let a := mkAux d
            let hyp := typedT p.tree && decide (sumLocalT loc p.tree < W64) && decide (((objsT p.tree).map (·.gp)).Nodup)
            let concl := d.objs.all (fun o => objClause "total-memory" d a o && objClause "children-counts" d a o) &&
              topClause "gp-index-unique" d a && topClause "type-depth-inverse" d a && topClause "levels-cover-objects" d a
            let osu := decide ((((objsT p.tree).filter (fun o => o.type == tPU)).map (·.osidx)).Nodup) &&
              decide ((((objsT p.tree).filter (fun o => o.type == tNUMA)).map (·.osidx)).Nodup)
            let osc := topClause "pu-osindex-unique" d a && topClause "numa-osindex-unique" d a
            if (hyp && !concl) || (osu && !osc) then (next, s!"DIFF2 final a dump-form theorem instance fails (hyp={hyp} concl={concl} osu={osu} osc={osc})") else
            (next, s!"ok2 final objs={b.nobjs} groups={gds.length} grouplevels={glevels} dumphyp={if hyp then 1 else 0} dumpclauses={if concl then 1 else 0} osunique={if osu then 1 else 0}")
        else (next, "bad-op")

mutual
partial def aritiesT : Tree → List (Nat × Nat)
  | .node o ns _ _ _ => (o.gp, ns.length) :: aritiesL ns
partial def aritiesL : List Tree → List (Nat × Nat)
  | [] => []
  | t :: ts => aritiesT t ++ aritiesL ts
end

/-- the public symmetric_subtree flags against the model of hwloc_propagate_symmetric_subtree on the `final` tree -/
def endY (s : St2) : St2 × String :=
  let ys := s.ys.reverse
  let s' : St2 := { s with ys := [] }
  match s.prev with
  | none => (s', "okY absent")
  | some b =>
    if b.name ≠ "final" then (s', "okY absent") else
    -- RESTRICT_TO_CPUBINDING / RESTRICT_TO_MEMBINDING (16, 32) change the tree after hwloc_discover
    if b.flags &&& 48 != 0 then (s', "okY skipped") else
    let levels := connectLevels b.tree
    let dep := depthIn levels
    let exp := symmetricStage b.tree
    let ar := aritiesT b.tree
    let expRows := (exp.zip ar).map (fun (p, a) => s!"{p.1} {if p.2 then 1 else 0} {depthOfGp levels p.1} {a.2}")
    let gotRows := ys.map (fun (g, f, d, a) => s!"{g} {f} {d} {a}")
    if exp.length ≠ ar.length then (s', "DIFFY internal: visited objects") else
    if expRows ≠ gotRows then (s', "DIFFY " ++ firstDiff expRows gotRows 0)
    else
      let asym := (exp.filter (fun p => !p.2)).length
      let multi := (ar.filter (fun a => a.2 ≥ 2)).length
      let unif := if (symT dep b.tree) == (exp.all (·.2)) then 1 else 0
      (s', s!"okY n={exp.length} asym={asym} multi={multi} rootsym={if symT dep b.tree then 1 else 0} allsame={unif}")

def step (s : St2) (t : List String) : St2 × String :=
  match t with
  | ["Y", gp, f, d, a] =>
    match parseNat gp, parseNat f, parseInt d, parseNat a with
    | some gp, some f, some d, some a => ({ s with ys := (gp, f, d, a) :: s.ys }, ".")
    | _, _, _, _ => (s, "bad-op")
  | ["ENDY", _] => endY s
  | ["STAGE2", name, flags, filters, ac, an] =>
    match parseNat flags, parseFilters filters with
    | some f, some fl =>
      -- a rm_before block that is followed by another block than rm_after: the root must have been removed … handled at LOADED
      ({ s with open_ := some (name, f, fl, ac ++ " " ++ an), lines := [] }, ".")
    | _, _ => (s, "bad-op")
  | "P" :: rest =>
    if s.open_.isSome then
      match parseL2 rest with
      | some l => ({ s with lines := l :: s.lines }, ".")
      | none => (s, "bad-op")
    else (s, "bad-op")
  | ["END2", name] => endBlock s name
  | "LOADED" :: _ =>
    match s.rmPending with
    | some false => ({}, "DIFF2 rm_after C removed the root (no rm_after block), the model keeps it")
    | _ => ({}, ".")
  | _ => (s, "bad-op")

end Driver.Stage2Eng
