/- Driver.LinuxFs — second half of the `linuxparse` engine (C18): the numeric / meminfo / hugepages readers and the
   cgroup / cpuset handling of hwloc/topology-linux.c (models: Hw/Io/LinuxNum.lean, Hw/Io/LinuxCgroup.lean).

     NI|NU|NQ <hex|->                         hwloc_read_path_as_int / _uint / _uint64 on a file with that content
     NX                                       … all three on a missing file
     MI <hex|-|x>                             hwloc_parse_meminfo_info (x = missing file)
     HP <hexdir> <alloc0> <remaining> <ents>  hwloc_parse_hugepages_info; ents = `-` or name:content,… (content `x` = no nr_hugepages file)
     CN <files>                               hwloc_read_linux_cgroup_name
     MP <bufsiz> <files>                      hwloc_find_linux_cgroup_mntpnt
     AD <0|1|2> <hexmnt> <hexname> <c|m> <files>   hwloc_admin_disable_set_from_cgroup
     AR <bufsiz> <files>                      hwloc_linux__get_allowed_resources

   <files> = `-` or path:content,… (hex; `-` = empty): the regular files that exist under the fsroot.  A path is
   resolved as the kernel does for a tree of plain directories (empty and `.` components dropped, a trailing slash
   never names a regular file); inputs containing `..` are outside the modelled domain (`fsdep`). -/
import Hw.Io.LinuxCgroup
import Driver.Strings
namespace Driver.LinuxFsEng
open Hw Hw.LinuxParse Hw.LinuxNum Hw.LinuxCgroup Driver

abbrev Files := List (List (List Nat) × List Nat)

def comps (p : List Nat) : List (List Nat) := (splitBy 47 p).filter (fun c => c != [] && c != [46])

/-- components of a path naming a regular file; `none`: ends in a slash (or `/.`), or is empty -/
def fileComps (p : List Nat) : Option (List (List Nat)) :=
  match (splitBy 47 p).getLast? with
  | none => none
  | some l => if l == [] || l == [46] then none else some (comps p)

def lookup (fl : Files) (p : List Nat) : Option (List Nat) :=
  match fileComps p with
  | none => none
  | some cs => (fl.find? (fun f => f.1 == cs)).map (·.2)

/-- access(R_OK) as root: a file or a directory of that name exists -/
def access (fl : Files) (p : List Nat) : Bool :=
  fl.any (fun f => (comps p).isPrefixOf f.1)

def parseFiles (s : String) : Option Files :=
  if s = "-" then some [] else
  (s.splitOn ",").mapM (fun item =>
    match item.splitOn ":" with
    | [p, c] => do
      let p ← StringsEng.parseBytes p
      let c ← StringsEng.parseBytes c
      pure (comps p, c)
    | _ => none)

def hasDotDot : List Nat → Bool
  | 46 :: 46 :: _ => true
  | _ :: r => hasDotDot r
  | [] => false

def filesDotDot (fl : Files) : Bool := fl.any (fun f => hasDotDot f.2 || f.1.any hasDotDot)

def bigBound : Nat := 2^17

def setNat (b : Bitmap) : Nat :=
  (List.range b.words.length).foldl (fun acc i => acc + ((b.readWord i).toNat <<< (64 * i))) 0

def showSet (b : Bitmap) : String :=
  if b.inf && b.words.all (fun w => w == BitVec.allOnes 64) then "full"
  else (if b.inf then "I" else "") ++ toHex (setNat b)

/-- which cpulist files were parsed is decided by the model; `ub` / `big` as in the CL op -/
def showOptSet (fl : Files) (path : List Nat) (r : Option Bitmap) : String :=
  match lookup fl path with
  | none => (match r with | some b => showSet b | none => "MODEL-INCONSISTENT")
  | some content =>
    if cpulistUB content then "ub"
    else if cpulistMaxIdx content ≥ bigBound then "big"
    else match r with | some b => showSet b | none => "MODEL-INCONSISTENT"

def typeNum : CgType → Nat
  | .cgroup2 => 0 | .cgroup1 => 1 | .cpuset => 2

def parseType : String → Option CgType
  | "0" => some .cgroup2 | "1" => some .cgroup1 | "2" => some .cpuset | _ => none

def insertSorted (x : Nat × Nat) : List (Nat × Nat) → List (Nat × Nat)
  | [] => [x]
  | y :: ys => if x.1 < y.1 || (x.1 == y.1 && x.2 ≤ y.2) then x :: y :: ys else y :: insertSorted x ys

def parseEntries (s : String) : Option (List HPEntry) :=
  if s = "-" then some [] else
  (s.splitOn ",").mapM (fun item =>
    match item.splitOn ":" with
    | [n, c] => do
      let n ← StringsEng.parseBytes n
      let c ← (if c = "x" then some none else (StringsEng.parseBytes c).map some)
      pure { name := n, file := c }
    | _ => none)

def optFile (s : String) : Option (Option (List Nat)) :=
  if s = "x" then some none else (StringsEng.parseBytes s).map some

def step (line : String) : Option String :=
  match tokens line with
  | ["NI", h] => (StringsEng.parseBytes h).map (fun bs =>
      match readInt (some bs) with | some v => "ok " ++ toString v | none => "fail")
  | ["NU", h] => (StringsEng.parseBytes h).map (fun bs =>
      match readUint (some bs) with | some v => "ok " ++ toString v | none => "fail")
  | ["NQ", h] => (StringsEng.parseBytes h).map (fun bs =>
      match readUint64 (some bs) with | some v => "ok " ++ toString v | none => "fail")
  | ["NX"] =>
    some (match readInt none, readUint none, readUint64 none with
          | none, none, none => "fail fail fail" | _, _, _ => "MODEL-INCONSISTENT")
  | ["MI", h] => (optFile h).map (fun f =>
      match meminfo f with | some v => "ok " ++ toString v | none => "keep")
  | ["HP", d, a, r, es] =>
    match StringsEng.parseBytes d, parseNat a, parseNat r, parseEntries es with
    | some d, some a, some r, some es =>
      let st := hugepages d.length a r es
      let sorted := st.types.foldl (fun acc x => insertSorted x acc) []
      let oob := st.writes.any (fun w => decide (w.2 ≤ w.1))
      some ("len=" ++ toString st.index ++ " rem=" ++ toString st.remaining ++ " types=" ++
        sorted.foldl (fun s x => s ++ toString x.1 ++ ":" ++ toString x.2 ++ ";") "" ++ (if oob then " OOB" else ""))
    | _, _, _, _ => none
  | ["CN", fs] => (parseFiles fs).map (fun fl =>
      match cgroupName (lookup fl (str "/proc/self/cpuset")) (lookup fl (str "/proc/self/cgroup")) with
      | some n => "ok " ++ StringsEng.bytesHex n
      | none => "none")
  | ["MP", bs, fs] =>
    match parseNat bs, parseFiles fs with
    | some bs, some fl =>
      if filesDotDot fl then some "fsdep"
      else match findMntpnt (access fl) (lookup fl) bs (lookup fl (str "/proc/mounts")) with
        | some (t, m) => some ("ok " ++ toString (typeNum t) ++ " " ++ StringsEng.bytesHex m)
        | none => some "none"
    | _, _ => none
  | ["AD", t, m, n, a, fs] =>
    match parseType t, StringsEng.parseBytes m, StringsEng.parseBytes n, parseFiles fs with
    | some t, some m, some n, some fl =>
      if a ≠ "c" ∧ a ≠ "m" then none
      else if hasDotDot (m ++ n) then some "fsdep"
      else
        let attr := if a = "c" then str "cpus" else str "mems"
        some (showOptSet fl (cpusetPath t m n attr) (adminDisable (lookup fl) t m n attr Bitmap.allocFull))
    | _, _, _, _ => none
  | ["AR", bs, fs] =>
    match parseNat bs, parseFiles fs with
    | some bs, some fl =>
      if filesDotDot fl then some "fsdep"
      else
        let r := getAllowed (access fl) (lookup fl) bs Bitmap.allocFull Bitmap.allocFull
        -- the files the two cpulist reads went to (for the ub / big classification)
        let paths : Option (List Nat × List Nat) :=
          match findMntpnt (access fl) (lookup fl) bs (lookup fl (str "/proc/mounts")), r.name with
          | some (t, m), some n => some (cpusetPath t m n (str "cpus"), cpusetPath t m n (str "mems"))
          | _, _ => none
        let nm := match r.name with | some n => StringsEng.bytesHex n | none => "none"
        let (c, m) := match paths with
          | some (pc, pm) => (showOptSet fl pc r.cpus, showOptSet fl pm r.mems)
          | none => ((match r.cpus with | some b => showSet b | none => "MODEL-INCONSISTENT"),
                     (match r.mems with | some b => showSet b | none => "MODEL-INCONSISTENT"))
        if c = "ub" ∨ m = "ub" then some "ub"
        else if c = "big" ∨ m = "big" then some "big"
        else some ("name=" ++ nm ++ " cpus=" ++ c ++ " mems=" ++ m)
    | _, _ => none
  | _ => none

end Driver.LinuxFsEng
