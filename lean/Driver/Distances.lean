/- Driver.Distances — line protocol for the `distances` engine (C13).
   A line is `<op tokens> [| <annotation tokens>]`; the annotation is written by the harness and
   carries what the model takes from the environment (resolved objects, live objects after a
   topology change, depth→type lookups). -/
import Hw.Attr.Distances
import Driver.Util
import Driver.Grouping
namespace Driver.DistancesEng
open Hw.Dist Driver

def NS : Nat := 8
def NH : Nat := 4

structure DState where
  st : State
  handles : Array (Option Dist)
  slots : Array (Option (Pub × Bool))    -- (structure, stale)
  loaded : Bool := false
  /-- `topology->grouping_next_subkind` (reset by every load, copied by dup) -/
  subkind : Nat := 0

def init : DState :=
  { st := State.init [], handles := Array.replicate NH none, slots := Array.replicate NS none }

def parseObj (s : String) : Option (Option Obj) :=
  if s = "-" then some none else
  match s.splitOn ":" with
  | [t, g, o, w] => do
    let t ← parseInt t
    let g ← parseNat g
    let o ← parseNat o
    let w ← parseNat w
    pure (some { ty := t, gp := g, os := o, sw := w != 0 })
  | _ => none

def parseLive (ts : List String) : Option Topo := do
  let os ← ts.mapM parseObj
  os.mapM id

def parseName (s : String) : Option String := if s = "-" then none else some s
def showName (n : Option String) : String := match n with | some s => s | none => "-"

def showErr : Err → String
  | .EINVAL => "EINVAL"
  | .ENOENT => "ENOENT"

def showRc : Option Err → String
  | none => "ok"
  | some e => showErr e

def showObj : Option Obj → String
  | none => "-"
  | some o => toString o.ty ++ ":" ++ toString o.gp

def showPub (name : Option String) (p : Pub) : String :=
  showName name ++ " " ++ toString p.kind ++ " " ++ toString p.n ++
    p.objs.foldl (fun s o => s ++ " " ++ showObj o) "" ++ " V" ++
    p.vals.foldl (fun s v => s ++ " " ++ toString v) ""

def splitAnn (line : String) : List String × List String :=
  match line.splitOn "|" with
  | [a] => (tokens a, [])
  | [a, b] => (tokens a, tokens b)
  | _ => ([], [])

def staleAll (s : DState) : DState :=
  { s with slots := s.slots.map (fun x => x.map (fun (p, _) => (p, true))), handles := Array.replicate NH none }

/-- store the structures returned by a get into slots slot0, slot0+1, … (mod NS) -/
def storeRes (slots : Array (Option (Pub × Bool))) (slot0 : Nat) (ps : List Pub) : Array (Option (Pub × Bool)) :=
  (ps.zipIdx).foldl (fun sl (p, i) => sl.setIfInBounds ((slot0 + i) % NS) (some (p, false))) slots

def getOut (s : DState) (slot0 : Nat) (r : Except Err (State × Nat × List Pub)) : DState × String :=
  match r with
  | .error e => (s, showErr e)
  | .ok (st', nr, ps) =>
    let out := ps.foldl (fun acc p => acc ++ " S " ++ showPub (getName st' p) p) ("ok " ++ toString nr ++ " z1")
    ({ s with st := st', slots := storeRes s.slots slot0 ps }, out)

def step (s : DState) (line : String) : DState × String :=
  let bad := (s, "bad-op")
  let (ts, ann) := splitAnn line
  match ts with
  | ["load", _, _] =>
    match parseLive ann with
    | some T => ({ init with st := State.init T, loaded := true }, "ok " ++ toString T.length)
    | none => bad
  | _ => if !s.loaded then (s, "notopo") else
  match ts with
  | ["restrict", _, _, _] =>
    match ann with
    | "ok" :: rest =>
      match parseLive rest with
      | some T => (staleAll { s with st := s.st.restrict T }, "ok")
      | none => bad
    | [rc] => (s, rc)
    | _ => bad
  | ["refresh"] => ({ s with st := s.st.refresh }, "ok")
  -- shared-memory write + adopt: the write refreshes the original; the adopted copy (compared in the harness) lists the same structures
  | ["shm"] => ({ s with st := s.st.refresh }, "ok")
  | ["dup"] =>
    match parseLive ann with
    | some T => (staleAll { s with st := s.st.dup T }, "ok")
    | none => bad
  | ["xml"] =>
    match ann with
    | _rc :: rest =>
      let T := (parseLive rest).getD []
      (staleAll { s with st := (xmlRoundTrip s.st T).2, subkind := if _rc == "ok" then 0 else s.subkind }, "ok")
    | _ => bad
  | ["create", h, name, kind, flags] =>
    match parseNat h, parseNat kind, parseNat flags with
    | some h, some kind, some flags =>
      if h ≥ NH then bad else
      match addCreate s.st (parseName name) kind flags with
      | .error e => ({ s with handles := s.handles.setIfInBounds h none }, showErr e)
      | .ok (st', d) => ({ s with st := st', handles := s.handles.setIfInBounds h (some d) }, "ok")
    | _, _, _ => bad
  | "values" :: h :: flags :: n :: rest =>
    match parseNat h, parseNat flags, parseNat n with
    | some h, some flags, some n =>
      if h ≥ NH || rest.length ≠ n + n * n || ann.length ≠ n then bad else
      match (rest.drop n).mapM parseNat, ann.mapM parseObj with
      | some vals, some objs =>
        match s.handles[h]? with
        | some (some d) =>
          match addValues d n objs vals flags with
          | .error e => ({ s with handles := s.handles.setIfInBounds h none }, showErr e)
          | .ok d' => ({ s with handles := s.handles.setIfInBounds h (some d') }, "ok")
        | _ => (s, "nohandle")
      | _, _ => bad
    | _, _, _ => bad
  | ["commit", h, flags] =>
    match parseNat h, parseNat flags with
    | some h, some flags =>
      if h ≥ NH then bad else
      match s.handles[h]? with
      | some (some d) =>
        let s1 := { s with handles := s.handles.setIfInBounds h none }
        match addCommit s.st d flags with
        | .error e => (s1, showErr e)
        | .ok st' =>
          -- grouping may have inserted objects, the harness then lists the live objects; with the GROUP flag it also gives
          -- the dumps before and after the commit (sections separated by "##") and the inserted Groups are PREDICTED
          match GroupingEng.splitTok "##" ann with
          | [live] =>
            let st'' := if live.isEmpty then st' else
              match parseLive live with | some T => { st' with topo := T } | none => st'
            ({ s1 with st := st'' }, "ok")
          | [live, ["P", "0"]] =>
            match parseLive live with
            | some T => ({ s1 with st := { st' with topo := T } }, "ok U")
            | none => bad
          | [live, ["P", "1"], bef, aft] =>
            match parseLive live, GroupingEng.parseDump bef, GroupingEng.parseDump aft with
            | some T, .ok before, .ok after =>
              let o := GroupingEng.predict before after d.n (d.objs.map (fun x => match x with | some y => y.gp | none => 0)) d.vals d.kind d.hetero s.subkind
              ({ s1 with st := { st' with topo := T }, subkind := o.subkind }, "ok" ++ o.text)
            | _, .error e, _ => (s1, "ok BAD-before-dump:" ++ e)
            | _, _, .error e => (s1, "ok BAD-after-dump:" ++ e)
            | none, _, _ => bad
          | _ => bad
      | _ => (s, "nohandle")
    | _, _ => bad
  | ["get", slot0, cap, kind, flags] =>
    match parseNat slot0, parseNat cap, parseNat kind, parseNat flags with
    | some slot0, some cap, some kind, some flags => getOut s slot0 (get s.st kind flags cap)
    | _, _, _, _ => bad
  | ["getd", slot0, cap, kind, flags, _depth] =>
    match parseNat slot0, parseNat cap, parseNat kind, parseNat flags, ann with
    | some slot0, some cap, some kind, some flags, [ty] =>
      match parseInt ty with
      | some ty => getOut s slot0 (getByDepth s.st ty kind flags cap)
      | none => bad
    | _, _, _, _, _ => bad
  | ["gett", slot0, cap, kind, flags, ty] =>
    match parseNat slot0, parseNat cap, parseNat kind, parseNat flags, parseInt ty with
    | some slot0, some cap, some kind, some flags, some ty => getOut s slot0 (getByType s.st ty kind flags cap)
    | _, _, _, _, _ => bad
  | ["getn", slot0, cap, flags, name] =>
    match parseNat slot0, parseNat cap, parseNat flags with
    | some slot0, some cap, some flags => getOut s slot0 (getByName s.st (parseName name) flags cap)
    | _, _, _ => bad
  | ["name", slot] =>
    match parseNat slot with
    | some k => match s.slots[k]? with
      | some (some (p, _)) => (s, "N " ++ showName (getName s.st p))
      | some none => (s, "empty")
      | none => bad
    | none => bad
  | ["release", slot] =>
    match parseNat slot with
    | some k => match s.slots[k]? with
      | some (some _) => ({ s with slots := s.slots.setIfInBounds k none }, "ok")
      | some none => (s, "empty")
      | none => bad
    | none => bad
  | ["relrm", slot] =>
    match parseNat slot with
    | some k => match s.slots[k]? with
      | some (some (p, _)) =>
        match releaseRemove s.st p with
        | .error e => (s, showErr e)
        | .ok st' => ({ s with st := st', slots := s.slots.setIfInBounds k none }, "ok")
      | some none => (s, "empty")
      | none => bad
    | none => bad
  | ["remove"] => ({ s with st := remove s.st }, "ok")
  | ["rmd", _depth] =>
    match ann with
    | [ty] => match parseInt ty with
      | some ty => match removeByDepth s.st ty with
        | .error e => (s, showErr e)
        | .ok st' => ({ s with st := st' }, "ok")
      | none => bad
    | _ => bad
  | ["rmt", _ty] =>
    match ann with
    | ["skip"] => (s, "ok")
    | [ty] => match parseInt ty with
      | some ty => match removeByDepth s.st ty with
        | .error e => (s, showErr e)
        | .ok st' => ({ s with st := st' }, "ok")
      | none => bad
    | _ => bad
  | ["tr", slot, tr, flags, attr] =>
    match parseNat slot, parseNat tr, parseNat flags, parseNat attr with
    | some k, some tr, some flags, some attr =>
      match s.slots[k]? with
      | some (some (p, stale)) =>
        if stale then (s, "stale") else
        let (rc, p') := transform p tr flags attr
        ({ s with slots := s.slots.setIfInBounds k (some (p', false)) }, showRc rc ++ " " ++ showPub none p')
      | some none => (s, "empty")
      | none => bad
    | _, _, _, _ => bad
  | _ => bad

end Driver.DistancesEng
