/- Driver.X86Dump — engine `x86dump` (C18, B7): the CPUID-dump reading layer of hwloc/topology-x86.c
   (model: Hw/Io/X86Dump.lean).

     RD <hex|-|x> <queries>          cpuiddump_read on a pu0 file with that content (x = missing file), then
                                     cpuiddump_find_by_input for every query, then cpuiddump_free
     FI <table> <queries>            cpuiddump_find_by_input on an explicitly built table
     CK <d|x> <hex|-|x> <names>      hwloc_x86_check_cpuiddump_input: directory exists (d) or not (x), content of
                                     hwloc-cpuid-info (x = missing), names of the other directory entries

   <queries> = `-` or a.b.c.d,…   <table> = `-` or m.a.b.c.d.oa.ob.oc.od;…  (hex)   <names> = `-` or hex,hex,…
   answers:  RD: `null` | `nr=<n> leak=<0|1> T=<table> Q=<a.b.c.d,…>`   FI: `Q=<…>`
             CK: `rc=<0|-1> n=<weight> set=<i,j,…|->`  (`big`: an index ≥ 2^17 would reach the bitmap layer) -/
import Hw.Io.X86Dump
import Driver.Strings
namespace Driver.X86DumpEng
open Hw Hw.LinuxParse Hw.X86Dump Driver

def join (sep : String) (l : List String) : String :=
  match l with
  | [] => "-"
  | x :: xs => xs.foldl (fun s y => s ++ sep ++ y) x

def parseRegs (s : String) : Option Regs :=
  match (s.splitOn ".").mapM parseHex with
  | some [a, b, c, d] => some (a, b, c, d)
  | _ => none

def parseQueries (s : String) : Option (List Regs) :=
  if s = "-" then some [] else (s.splitOn ",").mapM parseRegs

def parseEntry (s : String) : Option Entry :=
  match (s.splitOn ".").mapM parseHex with
  | some l => Entry.ofList l
  | none => none

def parseTable (s : String) : Option (List Entry) :=
  if s = "-" then some [] else (s.splitOn ";").mapM parseEntry

def showRegs (r : Regs) : String := toHex r.1 ++ "." ++ toHex r.2.1 ++ "." ++ toHex r.2.2.1 ++ "." ++ toHex r.2.2.2

def showEntry (e : Entry) : String :=
  join "." ([e.inmask, e.ineax, e.inebx, e.inecx, e.inedx, e.outeax, e.outebx, e.outecx, e.outedx].map toHex)

def showTable (t : List Entry) : String := join ";" (t.map showEntry)
def showAnswers (t : List Entry) (qs : List Regs) : String := join "," ((findAll t qs).map showRegs)

/-- the uninitialised malloc'ed cells (their content must not matter) -/
def garbage : Entry := ⟨0xdead, 1, 2, 3, 4, 5, 6, 7, 8⟩

def parseNames (s : String) : Option (List (List Nat)) :=
  if s = "-" then some [] else (s.splitOn ",").mapM StringsEng.parseBytes

def bigBound : Nat := 2^17

def step (u : Unit) (line : String) : Unit × String :=
  let r : Option String :=
    match tokens line with
    | ["RD", c, qs] =>
      match parseQueries qs with
      | none => none
      | some qs =>
        if c = "x" then some "null"
        else match StringsEng.parseBytes c with
          | none => none
          | some bs =>
            -- the literal two-pass model with the checked stores
            match readFill bs (List.replicate (lines bs).length garbage) with
            | none => some "ub"
            | some st =>
              let t := st.mem.take st.nr
              some ("nr=" ++ toString st.nr ++ " leak=" ++ (if freeLeaks t then "1" else "0") ++ " T=" ++ showTable t ++
                    " Q=" ++ showAnswers t qs)
    | ["FI", t, qs] =>
      match parseTable t, parseQueries qs with
      | some t, some qs => some ("Q=" ++ showAnswers t qs)
      | _, _ => none
    | ["CK", d, s, ns] =>
      if d ≠ "d" ∧ d ≠ "x" then none else
      match (if s = "x" then some none else (StringsEng.parseBytes s).map some), parseNames ns with
      | some summary, some names =>
        let all := [str ".", str ".."] ++ (if summary.isSome then [str "hwloc-cpuid-info"] else []) ++ names
        let r := checkDir (d = "d") summary all
        if r.idxs.any (fun i => i ≥ bigBound) then some "big"
        else some ("rc=" ++ (if r.ok then "0" else "-1") ++ " n=" ++ toString (if r.idxs = [] then 0 else nbprocs r) ++
                   " set=" ++ join "," ((if r.idxs = [] then [] else setOf r.idxs).map toString))
      | _, _ => none
    | _ => none
  (u, r.getD "bad-op")

end Driver.X86DumpEng
