/- Driver.Synthetic — line protocol of the `synthetic` engine (C07).

   init <junk> <hex>            hwloc_backend_synthetic_init on a data block pre-filled with the byte `junk` (the result
                                must not depend on it: the model ignores it)
   set <hex>                    hwloc_topology_set_synthetic
   load <hex> <dump ; ...>      the public-API dump of the loaded topology: WF oracle + comparison with `buildTopo`
   export <flags> <cap> <hex>   hwloc_topology_export_synthetic into a `cap`-byte buffer
   fix <flags> <hex>            export, reload the exported string, export again
   tryload <hex>                (corpus) set + load + hwloc_topology_check in a child: ok / EINVAL / fail / crash
   numas <hex>                  the NUMA nodes of the loaded topology by os_index (os/memory/memory-side cache/PUs): `census`

   A description token is <hex> or <hex>@<F>, F = one character per object type: '-' = default type filter, '0'..'3' =
   hwloc_topology_set_type_filter(type, digit) called between init and load (Hw.Syn.effFilters); no '@' = the historic
   configuration (I-caches and MemCache KEEP_ALL).
-/
import Hw.Io.SyntheticTopo
import Hw.Io.SyntheticDump
import Hw.Io.SyntheticWFAll
import Hw.Io.SyntheticWF15
import Hw.Io.SyntheticOrder4
import Hw.Io.SyntheticFix2
import Hw.Io.SyntheticFix
import Hw.Topo.WF
import Driver.Topo
import Driver.Strings
namespace Driver.SyntheticEng
open Hw Hw.Syn Hw.Topo Driver

def hashIdx (l : List Nat) : Nat := l.foldl (fun h v => (h * 31 + v + 1) % 4294967296) 7

def showIdx (a : Option (List Nat)) : String :=
  match a with
  | none => "-"
  | some l => toString l.length ++ "/" ++ toString (hashIdx l) ++ "/" ++ toString (l.foldl max 0)

def showType (t : Nat) : String := if t = tNONE then "-1" else toString t

def showAttr (a : Attr) : String :=
  showType a.type ++ " " ++
  (if a.type = tGROUP ∨ isCacheT a.type then toString a.depth else "-") ++ " " ++
  (if isCacheT a.type then toString a.ctype else "-") ++ " " ++ toString a.mem ++ " " ++ toString a.msc

def showLevel (l : Syn.Level) : String :=
  toString l.arity ++ " " ++ toString l.width ++ " " ++ showAttr l.attr ++ " " ++ showIdx l.idx.arr ++ " [" ++
  " ".intercalate (l.attached.map (fun a => toString a.mem ++ "/" ++ toString a.msc)) ++ "]"

def crashKind (e : Syn.Err) : String :=
  match e with
  | .einval => "EINVAL"
  | .abort => "crash assert"
  | .divzero => "crash divzero"
  | .loopsOverflow => "crash loops-overflow"

/-- verdict of `parse` as printed for init/set: a log entry ≥ 128 is an out-of-bounds `level[]` access
(proved impossible: C07_parse_index_safe; still checked on every input) -/
def parseVerdict (bs : Bytes) : String × Option Parsed :=
  let r := parse bs
  if (logOf r).any (· ≥ maxDepth) then ("crash level-oob", none) else
  match r with
  | .error (e, _) => (crashKind e, none)
  | .ok p => ("ok", some p)

def showParsed (p : Parsed) : String :=
  "ok " ++ toString p.levels.length ++ " " ++ toString p.numaNr ++ " " ++ showIdx p.numaIdx.arr ++ " | " ++
  " | ".intercalate (p.levels.map showLevel)

/-! ### abstraction of a C dump -/

def objAt (d : Dump) (i : Int) : Option Obj := d.obj? i

/-- memory children of an object as (NUMA local memory, summed memcache sizes) -/
partial def memChildrenOf (d : Dump) (o : Obj) : Option (List MemChild) :=
  let rec chain (i : Int) (fuel : Nat) : Option (List MemChild) :=
    if i = -1 then some [] else
    match fuel, objAt d i with
    | 0, _ => none
    | _, none => none
    | f + 1, some c =>
      let rec down (c : Obj) (msc : Nat) (g : Nat) : Option MemChild :=
        if c.type = tNUMA then some ⟨((c.attrs[0]?).getD 0).toNat, msc⟩
        else if c.type = tMEMCACHE ∧ c.marity = 1 then
          match g, objAt d c.memFirst with
          | g' + 1, some n => down n (msc + ((c.attrs[0]?).getD 0).toNat) g'
          | _, _ => none
        else none
      match down c 0 16, chain c.nextSib f with
      | some m, some r => some (m :: r)
      | _, _ => none
  chain o.memFirst 4096

/-- the abstract view of a dump; `none` when the topology is not a regular tree -/
def absDump (d : Dump) : Option Topo := do
  let root ← d.objs[0]?
  let rootMem ← memChildrenOf d root
  let normal := d.levels.filter (fun l => decide (0 ≤ l.depth))
  let mut levels : List NLevel := []
  let mut parentArity := root.arity
  for l in normal.drop 1 do
    let objs ← l.objs.mapM (objAt d)
    let o0 ← objs.head?
    let m0 ← memChildrenOf d o0
    let sig (o : Obj) : Option (Nat × Nat × List Int × List MemChild) := do
      let m ← memChildrenOf d o
      pure (o.type, o.arity, (if isCacheT o.type then [(o.attrs[0]?).getD 0, (o.attrs[1]?).getD 0, (o.attrs[4]?).getD 0] else []), m)
    let s0 ← sig o0
    for o in objs do
      let s ← sig o
      if s != s0 then none
    let isMemGroup := o0.type == tGROUP && (o0.attrs[1]?).getD 0 == 1001
    levels := levels ++ [{ type := o0.type, arity := parentArity,
                           cdepth := if isCacheT o0.type then ((o0.attrs[1]?).getD 0).toNat else 0,
                           ctype := if isCacheT o0.type then (o0.attrs[4]?).getD 0 else 0,
                           size := if isCacheT o0.type then ((o0.attrs[0]?).getD 0).toNat else 0,
                           memGroup := isMemGroup, mem := m0, osIdx := objs.map (·.osidx),
                           gsub := if o0.type == tGROUP && !isMemGroup then ((o0.attrs[2]?).getD 0).toNat else 0 }]
    parentArity := o0.arity
  let puL ← normal.getLast?
  let pus ← puL.objs.mapM (objAt d)
  let numaL ← d.levels.find? (fun l => l.depth == -3)
  let numas ← numaL.objs.mapM (objAt d)
  pure { rootMem := rootMem, levels := levels, puIdx := pus.map (·.osidx.toNat), numaIdx := numas.map (·.osidx.toNat) }

/-- <hex> or <hex>@<F>: the description bytes and the filters in force at load -/
def parseDesc (tok : String) : Option (Bytes × List Nat) :=
  match tok.splitOn "@" with
  | [hx] => (StringsEng.parseBytes hx).map (fun bs => (bs, effFilters legacyReq))
  | [hx, fs] =>
    let cs := fs.toList
    if cs.length ≠ tMAX ∨ cs.any (fun c => !(c == '-' || c == '0' || c == '1' || c == '2' || c == '3')) then none else
    (StringsEng.parseBytes hx).map (fun bs =>
      (bs, effFilters (cs.map (fun c => if c == '-' then none else some (c.toNat - '0'.toNat)))))
  | _ => none

def legacyF : List Nat := effFilters legacyReq

/-- the NUMA nodes of a C dump: os_index, local memory, summed sizes of the MemCache objects above, cpuset -/
def dumpNumas (d : Dump) : Option (List NumaRec) :=
  (d.objs.filter (fun o => o.type == tNUMA)).mapM (fun o => do
    let rec up (i : Int) (msc : Nat) (fuel : Nat) : Option Nat :=
      match fuel, objAt d i with
      | 0, _ => none
      | _, none => none
      | g + 1, some q => if q.type = tMEMCACHE then up q.parent (msc + ((q.attrs[0]?).getD 0).toNat) g else some msc
    let msc ← up o.parent 0 16
    let cs ← o.cpuset
    pure ({ os := o.osidx.toNat, mem := ((o.attrs[0]?).getD 0).toNat, msc := msc, cpus := cs } : NumaRec))

def insertRec (r : NumaRec) : List NumaRec → List NumaRec
  | [] => [r]
  | x :: xs => if r.os < x.os then r :: x :: xs else x :: insertRec r xs
def sortRecs (l : List NumaRec) : List NumaRec := l.foldl (fun acc r => insertRec r acc) []

/-- first difference between the NUMA nodes the description describes and those of the loaded topology.  Without Groups
(filter KEEP_NONE) a node may hang from a larger object and then takes its cpuset: inclusion is required instead of equality -/
def censusDiff (f : List Nat) (p : Parsed) (d : Dump) : Option String :=
  match dumpNumas d with
  | none => some "unreadable"
  | some cn =>
    let mn := sortRecs (census (keeps f tMEMCACHE) p)
    let cn := sortRecs cn
    if mn.length ≠ cn.length then some ("count:" ++ toString cn.length ++ "!=" ++ toString mn.length) else
    (mn.zip cn).findSome? (fun (m, c) =>
      if m.os ≠ c.os then some ("os:" ++ toString c.os ++ "!=" ++ toString m.os)
      else if m.mem ≠ c.mem then some ("memory@" ++ toString m.os)
      else if m.msc ≠ c.msc ∧ f[tMEMCACHE]?.getD 0 ≠ fKeepStructure then some ("memcache@" ++ toString m.os)
      else if (if keeps f tGROUP then m.cpus ≠ c.cpus else m.cpus &&& c.cpus ≠ m.cpus) then some ("cpuset@" ++ toString m.os)
      else none)

def bitsOf (n : Nat) : List Nat := (List.range n.log2.succ).filter (fun i => n.testBit i)

def showRec (r : NumaRec) : String :=
  toString r.os ++ "/" ++ toString r.mem ++ "/" ++ toString r.msc ++ "/" ++
  (if r.cpus = 0 then "-" else ",".intercalate ((bitsOf r.cpus).map toString))

def joinBytes (cs : List Bytes) : Bytes := cs.flatten

def exportStr (t : Topo) (flags : Nat) : Option Bytes :=
  let r := exportChunks t flags
  if r.ok then some (joinBytes r.chunks) else none

/-- which parts of the structure a round trip under `flags` must preserve -/
def rtProject (flags : Nat) (t : Topo) : Topo :=
  let noattrs := hasFlag flags flagNoAttrs
  let nomem := hasFlag flags flagV1 || hasFlag flags flagIgnoreMem
  let noext := hasFlag flags flagNoExt
  { rootMem := if nomem then [] else if noattrs then t.rootMem.map (fun _ => ⟨0, 0⟩) else t.rootMem,
    levels := t.levels.map (fun l =>
      { l with size := if noattrs then 0 else l.size, memGroup := false, osIdx := [], gsub := 0,
               type := if (noext || hasFlag flags flagV1) && l.type == tDIE then tGROUP else l.type,
               mem := if nomem then [] else if noattrs then l.mem.map (fun _ => ⟨0, 0⟩) else l.mem }),
    puIdx := if noattrs then [] else t.puIdx,
    numaIdx := if noattrs || nomem then [] else t.numaIdx }

def step (u : Unit) (line : String) : Unit × String :=
  match tokens line with
  | ["init", junk, hx] =>
    match parseNat junk, parseDesc hx with
    | some _, some (bs, _) =>
      if bs.any (· == 0) then (u, "bad-op") else
      match parseVerdict bs with
      | (_, some p) => (u, showParsed p)
      | (v, none) => (u, v)
    | _, _ => (u, "bad-op")
  | ["set", hx] =>
    match parseDesc hx with
    | some (bs, _) =>
      if bs.any (· == 0) then (u, "bad-op") else
      (u, (parseVerdict bs).1)
    | none => (u, "bad-op")
  | "load" :: hx :: rest =>
    match parseDesc hx with
    | some (bs, f) =>
      -- the dump block, lines separated by ";"
      let lines := (" ".intercalate rest).splitOn ";"
      let r := lines.foldl (fun (acc : TopoEng.Partial × Option (Except String Dump)) l =>
        match acc.2 with
        | some _ => acc
        | none => TopoEng.feed acc.1 (tokens l)) (({} : TopoEng.Partial), none)
      match r.2 with
      | some (.ok d) =>
        let v := wfCheck d
        match parseVerdict bs with
        | (_, some p) =>
          if !v.isEmpty then (u, "load WF-FAIL " ++ ",".intercalate (v.take 6)) else
          if !loadable p then (u, "load model-says-not-loadable") else
          if d.filters ≠ f then (u, "load FILTER-DIFF") else
          -- every NUMA node of the description exists, whatever the filters and whether the tree is regular or not
          match censusDiff f p d with
          | some w => (u, "load CENSUS-DIFF " ++ w)
          | none =>
          match buildTopo f p with
          | none => (u, "load ok other")
          | some t =>
            match absDump d with
            | none => (u, "load BUILD-DIFF c-dump-not-regular")
            | some a =>
              if a = t then
                -- the complete dump: field-by-field comparison + the WF oracle on the model's own result
                let md := { toDump t with filters := f }
                match dumpDiff md d with
                | some f => (u, "load DUMP-DIFF " ++ f)
                | none =>
                  let mv := wfCheck md
                  -- `topoOK`: the side condition of the general well-formedness theorems (Hw.Io.SyntheticWF, C07_build_wf_*):
                  -- every topology the model builds and hwloc agrees with must satisfy it
                  if !mv.isEmpty then (u, "load MODEL-WF-FAIL " ++ ",".intercalate (mv.take 4))
                  else if !topoOK t || !puOK t || !memOK t || !numaOK t || !sibOK t then
                    (u, "load HYP-FAIL" ++ (if topoOK t then "" else " topoOK") ++ (if puOK t then "" else " puOK") ++
                      (if memOK t then "" else " memOK") ++ (if numaOK t then "" else " numaOK") ++ (if sibOK t then "" else " sibOK"))
                  -- C07_order_establishes_sib_partial / C07_buildTopo_sib_normal: `sibOK t` above is `sibNormalOK t && sibMemOK t` by
                  -- definition (Hw.Syn.sibOK_split, rfl); the PU count is the product of the arities
                  else if prodL (arities t) != t.puIdx.length then (u, "load HYP-FAIL order")
                  else (u, "load ok regular")
              else
                let what := if a.levels != t.levels then "levels" else if a.rootMem != t.rootMem then "rootmem"
                  else if a.puIdx != t.puIdx then "puidx" else "numaidx"
                (u, "load BUILD-DIFF " ++ what)
        | (v, none) => (u, "load model-rejects " ++ v)
      | some (.error e) => (u, "load dump-unparsable " ++ e)
      | none => (u, "load dump-incomplete")
    | none => (u, "bad-op")
  | ["export", flags, cap, hx] =>
    match parseNat flags, parseNat cap, parseDesc hx with
    | some flags, some cap, some (bs, f) =>
      match parseVerdict bs with
      | (_, some p) =>
        if !loadable p then (u, "export skip") else
        match buildTopo f p with
        | none => (u, "export skip")
        | some t =>
          let r := exportChunks t flags
          let c := emitAll cap r.chunks
          -- (C does not write the initial NUL of `Cur.start`; when nothing at all is emitted no cell is written)
          let cells := if r.chunks.isEmpty then String.join (List.replicate cap "--")
            else (List.range cap).foldl (fun s i => s ++ (match c.buf.get i with | some v => StringsEng.hex2 v | none => "--")) ""
          (u, "ret " ++ (if r.ok then toString c.ret else "-1") ++ " buf " ++ (if cap = 0 then "-" else cells))
      | (_, none) => (u, "load fail")
    | _, _, _ => (u, "bad-op")
  | ["fix", flags, hx] =>
    match parseNat flags, parseDesc hx with
    | some flags, some (bs, f) =>
      match parseVerdict bs with
      | (_, some p) =>
        if !loadable p then (u, "fix skip") else
        match buildTopo f p with
        | none => (u, "fix skip")
        | some t =>
          match exportStr t flags with
          | none => (u, "fix export-fail")
          | some e1 =>
            let pre := "fix " ++ StringsEng.bytesHex e1
            -- C07_export_fixpoint_partial (flags NO_ATTRS|IGNORE_MEMORY): the exported string - compared byte for byte with hwloc's -
            -- must be `printDesc` of the level structure, and re-importing it must give back exactly those types and arities
            let fixHyp : String :=
              -- ... and C07_export_fixpoint_flags_partial: the same under 11, 14, 15 when these flags change no level name
              if !(fixFlagsB flags && t.levels.all (nameStable flags)) then "" else
              match specsOf t.levels with
              | none => "no-canonical-name"
              | some specs =>
                if !acceptsB specs then "not-accepts" else
                if printDesc specs ≠ e1 then "printDesc" else
                match parse e1 with
                | .ok p2 => if p2.levels.map (·.attr.type) = expectedTypes specs ∧ p2.levels.map (·.arity) = expectedArities specs then ""
                            else "reparse-structure"
                | .error _ => "reparse-rejected"
            if fixHyp ≠ "" then (u, "fix HYP-FAIL " ++ fixHyp) else
            match parseVerdict e1 with
            | (v, none) => (u, pre ++ " load2=" ++ v)
            | (_, some p2) =>
              -- the exported string is re-imported with every type it can name kept
              match buildTopo legacyF p2 with
              | none => (u, "fix skip")
              | some t2 =>
                match exportStr t2 flags with
                | none => (u, pre ++ " load2=ok export2-fail")
                | some e2 =>
                  (u, pre ++ " load2=ok same=" ++ (if e2 = e1 then "1" else "0") ++
                      " rt=" ++ (if rtProject flags t2 = rtProject flags t then "1" else "0"))
      | (_, none) => (u, "load fail")
    | _, _ => (u, "bad-op")
  | ["numas", hx] =>
    match parseDesc hx with
    | some (bs, f) =>
      match parseVerdict bs with
      | (_, some p) =>
        -- without Groups a node may take the cpuset of a larger parent; MemCache KEEP_STRUCTURE is not modelled (the `load`
        -- op still compares count, os_index and memory of every node)
        if !loadable p ∨ !keeps f tGROUP ∨ f[tMEMCACHE]?.getD 0 = fKeepStructure then (u, "numas skip") else
        let rs := sortRecs (census (keeps f tMEMCACHE) p)
        (u, "numas " ++ toString rs.length ++ String.join (rs.map (fun r => " " ++ showRec r)))
      | (v, none) => (u, "numas " ++ v)
    | none => (u, "bad-op")
  | ["tryload", hx] =>
    -- corpus op: set + load + hwloc_topology_check in a child process
    match parseDesc hx with
    | some (bs, _) =>
      match parseVerdict bs with
      | (_, some p) => (u, if loadable p then "tryload ok" else "tryload skip")
      | (v, none) => (u, "tryload " ++ v)
    | none => (u, "bad-op")
  | _ => (u, "bad-op")

end Driver.SyntheticEng
