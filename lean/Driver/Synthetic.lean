/- Driver.Synthetic — line protocol of the `synthetic` engine (C07).

   init <junk> <hex>            hwloc_backend_synthetic_init on a data block pre-filled with the byte `junk` (the result
                                must not depend on it: the model ignores it)
   set <hex>                    hwloc_topology_set_synthetic
   load <hex> <dump ; ...>      the public-API dump of the loaded topology: WF oracle + comparison with `buildTopo`
   export <flags> <cap> <hex>   hwloc_topology_export_synthetic into a `cap`-byte buffer
   fix <flags> <hex>            export, reload the exported string, export again
   tryload <hex>                (corpus) set + load + hwloc_topology_check in a child: ok / EINVAL / fail / crash
-/
import Hw.Io.SyntheticTopo
import Hw.Io.SyntheticDump
import Hw.Topo.WF
import Driver.Topo
import Driver.Strings
namespace Driver.SyntheticEng
open Hw Hw.Syn Hw.Topo Driver

def hashIdx (l : List Nat) : Nat := l.foldl (fun h v => (h * 31 + v + 1) % 4294967296) 7

def showIdx (a : Option (List Nat)) : String :=
  match a with
  | none => "-"
  | some l => toString l.length ++ "/" ++ toString (hashIdx l) ++ "/" ++ toString (l.foldl max 0)

def showType (t : Nat) : String := if t = tNONE then "-1" else toString t

def showAttr (a : Attr) : String :=
  showType a.type ++ " " ++
  (if a.type = tGROUP ∨ isCacheT a.type then toString a.depth else "-") ++ " " ++
  (if isCacheT a.type then toString a.ctype else "-") ++ " " ++ toString a.mem ++ " " ++ toString a.msc

def showLevel (l : Syn.Level) : String :=
  toString l.arity ++ " " ++ toString l.width ++ " " ++ showAttr l.attr ++ " " ++ showIdx l.idx.arr ++ " [" ++
  " ".intercalate (l.attached.map (fun a => toString a.mem ++ "/" ++ toString a.msc)) ++ "]"

def crashKind (e : Syn.Err) : String :=
  match e with
  | .einval => "EINVAL"
  | .abort => "crash assert"
  | .divzero => "crash divzero"
  | .loopsOverflow => "crash loops-overflow"

/-- verdict of `parse` as printed for init/set: a log entry ≥ 128 is an out-of-bounds `level[]` access
(proved impossible: C07_parse_index_safe; still checked on every input) -/
def parseVerdict (bs : Bytes) : String × Option Parsed :=
  let r := parse bs
  if (logOf r).any (· ≥ maxDepth) then ("crash level-oob", none) else
  match r with
  | .error (e, _) => (crashKind e, none)
  | .ok p => ("ok", some p)

def showParsed (p : Parsed) : String :=
  "ok " ++ toString p.levels.length ++ " " ++ toString p.numaNr ++ " " ++ showIdx p.numaIdx.arr ++ " | " ++
  " | ".intercalate (p.levels.map showLevel)

/-! ### abstraction of a C dump -/

def objAt (d : Dump) (i : Int) : Option Obj := d.obj? i

/-- memory children of an object as (NUMA local memory, summed memcache sizes) -/
partial def memChildrenOf (d : Dump) (o : Obj) : Option (List MemChild) :=
  let rec chain (i : Int) (fuel : Nat) : Option (List MemChild) :=
    if i = -1 then some [] else
    match fuel, objAt d i with
    | 0, _ => none
    | _, none => none
    | f + 1, some c =>
      let rec down (c : Obj) (msc : Nat) (g : Nat) : Option MemChild :=
        if c.type = tNUMA then some ⟨((c.attrs[0]?).getD 0).toNat, msc⟩
        else if c.type = tMEMCACHE ∧ c.marity = 1 then
          match g, objAt d c.memFirst with
          | g' + 1, some n => down n (msc + ((c.attrs[0]?).getD 0).toNat) g'
          | _, _ => none
        else none
      match down c 0 16, chain c.nextSib f with
      | some m, some r => some (m :: r)
      | _, _ => none
  chain o.memFirst 4096

/-- the abstract view of a dump; `none` when the topology is not a regular tree -/
def absDump (d : Dump) : Option Topo := do
  let root ← d.objs[0]?
  let rootMem ← memChildrenOf d root
  let normal := d.levels.filter (fun l => decide (0 ≤ l.depth))
  let mut levels : List NLevel := []
  let mut parentArity := root.arity
  for l in normal.drop 1 do
    let objs ← l.objs.mapM (objAt d)
    let o0 ← objs.head?
    let m0 ← memChildrenOf d o0
    let sig (o : Obj) : Option (Nat × Nat × List Int × List MemChild) := do
      let m ← memChildrenOf d o
      pure (o.type, o.arity, (if isCacheT o.type then [(o.attrs[0]?).getD 0, (o.attrs[1]?).getD 0, (o.attrs[4]?).getD 0] else []), m)
    let s0 ← sig o0
    for o in objs do
      let s ← sig o
      if s != s0 then none
    let isMemGroup := o0.type == tGROUP && (o0.attrs[1]?).getD 0 == 1001
    levels := levels ++ [{ type := o0.type, arity := parentArity,
                           cdepth := if isCacheT o0.type then ((o0.attrs[1]?).getD 0).toNat else 0,
                           ctype := if isCacheT o0.type then (o0.attrs[4]?).getD 0 else 0,
                           size := if isCacheT o0.type then ((o0.attrs[0]?).getD 0).toNat else 0,
                           memGroup := isMemGroup, mem := m0, osIdx := objs.map (·.osidx),
                           gsub := if o0.type == tGROUP && !isMemGroup then ((o0.attrs[2]?).getD 0).toNat else 0 }]
    parentArity := o0.arity
  let puL ← normal.getLast?
  let pus ← puL.objs.mapM (objAt d)
  let numaL ← d.levels.find? (fun l => l.depth == -3)
  let numas ← numaL.objs.mapM (objAt d)
  pure { rootMem := rootMem, levels := levels, puIdx := pus.map (·.osidx.toNat), numaIdx := numas.map (·.osidx.toNat) }

def joinBytes (cs : List Bytes) : Bytes := cs.flatten

def exportStr (t : Topo) (flags : Nat) : Option Bytes :=
  let r := exportChunks t flags
  if r.ok then some (joinBytes r.chunks) else none

/-- which parts of the structure a round trip under `flags` must preserve -/
def rtProject (flags : Nat) (t : Topo) : Topo :=
  let noattrs := hasFlag flags flagNoAttrs
  let nomem := hasFlag flags flagV1 || hasFlag flags flagIgnoreMem
  let noext := hasFlag flags flagNoExt
  { rootMem := if nomem then [] else if noattrs then t.rootMem.map (fun _ => ⟨0, 0⟩) else t.rootMem,
    levels := t.levels.map (fun l =>
      { l with size := if noattrs then 0 else l.size, memGroup := false, osIdx := [], gsub := 0,
               type := if (noext || hasFlag flags flagV1) && l.type == tDIE then tGROUP else l.type,
               mem := if nomem then [] else if noattrs then l.mem.map (fun _ => ⟨0, 0⟩) else l.mem }),
    puIdx := if noattrs then [] else t.puIdx,
    numaIdx := if noattrs || nomem then [] else t.numaIdx }

def step (u : Unit) (line : String) : Unit × String :=
  match tokens line with
  | ["init", junk, hx] =>
    match parseNat junk, StringsEng.parseBytes hx with
    | some _, some bs =>
      if bs.any (· == 0) then (u, "bad-op") else
      match parseVerdict bs with
      | (_, some p) => (u, showParsed p)
      | (v, none) => (u, v)
    | _, _ => (u, "bad-op")
  | ["set", hx] =>
    match StringsEng.parseBytes hx with
    | some bs =>
      if bs.any (· == 0) then (u, "bad-op") else
      (u, (parseVerdict bs).1)
    | none => (u, "bad-op")
  | "load" :: hx :: rest =>
    match StringsEng.parseBytes hx with
    | some bs =>
      -- the dump block, lines separated by ";"
      let lines := (" ".intercalate rest).splitOn ";"
      let r := lines.foldl (fun (acc : TopoEng.Partial × Option (Except String Dump)) l =>
        match acc.2 with
        | some _ => acc
        | none => TopoEng.feed acc.1 (tokens l)) (({} : TopoEng.Partial), none)
      match r.2 with
      | some (.ok d) =>
        let v := wfCheck d
        match parseVerdict bs with
        | (_, some p) =>
          if !v.isEmpty then (u, "load WF-FAIL " ++ ",".intercalate (v.take 6)) else
          if !loadable p then (u, "load model-says-not-loadable") else
          match buildTopo p with
          | none => (u, "load ok other")
          | some t =>
            match absDump d with
            | none => (u, "load BUILD-DIFF c-dump-not-regular")
            | some a =>
              if a = t then
                -- the complete dump: field-by-field comparison + the WF oracle on the model's own result
                let md := toDump t
                match dumpDiff md d with
                | some f => (u, "load DUMP-DIFF " ++ f)
                | none =>
                  let mv := wfCheck md
                  if mv.isEmpty then (u, "load ok regular") else (u, "load MODEL-WF-FAIL " ++ ",".intercalate (mv.take 4))
              else
                let what := if a.levels != t.levels then "levels" else if a.rootMem != t.rootMem then "rootmem"
                  else if a.puIdx != t.puIdx then "puidx" else "numaidx"
                (u, "load BUILD-DIFF " ++ what)
        | (v, none) => (u, "load model-rejects " ++ v)
      | some (.error e) => (u, "load dump-unparsable " ++ e)
      | none => (u, "load dump-incomplete")
    | none => (u, "bad-op")
  | ["export", flags, cap, hx] =>
    match parseNat flags, parseNat cap, StringsEng.parseBytes hx with
    | some flags, some cap, some bs =>
      match parseVerdict bs with
      | (_, some p) =>
        if !loadable p then (u, "export skip") else
        match buildTopo p with
        | none => (u, "export skip")
        | some t =>
          let r := exportChunks t flags
          let c := emitAll cap r.chunks
          -- (C does not write the initial NUL of `Cur.start`; when nothing at all is emitted no cell is written)
          let cells := if r.chunks.isEmpty then String.join (List.replicate cap "--")
            else (List.range cap).foldl (fun s i => s ++ (match c.buf.get i with | some v => StringsEng.hex2 v | none => "--")) ""
          (u, "ret " ++ (if r.ok then toString c.ret else "-1") ++ " buf " ++ (if cap = 0 then "-" else cells))
      | (_, none) => (u, "load fail")
    | _, _, _ => (u, "bad-op")
  | ["fix", flags, hx] =>
    match parseNat flags, StringsEng.parseBytes hx with
    | some flags, some bs =>
      match parseVerdict bs with
      | (_, some p) =>
        if !loadable p then (u, "fix skip") else
        match buildTopo p with
        | none => (u, "fix skip")
        | some t =>
          match exportStr t flags with
          | none => (u, "fix export-fail")
          | some e1 =>
            let pre := "fix " ++ StringsEng.bytesHex e1
            match parseVerdict e1 with
            | (v, none) => (u, pre ++ " load2=" ++ v)
            | (_, some p2) =>
              match buildTopo p2 with
              | none => (u, "fix skip")
              | some t2 =>
                match exportStr t2 flags with
                | none => (u, pre ++ " load2=ok export2-fail")
                | some e2 =>
                  (u, pre ++ " load2=ok same=" ++ (if e2 = e1 then "1" else "0") ++
                      " rt=" ++ (if rtProject flags t2 = rtProject flags t then "1" else "0"))
      | (_, none) => (u, "load fail")
    | _, _ => (u, "bad-op")
  | ["tryload", hx] =>
    -- corpus op: set + load + hwloc_topology_check in a child process
    match StringsEng.parseBytes hx with
    | some bs =>
      match parseVerdict bs with
      | (_, some p) => (u, if loadable p then "tryload ok" else "tryload skip")
      | (v, none) => (u, "tryload " ++ v)
    | none => (u, "bad-op")
  | _ => (u, "bad-op")

end Driver.SyntheticEng
