/- Driver.RestrictSide — the side structures (distances, CPU kinds, memory attributes) under hwloc_topology_restrict (C08).

   The harness observes them through the public API (`SIDE I` block: adopted; `SIDE O <mask>` blocks: compared).  Between two
   observations the state is carried by the EXISTING models of C13 / C15 / C14, which are differential-tested against the same C
   code by their own engines:
     restrict (successful)  Hw.Dist.invalidate, Hw.CpuKinds.restrictKinds (default ranking strategy), Hw.MemAttrs.needRefresh
     observation            Hw.Dist.refreshList (re-resolution + in-place sub-matrix compaction, drop below 2 objects),
                            Hw.MemAttrs.ensureValid (targets / initiators dropped, cpuset initiators clipped to the root cpuset)
   against the objects and the root cpuset of the tree that the C08 model (Hw.Topo.Restrict) predicts, not of hwloc's AFTER dump.
   A refused restrict leaves the state untouched.  The prediction is rendered in the harness' line format and compared line by line. -/
import Hw.Topo.RestrictSide
import Driver.Util
namespace Driver.RestrictSide
open Driver
open Hw.Topo.RestrictSide (Side envOf)

/-! ### objects: os_index is kept shifted by one (0 = unknown) because `Hw.Dist.Obj.os` is a `Nat` -/

def mkObj (ty : Nat) (gp : Nat) (os : Int) : Hw.Dist.Obj := { ty := (ty : Int), gp := gp, os := (os + 1).toNat, sw := false }
def showObj (o : Hw.Dist.Obj) : String := toString o.ty ++ ":" ++ toString o.gp ++ ":" ++ toString ((o.os : Int) - 1)

def parseObj (s : String) : Option Hw.Dist.Obj :=
  match s.splitOn ":" with
  | [a, b, c] => do
    let ty ← parseNat a; let gp ← parseNat b; let os ← parseInt c
    pure (mkObj ty gp os)
  | _ => none

def allSome {α : Type} : List (Option α) → Option (List α)
  | [] => some []
  | none :: _ => none
  | some x :: r => (allSome r).map (x :: ·)

/-! ### parsing an observation (adoption) -/

def parseSD (s : Side) (t : List String) : Option Side :=
  match t with
  | name :: kind :: n :: rest => do
    let kind ← parseNat kind; let n ← parseNat n
    if rest.length ≠ n + n * n then none else
    let objs ← allSome ((rest.take n).map parseObj)
    let vals ← allSome ((rest.drop n).map parseNat)
    let hetero := kind &&& Hw.Dist.KIND_HETEROGENEOUS != 0
    let uniq : Int := if hetero then Hw.Dist.TY_NONE else match objs with | o :: _ => o.ty | [] => Hw.Dist.TY_NONE
    let d : Hw.Dist.Dist :=
      { id := s.dists.length, name := some name, kind := kind, uniq := uniq, hetero := hetero, n := n,
        idx := objs.map (fun o => if Hw.Dist.useOs uniq then o.os else o.gp),
        tys := if hetero then objs.map (·.ty) else [],
        objs := objs.map some, valid := true, vals := vals }
    pure { s with dists := s.dists ++ [d], names := s.names ++ [name] }
  | _ => none

def parsePairs : List String → Option (List (String × String))
  | [] => some []
  | a :: b :: r => (parsePairs r).map ((a, b) :: ·)
  | _ => none

def parseSK (s : Side) (t : List String) : Option Side :=
  match t with
  | cs :: eff :: forced :: n :: rest => do
    let cs ← parseHex cs; let eff ← parseInt eff; let forced ← parseInt forced; let n ← parseNat n
    let infos ← parsePairs rest
    if infos.length ≠ n then none else
    pure { s with kinds := s.kinds ++ [{ cpuset := cs, eff := eff, forced := forced, infos := infos }] }
  | _ => none

def parseSA (s : Side) (t : List String) : Option Side :=
  match t with
  | [id, name, flags] => do
    let id ← parseNat id; let flags ← parseNat flags
    pure { s with attrs := s.attrs ++ [(id, { name := name, flags := flags, conv := false, valid := true, targets := [] })] }
  | _ => none

def updAttr (s : Side) (id : Nat) (f : Hw.MemAttrs.Attr → Hw.MemAttrs.Attr) : Option Side :=
  if s.attrs.any (·.1 == id) then some { s with attrs := s.attrs.map (fun p => if p.1 == id then (p.1, f p.2) else p) } else none

def parseST (s : Side) (t : List String) : Option Side :=
  match t with
  | [id, obj, v] => do
    let id ← parseNat id; let o ← parseObj obj; let v ← parseNat v
    updAttr s id (fun a => { a with targets := a.targets ++
      [{ type := o.ty.toNat, gp := o.gp, os := if o.os == 0 then none else some (o.os - 1), inits := [], noinit := v }] })
  | _ => none

def parseLoc (s : String) : Option Hw.MemAttrs.Loc :=
  if s.startsWith "c" then (parseHex (s.drop 1).toString).map .cpuset
  else if s.startsWith "o" then
    match (s.drop 1).toString.splitOn ":" with
    | [a, b] => do let ty ← parseNat a; let gp ← parseNat b; pure (.obj ty gp)
    | _ => none
  else none

def parseSI (s : Side) (t : List String) : Option Side :=
  match t with
  | [id, tgp, loc, v, _gv] => do
    let id ← parseNat id; let tgp ← parseNat tgp; let loc ← parseLoc loc; let v ← parseNat v
    updAttr s id (fun a => { a with targets := a.targets.map (fun tg =>
      if tg.gp == tgp then { tg with inits := tg.inits ++ [⟨loc, v⟩] } else tg) })
  | _ => none

def adoptLine (s : Side) (t : List String) : Option Side :=
  match t with
  | "SD" :: r => parseSD s r
  | "SK" :: r => parseSK s r
  | "SA" :: r => parseSA s r
  | "ST" :: r => parseST s r
  | "SI" :: r => parseSI s r
  | _ => none

def adopt (lines : List (List String)) : Option Side :=
  lines.foldl (fun acc t => acc.bind (fun s => adoptLine s t)) (some {})

/- the two transitions `Side.restrict` / `Side.observe` are the model Hw.Topo.RestrictSide -/

/-! ### rendering the prediction in the harness' format -/

def showLoc : Hw.MemAttrs.Loc → String
  | .cpuset m => "c" ++ toHex m
  | .obj t g => "o" ++ toString t ++ ":" ++ toString g

def renderDist (s : Side) (d : Hw.Dist.Dist) : List String :=
  ["SD", s.names.getD d.id "?", toString d.kind, toString d.n] ++
  d.objs.map (fun o => match o with | some x => showObj x | none => "NULL") ++ d.vals.map toString

def renderKind (k : Hw.CpuKinds.Kind) : List String :=
  ["SK", toHex k.cpuset, toString k.eff, "-", toString k.infos.length] ++ k.infos.flatMap (fun p => [p.1, p.2])

def renderAttr (p : Nat × Hw.MemAttrs.Attr) : List (List String) :=
  let (id, a) := p
  ["SA", toString id, a.name, toString a.flags] ::
  a.targets.flatMap (fun t =>
    ["ST", toString id, toString t.type ++ ":" ++ toString t.gp ++ ":" ++ (match t.os with | some o => toString o | none => "-1"),
     toString (if a.needInit then 0 else t.noinit)] ::
    (if a.needInit then t.inits.map (fun i =>
      ["SI", toString id, toString t.gp, showLoc i.loc, toString i.value,
       -- hwloc_memattr_get_value asked with this very initiator: first stored initiator that matches (Hw.MemAttrs.findInit)
       match Hw.MemAttrs.findInit i.loc t.inits with | some j => toString j.value | none => "E"]) else []))

def render (s : Side) (mask : Nat) : List (List String) :=
  (if mask.testBit 0 then s.dists.map (renderDist s) else []) ++
  (if mask.testBit 1 then s.kinds.map renderKind else []) ++
  (if mask.testBit 2 then s.attrs.flatMap renderAttr else [])

def summary (lines : List (List String)) : String :=
  let cnt (k : String) := (lines.filter (fun t => t.head? == some k)).length
  "nd=" ++ toString (cnt "SD") ++ " nk=" ++ toString (cnt "SK") ++ " na=" ++ toString (cnt "SA") ++ " nt=" ++ toString (cnt "ST")

def clip (s : String) : String := if s.length > 300 then (s.take 300).toString ++ "..." else s

def firstDiff (m c : List (List String)) (i : Nat := 0) : Option String :=
  match m, c with
  | [], [] => none
  | x :: xs, y :: ys => if x == y then firstDiff xs ys (i + 1) else
      some ("line" ++ toString i ++ ":model=" ++ clip ("_".intercalate x) ++ ":hwloc=" ++ clip ("_".intercalate y))
  | x :: _, [] => some ("line" ++ toString i ++ ":model=" ++ clip ("_".intercalate x) ++ ":hwloc=<none>")
  | [], y :: _ => some ("line" ++ toString i ++ ":model=<none>:hwloc=" ++ clip ("_".intercalate y))

/-- answer to `SEND` of a `SIDE O <mask>` block: new state and the answer line -/
def observeVerdict (s : Side) (mask : Nat) (obs : List (List String)) : Side × String :=
  let s' := s.observe mask
  let pred := render s' mask
  let out := "side mask=" ++ toString mask ++ " " ++ summary pred
  match firstDiff pred obs with
  | none => (s', out)
  | some d => (s', out ++ " MISMATCH side-structures:" ++ d)

end Driver.RestrictSide
