import Driver.Bitmap
import Driver.Strings
import Driver.Topo
import Driver.CpuKinds
import Driver.MemAttrs
import Driver.TypeStr
import Driver.History
import Driver.Diff
import Driver.Bind
import Driver.Distances
import Driver.Shmem
import Driver.Helpers
import Driver.Restrict
import Driver.Conc
import Driver.Dup
import Driver.XmlRt
import Driver.XmlScan
import Driver.LinuxParse
import Driver.Snapshots
import Driver.Synthetic
import Driver.Tools
import Driver.SetStage
import Driver.X86Dump
open Driver

def main (args : List String) : IO UInt32 := do
  let stdin ← IO.getStdin
  let stdout ← IO.getStdout
  match args with
  | ["bitmap"] =>
    lineLoop stdin stdout (BitmapEng.init 8) BitmapEng.step
    return 0
  | ["strings"] =>
    lineLoop stdin stdout () StringsEng.step
    return 0
  | ["topo"] =>
    lineLoop stdin stdout ({} : TopoEng.Partial) TopoEng.step
    return 0
  | ["cpukinds"] =>
    lineLoop stdin stdout CpuKindsEng.init CpuKindsEng.step
    return 0
  | ["memattrs"] =>
    lineLoop stdin stdout (MemAttrsEng.init 4) MemAttrsEng.step
    return 0
  | ["typestr"] =>
    lineLoop stdin stdout TypeStrEng.init TypeStrEng.step
    return 0
  | ["history"] =>
    lineLoop stdin stdout ({} : HistoryEng.St) HistoryEng.step
    return 0
  | ["diff"] =>
    lineLoop stdin stdout DiffEng.init DiffEng.step
    return 0
  | ["bind"] =>
    lineLoop stdin stdout BindEng.init BindEng.step
    return 0
  | ["distances"] =>
    lineLoop stdin stdout DistancesEng.init DistancesEng.step
    return 0
  | ["shmem"] =>
    lineLoop stdin stdout ShmemEng.init ShmemEng.step
    return 0
  | ["helpers"] =>
    lineLoop stdin stdout HelpersEng.init HelpersEng.step
    return 0
  | "restrict" :: rest =>
    lineLoop stdin stdout (RestrictEng.init (rest.contains "selfcheck")) RestrictEng.step
    return 0
  | ["readonly"] =>
    lineLoop stdin stdout () ConcEng.stepRO
    return 0
  | ["conc"] =>
    lineLoop stdin stdout () ConcEng.stepConc
    return 0
  | ["dup"] =>
    lineLoop stdin stdout ({} : DupEng.St) DupEng.step
    return 0
  | ["xmlrt"] =>
    lineLoop stdin stdout ({} : XmlRtEng.St) XmlRtEng.step
    return 0
  | ["xmlscan"] =>
    lineLoop stdin stdout XmlScanEng.init XmlScanEng.step
    return 0
  | ["linuxparse"] =>
    lineLoop stdin stdout () LinuxParseEng.step
    return 0
  | ["x86dump"] =>
    lineLoop stdin stdout () X86DumpEng.step
    return 0
  | ["snapshots"] =>
    lineLoop stdin stdout ({} : SnapshotsEng.St) SnapshotsEng.step
    return 0
  | ["synthetic"] =>
    lineLoop stdin stdout () SyntheticEng.step
    return 0
  | ["setstage"] =>
    lineLoop stdin stdout ({} : SetStageEng.St) SetStageEng.step
    return 0
  | ["tools"] =>
    lineLoop stdin stdout ToolsEng.init ToolsEng.step
    return 0
  | _ =>
    IO.eprintln "usage: hwmodel <engine>"
    return 2
