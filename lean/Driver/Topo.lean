/- Driver.Topo — parsing of topology dump blocks (harness/dump.h) and the `topo` engine (C01 oracle). -/
import Hw.Topo.WF
import Hw.Topo.InsertWF
import Hw.Topo.RenderOf
import Driver.Util
import Hw.Topo.Symmetric
namespace Driver.TopoEng
open Hw.Topo Driver

def parseSet (s : String) : Option (Option Nat) :=
  if s = "-" then some none
  else if s.startsWith "I" then none          -- infinite set: never legal in a loaded topology
  else (parseHex s).map some

def parseIntList (s : String) : Option (List Int) :=
  if s = "-" then some [] else (s.splitOn ",").mapM parseInt

def hexStr (s : String) : Option (Option String) :=
  if s = "-" then some none
  else if s = "=" then some (some "")
  else
    let cs := s.toList
    let rec go : List Char → List Char → Option (List Char)
      | [], acc => some acc.reverse
      | a :: b :: r, acc => match hexDigitVal a, hexDigitVal b with
        | some x, some y => go r (Char.ofNat (x * 16 + y) :: acc)
        | _, _ => none
      | _, _ => none
    (go cs []).map (fun l => some (String.ofList l))

def parseInfos : List String → Option (List (String × String))
  | [] => some []
  | n :: v :: r => do
    let n ← hexStr n
    let v ← hexStr v
    let rest ← parseInfos r
    pure ((n.getD "", v.getD "") :: rest)
  | _ => none

def parseObj (t : List String) : Option Obj :=
  match t with
  | id :: ty :: depth :: lidx :: osidx :: gp :: parent :: rank :: arity :: marity :: ioarity :: miscarity ::
    nextsib :: prevsib :: nextc :: prevc :: firstc :: lastc :: memf :: iof :: miscf :: symm ::
    cpuset :: ccpuset :: nodeset :: cnodeset :: totalmem :: a0 :: a1 :: a2 :: a3 :: a4 :: a5 ::
    children :: subtype :: name :: ninfos :: infos => do
    let id ← parseNat id; let ty ← parseNat ty; let depth ← parseInt depth; let lidx ← parseNat lidx
    let osidx ← parseInt osidx; let gp ← parseNat gp; let parent ← parseInt parent; let rank ← parseNat rank
    let arity ← parseNat arity; let marity ← parseNat marity; let ioarity ← parseNat ioarity; let miscarity ← parseNat miscarity
    let nextsib ← parseInt nextsib; let prevsib ← parseInt prevsib; let nextc ← parseInt nextc; let prevc ← parseInt prevc
    let firstc ← parseInt firstc; let lastc ← parseInt lastc; let memf ← parseInt memf; let iof ← parseInt iof
    let miscf ← parseInt miscf; let symm ← parseInt symm
    let cpuset ← parseSet cpuset; let ccpuset ← parseSet ccpuset; let nodeset ← parseSet nodeset; let cnodeset ← parseSet cnodeset
    let totalmem ← parseNat totalmem
    let attrs ← [a0, a1, a2, a3, a4, a5].mapM parseInt
    let children ← parseIntList children
    let subtype ← hexStr subtype; let name ← hexStr name
    let ninfos ← parseNat ninfos
    let infos ← parseInfos infos
    if infos.length ≠ ninfos then none else
    pure { id := id, type := ty, depth := depth, lidx := lidx, osidx := osidx, gp := gp, parent := parent, rank := rank,
           arity := arity, marity := marity, ioarity := ioarity, miscarity := miscarity, nextSib := nextsib, prevSib := prevsib,
           nextCousin := nextc, prevCousin := prevc, firstChild := firstc, lastChild := lastc, memFirst := memf, ioFirst := iof,
           miscFirst := miscf, symm := symm, cpuset := cpuset, ccpuset := ccpuset, nodeset := nodeset, cnodeset := cnodeset,
           totalMem := totalmem, attrs := attrs, children := children, subtype := subtype, name := name, infos := infos }
  | _ => none

/-- a dump being assembled (objects and levels accumulate in reverse) -/
structure Partial where
  tag : String := ""
  head : Option Dump := none
  objs : List Obj := []
  levels : List Level := []
  tds : List Int := []
  bad : Option String := none

def Partial.finish (p : Partial) : Except String Dump :=
  match p.bad, p.head with
  | some e, _ => .error e
  | none, none => .error "no-TOPO-line"
  | none, some h => .ok { h with objs := p.objs.reverse, levels := p.levels.reverse, typeDepths := p.tds }

/-- feed one dump line; `none` while the block is open, `some dump` at END -/
def feed (p : Partial) (t : List String) : Partial × Option (Except String Dump) :=
  let fail (msg : String) : Partial × Option (Except String Dump) := ({ p with bad := p.bad.orElse (fun _ => some msg) }, none)
  match t with
  | "TOPO" :: tag :: flags :: depth :: root :: nobjs :: acpu :: anode :: filters :: [] =>
    match parseNat flags, parseNat depth, parseInt root, parseNat nobjs, parseSet acpu, parseSet anode,
          (filters.splitOn ",").mapM parseNat with
    | some f, some dp, some r, some n, some ac, some an, some fl =>
      ({ tag := tag, head := some { flags := f, depth := dp, root := r, nobjs := n, allowedCpuset := ac, allowedNodeset := an,
                                    filters := fl, objs := [], levels := [], typeDepths := [] } }, none)
    | _, _, _, _, _, _, _ => ({ tag := tag, bad := some "bad-TOPO-line" }, none)
  | "O" :: rest => match parseObj rest with
    | some o => ({ p with objs := o :: p.objs }, none)
    | none => fail ("bad-O-line:" ++ (rest.head?.getD "?"))
  | "L" :: depth :: ty :: n :: ids => match parseInt depth, parseInt ty, parseNat n, ids.mapM parseInt with
    | some d, some ty, some n, some ids => if ids.length = n then ({ p with levels := ⟨d, ty, ids⟩ :: p.levels }, none) else fail "bad-L-count"
    | _, _, _, _ => fail "bad-L-line"
  | ["TD", tds] => match (tds.splitOn ",").mapM parseInt with
    | some l => ({ p with tds := l }, none)
    | none => fail "bad-TD-line"
  | ["END", _] => ({}, some p.finish)
  | _ => fail "bad-line"

def enumLine : String := "ENUM 0 1 2 3 4 5 6 7 8 9 10 11 12 13 14 15 16 17 18 19 20"

def step (p : Partial) (line : String) : Partial × String :=
  let t := tokens line
  match t with
  | "ENUM" :: _ => (p, if (" ".intercalate t) = enumLine then "ENUM ok" else "ENUM MISMATCH (model constants differ from hwloc_obj_type_t)")
  | _ =>
    let (p', r) := feed p t
    match r with
    | none => (p', ".")
    | some (.error e) => (p', "WF FAIL dump-unparsable:" ++ e)
    | some (.ok d) =>
      let v := wfCheck d
      -- re-insertion oracle: the loaded tree is a fixed point of the model of hwloc___insert_object_by_cpuset
      let ri := match d.objs[d.root.toNat]? with
        | some r => (match Ins.reinsertAgrees (Ins.treeC d d.fuel r) with | some false => ["reinsertion-differs"] | _ => [])
        | none => []
      -- renderer oracle: the loaded topology is a fixed point of the renderer (links, levels, cousins, type depths recomputed
      -- from the bare tree must reproduce hwloc's connect code), and its tree is typed with a normal root; by
      -- C01_links_of_render the 18 link / level clauses then FOLLOW (they are not merely evaluated)
      let v := v ++ ri ++ Hw.Topo.Restrict.renderCheck d ++ Hw.Topo.Sym.symCheck d
      (p', if v.isEmpty then "WF ok" else "WF FAIL " ++ ",".intercalate (v.take 6))

end Driver.TopoEng
