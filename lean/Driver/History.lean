/- Driver.History — the `history` engine (C02): judges every step of a history of modifying calls. -/
import Hw.Topo.History
import Driver.Topo
namespace Driver.HistoryEng
open Hw.Topo Hw.Topo.Hist Driver

structure St where
  prev : Option Dump := none
  cur : TopoEng.Partial := {}
  op : List String := []
  ret : Option (Int × String) := none

/-- argument sets: `-` NULL, `<hex>` finite, `I<hex>` all bits above the printed digits set (clamped to `width`) -/
def parseArgSet (s : String) (width : Nat) : Option (Option Nat) :=
  if s = "-" then some none
  else if s.startsWith "I" then
    let h := (s.drop 1).toString
    match parseHex h with
    | some v =>
      let k := 4 * h.length
      let top := if k < width then ((1 <<< (width - k)) - 1) <<< k else 0
      some (some (v ||| top))
    | none => none
  else (parseHex s).map some

def optStr (s : String) : Option (Option String) := TopoEng.hexStr s

def widthOf (d : Dump) : Nat :=
  match d.objs[0]? with
  | some r => (max ((r.ccpuset.getD 0).log2) ((r.cnodeset.getD 0).log2)) + 70
  | none => 70

def parseOp (d : Dump) (t : List String) : Option HOp :=
  match t with
  | ["allow", f, c, n] => do
    let f ← parseNat f; let c ← parseArgSet c (widthOf d); let n ← parseArgSet n (widthOf d)
    pure (.allow f c n)
  | ["addinfo", i, n, v] => do
    let i ← parseNat i; let n ← optStr n; let v ← optStr v
    pure (.addInfo (i % d.objs.length) n v)
  | ["modinfos", i, op, n, v] => do
    let i ← parseNat i; let op ← parseNat op; let n ← optStr n; let v ← optStr v
    pure (.modifyInfos (i % d.objs.length) op n v)
  | ["subtype", i, s] => do
    let i ← parseNat i; let s ← optStr s
    pure (.setSubtype (i % d.objs.length) s)
  | _ => none

def retMatches (r : Ret) (c : Int × String) : Bool :=
  match r with
  | .ok v => c.1 == v
  | .einval => c.1 == -1 && c.2 == "EINVAL"

/-- first field in which two dumps differ (for diagnostics) -/
def firstDiff (a b : Dump) : String :=
  if a.allowedCpuset != b.allowedCpuset || a.allowedNodeset != b.allowedNodeset then "allowed-sets"
  else if a.objs.length != b.objs.length then "object-count"
  else match (a.objs.zip b.objs).find? (fun p => p.1 != p.2) with
    | some p => "object@" ++ toString p.1.id
    | none => if a.levels != b.levels then "levels" else if a.flags != b.flags then "flags" else "other"

def judge (st : St) (new : Dump) : String :=
  let wf := wfCheck new
  let r1 := if wf.isEmpty then [] else ["wf:" ++ ",".intercalate (wf.take 4)]
  let r2 := match st.prev with
    | none => []
    | some prev =>
      let g := if gpStable prev new then [] else ["gp-index-or-type-changed"]
      let opname := st.op.head?.getD ""
      let failed := match st.ret with | some (r, _) => decide (r < 0) | none => false
      let p := match parseOp prev st.op with
        | some hop =>
          let (pd, pr) := step prev hop
          (if (match st.ret with | some c => retMatches pr c | none => false) then [] else ["return-differs-from-model"]) ++
          (if pd == new then [] else ["state-differs-from-model:" ++ firstDiff pd new])
        | none =>
          -- calls documented to leave the topology untouched on failure
          if failed && (opname == "restrict" || opname == "allow" || opname == "group") then
            (if prev == new then [] else ["modified-on-failure:" ++ firstDiff prev new])
          else []
      g ++ p
  let rs := r1 ++ r2
  if rs.isEmpty then "OK" else "FAIL " ++ " ".intercalate rs

def step (st : St) (line : String) : St × String :=
  let t := tokens line
  match t with
  | "LOAD" :: _ => ({}, ".")
  | ["LOADFAIL"] => (st, ".")
  | "OP" :: rest => ({ st with op := rest, ret := none }, ".")
  | ["RET", r, e] => ({ st with ret := (parseInt r).map (fun r => (r, e)) }, ".")
  | "UD" :: _ => (st, " ".intercalate t)
  | _ =>
    let (p', r) := TopoEng.feed st.cur t
    match r with
    | none => ({ st with cur := p' }, ".")
    | some (.error e) => ({ st with cur := {}, prev := none }, "FAIL dump-unparsable:" ++ e)
    | some (.ok d) => ({ st with cur := {}, prev := some d }, judge st d)

end Driver.HistoryEng
